(** C11 — the `Info` a renderer passes down ([env : tI O]) matters only through what the sounds,
    the effects and the control step read from it: two environments related by [R] on which they
    all agree give the same rendering (any [ops]).  Used for the kira instance with
    [R (dt, T) (dt', T') := dt = dt']: the internal buffer size [T] the effects were init'ed with
    does not influence what they compute. *)
From Coq Require Import List Arith Bool PeanoNat Lia.
From KV Require Import C02.Model C02.ProofsList C02.ProofsRefine C02.ProofsCor C11.Proofs.
Import ListNotations.

Section EnvIrr.
  Variable O : ops.
  Variable R : tI O -> tI O -> Prop.
  Hypothesis Renv : forall cs e1 e2, R e1 e2 -> R (o_env O cs e1) (o_env O cs e2).
  Hypothesis Rres : forall e1 e2 n, R e1 e2 -> R (o_res O e1 n) (o_res O e2 n).
  Hypothesis Rsnd : forall e1 e2 s n, R e1 e2 -> o_snd O e1 s n = o_snd O e2 s n.
  Hypothesis Rfx : forall e1 e2 e xs, R e1 e2 -> o_fx O e1 e xs = o_fx O e2 e xs.
  Hypothesis Rctl : forall e1 e2 cs n, R e1 e2 -> o_ctl O e1 cs n = o_ctl O e2 cs n.

  Lemma sounds_env e1 e2 m : R e1 e2 -> forall snds acc, spec_sounds O e1 snds m acc = spec_sounds O e2 snds m acc.
  Proof.
    intros H. induction snds as [|s r IH]; intros acc; [reflexivity|].
    cbn [spec_sounds]. unfold snd_call. rewrite (Rsnd e1 e2 s m H).
    destruct (o_snd O e2 s m) as [s' o]. now rewrite IH.
  Qed.
  Lemma effects_env e1 e2 : R e1 e2 -> forall fx out, effects_process O e1 fx out = effects_process O e2 fx out.
  Proof.
    intros H. induction fx as [|e r IH]; intros out; [reflexivity|].
    cbn [effects_process]. unfold fx_call. rewrite (Rfx e1 e2 e out H).
    destruct (o_fx O e2 e out) as [e' ys]. now rewrite IH.
  Qed.
  Lemma subs_ext (p1 p2 : strack O -> strack O * list (tF O) * emis O) l :
    Forall (fun t => p1 t = p2 t) l -> forall acc, spec_subs O p1 l acc = spec_subs O p2 l acc.
  Proof.
    induction 1 as [|t l Ht HF IH]; intros acc; [reflexivity|].
    cbn [spec_subs]. rewrite Ht. destruct (p2 t) as [[t' sig] em]. now rewrite IH.
  Qed.
  Lemma track_env m : forall t e1 e2, R e1 e2 -> spec_track O e1 m t = spec_track O e2 m t.
  Proof.
    apply (strack_ind' O (fun t => forall e1 e2, R e1 e2 -> spec_track O e1 m t = spec_track O e2 m t)).
    intros cs subs snds fx routes HF e1 e2 H. cbn [spec_track].
    pose proof (Renv cs e1 e2 H) as H'.
    rewrite (Rctl _ _ cs m H'). destruct (o_ctl O (o_env O cs e2) cs m) as [cs' c].
    destruct (c_adv c); [|reflexivity].
    rewrite (subs_ext (spec_track O (o_env O cs e1) m) (spec_track O (o_env O cs e2) m) subs).
    2:{ eapply Forall_impl; [|exact HF]. cbn. intros t Ht. apply Ht. exact H'. }
    destruct (spec_subs O (spec_track O (o_env O cs e2) m) subs (zeros O m)) as [[subs' acc1] em1].
    rewrite (sounds_env _ _ m H'). destruct (spec_sounds O (o_env O cs e2) snds m acc1) as [snds' acc2].
    rewrite (effects_env _ _ H'). reflexivity.
  Qed.
  Lemma sends_env e1 e2 m em : R e1 e2 -> forall l acc, spec_sends O e1 m em l acc = spec_sends O e2 m em l acc.
  Proof.
    intros H. induction l as [|[k s] l IH]; intros acc; [reflexivity|].
    cbn [spec_sends]. unfold spec_send. rewrite (Rctl _ _ (ss_ctl O s) _ H).
    destruct (o_ctl O e2 (ss_ctl O s) (length (send_input O m k em))) as [cs' c].
    rewrite (effects_env _ _ H). destruct (effects_process O e2 (ss_fx O s) _) as [fx' y]. now rewrite IH.
  Qed.
  Lemma mix_env e1 e2 sx m : R e1 e2 -> spec_mix O e1 sx m = spec_mix O e2 sx m.
  Proof.
    intros H. unfold spec_mix.
    rewrite (subs_ext (spec_track O e1 m) (spec_track O e2 m) (sx_subs O sx)).
    2:{ apply Forall_forall. intros t _. apply track_env. exact H. }
    destruct (spec_subs O (spec_track O e2 m) (sx_subs O sx) (zeros O m)) as [[subs' acc1] em].
    rewrite (sends_env _ _ m em H). destruct (spec_sends O e2 m em (sx_sends O sx) acc1) as [sends' acc2].
    unfold spec_main. rewrite (Rctl _ _ _ m H). destruct (o_ctl O e2 (sm_ctl O (sx_main O sx)) m) as [cs' c].
    rewrite (sounds_env _ _ m H). destruct (spec_sounds O e2 (sm_snds O (sx_main O sx)) m acc2) as [snds' acc3].
    rewrite (effects_env _ _ H). reflexivity.
  Qed.
  Lemma chunks_env ch ms : forall e1 e2 sx, R e1 e2 ->
    snd (fst (spec_chunks O ch (e1, sx) ms)) = snd (fst (spec_chunks O ch (e2, sx) ms)) /\
    snd (spec_chunks O ch (e1, sx) ms) = snd (spec_chunks O ch (e2, sx) ms).
  Proof.
    induction ms as [|m ms IH]; intros e1 e2 sx H; cbn [spec_chunks]; [split; reflexivity|].
    unfold spec_chunk. cbn [fst snd]. pose proof (Rres e1 e2 m H) as H'.
    rewrite (mix_env _ _ sx m H'). destruct (spec_mix O (o_res O e2 m) sx m) as [sx' sig].
    destruct (IH _ _ sx' H') as [I1 I2].
    destruct (spec_chunks O ch (o_res O e1 m, sx') ms) as [st1 o1].
    destruct (spec_chunks O ch (o_res O e2 m, sx') ms) as [st2 o2]. cbn [fst snd] in *.
    split; congruence.
  Qed.

  (** the buffer-level renderer: same device output, same final mixer *)
  Theorem run_callbacks_env ch b e1 e2 sx cbs :
    R e1 e2 -> 1 <= b -> NoDup (map fst (sx_sends O sx)) ->
    snd (run_callbacks O ch (conc_renderer O b e1 sx) cbs) = snd (run_callbacks O ch (conc_renderer O b e2 sx) cbs) /\
    r_mixer O (fst (run_callbacks O ch (conc_renderer O b e1 sx) cbs)) =
    r_mixer O (fst (run_callbacks O ch (conc_renderer O b e2 sx) cbs)).
  Proof.
    intros H Hb ND. rewrite !run_callbacks_chunks'. cbn [r_b conc_renderer].
    destruct (concat_chunks_spec b cbs Hb) as [F1 _].
    assert (F1' : Forall (fun m => m <= b) (concat (map (chunk_sizes b) cbs)))
      by (eapply Forall_impl; [|exact F1]; cbn; intros; lia).
    rewrite !chunks_refine by assumption. cbn [fst snd r_mixer conc_renderer].
    destruct (chunks_env ch (concat (map (chunk_sizes b) cbs)) e1 e2 sx H) as [E1 E2].
    rewrite E1, E2. split; reflexivity.
  Qed.
End EnvIrr.
