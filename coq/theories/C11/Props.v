(** C11 — property theorems (statements closed by [exact]).
    [O : ops] (C02/Model.v) bundles the frame arithmetic, the sounds, the effects, the control
    behaviour and the output stage (any per-frame map [o_out ch], in particular kira's: clamp,
    1 channel (l + r) / 2, >= 2 channels l, r and silence on the rest).  No algebraic law is
    assumed about the arithmetic, so the equalities are bit-for-bit for IEEE floats. *)
From Coq Require Import ZArith QArith List Arith Bool PeanoNat.
From KV Require Import Base.IEEE Base.Outcome Base.Num C19.Model C06.Model C13.ModelOps C13.ModelTree.
From KV Require Import C02.Model C02.ProofsList C02.ProofsRefine C02.ProofsCor C02.ProofsLog C11.Proofs.
From KV Require Import C11.InstancesFx C11.InstancesSnd C11.InstancesEnv C11.Instances C11.InstancesB64 C11.InstancesStop.
From KV Require C04.Model C11.Examples C11.InstancesEx.
Import ListNotations.
Close Scope Q_scope.

(** Rendered audio does not depend on buffer sizes: if every sound is a frame-sequential source
    ([sound_seq]), every effect a frame-sequential transducer ([effect_seq]) — both are discharged
    below for C04's static sound and C13's effect tree ([kira_hypotheses_hold]) —, all track parameters
    are constant ([ctl_steady]) and no clock / modulator / listener is in play ([res_steady]), then
    for every two configurations (internal buffer size b, callback sizes cbs) and (b', cbs') with
    b, b' >= 1 and the same total number of frames, the buffer-level renderer produces the same
    device samples and ends in the same state — on any number of channels. *)
Theorem render_partition_independent_any :
  forall (O : ops) (ch b b' : nat) (cbs cbs' : list nat) (res : tI O) (sx : smixer O),
    sound_seq O -> effect_seq O -> ctl_steady O -> res_steady O ->
    1 <= b -> 1 <= b' -> NoDup (map fst (sx_sends O sx)) -> list_sum cbs = list_sum cbs' ->
    snd (run_callbacks O ch (conc_renderer O b res sx) cbs) = snd (run_callbacks O ch (conc_renderer O b' res sx) cbs') /\
    abs_mixer O (r_mixer O (fst (run_callbacks O ch (conc_renderer O b res sx) cbs))) =
    abs_mixer O (r_mixer O (fst (run_callbacks O ch (conc_renderer O b' res sx) cbs'))).
Proof. exact render_partition_independent. Qed.

(** the core: the whole mixer (tree, sends, effect chains, main track) is itself a
    frame-sequential transducer *)
Theorem mixer_is_frame_sequential_any :
  forall (O : ops), sound_seq O -> effect_seq O -> ctl_steady O ->
    forall (env : tI O) (sx : smixer O) (n m : nat),
      spec_mix O env sx (n + m) =
      (fst (spec_mix O env (fst (spec_mix O env sx n)) m),
       snd (spec_mix O env sx n) ++ snd (spec_mix O env (fst (spec_mix O env sx n)) m)).
Proof. exact mix_seq. Qed.

(** any two lists of non-empty chunks with the same total render the same (one-frame chunks,
    b = 4096, sizes that are not a multiple of b, ...) *)
Theorem chunks_partition_independent_any :
  forall (O : ops), sound_seq O -> effect_seq O -> ctl_steady O -> res_steady O ->
    forall (ch : nat) (st : tI O * smixer O) (ms ms' : list nat),
      Forall (fun m => 1 <= m) ms -> Forall (fun m => 1 <= m) ms' -> list_sum ms = list_sum ms' ->
      spec_chunks O ch st ms = spec_chunks O ch st ms'.
Proof. exact chunks_partition_independent. Qed.

(** a remainder chunk (shorter than b) uses only the first m entries of every buffer: same
    output and same signal-level state as with buffers of any other size >= m (no hypothesis on
    sounds, effects or parameters) *)
Theorem remainder_chunk_any :
  forall (O : ops) (env : tI O) (b b' m : nat) (sx : smixer O),
    m <= b -> m <= b' -> NoDup (map fst (sx_sends O sx)) ->
    snd (mixer_process O env (conc_mixer O b sx) (zeros O m)) = snd (mixer_process O env (conc_mixer O b' sx) (zeros O m)) /\
    fst (mixer_process O env (conc_mixer O b sx) (zeros O m)) = conc_mixer O b (fst (spec_mix O env sx m)) /\
    fst (mixer_process O env (conc_mixer O b' sx) (zeros O m)) = conc_mixer O b' (fst (spec_mix O env sx m)).
Proof. exact remainder_chunk. Qed.

(** Renderer::process splits a callback of n frames into chunks of 1..b frames that sum to n *)
Theorem callback_chunks_any :
  forall b n : nat, 1 <= b ->
    Forall (fun m => 1 <= m <= b) (chunk_sizes b n) /\ list_sum (chunk_sizes b n) = n.
Proof. exact chunk_sizes_spec. Qed.

(** * The hypotheses discharged: the kira instance (C11/Instances*.v)

    [kira_ops K interp cast fone fuel clamp1] is the [ops] made of C13's stereo frames and effect
    tree (driven by C13's [process]), C04's static sound (driven frame by frame by C04's
    [frame_step] with a fixed rate), constant track / route volumes, no pause, `Info` =
    (dt, internal buffer size handed to [Effect::init]).  The sample type [F] with its operations,
    the literals, the resampler's interpolation, the casts and the time type [T] are universally
    quantified: no law about them is used. *)

(** the four hypotheses of [render_partition_independent_any] hold of the kira instance *)
Theorem kira_hypotheses_hold :
  forall (F : Type) (OPS : Ops F) (K : consts F) (T : Type) (NT : Num T)
         (interp : frame F -> frame F -> frame F -> frame F -> F -> frame F)
         (cast : T -> F) (fone : F) (fuel : nat) (clamp1 : F -> F),
    let KO := kira_ops K interp cast fone fuel clamp1 in
    sound_seq KO /\ effect_seq KO /\ ctl_steady KO /\ res_steady KO.
Proof. exact (@kira_hypotheses). Qed.

(** The closed corollary: any scene of static sounds and built-in effects (sub-tracks nested at
    will, sends, effect chains, delays with nested feedback effects), every parameter fixed, no
    command: two configurations (internal buffer size b, callback sizes cbs) and (b', cbs') with
    the same total number of frames render the same device samples, bit for bit, and end in the
    same state — whatever internal buffer sizes [Tb], [Tb'] the effects were init'ed with
    (kira: [Tb = b], [Tb' = b']). *)
Theorem render_partition_independent_kira :
  forall (F : Type) (OPS : Ops F) (K : consts F) (T : Type) (NT : Num T)
         (interp : frame F -> frame F -> frame F -> frame F -> F -> frame F)
         (cast : T -> F) (fone : F) (fuel : nat) (clamp1 : F -> F),
    let KO := kira_ops K interp cast fone fuel clamp1 in
    forall (ch b b' : nat) (cbs cbs' : list nat) (dt : T) (Tb Tb' : nat) (sx : smixer KO),
      1 <= b -> 1 <= b' -> NoDup (map fst (sx_sends KO sx)) -> list_sum cbs = list_sum cbs' ->
      snd (run_callbacks KO ch (conc_renderer KO b (dt, Tb) sx) cbs) =
      snd (run_callbacks KO ch (conc_renderer KO b' (dt, Tb') sx) cbs') /\
      abs_mixer KO (r_mixer KO (fst (run_callbacks KO ch (conc_renderer KO b (dt, Tb) sx) cbs))) =
      abs_mixer KO (r_mixer KO (fst (run_callbacks KO ch (conc_renderer KO b' (dt, Tb') sx) cbs'))).
Proof. exact (@render_partition_independent_kira_gen). Qed.

(** The effect component IS C13's code: on a well-formed state ([wf]: what [init] makes, preserved)
    and a slice that fits the internal buffer, [o_fx] is one call of C13's [process], which
    returns [Ok]; the effect's parameters stay, the new state is well-formed. *)
Theorem kira_effect_is_process :
  forall (F : Type) (OPS : Ops F) (K : consts F) (T : Type) (NT : Num T)
         (interp : frame F -> frame F -> frame F -> frame F -> F -> frame F)
         (cast : T -> F) (fone : F) (fuel : nat) (clamp1 : F -> F),
    let KO := kira_ops K interp cast fone fuel clamp1 in
    forall (dt : T) (Tb : nat) (e : effect F) (s : estate F) (xs : list (frame F)),
      wf e s = true -> length xs <= Tb ->
      process K Tb e s xs = Ok (snd (fst (o_fx KO (dt, Tb) (e, s) xs)), snd (o_fx KO (dt, Tb) (e, s) xs)) /\
      fst (fst (o_fx KO (dt, Tb) (e, s) xs)) = e /\
      wf e (snd (fst (o_fx KO (dt, Tb) (e, s) xs))) = true.
Proof. exact (@kira_fx_is_process). Qed.

(** ... on ANY slice it is C13's [process] applied to the pieces of [Tb] frames (never a panic) ... *)
Theorem kira_effect_is_process_slices :
  forall (F : Type) (OPS : Ops F) (K : consts F) (Tb : nat) (e : effect F) (s : estate F) (xs : list (frame F)),
    wf e s = true -> 1 <= Tb ->
    process_slices K Tb e s (slices Tb xs) = Ok (snd (fst (kfx K Tb (e, s) xs)), snd (kfx K Tb (e, s) xs)).
Proof. exact (@kfx_is_process_slices). Qed.

(** ... and fitting slices are all it sees: in a run with internal buffer size b every sound and
    every effect of the scene is called on exactly the chunk sequence b, .., b, remainder of each
    callback (C02's call logs for the kira instance), each chunk of 1..b frames. *)
Theorem kira_slices_fit :
  forall (F : Type) (OPS : Ops F) (K : consts F) (T : Type) (NT : Num T)
         (interp : frame F -> frame F -> frame F -> frame F -> F -> frame F)
         (cast : T -> F) (fone : F) (fuel : nat) (clamp1 : F -> F),
    let KO := kira_ops K interp cast fone fuel clamp1 in
    forall (ch b : nat) (res : T * nat) (sx : smixer (logged KO)) (cbs : list nat),
      1 <= b -> NoDup (map fst (sx_sends (logged KO) sx)) ->
      let ms := concat (map (chunk_sizes b) cbs) in
      mlogs_of KO (abs_mixer (logged KO)
        (r_mixer (logged KO) (fst (run_callbacks (logged KO) ch (conc_renderer (logged KO) b res sx) cbs))))
      = map_mlogs (fun l => l ++ ms) (mlogs_of KO sx)
      /\ Forall (fun m => 1 <= m <= b) ms.
Proof. exact (@Instances.kira_slices_fit). Qed.

(** The sound component IS C04's code, binary64 time: with a fixed, idle rate parameter
    ([rate_steady]) on every chunk (of fewer than 2^53 frames) that C04's [process] completes with
    the sound still playing, [kiter] (= [o_snd] of the kira instance) returns the same state and the
    same frames ... *)
Theorem kira_sound_is_process_f64 :
  forall (A : Type) (azero : A) (F : Type) (ascale : A -> F -> A) (fone : F) (fuel : nat)
         (powf : f64 -> f64 -> f64) (interp : A -> A -> A -> A -> F -> A) (cast : f64 -> F)
         (s s' : C04.StaticSound.ssound f64 A) (n : nat) (dt : f64) (l : list A),
    rate_steady A s -> (Z.of_nat n < 2 ^ 53)%Z ->
    C04.StaticSound.process powf A azero F interp cast ascale fone fuel s (Z.of_nat n) dt = Ok (s', l) ->
    C04.StaticSound.s_stopped s' = false ->
    kiter A azero F interp cast ascale fone fuel dt n (Some s) = (Some s', l).
Proof. exact kiter_is_process_f64. Qed.

(** ... the same in exact arithmetic, for every chunk length ... *)
Theorem kira_sound_is_process_Q :
  forall (A : Type) (azero : A) (F : Type) (ascale : A -> F -> A) (fone : F) (fuel : nat)
         (powf : Q -> Q -> Q) (interp : A -> A -> A -> A -> F -> A) (cast : Q -> F)
         (s s' : C04.StaticSound.ssound Q A) (n : nat) (dt : Q) (l : list A),
    rate_steady A s ->
    C04.StaticSound.process powf A azero F interp cast ascale fone fuel s (Z.of_nat n) dt = Ok (s', l) ->
    C04.StaticSound.s_stopped s' = false ->
    kiter A azero F interp cast ascale fone fuel dt n (Some s) = (Some s', l).
Proof. exact kiter_is_process_Q. Qed.

(** ... and once the sound has stopped both give silence and leave the state alone (any number type). *)
Theorem kira_sound_is_process_stopped :
  forall (T : Type) (NT : Num T) (ND : NumDur T) (powf : T -> T -> T)
         (A : Type) (azero : A) (F : Type) (interp : A -> A -> A -> A -> F -> A) (cast : T -> F)
         (ascale : A -> F -> A) (fone : F) (fuel : nat)
         (s : C04.StaticSound.ssound T A) (n : nat) (dt : T),
    rate_steady A s -> C04.StaticSound.s_stopped s = true ->
    C04.StaticSound.process powf A azero F interp cast ascale fone fuel s (Z.of_nat n) dt = Ok (s, repeat azero n) /\
    kiter A azero F interp cast ascale fone fuel dt n (Some s) = (Some s, repeat azero n).
Proof. exact (@kiter_is_process_stopped). Qed.

(** The sequentiality lemma for C04's per-frame loop itself: with a fixed rate, n + m frames in
    one call = n frames, then m frames (same frames, same final state, same failure if any). *)
Theorem static_sound_frames_loop_sequential_f64 :
  forall (A : Type) (azero : A) (F : Type) (ascale : A -> F -> A) (fone : F) (fuel : nat)
         (interp : A -> A -> A -> A -> F -> A) (cast : f64 -> F)
         (s : C04.StaticSound.ssound f64 A) (n m : nat) (dt : f64),
    rate_steady A s -> (Z.of_nat (n + m) < 2 ^ 53)%Z ->
    C04.StaticSound.frames_loop A azero F interp cast ascale fone fuel (n + m) 0 (Z.of_nat (n + m)) dt s =
    (let! (s1, l1) := C04.StaticSound.frames_loop A azero F interp cast ascale fone fuel n 0 (Z.of_nat n) dt s in
     let! (s2, l2) := C04.StaticSound.frames_loop A azero F interp cast ascale fone fuel m 0 (Z.of_nat m) dt s1 in
     Ok (s2, l1 ++ l2)).
Proof. exact frames_loop_steady_app_f64. Qed.

(** The exact steadiness condition, in binary64: for every frame i of a chunk of fewer than 2^53
    frames a fixed parameter contributes [interpolated_value(1)] — (i + 1) / len is finite and
    positive.  (A tweening parameter does not: [increment_of] reads (i + 1) / len, so the premise
    "all parameters constant" is needed.) *)
Theorem fixed_rate_irrelevant_f64 :
  forall (r : f64) (i num : Z), (0 <= i < num)%Z -> (num <= 2 ^ 53 - 1)%Z ->
    lerp r r (ndiv (nofZ (i + 1)) (nofZ num)) = lerp r r n1.
Proof. exact fixed_rate_f64. Qed.

(** What is NOT sequential in C04's [process]: the STATE after the chunk in which a sound stops.
    A 3-frame sound at rate 1.5 asked for 6 frames at once or for 3 + 3: same frames, both
    Stopped, but [fractional_position] 0 against 1/2 (the single call keeps stepping the stopped
    sound to the end of its chunk).  Not audible; the kira instance freezes a stopped sound. *)
Theorem static_sound_stop_chunk_state_witness :
  match C04.StaticSound.sound_new C04.Model.frameQ C04.Interp.frame_zero 50%nat stop_data with
  | Ok s => rate_steady C04.Model.frameQ s /\ C04.StaticSound.s_stopped s = false
  | _ => False
  end /\
  exists l : list C04.Model.frameQ,
    stop_run [6%Z] = Some (true, 0%Q, l) /\ stop_run [3%Z; 3%Z] = Some (true, (1 # 2)%Q, l).
Proof. exact process_stop_chunk_state_witness. Qed.

(** Non-vacuity, evaluated in binary32 / binary64 (C11/InstancesEx.v): a sub-track with two static
    sounds at rates 1.5 (looping) and 0.75 and the chain low-pass filter -> delay (feedback through
    a band-pass filter) -> reverb, routed to a send with a compressor; stereo device; internal
    buffer 2 with callbacks 3,1,4 against internal buffer 3 with callbacks 1,1,2,4 (effects
    init'ed with 2 resp. 3): the same 16 samples (bit patterns), none of them NaN, not silence. *)
Theorem kira_example_two_partitions :
  InstancesEx.ex_render 2 [3; 1; 4] = InstancesEx.ex_render 3 [1; 1; 2; 4] /\
  length (InstancesEx.ex_render 2 [3; 1; 4]) = 16 /\
  Forall (fun z => (0 <= z)%Z) (InstancesEx.ex_render 2 [3; 1; 4]) /\
  nth 9 (InstancesEx.ex_render 2 [3; 1; 4]) 0%Z <> 0%Z.
Proof. exact InstancesEx.ex_two_partitions. Qed.
