(** C11 — property theorems (statements closed by [exact]).
    [O : ops] (C02/Model.v) bundles the frame arithmetic, the sounds, the effects, the control
    behaviour and the output stage (any per-frame map [o_out ch], in particular kira's: clamp,
    1 channel (l + r) / 2, >= 2 channels l, r and silence on the rest).  No algebraic law is
    assumed about the arithmetic, so the equalities are bit-for-bit for IEEE floats. *)
From Coq Require Import List Arith Bool PeanoNat.
From KV Require Import C02.Model C02.ProofsList C02.ProofsRefine C02.ProofsCor C11.Proofs.
From KV Require C11.Examples.
Import ListNotations.

(** Rendered audio does not depend on buffer sizes: if every sound is a frame-sequential source
    ([sound_seq], discharged for kira's sounds by C04 / C09), every effect a frame-sequential
    transducer ([effect_seq], discharged for the built-in effects by C13), all track parameters
    are constant ([ctl_steady]) and no clock / modulator / listener is in play ([res_steady]), then
    for every two configurations (internal buffer size b, callback sizes cbs) and (b', cbs') with
    b, b' >= 1 and the same total number of frames, the buffer-level renderer produces the same
    device samples and ends in the same state — on any number of channels. *)
Theorem render_partition_independent_any :
  forall (O : ops) (ch b b' : nat) (cbs cbs' : list nat) (res : tI O) (sx : smixer O),
    sound_seq O -> effect_seq O -> ctl_steady O -> res_steady O ->
    1 <= b -> 1 <= b' -> NoDup (map fst (sx_sends O sx)) -> list_sum cbs = list_sum cbs' ->
    snd (run_callbacks O ch (conc_renderer O b res sx) cbs) = snd (run_callbacks O ch (conc_renderer O b' res sx) cbs') /\
    abs_mixer O (r_mixer O (fst (run_callbacks O ch (conc_renderer O b res sx) cbs))) =
    abs_mixer O (r_mixer O (fst (run_callbacks O ch (conc_renderer O b' res sx) cbs'))).
Proof. exact render_partition_independent. Qed.

(** the core: the whole mixer (tree, sends, effect chains, main track) is itself a
    frame-sequential transducer *)
Theorem mixer_is_frame_sequential_any :
  forall (O : ops), sound_seq O -> effect_seq O -> ctl_steady O ->
    forall (env : tI O) (sx : smixer O) (n m : nat),
      spec_mix O env sx (n + m) =
      (fst (spec_mix O env (fst (spec_mix O env sx n)) m),
       snd (spec_mix O env sx n) ++ snd (spec_mix O env (fst (spec_mix O env sx n)) m)).
Proof. exact mix_seq. Qed.

(** any two lists of non-empty chunks with the same total render the same (one-frame chunks,
    b = 4096, sizes that are not a multiple of b, ...) *)
Theorem chunks_partition_independent_any :
  forall (O : ops), sound_seq O -> effect_seq O -> ctl_steady O -> res_steady O ->
    forall (ch : nat) (st : tI O * smixer O) (ms ms' : list nat),
      Forall (fun m => 1 <= m) ms -> Forall (fun m => 1 <= m) ms' -> list_sum ms = list_sum ms' ->
      spec_chunks O ch st ms = spec_chunks O ch st ms'.
Proof. exact chunks_partition_independent. Qed.

(** a remainder chunk (shorter than b) uses only the first m entries of every buffer: same
    output and same signal-level state as with buffers of any other size >= m (no hypothesis on
    sounds, effects or parameters) *)
Theorem remainder_chunk_any :
  forall (O : ops) (env : tI O) (b b' m : nat) (sx : smixer O),
    m <= b -> m <= b' -> NoDup (map fst (sx_sends O sx)) ->
    snd (mixer_process O env (conc_mixer O b sx) (zeros O m)) = snd (mixer_process O env (conc_mixer O b' sx) (zeros O m)) /\
    fst (mixer_process O env (conc_mixer O b sx) (zeros O m)) = conc_mixer O b (fst (spec_mix O env sx m)) /\
    fst (mixer_process O env (conc_mixer O b' sx) (zeros O m)) = conc_mixer O b' (fst (spec_mix O env sx m)).
Proof. exact remainder_chunk. Qed.

(** Renderer::process splits a callback of n frames into chunks of 1..b frames that sum to n *)
Theorem callback_chunks_any :
  forall b n : nat, 1 <= b ->
    Forall (fun m => 1 <= m <= b) (chunk_sizes b n) /\ list_sum (chunk_sizes b n) = n.
Proof. exact chunk_sizes_spec. Qed.
