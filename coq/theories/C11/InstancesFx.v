(** C11 — the effect component of the kira instance of C02's [ops]: C13's effect tree (all
    seven built-in effects, delays with nested feedback chains) driven by C13's [process].

    C02 wants a TOTAL function [o_fx : I -> ES -> list F -> ES * list F] on ANY state and ANY slice
    length; C13's [process K T e s xs] returns an [outcome] and is specified for well-formed states
    ([wf e s = true]: the shape [init] gives, delay line of [max d 1] frames, non-empty reverb
    buffers) and slices that fit the internal buffer ([length xs <= T]; a longer slice makes a delay
    whose line is longer than [T] index its temp buffer out of range).  The adapter [kfx]:
      - on a well-formed state, cuts the slice into pieces of [T] frames (what the renderer does
        anyway) and runs C13's [process] on them ([process_slices]); by C13's
        [process_slices_is_stepwise] this never fails, so the [_ =>] branch of the [match] is dead
        code for [1 <= T] ([kfx_is_process_slices]); on a slice that fits it is literally one call
        of [process] ([kfx_is_process]);
      - on a state that is not well-formed (unreachable from [init], [kfx_wf]) the effect is bypassed.
    No law about the sample operations is used anywhere. *)
From Coq Require Import List Arith Bool PeanoNat Lia.
From KV Require Import Base.Outcome C13.ModelOps C13.ModelEffects C13.ModelDelay C13.ModelTree C13.ProofsSeq.
Import ListNotations.

(** ** a slice cut into pieces of [T] frames: T, T, ..., remainder *)
Section Slices.
  Context {X : Type}.
  Fixpoint slices_fuel (fuel T : nat) (xs : list X) : list (list X) :=
    match fuel with
    | O => []
    | S f => match xs with
             | [] => []
             | _ => firstn T xs :: slices_fuel f T (skipn T xs)
             end
    end.
  Definition slices (T : nat) (xs : list X) : list (list X) := slices_fuel (length xs) T xs.

  Lemma slices_fuel_nil fuel T : slices_fuel fuel T [] = [].
  Proof. destruct fuel; reflexivity. Qed.

  Lemma slices_fuel_spec T : 1 <= T -> forall fuel xs, length xs <= fuel ->
    concat (slices_fuel fuel T xs) = xs /\ Forall (fun sl => length sl <= T) (slices_fuel fuel T xs).
  Proof.
    intros HT. induction fuel as [|f IH]; intros xs Hl.
    - destruct xs; [split; [reflexivity | constructor] | cbn in Hl; lia].
    - destruct xs as [|x xs']; [split; [reflexivity | constructor]|].
      cbn [slices_fuel]. remember (x :: xs') as l eqn:El.
      assert (Hs : length (skipn T l) <= f).
      { rewrite skipn_length. assert (1 <= length l) by (subst l; cbn; lia). lia. }
      destruct (IH (skipn T l) Hs) as [E1 E2]. split.
      + cbn [concat]. rewrite E1. apply firstn_skipn.
      + constructor; [rewrite firstn_length; lia | exact E2].
  Qed.
  Lemma slices_spec T xs : 1 <= T ->
    concat (slices T xs) = xs /\ Forall (fun sl => length sl <= T) (slices T xs).
  Proof. intros HT. apply slices_fuel_spec; [exact HT | apply le_n]. Qed.

  (** a non-empty slice that fits is one piece *)
  Lemma slices_fit T xs : xs <> [] -> length xs <= T -> slices T xs = [xs].
  Proof.
    intros Hne Hl. unfold slices. destruct xs as [|x xs']; [congruence|].
    cbn [length slices_fuel]. remember (x :: xs') as l eqn:El.
    assert (Hl' : length l <= T) by (subst l; exact Hl).
    rewrite firstn_all2 by exact Hl'. rewrite skipn_all2 by exact Hl'. now rewrite slices_fuel_nil.
  Qed.
End Slices.

Section Fx.
  Context {F : Type} {OPS : Ops F}.
  Variable K : consts F.

  (** an effect with the values fixed during a call (C13's [effect]: every parameter constant,
      the coefficients already computed from them and from [dt]) together with its state *)
  Definition fxstate : Type := (effect F * estate F)%type.

  (** the frame-by-frame recurrence of C13 *)
  Definition kfx_rec (es : fxstate) (xs : list (frame F)) : fxstate * list (frame F) :=
    ((fst es, fst (run_frames (estep K (fst es)) (snd es) xs)), snd (run_frames (estep K (fst es)) (snd es) xs)).

  (** the adapter: C13's [process] with internal buffer size [T] *)
  Definition kfx (T : nat) (es : fxstate) (xs : list (frame F)) : fxstate * list (frame F) :=
    if wf (fst es) (snd es) then
      if Nat.leb 1 T then
        match process_slices K T (fst es) (snd es) (slices T xs) with
        | Ok (s', ys) => ((fst es, s'), ys)
        | _ => kfx_rec es xs      (* dead code: [kfx_is_process_slices] *)
        end
      else kfx_rec es xs          (* internal_buffer_size = 0: the renderer panics before any effect runs *)
    else (es, xs).

  Lemma kfx_on_wf T es xs : wf (fst es) (snd es) = true -> kfx T es xs = kfx_rec es xs.
  Proof.
    intros Hw. unfold kfx. rewrite Hw. destruct (Nat.leb_spec 1 T) as [HT|_]; [|reflexivity].
    destruct (slices_spec T xs HT) as [E1 E2].
    rewrite (process_slices_is_stepwise K T (fst es) (slices T xs) (snd es) Hw E2), E1.
    unfold kfx_rec. destruct (run_frames (estep K (fst es)) (snd es) xs). reflexivity.
  Qed.
  Lemma kfx_off_wf T es xs : wf (fst es) (snd es) = false -> kfx T es xs = (es, xs).
  Proof. intros Hw. unfold kfx. now rewrite Hw. Qed.

  (** the adapter IS the code: on every slice, C13's [process] applied to the pieces of [T] frames ... *)
  Theorem kfx_is_process_slices T e s xs :
    wf e s = true -> 1 <= T ->
    process_slices K T e s (slices T xs) = Ok (snd (fst (kfx T (e, s) xs)), snd (kfx T (e, s) xs)).
  Proof.
    intros Hw HT. rewrite kfx_on_wf by exact Hw. cbn [kfx_rec fst snd].
    destruct (slices_spec T xs HT) as [E1 E2].
    rewrite (process_slices_is_stepwise K T e (slices T xs) s Hw E2), E1.
    destruct (run_frames (estep K e) s xs). reflexivity.
  Qed.
  (** ... and on a slice that fits the internal buffer, one call of [process] *)
  Theorem kfx_is_process T e s xs :
    wf e s = true -> length xs <= T ->
    process K T e s xs = Ok (snd (fst (kfx T (e, s) xs)), snd (kfx T (e, s) xs)).
  Proof.
    intros Hw HT. rewrite kfx_on_wf by exact Hw. cbn [kfx_rec fst snd].
    rewrite (process_is_stepwise K T e s xs Hw HT). destruct (run_frames (estep K e) s xs). reflexivity.
  Qed.

  (** the effect (its constant parameters) never changes; well-formedness is preserved *)
  Lemma kfx_effect T es xs : fst (fst (kfx T es xs)) = fst es.
  Proof.
    destruct (wf (fst es) (snd es)) eqn:Hw; [rewrite kfx_on_wf by exact Hw | rewrite kfx_off_wf by exact Hw]; reflexivity.
  Qed.
  Theorem kfx_wf T es xs :
    wf (fst es) (snd es) = true -> wf (fst (fst (kfx T es xs))) (snd (fst (kfx T es xs))) = true.
  Proof. intros Hw. rewrite kfx_on_wf by exact Hw. cbn [kfx_rec fst snd]. apply run_wf. exact Hw. Qed.

  Lemma kfx_len T es xs : length (snd (kfx T es xs)) = length xs.
  Proof.
    destruct (wf (fst es) (snd es)) eqn:Hw; [rewrite kfx_on_wf by exact Hw | rewrite kfx_off_wf by exact Hw]; cbn [kfx_rec snd].
    - apply run_frames_length.
    - reflexivity.
  Qed.

  (** the adapter is a frame-sequential transducer, on every state and for every pair of slices *)
  Theorem kfx_seq T es xs ys :
    kfx T es (xs ++ ys) =
    (fst (kfx T (fst (kfx T es xs)) ys), snd (kfx T es xs) ++ snd (kfx T (fst (kfx T es xs)) ys)).
  Proof.
    destruct (wf (fst es) (snd es)) eqn:Hw.
    - pose proof (kfx_wf T es xs Hw) as Hw1.
      rewrite (kfx_on_wf T es (xs ++ ys)), (kfx_on_wf T es xs) by exact Hw.
      rewrite (kfx_on_wf T es xs Hw) in Hw1. rewrite (kfx_on_wf T _ ys) by exact Hw1.
      unfold kfx_rec. cbn [fst snd]. rewrite run_frames_app. reflexivity.
    - rewrite (kfx_off_wf T es (xs ++ ys)), (kfx_off_wf T es xs) by exact Hw. cbn [fst snd].
      rewrite (kfx_off_wf T es ys) by exact Hw. reflexivity.
  Qed.

  (** the result does not depend on the internal buffer size the effect was init'ed with *)
  Theorem kfx_buffer_irrelevant T T' es xs : kfx T es xs = kfx T' es xs.
  Proof.
    destruct (wf (fst es) (snd es)) eqn:Hw; [now rewrite !kfx_on_wf by exact Hw | now rewrite !kfx_off_wf by exact Hw].
  Qed.

  (** a state made by [init] is well-formed (no empty reverb buffer) *)
  Definition fx_init (e : effect F) : fxstate := (e, init e).
  Lemma fx_init_wf e : buffers_ok e = true -> wf (fst (fx_init e)) (snd (fx_init e)) = true.
  Proof. intros H. apply init_wf. exact H. Qed.
End Fx.
