(** C01 — the output stage over ALL binary32 values (Flocq): every written sample is a finite
    number in [-1, 1] WHATEVER the bus frame is (NaN -> 0, +-inf -> +-1); the mono sample is the
    mean; extra channels are +0.  Regression: the stage before the repair passed NaN. *)
From Coq Require Import ZArith List Bool Reals Lra Lia Floats.SpecFloat.
From Flocq Require Import Core IEEE754.BinarySingleNaN.
From KV Require Import Base.IEEE C01.Model.
Import ListNotations.
Local Open Scope R_scope.

Notation B2R32 := (@B2R 24 128).
Notation Bcmp := (@Bcompare 24 128).

Lemma B2R_p1 : B2R32 p1_32 = 1.
Proof. unfold p1_32, Z32, of_Z. cbn. unfold F2R. cbn. lra. Qed.
Lemma B2R_m1 : B2R32 m1_32 = -1.
Proof. unfold m1_32, Z32, of_Z. cbn. unfold F2R. cbn. lra. Qed.
Lemma B2R_two : B2R32 two32 = 2.
Proof. unfold two32, Z32, of_Z. cbn. unfold F2R. cbn. lra. Qed.

(** comparisons are total on non-NaN values *)
Lemma Bcmp_total (a b : f32) : is_nan a = false -> is_nan b = false -> exists c, Bcmp a b = Some c.
Proof.
  destruct a as [sa|sa| |sa ma ea Ha], b as [sb|sb| |sb mb eb Hb]; try discriminate; intros _ _;
    unfold Bcompare; cbn;
    repeat (match goal with |- context [match ?c with _ => _ end] => destruct c end); eauto.
Qed.
Lemma lt_via_compare (a b : f32) : lt32 a b = match Bcmp a b with Some Lt => true | _ => false end.
Proof. reflexivity. Qed.
Lemma le_via_compare (a b : f32) : le32 a b = match Bcmp a b with Some Lt | Some Eq => true | _ => false end.
Proof. reflexivity. Qed.
Lemma nlt_le (a b : f32) : isnan32 a = false -> isnan32 b = false -> lt32 a b = false -> le32 b a = true.
Proof.
  intros Na Nb. rewrite lt_via_compare, le_via_compare, (Bcompare_swap 24 128 a b).
  destruct (Bcmp_total a b Na Nb) as [c E]. rewrite E. destruct c; cbn; congruence.
Qed.
Lemma le_nlt (a b : f32) : le32 a b = true -> lt32 b a = false.
Proof.
  rewrite lt_via_compare, le_via_compare, (Bcompare_swap 24 128 a b).
  destruct (Bcmp a b) as [[| |]|]; cbn; congruence.
Qed.

Lemma unit_spec (x : f32) : unit32 x = true <-> is_finite x = true /\ -1 <= B2R x <= 1.
Proof.
  unfold unit32. rewrite andb_true_iff. split.
  - intros [A B].
    assert (F : is_finite x = true).
    { destruct x as [s|[|]| |s m e H]; try reflexivity; cbn in A, B; discriminate. }
    split; [exact F|].
    unfold le32, fle in A, B.
    rewrite Bleb_correct in A by (try exact F; reflexivity).
    rewrite Bleb_correct in B by (try exact F; reflexivity).
    rewrite B2R_m1 in A. rewrite B2R_p1 in B.
    destruct (Rle_bool_spec (-1) (B2R x)); [|discriminate].
    destruct (Rle_bool_spec (B2R x) 1); [|discriminate]. lra.
  - intros [F [A B]]. unfold le32, fle.
    rewrite !Bleb_correct by (try exact F; reflexivity). rewrite B2R_m1, B2R_p1.
    split; apply Rle_bool_true; assumption.
Qed.

Lemma clamp_unit_eq (x : f32) :
  clamp_unit x = if lt32 x m1_32 then (if lt32 p1_32 m1_32 then p1_32 else m1_32)
                 else (if lt32 p1_32 x then p1_32 else x).
Proof.
  unfold clamp_unit, clamp32, fclamp, fgt. fold (lt32 x m1_32). destruct (lt32 x m1_32); reflexivity.
Qed.
Lemma unit_m1 : unit32 m1_32 = true. Proof. vm_compute. reflexivity. Qed.
Lemma unit_p1 : unit32 p1_32 = true. Proof. vm_compute. reflexivity. Qed.
Lemma lt_p1_m1 : lt32 p1_32 m1_32 = false. Proof. vm_compute. reflexivity. Qed.
Lemma nan_m1 : isnan32 m1_32 = false. Proof. vm_compute. reflexivity. Qed.
Lemma nan_p1 : isnan32 p1_32 = false. Proof. vm_compute. reflexivity. Qed.

(** the clamp of any non-NaN value is a finite number in [-1, 1] *)
Lemma clamp_unit_ok (x : f32) : isnan32 x = false -> unit32 (clamp_unit x) = true.
Proof.
  intro N. rewrite clamp_unit_eq, lt_p1_m1.
  destruct (lt32 x m1_32) eqn:L; [exact unit_m1|].
  pose proof (nlt_le x m1_32 N nan_m1 L) as A.
  destruct (lt32 p1_32 x) eqn:G; [exact unit_p1|].
  pose proof (nlt_le p1_32 x nan_p1 N G) as B.
  unfold unit32. rewrite A, B. reflexivity.
Qed.
(** ... and it is the value itself when that already lies in [-1, 1] *)
Lemma clamp_unit_id (x : f32) : unit32 x = true -> clamp_unit x = x.
Proof.
  unfold unit32. rewrite andb_true_iff. intros [A B].
  rewrite clamp_unit_eq, (le_nlt _ _ A), (le_nlt _ _ B). reflexivity.
Qed.
(** a NaN is not stopped by the clamp (Rust's [clamp] returns NaN for NaN) *)
Lemma clamp_unit_nan : clamp_unit B754_nan = B754_nan.
Proof. reflexivity. Qed.

(** the mean of two samples in [-1, 1] is a finite number in [-1, 1] *)
Lemma mean_unit (a b : f32) :
  unit32 a = true -> unit32 b = true -> unit32 (div32 (add32 a b) two32) = true.
Proof.
  intros Ha Hb. apply unit_spec in Ha. apply unit_spec in Hb.
  destruct Ha as [Fa [A1 A2]]. destruct Hb as [Fb [B1 B2]].
  pose (rnd := round radix2 (SpecFloat.fexp 24 128) (round_mode mode_NE)).
  pose proof (fexp_correct 24 128 Hprec32) as Vexp.
  pose proof (valid_rnd_round_mode mode_NE) as Vrnd.
  assert (Hr : forall x y, x <= y -> rnd x <= rnd y).
  { intros x y H. apply round_le; assumption. }
  assert (G2 : rnd 2 = 2).
  { unfold rnd. rewrite <- B2R_two. apply round_generic; [assumption|apply generic_format_B2R]. }
  assert (Gm2 : rnd (-2) = -2).
  { unfold rnd. replace (-2) with (- B2R32 two32) by (rewrite B2R_two; lra).
    rewrite round_NE_opp. f_equal. apply round_generic; [assumption|apply generic_format_B2R]. }
  assert (G1 : rnd 1 = 1).
  { unfold rnd. rewrite <- B2R_p1. apply round_generic; [assumption|apply generic_format_B2R]. }
  assert (Gm1 : rnd (-1) = -1).
  { unfold rnd. rewrite <- B2R_m1. apply round_generic; [assumption|apply generic_format_B2R]. }
  (* the sum *)
  pose proof (Bplus_correct 24 128 Hprec32 Hmax32 mode_NE a b Fa Fb) as P.
  fold rnd in P.
  assert (S1 : -2 <= rnd (B2R a + B2R b) <= 2).
  { split; [rewrite <- Gm2|rewrite <- G2]; apply Hr; lra. }
  rewrite Rlt_bool_true in P.
  2:{ apply Rle_lt_trans with 2; [apply Rabs_le; lra|]. change (bpow radix2 128) with (IZR (2 ^ 128)). apply IZR_lt. reflexivity. }
  destruct P as [Ps [Pf _]].
  change (Bplus mode_NE a b) with (add32 a b) in Ps, Pf.
  (* the division by two *)
  assert (NZ : B2R32 two32 <> 0) by (rewrite B2R_two; lra).
  pose proof (Bdiv_correct 24 128 Hprec32 Hmax32 mode_NE (add32 a b) two32 NZ) as D.
  change (round radix2 (SpecFloat.fexp 24 128) (round_mode mode_NE)) with rnd in D. rewrite B2R_two, Ps in D.
  assert (S2 : -1 <= rnd (rnd (B2R a + B2R b) / 2) <= 1).
  { split; [rewrite <- Gm1|rewrite <- G1]; apply Hr; lra. }
  rewrite Rlt_bool_true in D.
  2:{ apply Rle_lt_trans with 1; [apply Rabs_le; lra|]. change (bpow radix2 128) with (IZR (2 ^ 128)). apply IZR_lt. reflexivity. }
  destruct D as [Ds [Df _]]. change (Bdiv mode_NE (add32 a b) two32) with (div32 (add32 a b) two32) in Ds, Df.
  apply unit_spec. split; [rewrite Df; exact Pf|]. rewrite Ds. exact S2.
Qed.

Lemma unit_zero : unit32 zero32 = true. Proof. vm_compute. reflexivity. Qed.

(** ** [finite_clamped]: for EVERY binary32 value (NaN and the infinities included) the result is a
    finite number in [-1, 1]; values already there are unchanged *)
Lemma finite_clamped_ok (x : f32) : unit32 (finite_clamped x) = true.
Proof.
  unfold finite_clamped. destruct (isnan32 x) eqn:N; [exact unit_zero|]. apply clamp_unit_ok. exact N.
Qed.
Lemma unit_not_nan (x : f32) : unit32 x = true -> isnan32 x = false.
Proof. destruct x; try reflexivity. cbn. discriminate. Qed.
Lemma finite_clamped_id (x : f32) : unit32 x = true -> finite_clamped x = x.
Proof.
  intro H. unfold finite_clamped. rewrite (unit_not_nan x H). apply clamp_unit_id. exact H.
Qed.
Lemma finite_clamped_nan : finite_clamped B754_nan = zero32.
Proof. reflexivity. Qed.
Lemma finite_clamped_inf (s : bool) : finite_clamped (B754_infinity s) = if s then m1_32 else p1_32.
Proof. destruct s; vm_compute; reflexivity. Qed.
Lemma finite_clamped_special :
  finite_clamped B754_nan = zero32 /\
  finite_clamped (B754_infinity false) = p1_32 /\ finite_clamped (B754_infinity true) = m1_32.
Proof. repeat split; vm_compute; reflexivity. Qed.
Lemma finite_clamped_non_nan (x : f32) : isnan32 x = false -> finite_clamped x = clamp_unit x.
Proof. intro N. unfold finite_clamped. rewrite N. reflexivity. Qed.

(** ** the output stage *)
Lemma out_stage_length n l r : length (out_stage n l r) = n.
Proof.
  destruct n as [|[|n]]; cbn; try reflexivity. rewrite repeat_length. reflexivity.
Qed.

(** unconditional: whatever the bus frame is *)
Lemma out_stage_wellformed (n : nat) (l r : f32) :
  Forall (fun x => unit32 x = true) (out_stage n l r).
Proof.
  pose proof (finite_clamped_ok l) as Hl. pose proof (finite_clamped_ok r) as Hr.
  destruct n as [|[|n]]; cbn [out_stage].
  - constructor.
  - constructor; [|constructor]. apply mean_unit; assumption.
  - constructor; [exact Hl|]. constructor; [exact Hr|].
    apply Forall_forall. intros x Hx. apply repeat_spec in Hx. subst x. exact unit_zero.
Qed.

(** layout: one channel = the mean of the two [finite_clamped] sides; two or more = left, right,
    then exact (positive) zeros *)
Lemma out_stage_layout (n : nat) (l r : f32) :
  out_stage 1 l r = [div32 (add32 (finite_clamped l) (finite_clamped r)) two32] /\
  out_stage (S (S n)) l r = finite_clamped l :: finite_clamped r :: repeat zero32 n.
Proof. split; reflexivity. Qed.

(** on a NaN-free bus frame the repaired stage writes what the old one wrote *)
Lemma out_stage_agrees_with_old (n : nat) (l r : f32) :
  isnan32 l = false -> isnan32 r = false -> out_stage n l r = out_stage_old n l r.
Proof.
  intros Nl Nr. unfold out_stage, out_stage_old. rewrite !finite_clamped_non_nan by assumption. reflexivity.
Qed.

(** regression (F5, F29, F33, F36-F39 as seen at the device): the OLD stage let a NaN on the bus
    through; the repaired one writes +0 there (and the mean of 0 and the other side for one channel) *)
Lemma out_stage_nan_regression (r : f32) :
  (out_stage_old 2 B754_nan r = [B754_nan; clamp_unit r] /\ hd zero32 (out_stage_old 1 B754_nan r) = B754_nan) /\
  (out_stage 2 B754_nan r = [zero32; finite_clamped r] /\
   out_stage 1 B754_nan r = [div32 (add32 zero32 (finite_clamped r)) two32]).
Proof.
  split; split; try reflexivity; cbn; unfold add32, fadd; destruct (clamp_unit r); reflexivity.
Qed.

(** ** layout of a whole callback: however the device buffer is cut into internal chunks, every
    frame goes through the output stage exactly once, in order *)
Lemma chunks_concat {A} (b : nat) (l : list A) (fuel : nat) :
  (0 < b)%nat -> (length l <= fuel)%nat -> concat (chunks fuel b l) = l.
Proof.
  intro Hb. revert l. induction fuel as [|fuel IH]; intros l Hl.
  - destruct l; [reflexivity|cbn in Hl; lia].
  - cbn [chunks]. destruct l as [|x l]; [reflexivity|].
    cbn [concat]. rewrite IH.
    + apply firstn_skipn.
    + rewrite skipn_length. cbn [length] in *. lia.
Qed.
Lemma chunks_bounded {A} (b : nat) (l : list A) (fuel : nat) :
  Forall (fun c => (length c <= b)%nat) (chunks fuel b l).
Proof.
  revert l. induction fuel as [|fuel IH]; intro l; cbn [chunks]; [constructor|].
  destruct l as [|x l]; [constructor|]. constructor; [apply firstn_le_length|apply IH].
Qed.

Lemma concat_map_flat_map {A B} (f : A -> list B) (cs : list (list A)) :
  concat (map (fun c => flat_map f c) cs) = flat_map f (concat cs).
Proof.
  induction cs as [|c cs IH]; [reflexivity|]. cbn [map concat]. rewrite flat_map_app, IH. reflexivity.
Qed.
Lemma render_is_per_frame (n b : nat) (bus : list (f32 * f32)) :
  (0 < b)%nat -> render n b bus = flat_map (fun '(l, r) => out_stage n l r) bus.
Proof.
  intro Hb. unfold render. rewrite concat_map_flat_map.
  rewrite (chunks_concat b bus (length bus) Hb (le_n _)). reflexivity.
Qed.

Lemma render_length (n b : nat) (bus : list (f32 * f32)) :
  (0 < b)%nat -> length (render n b bus) = (n * length bus)%nat.
Proof.
  intro Hb. rewrite render_is_per_frame by exact Hb.
  induction bus as [|[l r] bus IH]; [cbn; lia|].
  cbn [flat_map]. rewrite app_length, out_stage_length, IH. cbn [length]. lia.
Qed.

(** every sample of a callback is a finite number in [-1, 1], whatever is on the bus *)
Lemma render_wellformed (n b : nat) (bus : list (f32 * f32)) :
  (0 < b)%nat -> Forall (fun x => unit32 x = true) (render n b bus).
Proof.
  intros Hb. rewrite render_is_per_frame by exact Hb.
  induction bus as [|[l r] bus IH]; [constructor|].
  cbn [flat_map]. apply Forall_app. split; [apply out_stage_wellformed|exact IH].
Qed.
