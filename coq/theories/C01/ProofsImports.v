(** C01 — what this property takes from C08 (resource hand-off between the caller's thread and the
    audio thread, all interleavings): projections of C08's theorems. *)
From Coq Require Import List.
From KV Require Import Base.Outcome.
From KV Require C08.Model C08.Props.

Lemma never_frees_on_audio :
  forall (cf : C08.Model.cfg) (sched : list C08.Model.label) (s : C08.Model.state),
    C08.Model.run cf sched (C08.Model.init cf) = Ok s ->
    (forall p t, In (p, t) (C08.Model.st_destroyed s) -> t = C08.Model.Gameplay) /\
    (forall l s', C08.Model.thread_of l = C08.Model.Audio -> C08.Model.step cf l s = Ok s' ->
                  C08.Model.st_destroyed s' = C08.Model.st_destroyed s /\ C08.Model.st_next s' = C08.Model.st_next s).
Proof.
  intros cf sched s H. destruct (C08.Props.destroyed_on_caller cf sched s H) as (A & _ & _ & B). split; assumption.
Qed.
Lemma no_step_panics :
  forall (cf : C08.Model.cfg) (sched : list C08.Model.label),
    exists s, C08.Model.run cf sched (C08.Model.init cf) = Ok s.
Proof.
  intros cf sched. destruct (C08.Props.res_invariant cf sched) as [s [H _]]. exists s. exact H.
Qed.
