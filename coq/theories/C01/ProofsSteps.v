(** C01 — the step list of a device callback: heap effect 0 (the annotation), one
    [on_start_processing], and the chunk lengths of [Renderer::process] — which are exactly C02's
    [chunk_sizes] (the list the mixer theorems of C02 quantify over). *)
From Coq Require Import ZArith List Bool Arith Lia.
From KV Require Import Base.IEEE Base.Outcome C01.Model C02.Model C02.ProofsList.
Import ListNotations.

Lemma heap_allocs_zero (l : list astep) : heap_allocs l = 0.
Proof. induction l as [|s l IH]; [reflexivity|]. cbn [heap_allocs fold_right]. fold (heap_allocs l). rewrite IH. reflexivity. Qed.
Lemma heap_frees_zero (l : list astep) : heap_frees l = 0.
Proof. induction l as [|s l IH]; [reflexivity|]. cbn [heap_frees fold_right]. fold (heap_frees l). rewrite IH. reflexivity. Qed.

Lemma chunks_nil {A} (fuel b : nat) : @chunks A fuel b [] = [].
Proof. destruct fuel; reflexivity. Qed.

(** C01's cutting of the frame list and C02's list of chunk lengths are the same thing *)
Lemma chunks_lengths_fuel {A} (fuel b : nat) (l : list A) :
  map (@length A) (chunks fuel b l) = chunk_sizes_fuel fuel b (length l).
Proof.
  revert l. induction fuel as [|f IH]; intro l; [reflexivity|].
  cbn [chunks chunk_sizes_fuel]. destruct l as [|x l]; [reflexivity|].
  cbn [length Nat.eqb]. cbn [map]. rewrite IH.
  destruct (Nat.leb (S (length l)) b) eqn:L.
  - apply Nat.leb_le in L. rewrite firstn_all2 by (cbn [length]; lia).
    rewrite skipn_all2 by (cbn [length]; lia). cbn [length].
    destruct f; reflexivity.
  - apply Nat.leb_gt in L. rewrite firstn_length, skipn_length. cbn [length].
    rewrite Nat.min_l by lia. reflexivity.
Qed.
Lemma chunk_lengths_is_c02 (b frames : nat) : chunk_lengths b frames = chunk_sizes b frames.
Proof.
  unfold chunk_lengths, chunk_sizes. rewrite chunks_lengths_fuel, repeat_length. reflexivity.
Qed.

Lemma chunk_lengths_spec (b frames : nat) :
  1 <= b -> Forall (fun m => 1 <= m <= b) (chunk_lengths b frames) /\ list_sum (chunk_lengths b frames) = frames.
Proof. intro Hb. rewrite chunk_lengths_is_c02. apply chunk_sizes_spec. exact Hb. Qed.

Lemma starts_of_chunks (ms : list nat) : starts_of (flat_map chunk_steps ms) = 0.
Proof. induction ms as [|m ms IH]; [reflexivity|]. exact IH. Qed.
Lemma mixer_lengths_chunks (ms : list nat) : mixer_lengths (flat_map chunk_steps ms) = ms.
Proof. induction ms as [|m ms IH]; [reflexivity|]. cbn. f_equal. exact IH. Qed.

(** the whole annotation of one callback *)
Lemma callback_steps_spec (b frames : nat) :
  heap_allocs (callback_steps b frames) = 0 /\ heap_frees (callback_steps b frames) = 0 /\
  starts_of (callback_steps b frames) = 1 /\
  mixer_lengths (callback_steps b frames) = chunk_sizes b frames.
Proof.
  split; [apply heap_allocs_zero|]. split; [apply heap_frees_zero|].
  unfold callback_steps, starts_of, mixer_lengths. rewrite filter_app, app_length, flat_map_app.
  fold (starts_of (flat_map chunk_steps (chunk_lengths b frames))).
  fold (mixer_lengths (flat_map chunk_steps (chunk_lengths b frames))).
  rewrite starts_of_chunks, mixer_lengths_chunks, chunk_lengths_is_c02. split; reflexivity.
Qed.
