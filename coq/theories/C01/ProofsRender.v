(** C01 — the output stage sits on top of C02's renderer.  C02 proves, for ANY frame arithmetic,
    sounds, effects, control behaviour and output stage [o_out], that the buffer-level renderer
    (chunks of at most b frames, temp buffers, in-place mixing) is the frame-sequential signal-flow
    machine [spec_chunks].  Here [o_out] is instantiated with THIS property's output stage: the
    device buffer of a callback is [render ch b bus] where [bus] is the signal C02 specifies — and,
    since the repaired stage is total, every sample of it is finite and in [-1, 1] whatever the
    sounds, effects, gains and tree put on the bus. *)
From Coq Require Import ZArith List Bool Arith Lia.
From KV Require Import Base.IEEE Base.Outcome C01.Model C01.ProofsOut C01.ProofsSteps
     C02.Model C02.ProofsList C02.Props.
Import ListNotations.

Section OnC02.
  Variable O : ops.
  (** how the abstract frames / device samples of [O] are binary32 values *)
  Variable fr : tF O -> f32 * f32.
  Variable smp : tO O -> f32.

  (** the mixer bus over a list of chunk lengths: what [spec_mix] (C02's specification) yields *)
  Fixpoint spec_bus (st : tI O * smixer O) (ms : list nat) : list (tF O) :=
    match ms with
    | [] => []
    | m :: ms' =>
        let res' := o_res O (fst st) m in
        let r := spec_mix O res' (snd st) m in
        snd r ++ spec_bus (res', fst r) ms'
    end.

  Lemma spec_chunks_out (ch : nat) (ms : list nat) : forall st,
    snd (spec_chunks O ch st ms) = flat_map (o_out O ch) (spec_bus st ms).
  Proof.
    induction ms as [|m ms IH]; intro st; [reflexivity|].
    cbn [spec_chunks spec_bus]. unfold spec_chunk.
    destruct (spec_mix O (o_res O (fst st) m) (snd st) m) as [sx' sig] eqn:E. cbn [fst snd].
    specialize (IH (o_res O (fst st) m, sx')).
    destruct (spec_chunks O ch (o_res O (fst st) m, sx') ms) as [st2 o2]. cbn [snd] in *.
    rewrite flat_map_app, IH. reflexivity.
  Qed.

  Lemma flat_map_map_out (ch : nat) (bus : list (tF O)) :
    (forall f, map smp (o_out O ch f) = out_stage ch (fst (fr f)) (snd (fr f))) ->
    map smp (flat_map (o_out O ch) bus) = flat_map (fun '(l, r) => out_stage ch l r) (map fr bus).
  Proof.
    intro H. induction bus as [|f bus IH]; [reflexivity|].
    cbn [flat_map map]. rewrite map_app, H, IH. destruct (fr f) as [l r]. reflexivity.
  Qed.

  (** one device callback of [n] frames on a builder-made renderer state *)
  Lemma device_buffer_is_render (ch b n : nat) (res : tI O) (sx : smixer O) :
    1 <= b -> NoDup (map fst (sx_sends O sx)) ->
    (forall f, map smp (o_out O ch f) = out_stage ch (fst (fr f)) (snd (fr f))) ->
    map smp (snd (run_chunks O ch (conc_renderer O b res sx) (chunk_sizes b n)))
    = render ch b (map fr (spec_bus (res, sx) (chunk_sizes b n))).
  Proof.
    intros Hb Hnd Hout.
    assert (Hms : Forall (fun m => m <= b) (chunk_sizes b n)).
    { destruct (chunk_sizes_spec b n Hb) as [Hc _]. eapply Forall_impl; [|exact Hc]. cbn. intros; lia. }
    rewrite (renderer_refines_spec_any O ch b (chunk_sizes b n) Hms res sx Hnd). cbn [snd].
    rewrite spec_chunks_out, (flat_map_map_out ch _ Hout).
    rewrite render_is_per_frame by lia. reflexivity.
  Qed.

  (** "every sample written is a finite number in [-1, 1]" for every mixer configuration of C02's model *)
  Lemma device_buffer_wellformed (ch b n : nat) (res : tI O) (sx : smixer O) :
    1 <= b -> NoDup (map fst (sx_sends O sx)) ->
    (forall f, map smp (o_out O ch f) = out_stage ch (fst (fr f)) (snd (fr f))) ->
    Forall (fun x => unit32 x = true)
           (map smp (snd (run_chunks O ch (conc_renderer O b res sx) (chunk_sizes b n)))).
  Proof.
    intros Hb Hnd Hout. rewrite (device_buffer_is_render ch b n res sx Hb Hnd Hout).
    apply render_wellformed. lia.
  Qed.

  Lemma spec_bus_length (ms : list nat) : forall st, length (spec_bus st ms) = list_sum ms.
  Proof.
    induction ms as [|m ms IH]; intro st; [reflexivity|].
    cbn [spec_bus list_sum]. rewrite app_length, IH.
    pose proof (C02.ProofsRefine.spec_mix_len O (o_res O (fst st) m) (snd st) m) as L. rewrite L. reflexivity.
  Qed.
End OnC02.

(** the hypothesis on [o_out] is satisfiable: an instance of C02's [ops] over binary32 frames whose
    output stage is [out_stage] (sounds and effects arbitrary) *)
Definition ops_b32 (TG TI TSS TES TCS : Type)
    (add : f32 * f32 -> f32 * f32 -> f32 * f32) (scale : f32 * f32 -> TG -> f32 * f32)
    (snd_p : TI -> TSS -> nat -> TSS * list (f32 * f32)) (fx_p : TI -> TES -> list (f32 * f32) -> TES * list (f32 * f32))
    (env : TCS -> TI -> TI) (ctl : TI -> TCS -> nat -> TCS * tctl (f32 * f32) TG) (res : TI -> nat -> TI) : ops :=
  {| tF := f32 * f32; tG := TG; tI := TI; tSS := TSS; tES := TES; tCS := TCS; tO := f32;
     o_zero := (zero32, zero32); o_add := add; o_scale := scale; o_snd := snd_p; o_fx := fx_p;
     o_env := env; o_ctl := ctl; o_res := res;
     o_out := fun ch f => out_stage ch (fst f) (snd f) |}.
Lemma ops_b32_out TG TI TSS TES TCS add scale snd_p fx_p env ctl res (ch : nat) f :
  map (fun x : f32 => x) (o_out (ops_b32 TG TI TSS TES TCS add scale snd_p fx_p env ctl res) ch f)
  = out_stage ch (fst ((fun x : f32 * f32 => x) f)) (snd ((fun x : f32 * f32 => x) f)).
Proof. cbn. apply map_id. Qed.
