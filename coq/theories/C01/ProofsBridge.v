(** C01 — the binary64 loop theorems of [ProofsLoops] carried over to the models that contain the
    loops: C05's clock [tick_loop_old] and C04's static-sound [carry] (the `while fractional_position
    >= 1.0` loop around [update_position]), both instantiated with the binary64 [Num] instance. *)
From Coq Require Import ZArith List Bool Reals Lra Lia.
From Flocq Require Import Core IEEE754.BinarySingleNaN.
From KV Require Import Base.IEEE Base.Outcome Base.Num C01.Model C01.ProofsLoops C04.Transport C04.Resampler C04.StaticData C04.StaticSound C05.Model C05.ProofsSpeed.
Import ListNotations.

(** ** C05: the tick loop [Clock::update] had before the F7 repair ([tick_loop_old], kept as a
    counter-model) is the scalar loop plus the (checked) tick counter *)
Lemma tick_loop_of_sub1_loop (fuel : nat) : forall (tk : Z) (x : f64) (n : nat) (r : f64),
  sub1_loop fuel x = Ok (n, r) -> (tk + Z.of_nat n <= u64_max)%Z ->
  tick_loop_old (T := f64) fuel tk x = Ok ((tk + Z.of_nat n)%Z, r).
Proof.
  induction fuel as [|f IH]; intros tk x n r E Hb; rewrite sub1_loop_unfold in E; cbn [tick_loop_old];
    change (nleb n1 x) with (le64 one64 x); destruct (le64 one64 x) eqn:L; try discriminate.
  - inversion E; subst. rewrite Z.add_0_r. reflexivity.
  - change (nsub x n1) with (sub64 x one64).
    destruct (sub1_loop f (sub64 x one64)) as [[n' r']| |] eqn:E'; try discriminate. inversion E; subst.
    unfold add_chk. destruct (tk + 1 >? u64_max)%Z eqn:O; [lia|]. cbn [obind].
    rewrite (IH (tk + 1)%Z _ n' r E') by lia. f_equal. f_equal. lia.
  - inversion E; subst. rewrite Z.add_0_r. reflexivity.
Qed.
Lemma tick_loop_hang_of_sub1_loop (fuel : nat) : forall (tk : Z) (x : f64),
  sub1_loop fuel x = Hang -> is_ok (tick_loop_old (T := f64) fuel tk x) = false.
Proof.
  induction fuel as [|f IH]; intros tk x E; rewrite sub1_loop_unfold in E; cbn [tick_loop_old];
    change (nleb n1 x) with (le64 one64 x); destruct (le64 one64 x) eqn:L; try discriminate; [reflexivity|].
  change (nsub x n1) with (sub64 x one64).
  destruct (sub1_loop f (sub64 x one64)) as [[n' r']| |] eqn:E'; try discriminate.
  unfold add_chk. destruct (tk + 1 >? u64_max)%Z; cbn [obind]; [reflexivity|]. apply IH. exact E'.
Qed.

(** ** C04: the carry loop of the static sound *)
Section Carry.
  Variable A : Type.
  Variable azero : A.
  Variable fuel : nat.
  Notation snd64 := (ssound f64 A).

  Lemma update_position_fpos (s s' : snd64) :
    update_position A azero fuel s = Ok s' -> s_fpos s' = s_fpos s.
  Proof.
    unfold update_position, push_frame_to_resampler. intro H.
    destruct (t_playing (s_tr s)).
    - destruct (frame_at_index _ _ _) as [fo| |]; cbn [obind] in H; try discriminate.
      match type of H with context [if ?c then decrement_position _ ?t else ?e] =>
        destruct (if c then decrement_position fuel t else e) as [t'| |] end; cbn [obind] in H; try discriminate.
      match type of H with (if ?c then _ else _) = _ => destruct c end; inversion H; reflexivity.
    - cbn [obind] in H.
      match type of H with context [if ?c then decrement_position _ ?t else ?e] =>
        destruct (if c then decrement_position fuel t else e) as [t'| |] end; cbn [obind] in H; try discriminate.
      match type of H with (if ?c then _ else _) = _ => destruct c end; inversion H; reflexivity.
  Qed.

  (** F8 on the sound model: once x >= 1 and x - 1 = x, no amount of fuel lets [carry] return *)
  Lemma carry_stuck (fl : nat) : forall s : snd64,
    le64 one64 (s_fpos s) = true -> sub64 (s_fpos s) one64 = s_fpos s ->
    is_ok (carry A azero fuel fl s) = false.
  Proof.
    induction fl as [|f IH]; intros s L S; cbn [carry]; [reflexivity|].
    change (nleb n1 (s_fpos s)) with (le64 one64 (s_fpos s)). rewrite L.
    change (nsub (s_fpos s) n1) with (sub64 (s_fpos s) one64). rewrite S.
    destruct (update_position A azero fuel (set_fpos A s (s_fpos s))) as [s'| |] eqn:U; cbn [obind]; try reflexivity.
    pose proof (update_position_fpos _ _ U) as P. cbn [set_fpos s_fpos] in P.
    apply IH; rewrite P; assumption.
  Qed.

  (** whenever [carry] returns, the fractional positions it went through are those of the scalar loop *)
  Lemma carry_ok_count (fl : nat) : forall s s' : snd64,
    carry A azero fuel fl s = Ok s' -> exists n, sub1_loop fl (s_fpos s) = Ok (n, s_fpos s').
  Proof.
    induction fl as [|f IH]; intros s s' H; cbn [carry] in H; [discriminate|].
    rewrite sub1_loop_unfold.
    change (nleb n1 (s_fpos s)) with (le64 one64 (s_fpos s)) in H.
    destruct (le64 one64 (s_fpos s)).
    - change (nsub (s_fpos s) n1) with (sub64 (s_fpos s) one64) in H.
      destruct (update_position A azero fuel (set_fpos A s (sub64 (s_fpos s) one64))) as [s1| |] eqn:U; cbn [obind] in H; try discriminate.
      pose proof (update_position_fpos _ _ U) as P. cbn [set_fpos s_fpos] in P.
      destruct (IH s1 s' H) as [n E]. rewrite P in E. exists (S n). rewrite E. reflexivity.
    - inversion H; subst. exists O. reflexivity.
  Qed.
End Carry.

Local Open Scope R_scope.
(** [Clock::update]'s OLD loop in binary64: exact tick count below 2^53 ... *)
Lemma tick_loop_floor (x : f64) (fuel : nat) (tk : Z) :
  is_finite x = true -> 0 <= B2R x <= IZR (2 ^ 53) -> (Z.to_nat (Zfloor (B2R x)) <= fuel)%nat ->
  (tk + Zfloor (B2R x) <= u64_max)%Z ->
  exists r, tick_loop_old (T := f64) fuel tk x = Ok ((tk + Zfloor (B2R x))%Z, r) /\ is_finite r = true /\
            B2R r = B2R x - IZR (Zfloor (B2R x)) /\ 0 <= B2R r < 1.
Proof.
  intros Fx Hx Hf Hb.
  assert (Z0 : (0 <= Zfloor (B2R x))%Z) by (apply Zfloor_lub; tauto).
  destruct (sub1_loop_floor x fuel Fx Hx Hf) as [r (E & Fr & Rr & Br)].
  exists r. split; [|tauto].
  rewrite (tick_loop_of_sub1_loop fuel tk x _ r E) by (rewrite Z2Nat.id; assumption).
  rewrite Z2Nat.id by assumption. reflexivity.
Qed.
(** ... and no return from 2^55 on (or +inf), whatever the fuel and the tick count *)
Lemma tick_loop_diverges_b64 (x : f64) :
  carry_diverges x -> forall (fuel : nat) (tk : Z), is_ok (tick_loop_old (T := f64) fuel tk x) = false.
Proof.
  intros D fuel tk. apply tick_loop_hang_of_sub1_loop. apply sub1_loop_diverges. exact D.
Qed.

(** F7 regression: on the divergence class the old loop never returned; the repaired
    [tick_update] (C05: floor, saturating cast, one subtraction) returns, with a tick count that
    did not decrease and stays within u64 and with the fraction 0 (such a timer is an integer) *)
Lemma tick_update_on_divergence_class (x : f64) :
  carry_diverges x ->
  (forall (fuel : nat) (tk : Z), is_ok (tick_loop_old (T := f64) fuel tk x) = false) /\
  (forall tk : Z, (0 <= tk <= u64_max)%Z ->
     exists tk' r, tick_update (T := f64) tk x = (tk', r) /\ (tk <= tk' <= u64_max)%Z /\
                   is_finite r = true /\ B2R r = 0).
Proof.
  intro D. split; [apply tick_loop_diverges_b64; exact D|]. intros tk Htk.
  destruct (carry_diverges_stuck x D) as [L _].
  destruct (tick_update_total_b64_lemma tk x Htk) as (tk' & r & E & Bt & H). rewrite L in H.
  destruct H as (Fr & _ & Hfin & Hinf). exists tk', r. split; [exact E|]. split; [exact Bt|]. split; [exact Fr|].
  destruct D as [->|[Fx Hx]].
  - destruct (Hinf eq_refl) as [_ ->]. reflexivity.
  - destruct (Hfin Fx) as [Rr _]. rewrite Rr.
    assert (P55 : IZR (2 ^ 55) = 36028797018963968) by (cbn; lra).
    assert (P54 : IZR (2 ^ 54) = 18014398509481984) by (cbn; lra).
    destruct (big_format_multiple_of_4 (B2R x) (generic_format_B2R 53 1024 x)) as [k Ek]; [rewrite Rabs_pos_eq; lra|].
    replace (IZR k * 4) with (IZR (k * 4)) in Ek by (rewrite mult_IZR; reflexivity).
    rewrite Ek, Zfloor_IZR. lra.
Qed.

Lemma carry_diverges_b64 (A : Type) (azero : A) (fuel fl : nat) (s : ssound f64 A) :
  carry_diverges (s_fpos s) -> is_ok (carry A azero fuel fl s) = false.
Proof.
  intro D. destruct (carry_diverges_stuck _ D) as [L S]. apply carry_stuck; assumption.
Qed.
