(** C01 — the carry loops `while x >= 1.0 { x -= 1.0; ... }` (fractional_position of static and
    streaming sounds, tick_timer of clocks) in binary64 proper (Flocq):
    for 1 <= x <= 2^53 the subtraction is EXACT, so the loop runs floor(x) times and leaves the
    fractional part; from 2^55 on (and for +inf) x - 1 = x and the loop never ends (F7, F8). *)
From Coq Require Import ZArith List Bool Reals Lra Lia Psatz Floats.SpecFloat.
From Flocq Require Import Core IEEE754.BinarySingleNaN.
From KV Require Import Base.IEEE Base.Outcome C01.Model.
Import ListNotations.
Local Open Scope R_scope.

Notation B2R64 := (@B2R 53 1024).
Notation fexp64 := (SpecFloat.fexp 53 1024).
Notation fmt64 := (generic_format radix2 fexp64).
Notation rnd64 := (round radix2 fexp64 (round_mode mode_NE)).

Lemma B2R_one64 : B2R64 one64 = 1.
Proof. unfold one64, Z64, of_Z. cbn. unfold F2R. cbn. lra. Qed.
Lemma finite_one64 : is_finite one64 = true. Proof. reflexivity. Qed.

Lemma fexp64_FLT : forall e, fexp64 e = FLT_exp (-1074) 53 e.
Proof. intro e. reflexivity. Qed.

(** ** exact subtraction *)
Lemma sub1_format (x : R) : fmt64 x -> 1 <= x <= IZR (2 ^ 53) -> fmt64 (x - 1).
Proof.
  intros Fx [L U].
  assert (Fx' : generic_format radix2 (FLT_exp (-1074) 53) x) by exact Fx.
  apply FLT_format_generic in Fx'; [|reflexivity].
  destruct Fx' as [[m e] Hx Hm He]. cbn [Fnum Fexp] in *. unfold F2R in Hx. cbn [Fnum Fexp] in Hx.
  change (generic_format radix2 (FLT_exp (-1074) 53) (x - 1)). apply generic_format_FLT.
  destruct (Z_lt_le_dec e 0) as [Hneg|Hpos].
  - (* x = m * 2^e with e < 0: x - 1 = (m - 2^(-e)) * 2^e *)
    assert (P : IZR (2 ^ (- e)) = bpow radix2 (- e)) by (apply (IZR_Zpower radix2); lia).
    assert (Q : bpow radix2 (- e) * bpow radix2 e = 1) by (rewrite <- bpow_plus; replace (- e + e)%Z with 0%Z by lia; reflexivity).
    assert (Be : 0 < bpow radix2 e) by apply bpow_gt_0.
    assert (M1 : (2 ^ (- e) <= m)%Z).
    { apply le_IZR. rewrite P. apply Rmult_le_reg_r with (bpow radix2 e); [exact Be|]. rewrite Q. lra. }
    apply (FLT_spec radix2 (-1074) 53 (x - 1) (Float radix2 (m - 2 ^ (- e)) e)).
    + unfold F2R. cbn [Fnum Fexp]. rewrite minus_IZR, P. rewrite Rmult_minus_distr_r, Q. lra.
    + cbn [Fnum]. assert (0 < 2 ^ (- e))%Z by (apply Z.pow_pos_nonneg; lia).
      change (radix2 ^ 53)%Z with 9007199254740992%Z in *. set (p := (2 ^ (- e))%Z) in *. lia.
    + exact He.
  - (* x is an integer *)
    assert (P : bpow radix2 e = IZR (2 ^ e)) by (symmetry; apply (IZR_Zpower radix2); lia).
    assert (N : x = IZR (m * 2 ^ e)) by (rewrite mult_IZR, <- P; exact Hx).
    apply (FLT_spec radix2 (-1074) 53 (x - 1) (Float radix2 (m * 2 ^ e - 1) 0)).
    + unfold F2R. cbn [Fnum Fexp bpow]. rewrite minus_IZR, <- N. lra.
    + cbn [Fnum]. rewrite N in L, U. apply le_IZR in L. apply le_IZR in U.
      change (radix2 ^ 53)%Z with 9007199254740992%Z in *. change (2 ^ 53)%Z with 9007199254740992%Z in U. set (p := (m * 2 ^ e)%Z) in *. lia.
    + cbn [Fexp]. lia.
Qed.

Lemma sub1_exact (x : f64) :
  is_finite x = true -> 1 <= B2R x <= IZR (2 ^ 53) ->
  is_finite (sub64 x one64) = true /\ B2R (sub64 x one64) = B2R x - 1.
Proof.
  intros Fx Hx.
  pose proof (Bminus_correct 53 1024 Hprec64 Hmax64 mode_NE x one64 Fx finite_one64) as H.
  change (Bminus mode_NE x one64) with (sub64 x one64) in H. rewrite B2R_one64 in H.
  pose proof (fexp_correct 53 1024 Hprec64) as Vexp.
  pose proof (valid_rnd_round_mode mode_NE) as Vrnd.
  assert (R : rnd64 (B2R x - 1) = B2R x - 1).
  { apply round_generic; [assumption|]. apply sub1_format; [apply generic_format_B2R|exact Hx]. }
  rewrite R in H. rewrite Rlt_bool_true in H.
  2:{ apply Rle_lt_trans with (IZR (2 ^ 53)); [apply Rabs_le; lra|].
      change (bpow radix2 1024) with (IZR (2 ^ 1024)). apply IZR_lt. reflexivity. }
  destruct H as (HR & HF & _). split; assumption.
Qed.

(** ** the loop test *)
Lemma ge1_spec (x : f64) : is_finite x = true -> le64 one64 x = true <-> 1 <= B2R x.
Proof.
  intro Fx. unfold le64, fle. rewrite Bleb_correct by (try exact Fx; reflexivity). rewrite B2R_one64.
  destruct (Rle_bool_spec 1 (B2R x)); split; intros; try reflexivity; try assumption; try discriminate; lra.
Qed.
Lemma sub1_loop_unfold (fuel : nat) (x : f64) :
  sub1_loop fuel x =
  if le64 one64 x then
    match fuel with
    | O => Hang
    | S f => match sub1_loop f (sub64 x one64) with Ok (n, r) => Ok (S n, r) | Panic k => Panic k | Hang => Hang end
    end
  else Ok (O, x).
Proof. destruct fuel; reflexivity. Qed.

(** ** exactly floor(x) iterations below 2^53 *)
Lemma sub1_loop_count (n : nat) : forall (x : f64) (fuel : nat),
  is_finite x = true -> INR n <= B2R x < INR n + 1 -> B2R x <= IZR (2 ^ 53) -> (n <= fuel)%nat ->
  exists r, sub1_loop fuel x = Ok (n, r) /\ is_finite r = true /\ B2R r = B2R x - INR n.
Proof.
  induction n as [|n IH]; intros x fuel Fx Hx U Hf.
  - exists x. rewrite sub1_loop_unfold.
    assert (N : le64 one64 x = false).
    { destruct (le64 one64 x) eqn:E; [|reflexivity]. apply (ge1_spec x Fx) in E. cbn in Hx. lra. }
    rewrite N. cbn [INR]. repeat split; [exact Fx|lra].
  - rewrite S_INR in Hx. pose proof (pos_INR n) as Pn.
    assert (G : le64 one64 x = true) by (apply (ge1_spec x Fx); lra).
    destruct fuel as [|f]; [lia|].
    destruct (sub1_exact x Fx) as [F1 R1]; [lra|].
    destruct (IH (sub64 x one64) f F1) as [r (E & Fr & Rr)]; [rewrite R1; lra|rewrite R1; lra|lia|].
    exists r. rewrite sub1_loop_unfold, G, E. repeat split; [exact Fr|]. rewrite Rr, R1, S_INR. lra.
Qed.

(** ** divergence *)
Lemma stuck_hangs (x : f64) :
  le64 one64 x = true -> sub64 x one64 = x -> forall fuel, sub1_loop fuel x = Hang.
Proof.
  intros L S. induction fuel as [|f IH]; rewrite sub1_loop_unfold, L; [reflexivity|]. rewrite S, IH. reflexivity.
Qed.

(** every binary64 number of magnitude >= 2^54 is a multiple of 4 *)
Lemma big_format_multiple_of_4 (y : R) : fmt64 y -> IZR (2 ^ 54) <= Rabs y -> exists k : Z, y = IZR k * 4.
Proof.
  intros Fy Hy. unfold generic_format in Fy. set (c := cexp radix2 fexp64 y) in *.
  set (M := Ztrunc (scaled_mantissa radix2 fexp64 y)) in *.
  unfold F2R in Fy. cbn [Fnum Fexp] in Fy.
  assert (Hc : (2 <= c)%Z).
  { unfold c, cexp. assert (55 <= mag radix2 y)%Z.
    { apply mag_ge_bpow. replace (55 - 1)%Z with 54%Z by lia.
      change (bpow radix2 54) with (IZR (2 ^ 54)). exact Hy. }
    unfold SpecFloat.fexp. lia. }
  exists (M * 2 ^ (c - 2))%Z. rewrite Fy, mult_IZR.
  assert (P : IZR (2 ^ (c - 2)) = bpow radix2 (c - 2)) by (apply (IZR_Zpower radix2); lia). rewrite P.
  replace 4 with (bpow radix2 2) by (cbn; lra).
  rewrite Rmult_assoc, <- bpow_plus. replace (c - 2 + 2)%Z with c by lia. reflexivity.
Qed.

Lemma sub1_round_stuck (x : R) : fmt64 x -> IZR (2 ^ 55) <= x -> rnd64 (x - 1) = x.
Proof.
  intros Fx Hx.
  pose proof (fexp_correct 53 1024 Hprec64) as Vexp.
  assert (P55 : IZR (2 ^ 55) = 36028797018963968) by (cbn; lra).
  assert (P54 : IZR (2 ^ 54) = 18014398509481984) by (cbn; lra).
  set (y := rnd64 (x - 1)).
  assert (Fy : fmt64 y) by (apply generic_format_round; [assumption|apply valid_rnd_round_mode]).
  (* y is a nearest format number: at least as close to x - 1 as x is *)
  pose proof (round_N_pt radix2 fexp64 (fun z => negb (Z.even z)) (x - 1)) as [_ Near].
  specialize (Near x Fx). change (round radix2 fexp64 (Znearest (fun z => negb (Z.even z))) (x - 1)) with y in Near.
  replace (x - (x - 1)) with 1 in Near by lra. rewrite (Rabs_pos_eq 1) in Near by lra.
  assert (Hy : x - 2 <= y <= x) by (apply Rabs_le_inv in Near; lra).
  destruct (big_format_multiple_of_4 x Fx) as [kx Ex]; [rewrite Rabs_pos_eq; lra|].
  destruct (big_format_multiple_of_4 y Fy) as [ky Ey]; [rewrite Rabs_pos_eq; lra|].
  rewrite Ex, Ey in Hy. destruct Hy as [H1 H2].
  assert (A : (kx * 4 - 2 <= ky * 4)%Z).
  { apply le_IZR. rewrite minus_IZR, !mult_IZR. lra. }
  assert (B : (ky * 4 <= kx * 4)%Z).
  { apply le_IZR. rewrite !mult_IZR. lra. }
  assert (ky = kx) by lia. subst ky. rewrite Ey, Ex. reflexivity.
Qed.

Lemma sub1_stuck (x : f64) : is_finite x = true -> IZR (2 ^ 55) <= B2R x -> sub64 x one64 = x.
Proof.
  intros Fx Hx.
  assert (P55 : IZR (2 ^ 55) = 36028797018963968) by (cbn; lra).
  pose proof (Bminus_correct 53 1024 Hprec64 Hmax64 mode_NE x one64 Fx finite_one64) as H.
  change (Bminus mode_NE x one64) with (sub64 x one64) in H. rewrite B2R_one64 in H.
  rewrite (sub1_round_stuck (B2R x) (generic_format_B2R 53 1024 x) Hx) in H.
  rewrite Rlt_bool_true in H by apply abs_B2R_lt_emax.
  destruct H as (HR & HF & HS).
  apply B2R_Bsign_inj; [exact HF|exact Fx|exact HR|].
  rewrite HS. rewrite Rcompare_Gt by lra.
  destruct x as [s|s| |s m e He]; try discriminate.
  - cbn in Hx. lra.
  - destruct s; [|reflexivity]. exfalso. cbn in Hx.
    assert (F2R (Float radix2 (Z.neg m) e) < 0) by (apply F2R_lt_0; reflexivity). lra.
Qed.

Lemma sub1_loop_diverges_finite (x : f64) :
  is_finite x = true -> IZR (2 ^ 55) <= B2R x -> forall fuel, sub1_loop fuel x = Hang.
Proof.
  intros Fx Hx. assert (P55 : IZR (2 ^ 55) = 36028797018963968) by (cbn; lra).
  apply stuck_hangs; [apply (ge1_spec x Fx); lra|apply sub1_stuck; assumption].
Qed.
Lemma sub1_loop_diverges_inf : forall fuel, sub1_loop fuel (B754_infinity false) = Hang.
Proof. apply stuck_hangs; reflexivity. Qed.

(** the border strip [2^53, 2^55): ties decide; witnesses on both sides *)
Definition f64_2p53_plus (k : Z) : f64 := Z64 (2 ^ 53 + k).
(* (compared as bit patterns: two floats with the same bits differ at most in their boundedness proofs) *)
Lemma border_witnesses :
  bits_of_f64 (sub64 (f64_2p53_plus 0) one64) = bits_of_f64 (Z64 (2 ^ 53 - 1)) /\   (* exact: 2^53 terminates *)
  bits_of_f64 (sub64 (f64_2p53_plus 2) one64) = bits_of_f64 (f64_2p53_plus 0) /\     (* tie to even: DOWN by 2 *)
  bits_of_f64 (sub64 (f64_2p53_plus 4) one64) = bits_of_f64 (f64_2p53_plus 4) /\     (* tie to even: stuck *)
  bits_of_f64 (sub64 (Z64 (2 ^ 54)) one64) = bits_of_f64 (Z64 (2 ^ 54)).             (* stuck *)
Proof. repeat split; vm_compute; reflexivity. Qed.

(** NaN and values below 1 (negative, zero, -inf): no iteration *)
Lemma sub1_loop_none (x : f64) (fuel : nat) : le64 one64 x = false -> sub1_loop fuel x = Ok (O, x).
Proof. intro L. rewrite sub1_loop_unfold, L. reflexivity. Qed.

(** the same with floor: for a finite 0 <= x <= 2^53 the loop runs floor(x) times and leaves x - floor(x) *)
Lemma sub1_loop_floor (x : f64) (fuel : nat) :
  is_finite x = true -> 0 <= B2R x <= IZR (2 ^ 53) -> (Z.to_nat (Zfloor (B2R x)) <= fuel)%nat ->
  exists r, sub1_loop fuel x = Ok (Z.to_nat (Zfloor (B2R x)), r) /\ is_finite r = true /\
            B2R r = B2R x - IZR (Zfloor (B2R x)) /\ 0 <= B2R r < 1.
Proof.
  intros Fx [L U] Hf.
  assert (Z0 : (0 <= Zfloor (B2R x))%Z) by (apply Zfloor_lub; exact L).
  assert (EI : INR (Z.to_nat (Zfloor (B2R x))) = IZR (Zfloor (B2R x))) by (rewrite INR_IZR_INZ, Z2Nat.id; [reflexivity|exact Z0]).
  pose proof (Zfloor_lb (B2R x)) as Lb. pose proof (Zfloor_ub (B2R x)) as Ub.
  destruct (sub1_loop_count (Z.to_nat (Zfloor (B2R x))) x fuel Fx) as [r (E & Fr & Rr)]; [rewrite EI; lra|exact U|exact Hf|].
  exists r. rewrite EI in Rr. repeat split; try assumption; rewrite Rr; lra.
Qed.

(** the divergence class: +inf, or a finite value from 2^55 on *)
Definition carry_diverges (x : f64) : Prop :=
  x = B754_infinity false \/ (is_finite x = true /\ IZR (2 ^ 55) <= B2R x).
Lemma sub1_loop_diverges (x : f64) : carry_diverges x -> forall fuel, sub1_loop fuel x = Hang.
Proof.
  intros [E|[F H]]; [subst; apply sub1_loop_diverges_inf|apply sub1_loop_diverges_finite; assumption].
Qed.
Lemma carry_diverges_stuck (x : f64) : carry_diverges x -> le64 one64 x = true /\ sub64 x one64 = x.
Proof.
  intros [E|[F H]]; [subst; split; reflexivity|].
  assert (P55 : IZR (2 ^ 55) = 36028797018963968) by (cbn; lra).
  split; [apply (ge1_spec x F); lra|apply sub1_stuck; assumption].
Qed.
(** F8 / F7 witnesses: playback_rate 1e300 at 48 kHz gives an increment of 1e300; SecondsPerTick(0.0) gives +inf *)
Lemma ge_2p55_of_le64 (x : f64) : is_finite x = true -> le64 (Z64 (2 ^ 55)) x = true -> IZR (2 ^ 55) <= B2R x.
Proof.
  intros Fx H. unfold le64, fle in H. rewrite Bleb_correct in H by (try exact Fx; reflexivity).
  assert (E : B2R64 (Z64 (2 ^ 55)) = IZR (2 ^ 55)).
  { unfold Z64, of_Z. cbn. unfold F2R. cbn. lra. }
  rewrite E in H. destruct (Rle_bool_spec (IZR (2 ^ 55)) (B2R x)); [assumption|discriminate].
Qed.
Example carry_diverges_1e300 : carry_diverges (f64_of_bits 9094988921128908188).
Proof. right. split; [reflexivity|]. apply ge_2p55_of_le64; vm_compute; reflexivity. Qed.
(* 3.5 -> three iterations, 0.5 left (observed through the bit pattern: vm_compute must not normalise boundedness proofs) *)
Example carry_terminates_example :
  match sub1_loop 5 (f64_of_bits 4615063718147915776) with Ok (n, r) => (n, bits_of_f64 r) | _ => (O, (-1)%Z) end
  = (3%nat, 4602678819172646912%Z).
Proof. vm_compute. reflexivity. Qed.
