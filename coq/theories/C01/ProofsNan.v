(** C01 — where a NaN can and cannot be born in the gain stages (binary32, Flocq).
    One product of two floats is NaN exactly when a factor is NaN or the product is inf * 0;
    finite * finite is never NaN (it may overflow to an infinity, which a later * 0 turns into NaN).
    The stage theorems give, for finite inputs, the EXACT condition under which each stage outputs
    NaN, the regime in which it cannot (gains in [0, 1]: attenuation), and the witnesses of the
    findings F5 (one infinite amplitude) and F37 (finite gains whose product overflows). *)
From Coq Require Import ZArith List Bool Reals Lra Lia Floats.SpecFloat.
From Flocq Require Import Core IEEE754.BinarySingleNaN.
From KV Require Import Base.IEEE Base.Outcome C01.Model C01.ProofsOut.
Import ListNotations.
Local Open Scope R_scope.

Definition is_inf (x : f32) : bool := match x with B754_infinity _ => true | _ => false end.
Definition is_zero (x : f32) : bool := match x with B754_zero _ => true | _ => false end.
(** the one way a product of two non-NaN floats is NaN *)
Definition inf_times_zero (x y : f32) : bool := (is_inf x && is_zero y) || (is_zero x && is_inf y).
(** the one way a sum of two non-NaN floats is NaN *)
Definition inf_minus_inf (x y : f32) : bool :=
  match x, y with B754_infinity sx, B754_infinity sy => negb (Bool.eqb sx sy) | _, _ => false end.

Lemma finite_not_nan (x : f32) : is_finite x = true -> is_nan x = false.
Proof. destruct x; cbn; congruence. Qed.
Lemma not_nan_cases (x : f32) : is_nan x = false -> is_finite x = true \/ is_inf x = true.
Proof. destruct x; cbn; auto; discriminate. Qed.

(** ** finite * finite and finite + finite are never NaN *)
Lemma mul_finite_not_nan (x y : f32) :
  is_finite x = true -> is_finite y = true -> is_nan (mul32 x y) = false.
Proof.
  intros Fx Fy. pose proof (Bmult_correct 24 128 Hprec32 Hmax32 mode_NE x y) as H.
  change (Bmult mode_NE x y) with (mul32 x y) in H.
  destruct (Rlt_bool _ _) in H.
  - destruct H as (_ & F & _). rewrite Fx, Fy in F. apply finite_not_nan. exact F.
  - destruct (mul32 x y); try reflexivity. exfalso. cbn in H.
    discriminate.
Qed.
Lemma mul_finite_cases (x y : f32) :
  is_finite x = true -> is_finite y = true -> is_finite (mul32 x y) = true \/ is_inf (mul32 x y) = true.
Proof. intros Fx Fy. apply not_nan_cases, mul_finite_not_nan; assumption. Qed.

Lemma add_finite_not_nan (x y : f32) :
  is_finite x = true -> is_finite y = true -> is_nan (add32 x y) = false.
Proof.
  intros Fx Fy. pose proof (Bplus_correct 24 128 Hprec32 Hmax32 mode_NE x y Fx Fy) as H.
  change (Bplus mode_NE x y) with (add32 x y) in H.
  destruct (Rlt_bool _ _) in H.
  - destruct H as (_ & F & _). apply finite_not_nan. exact F.
  - destruct H as [H _]. destruct (add32 x y); try reflexivity. exfalso. cbn in H.
    discriminate.
Qed.

(** ** the exact condition for one product / one sum *)
Lemma mul_nan_exact (x y : f32) :
  is_nan (mul32 x y) = is_nan x || is_nan y || inf_times_zero x y.
Proof.
  destruct x as [sx|sx| |sx mx ex Hx] eqn:Ex, y as [sy|sy| |sy my ey Hy] eqn:Ey; try reflexivity.
  rewrite mul_finite_not_nan by reflexivity. reflexivity.
Qed.
Lemma add_nan_exact (x y : f32) :
  is_nan (add32 x y) = is_nan x || is_nan y || inf_minus_inf x y.
Proof.
  destruct x as [sx|sx| |sx mx ex Hx] eqn:Ex, y as [sy|sy| |sy my ey Hy] eqn:Ey;
    try reflexivity; try (destruct sx, sy; reflexivity).
  rewrite add_finite_not_nan by reflexivity. reflexivity.
Qed.
Lemma mul_not_nan (x y : f32) :
  is_nan x = false -> is_nan y = false -> inf_times_zero x y = false -> is_nan (mul32 x y) = false.
Proof. intros A B C. rewrite mul_nan_exact, A, B, C. reflexivity. Qed.

(** ** attenuation: a factor in [0, 1] keeps a finite value finite and no larger *)
Definition in01 (x : f32) : bool := le32 zero32 x && le32 x p1_32.
Lemma B2R_zero32 : B2R32 zero32 = 0. Proof. reflexivity. Qed.
Lemma in01_spec (x : f32) : in01 x = true <-> is_finite x = true /\ 0 <= B2R x <= 1.
Proof.
  unfold in01. rewrite andb_true_iff. split.
  - intros [A B].
    assert (F : is_finite x = true).
    { destruct x as [s|[|]| |s m e H]; try reflexivity; cbn in A, B; discriminate. }
    split; [exact F|]. unfold le32, fle in A, B.
    rewrite Bleb_correct in A by (try exact F; reflexivity).
    rewrite Bleb_correct in B by (try exact F; reflexivity).
    rewrite B2R_zero32 in A. rewrite B2R_p1 in B.
    destruct (Rle_bool_spec 0 (B2R x)); [|discriminate].
    destruct (Rle_bool_spec (B2R x) 1); [|discriminate]. lra.
  - intros [F [A B]]. unfold le32, fle.
    rewrite !Bleb_correct by (try exact F; reflexivity). rewrite B2R_zero32, B2R_p1.
    split; apply Rle_bool_true; assumption.
Qed.

Lemma mul_attenuates (x s : f32) :
  is_finite x = true -> in01 s = true ->
  is_finite (mul32 x s) = true /\ Rabs (B2R (mul32 x s)) <= Rabs (B2R x).
Proof.
  intros Fx Hs. apply in01_spec in Hs. destruct Hs as [Fs [S0 S1]].
  pose proof (Bmult_correct 24 128 Hprec32 Hmax32 mode_NE x s) as H.
  change (Bmult mode_NE x s) with (mul32 x s) in H.
  pose proof (fexp_correct 24 128 Hprec32) as Vexp.
  pose proof (valid_rnd_round_mode mode_NE) as Vrnd.
  assert (B : Rabs (round radix2 (SpecFloat.fexp 24 128) (round_mode mode_NE) (B2R x * B2R s)) <= Rabs (B2R x)).
  { apply abs_round_le_generic; [assumption|assumption| |].
    - apply generic_format_abs, generic_format_B2R.
    - rewrite Rabs_mult. rewrite (Rabs_pos_eq (B2R s)) by lra.
      pose proof (Rabs_pos (B2R x)). nra. }
  rewrite Rlt_bool_true in H.
  2:{ eapply Rle_lt_trans; [exact B|]. apply abs_B2R_lt_emax. }
  destruct H as (R & F & _). rewrite Fx, Fs in F. split; [exact F|]. rewrite R. exact B.
Qed.

(** ** the clamp of a non-NaN mix to [0, 1], and square roots of numbers in [0, 1] *)
Definition clamp01 (x : f32) : f32 := clamp32 x zero32 p1_32.
Lemma nan_zero32 : isnan32 zero32 = false. Proof. reflexivity. Qed.
Lemma in01_zero : in01 zero32 = true. Proof. vm_compute. reflexivity. Qed.
Lemma in01_one : in01 p1_32 = true. Proof. vm_compute. reflexivity. Qed.
Lemma clamp01_eq (x : f32) :
  clamp01 x = if lt32 x zero32 then (if lt32 p1_32 zero32 then p1_32 else zero32)
              else (if lt32 p1_32 x then p1_32 else x).
Proof.
  unfold clamp01, clamp32, fclamp, fgt. fold (lt32 x zero32). destruct (lt32 x zero32); reflexivity.
Qed.
Lemma clamp01_ok (x : f32) : isnan32 x = false -> in01 (clamp01 x) = true.
Proof.
  intro N. rewrite clamp01_eq. replace (lt32 p1_32 zero32) with false by (vm_compute; reflexivity).
  destruct (lt32 x zero32) eqn:L; [exact in01_zero|].
  pose proof (nlt_le x zero32 N nan_zero32 L) as A.
  destruct (lt32 p1_32 x) eqn:G; [exact in01_one|].
  pose proof (nlt_le p1_32 x nan_p1 N G) as B. unfold in01. rewrite A, B. reflexivity.
Qed.

Lemma sqrt_in01 (m : f32) : in01 m = true -> in01 (sqrt32 m) = true.
Proof.
  intro Hm. apply in01_spec in Hm. destruct Hm as [Fm [M0 M1]].
  pose proof (Bsqrt_correct 24 128 Hprec32 Hmax32 mode_NE m) as (R & F & _).
  change (Bsqrt mode_NE m) with (sqrt32 m) in R, F.
  pose proof (fexp_correct 24 128 Hprec32) as Vexp.
  pose proof (valid_rnd_round_mode mode_NE) as Vrnd.
  apply in01_spec. split.
  - rewrite F. destruct m as [s|s| |s mm e H]; try discriminate; try reflexivity.
    destruct s; [|reflexivity]. exfalso. cbn in M0.
    pose proof (F2R_lt_0 radix2 (Float radix2 (Zneg mm) e)) as Hneg. cbn in Hneg.
    assert (F2R (Float radix2 (Z.neg mm) e) < 0) by (apply Hneg; reflexivity). lra.
  - rewrite R. split.
    + rewrite <- (round_0 radix2 (SpecFloat.fexp 24 128) (round_mode mode_NE)).
      apply round_le; [assumption|assumption|]. apply sqrt_pos.
    + assert (G1 : round radix2 (SpecFloat.fexp 24 128) (round_mode mode_NE) 1 = 1).
      { rewrite <- B2R_p1. apply round_generic; [assumption|apply generic_format_B2R]. }
      apply Rle_trans with (round radix2 (SpecFloat.fexp 24 128) (round_mode mode_NE) 1); [|rewrite G1; lra].
      apply round_le; [assumption|assumption|].
      rewrite <- sqrt_1. apply sqrt_le_1_alt. exact M1.
Qed.

Lemma one_minus_in01 (m : f32) : in01 m = true -> in01 (sub32 p1_32 m) = true.
Proof.
  intro Hm. apply in01_spec in Hm. destruct Hm as [Fm [M0 M1]].
  assert (F1 : is_finite p1_32 = true) by reflexivity.
  pose proof (Bminus_correct 24 128 Hprec32 Hmax32 mode_NE p1_32 m F1 Fm) as H.
  change (Bminus mode_NE p1_32 m) with (sub32 p1_32 m) in H.
  pose proof (fexp_correct 24 128 Hprec32) as Vexp.
  pose proof (valid_rnd_round_mode mode_NE) as Vrnd.
  rewrite B2R_p1 in H.
  assert (G1 : round radix2 (SpecFloat.fexp 24 128) (round_mode mode_NE) 1 = 1).
  { rewrite <- B2R_p1. apply round_generic; [assumption|apply generic_format_B2R]. }
  assert (B : 0 <= round radix2 (SpecFloat.fexp 24 128) (round_mode mode_NE) (1 - B2R m) <= 1).
  { split.
    - rewrite <- (round_0 radix2 (SpecFloat.fexp 24 128) (round_mode mode_NE)). apply round_le; [assumption|assumption|lra].
    - apply Rle_trans with (round radix2 (SpecFloat.fexp 24 128) (round_mode mode_NE) 1); [|rewrite G1; lra].
      apply round_le; [assumption|assumption|lra]. }
  rewrite Rlt_bool_true in H.
  2:{ apply Rle_lt_trans with 1; [apply Rabs_le; lra|]. change (bpow radix2 128) with (IZR (2 ^ 128)). apply IZR_lt. reflexivity. }
  destruct H as (R & F & _). apply in01_spec. split; [exact F|]. rewrite R. exact B.
Qed.

(** * The stages *)

(** volume stage of a track / main / send, and one multiplication in general: exact condition *)
Lemma volume_gain_nan_exact (x vol : f32) :
  is_nan (volume_gain x vol) = is_nan x || is_nan vol || inf_times_zero x vol.
Proof. apply mul_nan_exact. Qed.
Lemma volume_gain_no_nan (x vol : f32) :
  is_finite x = true -> is_finite vol = true -> is_nan (volume_gain x vol) = false.
Proof. apply mul_finite_not_nan. Qed.
(** F5: an amplitude that overflowed to +inf (volume +1000 dB) on a zero sample *)
Lemma volume_gain_refuted :
  exists x vol : f32, is_finite x = true /\ vol = B754_infinity false /\ is_nan (volume_gain x vol) = true.
Proof. exists zero32, (B754_infinity false). repeat split. Qed.

(** sound gain stage `resampler_out * fade_volume * volume`, finite inputs: NaN exactly when the first
    product overflowed and the volume is zero *)
Lemma sound_gain_nan_exact (x fade vol : f32) :
  is_finite x = true -> is_finite fade = true -> is_finite vol = true ->
  is_nan (sound_gain x fade vol) = is_inf (mul32 x fade) && is_zero vol.
Proof.
  intros Fx Ff Fv. unfold sound_gain. rewrite mul_nan_exact.
  rewrite (mul_finite_not_nan x fade Fx Ff), (finite_not_nan vol Fv). cbn [orb].
  unfold inf_times_zero.
  destruct vol as [sv|sv| |sv mv ev Hv]; try discriminate; cbn [is_zero is_inf]; rewrite ?andb_false_r, ?andb_true_r, ?orb_false_r; reflexivity.
Qed.
(** with a fade gain in [0, 1] (a fade never amplifies) it cannot happen, whatever the finite volume *)
Lemma sound_gain_no_nan (x fade vol : f32) :
  is_finite x = true -> in01 fade = true -> is_finite vol = true -> is_nan (sound_gain x fade vol) = false.
Proof.
  intros Fx Hf Fv. assert (Ff : is_finite fade = true) by (apply in01_spec in Hf; tauto).
  rewrite sound_gain_nan_exact by assumption.
  destruct (mul_attenuates x fade Fx Hf) as [F _].
  destruct (mul32 x fade); try discriminate; reflexivity.
Qed.
(** F37: finite sample * finite gain overflows, then * 0 *)
Lemma sound_gain_refuted :
  exists x fade vol : f32,
    is_finite x = true /\ is_finite fade = true /\ is_finite vol = true /\ is_nan (sound_gain x fade vol) = true.
Proof.
  exists (f32_of_bits 2139095039), (Z32 2), zero32. repeat split; vm_compute; reflexivity.
Qed.

(** panning `Frame::new(l * (1 - m).sqrt(), r * m.sqrt()) * SQRT_2`: a finite sample stays non-NaN *)
Lemma sqrt2_finite_nonzero : is_finite sqrt2_32 = true /\ is_zero sqrt2_32 = false.
Proof. split; vm_compute; reflexivity. Qed.
Lemma panned_side_no_nan (x g : f32) :
  is_finite x = true -> is_finite g = true -> is_nan (panned_side x g) = false.
Proof.
  intros Fx Fg. unfold panned_side. destruct sqrt2_finite_nonzero as [F2 Z2].
  apply mul_not_nan; [apply mul_finite_not_nan; assumption|apply finite_not_nan; exact F2|].
  unfold inf_times_zero. rewrite Z2, andb_false_r. cbn [orb].
  destruct sqrt2_32; try discriminate; cbn [is_inf]; apply andb_false_r.
Qed.
(** an infinite sample panned hard to the other side: inf * 0 *)
Lemma panned_side_refuted :
  exists x g : f32, is_nan x = false /\ in01 g = true /\ is_nan (panned_side x g) = true.
Proof. exists (B754_infinity false), zero32. repeat split. Qed.

(** track stage `*frame *= volume * fade_volume`, finite inputs: NaN exactly when the gain product
    overflowed on a zero sample *)
Lemma track_gain_nan_exact (x vol fade : f32) :
  is_finite x = true -> is_finite vol = true -> is_finite fade = true ->
  is_nan (track_gain x vol fade) = is_zero x && is_inf (mul32 vol fade).
Proof.
  intros Fx Fv Ff. unfold track_gain. rewrite mul_nan_exact.
  rewrite (mul_finite_not_nan vol fade Fv Ff), (finite_not_nan x Fx). cbn [orb].
  unfold inf_times_zero.
  destruct x as [sx|sx| |sx mx ex Hx]; try discriminate; cbn [is_zero is_inf]; rewrite ?andb_false_l, ?andb_true_l, ?orb_false_r; reflexivity.
Qed.
Lemma track_gain_no_nan (x vol fade : f32) :
  is_finite x = true -> is_finite vol = true -> in01 fade = true -> is_nan (track_gain x vol fade) = false.
Proof.
  intros Fx Fv Hf. assert (Ff : is_finite fade = true) by (apply in01_spec in Hf; tauto).
  rewrite track_gain_nan_exact by assumption.
  destruct (mul_attenuates vol fade Fv Hf) as [F _].
  destruct (mul32 vol fade); try discriminate; cbn [is_inf]; apply andb_false_r.
Qed.
Lemma track_gain_refuted :
  exists x vol fade : f32,
    is_finite x = true /\ is_finite vol = true /\ is_finite fade = true /\ is_nan (track_gain x vol fade) = true.
Proof.
  exists zero32, (f32_of_bits 2139095039), (Z32 2). repeat split; vm_compute; reflexivity.
Qed.

(** wet / dry blend of every effect: `wet * mix.sqrt() + dry * (1.0 - mix).sqrt()` with the mix
    clamped to [0, 1]: finite wet and dry signals and ANY non-NaN mix give a non-NaN result *)
Lemma blend_no_nan (wet dry mix : f32) :
  is_finite wet = true -> is_finite dry = true -> isnan32 mix = false -> is_nan (blend32 wet dry mix) = false.
Proof.
  intros Fw Fd Nm. unfold blend32. fold (clamp01 mix).
  pose proof (clamp01_ok mix Nm) as Hm.
  pose proof (sqrt_in01 _ Hm) as S1.
  pose proof (sqrt_in01 _ (one_minus_in01 _ Hm)) as S2.
  destruct (mul_attenuates wet _ Fw S1) as [F1 _].
  destruct (mul_attenuates dry _ Fd S2) as [F2 _].
  apply add_finite_not_nan; assumption.
Qed.
(** an infinite wet signal leaks through a fully dry mix (inf * 0) *)
Lemma blend_refuted :
  exists wet dry mix : f32, is_nan wet = false /\ is_finite dry = true /\ in01 mix = true /\ is_nan (blend32 wet dry mix) = true.
Proof. exists (B754_infinity false), (Z32 1), zero32. repeat split; vm_compute; reflexivity. Qed.

(** satisfiable hypotheses: half-scale sample, -6 dB fade, +6 dB volume, mix 0.25 *)
Example stages_example :
  let x := f32_of_bits 1056964608 in let g := f32_of_bits 1056964608 in let v := Z32 2 in
  is_finite x = true /\ in01 g = true /\ is_finite v = true /\
  is_nan (sound_gain x g v) = false /\ is_nan (track_gain x v g) = false /\
  is_nan (blend32 x v (f32_of_bits 1048576000)) = false.
Proof. vm_compute. repeat split. Qed.
