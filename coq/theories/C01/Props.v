(** C01 — property theorems: statements (as printed by Coq) closed by [exact]. *)
From Coq Require Import ZArith List Bool.
From Flocq Require Import IEEE754.BinarySingleNaN.
From KV Require Import Base.IEEE C01.Model C01.ProofsOut.
Import ListNotations.

Theorem clamp_of_non_nan_is_finite_unit :
  forall x : f32, isnan32 x = false -> unit32 (clamp_unit x) = true.
Proof. exact @clamp_unit_ok. Qed.

Theorem clamp_is_identity_inside_unit :
  forall x : f32, unit32 x = true -> clamp_unit x = x.
Proof. exact @clamp_unit_id. Qed.

Theorem mono_mean_is_finite_unit :
  forall a b : f32, unit32 a = true -> unit32 b = true -> unit32 (div32 (add32 a b) two32) = true.
Proof. exact @mean_unit. Qed.

Theorem out_stage_samples_finite_unit :
  forall (n : nat) (l r : f32),
       isnan32 l = false -> isnan32 r = false -> Forall (fun x : f32 => unit32 x = true) (out_stage n l r).
Proof. exact @out_stage_wellformed. Qed.

Theorem out_stage_channel_layout :
  forall (n : nat) (l r : f32),
       out_stage 1 l r = [div32 (add32 (clamp_unit l) (clamp_unit r)) two32] /\
       out_stage (S (S n)) l r = clamp_unit l :: clamp_unit r :: repeat zero32 n.
Proof. exact @out_stage_layout. Qed.

Theorem out_stage_writes_n_samples :
  forall (n : nat) (l r : f32), length (out_stage n l r) = n.
Proof. exact @out_stage_length. Qed.

Theorem out_stage_nan_refuted :
  forall r : f32,
       out_stage 2 B754_nan r = [B754_nan; clamp_unit r] /\ hd zero32 (out_stage 1 B754_nan r) = B754_nan.
Proof. exact @out_stage_nan_gets_through. Qed.

Theorem render_every_frame_once_in_order :
  forall (n b : nat) (bus : list (f32 * f32)),
       0 < b -> render n b bus = flat_map (fun '(l, r) => out_stage n l r) bus.
Proof. exact @render_is_per_frame. Qed.

Theorem render_writes_every_slot :
  forall (n b : nat) (bus : list (f32 * f32)), 0 < b -> length (render n b bus) = n * length bus.
Proof. exact @render_length. Qed.

Theorem render_samples_finite_unit :
  forall (n b : nat) (bus : list (f32 * f32)),
       0 < b ->
       Forall (fun '(l, r) => isnan32 l = false /\ isnan32 r = false) bus ->
       Forall (fun x : f32 => unit32 x = true) (render n b bus).
Proof. exact @render_wellformed. Qed.

Theorem render_chunks_at_most_b :
  forall (A : Type) (b : nat) (l : list A) (fuel : nat),
       Forall (fun c : list A => length c <= b) (chunks fuel b l).
Proof. exact @chunks_bounded. Qed.
