(** C01 — property theorems: statements (as printed by Coq) closed by [exact]. *)
From Coq Require Import ZArith List Bool Reals.
From Flocq Require Import Core IEEE754.BinarySingleNaN.
From KV Require Import Base.IEEE Base.Outcome C01.Model C01.ProofsOut C01.ProofsNan C01.ProofsSteps
     C01.ProofsRender C01.ProofsLoops C01.ProofsBridge C01.ProofsImports C01.ProofsReuse.
From KV Require C02.Model C04.StaticSound C05.Model C05.ProofsSpeed C08.Model C08.Props C08.Run.
From KV Require C04.Transport C04.TransportSeek C04.ProofsTransport C04.ProofsSeek C04.ProofsSound.
Import ListNotations.

Theorem clamp_of_non_nan_is_finite_unit :
  forall x : f32, isnan32 x = false -> unit32 (clamp_unit x) = true.
Proof. exact @clamp_unit_ok. Qed.

Theorem clamp_is_identity_inside_unit :
  forall x : f32, unit32 x = true -> clamp_unit x = x.
Proof. exact @clamp_unit_id. Qed.

Theorem mono_mean_is_finite_unit :
  forall a b : f32, unit32 a = true -> unit32 b = true -> unit32 (div32 (add32 a b) two32) = true.
Proof. exact @mean_unit. Qed.

(** [finite_clamped]: for every binary32 value, NaN and infinities included *)
Theorem finite_clamped_is_finite_unit :
  forall x : f32, unit32 (finite_clamped x) = true.
Proof. exact @finite_clamped_ok. Qed.
Theorem finite_clamped_is_identity_inside_unit :
  forall x : f32, unit32 x = true -> finite_clamped x = x.
Proof. exact @finite_clamped_id. Qed.
Theorem finite_clamped_nan_and_infinities :
  finite_clamped B754_nan = zero32 /\
  finite_clamped (B754_infinity false) = p1_32 /\ finite_clamped (B754_infinity true) = m1_32.
Proof. exact finite_clamped_special. Qed.

(** unconditional: for EVERY bus frame *)
Theorem out_stage_samples_finite_unit :
  forall (n : nat) (l r : f32), Forall (fun x : f32 => unit32 x = true) (out_stage n l r).
Proof. exact @out_stage_wellformed. Qed.

Theorem out_stage_channel_layout :
  forall (n : nat) (l r : f32),
       out_stage 1 l r = [div32 (add32 (finite_clamped l) (finite_clamped r)) two32] /\
       out_stage (S (S n)) l r = finite_clamped l :: finite_clamped r :: repeat zero32 n.
Proof. exact @out_stage_layout. Qed.

Theorem out_stage_writes_n_samples :
  forall (n : nat) (l r : f32), length (out_stage n l r) = n.
Proof. exact @out_stage_length. Qed.

Theorem out_stage_unchanged_on_nan_free_bus :
  forall (n : nat) (l r : f32),
       isnan32 l = false -> isnan32 r = false -> out_stage n l r = out_stage_old n l r.
Proof. exact @out_stage_agrees_with_old. Qed.

(** regression: the stage before the repair passed a NaN of the bus on to the device; the repaired
    stage writes +0 in its place *)
Theorem out_stage_nan_regression :
  forall r : f32,
       (out_stage_old 2 B754_nan r = [B754_nan; clamp_unit r] /\ hd zero32 (out_stage_old 1 B754_nan r) = B754_nan) /\
       (out_stage 2 B754_nan r = [zero32; finite_clamped r] /\
        out_stage 1 B754_nan r = [div32 (add32 zero32 (finite_clamped r)) two32]).
Proof. exact @out_stage_nan_regression. Qed.

Theorem render_every_frame_once_in_order :
  forall (n b : nat) (bus : list (f32 * f32)),
       0 < b -> render n b bus = flat_map (fun '(l, r) => out_stage n l r) bus.
Proof. exact @render_is_per_frame. Qed.

Theorem render_writes_every_slot :
  forall (n b : nat) (bus : list (f32 * f32)), 0 < b -> length (render n b bus) = n * length bus.
Proof. exact @render_length. Qed.

Theorem render_samples_finite_unit :
  forall (n b : nat) (bus : list (f32 * f32)),
       0 < b -> Forall (fun x : f32 => unit32 x = true) (render n b bus).
Proof. exact @render_wellformed. Qed.

Theorem render_chunks_at_most_b :
  forall (A : Type) (b : nat) (l : list A) (fuel : nat),
       Forall (fun c : list A => length c <= b) (chunks fuel b l).
Proof. exact @chunks_bounded. Qed.

(** * The step list of one callback: heap effect, on_start_processing, chunk lengths *)
(** the model's annotation: no audio-thread step allocates or frees; [on_start_processing] runs once;
    the mixer is asked for exactly C02's chunk lengths *)
Theorem callback_allocates_and_frees_nothing :
  forall b frames : nat,
    heap_allocs (callback_steps b frames) = 0 /\ heap_frees (callback_steps b frames) = 0 /\
    starts_of (callback_steps b frames) = 1 /\
    mixer_lengths (callback_steps b frames) = C02.Model.chunk_sizes b frames.
Proof. exact callback_steps_spec. Qed.

Theorem callback_chunks_cover_the_buffer :
  forall b frames : nat,
    1 <= b -> Forall (fun m => 1 <= m <= b) (chunk_lengths b frames) /\ list_sum (chunk_lengths b frames) = frames.
Proof. exact chunk_lengths_spec. Qed.

(** on top of C02's renderer (any sounds, effects, tree, control behaviour): when its output stage is
    this property's [out_stage], the device buffer of a callback is [render] of the bus that C02's
    signal-flow specification yields — chunking, temp buffers and the per-chunk clearing included *)
Theorem device_buffer_is_out_stage_of_specified_bus :
  forall (O : C02.Model.ops) (fr : C02.Model.tF O -> f32 * f32) (smp : C02.Model.tO O -> f32)
         (ch b n : nat) (res : C02.Model.tI O) (sx : C02.Model.smixer O),
    1 <= b -> NoDup (map fst (C02.Model.sx_sends O sx)) ->
    (forall f, map smp (C02.Model.o_out O ch f) = out_stage ch (fst (fr f)) (snd (fr f))) ->
    map smp (snd (C02.Model.run_chunks O ch (C02.Model.conc_renderer O b res sx) (C02.Model.chunk_sizes b n)))
    = render ch b (map fr (spec_bus O (res, sx) (C02.Model.chunk_sizes b n))).
Proof. exact device_buffer_is_render. Qed.

(** ... hence, for every mixer configuration of C02's model (any sounds, effects, gains, tree), every
    sample of the device buffer is a finite number in [-1, 1] *)
Theorem device_buffer_samples_finite_unit :
  forall (O : C02.Model.ops) (fr : C02.Model.tF O -> f32 * f32) (smp : C02.Model.tO O -> f32)
         (ch b n : nat) (res : C02.Model.tI O) (sx : C02.Model.smixer O),
    1 <= b -> NoDup (map fst (C02.Model.sx_sends O sx)) ->
    (forall f, map smp (C02.Model.o_out O ch f) = out_stage ch (fst (fr f)) (snd (fr f))) ->
    Forall (fun x => unit32 x = true)
           (map smp (snd (C02.Model.run_chunks O ch (C02.Model.conc_renderer O b res sx) (C02.Model.chunk_sizes b n)))).
Proof. exact device_buffer_wellformed. Qed.

(** * loops_terminate: the carry loops in binary64 *)
(** `while x >= 1.0 { x -= 1.0; .. }` for a finite 0 <= x <= 2^53: exactly floor(x) iterations, every
    subtraction exact, the fractional part is left *)
Theorem loops_terminate_carry_b64 :
  forall (x : f64) (fuel : nat),
    is_finite x = true -> (0 <= B2R x <= IZR (2 ^ 53))%R -> Z.to_nat (Zfloor (B2R x)) <= fuel ->
    exists r, sub1_loop fuel x = Ok (Z.to_nat (Zfloor (B2R x)), r) /\ is_finite r = true /\
              B2R r = (B2R x - IZR (Zfloor (B2R x)))%R /\ (0 <= B2R r < 1)%R.
Proof. exact sub1_loop_floor. Qed.
(** F8 / F7: from 2^55 on, and for +inf, x - 1 = x and no fuel suffices *)
Theorem loops_terminate_carry_refuted_b64 :
  forall x : f64, carry_diverges x -> forall fuel : nat, sub1_loop fuel x = Hang.
Proof. exact sub1_loop_diverges. Qed.
Theorem loops_carry_subtraction_stuck_b64 :
  forall x : f64, is_finite x = true -> (IZR (2 ^ 55) <= B2R x)%R -> sub64 x one64 = x.
Proof. exact sub1_stuck. Qed.
(** between 2^53 and 2^55 ties decide (witnesses on both sides) *)
Theorem loops_carry_border_b64 :
  bits_of_f64 (sub64 (f64_2p53_plus 0) one64) = bits_of_f64 (Z64 (2 ^ 53 - 1)) /\
  bits_of_f64 (sub64 (f64_2p53_plus 2) one64) = bits_of_f64 (f64_2p53_plus 0) /\
  bits_of_f64 (sub64 (f64_2p53_plus 4) one64) = bits_of_f64 (f64_2p53_plus 4) /\
  bits_of_f64 (sub64 (Z64 (2 ^ 54)) one64) = bits_of_f64 (Z64 (2 ^ 54)).
Proof. exact border_witnesses. Qed.
(** a value below 1, and NaN: no iteration *)
Theorem loops_carry_no_iteration_b64 :
  forall (x : f64) (fuel : nat), le64 one64 x = false -> sub1_loop fuel x = Ok (0, x).
Proof. exact sub1_loop_none. Qed.

(** the clock's tick split (C05's model of [Clock::update] since the F7 repair, binary64 instance:
    floor, saturating cast, one subtraction — no loop).  It is TOTAL: for EVERY timer value (finite
    of any size, +inf, -inf, NaN, negative) it returns; the tick count never decreases and saturates
    at u64::MAX; if [timer >= 1.0] the fraction left is a finite number in [0,1) (finite timer:
    exactly [timer - floor timer] with [floor timer] ticks added; +inf: 0.0 and u64::MAX); otherwise
    ticks and timer are untouched. *)
Theorem loops_terminate_clock_ticks_b64 :
  forall (tk : Z) (x : f64),
    (0 <= tk <= u64_max)%Z ->
    exists tk' r, C05.Model.tick_update (T := f64) tk x = (tk', r) /\ (tk <= tk' <= u64_max)%Z /\
      if le64 one64 x then
        is_finite r = true /\ (0 <= B2R r < 1)%R /\
        (is_finite x = true ->
           B2R r = (B2R x - IZR (Zfloor (B2R x)))%R /\ tk' = Z.min u64_max (tk + Zfloor (B2R x))) /\
        (is_finite x = false -> tk' = u64_max /\ r = B754_zero false)
      else tk' = tk /\ r = x.
Proof. exact C05.ProofsSpeed.tick_update_total_b64_lemma. Qed.
(** the loop it replaced (counter-model [tick_loop_old]): below 2^53 it cost exactly floor(x)
    iterations and left the same split ... *)
Theorem loops_clock_ticks_old_loop_b64 :
  forall (x : f64) (fuel : nat) (tk : Z),
    is_finite x = true -> (0 <= B2R x <= IZR (2 ^ 53))%R -> Z.to_nat (Zfloor (B2R x)) <= fuel ->
    (tk + Zfloor (B2R x) <= u64_max)%Z ->
    exists r, C05.Model.tick_loop_old (T := f64) fuel tk x = Ok ((tk + Zfloor (B2R x))%Z, r) /\ is_finite r = true /\
              B2R r = (B2R x - IZR (Zfloor (B2R x)))%R /\ (0 <= B2R r < 1)%R.
Proof. exact tick_loop_floor. Qed.
(** ... F7, REGRESSION: from 2^55 on and for +inf the old loop never returned, whatever the fuel;
    the repaired split returns (fraction 0: such a timer is an integer; ticks within u64) *)
Theorem loops_clock_ticks_refuted_b64 :
  forall x : f64, carry_diverges x ->
    (forall (fuel : nat) (tk : Z), is_ok (C05.Model.tick_loop_old (T := f64) fuel tk x) = false) /\
    (forall tk : Z, (0 <= tk <= u64_max)%Z ->
       exists tk' r, C05.Model.tick_update (T := f64) tk x = (tk', r) /\ (tk <= tk' <= u64_max)%Z /\
                     is_finite r = true /\ B2R r = 0%R).
Proof. exact tick_update_on_divergence_class. Qed.

(** the static sound's carry loop (C04's model, binary64 instance): it never returns once the
    fractional position is in the divergence class, and whenever it returns it went through the
    scalar loop's values *)
Theorem loops_static_sound_carry_refuted_b64 :
  forall (A : Type) (azero : A) (fuel fl : nat) (s : C04.StaticSound.ssound f64 A),
    carry_diverges (C04.StaticSound.s_fpos s) -> is_ok (C04.StaticSound.carry A azero fuel fl s) = false.
Proof. exact carry_diverges_b64. Qed.
Theorem loops_static_sound_carry_is_scalar_loop :
  forall (A : Type) (azero : A) (fuel fl : nat) (s s' : C04.StaticSound.ssound f64 A),
    C04.StaticSound.carry A azero fuel fl s = Ok s' ->
    exists n, sub1_loop fl (C04.StaticSound.s_fpos s) = Ok (n, C04.StaticSound.s_fpos s').
Proof. exact carry_ok_count. Qed.

(** * [Transport::seek_to] (C04's model): since the repair of F40 it has no loop.  For EVERY [usize]
    target and every well-formed transport it returns (there is no fuel in the term), keeps the
    invariant, and lands on the wrapped position — so the cost of a seek no longer depends on the
    target: `seek_to(1e300)` / `seek_by(1e300)` on a looping sound return like any other. *)
Theorem loops_terminate_transport_seek_any_target :
  forall (N B : Z), (N <= B)%Z -> (B < u64_max)%Z ->
  forall (t : C04.Transport.transport) (i : Z),
    C04.ProofsTransport.wf_transport B t -> (0 <= i <= u64_max)%Z ->
    exists t', C04.TransportSeek.transport_seek_to t i N = Ok t' /\ C04.ProofsTransport.wf_transport B t' /\
      C04.Transport.t_loop t' = C04.Transport.t_loop t /\
      match C04.Transport.t_loop t with
      | Some (ls, le) =>
          (C04.Transport.t_pos t < i -> C04.Transport.t_pos t' < le)%Z /\
          (i <= C04.Transport.t_pos t -> ls <= C04.Transport.t_pos t')%Z /\
          (ls <= i < le -> C04.Transport.t_pos t' = i)%Z /\
          ((C04.Transport.t_pos t' - i) mod (le - ls) = 0)%Z
      | None => C04.Transport.t_pos t' = i
      end /\
      C04.Transport.t_playing t' = (C04.Transport.t_pos t' <? N)%Z.
Proof. exact C04.ProofsSeek.seek_total. Qed.
(** the same for the static sound's [seek_to_index] (the seek, then one push into the resampler
    window): every [usize] index, on every sound satisfying C04's invariant *)
Theorem loops_terminate_static_sound_seek_any_index :
  forall (T A : Type) (azero : A) (fuel : nat) (B : Z) (s : C04.StaticSound.ssound T A) (i : Z),
    C04.ProofsSound.SInv A fuel B s -> (0 <= i <= u64_max)%Z ->
    exists s', C04.StaticSound.seek_to_index A azero s i = Ok s' /\ C04.ProofsSound.SInv A fuel B s'.
Proof. exact (@C04.ProofsSound.seek_to_index_safe). Qed.
(** F40, REGRESSION: the loop it replaced (counter-model: [C04.Transport.transport_seek_to], with
    fuel) cost [(p - le) / (le - ls) + 1] iterations: with no more fuel than that it hangs, with more
    it returns what the repaired seek returns at once ... *)
Theorem loops_transport_seek_old_loop_cost :
  forall (fuel : nat) (t : C04.Transport.transport) (p N ls le : Z),
    C04.Transport.t_loop t = Some (ls, le) -> (0 <= ls)%Z -> (ls < le)%Z -> (le <= u64_max)%Z ->
    (0 <= C04.Transport.t_pos t)%Z -> (C04.Transport.t_pos t < p)%Z -> (le <= p)%Z -> (p <= u64_max)%Z ->
    ((Z.of_nat fuel <= (p - le) / (le - ls) + 1)%Z -> C04.Transport.transport_seek_to fuel t p N = Hang) /\
    (((p - le) / (le - ls) + 1 < Z.of_nat fuel)%Z ->
       C04.Transport.transport_seek_to fuel t p N =
         Ok {| C04.Transport.t_pos := (ls + (p - ls) mod (le - ls))%Z; C04.Transport.t_loop := C04.Transport.t_loop t;
               C04.Transport.t_playing := if (ls + (p - ls) mod (le - ls) >=? N)%Z then false else C04.Transport.t_playing t |}) /\
    C04.TransportSeek.transport_seek_to t p N =
      Ok {| C04.Transport.t_pos := (ls + (p - ls) mod (le - ls))%Z; C04.Transport.t_loop := C04.Transport.t_loop t;
            C04.Transport.t_playing := (ls + (p - ls) mod (le - ls) <? N)%Z |}.
Proof. exact C04.ProofsSeek.seek_old_cost. Qed.
(** ... the witness `seek_to(1e300)` (the index saturates to usize::MAX) on a loop of 4 frames: 2^62 - 1
    subtractions; no fuel below 2^62 let the old seek return *)
Theorem loops_transport_seek_old_loop_witness :
  forall (fuel : nat) (N : Z),
    (Z.of_nat fuel < 2 ^ 62)%Z ->
    C04.Transport.transport_seek_to fuel
      {| C04.Transport.t_pos := 3; C04.Transport.t_loop := Some (0, 4)%Z; C04.Transport.t_playing := true |} u64_max N = Hang /\
    C04.TransportSeek.transport_seek_to
      {| C04.Transport.t_pos := 3; C04.Transport.t_loop := Some (0, 4)%Z; C04.Transport.t_playing := true |} u64_max N =
      Ok {| C04.Transport.t_pos := 3; C04.Transport.t_loop := Some (0, 4)%Z;
            C04.Transport.t_playing := (3 <? N)%Z |}.
Proof. exact C04.ProofsSeek.seek_old_cost_witness. Qed.

(** * no_nan_stage: where a NaN can be born in the gain stages (binary32) *)
(** one product: NaN exactly for a NaN factor or inf * 0; one sum: NaN factor or inf - inf *)
Theorem no_nan_product_exact_b32 :
  forall x y : f32, is_nan (mul32 x y) = is_nan x || is_nan y || inf_times_zero x y.
Proof. exact mul_nan_exact. Qed.
Theorem no_nan_sum_exact_b32 :
  forall x y : f32, is_nan (add32 x y) = is_nan x || is_nan y || inf_minus_inf x y.
Proof. exact add_nan_exact. Qed.
(** a gain in [0, 1] keeps a finite sample finite and no larger *)
Theorem attenuation_keeps_finite_b32 :
  forall x s : f32, is_finite x = true -> in01 s = true ->
    is_finite (mul32 x s) = true /\ (Rabs (B2R (mul32 x s)) <= Rabs (B2R x))%R.
Proof. exact mul_attenuates. Qed.

(** volume stage (main / send track, `VolumeControl`): finite sample * finite amplitude is never NaN *)
Theorem no_nan_stage_volume_b32 :
  forall x vol : f32, is_finite x = true -> is_finite vol = true -> is_nan (volume_gain x vol) = false.
Proof. exact volume_gain_no_nan. Qed.
Theorem no_nan_stage_volume_refuted_b32 :
  exists x vol : f32, is_finite x = true /\ vol = B754_infinity false /\ is_nan (volume_gain x vol) = true.
Proof. exact volume_gain_refuted. Qed.

(** sound gain stage `resampler_out * fade_volume * volume` *)
Theorem no_nan_stage_sound_gain_exact_b32 :
  forall x fade vol : f32, is_finite x = true -> is_finite fade = true -> is_finite vol = true ->
    is_nan (sound_gain x fade vol) = is_inf (mul32 x fade) && is_zero vol.
Proof. exact sound_gain_nan_exact. Qed.
Theorem no_nan_stage_sound_gain_b32 :
  forall x fade vol : f32, is_finite x = true -> in01 fade = true -> is_finite vol = true ->
    is_nan (sound_gain x fade vol) = false.
Proof. exact sound_gain_no_nan. Qed.
Theorem no_nan_stage_sound_gain_refuted_b32 :
  exists x fade vol : f32,
    is_finite x = true /\ is_finite fade = true /\ is_finite vol = true /\ is_nan (sound_gain x fade vol) = true.
Proof. exact sound_gain_refuted. Qed.

(** panning *)
Theorem no_nan_stage_panned_b32 :
  forall x g : f32, is_finite x = true -> is_finite g = true -> is_nan (panned_side x g) = false.
Proof. exact panned_side_no_nan. Qed.
Theorem no_nan_stage_panned_refuted_b32 :
  exists x g : f32, is_nan x = false /\ in01 g = true /\ is_nan (panned_side x g) = true.
Proof. exact panned_side_refuted. Qed.

(** sub-track stage `*frame *= volume * fade_volume` *)
Theorem no_nan_stage_track_gain_exact_b32 :
  forall x vol fade : f32, is_finite x = true -> is_finite vol = true -> is_finite fade = true ->
    is_nan (track_gain x vol fade) = is_zero x && is_inf (mul32 vol fade).
Proof. exact track_gain_nan_exact. Qed.
Theorem no_nan_stage_track_gain_b32 :
  forall x vol fade : f32, is_finite x = true -> is_finite vol = true -> in01 fade = true ->
    is_nan (track_gain x vol fade) = false.
Proof. exact track_gain_no_nan. Qed.
Theorem no_nan_stage_track_gain_refuted_b32 :
  exists x vol fade : f32,
    is_finite x = true /\ is_finite vol = true /\ is_finite fade = true /\ is_nan (track_gain x vol fade) = true.
Proof. exact track_gain_refuted. Qed.

(** wet / dry blend of the effects, any non-NaN mix *)
Theorem no_nan_stage_blend_b32 :
  forall wet dry mix : f32, is_finite wet = true -> is_finite dry = true -> isnan32 mix = false ->
    is_nan (blend32 wet dry mix) = false.
Proof. exact blend_no_nan. Qed.
Theorem no_nan_stage_blend_refuted_b32 :
  exists wet dry mix : f32,
    is_nan wet = false /\ is_finite dry = true /\ in01 mix = true /\ is_nan (blend32 wet dry mix) = true.
Proof. exact blend_refuted. Qed.

(** * Imported from C08 (resource hand-off, ALL interleavings of the audio thread with the caller's
    thread, every capacity): nothing is ever destroyed on the audio thread, and no queue push or
    arena insertion of the audio thread can fail ("unused resource producer is full" is unreachable) *)
Theorem audio_side_never_frees :
  forall (cf : C08.Model.cfg) (sched : list C08.Model.label) (s : C08.Model.state),
    C08.Model.run cf sched (C08.Model.init cf) = Ok s ->
    (forall p t, In (p, t) (C08.Model.st_destroyed s) -> t = C08.Model.Gameplay) /\
    (forall l s', C08.Model.thread_of l = C08.Model.Audio -> C08.Model.step cf l s = Ok s' ->
                  C08.Model.st_destroyed s' = C08.Model.st_destroyed s /\ C08.Model.st_next s' = C08.Model.st_next s).
Proof. exact never_frees_on_audio. Qed.
Theorem queues_never_overflow :
  forall (cf : C08.Model.cfg) (sched : list C08.Model.label),
    exists s, C08.Model.run cf sched (C08.Model.init cf) = Ok s.
Proof. exact no_step_panics. Qed.

(** * Slot re-use: after ANY history of the hand-off (any number of rounds in which a slot is handed out,
    emptied by the audio thread and handed out again) the next whole creation on the caller's thread and the
    next whole removal / adding pass of a callback run to completion: no push fails, however often the
    rings have wrapped *)
Theorem slot_reuse_next_creation_and_callback_return :
  forall (cf : C08.Model.cfg) (sched : list C08.Model.label) (s : C08.Model.state),
    C08.Model.run cf sched (C08.Model.init cf) = Ok s ->
    (exists s1, C08.Model.run cf (C08.Run.create_sched s) s = Ok s1) /\
    (exists s2, C08.Model.run cf (C08.Run.callback_sched cf s) s = Ok s2).
Proof. exact slot_reuse_returns. Qed.
(** the hypothesis is met after more rounds than the storage and its unused-ring have places (1 slot,
    5 rounds: payloads 0..3 destroyed by the caller's creations, payload 4 parked, count back to 0) *)
Theorem slot_reuse_example :
  exists s, C08.Model.run (C08.Model.mkCfg false false 1) (rounds 5) (C08.Model.init (C08.Model.mkCfg false false 1)) = Ok s /\
            C08.Model.st_removed s = 5 /\ C08.Model.st_unused s = [4] /\
            C08.Model.st_destroyed s = [(3, C08.Model.Gameplay); (2, C08.Model.Gameplay); (1, C08.Model.Gameplay); (0, C08.Model.Gameplay)] /\
            C08.Model.res_len s = 0.
Proof. exact slot_reuse_example_lemma. Qed.
