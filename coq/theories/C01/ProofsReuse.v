(** C01 — slot re-use: after ANY history of the resource hand-off (C08's model: any number of rounds in
    which a slot is handed out, its payload removed by the audio thread, parked in the unused-ring,
    destroyed by the caller's next creation, and the slot handed out again), every continuation runs
    without a failing step — in particular the next whole creation and the next whole removal / adding pass
    of a callback ([C08.Run.create_sched], [C08.Run.callback_sched]: the units the harness executes).
    Consequence of C08's invariant for all schedules. *)
From Coq Require Import List Arith.
From KV Require Import Base.Outcome.
From KV Require C08.Model C08.ProofsRun C08.Props C08.Run.
Import ListNotations.

Lemma continuation_returns :
  forall (cf : C08.Model.cfg) (sched more : list C08.Model.label) (s : C08.Model.state),
    C08.Model.run cf sched (C08.Model.init cf) = Ok s ->
    exists s', C08.Model.run cf more s = Ok s'.
Proof.
  intros cf sched more s H.
  destruct (C08.Props.res_invariant cf (sched ++ more)) as [s2 [E _]].
  apply C08.ProofsRun.run_app in E. destruct E as (s1 & E1 & E2).
  rewrite H in E1. inversion E1; subst. eauto.
Qed.

Lemma slot_reuse_returns :
  forall (cf : C08.Model.cfg) (sched : list C08.Model.label) (s : C08.Model.state),
    C08.Model.run cf sched (C08.Model.init cf) = Ok s ->
    (exists s1, C08.Model.run cf (C08.Run.create_sched s) s = Ok s1) /\
    (exists s2, C08.Model.run cf (C08.Run.callback_sched cf s) s = Ok s2).
Proof.
  intros cf sched s H. split; eapply continuation_returns; exact H.
Qed.

(** one round on one slot: create, callback, give the payload up, callback *)
Definition create_labels : list C08.Model.label :=
  [C08.Model.G_reserve; C08.Model.G_drain_one; C08.Model.G_drain_done; C08.Model.G_push].
Definition callback_labels : list C08.Model.label :=
  [C08.Model.A_start; C08.Model.A_remove; C08.Model.A_push; C08.Model.A_remove; C08.Model.A_push;
   C08.Model.A_add; C08.Model.A_add].
Definition round (p : nat) : list C08.Model.label :=
  create_labels ++ callback_labels ++ [C08.Model.G_mark p] ++ callback_labels.
Definition rounds (n : nat) : list C08.Model.label := concat (map round (seq 0 n)).

(** the hypothesis is met by histories that go round more often than the storage (1 slot) and its
    unused-ring (2 places) have room: 5 rounds on one send-track slot — 5 payloads removed, 4 of them
    destroyed (all by the caller), the last one parked in the ring *)
Lemma slot_reuse_example_lemma :
  exists s, C08.Model.run (C08.Model.mkCfg false false 1) (rounds 5) (C08.Model.init (C08.Model.mkCfg false false 1)) = Ok s /\
            C08.Model.st_removed s = 5 /\ C08.Model.st_unused s = [4] /\
            C08.Model.st_destroyed s = [(3, C08.Model.Gameplay); (2, C08.Model.Gameplay); (1, C08.Model.Gameplay); (0, C08.Model.Gameplay)] /\
            C08.Model.res_len s = 0.
Proof. eexists. vm_compute. repeat split. Qed.
