(** C01 — the output stage of [Renderer::process_chunk] (backend/renderer.rs): clamp both
    channels to [-1, 1], then one channel = mean of left and right; two or more = left, right
    and silence on the extra channels. *)
From Coq Require Import ZArith List Bool.
From KV Require Import Base.IEEE.
Import ListNotations.
Local Open Scope Z_scope.

Definition m1_32 : f32 := Z32 (-1).
Definition p1_32 : f32 := Z32 1.
Definition two32 : f32 := Z32 2.
Definition zero32 : f32 := Z32 0.

(** [f32::clamp(-1.0, 1.0)] *)
Definition clamp_unit (x : f32) : f32 := clamp32 x m1_32 p1_32.

(** the samples written for one frame (l, r) of the mixer bus, for [n] device channels *)
Definition out_stage (n : nat) (l r : f32) : list f32 :=
  let l' := clamp_unit l in
  let r' := clamp_unit r in
  match n with
  | O => []
  | 1%nat => [div32 (add32 l' r') two32]
  | S (S extra) => l' :: r' :: repeat zero32 extra
  end.

(** [Renderer::process]: the device buffer is cut into chunks of at most
    [b] frames; each chunk's frames go through the output stage in order *)
Fixpoint chunks {A} (fuel : nat) (b : nat) (l : list A) : list (list A) :=
  match fuel with
  | O => []
  | S fuel' => match l with
               | [] => []
               | _ => firstn b l :: chunks fuel' b (skipn b l)
               end
  end.
Definition render (n b : nat) (bus : list (f32 * f32)) : list f32 :=
  concat (map (fun chunk => flat_map (fun '(l, r) => out_stage n l r) chunk) (chunks (length bus) b bus)).

(** a sample is a finite number in [-1, 1] *)
Definition unit32 (x : f32) : bool := le32 m1_32 x && le32 x p1_32.
