(** C01 — the output stage of [Renderer::process_chunk] (backend/renderer.rs): both channels go
    through [finite_clamped] (NaN -> 0.0, everything else clamped to [-1, 1]), then one channel =
    mean of left and right; two or more = left, right and silence on the extra channels. *)
From Coq Require Import ZArith List Bool.
From KV Require Import Base.IEEE Base.Outcome.
Import ListNotations.
Local Open Scope Z_scope.

Definition m1_32 : f32 := Z32 (-1).
Definition p1_32 : f32 := Z32 1.
Definition two32 : f32 := Z32 2.
Definition zero32 : f32 := Z32 0.

(** [f32::clamp(-1.0, 1.0)] *)
Definition clamp_unit (x : f32) : f32 := clamp32 x m1_32 p1_32.

(** [finite_clamped] (backend/renderer.rs): `if sample.is_nan() { 0.0 } else { sample.clamp(-1.0, 1.0) }` *)
Definition finite_clamped (x : f32) : f32 := if isnan32 x then zero32 else clamp_unit x.

(** the samples written for one frame (l, r) of the mixer bus, for [n] device channels *)
Definition out_stage (n : nat) (l r : f32) : list f32 :=
  let l' := finite_clamped l in
  let r' := finite_clamped r in
  match n with
  | O => []
  | 1%nat => [div32 (add32 l' r') two32]
  | S (S extra) => l' :: r' :: repeat zero32 extra
  end.
(** the stage as it was before the repair (`frame.left.clamp(-1.0, 1.0)` alone): kept as the
    counter-model of the regression theorem — Rust's [clamp] returns NaN for NaN *)
Definition out_stage_old (n : nat) (l r : f32) : list f32 :=
  let l' := clamp_unit l in
  let r' := clamp_unit r in
  match n with
  | O => []
  | 1%nat => [div32 (add32 l' r') two32]
  | S (S extra) => l' :: r' :: repeat zero32 extra
  end.

(** [Renderer::process]: the device buffer is cut into chunks of at most
    [b] frames; each chunk's frames go through the output stage in order *)
Fixpoint chunks {A} (fuel : nat) (b : nat) (l : list A) : list (list A) :=
  match fuel with
  | O => []
  | S fuel' => match l with
               | [] => []
               | _ => firstn b l :: chunks fuel' b (skipn b l)
               end
  end.
Definition render (n b : nat) (bus : list (f32 * f32)) : list f32 :=
  concat (map (fun chunk => flat_map (fun '(l, r) => out_stage n l r) chunk) (chunks (length bus) b bus)).

(** a sample is a finite number in [-1, 1] *)
Definition unit32 (x : f32) : bool := le32 m1_32 x && le32 x p1_32.

(** * Audio-thread steps of one device callback and their heap effect

    [Renderer::on_start_processing] (mixer, clocks, listeners, modulators: commands are read, finished
    resources are moved to the unused-resource queues, queued resources are moved into the arenas)
    followed by [Renderer::process]: one [process_chunk] per chunk of at most [b] frames, each
    being modulators -> clocks -> listeners -> mixer -> output stage -> [temp_buffer.fill(ZERO)].
    The annotation [allocs] / [frees] is the model's prediction for the counting allocator of the
    harness (armed on the audio thread for the duration of the callback): every transcribed
    statement works in buffers allocated when the resource was built (Renderer::new, Mixer::new,
    TrackBuilder::build, Delay::init) and hands removed resources to a pre-allocated ring buffer;
    it is an annotation justified by inspection, validated per callback by the harness, not
    derived from Rust's semantics. *)
Inductive astep :=
| AStartMixer | AStartClocks | AStartListeners | AStartModulators
| AModulators (frames : nat) | AClocks (frames : nat) | AListeners (frames : nat)
| AMixer (frames : nat) | AOutStage (frames : nat) | AClearBus.

Definition allocs (s : astep) : nat := 0%nat.
Definition frees (s : astep) : nat := 0%nat.

Definition start_steps : list astep := [AStartMixer; AStartClocks; AStartListeners; AStartModulators].
Definition chunk_steps (m : nat) : list astep :=
  [AModulators m; AClocks m; AListeners m; AMixer m; AOutStage m; AClearBus].
(** chunk lengths of a device buffer of [frames] frames: `out.chunks_mut(b * channels)` *)
Definition chunk_lengths (b frames : nat) : list nat := map (@length unit) (chunks frames b (repeat tt frames)).
Definition callback_steps (b frames : nat) : list astep :=
  start_steps ++ flat_map chunk_steps (chunk_lengths b frames).

Definition heap_allocs (l : list astep) : nat := fold_right (fun s a => (allocs s + a)%nat) 0%nat l.
Definition heap_frees (l : list astep) : nat := fold_right (fun s a => (frees s + a)%nat) 0%nat l.
(** how often the mixer's [on_start_processing] runs, and the lengths the mixer is asked for *)
Definition starts_of (l : list astep) : nat := length (filter (fun s => match s with AStartMixer => true | _ => false end) l).
Definition mixer_lengths (l : list astep) : list nat :=
  flat_map (fun s => match s with AMixer m => [m] | _ => [] end) l.

(** * The carry loops: `while x >= 1.0 { x -= 1.0; step() }` in binary64
    (static_sound/sound.rs and streaming/sound.rs [fractional_position], clock.rs [tick_timer]);
    the result is the number of iterations and what is left of [x] *)
Definition one64 : f64 := Z64 1.
Fixpoint sub1_loop (fuel : nat) (x : f64) : outcome (nat * f64) :=
  if le64 one64 x then
    match fuel with
    | O => Hang
    | S f => match sub1_loop f (sub64 x one64) with
             | Ok (n, r) => Ok (S n, r)
             | Panic k => Panic k
             | Hang => Hang
             end
    end
  else Ok (O, x).

(** * Gain stages in binary32 *)
(** sound: `(resampler_out * fade_volume * volume).panned(panning)`, one side; [gl] is the panning
    gain `(1 - mix).sqrt()` or `mix.sqrt()`, and the result is scaled by SQRT_2 *)
Definition sqrt2_32 : f32 := sqrt32 (Z32 2).
Definition sound_gain (x fade vol : f32) : f32 := mul32 (mul32 x fade) vol.
Definition panned_side (x g : f32) : f32 := mul32 (mul32 x g) sqrt2_32.
(** track / main / send: `*frame *= volume * fade_volume`, `*frame *= volume` *)
Definition track_gain (x vol fade : f32) : f32 := mul32 x (mul32 vol fade).
Definition volume_gain (x vol : f32) : f32 := mul32 x vol.
(** effects: `wet * mix.sqrt() + dry * (1.0 - mix).sqrt()` with `mix.clamp(0.0, 1.0)` *)
Definition blend32 (wet dry mix : f32) : f32 :=
  let m := clamp32 mix zero32 p1_32 in
  add32 (mul32 wet (sqrt32 m)) (mul32 dry (sqrt32 (sub32 p1_32 m))).
