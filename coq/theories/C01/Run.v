(** C01 — model side of the correspondence.  [COut]: the device buffer for a given mixer bus must be
    [render n b bus] (the bus is either the source frames of a unit-gain static sound on a bare main
    track, or what a probe effect at the end of the main track recorded in a random scene).
    [CCb]: the step list of a callback: no heap traffic, one on_start_processing, chunk lengths.
    [CRes]: a history of creations, handle drops / finishes and callbacks on ONE resource storage, run on
    C08's model of the hand-off (the model behind [audio_side_never_frees] / [queues_never_overflow]):
    every callback returns (no push of the audio thread fails, however often the slots are re-used), the
    reported count, and which payloads are destroyed during which operation and on which thread.
    [CSnd]: a static sound driven callback by callback (a case of C04's model, [C04.Run]): the F40
    regression cases — a seek far beyond / below a loop region returns, with the output and the
    position the model predicts.  [CSeek]: one [Transport::seek_to] ([C04.TransportSeek]) — where the
    decoder of a looping STREAMING sound lands after such a seek. *)
From Coq Require Import ZArith List Bool.
From KV Require Import Base.IEEE Base.Outcome Base.Corr C01.Model.
From KV Require C08.Model C08.Run C04.Transport C04.TransportSeek C04.Run.
Import ListNotations.
Local Open Scope Z_scope.

Inductive case :=
| COut (channels b : Z) (frames : list (Z * Z))
  (** one callback of [frames] frames with internal buffer [b]: heap allocations, frees, calls of
      on_start_processing, then the chunk lengths the mixer was asked for *)
| CCb (b frames : Z)
  (** storage kind ([selfref]: clocks, modulators; [prebuild]: the payload exists before the slot is
      reserved: sounds, sub-tracks), capacity, observable mask of C08.Run ([M_LEN] = 2, [M_DROPS] = 4),
      operations: 0 = create, 1 = callback, 100 + p = the p-th payload is marked for removal (its handle
      is dropped / it reports [finished]) *)
| CRes (selfref prebuild : bool) (cap mask : Z) (ops : list Z)
| CSnd (c : C04.Run.case)
  (** [Transport::seek_to(target, num_frames)] at position [cur] with the loop region [lp] *)
| CSeek (cur : Z) (lp : option (Z * Z)) (playing : bool) (target num_frames : Z).

Definition res_op_of_Z (z : Z) : C08.Run.op :=
  if z =? 0 then C08.Run.OCreate else if z =? 1 then C08.Run.OCallback else C08.Run.OMark (z - 100).

Definition run (c : case) : list Z :=
  match c with
  | COut n b frames =>
      map bits_of_f32 (render (Z.to_nat n) (Z.to_nat b) (map (fun '(l, r) => (f32_of_bits l, f32_of_bits r)) frames))
  | CCb b frames =>
      let steps := callback_steps (Z.to_nat b) (Z.to_nat frames) in
      Z.of_nat (heap_allocs steps) :: Z.of_nat (heap_frees steps) :: Z.of_nat (starts_of steps)
      :: map Z.of_nat (mixer_lengths steps)
  | CRes sr pb cp mask ops =>
      C08.Run.run (C08.Run.CHist sr pb cp mask (map res_op_of_Z ops))
  | CSnd c => C04.Run.run c
  | CSeek cur lp playing target n =>
      encode_outcome (fun t => [C04.Transport.t_pos t; if C04.Transport.t_playing t then 1 else 0])
        (C04.TransportSeek.transport_seek_to
           {| C04.Transport.t_pos := cur; C04.Transport.t_loop := lp; C04.Transport.t_playing := playing |} target n)
  end.
