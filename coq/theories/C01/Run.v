(** C01 — model side of the correspondence.  [COut]: the device buffer for a given mixer bus must be
    [render n b bus] (the bus is either the source frames of a unit-gain static sound on a bare main
    track, or what a probe effect at the end of the main track recorded in a random scene).
    [CCb]: the step list of a callback: no heap traffic, one on_start_processing, chunk lengths. *)
From Coq Require Import ZArith List Bool.
From KV Require Import Base.IEEE Base.Corr C01.Model.
Import ListNotations.
Local Open Scope Z_scope.

Inductive case :=
| COut (channels b : Z) (frames : list (Z * Z))
  (** one callback of [frames] frames with internal buffer [b]: heap allocations, frees, calls of
      on_start_processing, then the chunk lengths the mixer was asked for *)
| CCb (b frames : Z).

Definition run (c : case) : list Z :=
  match c with
  | COut n b frames =>
      map bits_of_f32 (render (Z.to_nat n) (Z.to_nat b) (map (fun '(l, r) => (f32_of_bits l, f32_of_bits r)) frames))
  | CCb b frames =>
      let steps := callback_steps (Z.to_nat b) (Z.to_nat frames) in
      Z.of_nat (heap_allocs steps) :: Z.of_nat (heap_frees steps) :: Z.of_nat (starts_of steps)
      :: map Z.of_nat (mixer_lengths steps)
  end.
