(** C01 — model side of the output-stage correspondence: a unit-gain static sound on a bare
    main track puts its source frames on the mixer bus unchanged (rate 1, 0 dB, centre), so the
    device buffer must be [render n b frames]. *)
From Coq Require Import ZArith List Bool.
From KV Require Import Base.IEEE Base.Corr C01.Model.
Import ListNotations.
Local Open Scope Z_scope.

Inductive case := COut (channels b : Z) (frames : list (Z * Z)).

Definition run (c : case) : list Z :=
  match c with
  | COut n b frames =>
      map bits_of_f32 (render (Z.to_nat n) (Z.to_nat b) (map (fun '(l, r) => (f32_of_bits l, f32_of_bits r)) frames))
  end.
