(** C07 — the inductive invariant of one triple buffer, and its preservation by every
    protocol step (buffer level). *)
From Coq Require Import ZArith List Bool Arith Lia Sorted.
From KV Require Import C07.Model.
Import ListNotations.

(** * trio / slot lemmas *)
Lemma tget_tset_eq : forall A (t : trio A) i x, tget (tset t i x) i = x.
Proof. intros A t [] x; reflexivity. Qed.
Lemma tget_tset_neq : forall A (t : trio A) i j x, i <> j -> tget (tset t i x) j = tget t j.
Proof. intros A t [] [] x H; try reflexivity; congruence. Qed.

(** * publication list lemmas *)
Lemma pub_at_l_bound : forall l k x, pub_at_l l k = Some x -> 1 <= k <= length l.
Proof.
  unfold pub_at_l; intros l k x H.
  destruct (k =? 0) eqn:E0; cbn [orb] in H; [discriminate|].
  destruct (length l <? k) eqn:E1; [discriminate|].
  apply Nat.eqb_neq in E0. apply Nat.ltb_ge in E1. lia.
Qed.
Lemma pub_at_l_new : forall l x, pub_at_l (x :: l) (S (length l)) = Some x.
Proof.
  intros l x. unfold pub_at_l. cbn [length].
  replace (S (length l) =? 0) with false by reflexivity.
  rewrite Nat.ltb_irrefl. cbn [orb]. rewrite Nat.sub_diag. reflexivity.
Qed.
Lemma pub_at_l_old : forall l x k, k <= length l -> pub_at_l (x :: l) k = pub_at_l l k.
Proof.
  intros l x k Hk. unfold pub_at_l. cbn [length].
  destruct (k =? 0) eqn:E0; [reflexivity|]. cbn [orb].
  apply Nat.eqb_neq in E0.
  replace (S (length l) <? k) with false by (symmetry; apply Nat.ltb_ge; lia).
  replace (length l <? k) with false by (symmetry; apply Nat.ltb_ge; lia).
  replace (S (length l) - k) with (S (length l - k)) by lia. reflexivity.
Qed.
Lemma pub_at_l_cons_inv : forall l x k y,
  pub_at_l (x :: l) k = Some y -> (k = S (length l) /\ y = x) \/ (k <= length l /\ pub_at_l l k = Some y).
Proof.
  intros l x k y H. pose proof (pub_at_l_bound _ _ _ H) as B. cbn [length] in B.
  destruct (Nat.eq_dec k (S (length l))) as [->|Hn].
  - rewrite pub_at_l_new in H. left; split; congruence.
  - right. split; [lia|]. rewrite pub_at_l_old in H by lia. exact H.
Qed.
Lemma pub_at_l_pres : forall l x k y, pub_at_l l k = Some y -> pub_at_l (x :: l) k = Some y.
Proof.
  intros l x k y H. pose proof (pub_at_l_bound _ _ _ H). rewrite pub_at_l_old by lia. exact H.
Qed.
Lemma pub_at_l_total : forall l k, 1 <= k <= length l -> exists x, pub_at_l l k = Some x.
Proof.
  intros l k Hk. unfold pub_at_l.
  replace (k =? 0) with false by (symmetry; apply Nat.eqb_neq; lia).
  replace (length l <? k) with false by (symmetry; apply Nat.ltb_ge; lia). cbn [orb].
  destruct (nth_error l (length l - k)) eqn:E; [eauto|].
  apply nth_error_None in E. lia.
Qed.

(** * the invariant *)
Inductive wloc := LIdle | LHalf (v : val) | LFull (v : val).
Inductive rloc := QIdle | QSaw | QSwapped | QHalf (d : bool) (a : Z).
Definition pending (rl : rloc) : bool := match rl with QSwapped | QHalf _ _ => true | _ => false end.

Definition taken (b : tbuf) : nat := tget (tag b) (r_out b).
Definition last_idx (b : tbuf) : nat := hd 0 (applied_idx (rets b)).

(** slot [x] holds, whole, the value of the publication its tag names *)
Definition cell_ok (b : tbuf) (x : slot) : Prop :=
  (tget (tag b) x = 0 /\ tget (mem b) x = cell_none) \/
  (exists v s d, pub_at b (tget (tag b) x) = Some (v, s, d) /\ tget (mem b) x = cell_of v).

Record binv (cs cd : nat) (wl : wloc) (rl : rloc) (b : tbuf) : Prop := {
  i_own : w_in b <> back b /\ back b <> r_out b /\ w_in b <> r_out b;
  i_cell_back : cell_ok b (back b);
  i_cell_out : cell_ok b (r_out b);
  i_cell_in : match wl with
              | LIdle => True
              | LHalf v => c_some (tget (mem b) (w_in b)) = true /\ c_w1 (tget (mem b) (w_in b)) = fst v
              | LFull v => tget (mem b) (w_in b) = cell_of v
              end;
  i_dirty : if dirty b then tget (tag b) (back b) = npub b /\ taken b < npub b else taken b = npub b;
  i_saw : rl = QSaw -> dirty b = true;
  i_half : forall d a, rl = QHalf d a -> (d, a) = r_copy1 b;
  i_stamps : forall k v s d, pub_at b k = Some (v, s, d) -> d <= s <= d + 1 /\ s <= cs /\ d <= cd;
  i_rets : forall a k v, In (a, k, v) (applied (rets b)) ->
             exists s d, pub_at b k = Some (v, s, d) /\ d + 1 <= a <= s + 1 /\ a <= cs /\
                         (forall k' v' s' d', k < k' -> pub_at b k' = Some (v', s', d') -> a <= s');
  i_sorted : StronglySorted gt (applied_idx (rets b));
  i_last : if pending rl
           then last_idx b < taken b /\
                (exists v s d, pub_at b (taken b) = Some (v, s, d) /\ d + 1 <= cs <= s + 1) /\
                (forall k' v' s' d', taken b < k' -> pub_at b k' = Some (v', s', d') -> cs <= s')
           else last_idx b = taken b;
  i_notlost : forall k v s d, pub_at b k = Some (v, s, d) -> s + 1 <= rb b ->
                (exists a k' v', In (a, k', v') (applied (rets b)) /\ k <= k' /\ a <= s + 1) \/
                (pending rl = true /\ k <= taken b /\ cs <= s + 1);
  i_fresh : dirty b = true -> exists v s d, pub_at b (npub b) = Some (v, s, d) /\ rb b <= s;
  i_rb : rb b <= cs
}.

Lemma binv_init : forall cs cd, binv cs cd LIdle QIdle tb_init.
Proof.
  intros cs cd.
  assert (E : forall k y, pub_at tb_init k = Some y -> False).
  { intros k y H. apply pub_at_l_bound in H. cbn in H. lia. }
  constructor.
  - cbn. repeat split; discriminate.
  - left; split; reflexivity.
  - left; split; reflexivity.
  - exact I.
  - reflexivity.
  - discriminate.
  - discriminate.
  - intros k v s d H. destruct (E _ _ H).
  - cbn. tauto.
  - cbn. constructor.
  - reflexivity.
  - intros k v s d H. destruct (E _ _ H).
  - discriminate.
  - cbn. lia.
Qed.

(** cell_ok depends only on tag, mem at that slot, and pubs *)
Lemma cell_ok_ext : forall b b' x,
  tget (tag b') x = tget (tag b) x -> tget (mem b') x = tget (mem b) x ->
  (forall k y, pub_at b k = Some y -> pub_at b' k = Some y) ->
  cell_ok b x -> cell_ok b' x.
Proof.
  intros b b' x Ht Hm Hp [[H1 H2]|(v & s & d & H1 & H2)].
  - left. rewrite Ht, Hm. auto.
  - right. exists v, s, d. rewrite Ht, Hm. auto.
Qed.

(** ** writer steps *)
Lemma binv_fill1 : forall cs cd rl b v,
  binv cs cd LIdle rl b -> binv cs cd (LHalf v) rl (w_fill1 v b).
Proof.
  intros cs cd rl b v [[O1 [O2 O3]] Cb Co Ci D Sw Hf St Rt So La Nl Fr Rb].
  constructor.
  - exact (conj O1 (conj O2 O3)).
  - eapply cell_ok_ext with (b := b); [| |intros; eassumption|exact Cb]; cbn; auto using tget_tset_neq.
  - eapply cell_ok_ext with (b := b); [| |intros; eassumption|exact Co]; cbn; auto using tget_tset_neq.
  - cbn. rewrite tget_tset_eq. cbn. auto.
  - exact D.
  - exact Sw.
  - intros d a E. unfold r_copy1. cbn. rewrite tget_tset_neq by auto. apply Hf; auto.
  - exact St.
  - exact Rt.
  - exact So.
  - exact La.
  - exact Nl.
  - exact Fr.
  - exact Rb.
Qed.

Lemma binv_fill2 : forall cs cd rl b v,
  binv cs cd (LHalf v) rl b -> binv cs cd (LFull v) rl (w_fill2 v b).
Proof.
  intros cs cd rl b v [[O1 [O2 O3]] Cb Co [Ci1 Ci2] D Sw Hf St Rt So La Nl Fr Rb].
  constructor.
  - exact (conj O1 (conj O2 O3)).
  - eapply cell_ok_ext with (b := b); [| |intros; eassumption|exact Cb]; cbn; auto using tget_tset_neq.
  - eapply cell_ok_ext with (b := b); [| |intros; eassumption|exact Co]; cbn; auto using tget_tset_neq.
  - cbn. rewrite tget_tset_eq. unfold cell_of. rewrite Ci1, Ci2. reflexivity.
  - exact D.
  - exact Sw.
  - intros d a E. unfold r_copy1. cbn. rewrite tget_tset_neq by auto. apply Hf; auto.
  - exact St.
  - exact Rt.
  - exact So.
  - exact La.
  - exact Nl.
  - exact Fr.
  - exact Rb.
Qed.

Lemma binv_publish : forall cs cd rl b v,
  cd <= cs <= cd + 1 ->
  binv cs cd (LFull v) rl b -> binv cs cd LIdle rl (w_publish v cs cd b).
Proof.
  intros cs cd rl b v Hc [[O1 [O2 O3]] Cb Co Ci D Sw Hf St Rt So La Nl Fr Rb].
  set (b' := w_publish v cs cd b).
  assert (Hpres : forall k y, pub_at b k = Some y -> pub_at b' k = Some y).
  { intros k y H. unfold pub_at in *. cbn. apply pub_at_l_pres; auto. }
  assert (Hinv : forall k y, pub_at b' k = Some y ->
                   (k = S (npub b) /\ y = (v, cs, cd)) \/ (k <= npub b /\ pub_at b k = Some y)).
  { intros k y H. unfold pub_at in *. cbn in H. apply pub_at_l_cons_inv in H. exact H. }
  assert (Hnp : npub b' = S (npub b)) by reflexivity.
  assert (Hnew : pub_at b' (S (npub b)) = Some (v, cs, cd)).
  { unfold pub_at; cbn. apply pub_at_l_new. }
  assert (Htk : taken b' = taken b).
  { unfold taken; cbn. rewrite tget_tset_neq by auto. reflexivity. }
  assert (Hli : last_idx b' = last_idx b) by reflexivity.
  constructor.
  - cbn. repeat split; congruence.
  - right. exists v, cs, cd. cbn. rewrite tget_tset_eq. split; [exact Hnew|exact Ci].
  - eapply cell_ok_ext with (b := b); [| |exact Hpres|exact Co]; cbn; auto using tget_tset_neq.
  - exact I.
  - change (dirty b') with true. cbv iota. rewrite Htk, Hnp. split.
    + cbn. rewrite tget_tset_eq. reflexivity.
    + destruct (dirty b); lia.
  - reflexivity.
  - exact Hf.
  - intros k v0 s d H. apply Hinv in H. destruct H as [[-> E]|[_ H]].
    + inversion E; subst. lia.
    + eapply St; eauto.
  - intros a k v0 Hin. destruct (Rt _ _ _ Hin) as (s & d & P & B1 & B2 & M).
    exists s, d. repeat split; auto; try lia.
    intros k' v' s' d' Hlt H. apply Hinv in H. destruct H as [[-> E]|[_ H]].
    + inversion E; subst. lia.
    + eapply M; eauto.
  - exact So.
  - rewrite Htk, Hli. destruct (pending rl); auto.
    destruct La as (L1 & (v0 & s & d & P & B) & M). split; auto. split.
    + exists v0, s, d. auto.
    + intros k' v' s' d' Hlt H. apply Hinv in H. destruct H as [[-> E]|[_ H]].
      * inversion E; subst. lia.
      * eapply M; eauto.
  - intros k v0 s d H Hs. change (rb b') with (rb b) in Hs. rewrite Htk.
    change (rets b') with (rets b).
    apply Hinv in H. destruct H as [[-> E]|[_ H]].
    + inversion E; subst. lia.
    + eapply Nl; eauto.
  - intros _. exists v, cs, cd. rewrite Hnp. split; [exact Hnew|]. exact Rb.
  - exact Rb.
Qed.

(** ** reader steps *)
Lemma applied_hd : forall r n, hd 0 (applied_idx r) = n -> 1 <= n ->
  exists a v, In (a, n, v) (applied r).
Proof.
  intros r n H Hn. unfold applied_idx in H.
  destruct (applied r) as [|[[a k] v] t]; cbn in H; [lia|].
  subst k. exists a, v. left; reflexivity.
Qed.

Lemma binv_none : forall cs cd wl b,
  dirty b = false -> rb b + 1 = cs ->
  binv cs cd wl QIdle b -> binv cs cd wl QIdle (r_none cs b).
Proof.
  intros cs cd wl b Hd Hrb [[O1 [O2 O3]] Cb Co Ci D Sw Hf St Rt So La Nl Fr Rb].
  constructor.
  - exact (conj O1 (conj O2 O3)).
  - exact Cb.
  - exact Co.
  - exact Ci.
  - exact D.
  - discriminate.
  - discriminate.
  - exact St.
  - exact Rt.
  - exact So.
  - exact La.
  - intros k v s d H Hs. cbn [r_none rb] in Hs. change (pub_at b k = Some (v, s, d)) in H. left.
    destruct (Nat.le_gt_cases (s + 1) (rb b)) as [Hle|Hgt].
    + destruct (Nl _ _ _ _ H Hle) as [W|[W _]]; [exact W|discriminate].
    + rewrite Hd in D. cbn in La.
      pose proof (pub_at_l_bound _ _ _ H) as Bk. fold (npub b) in Bk.
      destruct (applied_hd (rets b) (npub b)) as (a & v' & Hin); [unfold last_idx in La; congruence|lia|].
      exists a, (npub b), v'. split; [exact Hin|]. split; [lia|].
      destruct (Rt _ _ _ Hin) as (s0 & d0 & _ & _ & Ha & _). lia.
  - intros E. cbn in E. congruence.
  - cbn. lia.
Qed.

Lemma binv_swap : forall cs cd wl b,
  rb b + 1 = cs -> cs = cd + 1 ->
  binv cs cd wl QSaw b -> binv cs cd wl QSwapped (r_swap b).
Proof.
  intros cs cd wl b Hrb Hcs [[O1 [O2 O3]] Cb Co Ci D Sw Hf St Rt So La Nl Fr Rb].
  pose proof (Sw eq_refl) as Hd. rewrite Hd in D. destruct D as [D1 D2].
  destruct (Fr Hd) as (vn & sn & dn & Pn & Bn).
  assert (Htk : taken (r_swap b) = npub b) by (unfold taken; cbn; exact D1).
  constructor.
  - cbn. repeat split; congruence.
  - exact Co.
  - exact Cb.
  - exact Ci.
  - cbn [r_swap dirty]. rewrite Htk. reflexivity.
  - discriminate.
  - discriminate.
  - exact St.
  - exact Rt.
  - exact So.
  - cbn [pending]. rewrite Htk. cbn in La. change (last_idx (r_swap b)) with (last_idx b).
    split; [lia|]. split.
    + exists vn, sn, dn. split; [exact Pn|]. destruct (St _ _ _ _ Pn) as (? & ? & ?). lia.
    + intros k' v' s' d' Hlt H. change (pub_at b k' = Some (v', s', d')) in H. apply pub_at_l_bound in H. fold (npub b) in H. lia.
  - intros k v s d H Hs. cbn [r_swap rb] in Hs. change (pub_at b k = Some (v, s, d)) in H.
    destruct (Nat.le_gt_cases (s + 1) (rb b)) as [Hle|Hgt].
    + destruct (Nl _ _ _ _ H Hle) as [W|[W _]]; [left; exact W|discriminate].
    + right. split; [reflexivity|]. rewrite Htk.
      pose proof (pub_at_l_bound _ _ _ H) as Bk. fold (npub b) in Bk. lia.
  - discriminate.
  - cbn. lia.
Qed.

Lemma binv_copy1 : forall cs cd wl b,
  binv cs cd wl QSwapped b -> binv cs cd wl (QHalf (fst (r_copy1 b)) (snd (r_copy1 b))) b.
Proof.
  intros cs cd wl b [[O1 [O2 O3]] Cb Co Ci D Sw Hf St Rt So La Nl Fr Rb].
  constructor; auto.
  - discriminate.
  - intros d a E. inversion E. symmetry. apply surjective_pairing.
Qed.

Lemma sorted_hd_all : forall l, StronglySorted gt l -> forall x, In x l -> x <= hd 0 l.
Proof.
  intros l H x Hin. destruct l as [|y t]; [destruct Hin|].
  cbn. inversion H; subst. destruct Hin as [->|Hin]; [lia|].
  rewrite Forall_forall in H3. specialize (H3 _ Hin). lia.
Qed.

Lemma binv_return : forall cs cd wl b d a,
  binv cs cd wl (QHalf d a) b -> binv cs cd wl QIdle (r_return cs d a (r_copy2 b) b).
Proof.
  intros cs cd wl b d a [[O1 [O2 O3]] Cb Co Ci D Sw Hf St Rt So La Nl Fr Rb].
  cbn [pending] in La. destruct La as (L1 & (v0 & s0 & d0 & P0 & B0) & M0).
  pose proof (Hf _ _ eq_refl) as Hc.
  (* the output slot holds the whole value of publication [taken b] *)
  assert (Hcell : tget (mem b) (r_out b) = cell_of v0).
  { destruct Co as [[Z0 _]|(v1 & s1 & d1 & P1 & C1)].
    - unfold taken in L1. lia.
    - fold (taken b) in P1. rewrite P0 in P1. inversion P1; subst. exact C1. }
  assert (Hd : d = true) by (unfold r_copy1 in Hc; rewrite Hcell in Hc; cbn in Hc; congruence).
  assert (Hv : (a, r_copy2 b) = v0).
  { unfold r_copy1, r_copy2 in *. rewrite Hcell in *. cbn in *. inversion Hc; subst.
    destruct v0; reflexivity. }
  assert (Hap : applied (rets (r_return cs d a (r_copy2 b) b)) = (cs, taken b, v0) :: applied (rets b)).
  { cbn. rewrite Hd, Hv. reflexivity. }
  constructor.
  - exact (conj O1 (conj O2 O3)).
  - exact Cb.
  - exact Co.
  - exact Ci.
  - exact D.
  - discriminate.
  - discriminate.
  - exact St.
  - intros a1 k1 v1 Hin. rewrite Hap in Hin. destruct Hin as [E|Hin].
    + inversion E; subst. exists s0, d0. repeat split; try lia; auto.
    + exact (Rt _ _ _ Hin).
  - unfold applied_idx. rewrite Hap. cbn [map fst snd].
    constructor; [exact So|]. apply Forall_forall. intros x Hx.
    pose proof (sorted_hd_all _ So x Hx) as Hle. unfold last_idx in L1. unfold gt. lia.
  - cbn [pending]. unfold last_idx, applied_idx. rewrite Hap. reflexivity.
  - intros k v s dd H Hs. left. change (rb (r_return cs d a (r_copy2 b) b)) with (rb b) in Hs.
    rewrite Hap.
    destruct (Nl _ _ _ _ H Hs) as [(a1 & k1 & v1 & Hin & Hk & Ha)|(_ & Hk & Hc')].
    + exists a1, k1, v1. split; [right; exact Hin|]. auto.
    + exists cs, (taken b), v0. split; [left; reflexivity|]. auto.
  - exact Fr.
  - exact Rb.
Qed.

(** ** the ghost callback counters only grow *)
Lemma binv_cs_succ : forall cs cd wl rl b,
  pending rl = false -> binv cs cd wl rl b -> binv (S cs) cd wl rl b.
Proof.
  intros cs cd wl rl b Hp [[O1 [O2 O3]] Cb Co Ci D Sw Hf St Rt So La Nl Fr Rb].
  constructor; auto.
  - intros k v s d H. destruct (St _ _ _ _ H) as (? & ? & ?). lia.
  - intros a k v Hin. destruct (Rt _ _ _ Hin) as (s & d & P & B1 & B2 & M).
    exists s, d. repeat split; auto; lia.
  - rewrite Hp in *. exact La.
  - intros k v s d H Hs. destruct (Nl _ _ _ _ H Hs) as [W|[W _]]; [left; exact W|congruence].
Qed.

Lemma binv_cd_succ : forall cs cd wl rl b, binv cs cd wl rl b -> binv cs (S cd) wl rl b.
Proof.
  intros cs cd wl rl b [[O1 [O2 O3]] Cb Co Ci D Sw Hf St Rt So La Nl Fr Rb].
  constructor; auto.
  intros k v s d H. destruct (St _ _ _ _ H) as (? & ? & ?). lia.
Qed.

Lemma binv_wl_idle : forall cs cd wl rl b, binv cs cd wl rl b -> binv cs cd LIdle rl b.
Proof.
  intros cs cd wl rl b [[O1 [O2 O3]] Cb Co Ci D Sw Hf St Rt So La Nl Fr Rb].
  constructor; auto.
Qed.
