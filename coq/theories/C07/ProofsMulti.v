(** C07 — proofs for the multi-kind layer ([Multi.v]). *)
From Coq Require Import ZArith List Bool Arith Lia.
From KV Require Import Base.Outcome Base.Num C19.Model C06.Model C03.Model C04.Transport.
From KV Require Import C07.Model C07.ProofsSys C07.Multi.
Import ListNotations.

(** * list helpers *)
Lemma fold_left_ext_in : forall (A B : Type) (f g : A -> B -> A) (l : list B) (a : A),
  (forall x, In x l -> forall a', f a' x = g a' x) -> fold_left f l a = fold_left g l a.
Proof.
  intros A B f g l. induction l as [|x l IH]; intros a H; cbn; [reflexivity|].
  rewrite (H x (or_introl eq_refl)). apply IH. intros y Hy. apply H. right; exact Hy.
Qed.
Lemma flat_map_ext_in : forall (A B : Type) (f g : A -> list B) (l : list A),
  (forall x, In x l -> f x = g x) -> flat_map f l = flat_map g l.
Proof.
  intros A B f g l. induction l as [|x l IH]; intros H; cbn; [reflexivity|].
  rewrite (H x (or_introl eq_refl)). f_equal. apply IH. intros y Hy. apply H. right; exact Hy.
Qed.
Lemma fold_left_id : forall (A B : Type) (l : list B) (a : A), fold_left (fun s _ => s) l a = a.
Proof. intros A B l. induction l as [|x l IH]; intros a; cbn; auto. Qed.
Lemma NoDup_app_intro : forall (A : Type) (l1 l2 : list A),
  NoDup l1 -> NoDup l2 -> (forall x, In x l1 -> ~ In x l2) -> NoDup (l1 ++ l2).
Proof.
  intros A l1. induction l1 as [|x l1 IH]; intros l2 H1 H2 H; cbn; [exact H2|].
  inversion H1 as [|? ? Hx Hl]; subst. constructor.
  - intro Hin. apply in_app_or in Hin. destruct Hin as [Hin|Hin]; [exact (Hx Hin)|].
    exact (H x (or_introl eq_refl) Hin).
  - apply IH; auto. intros y Hy. apply H. right; exact Hy.
Qed.

(** * one slot, whole calls *)
Lemma slot_pending_init : slot_pending tb_init = None.
Proof. reflexivity. Qed.
Lemma slot_pending_write : forall n v b, slot_pending (slot_write n v b) = Some v.
Proof.
  intros n [x y] b. unfold slot_pending, slot_write, w_publish, w_fill2, w_fill1. cbn.
  destruct (w_in b); reflexivity.
Qed.
Lemma slot_read_spec : forall n b,
  fst (slot_read n b) = slot_pending b /\ slot_pending (snd (slot_read n b)) = None.
Proof.
  intros n b. unfold slot_read, slot_pending. destruct (dirty b) eqn:D.
  - unfold r_copy1, r_copy2, r_return, r_swap. cbn.
    destruct (c_some (tget (mem b) (back b))); cbn; split; reflexivity.
  - unfold r_none. cbn. rewrite D. split; reflexivity.
Qed.

Section Res.
  Variable St : Type.
  Variable apply : nat -> val -> St -> St.
  Notation res := (res St).

  Lemma read_one_spec : forall (r : res) k,
    let r' := m_read_one apply r k in
    m_ncb r' = m_ncb r /\
    (forall k', k' <> k -> m_slots r' k' = m_slots r k') /\
    slot_pending (m_slots r' k) = None /\
    m_state r' = match slot_pending (m_slots r k) with Some v => apply k v (m_state r) | None => m_state r end /\
    m_log r' = match slot_pending (m_slots r k) with Some v => (m_ncb r, k, v) :: m_log r | None => m_log r end.
  Proof.
    intros r k. unfold m_read_one.
    destruct (slot_read_spec (m_ncb r) (m_slots r k)) as [H1 H2].
    destruct (slot_read (m_ncb r) (m_slots r k)) as [o b]. cbn in H1, H2. subst o.
    destruct (slot_pending (m_slots r k)); cbn; repeat split; auto;
      try (intros k' Hk; apply upd_neq; exact Hk); rewrite upd_eq; exact H2.
  Qed.

  Definition pend_effect (r : res) (s : St) (k : nat) : St :=
    match slot_pending (m_slots r k) with Some v => apply k v s | None => s end.
  Definition pend_entry (r : res) (j : nat) (k : nat) : list (nat * nat * val) :=
    match slot_pending (m_slots r k) with Some v => [(j, k, v)] | None => [] end.

  Lemma read_commands_spec : forall order, NoDup order -> forall r : res,
    let r' := m_read_commands apply order r in
    m_ncb r' = m_ncb r /\
    (forall k, ~ In k order -> m_slots r' k = m_slots r k) /\
    (forall k, In k order -> slot_pending (m_slots r' k) = None) /\
    m_state r' = fold_left (pend_effect r) order (m_state r) /\
    rev (m_log r') = rev (m_log r) ++ flat_map (pend_entry r (m_ncb r)) order.
  Proof.
    intros order. induction order as [|k t IH]; intros ND r.
    - cbn. repeat split; auto; try (intros k []). rewrite app_nil_r. reflexivity.
    - inversion ND as [|? ? Hk Ht]; subst. cbn [m_read_commands fold_left].
      destruct (read_one_spec r k) as [A1 [A2 [A3 [A4 A5]]]].
      set (r1 := m_read_one apply r k) in *.
      destruct (IH Ht r1) as [B1 [B2 [B3 [B4 B5]]]].
      fold (m_read_commands apply t r1).
      set (r' := m_read_commands apply t r1) in *.
      assert (Same : forall k', In k' t -> m_slots r1 k' = m_slots r k').
      { intros k' Hin. apply A2. intro; subst; exact (Hk Hin). }
      repeat split.
      + rewrite B1. exact A1.
      + intros k' Hn. rewrite B2 by (intro Hin; apply Hn; right; exact Hin).
        apply A2. intro; subst; apply Hn; left; reflexivity.
      + intros k' [->|Hin]; [rewrite (B2 _ Hk); exact A3 | exact (B3 _ Hin)].
      + rewrite B4. cbn [fold_left]. unfold pend_effect at 3. rewrite <- A4.
        apply fold_left_ext_in. intros k' Hin s. unfold pend_effect. rewrite (Same _ Hin). reflexivity.
      + rewrite B5. cbn [flat_map]. rewrite A5, A1.
        rewrite (flat_map_ext_in _ _ (pend_entry r1 (m_ncb r)) (pend_entry r (m_ncb r)) t)
          by (intros k' Hin; unfold pend_entry; rewrite (Same _ Hin); reflexivity).
        unfold pend_entry at 2. destruct (slot_pending (m_slots r k)); cbn.
        * rewrite <- app_assoc. reflexivity.
        * reflexivity.
  Qed.

  Lemma last_of_app : forall k cur k' v,
    last_of k (cur ++ [(k', v)]) = if k' =? k then Some v else last_of k cur.
  Proof. intros. unfold last_of. rewrite fold_left_app. reflexivity. Qed.

  Definition agrees (order : list nat) (r : res) (cur : list (nat * val)) : Prop :=
    forall k, In k order -> slot_pending (m_slots r k) = last_of k cur.

  Lemma agrees_issue : forall order r cur k v,
    agrees order r cur -> agrees order (m_issue k v r) (cur ++ [(k, v)]).
  Proof.
    intros order r cur k v H k' Hin. rewrite last_of_app. unfold m_issue; cbn. unfold upd.
    rewrite (Nat.eqb_sym k k'). destruct (k' =? k) eqn:E.
    - apply Nat.eqb_eq in E; subst. apply slot_pending_write.
    - apply H; exact Hin.
  Qed.

  Lemma callback_spec : forall order, NoDup order -> forall (r : res) cur, agrees order r cur ->
    let r' := m_callback apply order r in
    m_ncb r' = S (m_ncb r) /\ agrees order r' [] /\
    m_state r' = interval_effect apply order cur (m_state r) /\
    rev (m_log r') = rev (m_log r) ++ entries order (S (m_ncb r)) cur.
  Proof.
    intros order ND r cur Ag. unfold m_callback.
    destruct (read_commands_spec order ND (m_begin r)) as [B1 [_ [B3 [B4 B5]]]].
    repeat split.
    - rewrite B1. reflexivity.
    - intros k Hin. rewrite (B3 _ Hin). reflexivity.
    - rewrite B4. unfold interval_effect. cbn [m_begin m_state].
      apply fold_left_ext_in. intros k Hin s. unfold pend_effect, kind_effect. cbn [m_begin m_slots].
      rewrite (Ag _ Hin). reflexivity.
    - rewrite B5. cbn [m_begin m_log m_ncb]. f_equal. unfold entries.
      apply flat_map_ext_in. intros k Hin. unfold pend_entry. cbn [m_begin m_slots].
      rewrite (Ag _ Hin). reflexivity.
  Qed.

  Lemma m_exec_cons : forall order e t (r : res),
    m_exec apply order (e :: t) r = m_exec apply order t (m_step apply order r e).
  Proof. reflexivity. Qed.

  (** the invariant, from any state in which the readers hold what the current interval says *)
  Lemma exec_spec : forall order, NoDup order -> forall h (r : res) cur, agrees order r cur ->
    let r' := m_exec apply order h r in
    let iv := intervals_from cur h in
    m_state r' = fold_left (fun s i => interval_effect apply order i s) (fst iv) (m_state r) /\
    rev (m_log r') = rev (m_log r) ++ spec_log_from order (S (m_ncb r)) (fst iv) /\
    agrees order r' (snd iv) /\
    m_ncb r' = m_ncb r + length (fst iv).
  Proof.
    intros order ND h. induction h as [|e t IH]; intros r cur Ag.
    - cbn. repeat split; auto. rewrite app_nil_r; reflexivity.
    - destruct e as [k v|].
      + rewrite m_exec_cons. cbn [m_step intervals_from].
        destruct (IH (m_issue k v r) (cur ++ [(k, v)]) (agrees_issue _ _ _ k v Ag)) as [C1 [C2 [C3 C4]]].
        repeat split; auto.
      + rewrite m_exec_cons. cbn [m_step intervals_from].
        destruct (callback_spec order ND r cur Ag) as [D1 [D2 [D3 D4]]].
        destruct (IH (m_callback apply order r) [] D2) as [C1 [C2 [C3 C4]]].
        destruct (intervals_from [] t) as [cl op] eqn:E. cbn [fst snd] in *.
        repeat split.
        * rewrite C1, D3. reflexivity.
        * rewrite C2, D4, D1. cbn [spec_log_from]. rewrite <- app_assoc. reflexivity.
        * exact C3.
        * rewrite C4, D1. cbn [length]. lia.
  Qed.

  Lemma agrees_init : forall order s0, agrees order (m_init s0) [].
  Proof. intros order s0 k _. reflexivity. Qed.

  (** * the theorems *)
  Section Thm.
    Variable order : list nat.
    Hypothesis ND : NoDup order.
    Variable s0 : St.
    Notation run h := (m_exec apply order h (m_init s0)).

    Lemma f_multi_state : forall h, m_state (run h) = spec_state apply order h s0.
    Proof. intros h. destruct (exec_spec order ND h (m_init s0) [] (agrees_init _ _)) as [C1 _]. exact C1. Qed.

    Lemma f_multi_log : forall h, rev (m_log (run h)) = spec_log order h.
    Proof. intros h. destruct (exec_spec order ND h (m_init s0) [] (agrees_init _ _)) as [_ [C2 _]]. exact C2. Qed.

    Lemma f_multi_readers : forall h k, In k order ->
      slot_pending (m_slots (run h) k) = last_of k (open_interval h).
    Proof. intros h k Hin. destruct (exec_spec order ND h (m_init s0) [] (agrees_init _ _)) as [_ [_ [C3 _]]]. exact (C3 k Hin). Qed.

    Lemma f_multi_ncb : forall h, m_ncb (run h) = length (closed_intervals h).
    Proof. intros h. destruct (exec_spec order ND h (m_init s0) [] (agrees_init _ _)) as [_ [_ [_ C4]]]. exact C4. Qed.
  End Thm.
End Res.

(** * consequences that only concern the specification functions *)
Lemma open_after_callback : forall h cur, snd (intervals_from cur (h ++ [Callback])) = [].
Proof.
  induction h as [|e t IH]; intros cur.
  - reflexivity.
  - destruct e as [k v|]; cbn [app intervals_from].
    + apply IH.
    + specialize (IH []). destruct (intervals_from [] (t ++ [Callback])) as [cl op]. exact IH.
Qed.

Lemma in_entries : forall order j iv a k v,
  In (a, k, v) (entries order j iv) <-> a = j /\ In k order /\ last_of k iv = Some v.
Proof.
  intros order j iv a k v. unfold entries. rewrite in_flat_map. split.
  - intros [k' [Hin H]]. destruct (last_of k' iv) as [v'|] eqn:E; [|destruct H].
    destruct H as [H|[]]. inversion H; subst. auto.
  - intros [-> [Hin E]]. exists k. split; [exact Hin|]. rewrite E. left; reflexivity.
Qed.

Lemma in_spec_log_from : forall order ivs j a k v,
  In (a, k, v) (spec_log_from order j ivs) <->
  exists iv, j <= a /\ nth_error ivs (a - j) = Some iv /\ In k order /\ last_of k iv = Some v.
Proof.
  intros order ivs. induction ivs as [|iv t IH]; intros j a k v; cbn [spec_log_from].
  - split; [intros []|]. intros [iv [_ [H _]]]. destruct (a - j); discriminate.
  - rewrite in_app_iff, in_entries, IH. split.
    + intros [[-> [Hin E]]|[iv' [Hle [Hn [Hin E]]]]].
      * exists iv. rewrite Nat.sub_diag. auto.
      * exists iv'. split; [lia|]. replace (a - j) with (S (a - S j)) by lia. auto.
    + intros [iv' [Hle [Hn [Hin E]]]]. destruct (Nat.eq_dec a j) as [->|Hne].
      * left. rewrite Nat.sub_diag in Hn. inversion Hn; subst. auto.
      * right. exists iv'. split; [lia|]. replace (a - j) with (S (a - S j)) in Hn by lia. auto.
Qed.

Lemma entries_keys_nodup : forall order j iv, NoDup order -> NoDup (map fst (entries order j iv)).
Proof.
  intros order j iv. induction order as [|k t IH]; intros ND; cbn; [constructor|].
  inversion ND as [|? ? Hk Ht]; subst. rewrite map_app.
  apply NoDup_app_intro.
  - destruct (last_of k iv); cbn; repeat constructor. intros [].
  - exact (IH Ht).
  - intros x Hx Hin. destruct (last_of k iv) as [v|]; [|destruct Hx]. destruct Hx as [<-|[]].
    apply in_map_iff in Hin. destruct Hin as [[[a k'] v'] [Heq Hin]]. cbn in Heq. inversion Heq; subst.
    fold (entries t j iv) in Hin. apply in_entries in Hin. destruct Hin as [_ [Hin _]]. exact (Hk Hin).
Qed.

Lemma spec_log_keys_nodup : forall order ivs j, NoDup order -> NoDup (map fst (spec_log_from order j ivs)).
Proof.
  intros order ivs. induction ivs as [|iv t IH]; intros j ND; cbn [spec_log_from map]; [constructor|].
  rewrite map_app. apply NoDup_app_intro.
  - apply entries_keys_nodup; exact ND.
  - apply IH; exact ND.
  - intros [a k] H1 H2.
    apply in_map_iff in H1. destruct H1 as [[[a1 k1] v1] [E1 H1]]. cbn in E1. inversion E1; subst.
    apply in_map_iff in H2. destruct H2 as [[[a2 k2] v2] [E2 H2]]. cbn in E2. inversion E2; subst.
    apply in_entries in H1. destruct H1 as [-> _].
    apply in_spec_log_from in H2. destruct H2 as [_ [Hle _]]. lia.
Qed.

(** the projection on one kind *)
Definition keep_kind (k : nat) (kv : nat * val) : bool := fst kv =? k.

Lemma intervals_proj : forall k h cur,
  intervals_from (filter (keep_kind k) cur) (proj_kind k h) =
  (map (filter (keep_kind k)) (fst (intervals_from cur h)), filter (keep_kind k) (snd (intervals_from cur h))).
Proof.
  intros k h. induction h as [|e t IH]; intros cur.
  - reflexivity.
  - destruct e as [k' v|]; cbn [proj_kind filter concerns intervals_from].
    + destruct (k' =? k) eqn:E.
      * cbn [intervals_from]. fold (proj_kind k t). rewrite <- IH. rewrite filter_app.
        replace (filter (keep_kind k) [(k', v)]) with [(k', v)]
          by (cbn [filter]; unfold keep_kind; cbn [fst]; rewrite E; reflexivity).
        reflexivity.
      * fold (proj_kind k t). rewrite <- IH. rewrite filter_app.
        replace (filter (keep_kind k) [(k', v)]) with (@nil (nat * val))
          by (cbn [filter]; unfold keep_kind; cbn [fst]; rewrite E; reflexivity).
        rewrite app_nil_r. reflexivity.
    + cbn [intervals_from]. fold (proj_kind k t). specialize (IH []). cbn [filter] in IH. rewrite IH.
      destruct (intervals_from [] t) as [cl op]. reflexivity.
Qed.

Lemma last_of_filter : forall k iv, last_of k (filter (keep_kind k) iv) = last_of k iv.
Proof.
  intros k iv. unfold last_of. generalize (@None val).
  induction iv as [|[k' v] t IH]; intros acc; cbn [filter fold_left]; [reflexivity|].
  unfold keep_kind at 1. cbn [fst snd]. destruct (k' =? k) eqn:E.
  - cbn [fold_left fst snd]. rewrite E. apply IH.
  - apply IH.
Qed.

Lemma entries_filter_out : forall k t j iv, ~ In k t -> filter (of_kind k) (entries t j iv) = [].
Proof.
  intros k t j iv. induction t as [|k0 t IH]; intros Hn; cbn; [reflexivity|].
  rewrite filter_app. fold (entries t j iv). rewrite IH by (intro; apply Hn; right; assumption). rewrite app_nil_r.
  destruct (last_of k0 iv); cbn; [|reflexivity]. unfold of_kind. cbn.
  destruct (k0 =? k) eqn:E; [|reflexivity]. apply Nat.eqb_eq in E. subst. exfalso; apply Hn; left; reflexivity.
Qed.

Lemma entries_filter : forall k order j iv, NoDup order -> In k order ->
  filter (of_kind k) (entries order j iv) = entries [k] j iv.
Proof.
  intros k order j iv. induction order as [|k0 t IH]; intros ND Hin; [destruct Hin|].
  inversion ND as [|? ? Hk Ht]; subst. cbn [entries flat_map]. rewrite filter_app. fold (entries t j iv).
  destruct (Nat.eq_dec k0 k) as [->|Hne].
  - rewrite entries_filter_out by exact Hk. destruct (last_of k iv); cbn; [|reflexivity].
    unfold of_kind. cbn. rewrite Nat.eqb_refl. reflexivity.
  - destruct Hin as [->|Hin]; [contradiction Hne; reflexivity|]. rewrite (IH Ht Hin).
    destruct (last_of k0 iv); cbn; [|reflexivity]. unfold of_kind. cbn.
    destruct (k0 =? k) eqn:E; [apply Nat.eqb_eq in E; contradiction|]. reflexivity.
Qed.

Lemma spec_log_filter : forall k order ivs j, NoDup order -> In k order ->
  filter (of_kind k) (spec_log_from order j ivs) = spec_log_from [k] j (map (filter (keep_kind k)) ivs).
Proof.
  intros k order ivs. induction ivs as [|iv t IH]; intros j ND Hin; cbn [spec_log_from map]; [reflexivity|].
  rewrite filter_app, (entries_filter k order j iv ND Hin), (IH (S j) ND Hin). f_equal.
  unfold entries. cbn [flat_map]. rewrite last_of_filter. reflexivity.
Qed.

Lemma NoDup_single : forall k : nat, NoDup [k].
Proof. intros k. constructor; [intros []|constructor]. Qed.

Section Alone.
  Variable St : Type.
  Variable apply : nat -> val -> St -> St.

  (** the sub-log of kind [k] is the log of kind [k] alone on the projected history *)
  Lemma f_multi_kind_alone : forall order s0 s0' h k, NoDup order -> In k order ->
    filter (of_kind k) (rev (m_log (m_exec apply order h (m_init s0)))) =
      rev (m_log (m_exec apply [k] (proj_kind k h) (m_init s0'))) /\
    slot_pending (m_slots (m_exec apply order h (m_init s0)) k) =
      slot_pending (m_slots (m_exec apply [k] (proj_kind k h) (m_init s0')) k).
  Proof.
    intros order s0 s0' h k ND Hin. split.
    - rewrite (f_multi_log St apply order ND s0 h).
      rewrite (f_multi_log St apply [k] (NoDup_single k) s0' (proj_kind k h)).
      unfold spec_log, closed_intervals. rewrite (spec_log_filter k order _ 1 ND Hin).
      pose proof (intervals_proj k h []) as P. cbn [filter] in P. rewrite P. reflexivity.
    - rewrite (f_multi_readers St apply order ND s0 h k Hin).
      rewrite (f_multi_readers St apply [k] (NoDup_single k) s0' (proj_kind k h) k (or_introl eq_refl)).
      unfold open_interval. pose proof (intervals_proj k h []) as P. cbn [filter] in P. rewrite P. cbn [snd].
      rewrite last_of_filter. reflexivity.
  Qed.

  Lemma f_multi_readers_empty : forall order s0 h k, NoDup order -> In k order ->
    slot_pending (m_slots (m_exec apply order (h ++ [Callback]) (m_init s0)) k) = None.
  Proof.
    intros order s0 h k ND Hin. rewrite (f_multi_readers St apply order ND s0 _ k Hin).
    unfold open_interval. rewrite open_after_callback. reflexivity.
  Qed.

  (** applied in callback [a] <-> last of its kind in the interval that ends with callback [a] *)
  Lemma f_multi_applied_iff : forall order s0 h a k v, NoDup order ->
    (In (a, k, v) (m_log (m_exec apply order h (m_init s0))) <->
     exists iv, 1 <= a /\ nth_error (closed_intervals h) (a - 1) = Some iv /\ In k order /\ last_of k iv = Some v).
  Proof.
    intros order s0 h a k v ND. rewrite in_rev. rewrite (f_multi_log St apply order ND s0 h).
    unfold spec_log. apply in_spec_log_from.
  Qed.

  Lemma f_multi_once : forall order s0 h, NoDup order ->
    NoDup (map fst (m_log (m_exec apply order h (m_init s0)))).
  Proof.
    intros order s0 h ND. rewrite <- (rev_involutive (map fst (m_log (m_exec apply order h (m_init s0))))).
    apply NoDup_rev. rewrite <- map_rev.
    rewrite (f_multi_log St apply order ND s0 h). apply spec_log_keys_nodup; exact ND.
  Qed.

  (** callbacks with nothing issued in between change nothing *)
  Lemma interval_effect_nil : forall order s, interval_effect apply order [] s = s.
  Proof. intros order s. unfold interval_effect. apply (fold_left_id St nat order s). Qed.
  Lemma entries_nil : forall order j, entries order j [] = [].
  Proof. intros order j. unfold entries. induction order as [|k t IH]; cbn; auto. Qed.

  Lemma quiet_run : forall order, NoDup order -> forall n (r : res St), agrees St order r [] ->
    let r' := m_exec apply order (repeat Callback n) r in
    m_state r' = m_state r /\ m_log r' = m_log r /\ agrees St order r' [].
  Proof.
    intros order ND n. induction n as [|n IH]; intros r Ag.
    - cbn. auto.
    - cbn [repeat]. rewrite m_exec_cons. cbn [m_step].
      destruct (callback_spec St apply order ND r [] Ag) as [D1 [D2 [D3 D4]]].
      destruct (IH (m_callback apply order r) D2) as [E1 [E2 E3]].
      repeat split.
      + rewrite E1, D3. apply interval_effect_nil.
      + rewrite E2. rewrite entries_nil, app_nil_r in D4. apply (f_equal (@rev _)) in D4.
        rewrite !rev_involutive in D4. exact D4.
      + exact E3.
  Qed.

  Lemma f_multi_quiet : forall order s0 h n, NoDup order ->
    let r1 := m_exec apply order (h ++ [Callback]) (m_init s0) in
    let rn := m_exec apply order (h ++ Callback :: repeat Callback n) (m_init s0) in
    m_state rn = m_state r1 /\ m_log rn = m_log r1 /\
    forall k, In k order -> slot_pending (m_slots rn k) = None.
  Proof.
    intros order s0 h n ND r1 rn.
    assert (E : rn = m_exec apply order (repeat Callback n) r1).
    { unfold rn, r1, m_exec. replace (h ++ Callback :: repeat Callback n) with ((h ++ [Callback]) ++ repeat Callback n)
        by (rewrite <- app_assoc; reflexivity).
      rewrite fold_left_app. reflexivity. }
    assert (Ag : agrees St order r1 []).
    { intros k Hin. unfold r1. rewrite (f_multi_readers_empty order s0 h k ND Hin). reflexivity. }
    destruct (quiet_run order ND n r1 Ag) as [Q1 [Q2 Q3]]. rewrite E. repeat split; auto.
  Qed.
End Alone.

(** * the playback-state kinds *)
Section PlaybackTable.
  Context {T : Type} {NT : Num T}.
  Variable V : Type.
  Variables silence identity : V.
  Variable tw_of : val -> tween T.
  Variable st_of : val -> stime T.
  Notation pba := (pb_apply V silence identity tw_of st_of).

  Lemma f_pb_table : forall (m : psm T V) iv, is_stopped (ps m) = false ->
    ps (interval_effect pba [0; 1; 2] iv m) =
    match last_of 2 iv with
    | Some _ => Stopping
    | None =>
        match last_of 1 iv with
        | Some v => match st_of v with Immediate => Resuming | st => WaitingToResume st (tw_of v) end
        | None => match last_of 0 iv with Some _ => Pausing | None => ps m end
        end
    end.
  Proof.
    intros m iv Hm. unfold interval_effect. cbn [fold_left]. unfold kind_effect.
    destruct (last_of 0 iv) as [v0|]; destruct (last_of 1 iv) as [v1|]; destruct (last_of 2 iv) as [v2|];
      cbn [pb_apply]; unfold psm_stop, psm_resume, psm_pause; rewrite ?Hm; cbn [ps is_stopped];
      try destruct (st_of v1); cbn [ps is_stopped]; try reflexivity.
  Qed.

  Lemma f_pb_stopped : forall (m : psm T V) iv, is_stopped (ps m) = true ->
    interval_effect pba [0; 1; 2] iv m = m.
  Proof.
    intros m iv Hm. unfold interval_effect. cbn [fold_left]. unfold kind_effect.
    destruct (last_of 0 iv); destruct (last_of 1 iv); destruct (last_of 2 iv);
      cbn [pb_apply]; unfold psm_stop, psm_resume, psm_pause; rewrite ?Hm; reflexivity.
  Qed.
End PlaybackTable.

(** * non-vacuity and the counter-models, evaluated *)
Local Open Scope Z_scope.

Example ex_orders_nodup : NoDup static_order /\ NoDup streaming_order /\ NoDup trk_order /\ NoDup ts_order.
Proof. repeat split; repeat (constructor; [cbn; intuition discriminate|]); constructor. Qed.

Definition ent (a k : nat) (v : val) : nat * nat * val := (a, k, v).
Definition long : Z := 10000000000.          (* 10 s in ns *)
Definition v_pause : val := (long, 0).
Definition v_resume : val := (long + 1, 0).
Definition v_resume_at : val := (long + 2, long).
Definition v_stop : val := (long + 3, 0).
Definition codes (h : list ev) (run : list ev -> res sndst) : Z := state_code (ps (sn_psm (m_state (run h)))).
Definition real_run (h : list ev) : res sndst := m_exec snd_apply static_order h (m_init (snd_init 0)).
(** the seeded reading: [if stop.read() .. else if resume.read() .. else if pause.read() ..] *)
Definition elseif_run (h : list ev) : res sndst :=
  m_exec_elseif snd_apply [0; 1; 2; 3]%nat [6; 5; 4]%nat [7; 8]%nat h (m_init (snd_init 0)).

(** the eight subsets of {pause, resume, stop} issued in one interval on a playing sound, then two
    callbacks: state after the first, after the second, the applied log (oldest first) *)
Definition subset_row (p r s : bool) (run : list ev -> res sndst) : Z * Z * list (nat * nat * val) :=
  let iv := (if p then [Issue 4 v_pause] else []) ++ (if r then [Issue 5 v_resume] else []) ++ (if s then [Issue 6 v_stop] else []) in
  (codes (iv ++ [Callback]) run, codes (iv ++ [Callback; Callback]) run, rev (m_log (run (iv ++ [Callback; Callback])))).
Example ex_table_real :
  [subset_row false false false real_run; subset_row true false false real_run;
   subset_row false true false real_run;  subset_row true true false real_run;
   subset_row false false true real_run;  subset_row true false true real_run;
   subset_row false true true real_run;   subset_row true true true real_run] =
  [(0, 0, []); (1, 1, [ent 1 4 v_pause]);
   (4, 4, [ent 1 5 v_resume]); (4, 4, [ent 1 4 v_pause; ent 1 5 v_resume]);
   (5, 5, [ent 1 6 v_stop]); (5, 5, [ent 1 4 v_pause; ent 1 6 v_stop]);
   (5, 5, [ent 1 5 v_resume; ent 1 6 v_stop]); (5, 5, [ent 1 4 v_pause; ent 1 5 v_resume; ent 1 6 v_stop])].
Proof. vm_compute. reflexivity. Qed.
(** the same under the else-if reading: the first callback looks the same; the second applies
    what the first left in the readers *)
Example ex_table_elseif :
  [subset_row true true false elseif_run; subset_row true false true elseif_run;
   subset_row false true true elseif_run; subset_row true true true elseif_run] =
  [(4, 1, [ent 1 5 v_resume; ent 2 4 v_pause]); (5, 1, [ent 1 6 v_stop; ent 2 4 v_pause]);
   (5, 4, [ent 1 6 v_stop; ent 2 5 v_resume]); (5, 4, [ent 1 6 v_stop; ent 2 5 v_resume])].
Proof. vm_compute. reflexivity. Qed.
Example ex_resume_at : codes [Issue 4 v_pause; Issue 5 v_resume_at; Callback; Callback] real_run = 3.
Proof. vm_compute. reflexivity. Qed.

Definition h_pause_resume : list ev := [Issue 4 v_pause; Issue 5 v_resume; Callback; Callback].

Lemma f_elseif_late : exists h a k v,
  In (a, k, v) (m_log (elseif_run h)) /\
  ~ (exists iv, 1 <= a /\ nth_error (closed_intervals h) (a - 1) = Some iv /\ In k static_order /\ last_of k iv = Some v)%nat.
Proof.
  exists h_pause_resume, 2%nat, 4%nat, v_pause. split.
  - vm_compute. left; reflexivity.
  - intros [iv [_ [Hn [_ Hl]]]]. vm_compute in Hn. inversion Hn; subst. vm_compute in Hl. discriminate.
Qed.
Lemma f_elseif_reader_not_empty : exists h k, In k static_order /\
  slot_pending (m_slots (elseif_run (h ++ [Callback])) k) <> None.
Proof.
  exists [Issue 4 v_pause; Issue 5 v_resume], 4%nat. split.
  - cbn; intuition.
  - vm_compute. discriminate.
Qed.
Lemma f_elseif_state : exists h,
  state_code (ps (sn_psm (m_state (elseif_run h)))) <> state_code (ps (sn_psm (spec_state snd_apply static_order h (snd_init 0)))).
Proof. exists h_pause_resume. vm_compute. discriminate. Qed.
Lemma f_elseif_interferes : exists h k,
  filter (of_kind k) (rev (m_log (elseif_run h))) <>
  rev (m_log (m_exec snd_apply [k] (proj_kind k h) (m_init (snd_init 0)))).
Proof. exists h_pause_resume, 4%nat. vm_compute. discriminate. Qed.

(** a sound on a sub-track: the genuine [on_start_processing] and the guarded reading *)
Definition ts_init : trk * sndst := (Trk (psm_of_code 0) 0, snd_init 0).
Definition ts_real (h : list ev) : res (trk * sndst) := m_exec ts_apply ts_order h (m_init ts_init).
Definition ts_guarded (h : list ev) : res (trk * sndst) := m_exec_guarded ts_apply ts_own ts_guard ts_nested h (m_init ts_init).
(** the track is paused (tween 0: no fade is modelled here, the guard looks at the state the
    command leaves: Pausing is advancing, so the witness lets the pause complete by hand:
    initial state Paused) *)
Definition ts_init_paused : trk * sndst := (Trk (psm_of_code 2) 0, snd_init 0).
Definition ts_real_p (h : list ev) : res (trk * sndst) := m_exec ts_apply ts_order h (m_init ts_init_paused).
Definition ts_guarded_p (h : list ev) : res (trk * sndst) := m_exec_guarded ts_apply ts_own ts_guard ts_nested h (m_init ts_init_paused).
(** [seek_by(1)] on the sound (kind 3 + 7) in two different intervals, then [stop] (kind 3 + 6) *)
Definition h_two_seeks : list ev := [Issue 10 (1, 0); Callback; Issue 10 (1, 0); Callback; Issue 9 v_stop; Callback].
Example ex_paused_track_real :
  (sn_pos (snd (m_state (ts_real_p h_two_seeks))), state_code (ps (sn_psm (snd (m_state (ts_real_p h_two_seeks))))),
   rev (m_log (ts_real_p h_two_seeks))) =
  (2, 5, [ent 1 10 (1, 0); ent 2 10 (1, 0); ent 3 9 v_stop]).
Proof. vm_compute. reflexivity. Qed.
Example ex_paused_track_guarded :
  (sn_pos (snd (m_state (ts_guarded_p h_two_seeks))), state_code (ps (sn_psm (snd (m_state (ts_guarded_p h_two_seeks))))),
   rev (m_log (ts_guarded_p h_two_seeks))) = (0, 0, []).
Proof. vm_compute. reflexivity. Qed.
(** ... and everything is applied at once, in the fixed order, when the track resumes *)
Example ex_paused_track_guarded_resume :
  let h := h_two_seeks ++ [Issue 2 (0, 0); Callback] in
  (sn_pos (snd (m_state (ts_guarded_p h))), rev (m_log (ts_guarded_p h))) =
  (1, [ent 4 2 (0, 0); ent 4 9 v_stop; ent 4 10 (1, 0)]).
Proof. vm_compute. reflexivity. Qed.

Lemma f_guarded_lost : exists h j iv k v,
  nth_error (closed_intervals h) j = Some iv /\ In k ts_order /\ last_of k iv = Some v /\
  ~ In (S j, k, v) (m_log (ts_guarded_p h)).
Proof.
  exists h_two_seeks, 0%nat, [(10%nat, (1, 0))], 10%nat, (1, 0). repeat split.
  - cbn; intuition.
  - vm_compute. intros [].
Qed.
Lemma f_guarded_reader_not_empty : exists h k, In k ts_order /\
  slot_pending (m_slots (ts_guarded_p (h ++ [Callback])) k) <> None.
Proof.
  exists [Issue 10 (1, 0)], 10%nat. split.
  - cbn; intuition.
  - vm_compute. discriminate.
Qed.

(** * the statements of [Props.v], argument order as stated there *)
Local Close Scope Z_scope.
Lemma p_multi_state : forall (St : Type) (apply : nat -> val -> St -> St) order s0 h, NoDup order ->
  m_state (m_exec apply order h (m_init s0)) = spec_state apply order h s0.
Proof. intros St apply order s0 h ND. exact (f_multi_state St apply order ND s0 h). Qed.
Lemma p_multi_log : forall (St : Type) (apply : nat -> val -> St -> St) order s0 h, NoDup order ->
  rev (m_log (m_exec apply order h (m_init s0))) = spec_log order h /\
  m_ncb (m_exec apply order h (m_init s0)) = length (closed_intervals h).
Proof.
  intros St apply order s0 h ND. split.
  - exact (f_multi_log St apply order ND s0 h).
  - exact (f_multi_ncb St apply order ND s0 h).
Qed.
Lemma p_multi_applied_iff : forall (St : Type) (apply : nat -> val -> St -> St) order s0 h a k v, NoDup order ->
  (In (a, k, v) (m_log (m_exec apply order h (m_init s0))) <->
   exists iv, 1 <= a /\ nth_error (closed_intervals h) (a - 1) = Some iv /\ In k order /\ last_of k iv = Some v).
Proof. intros St apply order s0 h a k v ND. exact (f_multi_applied_iff St apply order s0 h a k v ND). Qed.
Lemma p_multi_once : forall (St : Type) (apply : nat -> val -> St -> St) order s0 h, NoDup order ->
  NoDup (map fst (m_log (m_exec apply order h (m_init s0)))).
Proof. intros St apply order s0 h ND. exact (f_multi_once St apply order s0 h ND). Qed.
Lemma p_multi_readers : forall (St : Type) (apply : nat -> val -> St -> St) order s0 h k, NoDup order -> In k order ->
  slot_pending (m_slots (m_exec apply order h (m_init s0)) k) = last_of k (open_interval h) /\
  slot_pending (m_slots (m_exec apply order (h ++ [Callback]) (m_init s0)) k) = None.
Proof.
  intros St apply order s0 h k ND Hin. split.
  - exact (f_multi_readers St apply order ND s0 h k Hin).
  - exact (f_multi_readers_empty St apply order s0 h k ND Hin).
Qed.
Lemma p_multi_alone : forall (St : Type) (apply : nat -> val -> St -> St) order s0 s0' h k, NoDup order -> In k order ->
  filter (of_kind k) (rev (m_log (m_exec apply order h (m_init s0)))) =
    rev (m_log (m_exec apply [k] (proj_kind k h) (m_init s0'))) /\
  slot_pending (m_slots (m_exec apply order h (m_init s0)) k) =
    slot_pending (m_slots (m_exec apply [k] (proj_kind k h) (m_init s0')) k).
Proof. intros St apply order s0 s0' h k ND Hin. exact (f_multi_kind_alone St apply order s0 s0' h k ND Hin). Qed.
Lemma p_multi_quiet : forall (St : Type) (apply : nat -> val -> St -> St) order s0 h n, NoDup order ->
  let r1 := m_exec apply order (h ++ [Callback]) (m_init s0) in
  let rn := m_exec apply order (h ++ Callback :: repeat Callback n) (m_init s0) in
  m_state rn = m_state r1 /\ m_log rn = m_log r1 /\
  forall k, In k order -> slot_pending (m_slots rn k) = None.
Proof. intros St apply order s0 h n ND. exact (f_multi_quiet St apply order s0 h n ND). Qed.
Lemma p_pb_table : forall (T : Type) (NT : Num T) (V : Type) (silence identity : V)
    (tw_of : val -> tween T) (st_of : val -> stime T) (m : psm T V) iv,
  let after := interval_effect (pb_apply V silence identity tw_of st_of) [0; 1; 2] iv m in
  (is_stopped (ps m) = true -> after = m) /\
  (is_stopped (ps m) = false ->
   ps after =
   match last_of 2 iv with
   | Some _ => Stopping
   | None =>
       match last_of 1 iv with
       | Some v => match st_of v with Immediate => Resuming | st => WaitingToResume st (tw_of v) end
       | None => match last_of 0 iv with Some _ => Pausing | None => ps m end
       end
   end).
Proof.
  intros T NT V silence identity tw_of st_of m iv after. split; intros Hm.
  - exact (f_pb_stopped V silence identity tw_of st_of m iv Hm).
  - exact (f_pb_table V silence identity tw_of st_of m iv Hm).
Qed.

(** * the whole calls of [Multi.v] are compositions of the protocol steps of [Model.v] *)
Lemma bufs_advance : forall K c bf s, bufs (advance K c bf s) = bf.
Proof. intros. unfold advance. destruct (S c <? K); reflexivity. Qed.

(** [slot_write] is a whole [CommandWriter::write] of the fine-grained system (three writer steps) *)
Lemma do_write_is_slot_write : forall s c v p, wp s = WIdle -> prog s = (c, v) :: p ->
  bufs (do_write s) c = w_publish v (cs s) (cd s) (w_fill2 v (w_fill1 v (bufs s c))) /\
  (cs s = cd s -> bufs (do_write s) c = slot_write (cs s) v (bufs s c)) /\
  (forall c', c' <> c -> bufs (do_write s) c' = bufs s c').
Proof.
  intros s c v p Hw Hp. unfold do_write.
  assert (E1 : wstep s = Sys (upd (bufs s) c (w_fill1 v (bufs s c))) p (WHalf c v) (rp s) (cs s) (cd s)).
  { unfold wstep. rewrite Hw, Hp. reflexivity. }
  rewrite E1. unfold wstep at 2. cbn [wp bufs prog rp cs cd]. unfold wstep. cbn [wp bufs prog rp cs cd].
  rewrite !upd_eq. repeat split.
  - intros E. unfold slot_write. rewrite <- E. reflexivity.
  - intros c' Hn. rewrite !upd_neq by exact Hn. reflexivity.
Qed.

(** [slot_read] is the reader's steps on one kind: one step if the dirty bit is clear, four if set *)
Lemma drain_is_slot_read : forall K s c, rp s = RDrain c RStart ->
  let s' := if dirty (bufs s c) then rstep K (rstep K (rstep K (rstep K s))) else rstep K s in
  bufs s' c = snd (slot_read (cs s) (bufs s c)) /\
  (forall c', c' <> c -> bufs s' c' = bufs s c') /\
  (rp s' = RBetween \/ rp s' = RDrain (S c) RStart).
Proof.
  intros K s c Hr. unfold slot_read. destruct (dirty (bufs s c)) eqn:D; cbn zeta.
  - set (b1 := r_swap (bufs s c)).
    set (f1 := upd (bufs s) c b1).
    assert (E1 : rstep K s = Sys (bufs s) (prog s) (wp s) (RDrain c RSaw) (cs s) (cd s)).
    { unfold rstep. rewrite Hr, D. reflexivity. }
    assert (E2 : rstep K (rstep K s) = Sys f1 (prog s) (wp s) (RDrain c RSwapped) (cs s) (cd s)).
    { rewrite E1. reflexivity. }
    destruct (r_copy1 b1) as [d a] eqn:C1.
    assert (E3 : rstep K (rstep K (rstep K s)) = Sys f1 (prog s) (wp s) (RDrain c (RHalf d a)) (cs s) (cd s)).
    { rewrite E2. unfold rstep. cbn [rp bufs prog wp cs cd]. unfold f1 at 1. rewrite upd_eq, C1. reflexivity. }
    assert (F : f1 c = b1) by (unfold f1; apply upd_eq).
    assert (E4 : rstep K (rstep K (rstep K (rstep K s))) =
                 advance K c (upd f1 c (r_return (cs s) d a (r_copy2 b1) b1))
                   (Sys f1 (prog s) (wp s) (RDrain c (RHalf d a)) (cs s) (cd s))).
    { rewrite E3. unfold rstep. cbn [rp bufs prog wp cs cd]. rewrite F. reflexivity. }
    rewrite E4, bufs_advance. cbn [snd]. repeat split.
    + apply upd_eq.
    + intros c' Hn. unfold f1. rewrite !upd_neq by exact Hn. reflexivity.
    + unfold advance. destruct (S c <? K); cbn [rp]; auto.
  - assert (E1 : rstep K s = advance K c (upd (bufs s) c (r_none (cs s) (bufs s c))) s).
    { unfold rstep. rewrite Hr, D. reflexivity. }
    rewrite E1, bufs_advance. cbn [snd]. repeat split.
    + apply upd_eq.
    + intros c' Hn. rewrite upd_neq by exact Hn. reflexivity.
    + unfold advance. destruct (S c <? K); cbn [rp]; auto.
Qed.

Lemma p_slot_calls :
  (forall s c v p, wp s = WIdle -> prog s = (c, v) :: p ->
     bufs (do_write s) c = w_publish v (cs s) (cd s) (w_fill2 v (w_fill1 v (bufs s c))) /\
     (cs s = cd s -> bufs (do_write s) c = slot_write (cs s) v (bufs s c)) /\
     (forall c', c' <> c -> bufs (do_write s) c' = bufs s c')) /\
  (forall K s c, rp s = RDrain c RStart ->
     let s' := if dirty (bufs s c) then rstep K (rstep K (rstep K (rstep K s))) else rstep K s in
     bufs s' c = snd (slot_read (cs s) (bufs s c)) /\
     (forall c', c' <> c -> bufs s' c' = bufs s c') /\
     (rp s' = RBetween \/ rp s' = RDrain (S c) RStart)).
Proof. exact (conj do_write_is_slot_write drain_is_slot_read). Qed.

(** * the decoder-side kinds of a streaming sound *)
Section DecoderThm.
  Variable fuel : nat.
  Variable nf : Z.
  Variable region_of : val -> option (Z * Z).
  Variable by_idx : val -> Z.
  Variable to_idx : val -> Z.
  Notation dapply := (dec_apply fuel nf region_of by_idx to_idx).

  (** one decoder step: the new region, then seek_by, then seek_to, the last command of each kind *)
  Definition dec_step_effect (iv : list (nat * val)) (s : outcome transport) : outcome transport :=
    let s1 := match last_of 0 iv with Some v => dapply 0 v s | None => s end in
    let s2 := match last_of 1 iv with Some v => dapply 1 v s1 | None => s1 end in
    match last_of 2 iv with Some v => dapply 2 v s2 | None => s2 end.

  Lemma f_dec_history : forall t0 h,
    m_state (m_exec dapply dec_order h (m_init (Ok t0))) =
    fold_left (fun s iv => dec_step_effect iv s) (closed_intervals h) (Ok t0).
  Proof.
    intros t0 h. rewrite (p_multi_state _ dapply dec_order (Ok t0) h).
    - reflexivity.
    - repeat (constructor; [cbn; intuition discriminate|]); constructor.
  Qed.

  (** [set_loop_region r] and [seek_to p] (no [seek_by]) picked up at the same step, in whatever
      order and multiplicity they were issued: [p] is wrapped into the NEW region *)
  Lemma f_dec_region_then_seek : forall t iv vr vp,
    last_of 0 iv = Some vr -> last_of 1 iv = None -> last_of 2 iv = Some vp ->
    interval_effect dapply dec_order iv (Ok t) =
    (let! p := match filter_region (region_of vr) with
               | Some (ls, le) =>
                   if (to_idx vp >? t_pos t)%Z then wrap_down fuel (to_idx vp) ls le
                   else wrap_up_lt fuel (to_idx vp) ls le
               | None => Ok (to_idx vp)
               end in
     Ok {| t_pos := p; t_loop := filter_region (region_of vr);
           t_playing := if (p >=? nf)%Z then false else t_playing t |}).
  Proof.
    intros t iv vr vp H0 H1 H2. unfold interval_effect, dec_order. cbn [fold_left]. unfold kind_effect.
    rewrite H0, H1, H2. reflexivity.
  Qed.

  Lemma f_dec_clear_then_seek : forall t iv vr vp,
    last_of 0 iv = Some vr -> last_of 1 iv = None -> last_of 2 iv = Some vp ->
    filter_region (region_of vr) = None ->
    interval_effect dapply dec_order iv (Ok t) =
    Ok {| t_pos := to_idx vp; t_loop := None; t_playing := if (to_idx vp >=? nf)%Z then false else t_playing t |}.
  Proof.
    intros t iv vr vp H0 H1 H2 HN. rewrite (f_dec_region_then_seek t iv vr vp H0 H1 H2). rewrite HN. reflexivity.
  Qed.
End DecoderThm.

Local Open Scope Z_scope.
(** the seeded reading on the demo's scenario: loop 0..2, at frame 1; [set_loop_region(None);
    seek_to(5)] at the same step *)
Definition dec_t0 : transport := {| t_pos := 1; t_loop := Some (0, 2); t_playing := true |}.
Definition dec_iv : list (nat * val) := [(0%nat, (0, 0)); (2%nat, (5, 0))].
Example ex_dec_real : interval_effect (decz_apply 200) dec_order dec_iv (Ok dec_t0) =
  Ok {| t_pos := 5; t_loop := None; t_playing := true |}.
Proof. vm_compute. reflexivity. Qed.
Example ex_dec_seeded : interval_effect (decz_apply 200) dec_order_seeks_first dec_iv (Ok dec_t0) =
  Ok {| t_pos := 1; t_loop := None; t_playing := true |}.
Proof. vm_compute. reflexivity. Qed.
(** a new region that contains the target / does not contain it *)
Example ex_dec_new_region :
  (interval_effect (decz_apply 200) dec_order [(2%nat, (5, 0)); (0%nat, (4, 8))] (Ok dec_t0),
   interval_effect (decz_apply 200) dec_order [(2%nat, (9, 0)); (0%nat, (4, 8))] (Ok dec_t0),
   interval_effect (decz_apply 200) dec_order [(1%nat, (7, 0)); (0%nat, (4, 6)); (2%nat, (3, 0))] (Ok dec_t0)) =
  (Ok {| t_pos := 5; t_loop := Some (4, 8); t_playing := true |},
   Ok {| t_pos := 5; t_loop := Some (4, 8); t_playing := true |},
   Ok {| t_pos := 5; t_loop := Some (4, 6); t_playing := true |}).
Proof. vm_compute. reflexivity. Qed.

Lemma f_dec_seeded_refuted : exists t iv vr vp,
  last_of 0 iv = Some vr /\ last_of 1 iv = None /\ last_of 2 iv = Some vp /\
  filter_region (Some vr) = None /\
  interval_effect (decz_apply 200) dec_order_seeks_first iv (Ok t) <>
  Ok {| t_pos := fst vp; t_loop := None; t_playing := if fst vp >=? 200 then false else t_playing t |}.
Proof.
  exists dec_t0, dec_iv, (0, 0), (5, 0). repeat split. vm_compute. discriminate.
Qed.
Local Close Scope Z_scope.

Lemma p_dec_history : forall fuel nf region_of by_idx to_idx t0 h,
  m_state (m_exec (dec_apply fuel nf region_of by_idx to_idx) dec_order h (m_init (Ok t0))) =
  fold_left (fun s iv => dec_step_effect fuel nf region_of by_idx to_idx iv s) (closed_intervals h) (Ok t0).
Proof. exact f_dec_history. Qed.
Lemma p_dec_region_then_seek : forall fuel nf region_of by_idx to_idx t iv vr vp,
  last_of 0 iv = Some vr -> last_of 1 iv = None -> last_of 2 iv = Some vp ->
  interval_effect (dec_apply fuel nf region_of by_idx to_idx) dec_order iv (Ok t) =
  (let! p := match filter_region (region_of vr) with
             | Some (ls, le) =>
                 if (to_idx vp >? t_pos t)%Z then wrap_down fuel (to_idx vp) ls le
                 else wrap_up_lt fuel (to_idx vp) ls le
             | None => Ok (to_idx vp)
             end in
   Ok {| t_pos := p; t_loop := filter_region (region_of vr);
         t_playing := if (p >=? nf)%Z then false else t_playing t |}) /\
  (filter_region (region_of vr) = None ->
   interval_effect (dec_apply fuel nf region_of by_idx to_idx) dec_order iv (Ok t) =
   Ok {| t_pos := to_idx vp; t_loop := None; t_playing := if (to_idx vp >=? nf)%Z then false else t_playing t |}).
Proof.
  intros fuel nf region_of by_idx to_idx t iv vr vp H0 H1 H2. split.
  - exact (f_dec_region_then_seek fuel nf region_of by_idx to_idx t iv vr vp H0 H1 H2).
  - exact (f_dec_clear_then_seek fuel nf region_of by_idx to_idx t iv vr vp H0 H1 H2).
Qed.
