(** C07 — the multi-kind layer: a resource with several command kinds.

    Transcribed code
    ----------------
    * [command_writers_and_readers!] ([command.rs]): a handle owns one [CommandWriter] per
      command kind, the resource on the audio thread the matching [CommandReader]s; every pair
      is its own triple buffer ([Model.v]).
    * every [read_commands] / [on_start_processing] of kira is a straight-line sequence of
      independent statements [if let Some(x) = self.command_readers.KIND.read() { apply x }]
      (or [param.read_command(&mut reader)], which is the same shape), one per kind, in a fixed
      order.  [StaticSound::read_commands]: volume, playback_rate, panning, set_loop_region,
      pause, resume, stop, seek_by, seek_to.  [StreamingSound::read_commands]: volume,
      playback_rate, panning, pause, resume, stop (set_loop_region, seek_by, seek_to are read by
      [DecodeScheduler::run], same shape).  [Track::read_commands]: set_volume, (send routes,
      spatial data), pause, resume.
    * [Track::on_start_processing]: [read_commands] of the track, then [on_start_processing] of
      EVERY sound of the track and of every sub-track, whatever the playback state of the
      track: a resource nested in another one is drained in the same callback, unconditionally
      ("several resources: more kinds").
    * [PlaybackStateManager::{pause, resume, stop}]: [C03/Model.v].
    * [DecodeScheduler::run] (streaming/sound/decode_scheduler.rs), one step of the decoder thread
      once the ring has room: [set_loop_region.read()] -> [transport.set_loop_region], then
      [seek_by.read()] -> [seek_to_index(round((shared.position() + amount) * sample_rate))], then
      [seek_to.read()] -> [seek_to_index(round(position * sample_rate))], then the frame at
      [transport.position] is pushed and [transport.increment_position] is called.
      [seek_to_index] = [Transport::seek_to] ([C04/Transport.v]: the target is wrapped into the
      loop region IN FORCE) + [decoder.seek].  [shared.position()] is written by the audio thread
      only; it is an input of the step.

    [slot_write] / [slot_read] are whole calls of [CommandWriter::write] / [CommandReader::read]
    composed from the protocol steps of [Model.v] (the coarse schedules; the fine-grained ones
    are the subject of [callback_semantics]).

    Two readings that are NOT the code are defined here as counter-models:
    [m_callback_elseif] (a priority chain [if .. else if .. else if ..] over some of the
    readers) and [m_callback_guarded] (the nested resources are only drained while a guard on
    the parent's state holds).

    This file contains definitions only. *)
From Coq Require Import ZArith QArith List Bool Arith.
From KV Require Import Base.Outcome Base.Num C19.Model C06.Model C03.Model C04.Transport C07.Model.
Import ListNotations.
Close Scope Q_scope.

(** * whole calls on one slot *)
Definition slot_write (n : nat) (v : val) (b : tbuf) : tbuf :=
  w_publish v n n (w_fill2 v (w_fill1 v b)).
Definition slot_read (n : nat) (b : tbuf) : option val * tbuf :=
  if dirty b then
    let b1 := r_swap b in
    let '(d, a) := r_copy1 b1 in
    let w := r_copy2 b1 in
    ((if d then Some (a, w) else None), r_return n d a w b1)
  else (None, r_none n b).
(** what the reader's next [read] would return: the content of the back slot if it is dirty *)
Definition slot_pending (b : tbuf) : option val :=
  if dirty b then
    let c := tget (mem b) (back b) in
    if c_some c then Some (c_w1 c, c_w2 c) else None
  else None.

(** * a resource: one slot per kind, a state, the effect of each kind's command on the state *)
Inductive ev := Issue (k : nat) (v : val) | Callback.

Section Resource.
  Variable St : Type.
  Variable apply : nat -> val -> St -> St.

  Record res := Res {
    m_slots : nat -> tbuf;
    m_state : St;
    m_ncb : nat;                          (* ghost: callbacks started *)
    m_log : list (nat * nat * val)        (* ghost, newest first: (callback, kind, value) applied *)
  }.
  Definition m_init (s0 : St) : res := Res (fun _ => tb_init) s0 0 [].

  (** a handle method: [self.command_writers.KIND.write(v)] *)
  Definition m_issue (k : nat) (v : val) (r : res) : res :=
    Res (upd (m_slots r) k (slot_write (m_ncb r) v (m_slots r k))) (m_state r) (m_ncb r) (m_log r).

  (** [if let Some(v) = self.command_readers.k.read() { apply k v }] *)
  Definition m_read_one (r : res) (k : nat) : res :=
    let '(o, b) := slot_read (m_ncb r) (m_slots r k) in
    let sl := upd (m_slots r) k b in
    match o with
    | Some v => Res sl (apply k v (m_state r)) (m_ncb r) ((m_ncb r, k, v) :: m_log r)
    | None => Res sl (m_state r) (m_ncb r) (m_log r)
    end.
  (** [read_commands]: the statements one after the other, in the code's order *)
  Definition m_read_commands (order : list nat) (r : res) : res := fold_left m_read_one order r.
  Definition m_begin (r : res) : res := Res (m_slots r) (m_state r) (S (m_ncb r)) (m_log r).
  Definition m_callback (order : list nat) (r : res) : res := m_read_commands order (m_begin r).

  Definition m_step (order : list nat) (r : res) (e : ev) : res :=
    match e with Issue k v => m_issue k v r | Callback => m_callback order r end.
  Definition m_exec (order : list nat) (h : list ev) (r : res) : res := fold_left (m_step order) h r.

  (** ** counter-model 1: a priority chain.  [if let Some(v) = chain[0].read() { .. } else if let
      Some(v) = chain[1].read() { .. } else ..]: the readers after the first hit are not read. *)
  Fixpoint m_read_chain (chain : list nat) (r : res) : res :=
    match chain with
    | [] => r
    | k :: rest =>
        let '(o, b) := slot_read (m_ncb r) (m_slots r k) in
        let sl := upd (m_slots r) k b in
        match o with
        | Some v => Res sl (apply k v (m_state r)) (m_ncb r) ((m_ncb r, k, v) :: m_log r)
        | None => m_read_chain rest (Res sl (m_state r) (m_ncb r) (m_log r))
        end
    end.
  Definition m_callback_elseif (pre chain post : list nat) (r : res) : res :=
    m_read_commands post (m_read_chain chain (m_read_commands pre (m_begin r))).
  Definition m_exec_elseif (pre chain post : list nat) (h : list ev) (r : res) : res :=
    fold_left (fun r e => match e with Issue k v => m_issue k v r
                                     | Callback => m_callback_elseif pre chain post r end) h r.

  (** ** counter-model 2: the kinds of the nested resources are read only while [guard] holds
      of the state reached after the parent's own commands *)
  Definition m_callback_guarded (own : list nat) (guard : St -> bool) (nested : list nat) (r : res) : res :=
    let r1 := m_read_commands own (m_begin r) in
    if guard (m_state r1) then m_read_commands nested r1 else r1.
  Definition m_exec_guarded (own : list nat) (guard : St -> bool) (nested : list nat) (h : list ev) (r : res) : res :=
    fold_left (fun r e => match e with Issue k v => m_issue k v r
                                     | Callback => m_callback_guarded own guard nested r end) h r.

  (** ** what the property says, as functions of the history alone (no buffers) *)
  (** the completed intervals of a history (the commands issued, in order, between two
      consecutive callbacks; the first one: before the first callback) and the open interval
      after the last callback; [cur]: the commands of the current interval so far *)
  Fixpoint intervals_from (cur : list (nat * val)) (h : list ev) : list (list (nat * val)) * list (nat * val) :=
    match h with
    | [] => ([], cur)
    | Issue k v :: t => intervals_from (cur ++ [(k, v)]) t
    | Callback :: t => let '(cl, op) := intervals_from [] t in (cur :: cl, op)
    end.
  Definition closed_intervals (h : list ev) : list (list (nat * val)) := fst (intervals_from [] h).
  Definition open_interval (h : list ev) : list (nat * val) := snd (intervals_from [] h).
  (** the last command of kind [k] in an interval *)
  Definition last_of (k : nat) (iv : list (nat * val)) : option val :=
    fold_left (fun acc kv => if fst kv =? k then Some (snd kv) else acc) iv None.
  (** the effect of one kind; of a whole interval: the per-kind effects composed in the code's order *)
  Definition kind_effect (iv : list (nat * val)) (s : St) (k : nat) : St :=
    match last_of k iv with Some v => apply k v s | None => s end.
  Definition interval_effect (order : list nat) (iv : list (nat * val)) (s : St) : St :=
    fold_left (kind_effect iv) order s.
  Definition spec_state (order : list nat) (h : list ev) (s0 : St) : St :=
    fold_left (fun s iv => interval_effect order iv s) (closed_intervals h) s0.
  (** what callback [j] applies, given the interval that precedes it *)
  Definition entries (order : list nat) (j : nat) (iv : list (nat * val)) : list (nat * nat * val) :=
    flat_map (fun k => match last_of k iv with Some v => [(j, k, v)] | None => [] end) order.
  Fixpoint spec_log_from (order : list nat) (j : nat) (ivs : list (list (nat * val))) : list (nat * nat * val) :=
    match ivs with
    | [] => []
    | iv :: t => entries order j iv ++ spec_log_from order (S j) t
    end.
  Definition spec_log (order : list nat) (h : list ev) : list (nat * nat * val) :=
    spec_log_from order 1 (closed_intervals h).
End Resource.

Arguments Res {St}. Arguments m_slots {St}. Arguments m_state {St}. Arguments m_ncb {St}. Arguments m_log {St}.
Arguments m_init {St}. Arguments m_issue {St}. Arguments m_begin {St}.
Arguments m_read_one {St}. Arguments m_read_commands {St}. Arguments m_callback {St}.
Arguments m_step {St}. Arguments m_exec {St}.
Arguments m_read_chain {St}. Arguments m_callback_elseif {St}. Arguments m_exec_elseif {St}.
Arguments m_callback_guarded {St}. Arguments m_exec_guarded {St}.
Arguments kind_effect {St}. Arguments interval_effect {St}. Arguments spec_state {St}.

(** the events of a history that concern kind [k]: its own commands and the callbacks *)
Definition concerns (k : nat) (e : ev) : bool :=
  match e with Issue k' _ => k' =? k | Callback => true end.
Definition proj_kind (k : nat) (h : list ev) : list ev := filter (concerns k) h.
Definition of_kind (k : nat) (e : nat * nat * val) : bool := snd (fst e) =? k.

(** * the playback-state kinds of a sound / a track, on C03's [PlaybackStateManager] *)
Section Playback.
  Context {T : Type} {NT : Num T}.
  Variable V : Type.
  Variables silence identity : V.
  Variable tw_of : val -> tween T.              (* the [Tween] a command value stands for *)
  Variable st_of : val -> stime T.              (* the [StartTime] of a [resume] command *)

  (** kinds 0, 1, 2 = pause, resume, stop: their order in [read_commands] *)
  Definition pb_apply (k : nat) (v : val) (m : psm T V) : psm T V :=
    match k with
    | 0%nat => psm_pause V silence m (tw_of v)
    | 1%nat => psm_resume V identity m (st_of v) (tw_of v)
    | 2%nat => psm_stop V silence m (tw_of v)
    | _ => m
    end.
End Playback.

(** * executable instances used by the correspondence check ([Run.v]) and the witnesses *)
Local Open Scope Z_scope.

Definition tween_z (x : Z) : tween Q := {| tw_start := Immediate; tw_dur := x; tw_easing := Linear |}.
Definition stime_z (y : Z) : stime Q := if y =? 0 then Immediate else Delayed y.
Definition psm_of_code (c : Z) : psm Q Z :=
  let f := param_new (T := Q) (Fixed 0) 0 in
  {| ps := if c =? 1 then Pausing else if c =? 2 then Paused
           else if c =? 3 then WaitingToResume (Delayed 1000000000000) (tween_z 0)
           else if c =? 4 then Resuming else if c =? 5 then Stopping
           else if c =? 6 then Stopped else Playing;
     fade := f |}.

(** a sound.  Kinds in the order of [StaticSound::read_commands]:
    0 volume, 1 playback_rate, 2 panning, 3 set_loop_region, 4 pause, 5 resume, 6 stop,
    7 seek_by, 8 seek_to.  Values: [(x, y)]; pause / stop: tween of [x] ns; resume: tween of
    [x] ns, start time [y] ns from now ([0]: immediately); seeks: [x] whole seconds; the loop
    region: [x .. y] in whole seconds ([y <= x]: none); the parameter kinds: [x] identifies the value.
    Positions are in whole seconds: [sn_pos] the transport position, [sn_heard] the position
    of the frame being heard (what the handle reports one callback later). *)
Record sndst := Snd { sn_psm : psm Q Z; sn_vol : Z; sn_rate : Z; sn_pan : Z; sn_loop : option (Z * Z); sn_pos : Z; sn_heard : Z }.
(** [Transport::seek_to] in whole seconds (the sound is 60 s long); [-1]: panic / hang *)
Definition snd_seek (s : sndst) (target : Z) : Z :=
  match transport_seek_to 200 {| t_pos := sn_pos s; t_loop := sn_loop s; t_playing := true |} target 60 with
  | Ok t => t_pos t
  | _ => -1
  end.
Definition snd_with_psm (s : sndst) (m : psm Q Z) : sndst :=
  Snd m (sn_vol s) (sn_rate s) (sn_pan s) (sn_loop s) (sn_pos s) (sn_heard s).
Definition snd_apply (k : nat) (v : val) (s : sndst) : sndst :=
  match k with
  | 0%nat => Snd (sn_psm s) (fst v) (sn_rate s) (sn_pan s) (sn_loop s) (sn_pos s) (sn_heard s)
  | 1%nat => Snd (sn_psm s) (sn_vol s) (fst v) (sn_pan s) (sn_loop s) (sn_pos s) (sn_heard s)
  | 2%nat => Snd (sn_psm s) (sn_vol s) (sn_rate s) (fst v) (sn_loop s) (sn_pos s) (sn_heard s)
  | 3%nat => Snd (sn_psm s) (sn_vol s) (sn_rate s) (sn_pan s) (filter_region (Some v)) (sn_pos s) (sn_heard s)
  | 4%nat | 5%nat | 6%nat =>
      snd_with_psm s (pb_apply Z (-60) 0 (fun v => tween_z (fst v)) (fun v => stime_z (snd v)) (k - 4)%nat v (sn_psm s))
  | 7%nat => Snd (sn_psm s) (sn_vol s) (sn_rate s) (sn_pan s) (sn_loop s) (snd_seek s (sn_pos s + fst v)) (sn_heard s)
  | 8%nat => Snd (sn_psm s) (sn_vol s) (sn_rate s) (sn_pan s) (sn_loop s) (snd_seek s (fst v)) (sn_heard s)
  | _ => s
  end.
Definition snd_init_loop (code : Z) (lr : option (Z * Z)) : sndst := Snd (psm_of_code code) 0 0 0 (filter_region lr) 0 0.
Definition snd_init (code : Z) : sndst := snd_init_loop code None.
Definition static_order : list nat := [0; 1; 2; 3; 4; 5; 6; 7; 8]%nat.
(** the kinds [StreamingSound::read_commands] reads on the audio thread *)
Definition streaming_order : list nat := [0; 1; 2; 4; 5; 6]%nat.
(** [Sound::process] as far as the handle-visible position is concerned: while the sound is
    advancing the frame heard follows the transport (fades never end within a scenario; less
    than half a second is played within a scenario) *)
Definition snd_process (s : sndst) : sndst :=
  if is_advancing (ps (sn_psm s))
  then
    (* [increment_position]: a position at or beyond the loop end wraps as soon as the sound advances *)
    let p := match sn_loop s with
             | Some (ls, le) => match wrap_down 200 (sn_pos s) ls le with Ok p => p | _ => -1 end
             | None => sn_pos s
             end in
    Snd (sn_psm s) (sn_vol s) (sn_rate s) (sn_pan s) (sn_loop s) p p
  else s.

(** a mixer sub-track.  Kinds in the order of [Track::read_commands]: 0 set_volume, 1 pause, 2 resume *)
Record trk := Trk { tk_psm : psm Q Z; tk_vol : Z }.
Definition trk_apply (k : nat) (v : val) (t : trk) : trk :=
  match k with
  | 0%nat => Trk (tk_psm t) (fst v)
  | 1%nat | 2%nat => Trk (pb_apply Z (-60) 0 (fun v => tween_z (fst v)) (fun v => stime_z (snd v)) (k - 1)%nat v (tk_psm t)) (tk_vol t)
  | _ => t
  end.
Definition trk_order : list nat := [0; 1; 2]%nat.

(** a sub-track with one sound on it: kinds 0-2 the track's, 3-11 the sound's ([Track::
    on_start_processing]: the track's [read_commands], then the sound's [on_start_processing]) *)
Definition ts_apply (k : nat) (v : val) (s : trk * sndst) : trk * sndst :=
  if (k <? 3)%nat then (trk_apply k v (fst s), snd s) else (fst s, snd_apply (k - 3) v (snd s)).
Definition ts_own : list nat := [0; 1; 2]%nat.
Definition ts_nested : list nat := [3; 4; 5; 6; 7; 8; 9; 10; 11]%nat.
Definition ts_order : list nat := ts_own ++ ts_nested.
(** the guard of counter-model 2: the track is advancing *)
Definition ts_guard (s : trk * sndst) : bool := is_advancing (ps (tk_psm (fst s))).

(** * the decoder-side kinds of a streaming sound ([DecodeScheduler::run])
    kinds 0 set_loop_region, 1 seek_by, 2 seek_to: their order in [run].  The state is the
    decoder's [Transport] (or the panic / hang a command caused). *)
Section Decoder.
  Variable fuel : nat.
  Variable nf : Z.                                  (* num_frames *)
  Variable region_of : val -> option (Z * Z).       (* the region (in frames) a set_loop_region command carries *)
  Variable by_idx : val -> Z.                       (* round((shared.position() + amount) * sample_rate) *)
  Variable to_idx : val -> Z.                       (* round(position * sample_rate) *)
  Definition dec_apply (k : nat) (v : val) (s : outcome transport) : outcome transport :=
    let! t := s in
    match k with
    | 0%nat => Ok (transport_set_loop_region t (region_of v))
    | 1%nat => transport_seek_to fuel t (by_idx v) nf
    | 2%nat => transport_seek_to fuel t (to_idx v) nf
    | _ => Ok t
    end.
  (** the rest of the step: the frame at [transport.position] is pushed, then [increment_position] *)
  Definition dec_push (s : outcome transport) : outcome transport :=
    let! t := s in increment_position fuel t nf.
End Decoder.
Definition dec_order : list nat := [0; 1; 2]%nat.
(** the seeded reading: the seeks are read before the loop region *)
Definition dec_order_seeks_first : list nat := [1; 2; 0]%nat.
(** executable instance: a region value [(ls, le)] with [le <= ls] stands for [None]; the seek
    values carry the frame index *)
Definition decz_apply (nf : Z) : nat -> val -> outcome transport -> outcome transport :=
  dec_apply 400 nf (fun v => filter_region (Some v)) fst fst.
