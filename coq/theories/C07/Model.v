(** C07 — model of the command channel between a handle and the audio thread.

    Transcribed code
    ----------------
    * [triple_buffer 8.1.1] ([src/lib.rs]): [SharedState { buffers: [T; 3], back_info: AtomicU8 }]
      with [back_info = index | DIRTY]; [TripleBuffer::new]: [back_info = 0], [input_idx = 1],
      [output_idx = 2], the three buffers hold the initial value;
      [Input::write v] = [*input_buffer_mut() = v; publish()], [publish] =
      [former = back_info.swap(input_idx | DIRTY); input_idx = former & MASK];
      [Output::update] = [updated = back_info.load() & DIRTY != 0;
      if updated { former = back_info.swap(output_idx); output_idx = former & MASK }; updated].
    * [kira::command]: [command_writer_and_reader()] = [triple_buffer(&None)];
      [CommandWriter::write c] = [Input::write (Some c)];
      [CommandReader::read] = [if update() { *output_buffer_mut() } else { None }].
    * every [read_commands] / [on_start_processing] of kira: one [read] of every command kind of
      the resource, in a fixed order, once per audio callback (for a streaming sound's
      [set_loop_region / seek_by / seek_to]: once per step of [DecodeScheduler::run]; the
      "callback" of that resource is the decoder step).

    Granularity: every access to shared memory is its own step.  A command value occupies a
    discriminant and two words; the writer fills its input slot in two steps and the reader
    copies its output slot in two steps, so a torn value is expressible.  Memory is
    sequentially consistent (assumption of the whole development, DESIGN.md section 4).

    This file contains definitions only. *)
From Coq Require Import ZArith List Bool Arith.
Import ListNotations.

(** * One triple buffer *)

Definition val := (Z * Z)%type.            (* a command: two machine words *)
Inductive slot := S0 | S1 | S2.
Definition slot_eqb (a b : slot) : bool :=
  match a, b with S0, S0 | S1, S1 | S2, S2 => true | _, _ => false end.

Record trio (A : Type) := T3 { t0 : A; t1 : A; t2 : A }.
Arguments T3 {A}. Arguments t0 {A}. Arguments t1 {A}. Arguments t2 {A}.
Definition tget {A} (t : trio A) (i : slot) : A :=
  match i with S0 => t0 t | S1 => t1 t | S2 => t2 t end.
Definition tset {A} (t : trio A) (i : slot) (x : A) : trio A :=
  match i with
  | S0 => T3 x (t1 t) (t2 t) | S1 => T3 (t0 t) x (t2 t) | S2 => T3 (t0 t) (t1 t) x
  end.

(** content of one buffer: an [Option<T>]: discriminant + two words *)
Record cell := Cell { c_some : bool; c_w1 : Z; c_w2 : Z }.
Definition cell_none : cell := Cell false 0 0.
Definition cell_of (v : val) : cell := Cell true (fst v) (snd v).

Record tbuf := TB {
  mem : trio cell;                 (* buffers[0..3] *)
  back : slot; dirty : bool;       (* back_info (one atomic byte) *)
  w_in : slot;                     (* Input::input_idx  (writer-private) *)
  r_out : slot;                    (* Output::output_idx (reader-private) *)
  (* ghost state — never read by the protocol steps below *)
  tag : trio nat;                  (* number of the publication whose value the slot holds; 0 = initial *)
  pubs : list (val * nat * nat);   (* newest first: value, callbacks started / completed when published *)
  rets : list (nat * option (nat * val)); (* newest first: completed reads: callback number,
                                             result (with the ghost number of the slot it came from) *)
  rb : nat                         (* reads of this buffer that have been decided (R1 clean or R2 done) *)
}.

Definition tb_init : tbuf :=
  TB (T3 cell_none cell_none cell_none) S0 false S1 S2 (T3 0 0 0) [] [] 0.

(** writer: [*input_buffer_mut() = Some v], first half (discriminant and word 1) *)
Definition w_fill1 (v : val) (b : tbuf) : tbuf :=
  let old := tget (mem b) (w_in b) in
  TB (tset (mem b) (w_in b) (Cell true (fst v) (c_w2 old)))
     (back b) (dirty b) (w_in b) (r_out b) (tag b) (pubs b) (rets b) (rb b).
(** second half (word 2) *)
Definition w_fill2 (v : val) (b : tbuf) : tbuf :=
  let old := tget (mem b) (w_in b) in
  TB (tset (mem b) (w_in b) (Cell (c_some old) (c_w1 old) (snd v)))
     (back b) (dirty b) (w_in b) (r_out b) (tag b) (pubs b) (rets b) (rb b).
(** [publish]: one atomic swap of [back_info]; [v], [cs], [cd] only feed the ghost fields *)
Definition w_publish (v : val) (cs cd : nat) (b : tbuf) : tbuf :=
  TB (mem b) (w_in b) true (back b) (r_out b)
     (tset (tag b) (w_in b) (S (length (pubs b)))) ((v, cs, cd) :: pubs b) (rets b) (rb b).

(** reader: [updated()] is [dirty b]; the swap of [update()] *)
Definition r_swap (b : tbuf) : tbuf :=
  TB (mem b) (r_out b) false (w_in b) (back b) (tag b) (pubs b) (rets b) (S (rb b)).
(** [read] returned [None] because the dirty bit was clear *)
Definition r_none (cs : nat) (b : tbuf) : tbuf :=
  TB (mem b) (back b) (dirty b) (w_in b) (r_out b) (tag b) (pubs b) ((cs, None) :: rets b) (S (rb b)).
(** copying [*output_buffer_mut()]: first half, second half *)
Definition r_copy1 (b : tbuf) : bool * Z := let c := tget (mem b) (r_out b) in (c_some c, c_w1 c).
Definition r_copy2 (b : tbuf) : Z := c_w2 (tget (mem b) (r_out b)).
Definition r_return (cs : nat) (d : bool) (a w2 : Z) (b : tbuf) : tbuf :=
  TB (mem b) (back b) (dirty b) (w_in b) (r_out b) (tag b) (pubs b)
     ((cs, if d then Some (tget (tag b) (r_out b), (a, w2)) else None) :: rets b) (rb b).

(** * A resource with [K] command kinds, a gameplay thread and the audio thread *)

Inductive wpc := WIdle | WHalf (c : nat) (v : val) | WFull (c : nat) (v : val).
Inductive rph := RStart | RSaw | RSwapped | RHalf (d : bool) (a : Z).
Inductive rpc := RBetween | RDrain (c : nat) (p : rph).

Record sys := Sys {
  bufs : nat -> tbuf;            (* one buffer per command kind (kinds of several resources: more kinds) *)
  prog : list (nat * val);       (* the commands the gameplay thread is still going to issue *)
  wp : wpc;                      (* gameplay thread: inside which step of which [write] *)
  rp : rpc;                      (* audio thread: between callbacks, or draining kind [c] *)
  cs : nat;                      (* ghost: callbacks started *)
  cd : nat                       (* ghost: callbacks whose drain is complete *)
}.

Definition upd (f : nat -> tbuf) (c : nat) (b : tbuf) : nat -> tbuf :=
  fun c' => if Nat.eqb c' c then b else f c'.

Definition init (p : list (nat * val)) : sys := Sys (fun _ => tb_init) p WIdle RBetween 0 0.

(** one step of the gameplay thread *)
Definition wstep (s : sys) : sys :=
  match wp s with
  | WIdle =>
      match prog s with
      | [] => s
      | (c, v) :: p => Sys (upd (bufs s) c (w_fill1 v (bufs s c))) p (WHalf c v) (rp s) (cs s) (cd s)
      end
  | WHalf c v => Sys (upd (bufs s) c (w_fill2 v (bufs s c))) (prog s) (WFull c v) (rp s) (cs s) (cd s)
  | WFull c v => Sys (upd (bufs s) c (w_publish v (cs s) (cd s) (bufs s c))) (prog s) WIdle (rp s) (cs s) (cd s)
  end.

(** after kind [c] has been read: next kind, or the drain of this callback is complete *)
Definition advance (K c : nat) (bf : nat -> tbuf) (s : sys) : sys :=
  if S c <? K then Sys bf (prog s) (wp s) (RDrain (S c) RStart) (cs s) (cd s)
  else Sys bf (prog s) (wp s) RBetween (cs s) (S (cd s)).

(** one step of the audio thread; the kinds [0 .. K-1] are drained in this fixed order
    ([K = 0] behaves like [K = 1]) *)
Definition rstep (K : nat) (s : sys) : sys :=
  match rp s with
  | RBetween => Sys (bufs s) (prog s) (wp s) (RDrain 0 RStart) (S (cs s)) (cd s)
  | RDrain c RStart =>
      if dirty (bufs s c) then Sys (bufs s) (prog s) (wp s) (RDrain c RSaw) (cs s) (cd s)
      else advance K c (upd (bufs s) c (r_none (cs s) (bufs s c))) s
  | RDrain c RSaw => Sys (upd (bufs s) c (r_swap (bufs s c))) (prog s) (wp s) (RDrain c RSwapped) (cs s) (cd s)
  | RDrain c RSwapped =>
      let '(d, a) := r_copy1 (bufs s c) in Sys (bufs s) (prog s) (wp s) (RDrain c (RHalf d a)) (cs s) (cd s)
  | RDrain c (RHalf d a) =>
      advance K c (upd (bufs s) c (r_return (cs s) d a (r_copy2 (bufs s c)) (bufs s c))) s
  end.

Inductive tid := W | R.
Definition step (K : nat) (t : tid) (s : sys) : sys :=
  match t with W => wstep s | R => rstep K s end.
Definition run (K : nat) (sched : list tid) (s : sys) : sys :=
  fold_left (fun s t => step K t s) sched s.

(** * Derived notions used by the statements *)

Definition npub (b : tbuf) : nat := length (pubs b).
(** the [k]-th publication ([k >= 1]) *)
Definition pub_at_l (l : list (val * nat * nat)) (k : nat) : option (val * nat * nat) :=
  if (k =? 0) || (length l <? k) then None else nth_error l (length l - k).
Definition pub_at (b : tbuf) (k : nat) : option (val * nat * nat) := pub_at_l (pubs b) k.
(** (callback, publication number, value) of every command that was applied, newest first *)
Fixpoint applied (r : list (nat * option (nat * val))) : list (nat * nat * val) :=
  match r with
  | [] => []
  | (a, Some (k, v)) :: r' => (a, k, v) :: applied r'
  | (_, None) :: r' => applied r'
  end.
Definition applied_idx (r : list (nat * option (nat * val))) : list nat :=
  map (fun x => snd (fst x)) (applied r).
Definition writer_done (s : sys) : Prop := prog s = [] /\ wp s = WIdle.

(** whole calls (coarse schedules): a complete [write], a complete callback *)
Definition do_write (s : sys) : sys := wstep (wstep (wstep s)).
Fixpoint reader_until_between (K fuel : nat) (s : sys) : sys :=
  match fuel with
  | O => s
  | S f => let s' := rstep K s in
           match rp s' with RBetween => s' | _ => reader_until_between K f s' end
  end.
Definition do_callback (K : nat) (s : sys) : sys := reader_until_between K (2 + 4 * K) s.
