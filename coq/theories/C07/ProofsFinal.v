(** C07 — the statements of Props.v in their final form (over [run K sched (init p)]), and
    non-vacuity examples evaluated by the kernel. *)
From Coq Require Import ZArith List Bool Arith Lia Sorted.
From KV Require Import C07.Model C07.ProofsBuf C07.ProofsSys C07.ProofsThm.
Import ListNotations.

Lemma reach_run : forall K p sched, reach K p (run K sched (init p)).
Proof. intros. exists sched. reflexivity. Qed.

Lemma f_tb_ownership : forall K p sched c,
  let b := bufs (run K sched (init p)) c in
  w_in b <> back b /\ back b <> r_out b /\ w_in b <> r_out b.
Proof. intros. eapply ownership. apply reach_run. Qed.

Lemma f_no_tear : forall K p sched c,
  let s := run K sched (init p) in
  let b := bufs s c in
  (forall a k v, In (a, k, v) (applied (rets b)) -> exists st dn, pub_at b k = Some (v, st, dn)) /\
  (forall d a, rp s = RDrain c (RHalf d a) ->
     exists v st dn, pub_at b (taken b) = Some (v, st, dn) /\
                     tget (mem b) (r_out b) = cell_of v /\ d = true /\ a = fst v) /\
  pub_vals b ++ inflight c (wp s) ++ cmds_of c (prog s) = cmds_of c p.
Proof.
  intros K p sched c s b. pose proof (reach_run K p sched) as H. fold s in H. repeat split.
  - intros a k v Hin. eapply applied_whole; eauto.
  - intros d a Er. eapply copy_in_progress_whole; eauto.
  - eapply pubs_program; eauto.
Qed.

Lemma f_exactly_once : forall K p sched c, c < kx K ->
  let s := run K sched (init p) in
  let b := bufs s c in
  StronglySorted gt (applied_idx (rets b)) /\
  (forall a1 a2 k v1 v2, In (a1, k, v1) (applied (rets b)) -> In (a2, k, v2) (applied (rets b)) ->
                         a1 = a2 /\ v1 = v2) /\
  (forall k v st dn, pub_at b k = Some (v, st, dn) -> st + 1 <= cd s ->
     exists a k' v', In (a, k', v') (applied (rets b)) /\ k <= k' /\ a <= st + 1) /\
  (forall v st dn, pub_at b (npub b) = Some (v, st, dn) -> st + 1 <= cd s ->
     exists a, In (a, npub b, v) (applied (rets b)) /\ dn + 1 <= a <= st + 1).
Proof.
  intros K p sched c Hk s b. pose proof (reach_run K p sched) as H. fold s in H. repeat split.
  - eapply applied_sorted; eauto.
  - eapply applied_once; eauto.
  - eapply applied_once; eauto.
  - intros k v st dn P Hc. eapply not_lost; eauto.
  - intros v st dn P Hc. eapply last_delivered; eauto.
Qed.

Lemma f_quiescent : forall K p sched,
  let s := run K sched (init p) in
  rp s = RBetween ->
  exists m, m <= 1 + 4 * kx K /\
    let s' := run K (repeat R m) s in
    rp s' = RBetween /\ cd s' = S (cd s) /\
    forall c v st dn, c < kx K -> pub_at (bufs s c) (npub (bufs s c)) = Some (v, st, dn) ->
      pubs (bufs s' c) = pubs (bufs s c) /\
      exists a, In (a, npub (bufs s c), v) (applied (rets (bufs s' c))) /\ a <= S (cs s).
Proof. intros K p sched s Er. eapply quiescent_one_more_callback; eauto. apply reach_run. Qed.

Lemma f_callback_semantics : forall K p sched c, c < kx K ->
  let s := run K sched (init p) in
  let b := bufs s c in
  (forall a k v, In (a, k, v) (applied (rets b)) ->
     exists st dn, pub_at b k = Some (v, st, dn) /\ dn + 1 <= a <= st + 1 /\ a <= cs s /\
       (forall k' v' st' dn', k < k' -> pub_at b k' = Some (v', st', dn') -> a <= st')) /\
  (forall k v j, pub_at b k = Some (v, j, j) ->
     (forall k' v' st' dn', k < k' -> pub_at b k' = Some (v', st', dn') -> j + 1 <= dn') ->
     j + 1 <= cd s -> In (j + 1, k, v) (applied (rets b))) /\
  (forall k k' v v' st dn st' dn' a, pub_at b k = Some (v, st, dn) -> pub_at b k' = Some (v', st', dn') ->
     k < k' -> st' <= dn -> ~ In (a, k, v) (applied (rets b))) /\
  (forall k v j, pub_at b k = Some (v, j + 1, j) ->
     (forall k' v' st' dn', k < k' -> pub_at b k' = Some (v', st', dn') -> j + 2 <= dn') ->
     j + 2 <= cd s -> In (j + 1, k, v) (applied (rets b)) \/ In (j + 2, k, v) (applied (rets b))) /\
  (forall a1 a2 k v1 v2, In (a1, k, v1) (applied (rets b)) -> In (a2, k, v2) (applied (rets b)) ->
                         a1 = a2 /\ v1 = v2).
Proof.
  intros K p sched c Hk s b. pose proof (reach_run K p sched) as H. fold s in H.
  split; [|split; [|split; [|split]]].
  - intros a k v Hin. eapply applied_bounds; eauto.
  - intros k v j P L Hc. eapply last_between_applied_next; eauto.
  - intros k k' v v' st dn st' dn' a P P' Hlt Hs. eapply superseded_never_applied; eauto.
  - intros k v j P L Hc. eapply racing_applied_once; eauto.
  - intros a1 a2 k v1 v2. eapply applied_once; eauto.
Qed.

Lemma f_first_callback : forall K p sched c, c < kx K ->
  let s := run K sched (init p) in
  let b := bufs s c in
  forall k v, pub_at b k = Some (v, 0, 0) ->
    (forall k' v' st' dn', k < k' -> pub_at b k' = Some (v', st', dn') -> 1 <= dn') ->
    1 <= cd s -> In (1, k, v) (applied (rets b)).
Proof.
  intros K p sched c Hk s b k v P L Hc.
  eapply (last_between_applied_next K p s c k v 0); eauto. apply reach_run.
Qed.

Lemma f_stamps : forall K p sched c k v st dn,
  let s := run K sched (init p) in
  pub_at (bufs s c) k = Some (v, st, dn) -> dn <= st <= dn + 1 /\ st <= cs s /\ dn <= cd s.
Proof.
  intros K p sched c k v st dn s P. pose proof (reach_sinv _ _ _ (reach_run K p sched)) as [B _ _].
  exact (i_stamps _ _ _ _ _ (B c) _ _ _ _ P).
Qed.

(** the streaming sound's decoder-side kinds ([set_loop_region], [seek_by], [seek_to], read in
    this order by every step of [DecodeScheduler::run]): the same statement with [K = 3] and
    "callback" read as "step of the decoder" *)
Lemma f_decoder_commands : forall p sched c, c < 3 ->
  let s := run 3 sched (init p) in
  let b := bufs s c in
  (forall a k v, In (a, k, v) (applied (rets b)) ->
     exists st dn, pub_at b k = Some (v, st, dn) /\ dn + 1 <= a <= st + 1 /\ a <= cs s /\
       (forall k' v' st' dn', k < k' -> pub_at b k' = Some (v', st', dn') -> a <= st')) /\
  (forall k v j, pub_at b k = Some (v, j, j) ->
     (forall k' v' st' dn', k < k' -> pub_at b k' = Some (v', st', dn') -> j + 1 <= dn') ->
     j + 1 <= cd s -> In (j + 1, k, v) (applied (rets b))) /\
  (forall k k' v v' st dn st' dn' a, pub_at b k = Some (v, st, dn) -> pub_at b k' = Some (v', st', dn') ->
     k < k' -> st' <= dn -> ~ In (a, k, v) (applied (rets b))) /\
  (forall k v j, pub_at b k = Some (v, j + 1, j) ->
     (forall k' v' st' dn', k < k' -> pub_at b k' = Some (v', st', dn') -> j + 2 <= dn') ->
     j + 2 <= cd s -> In (j + 1, k, v) (applied (rets b)) \/ In (j + 2, k, v) (applied (rets b))) /\
  (forall a1 a2 k v1 v2, In (a1, k, v1) (applied (rets b)) -> In (a2, k, v2) (applied (rets b)) ->
                         a1 = a2 /\ v1 = v2).
Proof. intros p sched c H. exact (f_callback_semantics 3 p sched c H). Qed.

(** * Non-vacuity: concrete schedules, evaluated *)
Definition obs (s : sys) (c : nat) : list (nat * nat * val) := rev (applied (rets (bufs s c))).
Definition pubs_of (s : sys) (c : nat) : list (val * nat * nat) := rev (pubs (bufs s c)).

(** two kinds; kind 0 gets three commands, kind 1 one.  The first two commands of kind 0 are
    issued before the first callback (the first is superseded), the third races with the drain
    of callback 2 (published after the audio thread saw a clean dirty bit) and is applied in
    callback 3. *)
Definition ex_prog : list (nat * val) := [(0, (11, 12)%Z); (0, (21, 22)%Z); (1, (71, 72)%Z); (0, (31, 32)%Z)].
Definition ex_sched : list tid :=
  [W; W; W; W; W; W;          (* write 1, write 2 of kind 0: before the first callback *)
   R; R; R; W; R; R;          (* callback 1 starts, sees kind 0 dirty, swaps; the writer starts kind 1 meanwhile *)
   W; W;                      (* kind 1 published while the audio thread is still copying kind 0 *)
   R; R; R; R;                (* kind 1: dirty, swap, copy, copy -> callback 1 done *)
   W; W; R; R; W; R;          (* third command of kind 0: published after callback 2 read kind 0 clean *)
   R; R; R; R; R; R].         (* callback 3 applies it *)
Example ex_run :
  let s := run 2 ex_sched (init ex_prog) in
  (obs s 0, obs s 1, pubs_of s 0, cs s, cd s) =
  ([(1, 2, (21, 22)%Z); (3, 3, (31, 32)%Z)], [(1, 1, (71, 72)%Z)],
   [((11, 12)%Z, 0, 0); ((21, 22)%Z, 0, 0); ((31, 32)%Z, 2, 1)], 3, 3).
Proof. vm_compute. reflexivity. Qed.

(** the hypotheses of the callback theorems are met by this run *)
Example ex_last_between :
  let b := bufs (run 2 ex_sched (init ex_prog)) 0 in
  pub_at b 2 = Some ((21, 22)%Z, 0, 0) /\ pub_at b 3 = Some ((31, 32)%Z, 2, 1) /\ pub_at b 4 = None.
Proof. vm_compute. auto. Qed.
Example ex_superseded :
  let b := bufs (run 2 ex_sched (init ex_prog)) 0 in
  pub_at b 1 = Some ((11, 12)%Z, 0, 0) /\ pub_at b 2 = Some ((21, 22)%Z, 0, 0).
Proof. vm_compute. auto. Qed.

(** a torn value IS expressible in this model: if the ownership discipline is broken (reader
    and writer on the same slot) the reader returns a mixture; so [no_tear] is not vacuous *)
Definition torn_state : sys :=
  let b := TB (T3 cell_none cell_none (cell_of (1, 1)%Z)) S0 false S2 S2 (T3 0 0 1) [((1, 1)%Z, 0, 0)] [] 0 in
  Sys (fun _ => b) [(0, (2, 2)%Z)] WIdle (RDrain 0 RSwapped) 1 0.
Example ex_torn_if_shared :
  rets (bufs (run 1 [R; W; W; R] torn_state) 0) = [(1, Some (1, (1, 2)%Z))].
Proof. vm_compute. reflexivity. Qed.
Example ex_torn_state_breaks_ownership : w_in (bufs torn_state 0) = r_out (bufs torn_state 0).
Proof. reflexivity. Qed.
