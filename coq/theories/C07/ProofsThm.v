(** C07 — the property statements derived from the invariant. *)
From Coq Require Import ZArith List Bool Arith Lia Sorted.
From KV Require Import C07.Model C07.ProofsBuf C07.ProofsSys.
Import ListNotations.
Arguments Nat.eqb : simpl never.
Arguments Nat.ltb : simpl never.
Arguments Nat.leb : simpl never.

Definition reach (K : nat) (p : list (nat * val)) (s : sys) : Prop := exists sched, s = run K sched (init p).

Lemma reach_sinv : forall K p s, reach K p s -> sinv K s.
Proof. intros K p s [sched ->]. apply sinv_reachable. Qed.

(** ** ownership, no tearing *)
Lemma ownership : forall K p s c, reach K p s ->
  w_in (bufs s c) <> back (bufs s c) /\ back (bufs s c) <> r_out (bufs s c) /\ w_in (bufs s c) <> r_out (bufs s c).
Proof. intros K p s c H. apply reach_sinv in H. destruct H as [B _ _]. exact (i_own _ _ _ _ _ (B c)). Qed.

Lemma applied_whole : forall K p s c a k v, reach K p s ->
  In (a, k, v) (applied (rets (bufs s c))) -> exists st dn, pub_at (bufs s c) k = Some (v, st, dn).
Proof.
  intros K p s c a k v H Hin. apply reach_sinv in H. destruct H as [B _ _].
  destruct (i_rets _ _ _ _ _ (B c) _ _ _ Hin) as (st & dn & P & _). eauto.
Qed.

(** the reader's private copy is never a mixture: while it is copying, the slot it copies
    from holds one whole published value, and the half it already has belongs to that value *)
Lemma copy_in_progress_whole : forall K p s c d a, reach K p s -> rp s = RDrain c (RHalf d a) ->
  exists v st dn, pub_at (bufs s c) (taken (bufs s c)) = Some (v, st, dn) /\
                  tget (mem (bufs s c)) (r_out (bufs s c)) = cell_of v /\ d = true /\ a = fst v.
Proof.
  intros K p s c d a H Er. apply reach_sinv in H. destruct H as [B _ _]. specialize (B c).
  rewrite Er in B. unfold rloc_of in B. rewrite Nat.eqb_refl in B.
  pose proof (i_last _ _ _ _ _ B) as La. cbn [pending] in La. destruct La as (L1 & (v0 & s0 & d0 & P0 & _) & _).
  pose proof (i_half _ _ _ _ _ B _ _ eq_refl) as Hc.
  destruct (i_cell_out _ _ _ _ _ B) as [[Z0 _]|(v1 & s1 & d1 & P1 & C1)].
  - unfold taken in L1. lia.
  - fold (taken (bufs s c)) in P1. rewrite P0 in P1. inversion P1; subst.
    exists v1, s1, d1. unfold r_copy1 in Hc. rewrite C1 in Hc. cbn in Hc. inversion Hc. auto.
Qed.

(** ** the publications are the commands of the program, in order *)
Definition cmds_of (c : nat) (p : list (nat * val)) : list val :=
  map snd (filter (fun x => fst x =? c) p).
Definition inflight (c : nat) (w : wpc) : list val :=
  match w with
  | WIdle => []
  | WHalf c' v | WFull c' v => if c' =? c then [v] else []
  end.
Definition pub_vals (b : tbuf) : list val := rev (map (fun x => fst (fst x)) (pubs b)).

Definition pinv (p : list (nat * val)) (s : sys) : Prop :=
  forall c, pub_vals (bufs s c) ++ inflight c (wp s) ++ cmds_of c (prog s) = cmds_of c p.

Lemma upd_pubs : forall f c b c', pubs b = pubs (f c) -> pubs (upd f c b c') = pubs (f c').
Proof.
  intros f c b c' H. unfold upd. destruct (c' =? c) eqn:E; [|reflexivity].
  apply Nat.eqb_eq in E. subst. exact H.
Qed.

Lemma rstep_frame : forall K s,
  wp (rstep K s) = wp s /\ prog (rstep K s) = prog s /\ forall c, pubs (bufs (rstep K s) c) = pubs (bufs s c).
Proof.
  intros K s. unfold rstep, advance.
  destruct (rp s) as [|c [| | |d a]].
  - cbn. auto.
  - destruct (dirty (bufs s c)); [cbn; auto|].
    destruct (S c <? K); cbn; (split; [reflexivity|split; [reflexivity|]]); intros c'; apply upd_pubs; reflexivity.
  - cbn. split; [reflexivity|split; [reflexivity|]]. intros c'; apply upd_pubs; reflexivity.
  - destruct (r_copy1 (bufs s c)); cbn; auto.
  - destruct (S c <? K); cbn; (split; [reflexivity|split; [reflexivity|]]); intros c'; apply upd_pubs; reflexivity.
Qed.

Lemma pinv_step : forall K p t s, pinv p s -> pinv p (step K t s).
Proof.
  intros K p [] s I c'; cbn [step].
  - specialize (I c'). unfold wstep. destruct (wp s) as [|c v|c v] eqn:Ew.
    + destruct (prog s) as [|[c v] q] eqn:Ep; [rewrite Ew, Ep; exact I|].
      cbn [bufs prog wp]. unfold cmds_of in *. cbn [filter fst] in I. cbn [inflight] in *.
      unfold upd. destruct (c' =? c) eqn:E.
      * apply Nat.eqb_eq in E; subst c'. rewrite Nat.eqb_refl in *. cbn [map snd app] in *. exact I.
      * rewrite Nat.eqb_sym in E. rewrite E in *. exact I.
    + cbn [bufs prog wp inflight] in *. unfold upd. destruct (c' =? c) eqn:E; [|exact I].
      apply Nat.eqb_eq in E; subst c'. exact I.
    + cbn [bufs prog wp inflight] in *. unfold upd. destruct (c' =? c) eqn:E.
      * apply Nat.eqb_eq in E; subst c'. rewrite Nat.eqb_refl in I.
        unfold pub_vals in *. cbn [w_publish pubs map fst rev]. rewrite <- app_assoc. exact I.
      * rewrite Nat.eqb_sym in E. rewrite E in I. exact I.
  - destruct (rstep_frame K s) as (E1 & E2 & E3). specialize (I c').
    unfold pub_vals in *. rewrite E1, E2, E3. exact I.
Qed.

Lemma pubs_program : forall K p s c, reach K p s ->
  pub_vals (bufs s c) ++ inflight c (wp s) ++ cmds_of c (prog s) = cmds_of c p.
Proof.
  intros K p s c [sched ->]. revert c.
  assert (G : forall sched s0, pinv p s0 -> pinv p (run K sched s0)).
  { induction sched0 as [|t l IH]; intros s0 I; cbn; auto. apply IH. apply pinv_step. exact I. }
  apply G. intros c. reflexivity.
Qed.

(** ** exactly once, in order, last write wins *)
Lemma rb_ge_cd : forall K s c, sinv K s -> c < kx K -> cd s <= rb (bufs s c).
Proof.
  intros K s c [B C Rb] Hk. specialize (Rb c Hk). destruct (rp s) as [|c' ph]; [cbn in Rb, C; lia|].
  destruct C as [C1 _]. destruct (decided (RDrain c' ph) c); lia.
Qed.

Lemma applied_sorted : forall K p s c, reach K p s -> StronglySorted gt (applied_idx (rets (bufs s c))).
Proof. intros K p s c H. apply reach_sinv in H. destruct H as [B _ _]. exact (i_sorted _ _ _ _ _ (B c)). Qed.

Lemma applied_bounds : forall K p s c a k v, reach K p s ->
  In (a, k, v) (applied (rets (bufs s c))) ->
  exists st dn, pub_at (bufs s c) k = Some (v, st, dn) /\ dn + 1 <= a <= st + 1 /\ a <= cs s /\
    (forall k' v' st' dn', k < k' -> pub_at (bufs s c) k' = Some (v', st', dn') -> a <= st').
Proof.
  intros K p s c a k v H Hin. apply reach_sinv in H. destruct H as [B _ _].
  exact (i_rets _ _ _ _ _ (B c) _ _ _ Hin).
Qed.

Lemma not_lost : forall K p s c k v st dn, reach K p s -> c < kx K ->
  pub_at (bufs s c) k = Some (v, st, dn) -> st + 1 <= cd s ->
  exists a k' v', In (a, k', v') (applied (rets (bufs s c))) /\ k <= k' /\ a <= st + 1.
Proof.
  intros K p s c k v st dn H Hk P Hcd. apply reach_sinv in H.
  pose proof (rb_ge_cd _ _ _ H Hk) as Hrb. destruct H as [B C Rb].
  destruct (i_notlost _ _ _ _ _ (B c) _ _ _ _ P ltac:(lia)) as [W|(Pe & _ & Hc)]; [exact W|].
  exfalso. destruct (rp s) as [|c' ph]; cbn in Pe; [discriminate|]. destruct C as [C1 _]. lia.
Qed.

Lemma sorted_idx_inj : forall l (a1 a2 k : nat) (v1 v2 : val),
  StronglySorted gt (map (fun x : nat * nat * val => snd (fst x)) l) ->
  In (a1, k, v1) l -> In (a2, k, v2) l -> a1 = a2 /\ v1 = v2.
Proof.
  induction l as [|[[a0 k0] v0] l IH]; intros a1 a2 k v1 v2 S H1 H2; [destruct H1|].
  cbn in S. inversion S as [|? ? S' F]; subst. rewrite Forall_forall in F.
  assert (G : forall a v, In (a, k0, v) l -> False).
  { intros a v Hin. specialize (F k0). cbn in F.
    assert (k0 > k0); [|lia]. apply F. apply in_map_iff. exists (a, k0, v). auto. }
  destruct H1 as [E1|H1], H2 as [E2|H2].
  - inversion E1; inversion E2; subst. auto.
  - inversion E1; subst. destruct (G _ _ H2).
  - inversion E2; subst. destruct (G _ _ H1).
  - eapply IH; eauto.
Qed.

Lemma applied_once : forall K p s c a1 a2 k v1 v2, reach K p s ->
  In (a1, k, v1) (applied (rets (bufs s c))) -> In (a2, k, v2) (applied (rets (bufs s c))) -> a1 = a2 /\ v1 = v2.
Proof.
  intros K p s c a1 a2 k v1 v2 H. pose proof (applied_sorted _ _ _ c H) as S.
  apply sorted_idx_inj. exact S.
Qed.

(** the latest publication, once a callback that started after it is complete, has been
    applied (nothing is lost when the writer goes quiet) *)
Lemma last_delivered : forall K p s c v st dn, reach K p s -> c < kx K ->
  pub_at (bufs s c) (npub (bufs s c)) = Some (v, st, dn) -> st + 1 <= cd s ->
  exists a, In (a, npub (bufs s c), v) (applied (rets (bufs s c))) /\ dn + 1 <= a <= st + 1.
Proof.
  intros K p s c v st dn H Hk P Hcd.
  destruct (not_lost _ _ _ _ _ _ _ _ H Hk P Hcd) as (a & k' & v' & Hin & Hle & Ha).
  destruct (applied_bounds _ _ _ _ _ _ _ H Hin) as (st' & dn' & P' & B1 & _).
  pose proof (pub_at_l_bound _ _ _ P') as Bk. fold (npub (bufs s c)) in Bk.
  assert (k' = npub (bufs s c)) by lia. subst k'. rewrite P in P'. inversion P'; subst.
  exists a. split; [exact Hin|lia].
Qed.

(** ** kira level *)
(** a command published between two callbacks and not followed by another of its kind
    before the next drain is complete is applied in exactly that next callback *)
Lemma last_between_applied_next : forall K p s c k v j, reach K p s -> c < kx K ->
  pub_at (bufs s c) k = Some (v, j, j) ->
  (forall k' v' st' dn', k < k' -> pub_at (bufs s c) k' = Some (v', st', dn') -> j + 1 <= dn') ->
  j + 1 <= cd s ->
  In (j + 1, k, v) (applied (rets (bufs s c))).
Proof.
  intros K p s c k v j H Hk P Hlater Hcd.
  destruct (not_lost _ _ _ _ _ _ _ _ H Hk P Hcd) as (a & k' & v' & Hin & Hle & Ha).
  destruct (applied_bounds _ _ _ _ _ _ _ H Hin) as (st' & dn' & P' & B1 & _).
  destruct (Nat.eq_dec k' k) as [->|Hn].
  - rewrite P in P'. injection P' as E1 E2 E3. subst v' st' dn'. replace (j + 1) with a by lia. exact Hin.
  - specialize (Hlater k' v' st' dn' ltac:(lia) P'). lia.
Qed.

(** a command followed by another of the same kind before any callback started in between
    is never applied *)
Lemma superseded_never_applied : forall K p s c k k' v v' st dn st' dn' a, reach K p s ->
  pub_at (bufs s c) k = Some (v, st, dn) -> pub_at (bufs s c) k' = Some (v', st', dn') ->
  k < k' -> st' <= dn -> ~ In (a, k, v) (applied (rets (bufs s c))).
Proof.
  intros K p s c k k' v v' st dn st' dn' a H P P' Hlt Hs Hin.
  destruct (applied_bounds _ _ _ _ _ _ _ H Hin) as (st0 & dn0 & P0 & B1 & _ & M).
  rewrite P in P0. inversion P0; subst. specialize (M _ _ _ _ Hlt P'). lia.
Qed.

(** a command published while callback [j+1] is draining and not followed by another of its
    kind before the drain of callback [j+2] is complete is applied in callback [j+1] or [j+2] *)
Lemma racing_applied_once : forall K p s c k v j, reach K p s -> c < kx K ->
  pub_at (bufs s c) k = Some (v, j + 1, j) ->
  (forall k' v' st' dn', k < k' -> pub_at (bufs s c) k' = Some (v', st', dn') -> j + 2 <= dn') ->
  j + 2 <= cd s ->
  In (j + 1, k, v) (applied (rets (bufs s c))) \/ In (j + 2, k, v) (applied (rets (bufs s c))).
Proof.
  intros K p s c k v j H Hk P Hlater Hcd.
  destruct (not_lost _ _ _ _ _ _ _ _ H Hk P ltac:(lia)) as (a & k' & v' & Hin & Hle & Ha).
  destruct (applied_bounds _ _ _ _ _ _ _ H Hin) as (st' & dn' & P' & B1 & _).
  destruct (Nat.eq_dec k' k) as [->|Hn].
  - rewrite P in P'. injection P' as E1 E2 E3. subst v' st' dn'.
    assert (a = j + 1 \/ a = j + 2) as [->| ->] by lia; auto.
  - specialize (Hlater k' v' st' dn' ltac:(lia) P'). lia.
Qed.

(** commands of different kinds (and of different resources: more kinds) do not interfere:
    a step touches the buffer of at most the one kind it is about *)
Definition wkind (s : sys) : option nat :=
  match wp s with
  | WIdle => match prog s with [] => None | (c, _) :: _ => Some c end
  | WHalf c _ | WFull c _ => Some c
  end.
Definition rkind (s : sys) : option nat := match rp s with RBetween => None | RDrain c _ => Some c end.

Lemma step_frame : forall K t s c,
  (match t with W => wkind s | R => rkind s end) <> Some c -> bufs (step K t s) c = bufs s c.
Proof.
  intros K [] s c Hk; cbn [step]; unfold wkind, rkind in Hk.
  - unfold wstep. destruct (wp s) as [|c' v|c' v].
    + destruct (prog s) as [|[c' v] q]; [reflexivity|]. cbn. apply upd_neq. congruence.
    + cbn. apply upd_neq. congruence.
    + cbn. apply upd_neq. congruence.
  - unfold rstep, advance. destruct (rp s) as [|c' [| | |d a]].
    + reflexivity.
    + destruct (dirty (bufs s c')); [reflexivity|]. destruct (S c' <? K); cbn; apply upd_neq; congruence.
    + cbn. apply upd_neq; congruence.
    + destruct (r_copy1 (bufs s c')); reflexivity.
    + destruct (S c' <? K); cbn; apply upd_neq; congruence.
Qed.


(** ** progress: the audio thread, whenever it is scheduled, completes its callback within
    [4 * max 1 K] of its own steps *)
Definition phase_no (ph : rph) : nat := match ph with RStart => 0 | RSaw => 1 | RSwapped => 2 | RHalf _ _ => 3 end.
Definition rmeasure (K : nat) (s : sys) : nat :=
  match rp s with RBetween => 0 | RDrain c ph => 4 * (kx K - c) - phase_no ph end.

Lemma advance_cases : forall K c bf s,
  (S c < K /\ rp (advance K c bf s) = RDrain (S c) RStart /\ cd (advance K c bf s) = cd s) \/
  (rp (advance K c bf s) = RBetween /\ cd (advance K c bf s) = S (cd s)).
Proof.
  intros K c bf s. unfold advance. destruct (S c <? K) eqn:E; cbn.
  - left. apply Nat.ltb_lt in E. auto.
  - right. auto.
Qed.

Lemma rstep_progress : forall K s c ph, rp s = RDrain c ph -> c < kx K ->
  (rp (rstep K s) = RBetween /\ cd (rstep K s) = S (cd s)) \/
  (exists c' ph', rp (rstep K s) = RDrain c' ph' /\ c' < kx K /\
                  rmeasure K (rstep K s) < rmeasure K s /\ cd (rstep K s) = cd s).
Proof.
  intros K s c ph Er Hk.
  assert (Adv : forall bf,
     (rp (advance K c bf s) = RBetween /\ cd (advance K c bf s) = S (cd s)) \/
     (exists c' ph', rp (advance K c bf s) = RDrain c' ph' /\ c' < kx K /\
                     rmeasure K (advance K c bf s) < 4 * (kx K - c) - 3 /\ cd (advance K c bf s) = cd s)).
  { intros bf. destruct (advance_cases K c bf s) as [(L & E1 & E2)|[E1 E2]]; [right|left; auto].
    exists (S c), RStart. unfold rmeasure. rewrite E1. cbn [phase_no]. unfold kx in *. repeat split; auto; lia. }
  unfold rmeasure at 2. rewrite Er. unfold rstep. rewrite Er.
  destruct ph as [| | |d a]; cbn [phase_no].
  - destruct (dirty (bufs s c)).
    + right. exists c, RSaw. unfold rmeasure. cbn [rp cd phase_no]. repeat split; auto. lia.
    + destruct (Adv (upd (bufs s) c (r_none (cs s) (bufs s c)))) as [L|(c' & ph' & E1 & E2 & E3 & E4)]; [left; exact L|].
      right. exists c', ph'. repeat split; auto; lia.
  - right. exists c, RSwapped. unfold rmeasure. cbn [rp cd phase_no]. repeat split; auto. lia.
  - destruct (r_copy1 (bufs s c)) as [d a]. right. exists c, (RHalf d a). unfold rmeasure. cbn [rp cd phase_no]. repeat split; auto. lia.
  - destruct (Adv (upd (bufs s) c (r_return (cs s) d a (r_copy2 (bufs s c)) (bufs s c)))) as [L|(c' & ph' & E1 & E2 & E3 & E4)]; [left; exact L|].
    right. exists c', ph'. repeat split; auto; lia.
Qed.

Lemma drain_completes : forall K n s c ph, rp s = RDrain c ph -> c < kx K -> rmeasure K s <= n ->
  exists m, m <= n /\ rp (run K (repeat R m) s) = RBetween /\ cd (run K (repeat R m) s) = S (cd s).
Proof.
  intros K n. induction n as [|n IH]; intros s c ph Er Hk Hm.
  - exfalso. unfold rmeasure in Hm. rewrite Er in Hm. destruct ph; cbn [phase_no] in Hm; lia.
  - destruct (rstep_progress K s c ph Er Hk) as [[E1 E2]|(c' & ph' & E1 & E2 & E3 & E4)].
    + exists 1. cbn. repeat split; auto. lia.
    + destruct (IH (rstep K s) c' ph' E1 E2 ltac:(lia)) as (m & Hle & F1 & F2).
      exists (S m). cbn [repeat run fold_left step]. fold (run K (repeat R m) (rstep K s)).
      repeat split; auto; [lia|congruence].
Qed.

(** from between two callbacks: one whole callback takes at most [1 + 4 * max 1 K] steps of the
    audio thread, whatever the other thread does meanwhile is covered by the all-schedules
    theorems; here the audio thread runs alone (the gameplay thread is quiet) *)
Lemma callback_completes : forall K s, rp s = RBetween ->
  exists m, m <= 1 + 4 * kx K /\ rp (run K (repeat R m) s) = RBetween /\
            cd (run K (repeat R m) s) = S (cd s) /\ cs (run K (repeat R 1) s) = S (cs s).
Proof.
  intros K s Er.
  assert (E1 : rp (rstep K s) = RDrain 0 RStart) by (unfold rstep; rewrite Er; reflexivity).
  assert (E2 : cd (rstep K s) = cd s) by (unfold rstep; rewrite Er; reflexivity).
  destruct (drain_completes K (4 * kx K) (rstep K s) 0 RStart E1) as (m & Hle & F1 & F2).
  - unfold kx; lia.
  - unfold rmeasure. rewrite E1. cbn [phase_no]. lia.
  - exists (S m). cbn [repeat run fold_left step]. fold (run K (repeat R m) (rstep K s)).
    repeat split; auto; [lia|congruence|]. unfold rstep. rewrite Er. reflexivity.
Qed.

(** after the gameplay thread has gone quiet between two callbacks, ONE more callback delivers
    the last command of every kind that had been issued (unless it had been applied already,
    in which case it is not applied again — [applied_once]) *)
Lemma quiescent_one_more_callback : forall K p s, reach K p s -> rp s = RBetween ->
  exists m, m <= 1 + 4 * kx K /\
    let s' := run K (repeat R m) s in
    rp s' = RBetween /\ cd s' = S (cd s) /\
    forall c v st dn, c < kx K -> pub_at (bufs s c) (npub (bufs s c)) = Some (v, st, dn) ->
      pubs (bufs s' c) = pubs (bufs s c) /\
      exists a, In (a, npub (bufs s c), v) (applied (rets (bufs s' c))) /\ a <= S (cs s).
Proof.
  intros K p s H Er. destruct (callback_completes K s Er) as (m & Hle & F1 & F2 & F3).
  exists m. split; [exact Hle|]. cbn zeta. split; [exact F1|]. split; [exact F2|].
  intros c v st dn Hk P.
  assert (Hp : forall n s0, pubs (bufs (run K (repeat R n) s0) c) = pubs (bufs s0 c)).
  { induction n as [|n IH]; intros s0; [reflexivity|]. cbn [repeat run fold_left step].
    fold (run K (repeat R n) (rstep K s0)). rewrite IH. apply rstep_frame. }
  split; [apply Hp|].
  assert (H' : reach K p (run K (repeat R m) s)).
  { destruct H as [sched ->]. exists (sched ++ repeat R m). unfold run. rewrite fold_left_app. reflexivity. }
  pose proof (reach_sinv _ _ _ H) as I.
  assert (Hst : st <= cs s) by (destruct I as [B _ _]; destruct (i_stamps _ _ _ _ _ (B c) _ _ _ _ P) as (_ & ? & _); exact H0).
  assert (Hcs : cs s = cd s) by (destruct I as [_ C _]; rewrite Er in C; exact C).
  assert (P' : pub_at (bufs (run K (repeat R m) s) c) (npub (bufs (run K (repeat R m) s) c)) = Some (v, st, dn)).
  { unfold pub_at, npub in *. rewrite Hp. exact P. }
  destruct (last_delivered _ _ _ _ _ _ _ H' Hk P' ltac:(lia)) as (a & Hin & Ha).
  exists a. unfold npub in *. rewrite Hp in Hin. split; [exact Hin|lia].
Qed.
