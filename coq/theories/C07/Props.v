(** C07 — property theorems.  This file contains nothing but statements closed by [exact].

    Reading guide.  [run K sched (init p)] is the state reached by ANY schedule [sched] (a list
    of thread ids, each element one atomic step of that thread) from the initial state in
    which the gameplay thread is going to issue the commands [p] (pairs kind, value) on a
    resource with [K] command kinds (several resources: more kinds) and the audio thread runs
    callbacks, each draining kinds [0 .. K-1] in this order.  For the buffer [b] of one kind:
    [pub_at b k = Some (v, st, dn)]: the [k]-th command of this kind that was published is [v];
    when its publishing swap happened, [st] callbacks had started and [dn] had completed their
    drain ([st = dn = j]: issued between callback [j] and [j+1]; [st = j+1, dn = j]: racing with
    the drain of callback [j+1]).  [In (a, k, v) (applied (rets b))]: a [read] of this kind
    returned [Some v], taken from the slot holding publication [k], during callback [a]. *)
From Coq Require Import ZArith List Arith Sorted.
From KV Require Import Base.Outcome Base.Num C06.Model C03.Model C04.Transport.
From KV Require Import C07.Model C07.ProofsBuf C07.ProofsSys C07.ProofsThm C07.ProofsFinal C07.Multi C07.ProofsMulti C07.ProofsChunk.
Import ListNotations.

(** The writer's input slot, the back slot and the reader's output slot are always three
    different slots: the audio thread never reads a slot the gameplay thread may write. *)
Theorem tb_ownership : forall K p sched c,
  let b := bufs (run K sched (init p)) c in
  w_in b <> back b /\ back b <> r_out b /\ w_in b <> r_out b.
Proof. exact f_tb_ownership. Qed.

(** No tearing: every value a read returned is one whole published value; while the reader is
    half-way through its copy the slot it copies from holds one whole published value and the
    half already copied belongs to it; and the published values are exactly the commands the
    gameplay thread issued, in order (nothing invented, nothing dropped before publication). *)
Theorem no_tear : forall K p sched c,
  let s := run K sched (init p) in
  let b := bufs s c in
  (forall a k v, In (a, k, v) (applied (rets b)) -> exists st dn, pub_at b k = Some (v, st, dn)) /\
  (forall d a, rp s = RDrain c (RHalf d a) ->
     exists v st dn, pub_at b (taken b) = Some (v, st, dn) /\
                     tget (mem b) (r_out b) = cell_of v /\ d = true /\ a = fst v) /\
  pub_vals b ++ inflight c (wp s) ++ cmds_of c (prog s) = cmds_of c p.
Proof. exact f_no_tear. Qed.

(** Exactly once, in order, last write wins, none lost: the publication numbers of the values
    returned by successive reads are strictly increasing (newest first: strictly decreasing);
    no publication is returned twice; once a callback that started after publication [k] is
    complete, [k] or a newer command has been returned, no later than in that callback; in
    particular the newest publication has then been returned. *)
Theorem tb_exactly_once_last_wins : forall K p sched c, c < kx K ->
  let s := run K sched (init p) in
  let b := bufs s c in
  StronglySorted gt (applied_idx (rets b)) /\
  (forall a1 a2 k v1 v2, In (a1, k, v1) (applied (rets b)) -> In (a2, k, v2) (applied (rets b)) ->
                         a1 = a2 /\ v1 = v2) /\
  (forall k v st dn, pub_at b k = Some (v, st, dn) -> st + 1 <= cd s ->
     exists a k' v', In (a, k', v') (applied (rets b)) /\ k <= k' /\ a <= st + 1) /\
  (forall v st dn, pub_at b (npub b) = Some (v, st, dn) -> st + 1 <= cd s ->
     exists a, In (a, npub b, v) (applied (rets b)) /\ dn + 1 <= a <= st + 1).
Proof. exact f_exactly_once. Qed.

(** After the gameplay thread went quiet between two callbacks, one more callback (at most
    [1 + 4 * max 1 K] steps of the audio thread) delivers the last command of every kind. *)
Theorem tb_quiescent_delivery : forall K p sched,
  let s := run K sched (init p) in
  rp s = RBetween ->
  exists m, m <= 1 + 4 * kx K /\
    let s' := run K (repeat R m) s in
    rp s' = RBetween /\ cd s' = S (cd s) /\
    forall c v st dn, c < kx K -> pub_at (bufs s c) (npub (bufs s c)) = Some (v, st, dn) ->
      pubs (bufs s' c) = pubs (bufs s c) /\
      exists a, In (a, npub (bufs s c), v) (applied (rets (bufs s' c))) /\ a <= S (cs s).
Proof. exact f_quiescent. Qed.

(** kira level, for every kind of every resource and whatever is issued on the other kinds:
    (1) a command is applied only in a callback whose drain overlaps or follows its
        publication and precedes the end of the first callback that started after it
        ([dn + 1 <= a <= st + 1]: issued between [j] and [j+1] => applied in [j+1] or never;
        racing with drain [j+1] => in [j+1] or [j+2] or never), and nothing newer of its kind
        had been published when that callback began;
    (2) the last command of its kind issued between callbacks [j] and [j+1] is applied in
        callback [j+1];
    (3) a command followed by another of its kind before any callback started in between is
        never applied;
    (4) a command racing with the drain of callback [j+1] and not superseded is applied in
        callback [j+1] or [j+2];
    (5) no command is applied twice (so: never in both). *)
Theorem callback_semantics : forall K p sched c, c < kx K ->
  let s := run K sched (init p) in
  let b := bufs s c in
  (forall a k v, In (a, k, v) (applied (rets b)) ->
     exists st dn, pub_at b k = Some (v, st, dn) /\ dn + 1 <= a <= st + 1 /\ a <= cs s /\
       (forall k' v' st' dn', k < k' -> pub_at b k' = Some (v', st', dn') -> a <= st')) /\
  (forall k v j, pub_at b k = Some (v, j, j) ->
     (forall k' v' st' dn', k < k' -> pub_at b k' = Some (v', st', dn') -> j + 1 <= dn') ->
     j + 1 <= cd s -> In (j + 1, k, v) (applied (rets b))) /\
  (forall k k' v v' st dn st' dn' a, pub_at b k = Some (v, st, dn) -> pub_at b k' = Some (v', st', dn') ->
     k < k' -> st' <= dn -> ~ In (a, k, v) (applied (rets b))) /\
  (forall k v j, pub_at b k = Some (v, j + 1, j) ->
     (forall k' v' st' dn', k < k' -> pub_at b k' = Some (v', st', dn') -> j + 2 <= dn') ->
     j + 2 <= cd s -> In (j + 1, k, v) (applied (rets b)) \/ In (j + 2, k, v) (applied (rets b))) /\
  (forall a1 a2 k v1 v2, In (a1, k, v1) (applied (rets b)) -> In (a2, k, v2) (applied (rets b)) ->
                         a1 = a2 /\ v1 = v2).
Proof. exact f_callback_semantics. Qed.

(** The streaming sound's [set_loop_region], [seek_by], [seek_to] are read by the decoder thread,
    once per step of [DecodeScheduler::run], in this order: the same guarantees with the
    decoder's step in place of the audio callback ([K = 3]). *)
Theorem decoder_commands : forall p sched c, c < 3 ->
  let s := run 3 sched (init p) in
  let b := bufs s c in
  (forall a k v, In (a, k, v) (applied (rets b)) ->
     exists st dn, pub_at b k = Some (v, st, dn) /\ dn + 1 <= a <= st + 1 /\ a <= cs s /\
       (forall k' v' st' dn', k < k' -> pub_at b k' = Some (v', st', dn') -> a <= st')) /\
  (forall k v j, pub_at b k = Some (v, j, j) ->
     (forall k' v' st' dn', k < k' -> pub_at b k' = Some (v', st', dn') -> j + 1 <= dn') ->
     j + 1 <= cd s -> In (j + 1, k, v) (applied (rets b))) /\
  (forall k k' v v' st dn st' dn' a, pub_at b k = Some (v, st, dn) -> pub_at b k' = Some (v', st', dn') ->
     k < k' -> st' <= dn -> ~ In (a, k, v) (applied (rets b))) /\
  (forall k v j, pub_at b k = Some (v, j + 1, j) ->
     (forall k' v' st' dn', k < k' -> pub_at b k' = Some (v', st', dn') -> j + 2 <= dn') ->
     j + 2 <= cd s -> In (j + 1, k, v) (applied (rets b)) \/ In (j + 2, k, v) (applied (rets b))) /\
  (forall a1 a2 k v1 v2, In (a1, k, v1) (applied (rets b)) -> In (a2, k, v2) (applied (rets b)) ->
                         a1 = a2 /\ v1 = v2).
Proof. exact f_decoder_commands. Qed.

(** A command written before the resource's first callback (and not superseded before that
    callback's drain is complete) is applied in its first callback. *)
Theorem first_callback : forall K p sched c, c < kx K ->
  let s := run K sched (init p) in
  let b := bufs s c in
  forall k v, pub_at b k = Some (v, 0, 0) ->
    (forall k' v' st' dn', k < k' -> pub_at b k' = Some (v', st', dn') -> 1 <= dn') ->
    1 <= cd s -> In (1, k, v) (applied (rets b)).
Proof. exact f_first_callback. Qed.

(** Commands of different kinds, or to different resources, do not interfere: a step changes
    the buffer of no kind other than the one it is about. *)
Theorem kinds_independent : forall K t s c,
  (match t with W => wkind s | R => rkind s end) <> Some c -> bufs (step K t s) c = bufs s c.
Proof. exact step_frame. Qed.

(** The time stamps used above are what they are said to be. *)
Theorem stamps_meaning : forall K p sched c k v st dn,
  let s := run K sched (init p) in
  pub_at (bufs s c) k = Some (v, st, dn) -> dn <= st <= dn + 1 /\ st <= cs s /\ dn <= cd s.
Proof. exact f_stamps. Qed.

(** * The multi-kind layer ([Multi.v])

    Reading guide.  A resource has one triple-buffer slot per command kind, a state [St] and an
    effect [apply k v] of the command [v] of kind [k] on the state.  [m_exec apply order h
    (m_init s0)] is the resource after the history [h] (a list of [Issue k v]: the handle
    method of kind [k] is called with [v]; and [Callback]: one audio callback, whose
    [read_commands] reads the reader of every kind of [order] once, independently, in this
    order, and applies what it finds), whole calls, from the state [s0] with empty slots.
    [closed_intervals h]: the commands issued before callback 1, between callbacks 1 and 2, ...;
    [open_interval h]: those issued after the last callback.  [last_of k iv]: the value of the
    last command of kind [k] in the interval [iv].  [m_log]: every application (callback number,
    kind, value), newest first.  [slot_pending b]: what the next [read] of the slot returns.
    All statements hold for every history, every set of kinds, every effect function. *)

(** The whole calls of this layer are the protocol steps of the fine-grained system composed:
    [slot_write] is the three writer steps of a complete [write] issued between two callbacks,
    [slot_read] the reader's steps on one kind (one if the dirty bit is clear, four if it is set),
    after which the audio thread is at the next kind or done; no other buffer is touched. *)
Theorem multi_slot_calls_are_protocol_steps :
  (forall s c v p, wp s = WIdle -> prog s = (c, v) :: p ->
     bufs (do_write s) c = w_publish v (cs s) (cd s) (w_fill2 v (w_fill1 v (bufs s c))) /\
     (cs s = cd s -> bufs (do_write s) c = slot_write (cs s) v (bufs s c)) /\
     (forall c', c' <> c -> bufs (do_write s) c' = bufs s c')) /\
  (forall K s c, rp s = RDrain c RStart ->
     let s' := if dirty (bufs s c) then rstep K (rstep K (rstep K (rstep K s))) else rstep K s in
     bufs s' c = snd (slot_read (cs s) (bufs s c)) /\
     (forall c', c' <> c -> bufs s' c' = bufs s c') /\
     (rp s' = RBetween \/ rp s' = RDrain (S c) RStart)).
Proof. exact p_slot_calls. Qed.

(** The state after any history is obtained by folding, over the completed intervals, the
    composition IN THE CODE'S ORDER of the per-kind effects of the LAST command of each kind of
    the interval: nothing else ever touches the state, in particular nothing issued in an
    earlier interval and nothing that was superseded. *)
Theorem multi_state_is_composition : forall (St : Type) (apply : nat -> val -> St -> St) order s0 h, NoDup order ->
  m_state (m_exec apply order h (m_init s0)) = spec_state apply order h s0.
Proof. exact p_multi_state. Qed.

(** The applications, in order, are exactly: for callback 1, 2, ... and for each kind in the
    code's order, the last command of that kind issued in the interval that the callback ends,
    if there is one. *)
Theorem multi_applied_exactly : forall (St : Type) (apply : nat -> val -> St -> St) order s0 h, NoDup order ->
  rev (m_log (m_exec apply order h (m_init s0))) = spec_log order h /\
  m_ncb (m_exec apply order h (m_init s0)) = length (closed_intervals h).
Proof. exact p_multi_log. Qed.

(** None late, none lost: [v] of kind [k] is applied in callback [a] if and only if it is the last
    command of kind [k] issued in the interval right before callback [a] (so a command issued
    between callbacks [j] and [j+1] is applied in callback [j+1] or never, never in [j+2] or later;
    and the last one of its kind IS applied in [j+1], including those issued before callback 1). *)
Theorem multi_applied_iff_last_of_interval : forall (St : Type) (apply : nat -> val -> St -> St) order s0 h a k v, NoDup order ->
  (In (a, k, v) (m_log (m_exec apply order h (m_init s0))) <->
   exists iv, 1 <= a /\ nth_error (closed_intervals h) (a - 1) = Some iv /\ In k order /\ last_of k iv = Some v).
Proof. exact p_multi_applied_iff. Qed.

(** None twice: a callback applies at most one command of each kind. *)
Theorem multi_applied_once : forall (St : Type) (apply : nat -> val -> St -> St) order s0 h, NoDup order ->
  NoDup (map fst (m_log (m_exec apply order h (m_init s0)))).
Proof. exact p_multi_once. Qed.

(** At any time the reader of every kind holds exactly the last command of its kind issued since
    the last callback; right after a callback every reader is empty: nothing issued before a
    callback survives it. *)
Theorem multi_readers_drained : forall (St : Type) (apply : nat -> val -> St -> St) order s0 h k, NoDup order -> In k order ->
  slot_pending (m_slots (m_exec apply order h (m_init s0)) k) = last_of k (open_interval h) /\
  slot_pending (m_slots (m_exec apply order (h ++ [Callback]) (m_init s0)) k) = None.
Proof. exact p_multi_readers. Qed.

(** Kinds do not interfere: what is applied for kind [k], and when, and what its reader holds, is
    what a resource with the single kind [k] does on the history from which the commands of all
    other kinds are erased (whatever the states and effects). *)
Theorem multi_kind_behaves_as_if_alone : forall (St : Type) (apply : nat -> val -> St -> St) order s0 s0' h k, NoDup order -> In k order ->
  filter (of_kind k) (rev (m_log (m_exec apply order h (m_init s0)))) =
    rev (m_log (m_exec apply [k] (proj_kind k h) (m_init s0'))) /\
  slot_pending (m_slots (m_exec apply order h (m_init s0)) k) =
    slot_pending (m_slots (m_exec apply [k] (proj_kind k h) (m_init s0')) k).
Proof. exact p_multi_alone. Qed.

(** Callbacks that follow a callback with no command in between change neither the state nor the
    log, and find every reader empty. *)
Theorem multi_quiet_callbacks_change_nothing : forall (St : Type) (apply : nat -> val -> St -> St) order s0 h n, NoDup order ->
  let r1 := m_exec apply order (h ++ [Callback]) (m_init s0) in
  let rn := m_exec apply order (h ++ Callback :: repeat Callback n) (m_init s0) in
  m_state rn = m_state r1 /\ m_log rn = m_log r1 /\
  forall k, In k order -> slot_pending (m_slots rn k) = None.
Proof. exact p_multi_quiet. Qed.

(** The playback-state kinds of a sound (0 pause, 1 resume / resume_at, 2 stop: their order in
    [read_commands]) on C03's [PlaybackStateManager], for every content of one interval, i.e. each
    of the 2^3 subsets of kinds in any order and multiplicity: a stopped sound ignores them all;
    otherwise stop wins, else resume (Resuming, or WaitingToResume with the start time and tween
    of the LAST resume), else pause, else the state is unchanged. *)
Theorem playback_commands_table : forall (T : Type) (NT : Num T) (V : Type) (silence identity : V)
    (tw_of : val -> tween T) (st_of : val -> stime T) (m : psm T V) iv,
  let after := interval_effect (pb_apply V silence identity tw_of st_of) [0; 1; 2] iv m in
  (is_stopped (ps m) = true -> after = m) /\
  (is_stopped (ps m) = false ->
   ps after =
   match last_of 2 iv with
   | Some _ => Stopping
   | None =>
       match last_of 1 iv with
       | Some v => match st_of v with Immediate => Resuming | st => WaitingToResume st (tw_of v) end
       | None => match last_of 0 iv with Some _ => Pausing | None => ps m end
       end
   end).
Proof. exact p_pb_table. Qed.

(** ** The readings that are not the code violate the above (witnesses replayed by the harness)

    [elseif_run]: a static sound whose [read_commands] reads stop / resume / pause as a chain
    [if .. else if .. else if ..]: a command is applied a callback late, a reader is not empty after
    a callback, the state differs from the composition, and what happens to kind pause depends on
    the commands of kind resume. *)
Theorem else_if_chain_applies_late_refuted : exists h a k v,
  In (a, k, v) (m_log (elseif_run h)) /\
  ~ (exists iv, 1 <= a /\ nth_error (closed_intervals h) (a - 1) = Some iv /\ In k static_order /\ last_of k iv = Some v).
Proof. exact f_elseif_late. Qed.
Theorem else_if_chain_reader_not_drained_refuted : exists h k, In k static_order /\
  slot_pending (m_slots (elseif_run (h ++ [Callback])) k) <> None.
Proof. exact f_elseif_reader_not_empty. Qed.
Theorem else_if_chain_state_refuted : exists h,
  state_code (ps (sn_psm (m_state (elseif_run h)))) <> state_code (ps (sn_psm (spec_state snd_apply static_order h (snd_init 0)))).
Proof. exact f_elseif_state. Qed.
Theorem else_if_chain_kinds_interfere_refuted : exists h k,
  filter (of_kind k) (rev (m_log (elseif_run h))) <>
  rev (m_log (m_exec snd_apply [k] (proj_kind k h) (m_init (snd_init 0)))).
Proof. exact f_elseif_interferes. Qed.

(** [ts_guarded_p]: a paused sub-track that drains the readers of its sound only while the track
    is advancing: the last command of its kind of an interval is never applied in the callback
    that ends the interval, and the reader is not empty after a callback. *)
Theorem guarded_nested_drain_loses_commands_refuted : exists h j iv k v,
  nth_error (closed_intervals h) j = Some iv /\ In k ts_order /\ last_of k iv = Some v /\
  ~ In (S j, k, v) (m_log (ts_guarded_p h)).
Proof. exact f_guarded_lost. Qed.
Theorem guarded_nested_drain_reader_not_drained_refuted : exists h k, In k ts_order /\
  slot_pending (m_slots (ts_guarded_p (h ++ [Callback])) k) <> None.
Proof. exact f_guarded_reader_not_empty. Qed.

(** ** The decoder-side kinds of a streaming sound ([DecodeScheduler::run]: kinds 0 set_loop_region,
    1 seek_by, 2 seek_to, read in this order at every step that finds room in the ring; effects on
    C04's [Transport]; [region_of], [by_idx], [to_idx]: what the command values stand for)

    After any history the decoder's transport is obtained by folding over the steps: the LAST
    set_loop_region of the step replaces the region, then the LAST seek_by, then the LAST seek_to
    are applied to the result ([Transport::seek_to] wraps into the region then in force, i.e. the
    new one).  All the theorems of the multi-kind layer hold for these kinds as for any others. *)
Theorem decoder_step_is_region_then_seek_by_then_seek_to : forall fuel nf region_of by_idx to_idx t0 h,
  m_state (m_exec (dec_apply fuel nf region_of by_idx to_idx) dec_order h (m_init (Ok t0))) =
  fold_left (fun s iv => dec_step_effect fuel nf region_of by_idx to_idx iv s) (closed_intervals h) (Ok t0).
Proof. exact p_dec_history. Qed.

(** [set_loop_region r] and [seek_to p] picked up at the same step (no seek_by), whatever the order
    in which they were issued, for every [r], [p] and transport: the position is [p] wrapped into
    the NEW region [r]; if [r] is no region, the position is exactly [p]. *)
Theorem decoder_new_region_then_seek_to : forall fuel nf region_of by_idx to_idx t iv vr vp,
  last_of 0 iv = Some vr -> last_of 1 iv = None -> last_of 2 iv = Some vp ->
  interval_effect (dec_apply fuel nf region_of by_idx to_idx) dec_order iv (Ok t) =
  (let! p := match filter_region (region_of vr) with
             | Some (ls, le) =>
                 if (to_idx vp >? t_pos t)%Z then wrap_down fuel (to_idx vp) ls le
                 else wrap_up_lt fuel (to_idx vp) ls le
             | None => Ok (to_idx vp)
             end in
   Ok {| t_pos := p; t_loop := filter_region (region_of vr);
         t_playing := if (p >=? nf)%Z then false else t_playing t |}) /\
  (filter_region (region_of vr) = None ->
   interval_effect (dec_apply fuel nf region_of by_idx to_idx) dec_order iv (Ok t) =
   Ok {| t_pos := to_idx vp; t_loop := None; t_playing := if (to_idx vp >=? nf)%Z then false else t_playing t |}).
Proof. exact p_dec_region_then_seek. Qed.

(** Reading the seeks before the loop region violates it: loop 0..2, [set_loop_region(None);
    seek_to(5)] at the same step lands at 1 (5 wrapped into the region just removed). *)
Theorem decoder_seeks_before_loop_region_refuted : exists t iv vr vp,
  last_of 0 iv = Some vr /\ last_of 1 iv = None /\ last_of 2 iv = Some vp /\
  filter_region (Some vr) = None /\
  interval_effect (decz_apply 200) dec_order_seeks_first iv (Ok t) <>
  Ok {| t_pos := fst vp; t_loop := None; t_playing := if (fst vp >=? 200)%Z then false else t_playing t |}.
Proof. exact f_dec_seeded_refuted. Qed.

(** ** Commands written WHILE a callback is being rendered ([ProofsChunk.v])

    A device callback is [CStart] (the drain: [on_start_processing]) followed by any number of
    [CChunk] (the rendering of one internal buffer); the game thread's [CIssue k v] may fall
    anywhere, in particular between two chunks of a callback.  [c_exec] is the code (rendering a
    chunk reads no command); [erase_chunks h] is the history of [Multi.v] with the chunks erased.
    Wherever the chunk boundaries and the writes fall: [v] of kind [k] is applied in callback [a]
    if and only if it is the last command of its kind written since callback [a - 1] STARTED
    (its drain) and before callback [a] starts -- so a command written while callback [a - 1] is
    being rendered is never applied inside it, and of several written during its chunks only the
    last is applied, at the start of callback [a], once. *)
Theorem chunked_applied_iff_last_of_interval : forall (St : Type) (apply : nat -> val -> St -> St) order s0 h a k v, NoDup order ->
  (In (a, k, v) (m_log (c_exec apply order h (m_init s0))) <->
   exists iv, 1 <= a /\ nth_error (closed_intervals (erase_chunks h)) (a - 1) = Some iv /\ In k order /\ last_of k iv = Some v).
Proof. exact p_chunked_applied_iff. Qed.
Theorem chunked_applied_once : forall (St : Type) (apply : nat -> val -> St -> St) order s0 h, NoDup order ->
  NoDup (map fst (m_log (c_exec apply order h (m_init s0)))).
Proof. exact p_chunked_once. Qed.
(** Rendering a chunk changes neither the state, nor the log, nor any reader. *)
Theorem chunk_rendering_reads_no_command : forall (St : Type) (apply : nat -> val -> St -> St) order h s0,
  c_exec apply order (h ++ [CChunk]) (m_init s0) = c_exec apply order h (m_init s0).
Proof. exact p_chunk_changes_nothing. Qed.

(** The reading that is not the code -- the reader of a send route's volume is read at the top of
    [Track::process], once per chunk, instead of in [read_commands] -- violates both (witnesses
    replayed by the harness, part (m)): a [set_send] written while chunk 0 of callback 1 is rendered
    is applied inside callback 1; a close and a re-open written during two chunks of callback 1 are
    both applied in callback 1. *)
Theorem per_chunk_drain_applies_early_refuted : exists h a k v,
  In (a, k, v) (m_log (route_perchunk h)) /\
  ~ (exists iv, 1 <= a /\ nth_error (closed_intervals (erase_chunks h)) (a - 1) = Some iv /\ In k route_order /\ last_of k iv = Some v).
Proof. exact f_perchunk_early. Qed.
Theorem per_chunk_drain_applies_twice_refuted : exists h,
  ~ NoDup (map fst (m_log (route_perchunk h))).
Proof. exact f_perchunk_twice. Qed.
