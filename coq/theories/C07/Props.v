(** C07 — property theorems.  This file contains nothing but statements closed by [exact].

    Reading guide.  [run K sched (init p)] is the state reached by ANY schedule [sched] (a list
    of thread ids, each element one atomic step of that thread) from the initial state in
    which the gameplay thread is going to issue the commands [p] (pairs kind, value) on a
    resource with [K] command kinds (several resources: more kinds) and the audio thread runs
    callbacks, each draining kinds [0 .. K-1] in this order.  For the buffer [b] of one kind:
    [pub_at b k = Some (v, st, dn)]: the [k]-th command of this kind that was published is [v];
    when its publishing swap happened, [st] callbacks had started and [dn] had completed their
    drain ([st = dn = j]: issued between callback [j] and [j+1]; [st = j+1, dn = j]: racing with
    the drain of callback [j+1]).  [In (a, k, v) (applied (rets b))]: a [read] of this kind
    returned [Some v], taken from the slot holding publication [k], during callback [a]. *)
From Coq Require Import ZArith List Arith Sorted.
From KV Require Import C07.Model C07.ProofsBuf C07.ProofsSys C07.ProofsThm C07.ProofsFinal.
Import ListNotations.

(** The writer's input slot, the back slot and the reader's output slot are always three
    different slots: the audio thread never reads a slot the gameplay thread may write. *)
Theorem tb_ownership : forall K p sched c,
  let b := bufs (run K sched (init p)) c in
  w_in b <> back b /\ back b <> r_out b /\ w_in b <> r_out b.
Proof. exact f_tb_ownership. Qed.

(** No tearing: every value a read returned is one whole published value; while the reader is
    half-way through its copy the slot it copies from holds one whole published value and the
    half already copied belongs to it; and the published values are exactly the commands the
    gameplay thread issued, in order (nothing invented, nothing dropped before publication). *)
Theorem no_tear : forall K p sched c,
  let s := run K sched (init p) in
  let b := bufs s c in
  (forall a k v, In (a, k, v) (applied (rets b)) -> exists st dn, pub_at b k = Some (v, st, dn)) /\
  (forall d a, rp s = RDrain c (RHalf d a) ->
     exists v st dn, pub_at b (taken b) = Some (v, st, dn) /\
                     tget (mem b) (r_out b) = cell_of v /\ d = true /\ a = fst v) /\
  pub_vals b ++ inflight c (wp s) ++ cmds_of c (prog s) = cmds_of c p.
Proof. exact f_no_tear. Qed.

(** Exactly once, in order, last write wins, none lost: the publication numbers of the values
    returned by successive reads are strictly increasing (newest first: strictly decreasing);
    no publication is returned twice; once a callback that started after publication [k] is
    complete, [k] or a newer command has been returned, no later than in that callback; in
    particular the newest publication has then been returned. *)
Theorem tb_exactly_once_last_wins : forall K p sched c, c < kx K ->
  let s := run K sched (init p) in
  let b := bufs s c in
  StronglySorted gt (applied_idx (rets b)) /\
  (forall a1 a2 k v1 v2, In (a1, k, v1) (applied (rets b)) -> In (a2, k, v2) (applied (rets b)) ->
                         a1 = a2 /\ v1 = v2) /\
  (forall k v st dn, pub_at b k = Some (v, st, dn) -> st + 1 <= cd s ->
     exists a k' v', In (a, k', v') (applied (rets b)) /\ k <= k' /\ a <= st + 1) /\
  (forall v st dn, pub_at b (npub b) = Some (v, st, dn) -> st + 1 <= cd s ->
     exists a, In (a, npub b, v) (applied (rets b)) /\ dn + 1 <= a <= st + 1).
Proof. exact f_exactly_once. Qed.

(** After the gameplay thread went quiet between two callbacks, one more callback (at most
    [1 + 4 * max 1 K] steps of the audio thread) delivers the last command of every kind. *)
Theorem tb_quiescent_delivery : forall K p sched,
  let s := run K sched (init p) in
  rp s = RBetween ->
  exists m, m <= 1 + 4 * kx K /\
    let s' := run K (repeat R m) s in
    rp s' = RBetween /\ cd s' = S (cd s) /\
    forall c v st dn, c < kx K -> pub_at (bufs s c) (npub (bufs s c)) = Some (v, st, dn) ->
      pubs (bufs s' c) = pubs (bufs s c) /\
      exists a, In (a, npub (bufs s c), v) (applied (rets (bufs s' c))) /\ a <= S (cs s).
Proof. exact f_quiescent. Qed.

(** kira level, for every kind of every resource and whatever is issued on the other kinds:
    (1) a command is applied only in a callback whose drain overlaps or follows its
        publication and precedes the end of the first callback that started after it
        ([dn + 1 <= a <= st + 1]: issued between [j] and [j+1] => applied in [j+1] or never;
        racing with drain [j+1] => in [j+1] or [j+2] or never), and nothing newer of its kind
        had been published when that callback began;
    (2) the last command of its kind issued between callbacks [j] and [j+1] is applied in
        callback [j+1];
    (3) a command followed by another of its kind before any callback started in between is
        never applied;
    (4) a command racing with the drain of callback [j+1] and not superseded is applied in
        callback [j+1] or [j+2];
    (5) no command is applied twice (so: never in both). *)
Theorem callback_semantics : forall K p sched c, c < kx K ->
  let s := run K sched (init p) in
  let b := bufs s c in
  (forall a k v, In (a, k, v) (applied (rets b)) ->
     exists st dn, pub_at b k = Some (v, st, dn) /\ dn + 1 <= a <= st + 1 /\ a <= cs s /\
       (forall k' v' st' dn', k < k' -> pub_at b k' = Some (v', st', dn') -> a <= st')) /\
  (forall k v j, pub_at b k = Some (v, j, j) ->
     (forall k' v' st' dn', k < k' -> pub_at b k' = Some (v', st', dn') -> j + 1 <= dn') ->
     j + 1 <= cd s -> In (j + 1, k, v) (applied (rets b))) /\
  (forall k k' v v' st dn st' dn' a, pub_at b k = Some (v, st, dn) -> pub_at b k' = Some (v', st', dn') ->
     k < k' -> st' <= dn -> ~ In (a, k, v) (applied (rets b))) /\
  (forall k v j, pub_at b k = Some (v, j + 1, j) ->
     (forall k' v' st' dn', k < k' -> pub_at b k' = Some (v', st', dn') -> j + 2 <= dn') ->
     j + 2 <= cd s -> In (j + 1, k, v) (applied (rets b)) \/ In (j + 2, k, v) (applied (rets b))) /\
  (forall a1 a2 k v1 v2, In (a1, k, v1) (applied (rets b)) -> In (a2, k, v2) (applied (rets b)) ->
                         a1 = a2 /\ v1 = v2).
Proof. exact f_callback_semantics. Qed.

(** The streaming sound's [set_loop_region], [seek_by], [seek_to] are read by the decoder thread,
    once per step of [DecodeScheduler::run], in this order: the same guarantees with the
    decoder's step in place of the audio callback ([K = 3]). *)
Theorem decoder_commands : forall p sched c, c < 3 ->
  let s := run 3 sched (init p) in
  let b := bufs s c in
  (forall a k v, In (a, k, v) (applied (rets b)) ->
     exists st dn, pub_at b k = Some (v, st, dn) /\ dn + 1 <= a <= st + 1 /\ a <= cs s /\
       (forall k' v' st' dn', k < k' -> pub_at b k' = Some (v', st', dn') -> a <= st')) /\
  (forall k v j, pub_at b k = Some (v, j, j) ->
     (forall k' v' st' dn', k < k' -> pub_at b k' = Some (v', st', dn') -> j + 1 <= dn') ->
     j + 1 <= cd s -> In (j + 1, k, v) (applied (rets b))) /\
  (forall k k' v v' st dn st' dn' a, pub_at b k = Some (v, st, dn) -> pub_at b k' = Some (v', st', dn') ->
     k < k' -> st' <= dn -> ~ In (a, k, v) (applied (rets b))) /\
  (forall k v j, pub_at b k = Some (v, j + 1, j) ->
     (forall k' v' st' dn', k < k' -> pub_at b k' = Some (v', st', dn') -> j + 2 <= dn') ->
     j + 2 <= cd s -> In (j + 1, k, v) (applied (rets b)) \/ In (j + 2, k, v) (applied (rets b))) /\
  (forall a1 a2 k v1 v2, In (a1, k, v1) (applied (rets b)) -> In (a2, k, v2) (applied (rets b)) ->
                         a1 = a2 /\ v1 = v2).
Proof. exact f_decoder_commands. Qed.

(** A command written before the resource's first callback (and not superseded before that
    callback's drain is complete) is applied in its first callback. *)
Theorem first_callback : forall K p sched c, c < kx K ->
  let s := run K sched (init p) in
  let b := bufs s c in
  forall k v, pub_at b k = Some (v, 0, 0) ->
    (forall k' v' st' dn', k < k' -> pub_at b k' = Some (v', st', dn') -> 1 <= dn') ->
    1 <= cd s -> In (1, k, v) (applied (rets b)).
Proof. exact f_first_callback. Qed.

(** Commands of different kinds, or to different resources, do not interfere: a step changes
    the buffer of no kind other than the one it is about. *)
Theorem kinds_independent : forall K t s c,
  (match t with W => wkind s | R => rkind s end) <> Some c -> bufs (step K t s) c = bufs s c.
Proof. exact step_frame. Qed.

(** The time stamps used above are what they are said to be. *)
Theorem stamps_meaning : forall K p sched c k v st dn,
  let s := run K sched (init p) in
  pub_at (bufs s c) k = Some (v, st, dn) -> dn <= st <= dn + 1 /\ st <= cs s /\ dn <= cd s.
Proof. exact f_stamps. Qed.
