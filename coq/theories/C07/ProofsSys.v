(** C07 — the system invariant (all command kinds of a resource, gameplay thread, audio
    thread) is inductive for every step of every thread, hence holds for all schedules. *)
From Coq Require Import ZArith List Bool Arith Lia Sorted.
From KV Require Import C07.Model C07.ProofsBuf.
Import ListNotations.
Arguments Nat.eqb : simpl never.
Arguments Nat.ltb : simpl never.
Arguments Nat.leb : simpl never.

Definition wloc_of (w : wpc) (c : nat) : wloc :=
  match w with
  | WIdle => LIdle
  | WHalf c' v => if c' =? c then LHalf v else LIdle
  | WFull c' v => if c' =? c then LFull v else LIdle
  end.
Definition rloc_of (r : rpc) (c : nat) : rloc :=
  match r with
  | RBetween => QIdle
  | RDrain c' p =>
      if c' =? c then match p with RStart => QIdle | RSaw => QSaw | RSwapped => QSwapped | RHalf d a => QHalf d a end
      else QIdle
  end.
(** has the read of kind [c] that belongs to the current callback been decided? *)
Definition decided (r : rpc) (c : nat) : bool :=
  match r with
  | RBetween => true
  | RDrain c' p =>
      if c <? c' then true
      else if c =? c' then match p with RSwapped | RHalf _ _ => true | _ => false end
      else false
  end.
Definition kx (K : nat) : nat := Nat.max 1 K.

Record sinv (K : nat) (s : sys) : Prop := {
  sv_buf : forall c, binv (cs s) (cd s) (wloc_of (wp s) c) (rloc_of (rp s) c) (bufs s c);
  sv_cnt : match rp s with RBetween => cs s = cd s | RDrain c _ => cs s = S (cd s) /\ c < kx K end;
  sv_rb : forall c, c < kx K -> rb (bufs s c) + (if decided (rp s) c then 0 else 1) = cs s
}.

Lemma sinv_init : forall K p, sinv K (init p).
Proof.
  intros K p. constructor; cbn.
  - intros c. apply binv_init.
  - reflexivity.
  - intros c _. reflexivity.
Qed.

Lemma upd_eq : forall f c b, upd f c b c = b.
Proof. intros. unfold upd. rewrite Nat.eqb_refl. reflexivity. Qed.
Lemma upd_neq : forall f c b c', c' <> c -> upd f c b c' = f c'.
Proof. intros f c b c' H. unfold upd. apply Nat.eqb_neq in H. rewrite H. reflexivity. Qed.

Lemma cnt_bounds : forall K s, sinv K s -> cd s <= cs s <= cd s + 1.
Proof. intros K s [_ C _]. destruct (rp s); lia. Qed.

(** ** gameplay thread *)
Lemma sinv_wstep : forall K s, sinv K s -> sinv K (wstep s).
Proof.
  intros K s I. pose proof (cnt_bounds _ _ I) as Hc. destruct I as [B C Rb].
  unfold wstep. destruct (wp s) as [|c v|c v] eqn:Ew.
  - destruct (prog s) as [|[c v] p] eqn:Ep.
    + constructor; auto. rewrite Ew. exact B.
    + constructor; cbn [bufs prog wp rp cs cd].
      * intros c'. destruct (Nat.eq_dec c' c) as [->|Hn].
        -- rewrite upd_eq. cbn. rewrite Nat.eqb_refl. apply binv_fill1. apply (B c).
        -- rewrite upd_neq by auto. cbn. replace (c =? c') with false by (symmetry; apply Nat.eqb_neq; auto).
           apply (B c').
      * exact C.
      * intros c' Hk. destruct (Nat.eq_dec c' c) as [->|Hn].
        -- rewrite upd_eq. apply (Rb c Hk).
        -- rewrite upd_neq by auto. apply (Rb c' Hk).
  - constructor; cbn [bufs prog wp rp cs cd].
    + intros c'. specialize (B c'). cbn in B. destruct (Nat.eq_dec c' c) as [->|Hn].
      * rewrite upd_eq. cbn. rewrite Nat.eqb_refl in *. apply binv_fill2. exact B.
      * rewrite upd_neq by auto. cbn. replace (c =? c') with false in * by (symmetry; apply Nat.eqb_neq; auto).
        exact B.
    + exact C.
    + intros c' Hk. destruct (Nat.eq_dec c' c) as [->|Hn].
      * rewrite upd_eq. apply (Rb c Hk).
      * rewrite upd_neq by auto. apply (Rb c' Hk).
  - constructor; cbn [bufs prog wp rp cs cd].
    + intros c'. specialize (B c'). cbn in B. destruct (Nat.eq_dec c' c) as [->|Hn].
      * rewrite upd_eq. cbn. rewrite Nat.eqb_refl in *. apply binv_publish; auto.
      * rewrite upd_neq by auto. cbn. replace (c =? c') with false in * by (symmetry; apply Nat.eqb_neq; auto).
        exact B.
    + exact C.
    + intros c' Hk. destruct (Nat.eq_dec c' c) as [->|Hn].
      * rewrite upd_eq. apply (Rb c Hk).
      * rewrite upd_neq by auto. apply (Rb c' Hk).
Qed.

(** ** audio thread *)
Lemma binv_saw : forall cs cd wl b, dirty b = true -> binv cs cd wl QIdle b -> binv cs cd wl QSaw b.
Proof.
  intros cs cd wl b Hd [[O1 [O2 O3]] Cb Co Ci D Sw Hf St Rt So La Nl Fr Rb].
  constructor; auto. discriminate.
Qed.

Lemma rloc_other : forall c p c', c' <> c -> rloc_of (RDrain c p) c' = QIdle.
Proof. intros c p c' H. unfold rloc_of. replace (c =? c') with false by (symmetry; apply Nat.eqb_neq; auto). reflexivity. Qed.
Lemma decided_other : forall c p c', c' <> c -> decided (RDrain c p) c' = (c' <? c).
Proof.
  intros c p c' H. unfold decided. destruct (c' <? c); [reflexivity|].
  replace (c' =? c) with false by (symmetry; apply Nat.eqb_neq; auto). reflexivity.
Qed.

(** kind [c] has been read (its buffer is now [b'], decided and idle): go on *)
Lemma sinv_advance : forall K s c p b',
  sinv K s -> rp s = RDrain c p ->
  binv (cs s) (cd s) (wloc_of (wp s) c) QIdle b' -> rb b' = cs s ->
  sinv K (advance K c (upd (bufs s) c b') s).
Proof.
  intros K s c p b' [B C Rb] Er Hb Hrb. rewrite Er in C. destruct C as [C1 C2].
  unfold advance. destruct (S c <? K) eqn:El.
  - apply Nat.ltb_lt in El. constructor; cbn [bufs prog wp rp cs cd].
    + intros c'. destruct (Nat.eq_dec c' c) as [->|Hn].
      * rewrite upd_eq. rewrite rloc_other by lia. exact Hb.
      * rewrite upd_neq by auto. specialize (B c'). rewrite Er, rloc_other in B by auto.
        replace (rloc_of (RDrain (S c) RStart) c') with QIdle; [exact B|].
        cbn. destruct (S c =? c'); reflexivity.
    + split; [exact C1|]. unfold kx. lia.
    + intros c' Hk. destruct (Nat.eq_dec c' c) as [->|Hn].
      * rewrite upd_eq. cbn. replace (c <? S c) with true by (symmetry; apply Nat.ltb_lt; lia). lia.
      * rewrite upd_neq by auto. specialize (Rb c' Hk). rewrite Er, decided_other in Rb by auto.
        destruct (Nat.eq_dec c' (S c)) as [->|Hn2].
        -- cbn. rewrite Nat.ltb_irrefl, Nat.eqb_refl.
           replace (S c <? c) with false in Rb by (symmetry; apply Nat.ltb_ge; lia). exact Rb.
        -- rewrite decided_other by auto.
           replace (c' <? S c) with (c' <? c); [exact Rb|].
           destruct (c' <? c) eqn:E1; symmetry.
           ++ apply Nat.ltb_lt in E1. apply Nat.ltb_lt. lia.
           ++ apply Nat.ltb_ge in E1. apply Nat.ltb_ge. lia.
  - apply Nat.ltb_ge in El. constructor; cbn [bufs prog wp rp cs cd].
    + intros c'. apply binv_cd_succ. destruct (Nat.eq_dec c' c) as [->|Hn].
      * rewrite upd_eq. exact Hb.
      * rewrite upd_neq by auto. specialize (B c'). rewrite Er, rloc_other in B by auto. exact B.
    + exact C1.
    + intros c' Hk. cbn. destruct (Nat.eq_dec c' c) as [->|Hn].
      * rewrite upd_eq. lia.
      * rewrite upd_neq by auto. specialize (Rb c' Hk). rewrite Er, decided_other in Rb by auto.
        assert (c' < c) by (unfold kx in *; lia).
        replace (c' <? c) with true in Rb by (symmetry; apply Nat.ltb_lt; lia). lia.
Qed.

Lemma sinv_rstep : forall K s, sinv K s -> sinv K (rstep K s).
Proof.
  intros K s I. pose proof I as [B C Rb].
  unfold rstep. destruct (rp s) as [|c [| | |d a]] eqn:Er.
  - (* a callback starts *)
    constructor; cbn [bufs prog wp rp cs cd].
    + intros c. replace (rloc_of (RDrain 0 RStart) c) with QIdle by (destruct c; reflexivity).
      apply binv_cs_succ; [reflexivity|]. specialize (B c). try rewrite Er in B. exact B.
    + split; [lia|]. unfold kx; lia.
    + intros c Hk. specialize (Rb c Hk). try rewrite Er in Rb. cbn in Rb.
      replace (decided (RDrain 0 RStart) c) with false; [lia|].
      destruct c; reflexivity.
  - (* R1: load the dirty bit *)
    destruct C as [C1 C2].
    assert (Hrb : rb (bufs s c) + 1 = cs s).
    { specialize (Rb c C2). try rewrite Er in Rb. cbn in Rb. rewrite Nat.ltb_irrefl, Nat.eqb_refl in Rb. exact Rb. }
    assert (Hb : binv (cs s) (cd s) (wloc_of (wp s) c) QIdle (bufs s c)).
    { specialize (B c). try rewrite Er in B. cbn in B. rewrite Nat.eqb_refl in B. exact B. }
    destruct (dirty (bufs s c)) eqn:Ed.
    + constructor; cbn [bufs prog wp rp cs cd].
      * intros c'. destruct (Nat.eq_dec c' c) as [->|Hn].
        -- cbn. rewrite Nat.eqb_refl. apply binv_saw; auto.
        -- rewrite rloc_other by auto. specialize (B c'). try rewrite Er in B; rewrite rloc_other in B by auto. exact B.
      * auto.
      * intros c' Hk. specialize (Rb c' Hk). try rewrite Er in Rb. exact Rb.
    + eapply sinv_advance; eauto.
      * apply binv_none; auto.
      * cbn. lia.
  - (* R2: swap *)
    destruct C as [C1 C2].
    assert (Hrb : rb (bufs s c) + 1 = cs s).
    { specialize (Rb c C2). try rewrite Er in Rb. cbn in Rb. rewrite Nat.ltb_irrefl, Nat.eqb_refl in Rb. exact Rb. }
    constructor; cbn [bufs prog wp rp cs cd].
    + intros c'. destruct (Nat.eq_dec c' c) as [->|Hn].
      * rewrite upd_eq. cbn. rewrite Nat.eqb_refl. apply binv_swap; [auto|lia|].
        specialize (B c). try rewrite Er in B. cbn in B. rewrite Nat.eqb_refl in B. exact B.
      * rewrite upd_neq, rloc_other by auto. specialize (B c'). try rewrite Er in B; rewrite rloc_other in B by auto. exact B.
    + auto.
    + intros c' Hk. destruct (Nat.eq_dec c' c) as [->|Hn].
      * rewrite upd_eq. cbn. rewrite Nat.ltb_irrefl, Nat.eqb_refl. lia.
      * rewrite upd_neq, decided_other by auto. specialize (Rb c' Hk).
        try rewrite Er in Rb; rewrite decided_other in Rb by auto. exact Rb.
  - (* R3a: first half of the copy *)
    destruct C as [C1 C2]. destruct (r_copy1 (bufs s c)) as [d a] eqn:Ec.
    constructor; cbn [bufs prog wp rp cs cd].
    + intros c'. destruct (Nat.eq_dec c' c) as [->|Hn].
      * cbn. rewrite Nat.eqb_refl.
        replace d with (fst (r_copy1 (bufs s c))) by (rewrite Ec; reflexivity).
        replace a with (snd (r_copy1 (bufs s c))) by (rewrite Ec; reflexivity).
        apply binv_copy1. specialize (B c). try rewrite Er in B. cbn in B. rewrite Nat.eqb_refl in B. exact B.
      * rewrite rloc_other by auto. specialize (B c'). try rewrite Er in B; rewrite rloc_other in B by auto. exact B.
    + auto.
    + intros c' Hk. specialize (Rb c' Hk). try rewrite Er in Rb.
      destruct (Nat.eq_dec c' c) as [->|Hn].
      * cbn in *. rewrite Nat.ltb_irrefl, Nat.eqb_refl in *. exact Rb.
      * rewrite decided_other in * by auto. exact Rb.
  - (* R3b: second half, return *)
    destruct C as [C1 C2].
    eapply sinv_advance; eauto.
    + apply binv_return. specialize (B c). try rewrite Er in B. cbn in B. rewrite Nat.eqb_refl in B. exact B.
    + cbn. specialize (Rb c C2). try rewrite Er in Rb. cbn in Rb. rewrite Nat.ltb_irrefl, Nat.eqb_refl in Rb. lia.
Qed.

Lemma sinv_step : forall K t s, sinv K s -> sinv K (step K t s).
Proof. intros K [] s I; cbn; [apply sinv_wstep|apply sinv_rstep]; exact I. Qed.

Lemma sinv_run : forall K sched s, sinv K s -> sinv K (run K sched s).
Proof.
  intros K sched. induction sched as [|t sched IH]; intros s I; cbn; [exact I|].
  apply IH. apply sinv_step. exact I.
Qed.

Theorem sinv_reachable : forall K p sched, sinv K (run K sched (init p)).
Proof. intros. apply sinv_run. apply sinv_init. Qed.
