(** C07 — entry points of the correspondence check (model side). *)
From Coq Require Import ZArith List Bool Arith.
From KV Require Import Base.Outcome Base.Corr C03.Model C04.Transport C07.Model C07.Multi.
Import ListNotations.
Local Open Scope Z_scope.

Inductive case :=
(** whole calls on a resource with [K] kinds: [(c, x, y)] with [c >= 0] is a complete
    [CommandWriter::write] of value [(x, y)] on kind [c]; [c < 0] is one complete callback
    (a [CommandReader::read] of every kind, in order). *)
| CCoarse (K : Z) (ops : list (Z * Z * Z))
(** one buffer, finer steps, driven on the real [triple_buffer] crate: token 0 = the next step
    of the writer (fill first half / fill second half / [publish]); 1 = the reader's
    [update()] (dirty load and, if set, the swap); 2 = the reader's next copy step. *)
| CSemi (prog : list (Z * Z)) (toks : list Z)
(** the multi-kind layer on a real handle: [h] is a history of whole calls, [(k, x, y)] with
    [k >= 0] the handle method of kind [k] (numbering of [Multi.v]) with value [(x, y)], [k < 0] one
    audio callback.  [rk]: 0 = static sound, observable after every callback: the handle's
    [state()]; 1 = static sound, [state()] and the position (whole seconds, as reported one
    callback later); 2 = streaming sound, the kinds read on the audio thread, [state()];
    3 = sub-track, [state()]; 4 = sub-track with a static sound on it, both [state()]s
    ([start] = 10 * track state + sound state).  [start]: the playback state before the history;
    for [rk = 1]: state + 10 * (ls + 100 * le), the loop region [ls .. le] (whole seconds) of the
    sound's settings ([le <= ls]: none). *)
| CMulti (rk : Z) (start : Z) (h : list (Z * Z * Z))
(** the decoder thread of a streaming sound with [nf] frames, started at frame [pos0] with the loop
    region [ls0 .. le0] (frames; [le0 <= ls0]: none).  [(k, x, y)], [k >= 0]: a decoder-side
    command (0 set_loop_region [x .. y], 1 seek_by whose target frame is [x], 2 seek_to frame [x]);
    [k < 0]: one step of [DecodeScheduler::run].  Observable: the index of the frame each step
    pushes. *)
| CDec (nf pos0 ls0 le0 : Z) (h : list (Z * Z * Z)).

Definition enc_rets (r : list (nat * option (nat * val))) : list Z :=
  flat_map (fun e => match e with
                     | (a, None) => [Z.of_nat a; 0]
                     | (a, Some (_, (x, y))) => [Z.of_nat a; 1; x; y]
                     end) (rev r).

Definition coarse_prog (ops : list (Z * Z * Z)) : list (nat * val) :=
  flat_map (fun o => match o with (c, x, y) => if c <? 0 then [] else [(Z.to_nat c, (x, y))] end) ops.
Fixpoint coarse_run (K : nat) (ops : list (Z * Z * Z)) (s : sys) : sys :=
  match ops with
  | [] => s
  | (c, _, _) :: t => coarse_run K t (if c <? 0 then do_callback K s else do_write s)
  end.

Definition semi_tok (s : sys) (t : Z) : sys :=
  if t =? 0 then wstep s
  else if t =? 1 then
    match rp s with
    | RBetween => let s2 := rstep 1 (rstep 1 s) in
                  match rp s2 with RDrain _ RSaw => rstep 1 s2 | _ => s2 end
    | _ => s
    end
  else match rp s with
       | RDrain _ RSwapped | RDrain _ (RHalf _ _) => rstep 1 s
       | _ => s
       end.
Definition enc_cell (c : cell) : list Z := [if c_some c then 1 else 0; c_w1 c; c_w2 c].
Definition semi_obs (s : sys) : list Z :=
  let b := bufs s 0%nat in
  (if dirty b then 1 else 0) :: enc_cell (tget (mem b) (w_in b)) ++ enc_cell (tget (mem b) (r_out b)).
Fixpoint semi_run (s : sys) (toks : list Z) : list Z * sys :=
  match toks with
  | [] => ([], s)
  | t :: r => let s' := semi_tok s t in
              let '(o, sf) := semi_run s' r in (semi_obs s' ++ o, sf)
  end.

Definition ev_of (o : Z * Z * Z) : ev :=
  match o with (k, x, y) => if k <? 0 then Callback else Issue (Z.to_nat k) (x, y) end.
(** [post]: what [process] does to the modelled state after the commands were read *)
Fixpoint multi_obs {St : Type} (apply : nat -> val -> St -> St) (order : list nat) (post : St -> St)
    (obs : St -> list Z) (h : list (Z * Z * Z)) (r : res St) : list Z :=
  match h with
  | [] => []
  | o :: t =>
      match ev_of o with
      | Callback =>
          let r1 := m_callback apply order r in
          let r2 := Res (m_slots r1) (post (m_state r1)) (m_ncb r1) (m_log r1) in
          obs (m_state r2) ++ multi_obs apply order post obs t r2
      | Issue k v => multi_obs apply order post obs t (m_issue k v r)
      end
  end.
Fixpoint dec_obs (nf : Z) (h : list (Z * Z * Z)) (r : res (outcome transport)) : list Z :=
  match h with
  | [] => []
  | o :: t =>
      match ev_of o with
      | Callback =>
          let r1 := m_callback (decz_apply nf) dec_order r in
          let r2 := Res (m_slots r1) (dec_push 400 nf (m_state r1)) (m_ncb r1) (m_log r1) in
          (match m_state r1 with Ok tr => t_pos tr | _ => -1 end) :: dec_obs nf t r2
      | Issue k v => dec_obs nf t (m_issue k v r)
      end
  end.
Definition snd_code (s : sndst) : Z := state_code (ps (sn_psm s)).
Definition trk_code (t : trk) : Z := state_code (ps (tk_psm t)).

Definition run (c : case) : list Z :=
  match c with
  | CCoarse K ops =>
      let k := Z.to_nat K in
      let s := coarse_run k ops (init (coarse_prog ops)) in
      flat_map (fun c => (-1) :: enc_rets (rets (bufs s c))) (seq 0 k)
  | CSemi prog toks =>
      let '(o, s) := semi_run (init (map (fun v => (0%nat, v)) prog)) toks in
      o ++ (-1) :: enc_rets (rets (bufs s 0%nat))
  | CMulti rk start h =>
      if rk =? 0 then
        multi_obs snd_apply static_order (fun s => s) (fun s => [snd_code s]) h (m_init (snd_init start))
      else if rk =? 1 then
        multi_obs snd_apply static_order snd_process (fun s => [snd_code s; sn_heard s]) h
          (m_init (snd_init_loop (start mod 10) (Some ((start / 10) mod 100, start / 1000))))
      else if rk =? 2 then
        multi_obs snd_apply streaming_order (fun s => s) (fun s => [snd_code s]) h (m_init (snd_init start))
      else if rk =? 3 then
        multi_obs trk_apply trk_order (fun t => t) (fun t => [trk_code t]) h (m_init (Trk (psm_of_code start) 0))
      else
        multi_obs ts_apply ts_order (fun s => s) (fun s => [trk_code (fst s); snd_code (snd s)]) h
          (m_init (Trk (psm_of_code (start / 10)) 0, snd_init (start mod 10)))
  | CDec nf pos0 ls0 le0 h =>
      dec_obs nf h (m_init (Ok (transport_new pos0 (Some (ls0, le0)) false nf)))
  end.
