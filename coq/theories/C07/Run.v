(** C07 — entry points of the correspondence check (model side). *)
From Coq Require Import ZArith List Bool Arith.
From KV Require Import Base.Corr C07.Model.
Import ListNotations.
Local Open Scope Z_scope.

Inductive case :=
(** whole calls on a resource with [K] kinds: [(c, x, y)] with [c >= 0] is a complete
    [CommandWriter::write] of value [(x, y)] on kind [c]; [c < 0] is one complete callback
    (a [CommandReader::read] of every kind, in order). *)
| CCoarse (K : Z) (ops : list (Z * Z * Z))
(** one buffer, finer steps, driven on the real [triple_buffer] crate: token 0 = the next step
    of the writer (fill first half / fill second half / [publish]); 1 = the reader's
    [update()] (dirty load and, if set, the swap); 2 = the reader's next copy step. *)
| CSemi (prog : list (Z * Z)) (toks : list Z).

Definition enc_rets (r : list (nat * option (nat * val))) : list Z :=
  flat_map (fun e => match e with
                     | (a, None) => [Z.of_nat a; 0]
                     | (a, Some (_, (x, y))) => [Z.of_nat a; 1; x; y]
                     end) (rev r).

Definition coarse_prog (ops : list (Z * Z * Z)) : list (nat * val) :=
  flat_map (fun o => match o with (c, x, y) => if c <? 0 then [] else [(Z.to_nat c, (x, y))] end) ops.
Fixpoint coarse_run (K : nat) (ops : list (Z * Z * Z)) (s : sys) : sys :=
  match ops with
  | [] => s
  | (c, _, _) :: t => coarse_run K t (if c <? 0 then do_callback K s else do_write s)
  end.

Definition semi_tok (s : sys) (t : Z) : sys :=
  if t =? 0 then wstep s
  else if t =? 1 then
    match rp s with
    | RBetween => let s2 := rstep 1 (rstep 1 s) in
                  match rp s2 with RDrain _ RSaw => rstep 1 s2 | _ => s2 end
    | _ => s
    end
  else match rp s with
       | RDrain _ RSwapped | RDrain _ (RHalf _ _) => rstep 1 s
       | _ => s
       end.
Definition enc_cell (c : cell) : list Z := [if c_some c then 1 else 0; c_w1 c; c_w2 c].
Definition semi_obs (s : sys) : list Z :=
  let b := bufs s 0%nat in
  (if dirty b then 1 else 0) :: enc_cell (tget (mem b) (w_in b)) ++ enc_cell (tget (mem b) (r_out b)).
Fixpoint semi_run (s : sys) (toks : list Z) : list Z * sys :=
  match toks with
  | [] => ([], s)
  | t :: r => let s' := semi_tok s t in
              let '(o, sf) := semi_run s' r in (semi_obs s' ++ o, sf)
  end.

Definition run (c : case) : list Z :=
  match c with
  | CCoarse K ops =>
      let k := Z.to_nat K in
      let s := coarse_run k ops (init (coarse_prog ops)) in
      flat_map (fun c => (-1) :: enc_rets (rets (bufs s c))) (seq 0 k)
  | CSemi prog toks =>
      let '(o, s) := semi_run (init (map (fun v => (0%nat, v)) prog)) toks in
      o ++ (-1) :: enc_rets (rets (bufs s 0%nat))
  end.
