(** C07 — the rendering of a callback made explicit: commands written WHILE a callback is rendered.

    Transcribed code
    ----------------
    * the backend's device callback: [renderer.on_start_processing()] (every [read_commands] of
      every resource: [Multi.v], event [Callback]) and then [renderer.process(out)], which renders
      the device buffer in chunks of [internal_buffer_size] frames ([Renderer::process]: one
      [Mixer::process] -> [Track::process] / [Sound::process] / [Effect::process] per chunk).
    * no [process] of the unchanged code touches a [CommandReader]: [Track::process] only
      [update]s the parameters ([self.volume.update], [route.volume.update]) that
      [read_commands] has set.
    * the game thread is not synchronised with the audio thread: a handle method may run before
      the callback, or between any two chunks of it.

    [CStart] is the drain of a callback, [CChunk] the rendering of one chunk, [CIssue] a handle
    method.  [c_exec] is the code; [c_exec_perchunk sub] is the reading that is NOT the code in
    which the readers of the kinds [sub] (say: the send routes of a track) are read at the top of
    [process], i.e. once per CHUNK, and no longer in [read_commands]. *)
From Coq Require Import ZArith List Bool Arith Lia.
From KV Require Import C07.Model C07.Multi C07.ProofsMulti.
Import ListNotations.

Inductive cev := CIssue (k : nat) (v : val) | CStart | CChunk.

(** the history of [Multi.v] that a chunked history is: the chunks are erased *)
Definition erase_chunks (h : list cev) : list ev :=
  flat_map (fun e => match e with CIssue k v => [Issue k v] | CStart => [Callback] | CChunk => [] end) h.

Section Chunked.
  Variable St : Type.
  Variable apply : nat -> val -> St -> St.

  (** the code: rendering a chunk reads no command *)
  Definition c_step (order : list nat) (r : res St) (e : cev) : res St :=
    match e with
    | CIssue k v => m_issue k v r
    | CStart => m_callback apply order r
    | CChunk => r
    end.
  Definition c_exec (order : list nat) (h : list cev) (r : res St) : res St := fold_left (c_step order) h r.

  (** counter-model: the kinds [sub] are read when a chunk is rendered, the others at the start *)
  Definition c_step_perchunk (start sub : list nat) (r : res St) (e : cev) : res St :=
    match e with
    | CIssue k v => m_issue k v r
    | CStart => m_callback apply start r
    | CChunk => m_read_commands apply sub r
    end.
  Definition c_exec_perchunk (start sub : list nat) (h : list cev) (r : res St) : res St :=
    fold_left (c_step_perchunk start sub) h r.

  Lemma c_exec_erase : forall order h r, c_exec order h r = m_exec apply order (erase_chunks h) r.
  Proof.
    intros order h. induction h as [|e h IH]; intros r; [reflexivity|].
    destruct e as [k v| |]; cbn [c_exec fold_left c_step erase_chunks flat_map app].
    - unfold m_exec. cbn [fold_left m_step]. apply IH.
    - unfold m_exec. cbn [fold_left m_step]. apply IH.
    - apply IH.
  Qed.

  Lemma p_chunked_applied_iff : forall order s0 h a k v, NoDup order ->
    (In (a, k, v) (m_log (c_exec order h (m_init s0))) <->
     exists iv, 1 <= a /\ nth_error (closed_intervals (erase_chunks h)) (a - 1) = Some iv /\ In k order /\ last_of k iv = Some v).
  Proof.
    intros order s0 h a k v Hnd. rewrite c_exec_erase. apply p_multi_applied_iff. exact Hnd.
  Qed.

  Lemma p_chunked_once : forall order s0 h, NoDup order ->
    NoDup (map fst (m_log (c_exec order h (m_init s0)))).
  Proof.
    intros order s0 h Hnd. rewrite c_exec_erase. apply p_multi_once. exact Hnd.
  Qed.

  Lemma p_chunk_changes_nothing : forall order h s0,
    c_exec order (h ++ [CChunk]) (m_init s0) = c_exec order h (m_init s0).
  Proof.
    intros order h s0. unfold c_exec. rewrite fold_left_app. reflexivity.
  Qed.
End Chunked.

Arguments c_step {St}. Arguments c_exec {St}. Arguments c_step_perchunk {St}. Arguments c_exec_perchunk {St}.

(** * the witnesses (replayed by the harness: part (m), MID-abs)

    A track: kind 0 its own volume, kind 1 the volume of a send route; the state is the pair of
    the values last applied.  Counter-model: kind 1 is read once per chunk. *)
Local Open Scope Z_scope.
Definition route_apply (k : nat) (v : val) (s : Z * Z) : Z * Z :=
  match k with 0%nat => (fst v, snd s) | 1%nat => (fst s, fst v) | _ => s end.
Definition route_order : list nat := [0; 1]%nat.
Definition route_perchunk (h : list cev) : res (Z * Z) :=
  c_exec_perchunk route_apply [0%nat] [1%nat] h (m_init (0, 0)).

(** callback 1 rendered in three chunks; the send is closed while chunk 0 is rendered *)
Definition h_close_mid : list cev := [CStart; CChunk; CIssue 1 (-60, 0); CChunk; CChunk; CStart; CChunk].
(** closed while chunk 0 is rendered, re-opened while chunk 1 is rendered *)
Definition h_close_reopen_mid : list cev :=
  [CStart; CChunk; CIssue 1 (-60, 0); CChunk; CIssue 1 (0, 0); CChunk; CStart; CChunk].

Lemma f_perchunk_early : exists h a k v,
  In (a, k, v) (m_log (route_perchunk h)) /\
  ~ (exists iv, 1 <= a /\ nth_error (closed_intervals (erase_chunks h)) (a - 1) = Some iv /\ In k route_order /\ last_of k iv = Some v)%nat.
Proof.
  exists h_close_mid, 1%nat, 1%nat, (-60, 0). split.
  - vm_compute. left; reflexivity.
  - intros [iv [_ [Hn [_ Hl]]]]. vm_compute in Hn. inversion Hn; subst. vm_compute in Hl. discriminate.
Qed.

Lemma f_perchunk_twice : exists h,
  ~ NoDup (map fst (m_log (route_perchunk h))).
Proof.
  exists h_close_reopen_mid. vm_compute. intros H.
  inversion H as [|x l Hni Hnd]; subst. apply Hni. left; reflexivity.
Qed.

(** the code on the same histories: nothing in callback 1, the last one in callback 2 *)
Example chunked_close_mid_code :
  rev (m_log (c_exec route_apply route_order h_close_mid (m_init (0, 0)))) = [(2%nat, 1%nat, (-60, 0))] /\
  rev (m_log (c_exec route_apply route_order h_close_reopen_mid (m_init (0, 0)))) = [(2%nat, 1%nat, (0, 0))].
Proof. vm_compute. split; reflexivity. Qed.
