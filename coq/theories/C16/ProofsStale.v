(** C16 — why the comparison in [on_start_processing] is there (F14, repaired): in the COUNTER-MODEL without it
    ([step_unrepaired]), for EVERY device rate, every different new rate, every buffer size and every track carrying a
    probe effect, the histories add; change; callback and load; change; enqueue; callback end with a [process] call
    whose effect still believes the old rate.  With the comparison the same histories are in force
    ([rate_in_force_all_histories]). *)
From Coq Require Import ZArith List Bool Lia.
From KV Require Import C16.Model C16.ProofsWitness C16.ProofsProtocol.
Import ListNotations.
Local Open Scope Z_scope.

Lemma chunks_of_nonempty n l : 0 < n -> exists c rest, chunks_of n l = c :: rest.
Proof.
  intro H. unfold chunks_of. destruct (Z.to_nat n) eqn:E; [lia|]. cbn [chunks].
  destruct (n <=? 0) eqn:E0; [apply Z.leb_le in E0; lia|].
  destruct (n <=? Z.max 1 l); eauto.
Qed.

Lemma not_all_ok r evs e : In e evs -> ~ ev_ok r e -> ~ Forall (ev_ok r) evs.
Proof. intros Hi Hn F. rewrite Forall_forall in F. exact (Hn (F e Hi)). Qed.

(** without the comparison, [on_start_processing] leaves the effects of a track alone *)
Lemma start_unrepaired_effs r i tr effs ar q :
  exists ar', start_track false false r (Trk i tr effs ar q) = Trk i tr effs ar' [].
Proof. cbn [start_track andb]. eexists. reflexivity. Qed.

(** a queued track with a probe that believes another rate: the next callback picks it up and lets it process *)
Lemma stale_callback fo s n tid tr effs ar q i told fb :
  0 < n -> In (Trk tid tr effs ar q) (s_subq s) -> In (Eff i KProbe told fb) effs -> last_told told <> s_rate s ->
  ~ Forall (ev_ok (s_rate (fst (step_unrepaired fo s (A_callback n))))) (snd (step_unrepaired fo s (A_callback n))).
Proof.
  intros Hn Ht He Hl. destruct (chunks_of_nonempty n (s_ibs s) Hn) as [c [rest Hc]].
  unfold step_unrepaired. cbn [step_gen fst snd s_rate]. rewrite Hc. cbn [flat_map].
  apply (not_all_ok _ _ (i, last_told told, s_dtr s, c)); [|intros [E _]; exact (Hl E)].
  apply in_or_app. left. unfold process_chunk. cbn [s_subs s_dtr]. apply in_or_app. left.
  apply in_flat_map. exists (start_track false false (s_mix s) (Trk tid tr effs ar q)). split.
  - apply in_map. apply in_or_app. left. apply -> in_rev. exact Ht.
  - destruct (start_unrepaired_effs (s_mix s) tid tr effs ar q) as [ar' E]. rewrite E.
    cbn [process_track]. apply in_or_app. right. apply in_flat_map.
    exists (Eff i KProbe told fb). split; [exact He|]. cbn. left. reflexivity.
Qed.

Definition mk (r ibs : Z) (M : list effect) (subq : list track) (pend : list pending) : state :=
  {| s_rate := r; s_dtr := r; s_mix := r; s_ibs := ibs; s_main := M; s_subs := []; s_subq := subq; s_sends := []; s_sendq := [];
     s_pend := pend |}.

Theorem unrepaired_pickup_stale_general_l fo sr ibs main tid effs i fb r n :
  r <> sr -> 0 < n -> In (SEff i KProbe fb) effs ->
  ~ all_in_force_unrepaired fo (init_state sr ibs main) [G_load 0 DSub (tid, effs); G_enqueue 0; A_change r; A_callback n]
  /\ ~ all_in_force_unrepaired fo (init_state sr ibs main) [G_load 0 DSub (tid, effs); A_change r; G_enqueue 0; A_callback n].
Proof.
  intros Hr Hn Hin. unfold all_in_force_unrepaired.
  set (M := map (fun e => tell ByInit sr (build_effect e)) main).
  set (E := map (tell ByInit sr) (map build_effect effs)).
  set (P := {| p_slot := 0; p_dest := DSub; p_track := build_track (tid, effs); p_loaded := sr |}).
  assert (HinE : In (Eff i KProbe [(ByInit, sr)] (map (tell ByInit sr) (map build_effect fb))) E).
  { unfold E. apply (in_map (tell ByInit sr) _ (Eff i KProbe [] (map build_effect fb))).
    apply (in_map build_effect _ (SEff i KProbe fb)). exact Hin. }
  assert (S1 : fst (step_gen fo false (init_state sr ibs main) (G_load 0 DSub (tid, effs))) = mk sr ibs M [] [P]) by reflexivity.
  split; intro H; cbn [all_in_force_gen] in H; rewrite S1 in H; destruct H as [_ H].
  - assert (S2 : fst (step_gen fo false (mk sr ibs M [] [P]) (G_enqueue 0)) = mk sr ibs M [Trk tid sr E [] []] []) by reflexivity.
    rewrite S2 in H. destruct H as [_ H].
    assert (S3 : fst (step_gen fo false (mk sr ibs M [Trk tid sr E [] []] []) (A_change r))
                 = mk r ibs (map (tell ByChange r) M) [Trk tid sr E [] []] []) by reflexivity.
    rewrite S3 in H. destruct H as [_ [H _]]. revert H.
    eapply (stale_callback fo _ n tid sr E [] [] i [(ByInit, sr)] _ Hn); [left; reflexivity|exact HinE|].
    cbn. intro X. apply Hr. symmetry. exact X.
  - assert (S2 : fst (step_gen fo false (mk sr ibs M [] [P]) (A_change r)) = mk r ibs (map (tell ByChange r) M) [] [P]) by reflexivity.
    rewrite S2 in H. destruct H as [_ H].
    assert (S3 : fst (step_gen fo false (mk r ibs (map (tell ByChange r) M) [] [P]) (G_enqueue 0))
                 = mk r ibs (map (tell ByChange r) M) [Trk tid sr E [] []] []) by reflexivity.
    rewrite S3 in H. destruct H as [_ [H _]]. revert H.
    eapply (stale_callback fo _ n tid sr E [] [] i [(ByInit, sr)] _ Hn); [left; reflexivity|exact HinE|].
    cbn. intro X. apply Hr. symmetry. exact X.
Qed.
