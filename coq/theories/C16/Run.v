(** C16 — model side of the correspondence check.
    [CHist]: a history of add (load / enqueue) / change / callback steps on a real [AudioManager]; the observable is
             every [process] call seen by every probe effect (probe id, rate last told, bits of [dt], frames) in the
             order in which the calls happened, followed by every probe's complete told-log.
    [CDelay]: buffer length in frames of a real [Delay] (read off the echo position).
    [CReverb]: for every device rate of the list (init, then on_change_sample_rate ...), the positions in frames of the
             first three echoes of an impulse on the left and on the right channel of a real, fully wet [Reverb] of
             stereo width 1 = the lengths of its three shortest comb lines of either side (binary64, as the code).
    [CDt]: bits of the renderer's [dt] at a device rate. *)
From Coq Require Import ZArith List Bool.
From KV Require Import Base.IEEE Base.Outcome Base.Num Base.Corr C06.Model C06.Dur C16.Model C16.ModelEffects.
Import ListNotations.
Local Open Scope Z_scope.

Inductive case :=
| CHist (sr ibs : Z) (main : list eshape) (nids : Z) (h : list op)
| CDelay (t_ns : Z) (rates : list Z)
| CDt (sr : Z)
| CReverb (rates : list Z).

(** the Delay's length computation (integer arithmetic since the repair of F35; [delay_len] applies max 1) *)
Definition frames64 (t_ns sr : Z) : Z := Z.min (2 ^ 64 - 1) (t_ns * sr / 1000000000).
Definition dt_bits (sr : Z) : Z := bits_of_f64 (@dt_of f64 _ sr).

(** the renderer's [dt] at the usual rates, computed once (by the model's own function) when this file is compiled *)
Definition common_rates : list Z := [1; 500; 1000; 2000; 3000; 8000; 11025; 22050; 44100; 48000; 96000; 192000].
Definition dt_tab : list (Z * Z) := Eval vm_compute in map (fun r => (r, dt_bits r)) common_rates.
Fixpoint lookup_opt (tab : list (Z * Z)) (k : Z) : option Z :=
  match tab with [] => None | (a, b) :: tab' => if a =? k then Some b else lookup_opt tab' k end.
Definition dt_bits' (sr : Z) : Z := match lookup_opt dt_tab sr with Some b => b | None => dt_bits sr end.

Fixpoint rates_of (h : list op) : list Z :=
  match h with
  | [] => []
  | A_change r :: h' => r :: rates_of h'
  | _ :: h' => rates_of h'
  end.
Fixpoint delays_of_shape (e : eshape) : list Z :=
  match e with SEff _ k fb => (match k with KDelay t => [t] | KProbe => [] end) ++ flat_map delays_of_shape fb end.
Fixpoint delays_of (h : list op) : list Z :=
  match h with
  | [] => []
  | G_load _ _ (_, es) :: h' => flat_map delays_of_shape es ++ delays_of h'
  | _ :: h' => delays_of h'
  end.
Fixpoint lookup2 (tab : list (Z * Z * Z)) (t r : Z) : Z :=
  match tab with [] => 0 | (a, b, c) :: tab' => if (a =? t) && (b =? r) then c else lookup2 tab' t r end.
Fixpoint lookup (tab : list (Z * Z)) (k : Z) : Z :=
  match tab with [] => (-2) | (a, b) :: tab' => if a =? k then b else lookup tab' k end.

Fixpoint effects_of_effect (e : effect) : list (Z * list (how * Z)) :=
  match e with Eff i _ told fb => (i, told) :: flat_map effects_of_effect fb end.
Fixpoint effects_of_track (t : track) : list (Z * list (how * Z)) :=
  match t with
  | Trk _ _ effs ar q => flat_map effects_of_effect effs ++ flat_map effects_of_track ar ++ flat_map effects_of_track q
  end.
Definition state_effects (s : state) : list (Z * list (how * Z)) :=
  flat_map effects_of_effect (s_main s)
  ++ flat_map effects_of_track (s_subs s ++ s_subq s ++ s_sends s ++ s_sendq s ++ map p_track (s_pend s)).

Fixpoint find_told (l : list (Z * list (how * Z))) (i : Z) : list (how * Z) :=
  match l with [] => [] | (j, t) :: l' => if j =? i then t else find_told l' i end.
Definition enc_told (t : list (how * Z)) : list Z :=
  Z.of_nat (length t) :: flat_map (fun '(h, r) => [match h with ByInit => 0 | ByChange => 1 end; r]) (rev t).

Definition run (c : case) : list Z :=
  match c with
  | CHist sr ibs main nids h =>
      let rates := nodup Z.eq_dec (sr :: rates_of h) in
      let ftab := flat_map (fun t => map (fun r => (t, r, frames64 t r)) rates)
                           (nodup Z.eq_dec (flat_map delays_of_shape main ++ delays_of h)) in
      let tab := map (fun r => (r, dt_bits' r)) rates in
      let '(s, evs) := Model.run (lookup2 ftab) (init_state sr ibs main) h in
      let effs := state_effects s in
      flat_map (fun '(i, told, dtr, n) => [i; told; lookup tab dtr; n]) evs
      ++ (-1) :: flat_map (fun i => enc_told (find_told effs (Z.of_nat i))) (seq 0 (Z.to_nat nids))
  | CDelay t_ns rates => map (fun r => delay_frames_int t_ns r) rates
  | CDt sr => [dt_bits sr]
  | CReverb rates => flat_map reverb_first_taps rates
  end.
