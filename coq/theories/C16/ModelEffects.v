(** C16 — effects whose parameters are given in seconds but whose state is counted in frames (definitions only).

    (a) [Reverb::init_filters] (effect/reverb.rs), run by [Effect::init] and [Effect::on_change_sample_rate]:
          adjust_buffer_size(size) = (((size as f64) * (sample_rate as f64 / 44100 as f64)) as usize).max(1)
        left line of a pair: adjust_buffer_size(size); right line: adjust_buffer_size(size + STEREO_SPREAD) --
        the tuning AND the 23-frame spread are lengths at 44.1 kHz, i.e. times, and are both scaled.
        ([reverb_len] of C16/Model.v is the product before the [max 1].)
    (b) [Compressor::process] (effect/compressor.rs), per frame and channel:
          speed = exp(-1.0 / (duration.as_secs_f64() / dt));  env = over + speed * (env - over)
        with [duration] the attack or the release duration and [dt] the [dt] of THIS process call. *)
From Coq Require Import ZArith List Reals.
From KV Require Import Base.IEEE Base.Num C16.Model.
Import ListNotations.
Local Open Scope Z_scope.

(** * (a) reverb *)
Definition STEREO_SPREAD : Z := 23.
Definition comb_tunings : list Z := [1116; 1188; 1277; 1356; 1422; 1491; 1557; 1617].
Definition all_pass_tunings : list Z := [556; 441; 341; 225].

Section Reverb.
  Context {T : Type} {NT : Num T}.
  (** [adjust_buffer_size] *)
  Definition reverb_line (size sr : Z) : Z := Z.max 1 (reverb_len size sr).
  Definition reverb_left (size sr : Z) : Z := reverb_line size sr.
  Definition reverb_right (size sr : Z) : Z := reverb_line (size + STEREO_SPREAD) sr.
  (** all 24 lines: left combs, right combs, left all-passes, right all-passes *)
  Definition reverb_lines (sr : Z) : list Z :=
    map (fun s => reverb_left s sr) comb_tunings ++ map (fun s => reverb_right s sr) comb_tunings
    ++ map (fun s => reverb_left s sr) all_pass_tunings ++ map (fun s => reverb_right s sr) all_pass_tunings.
  (** COUNTER-MODEL (not the code): the spread added after the scaling -- 23 frames at every device rate *)
  Definition reverb_right_unscaled_spread (size sr : Z) : Z := reverb_line size sr + STEREO_SPREAD.
End Reverb.

(** what an impulse into a fully wet reverb of stereo width 1 shows first on each channel: the three shortest combs
    (their lengths are closer together than the shortest all-pass, 225, so no all-pass echo comes in between) *)
Definition reverb_first_taps (sr : Z) : list Z :=
  map (fun s => @reverb_left f64 _ s sr) [1116; 1188; 1277] ++ map (fun s => @reverb_right f64 _ s sr) [1116; 1188; 1277].

(** * (b) compressor envelope follower, over the reals *)
Local Open Scope R_scope.
Definition env_coeff (D dt : R) : R := exp (-1 / (D / dt)).
Definition env_step (speed over env : R) : R := over + speed * (env - over).
Fixpoint env_iter (n : nat) (speed over env : R) : R :=
  match n with O => env | S n' => env_iter n' speed over (env_step speed over env) end.
(** a rendering: segments (device rate, frames); the code as it is computes the coefficient from the [dt] in force *)
Fixpoint env_run (D over : R) (segs : list (R * nat)) (env : R) : R :=
  match segs with
  | [] => env
  | (sr, n) :: segs' => env_run D over segs' (env_iter n (env_coeff D (/ sr)) over env)
  end.
Fixpoint segs_time (segs : list (R * nat)) : R :=
  match segs with [] => 0 | (sr, n) :: segs' => INR n / sr + segs_time segs' end.
(** COUNTER-MODEL (not the code): the coefficient computed once, at rate [sr0], and kept across the changes *)
Fixpoint env_run_cached (D over sr0 : R) (segs : list (R * nat)) (env : R) : R :=
  match segs with
  | [] => env
  | (_, n) :: segs' => env_run_cached D over sr0 segs' (env_iter n (env_coeff D (/ sr0)) over env)
  end.
Fixpoint segs_frames (segs : list (R * nat)) : nat :=
  match segs with [] => O | (_, n) :: segs' => (n + segs_frames segs')%nat end.
