(** C16 — the rate-in-force invariant of the protocol model, for ALL histories.

    [Inv]: dt = 1/rate; every main-track effect was last told the device rate; every track anywhere (arena or
    queue, any depth) that is not marked [raced] has all its effects (and their nested effects) last told the
    device rate; every caller thread between load and enqueue that is not marked [raced] holds the device rate.
    [raced] is set exactly by a change to a different rate that happens while the track is between its load and
    its pick-up, and cleared when a fan-out reaches the track. *)
From Coq Require Import ZArith List Bool Lia.
From KV Require Import C16.Model C16.ProofsWitness.
Import ListNotations.
Local Open Scope Z_scope.

(** ** induction principles for the nested types *)
Section EffInd.
  Variable P : effect -> Prop.
  Hypothesis H : forall i k told fb, Forall P fb -> P (Eff i k told fb).
  Fixpoint effect_ind' (e : effect) : P e :=
    match e with
    | Eff i k told fb =>
        H i k told fb ((fix go (l : list effect) : Forall P l :=
                          match l with [] => Forall_nil _ | x :: l' => Forall_cons _ (effect_ind' x) (go l') end) fb)
    end.
End EffInd.
Section TrkInd.
  Variable P : track -> Prop.
  Hypothesis H : forall i rc effs ar q, Forall P ar -> Forall P q -> P (Trk i rc effs ar q).
  Fixpoint track_ind' (t : track) : P t :=
    match t with
    | Trk i rc effs ar q =>
        let go := fix go (l : list track) : Forall P l :=
                    match l with [] => Forall_nil _ | x :: l' => Forall_cons _ (track_ind' x) (go l') end in
        H i rc effs ar q (go ar) (go q)
    end.
End TrkInd.

(** ** [forallb] helpers *)
Definition fa {A} (f : A -> bool) (l : list A) : Prop := forallb f l = true.
Lemma fa_in {A} (f : A -> bool) l : fa f l <-> (forall x, In x l -> f x = true).
Proof. apply forallb_forall. Qed.
Lemma fa_nil {A} (f : A -> bool) : fa f []. Proof. reflexivity. Qed.
Lemma fa_cons {A} (f : A -> bool) x l : fa f (x :: l) <-> f x = true /\ fa f l.
Proof. unfold fa. cbn. apply andb_true_iff. Qed.
Lemma fa_app {A} (f : A -> bool) l1 l2 : fa f (l1 ++ l2) <-> fa f l1 /\ fa f l2.
Proof. unfold fa. rewrite forallb_app. apply andb_true_iff. Qed.
Lemma fa_rev {A} (f : A -> bool) l : fa f (rev l) <-> fa f l.
Proof. rewrite !fa_in. split; intros H x Hx; apply H; [apply -> in_rev|apply in_rev]; exact Hx. Qed.
Lemma fa_map {A B} (f : B -> bool) (g : A -> B) l : fa f (map g l) <-> fa (fun x => f (g x)) l.
Proof.
  rewrite !fa_in. split.
  - intros H x Hx. apply H. apply in_map. exact Hx.
  - intros H y Hy. apply in_map_iff in Hy. destruct Hy as [x [E Hx]]. subst y. apply H. exact Hx.
Qed.
Lemma fa_impl {A} (f g : A -> bool) l : (forall x, In x l -> f x = true -> g x = true) -> fa f l -> fa g l.
Proof. rewrite !fa_in. intros H F x Hx. apply H; auto. Qed.
Lemma fa_all {A} (f : A -> bool) l : (forall x, In x l -> f x = true) -> fa f l.
Proof. apply fa_in. Qed.
Lemma fa_filter {A} (f g : A -> bool) l : fa f l -> fa f (filter g l).
Proof. rewrite !fa_in. intros H x Hx. apply filter_In in Hx. apply H, Hx. Qed.
Lemma Forall_In {A} (P : A -> Prop) l x : Forall P l -> In x l -> P x.
Proof. intros F. rewrite Forall_forall in F. apply F. Qed.

(** ** the state predicates *)
Fixpoint eff_fresh (r : Z) (e : effect) : bool :=
  match e with Eff _ _ told fb => (last_told told =? r) && forallb (eff_fresh r) fb end.
Definition trk_raced (t : track) : bool := match t with Trk _ rc _ _ _ => rc end.
Fixpoint trk_inv (r : Z) (t : track) : bool :=
  match t with
  | Trk _ rc effs ar q => (rc || forallb (eff_fresh r) effs) && forallb (trk_inv r) ar && forallb (trk_inv r) q
  end.
Definition pend_inv (r : Z) (p : pending) : bool :=
  match p_track p with Trk _ rc _ [] [] => rc || (p_loaded p =? r) | _ => false end.
Definition all_tracks (s : state) : list track := s_subs s ++ s_subq s ++ s_sends s ++ s_sendq s.

Definition Inv (s : state) : Prop :=
  s_dtr s = s_rate s /\ fa (eff_fresh (s_rate s)) (s_main s) /\
  fa (trk_inv (s_rate s)) (all_tracks s) /\ fa (pend_inv (s_rate s)) (s_pend s).

(** no track anywhere carries the [raced] mark *)
Fixpoint clean (t : track) : bool :=
  match t with Trk _ rc _ ar q => negb rc && forallb clean ar && forallb clean q end.
Definition NoRaced (s : state) : Prop := fa clean (all_tracks s) /\ fa (fun p => clean (p_track p)) (s_pend s).

(** ** effects *)
Lemma tell_fresh h r e : eff_fresh r (tell h r e) = true.
Proof.
  induction e as [i k told fb IH] using effect_ind'. cbn [tell eff_fresh last_told].
  rewrite Z.eqb_refl. cbn [andb]. apply fa_map. apply fa_all. intros x Hx. exact (Forall_In _ _ _ IH Hx).
Qed.
Lemma tell_all_fresh h r l : fa (eff_fresh r) (map (tell h r) l).
Proof. apply fa_map. apply fa_all. intros x _. apply tell_fresh. Qed.

(** ** tracks *)
Lemma trk_inv_unfold r i rc effs ar q :
  trk_inv r (Trk i rc effs ar q) = true <->
  (rc = true \/ fa (eff_fresh r) effs) /\ fa (trk_inv r) ar /\ fa (trk_inv r) q.
Proof. cbn [trk_inv]. rewrite !andb_true_iff, orb_true_iff. unfold fa. tauto. Qed.
Lemma clean_unfold i rc effs ar q :
  clean (Trk i rc effs ar q) = true <-> rc = false /\ fa clean ar /\ fa clean q.
Proof. cbn [clean]. rewrite !andb_true_iff, negb_true_iff. unfold fa. tauto. Qed.

Lemma mark_raced_inv r t : trk_inv r (mark_raced t) = true.
Proof.
  induction t as [i rc effs ar q IHa IHq] using track_ind'. cbn [mark_raced]. apply trk_inv_unfold.
  split; [left; reflexivity|]. split; apply fa_map, fa_all; intros x Hx; [exact (Forall_In _ _ _ IHa Hx)|exact (Forall_In _ _ _ IHq Hx)].
Qed.

Lemma change_track_inv d r t : (d = true \/ trk_inv r t = true) -> trk_inv r (change_track d r t) = true.
Proof.
  induction t as [i rc effs ar q IHa IHq] using track_ind'. intro Hd. cbn [change_track]. apply trk_inv_unfold.
  split; [right; apply tell_all_fresh|]. split.
  - apply fa_map, fa_all. intros x Hx. apply (Forall_In _ _ _ IHa Hx).
    destruct Hd as [Hd|Hd]; [left; exact Hd|right]. apply trk_inv_unfold in Hd. destruct Hd as [_ [Ha _]].
    apply (proj1 (fa_in _ _) Ha x Hx).
  - destruct d.
    + apply fa_map, fa_all. intros x _. apply mark_raced_inv.
    + destruct Hd as [Hd|Hd]; [discriminate|]. apply trk_inv_unfold in Hd. tauto.
Qed.

Lemma pickup_inv r t : trk_inv r t = true -> trk_inv r (pickup t) = true.
Proof.
  induction t as [i rc effs ar q IHa IHq] using track_ind'. intro Ht. apply trk_inv_unfold in Ht.
  destruct Ht as [He [Ha Hq]]. cbn [pickup]. apply trk_inv_unfold. split; [exact He|]. split; [|apply fa_nil].
  apply fa_app. split.
  - apply fa_rev, fa_map, fa_all. intros x Hx. apply (Forall_In _ _ _ IHq Hx). apply (proj1 (fa_in _ _) Hq x Hx).
  - apply fa_map, fa_all. intros x Hx. apply (Forall_In _ _ _ IHa Hx). apply (proj1 (fa_in _ _) Ha x Hx).
Qed.

Lemma push_under_inv r pid nt t : trk_inv r nt = true -> trk_inv r t = true -> trk_inv r (push_under pid nt t) = true.
Proof.
  intro Hn. induction t as [i rc effs ar q IHa IHq] using track_ind'. intro Ht. apply trk_inv_unfold in Ht.
  destruct Ht as [He [Ha Hq]]. cbn [push_under]. apply trk_inv_unfold. split; [exact He|].
  assert (Q : fa (trk_inv r) (map (push_under pid nt) q)).
  { apply fa_map, fa_all. intros x Hx. apply (Forall_In _ _ _ IHq Hx). apply (proj1 (fa_in _ _) Hq x Hx). }
  split.
  - apply fa_map, fa_all. intros x Hx. apply (Forall_In _ _ _ IHa Hx). apply (proj1 (fa_in _ _) Ha x Hx).
  - destruct (i =? pid); [|exact Q]. apply fa_app. split; [exact Q|]. apply fa_cons. split; [exact Hn|apply fa_nil].
Qed.

Lemma init_pending_inv r p : pend_inv r p = true -> trk_inv r (init_track (p_loaded p) (p_track p)) = true.
Proof.
  unfold pend_inv. destruct (p_track p) as [i rc effs ar q]. destruct ar; [|discriminate]. destruct q; [|discriminate].
  intro H. cbn [init_track map]. apply trk_inv_unfold. split; [|split; apply fa_nil].
  apply orb_true_iff in H. destruct H as [H|H]; [left; exact H|right].
  apply Z.eqb_eq in H. rewrite H. apply tell_all_fresh.
Qed.

(** ** the invariant holds initially and is preserved by every step *)
Lemma find_pending_in slot l p : find_pending slot l = Some p -> In p l.
Proof. unfold find_pending. intro H. apply find_some in H. tauto. Qed.

Lemma Inv_init sr ibs main : Inv (init_state sr ibs main).
Proof.
  unfold Inv, init_state, all_tracks. cbn. split; [reflexivity|]. split; [|split; reflexivity].
  apply fa_map, fa_all. intros x _. apply tell_fresh.
Qed.

Ltac split_tracks H :=
  unfold all_tracks in H; cbn [s_subs s_subq s_sends s_sendq] in H;
  repeat (apply fa_app in H; let H1 := fresh "T" in destruct H as [H1 H]).

Lemma step_Inv fo s o : Inv s -> Inv (fst (step fo s o)).
Proof.
  intros [Hdt [Hm [Ht Hp]]]. destruct o as [slot d sh|slot|r|n]; cbn [step].
  - (* load *)
    destruct (find_pending slot (s_pend s)); cbn [fst]; [repeat split; assumption|].
    unfold Inv, all_tracks in *. cbn. repeat split; try assumption.
    apply fa_app. split; [exact Hp|]. apply fa_cons. split; [|apply fa_nil].
    unfold pend_inv, build_track. cbn. rewrite Z.eqb_refl. reflexivity.
  - (* enqueue *)
    destruct (find_pending slot (s_pend s)) as [p|] eqn:F; cbn [fst]; [|repeat split; assumption].
    pose proof (proj1 (fa_in _ _) Hp p (find_pending_in _ _ _ F)) as Pp.
    pose proof (init_pending_inv _ _ Pp) as Tn.
    assert (Hp' : fa (pend_inv (s_rate s)) (remove_pending slot (s_pend s))) by (apply fa_filter; exact Hp).
    split_tracks Ht.
    destruct (p_dest p) as [|pid|]; cbn [fst]; unfold Inv, all_tracks; cbn [s_rate s_dtr s_main s_subs s_subq s_sends s_sendq s_pend];
      (split; [exact Hdt|]); (split; [exact Hm|]); (split; [|exact Hp']).
    + repeat (apply fa_app; split); try assumption. apply fa_cons. split; [exact Tn|apply fa_nil].
    + repeat (apply fa_app; split); try assumption.
      * apply fa_map, fa_all. intros x Hx. apply push_under_inv; [exact Tn|]. apply (proj1 (fa_in _ _) T x Hx).
      * apply fa_map, fa_all. intros x Hx. apply push_under_inv; [exact Tn|]. apply (proj1 (fa_in _ _) T0 x Hx).
    + repeat (apply fa_app; split); try assumption. apply fa_cons. split; [exact Tn|apply fa_nil].
  - (* change *)
    cbn [fst]. unfold Inv, all_tracks. cbn [s_rate s_dtr s_main s_subs s_subq s_sends s_sendq s_pend].
    split; [reflexivity|]. split; [apply tell_all_fresh|].
    split_tracks Ht.
    destruct (r =? s_rate s) eqn:E; cbn [negb].
    + apply Z.eqb_eq in E. subst r. split; [|exact Hp].
      repeat (apply fa_app; split); try assumption.
      * apply fa_map, fa_all. intros x Hx. apply change_track_inv. right. apply (proj1 (fa_in _ _) T x Hx).
      * apply fa_map, fa_all. intros x Hx. apply change_track_inv. right. apply (proj1 (fa_in _ _) T1 x Hx).
    + split.
      * repeat (apply fa_app; split).
        -- apply fa_map, fa_all. intros x _. apply change_track_inv. left. reflexivity.
        -- apply fa_map, fa_all. intros x _. apply mark_raced_inv.
        -- apply fa_map, fa_all. intros x _. apply change_track_inv. left. reflexivity.
        -- apply fa_map, fa_all. intros x _. apply mark_raced_inv.
      * apply fa_map, fa_all. intros p Hpi. pose proof (proj1 (fa_in _ _) Hp p Hpi) as Pp.
        unfold pend_inv in *. unfold mark_pending. cbn [p_track p_loaded].
        destruct (p_track p) as [i rc effs ar q]. destruct ar; [|discriminate]. destruct q; [|discriminate]. reflexivity.
  - (* callback *)
    cbn [fst]. unfold Inv, all_tracks. cbn [s_rate s_dtr s_main s_subs s_subq s_sends s_sendq s_pend].
    split; [exact Hdt|]. split; [exact Hm|]. split; [|exact Hp].
    split_tracks Ht. cbn [app]. rewrite app_nil_r.
    repeat (apply fa_app; split); try assumption.
    + apply fa_map. apply fa_app. split; [apply fa_rev|].
      * apply fa_all. intros x Hx. apply pickup_inv. apply (proj1 (fa_in _ _) T0 x Hx).
      * apply fa_all. intros x Hx. apply pickup_inv. apply (proj1 (fa_in _ _) T x Hx).
    + apply fa_rev. exact Ht.
Qed.

Lemma run_Inv fo h : forall s, Inv s -> Inv (fst (run fo s h)).
Proof.
  induction h as [|o h IH]; intros s Hs; cbn [run]; [exact Hs|].
  pose proof (step_Inv fo s o Hs) as H1. destruct (step fo s o) as [s1 e1]. cbn [fst] in H1.
  specialize (IH s1 H1). destruct (run fo s1 h) as [s2 e2]. exact IH.
Qed.

(** ** what the invariant says about the [process] calls *)
Definition ev_id (e : event) : Z := let '(i, _, _, _) := e in i.
Fixpoint eff_ids (e : effect) : list Z := match e with Eff i _ _ fb => i :: flat_map eff_ids fb end.
(** the effects that process (arena-reachable) and belong to a track marked [raced] *)
Fixpoint raced_ids (t : track) : list Z :=
  match t with
  | Trk _ rc effs ar _ => (if rc then flat_map eff_ids effs else []) ++ flat_map raced_ids ar
  end.

Lemma Forall_flat_map' {A B} (P : B -> Prop) (f : A -> list B) l :
  (forall x, In x l -> Forall P (f x)) -> Forall P (flat_map f l).
Proof.
  induction l as [|a l IH]; intro H; cbn; [constructor|].
  apply Forall_app. split; [apply H; left; reflexivity|apply IH; intros x Hx; apply H; right; exact Hx].
Qed.

Section Ev.
  Variable fo : Z -> Z -> Z.

  Lemma process_effect_fresh r d e : forall n, eff_fresh r e = true ->
    Forall (fun ev => let '(_, told, dtr, _) := ev in told = r /\ dtr = d) (process_effect fo d n e).
  Proof.
    induction e as [i k told fb IH] using effect_ind'. intros n Hf. cbn [eff_fresh] in Hf.
    apply andb_true_iff in Hf. destruct Hf as [Ht Hfb]. apply Z.eqb_eq in Ht.
    destruct k as [|t]; cbn [process_effect].
    - constructor; [split; [exact Ht|reflexivity]|constructor].
    - apply Forall_flat_map'. intros c _. apply Forall_flat_map'. intros x Hx.
      apply (Forall_In _ _ _ IH Hx). apply (proj1 (fa_in _ _) Hfb x Hx).
  Qed.

  Lemma process_effect_ids d e : forall n, Forall (fun ev => In (ev_id ev) (eff_ids e)) (process_effect fo d n e).
  Proof.
    induction e as [i k told fb IH] using effect_ind'. intro n. destruct k as [|t]; cbn [process_effect eff_ids].
    - constructor; [left; reflexivity|constructor].
    - apply Forall_flat_map'. intros c _. apply Forall_flat_map'. intros x Hx.
      eapply Forall_impl; [|apply (Forall_In _ _ _ IH Hx)]. intros ev Hev. right. apply in_flat_map. exists x. split; assumption.
  Qed.

  Definition ev_fine (r d : Z) (bad : list Z) (ev : event) : Prop :=
    (let '(_, told, dtr, _) := ev in told = r /\ dtr = d) \/ In (ev_id ev) bad.

  Lemma process_track_fine r d n t : trk_inv r t = true ->
    Forall (ev_fine r d (raced_ids t)) (process_track fo d n t).
  Proof.
    induction t as [i rc effs ar q IHa IHq] using track_ind'. intro Ht. apply trk_inv_unfold in Ht.
    destruct Ht as [He [Ha _]]. cbn [process_track raced_ids]. apply Forall_app. split.
    - apply Forall_flat_map'. intros x Hx.
      eapply Forall_impl; [|apply (Forall_In _ _ _ IHa Hx); apply (proj1 (fa_in _ _) Ha x Hx)].
      intros ev [Hev|Hev]; [left; exact Hev|right]. apply in_or_app. right. apply in_flat_map. exists x. split; assumption.
    - apply Forall_flat_map'. intros e Hein. destruct He as [He|He].
      + subst rc. eapply Forall_impl; [|apply process_effect_ids]. intros ev Hev. right. apply in_or_app. left.
        apply in_flat_map. exists e. split; assumption.
      + eapply Forall_impl; [|apply process_effect_fresh; apply (proj1 (fa_in _ _) He e Hein)].
        intros ev Hev. left. exact Hev.
  Qed.

  (** every [process] call of a callback is in force, except those of effects on tracks that raced with a change *)
  Lemma callback_events s n : Inv s ->
    let s' := fst (step fo s (A_callback n)) in
    Forall (ev_fine (s_rate s') (s_rate s') (flat_map raced_ids (s_subs s' ++ s_sends s'))) (snd (step fo s (A_callback n))).
  Proof.
    intro HI. pose proof (step_Inv fo s (A_callback n) HI) as HI'. cbn zeta.
    set (s' := fst (step fo s (A_callback n))) in *.
    assert (E : snd (step fo s (A_callback n)) = flat_map (process_chunk fo s') (chunks_of n (s_ibs s))) by reflexivity.
    rewrite E. clear E. destruct HI' as [Hdt [Hm [Ht _]]]. unfold all_tracks in Ht.
    apply fa_app in Ht. destruct Ht as [T1 Ht]. apply fa_app in Ht. destruct Ht as [_ Ht].
    apply fa_app in Ht. destruct Ht as [T2 _].
    apply Forall_flat_map'. intros c _. unfold process_chunk. rewrite Hdt. repeat (apply Forall_app; split).
    - apply Forall_flat_map'. intros t Hti.
      eapply Forall_impl; [|apply process_track_fine; apply (proj1 (fa_in _ _) T1 t Hti)].
      intros ev [Hev|Hev]; [left; exact Hev|right]. apply in_flat_map. exists t. split; [apply in_or_app; left; exact Hti|exact Hev].
    - apply Forall_flat_map'. intros t Hti.
      eapply Forall_impl; [|apply process_track_fine; apply (proj1 (fa_in _ _) T2 t Hti)].
      intros ev [Hev|Hev]; [left; exact Hev|right]. apply in_flat_map. exists t. split; [apply in_or_app; right; exact Hti|exact Hev].
    - apply Forall_flat_map'. intros e Hei.
      eapply Forall_impl; [|apply process_effect_fresh; apply (proj1 (fa_in _ _) Hm e Hei)]. intros ev Hev. left. exact Hev.
  Qed.
End Ev.

(** ** under the guard nothing is ever marked [raced] *)
Lemma clean_no_raced t : clean t = true -> raced_ids t = [].
Proof.
  induction t as [i rc effs ar q IHa IHq] using track_ind'. intro H. apply clean_unfold in H. destruct H as [Hr [Ha _]].
  subst rc. cbn [raced_ids app]. induction ar as [|a ar IH]; [reflexivity|]. cbn [flat_map].
  apply fa_cons in Ha. destruct Ha as [Ca Ha]. inversion IHa as [|? ? Pa Pl]; subst.
  rewrite (Pa Ca). cbn [app]. apply IH; assumption.
Qed.

Lemma init_track_clean r t : clean t = true -> clean (init_track r t) = true.
Proof.
  induction t as [i rc effs ar q IHa IHq] using track_ind'. intro H. apply clean_unfold in H. destruct H as [Hr [Ha Hq]].
  cbn [init_track]. apply clean_unfold. split; [exact Hr|]. split; [|exact Hq].
  apply fa_map, fa_all. intros x Hx. apply (Forall_In _ _ _ IHa Hx). apply (proj1 (fa_in _ _) Ha x Hx).
Qed.
Lemma pickup_clean t : clean t = true -> clean (pickup t) = true.
Proof.
  induction t as [i rc effs ar q IHa IHq] using track_ind'. intro H. apply clean_unfold in H. destruct H as [Hr [Ha Hq]].
  cbn [pickup]. apply clean_unfold. split; [exact Hr|]. split; [|apply fa_nil]. apply fa_app. split.
  - apply fa_rev, fa_map, fa_all. intros x Hx. apply (Forall_In _ _ _ IHq Hx). apply (proj1 (fa_in _ _) Hq x Hx).
  - apply fa_map, fa_all. intros x Hx. apply (Forall_In _ _ _ IHa Hx). apply (proj1 (fa_in _ _) Ha x Hx).
Qed.
Lemma push_under_clean pid nt t : clean nt = true -> clean t = true -> clean (push_under pid nt t) = true.
Proof.
  intro Hn. induction t as [i rc effs ar q IHa IHq] using track_ind'. intro H. apply clean_unfold in H.
  destruct H as [Hr [Ha Hq]]. cbn [push_under]. apply clean_unfold. split; [exact Hr|].
  assert (Q : fa clean (map (push_under pid nt) q)).
  { apply fa_map, fa_all. intros x Hx. apply (Forall_In _ _ _ IHq Hx). apply (proj1 (fa_in _ _) Hq x Hx). }
  split.
  - apply fa_map, fa_all. intros x Hx. apply (Forall_In _ _ _ IHa Hx). apply (proj1 (fa_in _ _) Ha x Hx).
  - destruct (i =? pid); [|exact Q]. apply fa_app. split; [exact Q|]. apply fa_cons. split; [exact Hn|apply fa_nil].
Qed.
Lemma change_same_clean r t : clean t = true -> clean (change_track false r t) = true.
Proof.
  induction t as [i rc effs ar q IHa IHq] using track_ind'. intro H. apply clean_unfold in H. destruct H as [Hr [Ha Hq]].
  cbn [change_track]. apply clean_unfold. split; [reflexivity|]. split; [|exact Hq].
  apply fa_map, fa_all. intros x Hx. apply (Forall_In _ _ _ IHa Hx). apply (proj1 (fa_in _ _) Ha x Hx).
Qed.
Lemma change_quiet_clean d r t : no_queue t = true -> clean (change_track d r t) = true.
Proof.
  induction t as [i rc effs ar q IHa IHq] using track_ind'. intro H. cbn [no_queue] in H. destruct q; [|discriminate].
  cbn [change_track]. apply clean_unfold. split; [reflexivity|]. split; [|destruct d; apply fa_nil].
  apply fa_map, fa_all. intros x Hx. apply (Forall_In _ _ _ IHa Hx). apply (proj1 (fa_in _ _) H x Hx).
Qed.

Lemma NoRaced_init sr ibs main : NoRaced (init_state sr ibs main).
Proof. split; reflexivity. Qed.

Lemma step_NoRaced fo s o :
  (match o with A_change r => (r =? s_rate s) || quiescent s | _ => true end) = true ->
  NoRaced s -> NoRaced (fst (step fo s o)).
Proof.
  intros G [Ht Hp]. destruct o as [slot d sh|slot|r|n]; cbn [step].
  - destruct (find_pending slot (s_pend s)); cbn [fst]; [split; assumption|].
    split; [exact Ht|]. cbn [s_pend]. apply fa_app. split; [exact Hp|]. apply fa_cons. split; [reflexivity|apply fa_nil].
  - destruct (find_pending slot (s_pend s)) as [p|] eqn:F; cbn [fst]; [|split; assumption].
    pose proof (proj1 (fa_in _ _) Hp p (find_pending_in _ _ _ F)) as Pp. cbn beta in Pp.
    pose proof (init_track_clean (p_loaded p) _ Pp) as Tn.
    assert (Hp' : fa (fun p => clean (p_track p)) (remove_pending slot (s_pend s))) by (apply fa_filter; exact Hp).
    split_tracks Ht.
    destruct (p_dest p) as [|pid|]; cbn [fst]; unfold NoRaced, all_tracks; cbn [s_subs s_subq s_sends s_sendq s_pend];
      (split; [|exact Hp']).
    + repeat (apply fa_app; split); try assumption. apply fa_cons. split; [exact Tn|apply fa_nil].
    + repeat (apply fa_app; split); try assumption.
      * apply fa_map, fa_all. intros x Hx. apply push_under_clean; [exact Tn|]. apply (proj1 (fa_in _ _) T x Hx).
      * apply fa_map, fa_all. intros x Hx. apply push_under_clean; [exact Tn|]. apply (proj1 (fa_in _ _) T0 x Hx).
    + repeat (apply fa_app; split); try assumption. apply fa_cons. split; [exact Tn|apply fa_nil].
  - cbn [fst]. unfold NoRaced, all_tracks. cbn [s_subs s_subq s_sends s_sendq s_pend].
    split_tracks Ht. destruct (r =? s_rate s) eqn:E; cbn [negb].
    + split; [|exact Hp]. repeat (apply fa_app; split); try assumption.
      * apply fa_map, fa_all. intros x Hx. apply change_same_clean. apply (proj1 (fa_in _ _) T x Hx).
      * apply fa_map, fa_all. intros x Hx. apply change_same_clean. apply (proj1 (fa_in _ _) T1 x Hx).
    + cbn [orb] in G. unfold quiescent in G.
      destruct (s_pend s); [|discriminate]. destruct (s_subq s); [|discriminate]. destruct (s_sendq s); [|discriminate].
      apply andb_true_iff in G. destruct G as [G1 G2]. split; [|apply fa_nil]. cbn [map].
      repeat (apply fa_app; split); try apply fa_nil.
      * apply fa_map, fa_all. intros x Hx. apply change_quiet_clean. apply (proj1 (fa_in _ _) G1 x Hx).
      * apply fa_map, fa_all. intros x Hx. apply change_quiet_clean. apply (proj1 (fa_in _ _) G2 x Hx).
  - cbn [fst]. unfold NoRaced, all_tracks. cbn [s_subs s_subq s_sends s_sendq s_pend]. split; [|exact Hp].
    split_tracks Ht. cbn [app]. rewrite app_nil_r. repeat (apply fa_app; split); try assumption.
    + apply fa_map. apply fa_app. split; [apply fa_rev|].
      * apply fa_all. intros x Hx. apply pickup_clean. apply (proj1 (fa_in _ _) T0 x Hx).
      * apply fa_all. intros x Hx. apply pickup_clean. apply (proj1 (fa_in _ _) T x Hx).
    + apply fa_rev. exact Ht.
Qed.

Lemma no_raced_ids l : fa clean l -> flat_map raced_ids l = [].
Proof.
  induction l as [|t l IH]; intro H; [reflexivity|]. apply fa_cons in H. destruct H as [H1 H2].
  cbn [flat_map]. rewrite (clean_no_raced _ H1), (IH H2). reflexivity.
Qed.

(** ** the general theorem: under the guard, every [process] call of every callback of the history is in force *)
Lemma guarded_all_in_force fo h : forall s, Inv s -> NoRaced s -> no_race fo s h = true -> all_in_force fo s h.
Proof.
  induction h as [|o h IH]; intros s HI HN G; cbn [all_in_force]; [exact I|].
  cbn [no_race] in G. apply andb_true_iff in G. destruct G as [G1 G2].
  pose proof (step_Inv fo s o HI) as HI'. pose proof (step_NoRaced fo s o G1 HN) as HN'.
  split; [|apply IH; assumption].
  destruct o as [slot d sh|slot|r|n].
  - cbn [step]. destruct (find_pending slot (s_pend s)); constructor.
  - cbn [step]. destruct (find_pending slot (s_pend s)) as [p|]; [destruct (p_dest p)|]; constructor.
  - constructor.
  - pose proof (callback_events fo s n HI) as CE. cbn zeta in CE.
    destruct HN' as [Hc _]. unfold all_tracks in Hc.
    apply fa_app in Hc. destruct Hc as [C1 Hc]. apply fa_app in Hc. destruct Hc as [_ Hc].
    apply fa_app in Hc. destruct Hc as [C2 _].
    rewrite no_raced_ids in CE by (apply fa_app; split; assumption).
    eapply Forall_impl; [|exact CE]. intros [[[i t] d] m] [Hev|[]]. exact Hev.
Qed.

Theorem rate_in_force_guarded_l fo sr ibs main h :
  no_race fo (init_state sr ibs main) h = true -> all_in_force fo (init_state sr ibs main) h.
Proof. apply guarded_all_in_force; [apply Inv_init|apply NoRaced_init]. Qed.

(** without any guard: after any history, dt is the reciprocal of the device rate, the main-track effects and every
    effect of every un-raced track were last told the device rate, and the calls of a further callback are in force
    except for effects of raced tracks *)
Theorem rate_in_force_all_histories_l fo sr ibs main h n :
  let s := fst (run fo (init_state sr ibs main) h) in
  let s' := fst (step fo s (A_callback n)) in
  Inv s /\
  Forall (ev_fine (s_rate s') (s_rate s') (flat_map raced_ids (s_subs s' ++ s_sends s'))) (snd (step fo s (A_callback n))).
Proof.
  cbn zeta. pose proof (run_Inv fo h _ (Inv_init sr ibs main)) as HI. split; [exact HI|]. apply callback_events. exact HI.
Qed.

(** the fan-out reaches everything that is in the arenas — from ANY state *)
Fixpoint arena_fresh (r : Z) (t : track) : bool :=
  match t with Trk _ _ effs ar _ => forallb (eff_fresh r) effs && forallb (arena_fresh r) ar end.
Lemma change_track_arena_fresh d r t : arena_fresh r (change_track d r t) = true.
Proof.
  induction t as [i rc effs ar q IHa IHq] using track_ind'. cbn [change_track arena_fresh]. apply andb_true_iff. split.
  - apply tell_all_fresh.
  - apply fa_map, fa_all. intros x Hx. exact (Forall_In _ _ _ IHa Hx).
Qed.
Theorem change_reaches_arena_l fo s r :
  let s' := fst (step fo s (A_change r)) in
  s_rate s' = r /\ s_dtr s' = r /\ fa (eff_fresh r) (s_main s') /\ fa (arena_fresh r) (s_subs s' ++ s_sends s').
Proof.
  cbn. repeat split.
  - apply tell_all_fresh.
  - apply fa_app. split; apply fa_map, fa_all; intros x _; apply change_track_arena_fresh.
Qed.

(** a track whose load happens after the (last) change is told the rate in force, whatever happened before:
    load; enqueue from ANY state put a track on the queue whose effects all know the device rate *)
Theorem add_after_change_l fo s slot sh :
  find_pending slot (s_pend s) = None ->
  let s1 := fst (step fo s (G_load slot DSub sh)) in
  let s2 := fst (step fo s1 (G_enqueue slot)) in
  exists t, s_subq s2 = s_subq s ++ [t] /\ trk_inv (s_rate s) t = true /\ trk_raced t = false /\ s_rate s2 = s_rate s.
Proof.
  intro F. cbn [step]. rewrite F. cbn [fst s_pend].
  assert (F2 : forall l p, find_pending slot l = None -> p_slot p = slot -> find_pending slot (l ++ [p]) = Some p).
  { induction l as [|a l IH]; intros p Hn Hs; cbn.
    - rewrite Hs, Z.eqb_refl. reflexivity.
    - cbn in Hn. destruct (p_slot a =? slot); [discriminate|]. apply IH; assumption. }
  set (p := {| p_slot := slot; p_dest := DSub; p_track := build_track sh; p_loaded := s_rate s |}).
  rewrite (F2 (s_pend s) p F eq_refl). cbn [p_dest p fst s_subq p_loaded p_track s_rate].
  eexists. split; [reflexivity|]. split; [|split; reflexivity].
  apply (init_pending_inv (s_rate s) p).
  unfold pend_inv, build_track. cbn. rewrite Z.eqb_refl. reflexivity.
Qed.
