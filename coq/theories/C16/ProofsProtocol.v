(** C16 — the rate-in-force invariant of the protocol model, for ALL histories (no exception class).

    [coherent t]: every effect of [t] (and their nested effects) was last told the rate [t] remembers
    ([Track.sample_rate]); every sub-track in its arena remembers the same rate and is coherent; every sub-track on
    its queue is coherent (it may remember ANOTHER rate: that is the track that was queued across a change).
    [live r t]: [t] remembers [r] and is coherent -- all effects reachable through arenas were last told [r].
    [Inv]: dt = 1/rate, the mixer's copy is the device rate; every main-track effect was last told the device rate;
    every track in the mixer's arenas is live at the device rate; every track on the mixer's queues is coherent;
    a caller thread between load and enqueue holds a freshly built track.
    The comparison in [on_start_processing] turns "coherent" into "live at the rate in force" at pick-up; that is
    the step that did not exist before the repair of F14. *)
From Coq Require Import ZArith List Bool Lia.
From KV Require Import C16.Model C16.ProofsWitness.
Import ListNotations.
Local Open Scope Z_scope.

(** ** induction principles for the nested types *)
Section EffInd.
  Variable P : effect -> Prop.
  Hypothesis H : forall i k told fb, Forall P fb -> P (Eff i k told fb).
  Fixpoint effect_ind' (e : effect) : P e :=
    match e with
    | Eff i k told fb =>
        H i k told fb ((fix go (l : list effect) : Forall P l :=
                          match l with [] => Forall_nil _ | x :: l' => Forall_cons _ (effect_ind' x) (go l') end) fb)
    end.
End EffInd.
Section TrkInd.
  Variable P : track -> Prop.
  Hypothesis H : forall i rc effs ar q, Forall P ar -> Forall P q -> P (Trk i rc effs ar q).
  Fixpoint track_ind' (t : track) : P t :=
    match t with
    | Trk i rc effs ar q =>
        let go := fix go (l : list track) : Forall P l :=
                    match l with [] => Forall_nil _ | x :: l' => Forall_cons _ (track_ind' x) (go l') end in
        H i rc effs ar q (go ar) (go q)
    end.
End TrkInd.

(** ** [forallb] helpers *)
Definition fa {A} (f : A -> bool) (l : list A) : Prop := forallb f l = true.
Lemma fa_in {A} (f : A -> bool) l : fa f l <-> (forall x, In x l -> f x = true).
Proof. apply forallb_forall. Qed.
Lemma fa_nil {A} (f : A -> bool) : fa f []. Proof. reflexivity. Qed.
Lemma fa_cons {A} (f : A -> bool) x l : fa f (x :: l) <-> f x = true /\ fa f l.
Proof. unfold fa. cbn. apply andb_true_iff. Qed.
Lemma fa_app {A} (f : A -> bool) l1 l2 : fa f (l1 ++ l2) <-> fa f l1 /\ fa f l2.
Proof. unfold fa. rewrite forallb_app. apply andb_true_iff. Qed.
Lemma fa_rev {A} (f : A -> bool) l : fa f (rev l) <-> fa f l.
Proof. rewrite !fa_in. split; intros H x Hx; apply H; [apply -> in_rev|apply in_rev]; exact Hx. Qed.
Lemma fa_map {A B} (f : B -> bool) (g : A -> B) l : fa f (map g l) <-> fa (fun x => f (g x)) l.
Proof.
  rewrite !fa_in. split.
  - intros H x Hx. apply H. apply in_map. exact Hx.
  - intros H y Hy. apply in_map_iff in Hy. destruct Hy as [x [E Hx]]. subst y. apply H. exact Hx.
Qed.
Lemma fa_impl {A} (f g : A -> bool) l : (forall x, In x l -> f x = true -> g x = true) -> fa f l -> fa g l.
Proof. rewrite !fa_in. intros H F x Hx. apply H; auto. Qed.
Lemma fa_all {A} (f : A -> bool) l : (forall x, In x l -> f x = true) -> fa f l.
Proof. apply fa_in. Qed.
Lemma fa_filter {A} (f g : A -> bool) l : fa f l -> fa f (filter g l).
Proof. rewrite !fa_in. intros H x Hx. apply filter_In in Hx. apply H, Hx. Qed.
Lemma Forall_In {A} (P : A -> Prop) l x : Forall P l -> In x l -> P x.
Proof. intros F. rewrite Forall_forall in F. apply F. Qed.

(** ** the state predicates *)
Fixpoint eff_fresh (r : Z) (e : effect) : bool :=
  match e with Eff _ _ told fb => (last_told told =? r) && forallb (eff_fresh r) fb end.
Fixpoint coherent (t : track) : bool :=
  match t with
  | Trk _ tr effs ar q =>
      forallb (eff_fresh tr) effs && forallb (fun x => (trk_rate x =? tr) && coherent x) ar && forallb coherent q
  end.
Definition live (r : Z) (t : track) : bool := (trk_rate t =? r) && coherent t.
Definition pend_inv (p : pending) : bool :=
  match p_track p with Trk _ _ _ [] [] => true | _ => false end.
Definition all_tracks (s : state) : list track := s_subs s ++ s_subq s ++ s_sends s ++ s_sendq s.

Definition Inv (s : state) : Prop :=
  s_dtr s = s_rate s /\ s_mix s = s_rate s /\ fa (eff_fresh (s_rate s)) (s_main s) /\
  fa (live (s_rate s)) (s_subs s ++ s_sends s) /\ fa coherent (s_subq s ++ s_sendq s) /\ fa pend_inv (s_pend s).

(** ** effects *)
Lemma tell_fresh h r e : eff_fresh r (tell h r e) = true.
Proof.
  induction e as [i k told fb IH] using effect_ind'. cbn [tell eff_fresh last_told].
  rewrite Z.eqb_refl. cbn [andb]. apply fa_map. apply fa_all. intros x Hx. exact (Forall_In _ _ _ IH Hx).
Qed.
Lemma tell_all_fresh h r l : fa (eff_fresh r) (map (tell h r) l).
Proof. apply fa_map. apply fa_all. intros x _. apply tell_fresh. Qed.

(** ** tracks *)
Lemma coherent_unfold i tr effs ar q :
  coherent (Trk i tr effs ar q) = true <-> fa (eff_fresh tr) effs /\ fa (live tr) ar /\ fa coherent q.
Proof. cbn [coherent]. rewrite !andb_true_iff. unfold fa, live. tauto. Qed.
Lemma live_unfold r i tr effs ar q :
  live r (Trk i tr effs ar q) = true <-> tr = r /\ fa (eff_fresh r) effs /\ fa (live r) ar /\ fa coherent q.
Proof.
  unfold live. cbn [trk_rate]. rewrite andb_true_iff, Z.eqb_eq, coherent_unfold.
  split; [intros [E H]; subst tr; tauto|intros [E H]; subst tr; tauto].
Qed.
Lemma live_coherent r t : live r t = true -> coherent t = true.
Proof. unfold live. intro H. apply andb_true_iff in H. tauto. Qed.
Lemma live_rate r t : live r t = true -> trk_rate t = r.
Proof. unfold live. intro H. apply andb_true_iff in H. destruct H as [H _]. apply Z.eqb_eq. exact H. Qed.
Lemma fa_live_coherent r l : fa (live r) l -> fa coherent l.
Proof. apply fa_impl. intros x _. apply live_coherent. Qed.

(** [on_change_sample_rate] makes a coherent track live at the new rate *)
Lemma change_track_live r t : coherent t = true -> live r (change_track r t) = true.
Proof.
  induction t as [i tr effs ar q IHa IHq] using track_ind'. intro Ht. apply coherent_unfold in Ht.
  destruct Ht as [_ [Ha Hq]]. cbn [change_track]. apply live_unfold.
  split; [reflexivity|]. split; [apply tell_all_fresh|]. split; [|exact Hq].
  apply fa_map, fa_all. intros x Hx. apply (Forall_In _ _ _ IHa Hx).
  apply (live_coherent tr). apply (proj1 (fa_in _ _) Ha x Hx).
Qed.

(** [on_start_processing(r)] WITH the comparison makes a coherent track live at [r], whatever rate it remembered *)
Lemma start_track_live chg r t : coherent t = true -> live r (start_track true chg r t) = true.
Proof.
  revert chg. induction t as [i tr effs ar q IHa IHq] using track_ind'. intros chg Ht. apply coherent_unfold in Ht.
  destruct Ht as [He [Ha Hq]]. cbn [start_track andb].
  assert (Q : fa (live r) (rev (map (start_track true false r) q))).
  { apply fa_rev, fa_map, fa_all. intros x Hx. apply (Forall_In _ _ _ IHq Hx). apply (proj1 (fa_in _ _) Hq x Hx). }
  assert (A : forall c, fa (live r) (map (start_track true c r) ar)).
  { intro c. apply fa_map, fa_all. intros x Hx. apply (Forall_In _ _ _ IHa Hx).
    apply (live_coherent tr). apply (proj1 (fa_in _ _) Ha x Hx). }
  apply live_unfold. destruct chg.
  - rewrite Z.eqb_refl. cbn [negb orb]. split; [reflexivity|]. split; [apply tell_all_fresh|].
    split; [apply fa_app; split; [exact Q|apply A]|apply fa_nil].
  - cbn [orb]. destruct (tr =? r) eqn:E; cbn [negb].
    + apply Z.eqb_eq in E. subst tr. split; [reflexivity|]. split; [exact He|].
      split; [apply fa_app; split; [exact Q|apply A]|apply fa_nil].
    + split; [reflexivity|]. split; [apply tell_all_fresh|].
      split; [apply fa_app; split; [exact Q|apply A]|apply fa_nil].
Qed.

(** the flag of [start_track] is what it is said to be: the parent's [on_change_sample_rate] came first *)
Lemma start_after_change_l rs r t : start_track rs true r t = start_track rs false r (change_track r t).
Proof.
  induction t as [i tr effs ar q IHa IHq] using track_ind'. cbn [change_track start_track].
  rewrite Z.eqb_refl. cbn [negb]. rewrite andb_false_r. cbn [orb]. f_equal. f_equal.
  rewrite map_map. apply map_ext_in. intros x Hx. exact (Forall_In _ _ _ IHa Hx).
Qed.

Lemma push_under_rate pid nt t : trk_rate (push_under pid nt t) = trk_rate t.
Proof. destruct t. reflexivity. Qed.
Lemma push_under_coherent pid nt t : coherent nt = true -> coherent t = true -> coherent (push_under pid nt t) = true.
Proof.
  intro Hn. induction t as [i tr effs ar q IHa IHq] using track_ind'. intro Ht. apply coherent_unfold in Ht.
  destruct Ht as [He [Ha Hq]]. cbn [push_under]. apply coherent_unfold. split; [exact He|].
  assert (Q : fa coherent (map (push_under pid nt) q)).
  { apply fa_map, fa_all. intros x Hx. apply (Forall_In _ _ _ IHq Hx). apply (proj1 (fa_in _ _) Hq x Hx). }
  split.
  - apply fa_map, fa_all. intros x Hx. pose proof (proj1 (fa_in _ _) Ha x Hx) as Lx.
    unfold live. rewrite push_under_rate. apply andb_true_iff. split.
    + apply Z.eqb_eq. apply (live_rate _ _ Lx).
    + apply (Forall_In _ _ _ IHa Hx). apply (live_coherent _ _ Lx).
  - destruct (i =? pid); [|exact Q]. apply fa_app. split; [exact Q|]. apply fa_cons. split; [exact Hn|apply fa_nil].
Qed.
Lemma push_under_live r pid nt t : coherent nt = true -> live r t = true -> live r (push_under pid nt t) = true.
Proof.
  intros Hn Ht. unfold live. rewrite push_under_rate. apply andb_true_iff. split.
  - apply Z.eqb_eq. apply (live_rate _ _ Ht).
  - apply push_under_coherent; [exact Hn|apply (live_coherent _ _ Ht)].
Qed.

(** [init_effects(loaded)] on a freshly built track: coherent, remembering the rate the caller loaded *)
Lemma init_pending_live p : pend_inv p = true -> live (p_loaded p) (init_track (p_loaded p) (p_track p)) = true.
Proof.
  unfold pend_inv. destruct (p_track p) as [i tr effs ar q]. destruct ar; [|discriminate]. destruct q; [|discriminate].
  intros _. cbn [init_track map]. apply live_unfold. split; [reflexivity|]. split; [apply tell_all_fresh|].
  split; apply fa_nil.
Qed.

(** ** the invariant holds initially and is preserved by every step *)
Lemma find_pending_in slot l p : find_pending slot l = Some p -> In p l.
Proof. unfold find_pending. intro H. apply find_some in H. tauto. Qed.

Lemma Inv_init sr ibs main : Inv (init_state sr ibs main).
Proof.
  unfold Inv, init_state. cbn. split; [reflexivity|]. split; [reflexivity|]. split; [|repeat split; reflexivity].
  apply fa_map, fa_all. intros x _. apply tell_fresh.
Qed.

Lemma step_Inv fo s o : Inv s -> Inv (fst (step fo s o)).
Proof.
  intros [Hdt [Hmx [Hm [Hl [Hq Hp]]]]]. unfold step. destruct o as [slot d sh|slot|r|n]; cbn [step_gen].
  - (* load *)
    destruct (find_pending slot (s_pend s)); cbn [fst]; [repeat split; assumption|].
    unfold Inv in *. cbn [s_rate s_dtr s_mix s_main s_subs s_subq s_sends s_sendq s_pend].
    repeat split; try assumption.
    apply fa_app. split; [exact Hp|]. apply fa_cons. split; [reflexivity|apply fa_nil].
  - (* enqueue *)
    destruct (find_pending slot (s_pend s)) as [p|] eqn:F; cbn [fst]; [|repeat split; assumption].
    pose proof (proj1 (fa_in _ _) Hp p (find_pending_in _ _ _ F)) as Pp.
    pose proof (live_coherent _ _ (init_pending_live _ Pp)) as Tn.
    assert (Hp' : fa pend_inv (remove_pending slot (s_pend s))) by (apply fa_filter; exact Hp).
    apply fa_app in Hl. destruct Hl as [L1 L2]. apply fa_app in Hq. destruct Hq as [Q1 Q2].
    destruct (p_dest p) as [|pid|]; cbn [fst]; unfold Inv; cbn [s_rate s_dtr s_mix s_main s_subs s_subq s_sends s_sendq s_pend];
      (split; [exact Hdt|]); (split; [exact Hmx|]); (split; [exact Hm|]).
    + split; [apply fa_app; split; assumption|]. split; [|exact Hp'].
      repeat (apply fa_app; split); try assumption. apply fa_cons. split; [exact Tn|apply fa_nil].
    + split; [|split; [|exact Hp']].
      * apply fa_app. split; [|exact L2].
        apply fa_map, fa_all. intros x Hx. apply push_under_live; [exact Tn|]. apply (proj1 (fa_in _ _) L1 x Hx).
      * apply fa_app. split; [|exact Q2].
        apply fa_map, fa_all. intros x Hx. apply push_under_coherent; [exact Tn|]. apply (proj1 (fa_in _ _) Q1 x Hx).
    + split; [apply fa_app; split; assumption|]. split; [|exact Hp'].
      repeat (apply fa_app; split); try assumption. apply fa_cons. split; [exact Tn|apply fa_nil].
  - (* change *)
    cbn [fst]. unfold Inv. cbn [s_rate s_dtr s_mix s_main s_subs s_subq s_sends s_sendq s_pend].
    split; [reflexivity|]. split; [reflexivity|]. split; [apply tell_all_fresh|].
    apply fa_app in Hl. destruct Hl as [L1 L2].
    split; [|split; assumption].
    apply fa_app. split; apply fa_map, fa_all; intros x Hx; apply change_track_live; apply (live_coherent (s_rate s)).
    + apply (proj1 (fa_in _ _) L1 x Hx).
    + apply (proj1 (fa_in _ _) L2 x Hx).
  - (* callback *)
    cbn [fst]. unfold Inv. cbn [s_rate s_dtr s_mix s_main s_subs s_subq s_sends s_sendq s_pend].
    split; [exact Hdt|]. split; [exact Hmx|]. split; [exact Hm|]. split; [|split; [apply fa_nil|exact Hp]].
    apply fa_app in Hl. destruct Hl as [L1 L2]. apply fa_app in Hq. destruct Hq as [Q1 Q2]. rewrite Hmx.
    apply fa_app. split; apply fa_map, fa_all; intros x Hx; apply start_track_live; apply in_app_or in Hx; destruct Hx as [Hx|Hx].
    + apply in_rev in Hx. apply (proj1 (fa_in _ _) Q1 x Hx).
    + apply (live_coherent (s_rate s)). apply (proj1 (fa_in _ _) L1 x Hx).
    + apply in_rev in Hx. apply (proj1 (fa_in _ _) Q2 x Hx).
    + apply (live_coherent (s_rate s)). apply (proj1 (fa_in _ _) L2 x Hx).
Qed.

Lemma run_Inv fo h : forall s, Inv s -> Inv (fst (run fo s h)).
Proof.
  unfold run. induction h as [|o h IH]; intros s Hs; cbn [run_gen]; [exact Hs|].
  pose proof (step_Inv fo s o Hs) as H1. unfold step in H1. destruct (step_gen fo true s o) as [s1 e1]. cbn [fst] in H1.
  specialize (IH s1 H1). destruct (run_gen fo true s1 h) as [s2 e2]. exact IH.
Qed.

(** ** what the invariant says about the [process] calls *)
Lemma Forall_flat_map' {A B} (P : B -> Prop) (f : A -> list B) l :
  (forall x, In x l -> Forall P (f x)) -> Forall P (flat_map f l).
Proof.
  induction l as [|a l IH]; intro H; cbn; [constructor|].
  apply Forall_app. split; [apply H; left; reflexivity|apply IH; intros x Hx; apply H; right; exact Hx].
Qed.

Section Ev.
  Variable fo : Z -> Z -> Z.

  Lemma process_effect_fresh r d e : forall n, eff_fresh r e = true ->
    Forall (fun ev => let '(_, told, dtr, _) := ev in told = r /\ dtr = d) (process_effect fo d n e).
  Proof.
    induction e as [i k told fb IH] using effect_ind'. intros n Hf. cbn [eff_fresh] in Hf.
    apply andb_true_iff in Hf. destruct Hf as [Ht Hfb]. apply Z.eqb_eq in Ht.
    destruct k as [|t]; cbn [process_effect].
    - constructor; [split; [exact Ht|reflexivity]|constructor].
    - apply Forall_flat_map'. intros c _. apply Forall_flat_map'. intros x Hx.
      apply (Forall_In _ _ _ IH Hx). apply (proj1 (fa_in _ _) Hfb x Hx).
  Qed.

  (** every [process] call below a live track is made by an effect that was last told that track's rate *)
  Lemma process_track_live r d n t : live r t = true ->
    Forall (fun ev => let '(_, told, dtr, _) := ev in told = r /\ dtr = d) (process_track fo d n t).
  Proof.
    induction t as [i tr effs ar q IHa IHq] using track_ind'. intro Ht. apply live_unfold in Ht.
    destruct Ht as [_ [He [Ha _]]]. cbn [process_track]. apply Forall_app. split.
    - apply Forall_flat_map'. intros x Hx. apply (Forall_In _ _ _ IHa Hx). apply (proj1 (fa_in _ _) Ha x Hx).
    - apply Forall_flat_map'. intros e Hein. apply process_effect_fresh. apply (proj1 (fa_in _ _) He e Hein).
  Qed.

  (** every [process] call of a callback is in force *)
  Lemma callback_events s n : Inv s ->
    Forall (ev_ok (s_rate (fst (step fo s (A_callback n))))) (snd (step fo s (A_callback n))).
  Proof.
    intro HI. pose proof (step_Inv fo s (A_callback n) HI) as HI'.
    set (s' := fst (step fo s (A_callback n))) in *.
    assert (E : snd (step fo s (A_callback n)) = flat_map (process_chunk fo s') (chunks_of n (s_ibs s))) by reflexivity.
    rewrite E. clear E. destruct HI' as [Hdt [_ [Hm [Hl _]]]]. apply fa_app in Hl. destruct Hl as [L1 L2].
    apply Forall_flat_map'. intros c _. unfold process_chunk. rewrite Hdt. repeat (apply Forall_app; split).
    - apply Forall_flat_map'. intros t Hti.
      eapply Forall_impl; [|apply (process_track_live (s_rate s')); apply (proj1 (fa_in _ _) L1 t Hti)].
      intros [[[i tl] d] m] Hev. exact Hev.
    - apply Forall_flat_map'. intros t Hti.
      eapply Forall_impl; [|apply (process_track_live (s_rate s')); apply (proj1 (fa_in _ _) L2 t Hti)].
      intros [[[i tl] d] m] Hev. exact Hev.
    - apply Forall_flat_map'. intros e Hei.
      eapply Forall_impl; [|apply process_effect_fresh; apply (proj1 (fa_in _ _) Hm e Hei)].
      intros [[[i tl] d] m] Hev. exact Hev.
  Qed.
End Ev.

(** ** the general theorem: every [process] call of every callback of EVERY history is in force *)
Lemma Inv_all_in_force fo h : forall s, Inv s -> all_in_force fo s h.
Proof.
  unfold all_in_force. induction h as [|o h IH]; intros s HI; cbn [all_in_force_gen]; [exact I|].
  pose proof (step_Inv fo s o HI) as HI'. unfold step in HI'.
  split; [|apply IH; exact HI'].
  destruct o as [slot d sh|slot|r|n].
  - cbn [step_gen]. destruct (find_pending slot (s_pend s)); constructor.
  - cbn [step_gen]. destruct (find_pending slot (s_pend s)) as [p|]; [destruct (p_dest p)|]; constructor.
  - constructor.
  - exact (callback_events fo s n HI).
Qed.

Theorem rate_in_force_all_histories_l fo sr ibs main h : all_in_force fo (init_state sr ibs main) h.
Proof. apply Inv_all_in_force. apply Inv_init. Qed.

(** the state after any history: [Inv] *)
Theorem rate_invariant_all_histories_l fo sr ibs main h : Inv (fst (run fo (init_state sr ibs main) h)).
Proof. apply run_Inv. apply Inv_init. Qed.

(** the fan-out reaches everything that is in the arenas — from ANY state *)
Fixpoint arena_fresh (r : Z) (t : track) : bool :=
  match t with Trk _ tr effs ar _ => (tr =? r) && forallb (eff_fresh r) effs && forallb (arena_fresh r) ar end.
Lemma change_track_arena_fresh r t : arena_fresh r (change_track r t) = true.
Proof.
  induction t as [i tr effs ar q IHa IHq] using track_ind'. cbn [change_track arena_fresh]. rewrite Z.eqb_refl. cbn [andb].
  apply andb_true_iff. split.
  - apply tell_all_fresh.
  - apply fa_map, fa_all. intros x Hx. exact (Forall_In _ _ _ IHa Hx).
Qed.
Theorem change_reaches_arena_l fo s r :
  let s' := fst (step fo s (A_change r)) in
  s_rate s' = r /\ s_dtr s' = r /\ s_mix s' = r /\ fa (eff_fresh r) (s_main s') /\ fa (arena_fresh r) (s_subs s' ++ s_sends s').
Proof.
  cbn. repeat split.
  - apply tell_all_fresh.
  - apply fa_app. split; apply fa_map, fa_all; intros x _; apply change_track_arena_fresh.
Qed.

(** pick-up brings every coherent track to the mixer's rate — from ANY state, whatever rate the track remembered *)
Theorem pickup_syncs_l fo s n :
  fa coherent (all_tracks s) ->
  let s' := fst (step fo s (A_callback n)) in
  fa (live (s_mix s)) (s_subs s' ++ s_sends s') /\ s_subq s' = [] /\ s_sendq s' = [].
Proof.
  intro H. unfold all_tracks in H. apply fa_app in H. destruct H as [C1 H]. apply fa_app in H. destruct H as [C2 H].
  apply fa_app in H. destruct H as [C3 C4]. cbn. split; [|split; reflexivity].
  apply fa_app. split; apply fa_map, fa_all; intros x Hx; apply start_track_live; apply in_app_or in Hx; destruct Hx as [Hx|Hx].
  - apply in_rev in Hx. apply (proj1 (fa_in _ _) C2 x Hx).
  - apply (proj1 (fa_in _ _) C1 x Hx).
  - apply in_rev in Hx. apply (proj1 (fa_in _ _) C4 x Hx).
  - apply (proj1 (fa_in _ _) C3 x Hx).
Qed.

(** a track whose load happens after the (last) change is told the rate in force, whatever happened before:
    load; enqueue from ANY state put a track on the queue whose effects all know the device rate *)
Theorem add_after_change_l fo s slot sh :
  find_pending slot (s_pend s) = None ->
  let s1 := fst (step fo s (G_load slot DSub sh)) in
  let s2 := fst (step fo s1 (G_enqueue slot)) in
  exists t, s_subq s2 = s_subq s ++ [t] /\ live (s_rate s) t = true /\ s_rate s2 = s_rate s.
Proof.
  intro F. unfold step. cbn [step_gen]. rewrite F. cbn [fst s_pend].
  assert (F2 : forall l p, find_pending slot l = None -> p_slot p = slot -> find_pending slot (l ++ [p]) = Some p).
  { induction l as [|a l IH]; intros p Hn Hs; cbn.
    - rewrite Hs, Z.eqb_refl. reflexivity.
    - cbn in Hn. destruct (p_slot a =? slot); [discriminate|]. apply IH; assumption. }
  set (p := {| p_slot := slot; p_dest := DSub; p_track := build_track sh; p_loaded := s_rate s |}).
  rewrite (F2 (s_pend s) p F eq_refl). cbn [p_dest p fst s_subq p_loaded p_track s_rate].
  eexists. split; [reflexivity|]. split; [|reflexivity].
  apply (init_pending_live p). reflexivity.
Qed.
