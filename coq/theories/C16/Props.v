(** C16 — property theorems: statements (as printed by Coq) closed by [exact]. *)
From Coq Require Import ZArith QArith Qround List Reals.
From KV Require Import Base.IEEE Base.Outcome Base.Num C06.Model C06.Dur C06.Proofs C16.Model C16.ProofsWitness C16.ProofsProtocol
  C16.ProofsStale C16.ProofsScaling C16.ProofsExamples C16.ModelEffects C16.ProofsReverb C16.ProofsCompressor.
Import ListNotations.
Local Open Scope Z_scope.

Theorem rate_in_force_all_histories :
  forall (fo : Z -> Z -> Z) (sr ibs : Z) (main : list eshape) (h : list op),
       all_in_force fo (init_state sr ibs main) h.
Proof. exact @rate_in_force_all_histories_l. Qed.

Theorem rate_invariant_all_histories :
  forall (fo : Z -> Z -> Z) (sr ibs : Z) (main : list eshape) (h : list op),
       Inv (fst (run fo (init_state sr ibs main) h)).
Proof. exact @rate_invariant_all_histories_l. Qed.

Theorem change_reaches_tracks_in_the_arenas :
  forall (fo : Z -> Z -> Z) (s : state) (r : Z),
       let s' := fst (step fo s (A_change r)) in
       s_rate s' = r /\
       s_dtr s' = r /\
       s_mix s' = r /\ fa (eff_fresh r) (s_main s') /\ fa (arena_fresh r) (s_subs s' ++ s_sends s').
Proof. exact @change_reaches_arena_l. Qed.

Theorem pickup_syncs_queued_tracks :
  forall (fo : Z -> Z -> Z) (s : state) (n : Z),
       fa coherent (all_tracks s) ->
       let s' := fst (step fo s (A_callback n)) in
       fa (live (s_mix s)) (s_subs s' ++ s_sends s') /\ s_subq s' = [] /\ s_sendq s' = [].
Proof. exact @pickup_syncs_l. Qed.

Theorem start_after_change :
  forall (rs : bool) (r : Z) (t : track),
       start_track rs true r t = start_track rs false r (change_track r t).
Proof. exact @start_after_change_l. Qed.

Theorem track_added_after_change_knows_rate :
  forall (fo : Z -> Z -> Z) (s : state) (slot : Z) (sh : tshape),
       find_pending slot (s_pend s) = None ->
       let s1 := fst (step fo s (G_load slot DSub sh)) in
       let s2 := fst (step fo s1 (G_enqueue slot)) in
       exists t : track,
         s_subq s2 = s_subq s ++ [t] /\ live (s_rate s) t = true /\ s_rate s2 = s_rate s.
Proof. exact @add_after_change_l. Qed.

Theorem f14_regression :
  (all_in_force fo0 init0 h_add_change_cb /\ snd (run fo0 init0 h_add_change_cb) = [(0, 2000, 2000, 4)]) /\
       (all_in_force fo0 init0 h_load_change_enq_cb /\
        snd (run fo0 init0 h_load_change_enq_cb) = [(0, 2000, 2000, 4)]) /\
       all_in_force fo0 init0 h_nested /\
       all_in_force fo0 init0 h_nested_queued /\
       all_in_force fo0 init0 h_send /\
       snd (run fo0 (init_state 1000 8 []) h_delay) = [(0, 2000, 2000, 6); (0, 2000, 2000, 2)] /\
       (~ all_in_force_unrepaired fo0 init0 h_add_change_cb /\
        snd (run_unrepaired fo0 init0 h_add_change_cb) = [(0, 1000, 2000, 4)]) /\
       (~ all_in_force_unrepaired fo0 init0 h_load_change_enq_cb /\
        snd (run_unrepaired fo0 init0 h_load_change_enq_cb) = [(0, 1000, 2000, 4)]) /\
       ~ all_in_force_unrepaired fo0 init0 h_nested /\
       ~ all_in_force_unrepaired fo0 init0 h_nested_queued /\
       ~ all_in_force_unrepaired fo0 init0 h_send /\
       snd (run_unrepaired fo0 (init_state 1000 8 []) h_delay) =
       [(0, 1000, 2000, 3); (0, 1000, 2000, 3); (0, 1000, 2000, 2)].
Proof. exact f14_regression_l. Qed.

Theorem unrepaired_pickup_stale_general :
  forall (fo : Z -> Z -> Z) (sr ibs : Z) (main : list eshape) (tid : Z) (effs : list eshape) 
         (i : Z) (fb : list eshape) (r n : Z),
       r <> sr ->
       0 < n ->
       In (SEff i KProbe fb) effs ->
       ~
       all_in_force_unrepaired fo (init_state sr ibs main)
         [G_load 0 DSub (tid, effs); G_enqueue 0; A_change r; A_callback n] /\
       ~
       all_in_force_unrepaired fo (init_state sr ibs main)
         [G_load 0 DSub (tid, effs); A_change r; G_enqueue 0; A_callback n].
Proof. exact @unrepaired_pickup_stale_general_l. Qed.

Theorem rate_in_force_witness_orders :
  all_in_forceb fo0 init0 h_add_cb_change_cb = true /\
       snd (run fo0 init0 h_add_cb_change_cb) = [(0, 1000, 1000, 4); (0, 2000, 2000, 4)] /\
       all_in_forceb fo0 init0 h_change_add_cb = true /\
       snd (run fo0 init0 h_change_add_cb) = [(0, 2000, 2000, 4)].
Proof. exact @witness_good_orders. Qed.

Theorem rate_there_and_back_tells_nobody :
  all_in_forceb fo0 init0 h_there_and_back = true /\
       snd (run fo0 init0 h_there_and_back) = [(0, 1000, 1000, 4)] /\
       s_subs (fst (run fo0 init0 h_there_and_back)) = [Trk 1 1000 [Eff 0 KProbe [(ByInit, 1000)] []] [] []].
Proof. exact @witness_there_and_back. Qed.

Theorem sound_position_scaling :
  forall (fuel : nat) (s : Z) (rho : Q) (segs : list segment),
       0 <= s ->
       (0 <= rho)%Q ->
       Forall valid_seg segs ->
       (forall sg : segment,
        In sg segs -> (inject_Z s * rho / inject_Z (fst sg) + 1 < inject_Z (Z.of_nat fuel))%Q) ->
       exists (pos : Z) (frac : Q),
         acc_run fuel (0, 0%Q) (sound_steps s rho segs) = Ok (pos, frac) /\
         (0 <= frac)%Q /\
         (frac < 1)%Q /\
         inject_Z pos + frac == inject_Z s * rho * total_time segs /\
         pos = Qfloor (inject_Z s * rho * total_time segs).
Proof. exact @sound_position_scaling_l. Qed.

Theorem sound_duration_in_seconds :
  forall (s N : Z) (rho t : Q),
       (0 < inject_Z s * rho)%Q ->
       N <= Qfloor (inject_Z s * rho * t) <-> (inject_Z N / (inject_Z s * rho) <= t)%Q.
Proof. exact @sound_duration_l. Qed.

Theorem clock_scaling :
  forall (fuel : nat) (tps : Q) (segs : list segment),
       (0 <= tps)%Q ->
       Forall valid_seg segs ->
       (forall (sg : segment) (c : Z),
        In sg segs ->
        In c (snd sg) -> (tps * (inject_Z c / inject_Z (fst sg)) + 1 < inject_Z (Z.of_nat fuel))%Q) ->
       exists (ticks : Z) (frac : Q),
         acc_run fuel (0, 0%Q) (clock_steps tps segs) = Ok (ticks, frac) /\
         (0 <= frac)%Q /\
         (frac < 1)%Q /\
         inject_Z ticks + frac == tps * total_time segs /\ ticks = Qfloor (tps * total_time segs).
Proof. exact @clock_scaling_l. Qed.

Theorem tween_time_scaling :
  forall (segs : list segment) (D : Q),
       Forall valid_seg segs ->
       (0 < D)%Q ->
       elapsed Immediate 0 (tween_updates segs) == total_time segs /\
       (completes Immediate D 0 (tween_updates segs) = true <-> (D <= total_time segs)%Q).
Proof. exact @tween_time_scaling_l. Qed.

Theorem rate_independence :
  forall (fuel : nat) (s : Z) (rho tps : Q) (segs1 segs2 : list segment),
       0 <= s ->
       (0 <= rho)%Q ->
       (0 <= tps)%Q ->
       Forall valid_seg segs1 ->
       Forall valid_seg segs2 ->
       (forall sg : segment,
        In sg (segs1 ++ segs2) -> (inject_Z s * rho / inject_Z (fst sg) + 1 < inject_Z (Z.of_nat fuel))%Q) ->
       (forall (sg : segment) (c : Z),
        In sg (segs1 ++ segs2) ->
        In c (snd sg) -> (tps * (inject_Z c / inject_Z (fst sg)) + 1 < inject_Z (Z.of_nat fuel))%Q) ->
       total_time segs1 == total_time segs2 ->
       exists (pos : Z) (f1 f2 : Q) (ticks : Z) (g1 g2 : Q),
         acc_run fuel (0, 0%Q) (sound_steps s rho segs1) = Ok (pos, f1) /\
         acc_run fuel (0, 0%Q) (sound_steps s rho segs2) = Ok (pos, f2) /\
         f1 == f2 /\
         acc_run fuel (0, 0%Q) (clock_steps tps segs1) = Ok (ticks, g1) /\
         acc_run fuel (0, 0%Q) (clock_steps tps segs2) = Ok (ticks, g2) /\
         g1 == g2 /\ elapsed Immediate 0 (tween_updates segs1) == elapsed Immediate 0 (tween_updates segs2).
Proof. exact @rate_independence_l. Qed.

Theorem delay_time_error :
  forall t_ns sr : Z,
       0 <= t_ns ->
       0 < sr ->
       (secs_of_ns t_ns * inject_Z sr < inject_Z (2 ^ 64 - 1))%Q ->
       let T := secs_of_ns t_ns in
       let L := delay_frames t_ns sr in
       ((1 <= T * inject_Z sr)%Q ->
        L = Qfloor (T * inject_Z sr) /\ (T - 1 / inject_Z sr < inject_Z L / inject_Z sr <= T)%Q) /\
       ((T * inject_Z sr < 1)%Q -> L = 1 /\ (T < inject_Z L / inject_Z sr <= T + 1 / inject_Z sr)%Q).
Proof. exact @delay_time_error_l. Qed.

Theorem delay_frames_int_exact :
  forall t_ns sr : Z,
       0 <= t_ns ->
       0 < sr ->
       (secs_of_ns t_ns * inject_Z sr < inject_Z (2 ^ 64 - 1))%Q ->
       delay_frames_int t_ns sr = @delay_frames Q _ _ t_ns sr /\
       delay_frames_int t_ns sr = Z.max 1 (Qfloor (secs_of_ns t_ns * inject_Z sr)).
Proof. exact @delay_frames_int_exact_l. Qed.

Theorem f35_regression :
  (delay_frames_int 35750000 48000 = 1716 /\ delay_frames_int 1001000000 8000 = 8008 /\
   @delay_frames f64 _ _ 35750000 48000 = 1715 /\ @delay_frames f64 _ _ 1001000000 8000 = 8007)%Z.
Proof. exact f35_regression_l. Qed.

Theorem filter_coeff_depends_on_ratio :
  forall (pi lo hi : Q) (tan : Q -> Q) (f1 f2 : Q) (sr1 sr2 : Z),
       (forall a b : Q, a == b -> tan a == tan b) ->
       0 < sr1 ->
       0 < sr2 ->
       f1 / inject_Z sr1 == f2 / inject_Z sr2 ->
       filter_g pi lo hi tan f1 (dt_of sr1) == filter_g pi lo hi tan f2 (dt_of sr2) /\
       eq_g pi lo hi tan f1 (dt_of sr1) == eq_g pi lo hi tan f2 (dt_of sr2) /\
       filter_arg lo hi f1 (dt_of sr1) == nclamp (f1 / inject_Z sr1)%Q lo hi.
Proof. exact @filter_coeff_depends_on_ratio_l. Qed.

Theorem reverb_time_error :
  forall size sr : Z,
       0 <= size < 2 ^ 31 ->
       0 < sr < 2 ^ 32 ->
       let T := secs_of_tuning size in
       let L := @reverb_line Q _ size sr in
       L = Z.max 1 (Qfloor (T * inject_Z sr)) /\
       ((1 <= T * inject_Z sr)%Q ->
        (T - 1 / inject_Z sr < inject_Z L / inject_Z sr)%Q /\ (inject_Z L / inject_Z sr <= T)%Q).
Proof. exact @reverb_time_error_l. Qed.

Theorem reverb_spread_in_seconds :
  forall size sr : Z,
       0 <= size < 2 ^ 30 ->
       0 < sr < 2 ^ 32 ->
       (1 <= secs_of_tuning size * inject_Z sr)%Q ->
       let spread := secs_of_tuning STEREO_SPREAD in
       let dl := (inject_Z (@reverb_right Q _ size sr) / inject_Z sr - inject_Z (@reverb_left Q _ size sr) / inject_Z sr)%Q in
       (spread - 1 / inject_Z sr < dl)%Q /\ (dl < spread + 1 / inject_Z sr)%Q.
Proof. exact @reverb_spread_in_seconds_l. Qed.

Theorem reverb_lines_f64_exact :
  map (@reverb_lines f64 _) common_device_rates = map (@reverb_lines Q _) common_device_rates.
Proof. exact reverb_lines_f64_exact_l. Qed.

Theorem reverb_line_f64_one_frame_short :
  @reverb_line f64 _ 1300 15435 = 454 /\ @reverb_line Q _ 1300 15435 = 455 /\ 1300 * 15435 = 455 * 44100.
Proof. exact reverb_line_f64_one_frame_short_l. Qed.

Theorem reverb_unscaled_spread_refuted :
  (forall size : Z,
        @reverb_right_unscaled_spread f64 _ size 44100 = @reverb_right f64 _ size 44100 \/
        ~ In size (comb_tunings ++ all_pass_tunings)) /\
       (let T := secs_of_tuning (1116 + STEREO_SPREAD) in
        let L := @reverb_right_unscaled_spread Q _ 1116 22050 in ~ (inject_Z L / 22050 <= T)%Q) /\
       (let T := secs_of_tuning (1116 + STEREO_SPREAD) in
        let L := @reverb_right_unscaled_spread Q _ 1116 192000 in ~ (T - 1 / 192000 < inject_Z L / 192000)%Q).
Proof. exact reverb_unscaled_spread_refuted_l. Qed.

Theorem compressor_envelope_in_seconds :
  forall (D over : R) (segs : list (R * nat)%type) (e : R),
       (0 < D)%R ->
       Forall (fun sg : (R * nat)%type => (0 < fst sg)%R) segs ->
       (env_run D over segs e - over = exp (- segs_time segs / D) * (e - over))%R.
Proof. exact @compressor_envelope_in_seconds_l. Qed.

Theorem compressor_cached_coefficient_counts_frames :
  forall (D over sr0 : R) (segs : list (R * nat)%type) (e : R),
       (0 < D)%R ->
       (0 < sr0)%R ->
       (env_run_cached D over sr0 segs e - over = exp (- (INR (segs_frames segs) / sr0) / D) * (e - over))%R.
Proof. exact @compressor_cached_coefficient_l. Qed.

Theorem compressor_cached_coefficient_refuted :
  (forall (D over sr0 sr1 : R) (n : nat) (e : R),
        (0 < D)%R ->
        (0 < sr0)%R ->
        (0 < sr1)%R ->
        (env_run_cached D over sr0 [(sr1, n)] e - over = exp (- (INR n / sr1) / (D * (sr0 / sr1))) * (e - over))%R) /\
       (forall (D over sr0 sr1 : R) (n : nat) (e : R),
        (0 < D)%R ->
        (0 < sr0)%R ->
        (0 < sr1)%R ->
        sr0 <> sr1 ->
        (0 < n)%nat -> e <> over -> env_run_cached D over sr0 [(sr1, n)] e <> env_run D over [(sr1, n)] e).
Proof. exact compressor_cached_coefficient_refuted_l. Qed.
