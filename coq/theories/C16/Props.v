(** C16 — property theorems: statements closed by [exact]. *)
From Coq Require Import ZArith QArith List.
From KV Require Import Base.Outcome Base.Num C06.Model C16.Model C16.ProofsWitness.
Import ListNotations.
Local Open Scope Z_scope.

Theorem stale_rate_refuted :
  exists h, no_race fo0 (init_state 1000 4 []) h = false /\ ~ all_in_force fo0 (init_state 1000 4 []) h.
Proof. exact stale_rate_refuted_l. Qed.
