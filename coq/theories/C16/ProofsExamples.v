(** C16 — non-vacuity: concrete non-trivial instances meet the hypotheses of the theorems. *)
From Coq Require Import ZArith QArith Qround List Bool Lia Lqa.
From KV Require Import Base.IEEE Base.Outcome Base.Num C06.Model C06.Dur C06.Proofs C16.Model C16.ProofsWitness C16.ProofsProtocol
  C16.ProofsStale C16.ProofsScaling.
Import ListNotations.
Local Open Scope Z_scope.

(** a history with nested tracks, a send track, a delay with a nested probe, rate changes that fall while tracks
    are queued (sub, nested below a queued parent, send) and between a load and its enqueue *)
Definition h_mixed : list op :=
  [G_load 0 DSub (1, [SEff 0 KProbe []; SEff (-1) (KDelay 3000000) [SEff 1 KProbe []]]); G_enqueue 0;
   G_load 1 DSend (2, [SEff 2 KProbe []]); G_enqueue 1; A_change 2000; A_callback 6;
   G_load 0 (DUnder 1) (3, [SEff 3 KProbe []]); G_enqueue 0; A_change 500; A_callback 3; A_change 2000; A_callback 9;
   G_load 0 DSub (4, [SEff 4 KProbe []]); A_change 3000; A_callback 2; G_enqueue 0;
   G_load 1 (DUnder 4) (6, [SEff 6 KProbe []]); A_change 1000; G_enqueue 1; A_callback 5;
   A_change 2000; A_change 3000; A_callback 4]%Z.
Example mixed_history_nonvacuous :
  all_in_forceb fo0 (init_state 1000 4 [SEff 5 KProbe []]) h_mixed = true /\
  all_in_forceb_unrepaired fo0 (init_state 1000 4 [SEff 5 KProbe []]) h_mixed = false /\
  length (snd (run fo0 (init_state 1000 4 [SEff 5 KProbe []]) h_mixed)) = 57%nat /\
  Inv (fst (run fo0 (init_state 1000 4 [SEff 5 KProbe []]) h_mixed)).
Proof. split; [vm_compute; reflexivity|]. split; [vm_compute; reflexivity|]. split; [vm_compute; reflexivity|]. apply run_Inv, Inv_init. Qed.

(** the hypothesis of [pickup_syncs] is met by a state in which a queued track remembers a rate that is not in
    force (1000 vs 2000), and the conclusion is not trivial there: its probe is told 2000 at pick-up *)
Example pickup_syncs_example :
  let s := fst (run fo0 (init_state 1000 4 []) [G_load 0 DSub probe_track; G_enqueue 0; A_change 2000]%Z) in
  fa coherent (all_tracks s) /\ map trk_rate (s_subq s) = [1000%Z] /\ s_mix s = 2000%Z /\
  s_subs (fst (step fo0 s (A_callback 1))) = [Trk 1 2000 [Eff 0 KProbe [(ByChange, 2000%Z); (ByInit, 1000%Z)] []] [] []].
Proof. vm_compute. repeat split; reflexivity. Qed.

Local Open Scope Q_scope.
(** 4 frames at 44.1 kHz then 1 frame at 11.025 kHz are 8/44100 s: a 22.05 kHz sound has advanced exactly 4 frames,
    a clock at 11025 ticks per second exactly 2 ticks, whichever way the time was rendered *)
Definition segs_a : list segment := [(44100%Z, [3%Z; 1%Z]); (11025%Z, [1%Z])].
Definition segs_b : list segment := [(22050%Z, [1%Z; 2%Z; 1%Z])].
Example scaling_example :
  total_time segs_a == 8 # 44100 /\ total_time segs_b == total_time segs_a /\
  acc_run 10 (0%Z, 0) (sound_steps 22050 1 segs_a) = Ok (4%Z, 0) /\
  acc_run 10 (0%Z, 0) (sound_steps 22050 1 segs_b) = Ok (4%Z, 0) /\
  acc_run 10 (0%Z, 0) (clock_steps 11025 segs_a) = Ok (2%Z, 0) /\
  acc_run 10 (0%Z, 0) (clock_steps 11025 segs_b) = Ok (2%Z, 0) /\
  Forall valid_seg segs_a /\ Forall valid_seg segs_b.
Proof.
  repeat split; try (vm_compute; reflexivity); repeat constructor; try (cbn; lia).
Qed.
Example delay_example :
  @delay_frames Q _ _ 3000000 1000 = 3%Z /\ @delay_frames Q _ _ 3000000 2000 = 6%Z /\
  @delay_frames Q _ _ 3000000 44100 = 132%Z /\ @delay_frames Q _ _ 100000 8000 = 1%Z /\ @delay_frames Q _ _ 0 48000 = 1%Z.
Proof. vm_compute. repeat split. Qed.
Example filter_example :
  filter_arg (1 # 10000) (1 # 2) 1000 (dt_of 44100) == filter_arg (1 # 10000) (1 # 2) 2000 (dt_of 88200) /\
  filter_arg (1 # 10000) (1 # 2) 1000 (dt_of 44100) == 1000 / 44100.
Proof. vm_compute. split; reflexivity. Qed.

(** F35 (repaired): delay times that are a whole number of frames; the integer computation gives the exact count,
    the former binary64 computation came out one frame short *)
Lemma f35_regression_l :
  (delay_frames_int 35750000 48000 = 1716 /\ delay_frames_int 1001000000 8000 = 8008 /\
   @delay_frames f64 _ _ 35750000 48000 = 1715 /\ @delay_frames f64 _ _ 1001000000 8000 = 8007)%Z.
Proof. vm_compute. repeat split; reflexivity. Qed.
