(** C16 — the reverb's delay lines are times: they keep their value in seconds at every device rate (and the obvious
    "refactoring" that breaks this is refuted). *)
From Coq Require Import ZArith QArith Qround List Bool Lia Lqa.
From KV Require Import Base.IEEE Base.Num Base.QLemmas C16.Model C16.ModelEffects.
Import ListNotations.

(** * reverb *)
Local Open Scope Q_scope.

(** a tuning of [size] frames at 44.1 kHz, in seconds *)
Definition secs_of_tuning (size : Z) : Q := inject_Z size / 44100.

Lemma reverb_len_Q size sr :
  (0 <= size)%Z -> (0 < sr)%Z -> @reverb_len Q _ size sr = Z.min (2 ^ 64 - 1) (size * sr / 44100).
Proof.
  intros Hs Hr. unfold reverb_len. cbn [ntoU64 nmul ndiv nofZ Num_Q].
  assert (E : Qred (inject_Z size * Qred (inject_Z sr / inject_Z 44100)) == (size * sr) # 44100).
  { rewrite !Qred_correct. unfold Qeq, Qdiv, Qmult, Qinv, inject_Z; cbn. ring. }
  rewrite (Qtruncz_comp _ _ E). unfold Qtruncz.
  assert (P : Qle_bool 0 ((size * sr) # 44100) = true).
  { apply Qle_bool_iff. unfold Qle; cbn. nia. }
  rewrite P. change (Qfloor ((size * sr) # 44100)) with (size * sr / 44100)%Z.
  assert (0 <= size * sr / 44100)%Z by (apply Z.div_pos; nia). lia.
Qed.

Lemma tuning_frames size sr : Qfloor (secs_of_tuning size * inject_Z sr) = (size * sr / 44100)%Z.
Proof.
  rewrite (Qfloor_comp _ ((size * sr) # 44100)); [reflexivity|].
  unfold secs_of_tuning, Qeq, Qdiv, Qmult, Qinv, inject_Z; cbn. ring.
Qed.

Theorem reverb_time_error_l (size sr : Z) :
  (0 <= size < 2 ^ 31)%Z -> (0 < sr < 2 ^ 32)%Z ->
  let T := secs_of_tuning size in
  let L := @reverb_line Q _ size sr in
  L = Z.max 1 (Qfloor (T * inject_Z sr)) /\
  (1 <= T * inject_Z sr -> T - 1 / inject_Z sr < inject_Z L / inject_Z sr /\ inject_Z L / inject_Z sr <= T).
Proof.
  intros Hs Hr T L.
  assert (N : 0 < inject_Z sr) by (change 0 with (inject_Z 0); rewrite <- Zlt_Qlt; lia).
  assert (EL : L = Z.max 1 (Qfloor (T * inject_Z sr))).
  { unfold L, reverb_line. rewrite reverb_len_Q by lia. unfold T. rewrite tuning_frames.
    assert (size * sr / 44100 <= size * sr)%Z by (apply Z.div_le_upper_bound; nia).
    assert (size * sr < 2 ^ 63)%Z by (change (2 ^ 63)%Z with (2 ^ 31 * 2 ^ 32)%Z; nia).
    assert (2 ^ 63 < 2 ^ 64 - 1)%Z by reflexivity. lia. }
  split; [exact EL|]. intro H.
  destruct (Qfloor_bounds (T * inject_Z sr)) as [B1 B2].
  assert (F : (1 <= Qfloor (T * inject_Z sr))%Z).
  { assert (G : (1 < Qfloor (T * inject_Z sr) + 1)%Z); [|lia]. rewrite Zlt_Qlt, inject_Z_plus. change (inject_Z 1) with 1. lra. }
  assert (EL' : L = Qfloor (T * inject_Z sr)) by lia. rewrite EL'. split.
  - apply Qlt_shift_div_l; [exact N|].
    assert (E : (T - 1 / inject_Z sr) * inject_Z sr == T * inject_Z sr - 1) by (field; lra). rewrite E. lra.
  - apply Qle_shift_div_r; [exact N|]. exact B1.
Qed.

(** the right line of a pair is [spread] seconds = 23/44100 s longer than the left one, to one frame, at every rate *)
Theorem reverb_spread_in_seconds_l (size sr : Z) :
  (0 <= size < 2 ^ 30)%Z -> (0 < sr < 2 ^ 32)%Z -> 1 <= secs_of_tuning size * inject_Z sr ->
  let spread := secs_of_tuning STEREO_SPREAD in
  let dl := inject_Z (@reverb_right Q _ size sr) / inject_Z sr - inject_Z (@reverb_left Q _ size sr) / inject_Z sr in
  spread - 1 / inject_Z sr < dl /\ dl < spread + 1 / inject_Z sr.
Proof.
  intros Hs Hr H1 spread dl.
  assert (N : 0 < inject_Z sr) by (change 0 with (inject_Z 0); rewrite <- Zlt_Qlt; lia).
  assert (S23 : secs_of_tuning (size + STEREO_SPREAD) == secs_of_tuning size + spread).
  { unfold spread, secs_of_tuning. rewrite inject_Z_plus. field. }
  assert (SP : 0 <= spread * inject_Z sr).
  { apply Qmult_le_0_compat; [|lra]. unfold spread. apply Qle_bool_iff. reflexivity. }
  assert (H2 : 1 <= secs_of_tuning (size + STEREO_SPREAD) * inject_Z sr).
  { rewrite S23. lra. }
  destruct (reverb_time_error_l size sr) as [_ A]; [lia|lia|]. specialize (A H1).
  destruct (reverb_time_error_l (size + STEREO_SPREAD) sr) as [_ B]; [unfold STEREO_SPREAD; lia|lia|]. specialize (B H2).
  unfold dl, reverb_right, reverb_left. rewrite S23 in B. lra.
Qed.

Definition common_device_rates : list Z := [8000; 11025; 22050; 44100; 48000; 88200; 96000; 192000]%Z.

(** in binary64, as the code computes it, all 24 lines have exactly these lengths at the usual device rates *)
Theorem reverb_lines_f64_exact_l :
  map (@reverb_lines f64 _) common_device_rates = map (@reverb_lines Q _) common_device_rates.
Proof. vm_compute. reflexivity. Qed.

(** ... but not at every rate: where size * sr / 44100 is a whole number the binary64 product can come out one
    frame short (the line is then exactly one frame shorter than its tuning: still within a frame) *)
Theorem reverb_line_f64_one_frame_short_l :
  (@reverb_line f64 _ 1300 15435 = 454 /\ @reverb_line Q _ 1300 15435 = 455 /\ 1300 * 15435 = 455 * 44100)%Z.
Proof. vm_compute. repeat split; reflexivity. Qed.

(** COUNTER-MODEL: adding the 23-frame spread after the scaling.  Bit-identical at 44.1 kHz, wrong elsewhere. *)
Theorem reverb_unscaled_spread_refuted_l :
  (forall size, @reverb_right_unscaled_spread f64 _ size 44100 = @reverb_right f64 _ size 44100 \/ ~ In size (comb_tunings ++ all_pass_tunings)) /\
  (let T := secs_of_tuning (1116 + STEREO_SPREAD) in
   let L := @reverb_right_unscaled_spread Q _ 1116 22050 in ~ inject_Z L / 22050 <= T) /\
  (let T := secs_of_tuning (1116 + STEREO_SPREAD) in
   let L := @reverb_right_unscaled_spread Q _ 1116 192000 in ~ T - 1 / 192000 < inject_Z L / 192000).
Proof.
  split; [|split].
  - intro size.
    destruct (in_dec Z.eq_dec size (comb_tunings ++ all_pass_tunings)) as [I|I]; [left|right; exact I].
    cbn [comb_tunings all_pass_tunings app In] in I.
    repeat (destruct I as [I|I]; [subst size; vm_compute; reflexivity|]). destruct I.
  - vm_compute. intro H. apply H. reflexivity.
  - vm_compute. intro H. discriminate H.
Qed.
