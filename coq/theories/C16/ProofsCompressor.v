(** C16 — the compressor's attack / release durations are time constants in seconds at every device rate and across
    changes of it (and the obvious "optimisation" that breaks this is refuted). *)
From Coq Require Import List Reals Lra Lia.
From KV Require Import C16.ModelEffects.
Import ListNotations.

(** * compressor *)
Local Open Scope R_scope.

Lemma env_iter_closed n s over e : env_iter n s over e - over = s ^ n * (e - over).
Proof.
  revert e. induction n as [|n IH]; intro e; cbn [env_iter pow]; [ring|].
  rewrite IH. unfold env_step. ring.
Qed.

Lemma exp_pow_n a n : (exp a) ^ n = exp (INR n * a).
Proof.
  induction n as [|n IH]; [cbn [pow INR]; rewrite Rmult_0_l, exp_0; reflexivity|].
  cbn [pow]. rewrite IH, <- exp_plus, S_INR. f_equal. ring.
Qed.

Lemma coeff_pow D sr n : 0 < D -> 0 < sr -> (env_coeff D (/ sr)) ^ n = exp (- (INR n / sr) / D).
Proof.
  intros HD Hsr. unfold env_coeff. rewrite exp_pow_n. f_equal. field. split; lra.
Qed.

(** the code as it is: whatever the device rates and wherever they change, after [t] seconds the distance of the
    envelope to its target has shrunk by exp(-t / D) -- the duration D is a time constant in seconds *)
Theorem compressor_envelope_in_seconds_l (D over : R) (segs : list (R * nat)) (e : R) :
  0 < D -> Forall (fun sg => 0 < fst sg) segs ->
  env_run D over segs e - over = exp (- segs_time segs / D) * (e - over).
Proof.
  intros HD HF. revert e. induction HF as [|[sr n] segs Hsr HF IH]; intro e; cbn [env_run segs_time].
  - replace (- 0 / D) with 0 by (field; lra). rewrite exp_0. ring.
  - cbn [fst] in Hsr. rewrite IH.
    replace (env_iter n (env_coeff D (/ sr)) over e - over) with ((env_coeff D (/ sr)) ^ n * (e - over))
      by (symmetry; apply env_iter_closed).
    rewrite (coeff_pow D sr n HD Hsr), <- Rmult_assoc, <- exp_plus. f_equal. f_equal. field. lra.
Qed.

(** COUNTER-MODEL: the coefficient computed once at rate sr0 and kept.  The envelope then counts FRAMES: what
    elapses is (frames / sr0), not the real time *)
Theorem compressor_cached_coefficient_l (D over sr0 : R) (segs : list (R * nat)) (e : R) :
  0 < D -> 0 < sr0 ->
  env_run_cached D over sr0 segs e - over = exp (- (INR (segs_frames segs) / sr0) / D) * (e - over).
Proof.
  intros HD H0. revert e. induction segs as [|[sr n] segs IH]; intro e; cbn [env_run_cached segs_frames].
  - cbn [INR]. replace (- (0 / sr0) / D) with 0 by (field; split; lra). rewrite exp_0. ring.
  - rewrite IH.
    replace (env_iter n (env_coeff D (/ sr0)) over e - over) with ((env_coeff D (/ sr0)) ^ n * (e - over))
      by (symmetry; apply env_iter_closed).
    rewrite (coeff_pow D sr0 n HD H0), <- Rmult_assoc, <- exp_plus, plus_INR. f_equal. f_equal. field. split; lra.
Qed.

(** ... so after a change sr0 -> sr1 the duration D acts as D * sr0 / sr1 seconds, and it differs from the code *)
Theorem compressor_cached_coefficient_refuted_l :
  (forall D over sr0 sr1 n e, 0 < D -> 0 < sr0 -> 0 < sr1 ->
     env_run_cached D over sr0 [(sr1, n)] e - over = exp (- (INR n / sr1) / (D * (sr0 / sr1))) * (e - over)) /\
  (forall D over sr0 sr1 n e, 0 < D -> 0 < sr0 -> 0 < sr1 -> sr0 <> sr1 -> (0 < n)%nat -> e <> over ->
     env_run_cached D over sr0 [(sr1, n)] e <> env_run D over [(sr1, n)] e).
Proof.
  split.
  - intros D over sr0 sr1 n e HD H0 H1. rewrite compressor_cached_coefficient_l by assumption.
    cbn [segs_frames]. rewrite Nat.add_0_r. f_equal. f_equal. field. repeat split; lra.
  - intros D over sr0 sr1 n e HD H0 H1 Hne Hn He E.
    assert (A := compressor_cached_coefficient_l D over sr0 [(sr1, n)] e HD H0).
    assert (F : Forall (fun sg : R * nat => 0 < fst sg) [(sr1, n)]) by (repeat constructor; exact H1).
    assert (B := compressor_envelope_in_seconds_l D over [(sr1, n)] e HD F).
    rewrite E, B in A. cbn [segs_frames segs_time] in A. rewrite Nat.add_0_r in A.
    apply Rmult_eq_reg_r in A; [|lra]. apply exp_inv in A.
    assert (Nn : 0 < INR n) by (apply lt_0_INR; exact Hn).
    assert (K : forall a b, - a / D = - b / D -> a = b).
    { intros a b K. apply (Rmult_eq_compat_r D) in K. unfold Rdiv in K.
      rewrite !Rmult_assoc, Rinv_l, !Rmult_1_r in K by lra. lra. }
    apply K in A. rewrite Rplus_0_r in A. unfold Rdiv in A.
    apply Rmult_eq_reg_l in A; [|lra].
    assert (I0 := Rinv_r sr0 ltac:(lra)). assert (I1 := Rinv_r sr1 ltac:(lra)).
    assert (A' : / sr0 = / sr1) by (first [exact A | symmetry; exact A]).
    rewrite <- A' in I1. apply Hne. apply (Rmult_eq_reg_r (/ sr0)); [lra|].
    apply Rinv_neq_0_compat. lra.
Qed.

(** the hypotheses are satisfiable, and the numbers of the seeded change: a 50 ms attack, 1000 Hz then 4000 Hz *)
Example compressor_example :
  0 < 0.05 /\ Forall (fun sg : R * nat => 0 < fst sg) [(1000, 100%nat); (4000, 800%nat)]
  /\ segs_time [(1000, 100%nat); (4000, 800%nat)] = 0.3.
Proof.
  split; [lra|]. split; [repeat constructor; cbn [fst]; lra|].
  cbn [segs_time]. rewrite !INR_IZR_INZ. change (Z.of_nat 100) with 100%Z. change (Z.of_nat 800) with 800%Z. lra.
Qed.
