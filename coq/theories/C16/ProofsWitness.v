(** C16 — the predicates of the protocol theorems and the concrete witness histories (closed by [vm_compute]). *)
From Coq Require Import ZArith List Bool Lia.
From KV Require Import C16.Model.
Import ListNotations.
Local Open Scope Z_scope.

(** a [process] call is "in force" when the effect was last told the device rate and [dt] is its reciprocal *)
Definition ev_ok (rate : Z) (e : event) : Prop := let '(_, told, dtr, _) := e in told = rate /\ dtr = rate.
Definition ev_okb (rate : Z) (e : event) : bool := let '(_, told, dtr, _) := e in (told =? rate) && (dtr =? rate).

Lemma ev_okb_spec rate e : ev_okb rate e = true <-> ev_ok rate e.
Proof. destruct e as [[[i t] d] n]. unfold ev_okb, ev_ok. rewrite andb_true_iff, !Z.eqb_eq. tauto. Qed.

Section P.
  Variable frames_of : Z -> Z -> Z.
  Variable resync : bool.

  (** THE PROPERTY on a history: every [process] call of every callback happens with the rate in force *)
  Fixpoint all_in_force_gen (s : state) (h : list op) : Prop :=
    match h with
    | [] => True
    | o :: h' => Forall (ev_ok (s_rate (fst (step_gen frames_of resync s o)))) (snd (step_gen frames_of resync s o))
                 /\ all_in_force_gen (fst (step_gen frames_of resync s o)) h'
    end.
  Fixpoint all_in_forceb_gen (s : state) (h : list op) : bool :=
    match h with
    | [] => true
    | o :: h' => forallb (ev_okb (s_rate (fst (step_gen frames_of resync s o)))) (snd (step_gen frames_of resync s o))
                 && all_in_forceb_gen (fst (step_gen frames_of resync s o)) h'
    end.
  Lemma all_in_forceb_gen_spec h : forall s, all_in_forceb_gen s h = true <-> all_in_force_gen s h.
  Proof.
    induction h as [|o h IH]; intro s; cbn [all_in_forceb_gen all_in_force_gen]; [tauto|].
    rewrite andb_true_iff, IH, forallb_forall, Forall_forall.
    split; intros [A B]; split; auto; intros e He; apply ev_okb_spec; auto.
  Qed.
End P.

(** the property for the code as it is ... *)
Definition all_in_force (frames_of : Z -> Z -> Z) : state -> list op -> Prop := all_in_force_gen frames_of true.
Definition all_in_forceb (frames_of : Z -> Z -> Z) : state -> list op -> bool := all_in_forceb_gen frames_of true.
(** ... and for the counter-model without the comparison in [on_start_processing] (before the repair of F14) *)
Definition all_in_force_unrepaired (frames_of : Z -> Z -> Z) : state -> list op -> Prop := all_in_force_gen frames_of false.
Definition all_in_forceb_unrepaired (frames_of : Z -> Z -> Z) : state -> list op -> bool := all_in_forceb_gen frames_of false.

Lemma all_in_forceb_spec fo h s : all_in_forceb fo s h = true <-> all_in_force fo s h.
Proof. apply all_in_forceb_gen_spec. Qed.
Lemma all_in_forceb_unrepaired_spec fo h s : all_in_forceb_unrepaired fo s h = true <-> all_in_force_unrepaired fo s h.
Proof. apply all_in_forceb_gen_spec. Qed.

(** the frame count of a delay plays no role in the witnesses *)
Definition fo0 (t r : Z) : Z := t * r / 1000000000.

Definition probe_track : tshape := (1, [SEff 0 KProbe []]).
(** the former F14 witness: add (load + enqueue); change; callback *)
Definition h_add_change_cb : list op := [G_load 0 DSub probe_track; G_enqueue 0; A_change 2000; A_callback 4].
(** its racy variant: load; change; enqueue; callback *)
Definition h_load_change_enq_cb : list op := [G_load 0 DSub probe_track; A_change 2000; G_enqueue 0; A_callback 4].
(** the two orders that were always fine *)
Definition h_add_cb_change_cb : list op := [G_load 0 DSub probe_track; G_enqueue 0; A_callback 4; A_change 2000; A_callback 4].
Definition h_change_add_cb : list op := [A_change 2000; G_load 0 DSub probe_track; G_enqueue 0; A_callback 4].
(** nested: a sub-track pushed on the queue of a track that is already in the arena *)
Definition h_nested : list op :=
  [G_load 0 DSub (1, []); G_enqueue 0; A_callback 4; G_load 0 (DUnder 1) (2, [SEff 0 KProbe []]); G_enqueue 0;
   A_change 2000; A_callback 4].
(** nested below a track that is itself still queued: both wait in queues while the rate changes *)
Definition h_nested_queued : list op :=
  [G_load 0 DSub (1, [SEff 0 KProbe []]); G_enqueue 0; G_load 0 (DUnder 1) (2, [SEff 1 KProbe []]); G_enqueue 0;
   A_change 2000; A_callback 4].
(** a send track *)
Definition h_send : list op := [G_load 0 DSend (1, [SEff 0 KProbe []]); G_enqueue 0; A_change 2000; A_callback 4].
(** a delay's length: 3 ms is 3 frames at 1 kHz and 6 at 2 kHz; a stale delay keeps cutting pieces of 3 *)
Definition h_delay : list op :=
  [G_load 0 DSub (1, [SEff (-1) (KDelay 3000000) [SEff 0 KProbe []]]); G_enqueue 0; A_change 2000; A_callback 8].
(** there and back while queued: the remembered rate is the rate in force again, nobody is told anything *)
Definition h_there_and_back : list op :=
  [G_load 0 DSub probe_track; G_enqueue 0; A_change 2000; A_change 1000; A_callback 4].

Definition init0 := init_state 1000 4 [].

(** the code as it is: every former witness history is in force, the probe is told the new rate at pick-up *)
Lemma witness_add_change_cb :
  all_in_forceb fo0 init0 h_add_change_cb = true /\ snd (run fo0 init0 h_add_change_cb) = [(0, 2000, 2000, 4)].
Proof. vm_compute. auto. Qed.
Lemma witness_load_change_enq_cb :
  all_in_forceb fo0 init0 h_load_change_enq_cb = true /\ snd (run fo0 init0 h_load_change_enq_cb) = [(0, 2000, 2000, 4)].
Proof. vm_compute. auto. Qed.
Lemma witness_nested :
  all_in_forceb fo0 init0 h_nested = true /\ snd (run fo0 init0 h_nested) = [(0, 2000, 2000, 4)] /\
  all_in_forceb fo0 init0 h_nested_queued = true /\
  snd (run fo0 init0 h_nested_queued) = [(1, 2000, 2000, 4); (0, 2000, 2000, 4)].
Proof. vm_compute. auto. Qed.
Lemma witness_send :
  all_in_forceb fo0 init0 h_send = true /\ snd (run fo0 init0 h_send) = [(0, 2000, 2000, 4)].
Proof. vm_compute. auto. Qed.
Lemma witness_delay :
  snd (run fo0 (init_state 1000 8 []) h_delay) = [(0, 2000, 2000, 6); (0, 2000, 2000, 2)].
Proof. vm_compute. auto. Qed.
Lemma witness_there_and_back :
  all_in_forceb fo0 init0 h_there_and_back = true /\ snd (run fo0 init0 h_there_and_back) = [(0, 1000, 1000, 4)] /\
  s_subs (fst (run fo0 init0 h_there_and_back)) = [Trk 1 1000 [Eff 0 KProbe [(ByInit, 1000)] []] [] []].
Proof. vm_compute. auto. Qed.
Lemma witness_good_orders :
  all_in_forceb fo0 init0 h_add_cb_change_cb = true
  /\ snd (run fo0 init0 h_add_cb_change_cb) = [(0, 1000, 1000, 4); (0, 2000, 2000, 4)]
  /\ all_in_forceb fo0 init0 h_change_add_cb = true
  /\ snd (run fo0 init0 h_change_add_cb) = [(0, 2000, 2000, 4)].
Proof. vm_compute. repeat split. Qed.

(** the counter-model (pick-up without the comparison): the same histories end with a [process] call of an effect that
    still believes 1000 Hz while dt = 1/2000; the stale delay cuts pieces of 3 frames instead of 6 *)
Lemma unrepaired_witnesses :
  all_in_forceb_unrepaired fo0 init0 h_add_change_cb = false /\
  snd (run_unrepaired fo0 init0 h_add_change_cb) = [(0, 1000, 2000, 4)] /\
  all_in_forceb_unrepaired fo0 init0 h_load_change_enq_cb = false /\
  snd (run_unrepaired fo0 init0 h_load_change_enq_cb) = [(0, 1000, 2000, 4)] /\
  all_in_forceb_unrepaired fo0 init0 h_nested = false /\
  all_in_forceb_unrepaired fo0 init0 h_nested_queued = false /\
  all_in_forceb_unrepaired fo0 init0 h_send = false /\
  snd (run_unrepaired fo0 (init_state 1000 8 []) h_delay) = [(0, 1000, 2000, 3); (0, 1000, 2000, 3); (0, 1000, 2000, 2)] /\
  all_in_forceb_unrepaired fo0 init0 h_add_cb_change_cb = true /\
  all_in_forceb_unrepaired fo0 init0 h_change_add_cb = true.
Proof. vm_compute. repeat split. Qed.

(** F14 regression: the former counter-examples satisfy the property; without the comparison they do not *)
Lemma f14_regression_l :
  (all_in_force fo0 init0 h_add_change_cb /\ snd (run fo0 init0 h_add_change_cb) = [(0, 2000, 2000, 4)]) /\
  (all_in_force fo0 init0 h_load_change_enq_cb /\ snd (run fo0 init0 h_load_change_enq_cb) = [(0, 2000, 2000, 4)]) /\
  all_in_force fo0 init0 h_nested /\ all_in_force fo0 init0 h_nested_queued /\ all_in_force fo0 init0 h_send /\
  snd (run fo0 (init_state 1000 8 []) h_delay) = [(0, 2000, 2000, 6); (0, 2000, 2000, 2)] /\
  (~ all_in_force_unrepaired fo0 init0 h_add_change_cb /\
   snd (run_unrepaired fo0 init0 h_add_change_cb) = [(0, 1000, 2000, 4)]) /\
  (~ all_in_force_unrepaired fo0 init0 h_load_change_enq_cb /\
   snd (run_unrepaired fo0 init0 h_load_change_enq_cb) = [(0, 1000, 2000, 4)]) /\
  ~ all_in_force_unrepaired fo0 init0 h_nested /\ ~ all_in_force_unrepaired fo0 init0 h_nested_queued /\
  ~ all_in_force_unrepaired fo0 init0 h_send /\
  snd (run_unrepaired fo0 (init_state 1000 8 []) h_delay) = [(0, 1000, 2000, 3); (0, 1000, 2000, 3); (0, 1000, 2000, 2)].
Proof.
  destruct witness_add_change_cb as [A1 A2]. destruct witness_load_change_enq_cb as [B1 B2].
  destruct witness_nested as [C1 [_ [C2 _]]]. destruct witness_send as [D1 _].
  destruct unrepaired_witnesses as [U1 [U2 [U3 [U4 [U5 [U6 [U7 [U8 _]]]]]]]].
  assert (N : forall h, all_in_forceb_unrepaired fo0 init0 h = false -> ~ all_in_force_unrepaired fo0 init0 h).
  { intros h E H. apply all_in_forceb_unrepaired_spec in H. congruence. }
  pose proof (fun h E => proj1 (all_in_forceb_spec fo0 h init0) E) as Y.
  split; [split; [apply Y; exact A1|exact A2]|]. split; [split; [apply Y; exact B1|exact B2]|].
  split; [apply Y; exact C1|]. split; [apply Y; exact C2|]. split; [apply Y; exact D1|].
  split; [exact witness_delay|].
  split; [split; [apply N; exact U1|exact U2]|]. split; [split; [apply N; exact U3|exact U4]|].
  split; [apply N; exact U5|]. split; [apply N; exact U6|]. split; [apply N; exact U7|]. exact U8.
Qed.
