(** C16 — the predicates of the protocol theorems and the concrete witness histories (closed by [vm_compute]). *)
From Coq Require Import ZArith List Bool Lia.
From KV Require Import C16.Model.
Import ListNotations.
Local Open Scope Z_scope.

(** a [process] call is "in force" when the effect was last told the device rate and [dt] is its reciprocal *)
Definition ev_ok (rate : Z) (e : event) : Prop := let '(_, told, dtr, _) := e in told = rate /\ dtr = rate.
Definition ev_okb (rate : Z) (e : event) : bool := let '(_, told, dtr, _) := e in (told =? rate) && (dtr =? rate).

Lemma ev_okb_spec rate e : ev_okb rate e = true <-> ev_ok rate e.
Proof. destruct e as [[[i t] d] n]. unfold ev_okb, ev_ok. rewrite andb_true_iff, !Z.eqb_eq. tauto. Qed.

Section P.
  Variable frames_of : Z -> Z -> Z.

  (** THE PROPERTY on a history: every [process] call of every callback happens with the rate in force *)
  Fixpoint all_in_force (s : state) (h : list op) : Prop :=
    match h with
    | [] => True
    | o :: h' => Forall (ev_ok (s_rate (fst (step frames_of s o)))) (snd (step frames_of s o))
                 /\ all_in_force (fst (step frames_of s o)) h'
    end.
  Fixpoint all_in_forceb (s : state) (h : list op) : bool :=
    match h with
    | [] => true
    | o :: h' => forallb (ev_okb (s_rate (fst (step frames_of s o)))) (snd (step frames_of s o))
                 && all_in_forceb (fst (step frames_of s o)) h'
    end.
  Lemma all_in_forceb_spec h : forall s, all_in_forceb s h = true <-> all_in_force s h.
  Proof.
    induction h as [|o h IH]; intro s; cbn [all_in_forceb all_in_force]; [tauto|].
    rewrite andb_true_iff, IH, forallb_forall, Forall_forall.
    split; intros [A B]; split; auto; intros e He; apply ev_okb_spec; auto.
  Qed.
End P.

(** nothing is between a load and a pick-up: no caller thread holds a loaded rate, every queue is empty *)
Fixpoint no_queue (t : track) : bool :=
  match t with Trk _ _ _ ar q => match q with [] => forallb no_queue ar | _ => false end end.
Definition quiescent (s : state) : bool :=
  match s_pend s, s_subq s, s_sendq s with
  | [], [], [] => forallb no_queue (s_subs s) && forallb no_queue (s_sends s)
  | _, _, _ => false
  end.

(** THE GUARD on a history: no change of the rate (to a different rate) falls between a track's load and its pick-up *)
Section G.
  Variable frames_of : Z -> Z -> Z.
  Fixpoint no_race (s : state) (h : list op) : bool :=
    match h with
    | [] => true
    | o :: h' =>
        (match o with A_change r => (r =? s_rate s) || quiescent s | _ => true end)
        && no_race (fst (step frames_of s o)) h'
    end.
End G.

(** the frame count of a delay plays no role in the witnesses *)
Definition fo0 (t r : Z) : Z := t * r / 1000000000.

Definition probe_track : tshape := (1, [SEff 0 KProbe []]).
(** F14: add (load + enqueue); change; callback *)
Definition h_add_change_cb : list op := [G_load 0 DSub probe_track; G_enqueue 0; A_change 2000; A_callback 4].
(** the racy variant: load; change; enqueue; callback *)
Definition h_load_change_enq_cb : list op := [G_load 0 DSub probe_track; A_change 2000; G_enqueue 0; A_callback 4].
(** the two orders that are fine *)
Definition h_add_cb_change_cb : list op := [G_load 0 DSub probe_track; G_enqueue 0; A_callback 4; A_change 2000; A_callback 4].
Definition h_change_add_cb : list op := [A_change 2000; G_load 0 DSub probe_track; G_enqueue 0; A_callback 4].
(** nested: a sub-track pushed on the queue of a track that is already in the arena *)
Definition h_nested : list op :=
  [G_load 0 DSub (1, []); G_enqueue 0; A_callback 4; G_load 0 (DUnder 1) (2, [SEff 0 KProbe []]); G_enqueue 0;
   A_change 2000; A_callback 4].
(** a delay's length: 3 ms is 3 frames at 1 kHz and 6 at 2 kHz; the stale delay keeps cutting pieces of 3 *)
Definition h_delay : list op :=
  [G_load 0 DSub (1, [SEff (-1) (KDelay 3000000) [SEff 0 KProbe []]]); G_enqueue 0; A_change 2000; A_callback 8].

Definition init0 := init_state 1000 4 [].

Lemma witness_add_change_cb :
  no_race fo0 init0 h_add_change_cb = false /\ all_in_forceb fo0 init0 h_add_change_cb = false
  /\ snd (run fo0 init0 h_add_change_cb) = [(0, 1000, 2000, 4)].
Proof. vm_compute. auto. Qed.
Lemma witness_load_change_enq_cb :
  no_race fo0 init0 h_load_change_enq_cb = false /\ all_in_forceb fo0 init0 h_load_change_enq_cb = false
  /\ snd (run fo0 init0 h_load_change_enq_cb) = [(0, 1000, 2000, 4)].
Proof. vm_compute. auto. Qed.
Lemma witness_nested :
  no_race fo0 init0 h_nested = false /\ all_in_forceb fo0 init0 h_nested = false.
Proof. vm_compute. auto. Qed.
Lemma witness_delay :
  snd (run fo0 (init_state 1000 8 []) h_delay) = [(0, 1000, 2000, 3); (0, 1000, 2000, 3); (0, 1000, 2000, 2)].
Proof. vm_compute. auto. Qed.
Lemma witness_good_orders :
  no_race fo0 init0 h_add_cb_change_cb = true /\ all_in_forceb fo0 init0 h_add_cb_change_cb = true
  /\ snd (run fo0 init0 h_add_cb_change_cb) = [(0, 1000, 1000, 4); (0, 2000, 2000, 4)]
  /\ no_race fo0 init0 h_change_add_cb = true /\ all_in_forceb fo0 init0 h_change_add_cb = true
  /\ snd (run fo0 init0 h_change_add_cb) = [(0, 2000, 2000, 4)].
Proof. vm_compute. repeat split. Qed.

(** [stale_rate_refuted]: the wanted invariant fails on histories outside the guard *)
Lemma stale_rate_refuted_l :
  exists h, no_race fo0 init0 h = false /\ ~ all_in_force fo0 init0 h.
Proof.
  exists h_add_change_cb. destruct witness_add_change_cb as [A [B _]]. split; [exact A|].
  intro H. apply all_in_forceb_spec in H. congruence.
Qed.
Lemma stale_rate_racy_refuted_l :
  exists h, no_race fo0 init0 h = false /\ ~ all_in_force fo0 init0 h.
Proof.
  exists h_load_change_enq_cb. destruct witness_load_change_enq_cb as [A [B _]]. split; [exact A|].
  intro H. apply all_in_forceb_spec in H. congruence.
Qed.
