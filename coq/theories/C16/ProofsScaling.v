(** C16 — scaling laws in exact arithmetic: with dt = 1/sr, what was specified in seconds / hertz does not depend
    on the device rate nor on where the rate changes. *)
From Coq Require Import ZArith QArith Qround Qabs List Bool Lia Lqa.
From KV Require Import Base.Outcome Base.Num Base.QLemmas C06.Model C06.Dur C06.Proofs C06.Proofs2 C16.Model.
Import ListNotations.
Local Open Scope Q_scope.

Fixpoint Qsum (l : list Q) : Q := match l with [] => 0 | x :: l' => x + Qsum l' end.
Lemma Qsum_app a b : Qsum (a ++ b) == Qsum a + Qsum b.
Proof. induction a as [|x a IH]; cbn [app Qsum]; [ring|]. rewrite IH. ring. Qed.
Lemma Qsum_repeat x n : Qsum (repeat x n) == inject_Z (Z.of_nat n) * x.
Proof.
  induction n as [|n IH]; [cbn; ring|]. cbn [repeat Qsum]. rewrite IH.
  rewrite Nat2Z.inj_succ. unfold Z.succ. rewrite inject_Z_plus. ring.
Qed.

Lemma inj_pos (z : Z) : (0 < z)%Z -> 0 < inject_Z z.
Proof. intro H. change 0 with (inject_Z 0). rewrite <- Zlt_Qlt. exact H. Qed.
Lemma inj_nonneg (z : Z) : (0 <= z)%Z -> 0 <= inject_Z z.
Proof. intro H. change 0 with (inject_Z 0). rewrite <- Zle_Qle. exact H. Qed.
Lemma inj_nz (z : Z) : (0 < z)%Z -> ~ inject_Z z == 0.
Proof. intros H E. pose proof (inj_pos z H). lra. Qed.

(** ** renderings: segments (device rate, chunk lengths); the real time they cover *)
Definition seg_frames (sg : segment) : Z := fold_right Z.add 0%Z (snd sg).
Definition seg_time (sg : segment) : Q := inject_Z (seg_frames sg) / inject_Z (fst sg).
Definition total_time (segs : list segment) : Q := Qsum (map seg_time segs).
Definition valid_seg (sg : segment) : Prop := (0 < fst sg)%Z /\ Forall (fun c => (0 <= c)%Z) (snd sg).

(** what the time-keeping code adds up, chunk by chunk / frame by frame *)
Definition sound_steps (s : Z) (rho : Q) (segs : list segment) : list Q :=
  flat_map (fun sg => flat_map (fun c => repeat (sound_step s rho (dt_of (fst sg))) (Z.to_nat c)) (snd sg)) segs.
Definition clock_steps (tps : Q) (segs : list segment) : list Q :=
  flat_map (fun sg => map (fun c => clock_step tps (chunk_time (dt_of (fst sg)) c)) (snd sg)) segs.
Definition tween_updates (segs : list segment) : list (Q * info Q) :=
  flat_map (fun sg => map (fun c => (chunk_time (dt_of (fst sg)) c, @no_info Q)) (snd sg)) segs.

Lemma dt_of_Q sr : @dt_of Q _ sr == 1 / inject_Z sr.
Proof. unfold dt_of. cbn [ndiv n1 nofZ Num_Q]. apply Qred_correct. Qed.
Lemma chunk_time_Q sr c : (0 < sr)%Z -> @chunk_time Q _ (dt_of sr) c == inject_Z c / inject_Z sr.
Proof.
  intro H. unfold chunk_time. cbn [nmul nofZ Num_Q]. rewrite Qred_correct, dt_of_Q.
  assert (~ inject_Z sr == 0) by (apply inj_nz; exact H).
  field. assumption.
Qed.
Lemma sound_step_Q s rho sr : (0 < sr)%Z -> @sound_step Q _ s rho (dt_of sr) == inject_Z s * rho / inject_Z sr.
Proof.
  intro H. unfold sound_step. cbn [nmul nofZ Num_Q]. rewrite !Qred_correct, dt_of_Q.
  assert (~ inject_Z sr == 0) by (apply inj_nz; exact H).
  field. assumption.
Qed.

Lemma seg_frames_cons sr c l : inject_Z (seg_frames (sr, c :: l)) == inject_Z c + inject_Z (seg_frames (sr, l)).
Proof. unfold seg_frames. cbn [snd fold_right]. rewrite inject_Z_plus. reflexivity. Qed.

Lemma sound_steps_sum s rho segs : Forall valid_seg segs ->
  Qsum (sound_steps s rho segs) == inject_Z s * rho * total_time segs.
Proof.
  intro V. induction V as [|[sr lens] segs [Hsr Hl] _ IH]; [cbn; ring|].
  unfold sound_steps, total_time in *. cbn [flat_map map Qsum].
  rewrite Qsum_app, IH. cbn [fst snd] in *. clear IH.
  assert (E : Qsum (flat_map (fun c => repeat (sound_step s rho (dt_of sr)) (Z.to_nat c)) lens)
              == inject_Z s * rho * seg_time (sr, lens)); [|rewrite E; ring].
  assert (N : ~ inject_Z sr == 0) by (apply inj_nz; exact Hsr).
  unfold seg_time. cbn [fst]. induction Hl as [|c lens Hc _ IH]; [unfold seg_frames; cbn; field; exact N|].
  cbn [flat_map]. rewrite Qsum_app, IH, Qsum_repeat, seg_frames_cons, (sound_step_Q s rho sr Hsr), Z2Nat.id by exact Hc.
  field. exact N.
Qed.

Lemma clock_steps_sum tps segs : Forall valid_seg segs ->
  Qsum (clock_steps tps segs) == tps * total_time segs.
Proof.
  intro V. induction V as [|[sr lens] segs [Hsr Hl] _ IH]; [cbn; ring|].
  unfold clock_steps, total_time in *. cbn [flat_map map Qsum].
  rewrite Qsum_app, IH. cbn [fst snd] in *. clear IH.
  assert (E : Qsum (map (fun c => clock_step tps (chunk_time (dt_of sr) c)) lens) == tps * seg_time (sr, lens)); [|rewrite E; ring].
  assert (N : ~ inject_Z sr == 0) by (apply inj_nz; exact Hsr).
  unfold seg_time. cbn [fst]. induction Hl as [|c lens Hc _ IH]; [unfold seg_frames; cbn; field; exact N|].
  cbn [map Qsum].
  rewrite IH, seg_frames_cons. unfold clock_step. cbn [nmul Num_Q]. rewrite Qred_correct, (chunk_time_Q sr c Hsr).
  field. exact N.
Qed.

Lemma tween_updates_sum segs : Forall valid_seg segs ->
  plain_sum Immediate (tween_updates segs) == total_time segs.
Proof.
  intro V. induction V as [|[sr lens] segs [Hsr Hl] _ IH]; [cbn; ring|].
  unfold tween_updates, total_time in *. cbn [flat_map map Qsum].
  rewrite <- IH. cbn [fst snd] in *. clear IH.
  assert (N : ~ inject_Z sr == 0) by (apply inj_nz; exact Hsr).
  unfold seg_time. cbn [fst]. induction Hl as [|c lens Hc _ IH]; [unfold seg_frames; cbn; field; exact N|].
  cbn [map app plain_sum counts]. rewrite IH, seg_frames_cons, (chunk_time_Q sr c Hsr). field. exact N.
Qed.

(** ** the accumulate-and-wrap loop ([fractional_position], [tick_timer]) in exact arithmetic *)
Lemma inj_sub1 z : inject_Z (z - 1) == inject_Z z - 1.
Proof. unfold Z.sub. rewrite inject_Z_plus, inject_Z_opp. reflexivity. Qed.
Lemma Qfloor_sub1 x : Qfloor (x - 1) = (Qfloor x - 1)%Z.
Proof.
  destruct (Qfloor_bounds x) as [A B]. apply Qfloor_unique; rewrite inj_sub1; lra.
Qed.

Lemma wrap_spec fuel : forall (w : Z) (x : Q), 0 <= x -> x < inject_Z (Z.of_nat fuel) ->
  exists x', @wrap Q _ fuel w x = Ok ((w + Qfloor x)%Z, x') /\ x' == x - inject_Z (Qfloor x).
Proof.
  induction fuel as [|f IH]; intros w x H0 Hf.
  - change (inject_Z (Z.of_nat 0)) with 0 in Hf. lra.
  - cbn [wrap nleb n1 nsub Num_Q]. destruct (Qle_bool 1 x) eqn:E.
    + apply Qle_bool_iff in E.
      assert (F : x - 1 < inject_Z (Z.of_nat f)).
      { rewrite Nat2Z.inj_succ in Hf. unfold Z.succ in Hf. rewrite inject_Z_plus in Hf. change (inject_Z 1) with 1 in Hf. lra. }
      destruct (IH (w + 1)%Z (Qred (x - 1))) as [x' [R X]]; [rewrite Qred_correct; lra|rewrite Qred_correct; exact F|].
      exists x'. rewrite R. rewrite (Qfloor_comp _ _ (Qred_correct (x - 1))), Qfloor_sub1 in *.
      split; [f_equal; f_equal; lia|]. rewrite X, Qred_correct, inj_sub1. ring.
    + apply Qle_bool_false in E. exists x.
      assert (Z0 : Qfloor x = 0%Z) by (apply Qfloor_unique; change (inject_Z 0) with 0; lra).
      rewrite Z0, Z.add_0_r. split; [reflexivity|]. change (inject_Z 0) with 0. ring.
Qed.

Lemma acc_run_spec fuel ds : forall (w0 : Z) (x0 : Q),
  0 <= x0 -> x0 < 1 -> Forall (fun d => 0 <= d /\ d + 1 < inject_Z (Z.of_nat fuel)) ds ->
  exists w x, @acc_run Q _ fuel (w0, x0) ds = Ok (w, x) /\ 0 <= x /\ x < 1 /\
              inject_Z w + x == inject_Z w0 + x0 + Qsum ds.
Proof.
  induction ds as [|d ds IH]; intros w0 x0 H0 H1 F.
  - exists w0, x0. cbn. repeat split; try assumption. ring.
  - inversion F as [|? ? [Hd Hfu] F']; subst. cbn [acc_run acc_step fst snd nadd Num_Q].
    destruct (wrap_spec fuel w0 (Qred (x0 + d))) as [x' [R X]]; [rewrite Qred_correct; lra|rewrite Qred_correct; lra|].
    unfold acc_step. cbn [fst snd nadd Num_Q]. rewrite R. cbn [obind]. rewrite (Qfloor_comp _ _ (Qred_correct (x0 + d))) in *. rewrite Qred_correct in X.
    destruct (Qfloor_bounds (x0 + d)) as [B1 B2].
    destruct (IH (w0 + Qfloor (x0 + d))%Z x') as [w [x [Rr [A [B C]]]]]; [lra|lra|exact F'|].
    exists w, x. split; [exact Rr|]. split; [exact A|]. split; [exact B|].
    rewrite C, X, inject_Z_plus. cbn [Qsum]. ring.
Qed.

(** the whole part is the floor of the total: the pair is a function of the total alone *)
Lemma whole_is_floor (w : Z) (x y : Q) : 0 <= x -> x < 1 -> inject_Z w + x == y -> w = Qfloor y /\ x == y - inject_Z (Qfloor y).
Proof.
  intros A B E. assert (W : Qfloor y = w) by (apply Qfloor_unique; lra). subst w. split; [reflexivity|]. lra.
Qed.

Lemma Forall_flat_map_intro {A B} (P : B -> Prop) (f : A -> list B) l :
  (forall x, In x l -> Forall P (f x)) -> Forall P (flat_map f l).
Proof.
  induction l as [|a l IH]; intro H; cbn; [constructor|].
  apply Forall_app. split; [apply H; left; reflexivity|apply IH; intros x Hx; apply H; right; exact Hx].
Qed.

(** ** sounds: position after a rendering = sound rate * playback rate * elapsed seconds *)
Theorem sound_position_scaling_l (fuel : nat) (s : Z) (rho : Q) (segs : list segment) :
  (0 <= s)%Z -> 0 <= rho -> Forall valid_seg segs ->
  (forall sg, In sg segs -> inject_Z s * rho / inject_Z (fst sg) + 1 < inject_Z (Z.of_nat fuel)) ->
  exists (pos : Z) (frac : Q),
    acc_run fuel (0%Z, 0) (sound_steps s rho segs) = Ok (pos, frac) /\ 0 <= frac /\ frac < 1 /\
    inject_Z pos + frac == inject_Z s * rho * total_time segs /\
    pos = Qfloor (inject_Z s * rho * total_time segs).
Proof.
  intros Hs Hr V Hf.
  destruct (acc_run_spec fuel (sound_steps s rho segs) 0%Z 0) as [w [x [R [A [B C]]]]]; [lra|lra| |].
  - unfold sound_steps. apply Forall_flat_map_intro. intros sg Hsg. apply Forall_flat_map_intro. intros c _.
    pose proof (Forall_forall valid_seg segs) as FF. destruct (proj1 FF V sg Hsg) as [Hsr _].
    assert (N : 0 < inject_Z (fst sg)) by (apply inj_pos; exact Hsr).
    assert (E := sound_step_Q s rho (fst sg) Hsr).
    assert (P : 0 <= inject_Z s * rho / inject_Z (fst sg)).
    { apply Qle_shift_div_l; [exact N|]. rewrite Qmult_0_l. apply Qmult_le_0_compat; [apply inj_nonneg; exact Hs|exact Hr]. }
    apply Forall_forall. intros d Hd. apply repeat_spec in Hd. subst d. rewrite E. split; [exact P|apply Hf; exact Hsg].
  - exists w, x. rewrite (sound_steps_sum s rho segs V) in C. change (inject_Z 0) with 0 in C.
    assert (C' : inject_Z w + x == inject_Z s * rho * total_time segs) by (rewrite C; ring).
    repeat split; try assumption. apply (whole_is_floor w x _ A B C').
Qed.

(** a sound of N frames has been played through exactly when N / (s * rho) seconds have been rendered *)
Theorem sound_duration_l (s N : Z) (rho t : Q) :
  0 < inject_Z s * rho -> ((N <= Qfloor (inject_Z s * rho * t))%Z <-> inject_Z N / (inject_Z s * rho) <= t).
Proof.
  intro H. set (k := inject_Z s * rho) in *. destruct (Qfloor_bounds (k * t)) as [A B]. split; intro L.
  - apply Qle_shift_div_r; [exact H|]. rewrite Zle_Qle in L. rewrite (Qmult_comm t k). lra.
  - assert (L' : inject_Z N <= k * t).
    { apply (Qmult_le_r _ _ k H) in L. rewrite (Qmult_comm t k) in L.
      assert (E : inject_Z N / k * k == inject_Z N) by (field; lra). rewrite E in L. exact L. }
    assert (G : (N < Qfloor (k * t) + 1)%Z); [|lia].
    rewrite Zlt_Qlt, inject_Z_plus. change (inject_Z 1) with 1. lra.
Qed.

(** ** clocks: ticks after a rendering = ticks per second * elapsed seconds *)
Theorem clock_scaling_l (fuel : nat) (tps : Q) (segs : list segment) :
  0 <= tps -> Forall valid_seg segs ->
  (forall sg c, In sg segs -> In c (snd sg) -> tps * (inject_Z c / inject_Z (fst sg)) + 1 < inject_Z (Z.of_nat fuel)) ->
  exists (ticks : Z) (frac : Q),
    acc_run fuel (0%Z, 0) (clock_steps tps segs) = Ok (ticks, frac) /\ 0 <= frac /\ frac < 1 /\
    inject_Z ticks + frac == tps * total_time segs /\ ticks = Qfloor (tps * total_time segs).
Proof.
  intros Hr V Hf.
  destruct (acc_run_spec fuel (clock_steps tps segs) 0%Z 0) as [w [x [R [A [B C]]]]]; [lra|lra| |].
  - unfold clock_steps. apply Forall_flat_map_intro. intros sg Hsg.
    pose proof (Forall_forall valid_seg segs) as FF. destruct (proj1 FF V sg Hsg) as [Hsr Hl].
    apply Forall_forall. intros d Hd. apply in_map_iff in Hd. destruct Hd as [c [Ed Hc]]. subst d.
    unfold clock_step. cbn [nmul Num_Q]. rewrite Qred_correct, (chunk_time_Q (fst sg) c Hsr).
    split; [|apply Hf; assumption].
    assert (N : 0 < inject_Z (fst sg)) by (apply inj_pos; exact Hsr).
    apply Qmult_le_0_compat; [exact Hr|]. apply Qle_shift_div_l; [exact N|]. rewrite Qmult_0_l.
    apply inj_nonneg. rewrite Forall_forall in Hl. apply Hl. exact Hc.
  - exists w, x. rewrite (clock_steps_sum tps segs V) in C. change (inject_Z 0) with 0 in C.
    assert (C' : inject_Z w + x == tps * total_time segs) by (rewrite C; ring).
    repeat split; try assumption. apply (whole_is_floor w x _ A B C').
Qed.

(** ** tweens (C06 model): elapsed tween time = elapsed seconds; completion is decided by seconds alone *)
Lemma tween_updates_nonneg segs : Forall valid_seg segs -> nonneg_updates (tween_updates segs).
Proof.
  intro V. unfold nonneg_updates, tween_updates. apply Forall_flat_map_intro. intros sg Hsg.
  pose proof (Forall_forall valid_seg segs) as FF. destruct (proj1 FF V sg Hsg) as [Hsr Hl].
  apply Forall_forall. intros u Hu. apply in_map_iff in Hu. destruct Hu as [c [Eu Hc]]. subst u. cbn [fst].
  rewrite (chunk_time_Q (fst sg) c Hsr).
  assert (N : 0 < inject_Z (fst sg)) by (apply inj_pos; exact Hsr).
  apply Qle_shift_div_l; [exact N|]. rewrite Qmult_0_l. apply inj_nonneg. rewrite Forall_forall in Hl. apply Hl. exact Hc.
Qed.

Theorem tween_time_scaling_l (segs : list segment) (D : Q) :
  Forall valid_seg segs -> 0 < D ->
  elapsed Immediate 0 (tween_updates segs) == total_time segs /\
  (completes Immediate D 0 (tween_updates segs) = true <-> D <= total_time segs).
Proof.
  intros V HD. assert (E : elapsed Immediate 0 (tween_updates segs) == total_time segs).
  { rewrite elapsed_sum, (tween_updates_sum segs V). ring. }
  split; [exact E|]. rewrite (completes_spec Immediate D 0 _ (tween_updates_nonneg segs V) HD). rewrite E. tauto.
Qed.

(** ** two renderings that cover the same real time leave sounds, clocks and tweens in the same place *)
Theorem rate_independence_l (fuel : nat) (s : Z) (rho tps : Q) (segs1 segs2 : list segment) :
  (0 <= s)%Z -> 0 <= rho -> 0 <= tps -> Forall valid_seg segs1 -> Forall valid_seg segs2 ->
  (forall sg, In sg (segs1 ++ segs2) -> inject_Z s * rho / inject_Z (fst sg) + 1 < inject_Z (Z.of_nat fuel)) ->
  (forall sg c, In sg (segs1 ++ segs2) -> In c (snd sg) -> tps * (inject_Z c / inject_Z (fst sg)) + 1 < inject_Z (Z.of_nat fuel)) ->
  total_time segs1 == total_time segs2 ->
  exists pos f1 f2 ticks g1 g2,
    acc_run fuel (0%Z, 0) (sound_steps s rho segs1) = Ok (pos, f1) /\
    acc_run fuel (0%Z, 0) (sound_steps s rho segs2) = Ok (pos, f2) /\ f1 == f2 /\
    acc_run fuel (0%Z, 0) (clock_steps tps segs1) = Ok (ticks, g1) /\
    acc_run fuel (0%Z, 0) (clock_steps tps segs2) = Ok (ticks, g2) /\ g1 == g2 /\
    elapsed Immediate 0 (tween_updates segs1) == elapsed Immediate 0 (tween_updates segs2).
Proof.
  intros Hs Hr Ht V1 V2 F1 F2 E.
  destruct (sound_position_scaling_l fuel s rho segs1 Hs Hr V1) as [p1 [f1 [R1 [_ [_ [C1 P1]]]]]];
    [intros sg H; apply F1; apply in_or_app; left; exact H|].
  destruct (sound_position_scaling_l fuel s rho segs2 Hs Hr V2) as [p2 [f2 [R2 [_ [_ [C2 P2]]]]]];
    [intros sg H; apply F1; apply in_or_app; right; exact H|].
  destruct (clock_scaling_l fuel tps segs1 Ht V1) as [t1 [g1 [S1 [_ [_ [D1 Q1]]]]]];
    [intros sg c H Hc; apply F2; [apply in_or_app; left; exact H|exact Hc]|].
  destruct (clock_scaling_l fuel tps segs2 Ht V2) as [t2 [g2 [S2 [_ [_ [D2 Q2]]]]]];
    [intros sg c H Hc; apply F2; [apply in_or_app; right; exact H|exact Hc]|].
  assert (EP : p1 = p2) by (rewrite P1, P2; apply Qfloor_comp; rewrite E; reflexivity).
  assert (ET : t1 = t2) by (rewrite Q1, Q2; apply Qfloor_comp; rewrite E; reflexivity).
  rewrite <- EP in R2, C2. rewrite <- ET in S2, D2. exists p1, f1, f2, t1, g1, g2. repeat split; try assumption.
  - rewrite E in C1. rewrite <- C2 in C1. lra.
  - rewrite E in D1. rewrite <- D2 in D1. lra.
  - rewrite !elapsed_sum, (tween_updates_sum _ V1), (tween_updates_sum _ V2), E. reflexivity.
Qed.

(** ** delay: the realised delay time is within one frame below the requested one; below one frame it is one frame *)
Definition secs_of_ns (t_ns : Z) : Q := inject_Z t_ns / 1000000000.

Lemma ns_to_secs_Q_eq t_ns : ns_to_secs_Q t_ns == secs_of_ns t_ns.
Proof. unfold ns_to_secs_Q, secs_of_ns. rewrite Qred_correct. unfold Qeq, Qdiv, Qmult, Qinv, inject_Z. cbn. ring. Qed.

Theorem delay_time_error_l (t_ns sr : Z) :
  (0 <= t_ns)%Z -> (0 < sr)%Z -> secs_of_ns t_ns * inject_Z sr < inject_Z (2 ^ 64 - 1) ->
  let T := secs_of_ns t_ns in
  let L := @delay_frames Q _ _ t_ns sr in
  (1 <= T * inject_Z sr -> L = Qfloor (T * inject_Z sr) /\ T - 1 / inject_Z sr < inject_Z L / inject_Z sr /\ inject_Z L / inject_Z sr <= T) /\
  (T * inject_Z sr < 1 -> L = 1%Z /\ T < inject_Z L / inject_Z sr /\ inject_Z L / inject_Z sr <= T + 1 / inject_Z sr).
Proof.
  intros Ht Hsr Hbig T L. fold T in Hbig.
  assert (N : 0 < inject_Z sr) by (apply inj_pos; exact Hsr).
  assert (T0 : 0 <= T).
  { unfold T, secs_of_ns. apply Qle_shift_div_l; [reflexivity|]. rewrite Qmult_0_l. apply inj_nonneg. exact Ht. }
  assert (P : 0 <= T * inject_Z sr) by (apply Qmult_le_0_compat; lra).
  assert (EL : L = Z.max 1 (Qfloor (T * inject_Z sr))).
  { unfold L, delay_frames, delay_trunc. cbn [ntoU64 nmul nofZ ns_to_secs Num_Q NumDur_Q]. f_equal.
    assert (E : Qred (ns_to_secs_Q t_ns * inject_Z sr) == T * inject_Z sr) by (rewrite Qred_correct, ns_to_secs_Q_eq; reflexivity).
    unfold Qtruncz. assert (B : Qle_bool 0 (Qred (ns_to_secs_Q t_ns * inject_Z sr)) = true) by (apply Qle_bool_iff; rewrite E; exact P).
    rewrite B, (Qfloor_comp _ _ E).
    destruct (Qfloor_bounds (T * inject_Z sr)) as [B1 B2].
    assert (F0 : (0 <= Qfloor (T * inject_Z sr))%Z).
    { assert (G : (0 < Qfloor (T * inject_Z sr) + 1)%Z); [|lia]. rewrite Zlt_Qlt, inject_Z_plus. change (inject_Z 1) with 1. change (inject_Z 0) with 0. lra. }
    assert (F1 : (Qfloor (T * inject_Z sr) <= 2 ^ 64 - 1)%Z).
    { rewrite Zle_Qle. lra. }
    lia. }
  destruct (Qfloor_bounds (T * inject_Z sr)) as [B1 B2].
  split; intro H.
  - assert (F : (1 <= Qfloor (T * inject_Z sr))%Z).
    { assert (G : (1 < Qfloor (T * inject_Z sr) + 1)%Z); [|lia]. rewrite Zlt_Qlt, inject_Z_plus. change (inject_Z 1) with 1. lra. }
    assert (EL' : L = Qfloor (T * inject_Z sr)) by lia. split; [exact EL'|]. rewrite EL'. split.
    + apply Qlt_shift_div_l; [exact N|]. assert (E : (T - 1 / inject_Z sr) * inject_Z sr == T * inject_Z sr - 1) by (field; lra). rewrite E. lra.
    + apply Qle_shift_div_r; [exact N|]. exact B1.
  - assert (F : Qfloor (T * inject_Z sr) = 0%Z) by (apply Qfloor_unique; change (inject_Z 0) with 0; lra).
    assert (EL' : L = 1%Z) by lia. split; [exact EL'|]. rewrite EL'. change (inject_Z 1) with 1. split.
    + apply Qlt_shift_div_l; [exact N|]. exact H.
    + assert (E : T + 1 / inject_Z sr == T * 1 + 1 / inject_Z sr) by ring. lra.
Qed.

(** The code after the repair of F35 computes that length in integer arithmetic: it IS the exact floor. *)
Lemma qfloor_secs (t_ns sr : Z) : Qfloor (secs_of_ns t_ns * inject_Z sr) = (t_ns * sr / 1000000000)%Z.
Proof.
  rewrite (Qfloor_comp _ ((t_ns * sr) # 1000000000)); [reflexivity|].
  unfold secs_of_ns, Qeq, Qdiv, Qmult, Qinv, inject_Z; cbn. ring.
Qed.

Theorem delay_frames_int_exact_l (t_ns sr : Z) :
  (0 <= t_ns)%Z -> (0 < sr)%Z -> secs_of_ns t_ns * inject_Z sr < inject_Z (2 ^ 64 - 1) ->
  delay_frames_int t_ns sr = @delay_frames Q _ _ t_ns sr /\
  delay_frames_int t_ns sr = Z.max 1 (Qfloor (secs_of_ns t_ns * inject_Z sr)).
Proof.
  intros Ht Hsr Hbig.
  destruct (delay_time_error_l t_ns sr Ht Hsr Hbig) as [A B]. cbv zeta in A, B.
  destruct (Qfloor_bounds (secs_of_ns t_ns * inject_Z sr)) as [B1 B2].
  assert (U : (Qfloor (secs_of_ns t_ns * inject_Z sr) <= 2 ^ 64 - 1)%Z) by (rewrite Zle_Qle; lra).
  assert (E : delay_frames_int t_ns sr = Z.max 1 (Qfloor (secs_of_ns t_ns * inject_Z sr))).
  { unfold delay_frames_int. rewrite <- qfloor_secs. lia. }
  split; [|exact E]. rewrite E.
  destruct (Qlt_le_dec (secs_of_ns t_ns * inject_Z sr) 1) as [H|H].
  - destruct (B H) as [L1 _]. rewrite L1.
    assert (F : Qfloor (secs_of_ns t_ns * inject_Z sr) = 0%Z).
    { assert (T0 : 0 <= secs_of_ns t_ns).
      { unfold secs_of_ns. apply Qle_shift_div_l; [reflexivity|]. rewrite Qmult_0_l. change 0 with (inject_Z 0). rewrite <- Zle_Qle. exact Ht. }
      assert (S0 : 0 <= inject_Z sr) by (change 0 with (inject_Z 0); rewrite <- Zle_Qle; lia).
      assert (P0 : 0 <= secs_of_ns t_ns * inject_Z sr) by (apply Qmult_le_0_compat; assumption).
      apply Qfloor_unique; change (inject_Z 0) with 0; lra. }
    rewrite F. reflexivity.
  - destruct (A H) as [L1 _]. rewrite L1.
    assert (F : (1 <= Qfloor (secs_of_ns t_ns * inject_Z sr))%Z).
    { assert (G : (1 < Qfloor (secs_of_ns t_ns * inject_Z sr) + 1)%Z); [|lia]. rewrite Zlt_Qlt, inject_Z_plus. change (inject_Z 1) with 1. lra. }
    lia.
Qed.


(** ** filters: the coefficient argument is a function of cutoff / rate alone *)
Lemma nclamp_compat (x y lo hi : Q) : x == y -> @nclamp Q _ x lo hi == @nclamp Q _ y lo hi.
Proof.
  intro E. unfold nclamp. cbn [nltb Num_Q].
  assert (A : Qltb x lo = Qltb y lo).
  { destruct (Qltb y lo) eqn:B; [apply Qltb_true in B; apply Qltb_true; lra|apply Qltb_false in B; apply Qltb_false; lra]. }
  assert (C : Qltb hi x = Qltb hi y).
  { destruct (Qltb hi y) eqn:B; [apply Qltb_true in B; apply Qltb_true; lra|apply Qltb_false in B; apply Qltb_false; lra]. }
  rewrite A, C. destruct (Qltb y lo); [reflexivity|]. destruct (Qltb hi y); [reflexivity|exact E].
Qed.

Lemma filter_ratio_Q cutoff sr : (0 < sr)%Z -> @ndiv Q _ cutoff (ndiv n1 (dt_of sr)) == cutoff / inject_Z sr.
Proof.
  intro H. cbn [ndiv n1 Num_Q]. rewrite !Qred_correct, dt_of_Q.
  assert (~ inject_Z sr == 0) by (apply inj_nz; exact H).
  field. assumption.
Qed.

Theorem filter_coeff_depends_on_ratio_l (pi lo hi : Q) (tan : Q -> Q) (f1 f2 : Q) (sr1 sr2 : Z) :
  (forall a b, a == b -> tan a == tan b) -> (0 < sr1)%Z -> (0 < sr2)%Z ->
  f1 / inject_Z sr1 == f2 / inject_Z sr2 ->
  filter_g pi lo hi tan f1 (dt_of sr1) == filter_g pi lo hi tan f2 (dt_of sr2) /\
  eq_g pi lo hi tan f1 (dt_of sr1) == eq_g pi lo hi tan f2 (dt_of sr2) /\
  filter_arg lo hi f1 (dt_of sr1) == nclamp (f1 / inject_Z sr1) lo hi.
Proof.
  intros Htan H1 H2 E.
  assert (A : filter_arg lo hi f1 (dt_of sr1) == filter_arg lo hi f2 (dt_of sr2)).
  { unfold filter_arg. apply nclamp_compat. rewrite !filter_ratio_Q by assumption. exact E. }
  assert (B : eq_arg lo hi f1 (dt_of sr1) == eq_arg lo hi f2 (dt_of sr2)).
  { unfold eq_arg. apply nclamp_compat. cbn [nmul Num_Q]. rewrite !Qred_correct, !dt_of_Q.
    assert (X : forall f sr, f * (1 / inject_Z sr) == f / inject_Z sr) by (intros; unfold Qdiv; ring). rewrite !X. exact E. }
  split; [|split].
  - unfold filter_g. apply Htan. cbn [nmul Num_Q]. rewrite !Qred_correct, A. reflexivity.
  - unfold eq_g. apply Htan. cbn [nmul Num_Q]. rewrite !Qred_correct, B. reflexivity.
  - unfold filter_arg. apply nclamp_compat. apply filter_ratio_Q. exact H1.
Qed.
