(** C16 — seconds and hertz mean the same at every device sample rate and across changes.

    Two models (executable, no proofs here).

    (i) PROTOCOL.  Who is told which sample rate, and when.  Transcribes
        - [Renderer::on_change_sample_rate]          (backend/renderer.rs): dt := 1/r; shared.store(r); mixer fan-out
        - [Mixer::on_change_sample_rate]             (backend/resources/mixer.rs): self.sample_rate := r; main track, the
                                                      sub-tracks IN THE ARENA, the send tracks IN THE ARENA
        - [Track::init_effects / on_change_sample_rate] (track/sub.rs): self.sample_rate := r (the rate the effects were
                                                      last told); own effects, then sub-tracks in the arena
        - [Delay::init / on_change_sample_rate]      (effect/delay.rs): own buffer length, then the feedback effects
        - [AudioManager::add_sub_track / add_send_track], [TrackHandle::add_sub_track]  (manager.rs, track/sub/handle.rs):
          build; LOAD shared rate (caller thread); init_effects(loaded); push on the new-resource queue
        - [Mixer::on_start_processing] / [Track::on_start_processing(sample_rate)]: [remove_and_add] moves the queue
          into the arena (most recently inserted first); the mixer hands ITS sample rate down, and every track
          (sub, send, nested) whose remembered rate differs calls its own [on_change_sample_rate] first (the repair
          of F14: a track that was initialised on the caller's thread with a rate that is no longer in force --
          because the change happened while the track was queued, or between the caller's load and its enqueue --
          is told the rate in force at its first [on_start_processing])
        - [Mixer::process] / [Track::process] / [Delay::process]: every effect processes with the renderer's [dt];
          a Delay cuts its input into pieces of its buffer length for its feedback effects.
        The add path is TWO atomic steps ([G_load], [G_enqueue]) so that audio-thread steps can fall between them.
        The step function takes a flag [resync]: [true] is the code as it is; [false] switches the comparison in
        [on_start_processing] off, which is the protocol BEFORE the repair of F14 -- kept as a counter-model for the
        regression theorems only.

    (ii) SCALING LAWS with dt = 1/sr: what a sound / clock / tween / delay / filter does with [dt] and the rate. *)
From Coq Require Import ZArith QArith Qround List Bool.
From KV Require Import Base.IEEE Base.Outcome Base.Num C06.Model.
Import ListNotations.
Local Open Scope Z_scope.

(** * (i) protocol *)

Inductive ekind := KProbe | KDelay (t_ns : Z).
Inductive how := ByInit | ByChange.
(** an effect remembers every rate it was told (most recent first); [fb]: nested effects (a Delay's feedback chain) *)
Inductive effect := Eff (id : Z) (k : ekind) (told : list (how * Z)) (fb : list effect).
Inductive eshape := SEff (id : Z) (k : ekind) (fb : list eshape).
(** a sub-track / send track: [Track.sample_rate] (the rate its effects were last told), effects, sub-tracks in its
    arena, sub-tracks pushed on its new-resource queue *)
Inductive track := Trk (id : Z) (rate : Z) (effs : list effect) (arena : list track) (queue : list track).
Definition tshape : Type := (Z * list eshape)%type.

Definition last_told (told : list (how * Z)) : Z := match told with (_, r) :: _ => r | [] => 0 end.
Definition eff_told (e : effect) : list (how * Z) := match e with Eff _ _ told _ => told end.
Definition eff_rate (e : effect) : Z := last_told (eff_told e).
Definition trk_rate (t : track) : Z := match t with Trk _ r _ _ _ => r end.

(** [EffectBuilder::build], [TrackBuilder::build]: nothing knows a rate yet ([sample_rate: 0]); storages are empty *)
Fixpoint build_effect (s : eshape) : effect :=
  match s with SEff i k fb => Eff i k [] (map build_effect fb) end.
Definition build_track (s : tshape) : track := Trk (fst s) 0 (map build_effect (snd s)) [] [].

(** [Effect::init] / [Effect::on_change_sample_rate] of the probe and of [Delay] (which forwards to its feedback effects) *)
Fixpoint tell (h : how) (r : Z) (e : effect) : effect :=
  match e with Eff i k told fb => Eff i k ((h, r) :: told) (map (tell h r) fb) end.

(** [Track::init_effects]: remember the rate; own effects, then the sub-tracks in the arena (the queue is not looked at) *)
Fixpoint init_track (r : Z) (t : track) : track :=
  match t with Trk i _ effs ar q => Trk i r (map (tell ByInit r) effs) (map (init_track r) ar) q end.

(** [Track::on_change_sample_rate]: remember the rate; own effects, then the sub-tracks in the arena (the queue is
    not looked at) *)
Fixpoint change_track (r : Z) (t : track) : track :=
  match t with Trk i _ effs ar q => Trk i r (map (tell ByChange r) effs) (map (change_track r) ar) q end.

(** [Track::on_start_processing(sample_rate)] (and [SendTrack::on_start_processing], which has no sub-tracks):
      if self.sample_rate != sample_rate { self.on_change_sample_rate(sample_rate) }
      sub_tracks.remove_and_add (queue -> arena, most recent first)
      for every sub-track in the arena: on_start_processing(sample_rate)
    [chg] says that the [on_change_sample_rate(r)] of an ancestor has, in this same call, already fanned out to this
    track (it was in that ancestor's arena chain): [start_track rs true r t = start_track rs false r (change_track r t)]
    (proved: [start_after_change]); written with a flag so that the recursion is structural.
    [rs = false] switches the comparison off (the code before the repair of F14). *)
Fixpoint start_track (rs chg : bool) (r : Z) (t : track) : track :=
  match t with
  | Trk i tr effs ar q =>
      let tr1 := if chg then r else tr in
      let effs1 := if chg then map (tell ByChange r) effs else effs in
      let sync := rs && negb (tr1 =? r) in
      let tr2 := if sync then r else tr1 in
      let effs2 := if sync then map (tell ByChange r) effs1 else effs1 in
      Trk i tr2 effs2 (rev (map (start_track rs false r) q) ++ map (start_track rs (chg || sync) r) ar) []
  end.

(** [TrackHandle::add_sub_track]: the handle's controller pushes on that track's queue wherever the track is *)
Fixpoint push_under (pid : Z) (nt : track) (t : track) : track :=
  match t with
  | Trk i tr effs ar q =>
      let q' := map (push_under pid nt) q in
      Trk i tr effs (map (push_under pid nt) ar) (if i =? pid then q' ++ [nt] else q')
  end.

(** a [process] call seen by a probe: (probe id, rate it was last told, rate r with dt = 1/r, frames) *)
Definition event : Type := (Z * Z * Z * Z)%type.

(** lengths of [slice.chunks_mut(l)] over [n] frames *)
Fixpoint chunks (fuel : nat) (n l : Z) : list Z :=
  match fuel with
  | O => []
  | S f => if n <=? 0 then [] else if n <=? l then [n] else l :: chunks f (n - l) l
  end.
Definition chunks_of (n l : Z) : list Z := chunks (Z.to_nat n) n (Z.max 1 l).

Inductive dest := DSub | DUnder (pid : Z) | DSend.
Record pending := { p_slot : Z; p_dest : dest; p_track : track; p_loaded : Z }.

Record state := {
  s_rate : Z;                (* RendererShared.sample_rate *)
  s_dtr : Z;                 (* Renderer.dt = 1 / s_dtr *)
  s_mix : Z;                 (* Mixer.sample_rate *)
  s_ibs : Z;                 (* internal buffer size *)
  s_main : list effect;      (* main track effects *)
  s_subs : list track;  s_subq : list track;       (* mixer sub-track arena / new-resource queue *)
  s_sends : list track; s_sendq : list track;      (* mixer send-track arena / new-resource queue *)
  s_pend : list pending;     (* caller threads between load and enqueue *)
}.

Inductive op :=
| G_load (slot : Z) (d : dest) (t : tshape)    (* caller thread: build; renderer_shared.sample_rate.load() *)
| G_enqueue (slot : Z)                          (* caller thread: init_effects(loaded); controller.insert *)
| A_change (r : Z)                              (* audio thread: Renderer::on_change_sample_rate(r) *)
| A_callback (frames : Z).                      (* audio thread: on_start_processing; process(frames) *)

(** [delay_time_frames] (effect/delay.rs, after the repair of F35): whole frames in the delay time, integer
    arithmetic: [usize::try_from(delay_time.as_nanos() * sample_rate as u128 / 1_000_000_000).unwrap_or(MAX).max(1)] *)
Definition delay_frames_int (t_ns sr : Z) : Z :=
  Z.max 1 (Z.min (2 ^ 64 - 1) (t_ns * sr / 1000000000)).

Section Protocol.
  (** [Delay]: (delay_time in ns, sample rate) -> (delay_time.as_secs_f64() * sample_rate as f64) as usize *)
  Variable frames_of : Z -> Z -> Z.
  (** [true]: the code as it is; [false]: without the comparison in [on_start_processing] (before the repair of F14) *)
  Variable resync : bool.

  Definition delay_len (t_ns r : Z) : Z := Z.max 1 (frames_of t_ns r).

  (** [Effect::process(input[..n], dt)] *)
  Fixpoint process_effect (dtr n : Z) (e : effect) : list event :=
    match e with
    | Eff i KProbe told _ => [(i, last_told told, dtr, n)]
    | Eff i (KDelay t) told fb =>
        flat_map (fun c => flat_map (process_effect dtr c) fb) (chunks_of n (delay_len t (last_told told)))
    end.

  (** [Track::process]: sub-tracks in the arena, then the own effects *)
  Fixpoint process_track (dtr n : Z) (t : track) : list event :=
    match t with
    | Trk _ _ effs ar _ => flat_map (process_track dtr n) ar ++ flat_map (process_effect dtr n) effs
    end.

  (** [Mixer::process] for one internal chunk *)
  Definition process_chunk (s : state) (n : Z) : list event :=
    flat_map (process_track (s_dtr s) n) (s_subs s)
    ++ flat_map (process_track (s_dtr s) n) (s_sends s)
    ++ flat_map (process_effect (s_dtr s) n) (s_main s).

  Definition find_pending (slot : Z) (l : list pending) : option pending :=
    find (fun p => p_slot p =? slot) l.
  Definition remove_pending (slot : Z) (l : list pending) : list pending :=
    filter (fun p => negb (p_slot p =? slot)) l.

  Definition step_gen (s : state) (o : op) : state * list event :=
    match o with
    | G_load slot d sh =>
        match find_pending slot (s_pend s) with
        | Some _ => (s, [])
        | None =>
            ({| s_rate := s_rate s; s_dtr := s_dtr s; s_mix := s_mix s; s_ibs := s_ibs s; s_main := s_main s;
                s_subs := s_subs s; s_subq := s_subq s; s_sends := s_sends s; s_sendq := s_sendq s;
                s_pend := s_pend s ++ [{| p_slot := slot; p_dest := d; p_track := build_track sh; p_loaded := s_rate s |}] |}, [])
        end
    | G_enqueue slot =>
        match find_pending slot (s_pend s) with
        | None => (s, [])
        | Some p =>
            let t := init_track (p_loaded p) (p_track p) in
            let pend' := remove_pending slot (s_pend s) in
            match p_dest p with
            | DSub =>
                ({| s_rate := s_rate s; s_dtr := s_dtr s; s_mix := s_mix s; s_ibs := s_ibs s; s_main := s_main s;
                    s_subs := s_subs s; s_subq := s_subq s ++ [t]; s_sends := s_sends s; s_sendq := s_sendq s;
                    s_pend := pend' |}, [])
            | DUnder pid =>
                ({| s_rate := s_rate s; s_dtr := s_dtr s; s_mix := s_mix s; s_ibs := s_ibs s; s_main := s_main s;
                    s_subs := map (push_under pid t) (s_subs s); s_subq := map (push_under pid t) (s_subq s);
                    s_sends := s_sends s; s_sendq := s_sendq s; s_pend := pend' |}, [])
            | DSend =>
                ({| s_rate := s_rate s; s_dtr := s_dtr s; s_mix := s_mix s; s_ibs := s_ibs s; s_main := s_main s;
                    s_subs := s_subs s; s_subq := s_subq s; s_sends := s_sends s; s_sendq := s_sendq s ++ [t];
                    s_pend := pend' |}, [])
            end
        end
    | A_change r =>
        ({| s_rate := r; s_dtr := r; s_mix := r; s_ibs := s_ibs s;
            s_main := map (tell ByChange r) (s_main s);
            s_subs := map (change_track r) (s_subs s); s_subq := s_subq s;
            s_sends := map (change_track r) (s_sends s); s_sendq := s_sendq s;
            s_pend := s_pend s |}, [])
    | A_callback n =>
        let s' := {| s_rate := s_rate s; s_dtr := s_dtr s; s_mix := s_mix s; s_ibs := s_ibs s; s_main := s_main s;
                     s_subs := map (start_track resync false (s_mix s)) (rev (s_subq s) ++ s_subs s); s_subq := [];
                     s_sends := map (start_track resync false (s_mix s)) (rev (s_sendq s) ++ s_sends s); s_sendq := [];
                     s_pend := s_pend s |} in
        (s', flat_map (process_chunk s') (chunks_of n (s_ibs s)))
    end.

  (** a history is a list of steps; the events of all callbacks are collected *)
  Fixpoint run_gen (s : state) (h : list op) : state * list event :=
    match h with
    | [] => (s, [])
    | o :: h' => let '(s1, e1) := step_gen s o in let '(s2, e2) := run_gen s1 h' in (s2, e1 ++ e2)
    end.
End Protocol.

(** the code as it is *)
Definition step (frames_of : Z -> Z -> Z) : state -> op -> state * list event := step_gen frames_of true.
Definition run (frames_of : Z -> Z -> Z) : state -> list op -> state * list event := run_gen frames_of true.
(** the counter-model: [on_start_processing] without the comparison (before the repair of F14) *)
Definition step_unrepaired (frames_of : Z -> Z -> Z) : state -> op -> state * list event := step_gen frames_of false.
Definition run_unrepaired (frames_of : Z -> Z -> Z) : state -> list op -> state * list event := run_gen frames_of false.

(** [AudioManager::new]: the main track's effects are initialised with the backend's rate *)
Definition init_state (sr ibs : Z) (main : list eshape) : state :=
  {| s_rate := sr; s_dtr := sr; s_mix := sr; s_ibs := ibs; s_main := map (fun e => tell ByInit sr (build_effect e)) main;
     s_subs := []; s_subq := []; s_sends := []; s_sendq := []; s_pend := [] |}.

(** * (ii) scaling laws (one term for binary64 and for Q) *)
Section Scaling.
  Context {T : Type} {NT : Num T} {ND : NumDur T}.

  (** Renderer: [1.0 / sample_rate as f64] *)
  Definition dt_of (sr : Z) : T := ndiv n1 (nofZ sr).
  (** every [Parameter::update], clock and modulator update of a chunk: [dt * num_frames as f64] *)
  Definition chunk_time (dt : T) (frames : Z) : T := nmul dt (nofZ frames).
  (** StaticSound::process, per output frame: [self.sample_rate as f64 * playback_rate.abs() * dt] *)
  Definition sound_step (sound_rate : Z) (rho dt : T) : T := nmul (nmul (nofZ sound_rate) rho) dt.
  (** Clock::update: [speed.as_ticks_per_second() * dt] ([dt] here is the chunk time) *)
  Definition clock_step (tps dtc : T) : T := nmul tps dtc.

  (** [x += step; while x >= 1.0 { x -= 1.0; whole += 1 }] — the sound's fractional position and the clock's tick timer *)
  Fixpoint wrap (fuel : nat) (whole : Z) (x : T) : outcome (Z * T) :=
    match fuel with
    | O => Hang
    | S f => if nleb n1 x then wrap f (whole + 1) (nsub x n1) else Ok (whole, x)
    end.
  Definition acc_step (fuel : nat) (st : Z * T) (d : T) : outcome (Z * T) :=
    wrap fuel (fst st) (nadd (snd st) d).
  Fixpoint acc_run (fuel : nat) (st : Z * T) (ds : list T) : outcome (Z * T) :=
    match ds with
    | [] => Ok st
    | d :: ds' => let! st' := acc_step fuel st d in acc_run fuel st' ds'
    end.

  (** Delay::init / on_change_sample_rate BEFORE the repair of F35:
      [((delay_time.as_secs_f64() * sample_rate as f64) as usize).max(1)] -- exact over Q, one frame short in
      binary64 for some delay times that are a whole number of frames.  Kept: over Q it is the specification. *)
  Definition delay_trunc (t_ns sr : Z) : Z := ntoU64 (nmul (ns_to_secs t_ns) (nofZ sr)).
  Definition delay_frames (t_ns sr : Z) : Z := Z.max 1 (delay_trunc t_ns sr).

  (** Reverb::init_filters: [((buffer_size as f64) * (sample_rate as f64 / 44100 as f64)) as usize] *)
  Definition reverb_len (size sr : Z) : Z := ntoU64 (nmul (nofZ size) (ndiv (nofZ sr) (nofZ 44100))).

  Definition nclamp (x lo hi : T) : T := if nltb x lo then lo else if nltb hi x then hi else x.
  Section Coeff.
    Variables (pi lo hi : T) (tan : T -> T).
    (** Filter::process: [let sample_rate = 1.0 / dt; (PI * (cutoff / sample_rate).clamp(0.0001, 0.5)).tan()] *)
    Definition filter_arg (cutoff dt : T) : T := nclamp (ndiv cutoff (ndiv n1 dt)) lo hi.
    Definition filter_g (cutoff dt : T) : T := tan (nmul pi (filter_arg cutoff dt)).
    (** EqFilter Coefficients::calculate: [(frequency * dt).clamp(0.0001, 0.5)], [(PI * relative_frequency).tan()] *)
    Definition eq_arg (frequency dt : T) : T := nclamp (nmul frequency dt) lo hi.
    Definition eq_g (frequency dt : T) : T := tan (nmul pi (eq_arg frequency dt)).
  End Coeff.
End Scaling.

(** a rendering as seen by the time-keeping code: segments (device rate, chunk lengths rendered at that rate) *)
Definition segment : Type := (Z * list Z)%type.
