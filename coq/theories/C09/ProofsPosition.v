(** C09 — the position a streaming sound reports at the start of a callback is computed from the SECOND ring entry
    whenever the ring holds two, in every state: how many entries were pushed and popped before (hence where in its
    16384 physical slots the ring's read position stands) has no influence.  The only case in which the frame index
    of an earlier callback is reported again is a ring with fewer than two entries. *)
From Coq Require Import ZArith List Bool.
From KV Require Import Base.Outcome Base.Num C19.Model C06.Model C09.Model.
Import ListNotations.
Local Open Scope Z_scope.

Section Position.
  Context {T : Type} {NT : Num T}.
  Variables A V P : Type.
  Variables silence identity : V.

  Lemma on_start_position_from_second_entry :
    forall (z : stream_sound T A V P) (c : cmds T V P) (e0 : A * Z) (a : A) (i : Z) (rest : list (A * Z)),
      y_ring (z_core z) = e0 :: (a, i) :: rest ->
      let y := z_core z in
      let pos := ndiv (nadd (nofZ i) (y_fpos y)) (nofZ (y_sr y)) in
      exists st,
        snd (stream_on_start A V silence identity P z c)
          = OPos pos st i (y_fpos y) (Z.of_nat (length (y_ring y))) /\
        y_cur (z_core (fst (stream_on_start A V silence identity P z c))) = i /\
        y_pos (z_core (fst (stream_on_start A V silence identity P z c))) = pos /\
        y_ring (z_core (fst (stream_on_start A V silence identity P z c))) = y_ring y.
  Proof.
    intros [y0 h] c e0 a i rest Hring y pos. cbn in Hring, y. subst y pos.
    unfold stream_on_start, update_current_frame, y_position. cbn.
    rewrite Hring. cbn.
    eexists. repeat split; reflexivity.
  Qed.

  Lemma on_start_position_kept_only_when_ring_short :
    forall (z : stream_sound T A V P) (c : cmds T V P),
      (length (y_ring (z_core z)) < 2)%nat ->
      let y := z_core z in
      y_cur (z_core (fst (stream_on_start A V silence identity P z c))) = y_cur y /\
      y_pos (z_core (fst (stream_on_start A V silence identity P z c)))
        = ndiv (nadd (nofZ (y_cur y)) (y_fpos y)) (nofZ (y_sr y)).
  Proof.
    intros [y0 h] c Hlen y. cbn in Hlen, y. subst y.
    unfold stream_on_start, update_current_frame, y_position. cbn.
    destruct (y_ring y0) as [| e0 [| [a i] rest]] eqn:Hr; cbn in *; try (split; reflexivity).
    exfalso. apply (Nat.lt_irrefl 2).
    eapply Nat.le_lt_trans; [| exact Hlen]. apply le_n_S, le_n_S, Nat.le_0_l.
  Qed.
End Position.
