(** C09 — a streaming sound next to a static sound of the same audio: executable model.

    Transcribed from
      sound/streaming/sound.rs                   (StreamingSound::{new, update_current_frame, next_frames, position,
                                                  read_commands, on_start_processing, process, finished}, Shared)
      sound/streaming/sound/decode_scheduler.rs  (DecodeScheduler::{new, run, frame_at_index}; the decoder thread's loop
                                                  is the event [EvDecode]: one iteration of [run])
      sound/streaming/data.rs                    (split: scheduler first, then the sound)
      sound/static_sound/sound.rs                (StaticSound::{new, on_start_processing, read_commands, process}) — the
                                                  playing core ([update_position], the per-frame loop, the resampler, the
                                                  transport, [frame_at_index] with slices) is C04's model, used as is;
      playback_state_manager.rs, start_time.rs   C03's model, used as is; parameter.rs / tween.rs: C06's model.
    The [Decoder] is any state machine over the frame list [audio]: arbitrary packet sizes INCLUDING EMPTY PACKETS,
    arbitrary seek landings (C18's contract, which has non-empty packets only, is the special case).

    Generic over the time type [T] ([Num]: binary64 or Q), the frame type [A], the interpolation-fraction / amplitude
    type [F] (binary32), the volume type [V] (decibels) and the panning type [P], with all their operations as Section
    variables: no law is assumed, so what is proved holds bit for bit of the IEEE instance.

    Both sounds share the "shell" of [process] (the parameter updates, the state manager, the start time, the two
    early returns, the per-frame gains): the two Rust functions are textually the same there, and the model has one
    function for it.  Not modelled: seek commands and [set_loop_region] (the property excludes them: in a streaming
    sound they act on the decoder thread's transport, up to a ring buffer ahead of what is heard), [reverse]
    (streaming sounds have no such setting). *)
From Coq Require Import ZArith List Bool.
From KV Require Import Base.Outcome Base.Num C19.Model C06.Model.
From KV Require Import C04.Transport C04.Resampler C04.StaticData C04.StaticSound.
From KV Require C03.Model.
Import ListNotations.
Local Open Scope Z_scope.

Module P3 := KV.C03.Model.

Section Model.
  Context {T : Type} {NT : Num T} {ND : NumDur T}.
  Variable powf : T -> T -> T.                      (* libm, only reachable through eased tweens *)
  Variable A : Type.                                (* Frame *)
  Variable azero : A.                               (* Frame::ZERO *)
  Variable F : Type.                                (* f32 *)
  Variable interp : A -> A -> A -> A -> F -> A.     (* interpolate_frame *)
  Variable cast : T -> F.                           (* [as f32] *)
  Variable ascale : A -> F -> A.                    (* Frame * f32 *)
  Variable V : Type.                                (* Decibels *)
  Variable vinterp : V -> V -> T -> V.              (* Tweenable for Decibels *)
  Variables silence identity : V.                   (* Decibels::SILENCE, Decibels::IDENTITY *)
  Variable amp : V -> F.                            (* Decibels::as_amplitude *)
  Variable P : Type.                                (* Panning *)
  Variable pinterp : P -> P -> T -> P.              (* Tweenable for Panning *)
  Variable pcenter : P.                             (* Panning::CENTER *)
  Variable panned : A -> P -> A.                    (* Frame::panned *)
  Variable fuel : nat.                              (* bound on the iterations of any one loop *)

  (** ** settings both kinds of sound have (StaticSoundSettings minus [reverse] = StreamingSoundSettings) *)
  Record settings := {
    g_start_time : stime T; g_start_pos : ppos T; g_loop : option (region T);
    g_volume : value T V; g_rate : value T T; g_pan : value T P; g_fade_in : option (tween T);
  }.

  (** commands that can be pending at the start of a callback (each reader holds the latest) *)
  Record cmds := {
    k_vol : option (value T V * tween T); k_rate : option (value T T * tween T); k_pan : option (value T P * tween T);
    k_pause : option (tween T); k_resume : option (stime T * tween T); k_stop : option (tween T);
  }.
  Definition no_cmds : cmds :=
    {| k_vol := None; k_rate := None; k_pan := None; k_pause := None; k_resume := None; k_stop := None |}.

  (** ** the shell: the fields and the code that [StaticSound] and [StreamingSound] have in common *)
  Record shell := {
    h_vol : param T V; h_rate : param T T; h_pan : param T P;
    h_psm : P3.psm T V; h_start : stime T;
    h_mirror : Z;                                   (* Shared.state *)
  }.
  Definition shell_new (g : settings) : shell :=
    {| h_vol := param_new (g_volume g) identity; h_rate := param_new (g_rate g) n1;
       h_pan := param_new (g_pan g) pcenter;
       h_psm := P3.psm_new V silence identity (g_fade_in g); h_start := g_start_time g; h_mirror := 0 |}.
  Definition with_psm (h : shell) (m : P3.psm T V) (mirror : Z) : shell :=
    {| h_vol := h_vol h; h_rate := h_rate h; h_pan := h_pan h; h_psm := m; h_start := h_start h; h_mirror := mirror |}.
  (** [playback_state_manager.mark_as_stopped(); update_shared_playback_state()] *)
  Definition shell_mark_stopped (h : shell) : shell := with_psm h (P3.psm_mark_stopped V (h_psm h)) 6.

  (** [read_commands]: [read_commands_into_parameters!(self, volume, playback_rate, panning)], then pause, resume,
      stop, each followed by [update_shared_playback_state] *)
  Definition shell_read_commands (h : shell) (c : cmds) : shell :=
    let vol := match k_vol c with Some (v, tw) => param_set (h_vol h) v tw | None => h_vol h end in
    let rate := match k_rate c with Some (v, tw) => param_set (h_rate h) v tw | None => h_rate h end in
    let pan := match k_pan c with Some (v, tw) => param_set (h_pan h) v tw | None => h_pan h end in
    let h := {| h_vol := vol; h_rate := rate; h_pan := pan; h_psm := h_psm h; h_start := h_start h;
                h_mirror := h_mirror h |} in
    let h := match k_pause c with
             | Some tw => let m := P3.psm_pause V silence (h_psm h) tw in with_psm h m (P3.state_code (P3.ps m))
             | None => h end in
    let h := match k_resume c with
             | Some (st, tw) => let m := P3.psm_resume V identity (h_psm h) st tw in with_psm h m (P3.state_code (P3.ps m))
             | None => h end in
    match k_stop c with
    | Some tw => let m := P3.psm_stop V silence (h_psm h) tw in with_psm h m (P3.state_code (P3.ps m))
    | None => h
    end.

  (** [process] from "update parameters" down to the second early return: the new shell, and
      whether the per-frame loop is reached *)
  Definition shell_update (h : shell) (dtl : T) (i : info T) : outcome (shell * bool) :=
    let! (vol, _) := param_update powf V vinterp (h_vol h) dtl i in
    let! (rate, _) := param_update powf T lerp (h_rate h) dtl i in
    let! (pan, _) := param_update powf P pinterp (h_pan h) dtl i in
    let! (m, changed) := P3.psm_update powf V vinterp identity (h_psm h) dtl i in
    let mirror := if changed then P3.state_code (P3.ps m) else h_mirror h in
    let! (st, never) := P3.stime_update (h_start h) dtl i in
    let m' := if never then P3.psm_mark_stopped V m else m in
    let mirror' := if never then 6 else mirror in
    let h' := {| h_vol := vol; h_rate := rate; h_pan := pan; h_psm := m'; h_start := st; h_mirror := mirror' |} in
    if negb (P3.is_immediate st) then Ok (h', false)
    else if negb (P3.is_advancing (P3.ps m')) then Ok (h', false)
    else Ok (h', true).

  (** [(i + 1) as f64 / num_frames as f64] *)
  Definition time_in_chunk (i num : Z) : T := ndiv (nofZ (i + 1)) (nofZ num).
  (** [playback_rate.interpolated_value(time_in_chunk)] *)
  Definition rate_at (rate : param T T) (i num : Z) : T := param_interpolated T lerp rate (time_in_chunk i num).
  (** [(interpolated_out * fade_volume * volume).panned(panning)] for frame [i] of [num] *)
  Definition gain (h : shell) (i num : Z) (raw : A) : A :=
    let t := time_in_chunk i num in
    let volume := amp (param_interpolated V vinterp (h_vol h) t) in
    let fade_volume := amp (param_interpolated V vinterp (P3.fade (h_psm h)) t) in
    let panning := param_interpolated P pinterp (h_pan h) t in
    panned (ascale (ascale raw fade_volume) volume) panning.
  Fixpoint gains (h : shell) (i num : Z) (raws : list A) : list A :=
    match raws with
    | [] => []
    | r :: rest => gain h i num r :: gains h (i + 1) num rest
    end.

  (** what the handle and the renderer can see *)
  Inductive obs :=
  | OPos (position : T) (state : Z)          (* handle.position(), handle.state() after on_start_processing *)
         (index : Z) (fraction : T) (avail : Z)    (* ghost: the frame index and fraction it was computed from; ring entries (streaming) *)
  | OOut (frames : list A) (state : Z) (finished : bool).   (* one process call: output, handle.state(), Sound::finished() *)

  Inductive event :=
  | EvDecode                                  (* one iteration of the decoder thread's loop *)
  | EvStart (c : cmds)                        (* Sound::on_start_processing with these commands pending *)
  | EvProcess (len : Z) (dt : T) (i : info T).  (* Sound::process on a buffer of [len] frames *)

  (** the frame vector as the [Arc<[Frame]>] of a static sound *)
  Definition audio_source (audio : list A) : source A :=
    {| src_len := Z.of_nat (length audio); src_get := fun i => nth (Z.to_nat i) audio azero |}.

  (** ** the static sound: C04's core + the shell *)
  Record static := { x_core : ssound T A; x_shell : shell }.

  Definition static_new (sr : Z) (src : source A) (slice : option (Z * Z)) (g : settings) : outcome static :=
    let d := {| d_sr := sr; d_src := src; d_slice := slice;
                d_settings := {| st_start := g_start_pos g; st_loop := g_loop g; st_reverse := false; st_rate := n1 |} |} in
    let h := shell_new g in
    let! c := sound_init A azero d in
    let! c := update_n A azero fuel 3 (set_rate A c (h_rate h)) in
    Ok {| x_core := c; x_shell := if s_stopped c then shell_mark_stopped h else h |}.

  (** [Sound::on_start_processing] *)
  Definition static_on_start (x : static) (c : cmds) : static * obs :=
    let idx := current_frame_index (s_rs (x_core x)) in
    let pos := ndiv (nofZ idx) (nofZ (s_sr (x_core x))) in
    let h := shell_read_commands (x_shell x) c in
    ({| x_core := set_rate A (set_shpos A (x_core x) pos) (h_rate h); x_shell := h |},
     OPos pos (h_mirror h) idx (s_fpos (x_core x)) 0).

  (** [Sound::process]: the per-frame loop is C04's [frames_loop] (with the two amplitude factors left out: they
      are applied by [gains], which does not touch the state) *)
  Definition static_process (x : static) (len : Z) (dt : T) (i : info T) : outcome (static * obs) :=
    let! (h, go) := shell_update (x_shell x) (nmul dt (nofZ len)) i in
    let core := set_rate A (x_core x) (h_rate h) in
    if negb go then
      Ok ({| x_core := core; x_shell := h |},
          OOut (repeat azero (Z.to_nat len)) (h_mirror h) (P3.is_stopped (P3.ps (h_psm h))))
    else
      let! (core', raws) :=
        frames_loop A azero F interp cast (fun a _ => a) (cast n0) fuel (Z.to_nat len) 0 len dt core in
      let h' := if s_stopped core' then shell_mark_stopped h else h in
      Ok ({| x_core := core'; x_shell := h' |},
          OOut (gains h 0 len raws) (h_mirror h') (P3.is_stopped (P3.ps (h_psm h')))).

  (** ** the streaming sound (audio-thread side) and what it shares with the decoder thread *)
  Record ycore := {
    y_sr : Z;
    y_ring : list (A * Z);          (* the frame ring as the consumer sees it, OLDEST FIRST: (frame, index) *)
    y_reached_end : bool;           (* Shared.reached_end *)
    y_err : bool;                   (* Shared.encountered_error *)
    y_cur : Z;                      (* current_frame *)
    y_fpos : T;                     (* fractional_position *)
    y_pos : T;                      (* Shared.position *)
    y_ended : bool;                 (* process called mark_as_stopped (natural end / error) *)
  }.
  Definition y_with_ring (y : ycore) (r : list (A * Z)) : ycore :=
    {| y_sr := y_sr y; y_ring := r; y_reached_end := y_reached_end y; y_err := y_err y; y_cur := y_cur y;
       y_fpos := y_fpos y; y_pos := y_pos y; y_ended := y_ended y |}.
  Definition y_with_fpos (y : ycore) (f : T) : ycore :=
    {| y_sr := y_sr y; y_ring := y_ring y; y_reached_end := y_reached_end y; y_err := y_err y; y_cur := y_cur y;
       y_fpos := f; y_pos := y_pos y; y_ended := y_ended y |}.
  Definition y_mark_ended (y : ycore) : ycore :=
    {| y_sr := y_sr y; y_ring := y_ring y; y_reached_end := y_reached_end y; y_err := y_err y; y_cur := y_cur y;
       y_fpos := y_fpos y; y_pos := y_pos y; y_ended := true |}.

  (** [update_current_frame]: the index of the SECOND ring entry, if there is one *)
  Definition update_current_frame (y : ycore) : ycore :=
    match y_ring y with
    | _ :: (_, index) :: _ =>
        {| y_sr := y_sr y; y_ring := y_ring y; y_reached_end := y_reached_end y; y_err := y_err y; y_cur := index;
           y_fpos := y_fpos y; y_pos := y_pos y; y_ended := y_ended y |}
    | _ => y
    end.
  (** [next_frames]: up to four entries, zero-padded *)
  Definition next_frame (r : list (A * Z)) (k : nat) : A := nth k (map fst r) azero.
  (** [position()] *)
  Definition y_position (y : ycore) : T := ndiv (nadd (nofZ (y_cur y)) (y_fpos y)) (nofZ (y_sr y)).

  (** [f64::max(self, 0.0)]: NaN gives 0.0.  For -0.0 Rust may return either zero ("if the inputs compare equal,
      either input may be returned"); the model returns +0.0 (what [abs] gives): the value is only multiplied by the
      two sample-rate factors and added to the fractional position, which is never -0.0, so the choice cannot be
      observed (and the witness with rate -0.0 is compared bit for bit with the implementation on every run). *)
  Definition nmax0 (x : T) : T :=
    if nisnan x then n0 else if nltb x n0 then n0 else if nsignneg x then nneg x else x.

  (** [while self.fractional_position >= 1.0 { self.fractional_position -= 1.0; self.frame_consumer.pop().ok(); }];
      also returns the number of iterations (ghost) *)
  Fixpoint y_carry (fl : nat) (y : ycore) (pops : Z) : outcome (ycore * Z) :=
    match fl with
    | O => Hang
    | S f => if nleb n1 (y_fpos y) then
               y_carry f (y_with_ring (y_with_fpos y (nsub (y_fpos y) n1)) (tl (y_ring y))) (pops + 1)
             else Ok (y, pops)
    end.

  (** body of the per-frame loop of [process] for a given playback rate; ghost result: the decoder had
      not kept ahead (fewer ring entries than the four looked at or than the pops made, before the end of data) *)
  Definition y_frame_step (y : ycore) (inc : T) : outcome (ycore * A * bool) :=
    let r := y_ring y in
    let out := interp (next_frame r 0) (next_frame r 1) (next_frame r 2) (next_frame r 3) (cast (y_fpos y)) in
    let! (y1, pops) := y_carry fuel (y_with_fpos y (nadd (y_fpos y) inc)) 0 in
    let y2 := if y_reached_end y1 && (match y_ring y1 with [] => true | _ => false end) then y_mark_ended y1 else y1 in
    let starved := negb (y_reached_end y) && (Z.of_nat (length r) <? Z.max 4 pops) in
    Ok (y2, out, starved).

  Definition y_increment (y : ycore) (rate : param T T) (i num : Z) (dt : T) : T :=
    nmul (nmul (nofZ (y_sr y)) (nmax0 (rate_at rate i num))) dt.

  Fixpoint y_frames_loop (k : nat) (i num : Z) (dt : T) (rate : param T T) (y : ycore)
    : outcome (ycore * list A * bool) :=
    match k with
    | O => Ok (y, [], false)
    | S k' =>
        let! (y1, a, st1) := y_frame_step y (y_increment y rate i num dt) in
        let! (y2, l, st2) := y_frames_loop k' (i + 1) num dt rate y1 in
        Ok (y2, a :: l, st1 || st2)
    end.

  Record stream_sound := { z_core : ycore; z_shell : shell }.

  (** [Sound::on_start_processing] *)
  Definition stream_on_start (z : stream_sound) (c : cmds) : stream_sound * obs :=
    let y := update_current_frame (z_core z) in
    let pos := y_position y in
    let y := {| y_sr := y_sr y; y_ring := y_ring y; y_reached_end := y_reached_end y; y_err := y_err y;
                y_cur := y_cur y; y_fpos := y_fpos y; y_pos := pos; y_ended := y_ended y |} in
    let h := shell_read_commands (z_shell z) c in
    ({| z_core := y; z_shell := h |},
     OPos pos (h_mirror h) (y_cur y) (y_fpos y) (Z.of_nat (length (y_ring y)))).

  (** [Sound::process]; ghost result: starved (see [y_frame_step]; the gap rule counts) *)
  Definition stream_process (z : stream_sound) (len : Z) (dt : T) (i : info T) : outcome (stream_sound * obs * bool) :=
    let y := z_core z in
    if y_err y then
      let h := shell_mark_stopped (z_shell z) in
      Ok ({| z_core := y_mark_ended y; z_shell := h |}, OOut (repeat azero (Z.to_nat len)) (h_mirror h) true, false)
    else
      let! (h, go) := shell_update (z_shell z) (nmul dt (nofZ len)) i in
      let silent := OOut (repeat azero (Z.to_nat len)) (h_mirror h) (P3.is_stopped (P3.ps (h_psm h))) in
      if negb go then Ok ({| z_core := y; z_shell := h |}, silent, false)
      else if (Z.of_nat (length (y_ring y)) <? 2) && negb (y_reached_end y) then
        Ok ({| z_core := y; z_shell := h |}, silent, true)
      else
        let! (y', raws, starved) := y_frames_loop (Z.to_nat len) 0 len dt (h_rate h) y in
        let h' := if y_ended y' then shell_mark_stopped h else h in
        Ok ({| z_core := y'; z_shell := h' |},
            OOut (gains h 0 len raws) (h_mirror h') (P3.is_stopped (P3.ps (h_psm h'))), starved).

  (** ** the decoder thread: [DecodeScheduler] over a decoder of [audio] *)
  Variable audio : list A.
  (** The [Decoder]: ANY state machine.  [dpos d] is the index of the next frame it will decode; [decode] returns an
      error ([derr d]) or the next packet — [dsize d] frames (as many as the audio still has), possibly NONE: the
      contract allows empty packets — and moves to [dnext d]; [seek i] moves to [dseek d i] and reports where that is.
      A decoder CONFORMS ([ProofsDecoder.conforming]) if it never fails before the end of the audio, advances by what
      it returned, lands at or before the index sought, and returns fewer than [E] empty packets in a row. *)
  Variable D : Type.
  Variable dpos : D -> nat.
  Variable dsize : D -> nat.
  Variable dnext : D -> D.
  Variable dseek : D -> nat -> D.
  Variable derr : D -> bool.
  Variable d0 : D.                        (* the decoder as handed to [StreamingSoundData::from_decoder] *)
  Variable cap : Z.                       (* BUFFER_SIZE = 16384 *)

  (** [Decoder::decode] *)
  Definition dec_decode (d : D) : option (list A * D) :=
    if derr d then None else Some (firstn (dsize d) (skipn (dpos d) audio), dnext d).

  (** the scheduler's view of the decoder: the decoder, decoder_current_frame_index, decoded_chunk *)
  Record dsched := { ds_dec : D; ds_cur : nat; ds_chunk : option (nat * list A) }.
  (** [DecodedChunk::frame_at_index] *)
  Definition chunk_frame (c : option (nat * list A)) (index : nat) : option A :=
    match c with
    | None => None
    | Some (start, frames) => if (index <? start)%nat then None else nth_error frames (index - start)
    end.
  (** [loop { decoded_chunk = decode()?; decoder_current_frame_index += len; if the frame is in it, return it }]:
      an empty chunk is stored like any other and the loop goes round again *)
  Fixpoint decode_loop (fl : nat) (s : dsched) (index : nat) : outcome (option A * dsched) :=
    match fl with
    | O => Hang
    | S fl' =>
        match dec_decode (ds_dec s) with
        | None => Ok (None, s)                  (* decoder error: propagated with [?] *)
        | Some (frames, d') =>
            let s' := {| ds_dec := d'; ds_cur := (ds_cur s + length frames)%nat; ds_chunk := Some (ds_cur s, frames) |} in
            match chunk_frame (ds_chunk s') index with
            | Some fr => Ok (Some fr, s')
            | None => decode_loop fl' s' index
            end
        end
    end.
  (** [decoder_current_frame_index = decoder.seek(index)?] *)
  Definition sched_seek (s : dsched) (index : nat) : dsched :=
    let d := dseek (ds_dec s) index in {| ds_dec := d; ds_cur := dpos d; ds_chunk := ds_chunk s |}.

  Inductive pstatus := Running | Ended.
  Record producer := {
    q_status : pstatus;
    q_dec : dsched;
    q_slice : option (Z * Z);
    q_n : Z;                              (* num_frames *)
    q_tr : transport;
  }.
  Definition q_with (q : producer) (st : pstatus) (dec : dsched) (t : transport) : producer :=
    {| q_status := st; q_dec := dec; q_slice := q_slice q; q_n := q_n q; q_tr := t |}.

  (** [DecodeScheduler::frame_at_index]; [None] in the result = the decoder returned an error *)
  Definition q_frame_at_index (q : producer) (index : Z) : outcome (option A * dsched) :=
    let dec := q_dec q in
    let start := match q_slice q with Some (st, _) => st | None => 0 end in
    (* [num_frames] is the length of the slice, clipped to the audio *)
    if index >=? q_n q then Ok (Some azero, dec)
    else
      let! index := add_chk start index in
      let i := Z.to_nat index in
      match chunk_frame (ds_chunk dec) i with
      | Some fr => Ok (Some fr, dec)
      | None =>
          let dec1 := if (i <? ds_cur dec)%nat then sched_seek dec i else dec in
          decode_loop fuel dec1 i
      end.

  (** the system: the sound on the audio thread, the scheduler on the decoder thread *)
  Record stream := { w_prod : producer; w_sound : stream_sound }.

  (** [StreamingSoundData::split]: [DecodeScheduler::new] (ring pre-seeded with one zero frame of index 0,
      [decoder.seek(start_position)], the transport) then [StreamingSound::new] *)
  Definition stream_new (sr : Z) (slice : option (Z * Z)) (g : settings) : outcome stream :=
    (* a slice that reaches beyond the end of the audio (or is inverted) only covers the frames that exist:
       [end.min(decoder.num_frames()).saturating_sub(start)] *)
    let n := match slice with
             | Some (st, e) => sat_sub (Z.min e (Z.of_nat (length audio))) st
             | None => Z.of_nat (length audio)
             end in
    let start_position := into_samples (g_start_pos g) sr in
    let d := dseek d0 (Z.to_nat start_position) in
    let lr := option_map (fun r => region_samples r sr n) (g_loop g) in
    let t := transport_new start_position lr false n in
    let q := {| q_status := Running; q_dec := {| ds_dec := d; ds_cur := dpos d; ds_chunk := None |};
                q_slice := slice; q_n := n; q_tr := t |} in
    let current_frame := t_pos t in
    let y := {| y_sr := sr; y_ring := [(azero, 0)]; y_reached_end := false; y_err := false;
                y_cur := current_frame; y_fpos := n0;
                y_pos := ndiv (nofZ current_frame) (nofZ sr); y_ended := false |} in
    Ok {| w_prod := q; w_sound := {| z_core := y; z_shell := shell_new g |} |}.

  (** one iteration of the decoder thread's loop: [run] and what [start] does with its result *)
  Definition decode_step (w : stream) : outcome stream :=
    let q := w_prod w in
    let z := w_sound w in
    let y := z_core z in
    match q_status q with
    | Ended => Ok w
    | Running =>
        (* manually stopped => End *)
        if h_mirror (z_shell z) =? 6 then Ok {| w_prod := q_with q Ended (q_dec q) (q_tr q); w_sound := z |}
        (* ring full => Wait *)
        else if cap <=? Z.of_nat (length (y_ring y)) then Ok w
        else
          let! (fr, dec) := q_frame_at_index q (t_pos (q_tr q)) in
          match fr with
          | None =>
              (* Err: push to the error ring, set encountered_error, break *)
              let y' := {| y_sr := y_sr y; y_ring := y_ring y; y_reached_end := y_reached_end y; y_err := true;
                           y_cur := y_cur y; y_fpos := y_fpos y; y_pos := y_pos y; y_ended := y_ended y |} in
              Ok {| w_prod := q_with q Ended dec (q_tr q); w_sound := {| z_core := y'; z_shell := z_shell z |} |}
          | Some frame =>
              let ring := y_ring y ++ [(frame, t_pos (q_tr q))] in
              let! t := increment_position fuel (q_tr q) (q_n q) in
              let ended := negb (t_playing t) in
              let y' := {| y_sr := y_sr y; y_ring := ring;
                           y_reached_end := if ended then true else y_reached_end y; y_err := y_err y;
                           y_cur := y_cur y; y_fpos := y_fpos y; y_pos := y_pos y; y_ended := y_ended y |} in
              Ok {| w_prod := q_with q (if ended then Ended else Running) dec t;
                    w_sound := {| z_core := y'; z_shell := z_shell z |} |}
          end
    end.

  (** ** runs *)
  Definition static_step (x : static) (e : event) : outcome (static * list obs) :=
    match e with
    | EvDecode => Ok (x, [])
    | EvStart c => let '(x', o) := static_on_start x c in Ok (x', [o])
    | EvProcess len dt i => let! (x', o) := static_process x len dt i in Ok (x', [o])
    end.
  Fixpoint run_static (x : static) (evs : list event) : outcome (list obs) :=
    match evs with
    | [] => Ok []
    | e :: evs' => let! (x', o) := static_step x e in let! os := run_static x' evs' in Ok (o ++ os)
    end.

  (** the streaming system; ghost result per step: the decoder had not kept ahead in that process call *)
  Definition stream_step (w : stream) (e : event) : outcome (stream * list obs * bool) :=
    match e with
    | EvDecode => let! w' := decode_step w in Ok (w', [], false)
    | EvStart c =>
        let '(z, o) := stream_on_start (w_sound w) c in Ok ({| w_prod := w_prod w; w_sound := z |}, [o], false)
    | EvProcess len dt i =>
        let! (z, o, starved) := stream_process (w_sound w) len dt i in
        Ok ({| w_prod := w_prod w; w_sound := z |}, [o], starved)
    end.
  Fixpoint run_stream (w : stream) (evs : list event) : outcome (list obs * bool) :=
    match evs with
    | [] => Ok ([], false)
    | e :: evs' =>
        let! (w', o, s1) := stream_step w e in
        let! (os, s2) := run_stream w' evs' in
        Ok (o ++ os, s1 || s2)
    end.
End Model.

Arguments OPos {T A}.
Arguments OOut {T A}.
Arguments obs : clear implicits.
Arguments EvDecode {T V P}.
Arguments EvStart {T V P}.
Arguments EvProcess {T V P}.
Arguments event : clear implicits.
Arguments cmds : clear implicits.
Arguments Build_cmds {T V P}.
Arguments k_vol {T V P}. Arguments k_rate {T V P}. Arguments k_pan {T V P}.
Arguments k_pause {T V P}. Arguments k_resume {T V P}. Arguments k_stop {T V P}.
Arguments no_cmds {T V P}.
Arguments settings : clear implicits.
Arguments Build_settings {T V P}.
Arguments g_start_time {T V P}. Arguments g_start_pos {T V P}. Arguments g_loop {T V P}.
Arguments g_volume {T V P}. Arguments g_rate {T V P}. Arguments g_pan {T V P}. Arguments g_fade_in {T V P}.
Arguments shell : clear implicits.
Arguments Build_shell {T V P}.
Arguments h_vol {T V P}. Arguments h_rate {T V P}. Arguments h_pan {T V P}.
Arguments h_psm {T V P}. Arguments h_start {T V P}. Arguments h_mirror {T V P}.
Arguments static : clear implicits.
Arguments Build_static {T A V P}.
Arguments x_core {T A V P}. Arguments x_shell {T A V P}.
Arguments ycore : clear implicits.
Arguments Build_ycore {T A}.
Arguments y_sr {T A}. Arguments y_ring {T A}. Arguments y_reached_end {T A}. Arguments y_err {T A}.
Arguments y_cur {T A}. Arguments y_fpos {T A}. Arguments y_pos {T A}. Arguments y_ended {T A}.
Arguments stream_sound : clear implicits.
Arguments Build_stream_sound {T A V P}.
Arguments z_core {T A V P}. Arguments z_shell {T A V P}.
Arguments dsched : clear implicits.
Arguments Build_dsched {A D}.
Arguments ds_dec {A D}. Arguments ds_cur {A D}. Arguments ds_chunk {A D}.
Arguments chunk_frame {A}.
Arguments producer : clear implicits.
Arguments Build_producer {A D}.
Arguments q_status {A D}. Arguments q_dec {A D}. Arguments q_slice {A D}. Arguments q_n {A D}. Arguments q_tr {A D}.
Arguments stream : clear implicits.
Arguments Build_stream {T A V P D}.
Arguments w_prod {T A V P D}. Arguments w_sound {T A V P D}.
