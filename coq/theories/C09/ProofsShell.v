(** C09 — facts about the shell both sounds share: the handle's state mirror always shows the state
    manager's state; Stopped is absorbing and silences [process] before the per-frame loop. *)
From Coq Require Import ZArith List Bool Lia.
From KV Require Import Base.Outcome Base.Num C19.Model C06.Model.
From KV Require C03.Model.
From KV Require Import C09.Model.
Import ListNotations.
Local Open Scope Z_scope.

Module P3 := KV.C03.Model.

Section Shell.
  Context {T : Type} {NT : Num T} {ND : NumDur T}.
  Variable powf : T -> T -> T.
  Variable V : Type.
  Variable vinterp : V -> V -> T -> V.
  Variables silence identity : V.
  Variable P : Type.
  Variable pinterp : P -> P -> T -> P.
  Variable pcenter : P.

  Notation shell := (shell T V P).
  Notation shell_update := (shell_update powf V vinterp identity P pinterp).
  Notation shell_read_commands := (@shell_read_commands T NT V silence identity P).

  Definition mirror_ok (h : shell) : Prop := h_mirror h = P3.state_code (P3.ps (h_psm h)).
  Definition stopped (h : shell) : bool := P3.is_stopped (P3.ps (h_psm h)).

  Lemma mirror_ok_new : forall g, mirror_ok (shell_new V silence identity P pcenter g).
  Proof. intros g. unfold mirror_ok, shell_new, P3.psm_new. cbn. reflexivity. Qed.
  Lemma mirror_ok_mark : forall h, mirror_ok (shell_mark_stopped V P h).
  Proof. intros h. reflexivity. Qed.
  Lemma stopped_mark : forall h, stopped (shell_mark_stopped V P h) = true.
  Proof. intros h. reflexivity. Qed.

  Lemma mirror_ok_read : forall h c, mirror_ok h -> mirror_ok (shell_read_commands h c).
  Proof.
    intros h c Hm. unfold Model.shell_read_commands.
    set (h1 := {| h_vol := _; h_rate := _; h_pan := _; h_psm := h_psm h; h_start := h_start h; h_mirror := h_mirror h |}).
    assert (H1 : mirror_ok h1) by exact Hm. clearbody h1.
    assert (H2 : mirror_ok (match k_pause c with
                            | Some tw => let m := P3.psm_pause V silence (h_psm h1) tw in with_psm V P h1 m (P3.state_code (P3.ps m))
                            | None => h1 end)).
    { destruct (k_pause c); [reflexivity | exact H1]. }
    set (h2 := match k_pause c with Some _ => _ | None => h1 end) in *. clearbody h2.
    assert (H3 : mirror_ok (match k_resume c with
                            | Some (st, tw) => let m := P3.psm_resume V identity (h_psm h2) st tw in with_psm V P h2 m (P3.state_code (P3.ps m))
                            | None => h2 end)).
    { destruct (k_resume c) as [[st tw]|]; [reflexivity | exact H2]. }
    set (h3 := match k_resume c with Some _ => _ | None => h2 end) in *. clearbody h3.
    destruct (k_stop c); [reflexivity | exact H3].
  Qed.

  (** [PlaybackStateManager::update] reports every change of state *)
  Lemma psm_update_code : forall (m m' : P3.psm T V) dt i changed,
    P3.psm_update powf V vinterp identity m dt i = Ok (m', changed) ->
    changed = false -> P3.state_code (P3.ps m') = P3.state_code (P3.ps m).
  Proof.
    intros m m' dt i changed H Hc. subst changed. unfold P3.psm_update in H.
    destruct (param_update powf V vinterp (P3.fade m) dt i) as [[f fin]| |]; cbn [obind] in H; try discriminate.
    destruct (P3.ps m) eqn:E.
    - inversion H; subst; reflexivity.
    - destruct fin; inversion H; subst; reflexivity.
    - inversion H; subst; reflexivity.
    - destruct (P3.stime_update st dt i) as [[st' never]| |]; cbn [obind] in H; try discriminate.
      destruct never; [inversion H|].
      destruct (P3.is_immediate st'); inversion H; subst; reflexivity.
    - destruct fin; inversion H; subst; reflexivity.
    - destruct fin; inversion H; subst; reflexivity.
    - inversion H; subst; reflexivity.
  Qed.

  Lemma mirror_ok_update : forall h dtl i h' go,
    mirror_ok h -> shell_update h dtl i = Ok (h', go) -> mirror_ok h'.
  Proof.
    intros h dtl i h' go Hm H. unfold Model.shell_update in H.
    destruct (param_update powf V vinterp (h_vol h) dtl i) as [[vol ?]| |]; cbn [obind] in H; try discriminate.
    destruct (param_update powf T lerp (h_rate h) dtl i) as [[rate ?]| |]; cbn [obind] in H; try discriminate.
    destruct (param_update powf P pinterp (h_pan h) dtl i) as [[pan ?]| |]; cbn [obind] in H; try discriminate.
    destruct (P3.psm_update powf V vinterp identity (h_psm h) dtl i) as [[m changed]| |] eqn:Eu; cbn [obind] in H; try discriminate.
    destruct (P3.stime_update (h_start h) dtl i) as [[st never]| |]; cbn [obind] in H; try discriminate.
    assert (Hh : mirror_ok {| h_vol := vol; h_rate := rate; h_pan := pan;
                              h_psm := if never then P3.psm_mark_stopped V m else m; h_start := st;
                              h_mirror := if never then 6 else if changed then P3.state_code (P3.ps m) else h_mirror h |}).
    { unfold mirror_ok. cbn [h_mirror h_psm]. destruct never; [reflexivity|]. destruct changed eqn:Ec; [reflexivity|].
      rewrite (psm_update_code _ _ _ _ _ Eu eq_refl). exact Hm. }
    destruct (negb (P3.is_immediate st)); [inversion H; subst; exact Hh|].
    destruct (negb (P3.is_advancing _)); inversion H; subst; exact Hh.
  Qed.

  (** Stopped is absorbing *)
  Lemma stopped_read : forall h c, stopped h = true -> stopped (shell_read_commands h c) = true.
  Proof.
    intros h c Hs. unfold stopped in *. unfold Model.shell_read_commands.
    set (h1 := {| h_vol := _; h_rate := _; h_pan := _; h_psm := h_psm h; h_start := h_start h; h_mirror := h_mirror h |}).
    assert (H1 : P3.is_stopped (P3.ps (h_psm h1)) = true) by exact Hs. clearbody h1.
    assert (H2 : P3.is_stopped (P3.ps (h_psm (match k_pause c with
                            | Some tw => let m := P3.psm_pause V silence (h_psm h1) tw in with_psm V P h1 m (P3.state_code (P3.ps m))
                            | None => h1 end))) = true).
    { destruct (k_pause c); [|exact H1]. cbn [with_psm h_psm]. unfold P3.psm_pause. rewrite H1. exact H1. }
    set (h2 := match k_pause c with Some _ => _ | None => h1 end) in *. clearbody h2.
    assert (H3 : P3.is_stopped (P3.ps (h_psm (match k_resume c with
                            | Some (st, tw) => let m := P3.psm_resume V identity (h_psm h2) st tw in with_psm V P h2 m (P3.state_code (P3.ps m))
                            | None => h2 end))) = true).
    { destruct (k_resume c) as [[st tw]|]; [|exact H2]. cbn [with_psm h_psm]. unfold P3.psm_resume. rewrite H2. exact H2. }
    set (h3 := match k_resume c with Some _ => _ | None => h2 end) in *. clearbody h3.
    destruct (k_stop c); [|exact H3]. cbn [with_psm h_psm]. unfold P3.psm_stop. rewrite H3. exact H3.
  Qed.

  Lemma stopped_update : forall h dtl i h' go,
    stopped h = true -> shell_update h dtl i = Ok (h', go) -> stopped h' = true /\ go = false.
  Proof.
    intros h dtl i h' go Hs H. unfold stopped in *. unfold Model.shell_update in H.
    destruct (param_update powf V vinterp (h_vol h) dtl i) as [[vol ?]| |]; cbn [obind] in H; try discriminate.
    destruct (param_update powf T lerp (h_rate h) dtl i) as [[rate ?]| |]; cbn [obind] in H; try discriminate.
    destruct (param_update powf P pinterp (h_pan h) dtl i) as [[pan ?]| |]; cbn [obind] in H; try discriminate.
    destruct (P3.psm_update powf V vinterp identity (h_psm h) dtl i) as [[m changed]| |] eqn:Eu; cbn [obind] in H; try discriminate.
    assert (Hm : P3.is_stopped (P3.ps m) = true).
    { unfold P3.psm_update in Eu.
      destruct (param_update powf V vinterp (P3.fade (h_psm h)) dtl i) as [[f fin]| |]; cbn [obind] in Eu; try discriminate.
      destruct (P3.ps (h_psm h)); try discriminate. inversion Eu; subst. reflexivity. }
    destruct (P3.stime_update (h_start h) dtl i) as [[st never]| |]; cbn [obind] in H; try discriminate.
    assert (Hm' : P3.is_stopped (P3.ps (if never then P3.psm_mark_stopped V m else m)) = true)
      by (destruct never; [reflexivity | exact Hm]).
    assert (Ha : P3.is_advancing (P3.ps (if never then P3.psm_mark_stopped V m else m)) = false).
    { destruct (P3.ps (if never then P3.psm_mark_stopped V m else m)); try discriminate. reflexivity. }
    rewrite Ha in H. cbn [negb] in H.
    destruct (negb (P3.is_immediate st)); inversion H; subst; split; try reflexivity; exact Hm'.
  Qed.

  (** the rate parameter does not depend on anything but its own commands and the time steps *)
  Lemma rate_of_read : forall h c,
    h_rate (shell_read_commands h c) = match k_rate c with Some (v, tw) => param_set (h_rate h) v tw | None => h_rate h end.
  Proof.
    intros h c. unfold Model.shell_read_commands.
    destruct (k_pause c), (k_resume c) as [[? ?]|], (k_stop c); reflexivity.
  Qed.
  Lemma rate_of_update : forall h dtl i h' go, shell_update h dtl i = Ok (h', go) ->
    exists fin, param_update powf T lerp (h_rate h) dtl i = Ok (h_rate h', fin).
  Proof.
    intros h dtl i h' go H. unfold Model.shell_update in H.
    destruct (param_update powf V vinterp (h_vol h) dtl i) as [[vol ?]| |]; cbn [obind] in H; try discriminate.
    destruct (param_update powf T lerp (h_rate h) dtl i) as [[rate fin]| |]; cbn [obind] in H; try discriminate.
    destruct (param_update powf P pinterp (h_pan h) dtl i) as [[pan ?]| |]; cbn [obind] in H; try discriminate.
    destruct (P3.psm_update powf V vinterp identity (h_psm h) dtl i) as [[m changed]| |]; cbn [obind] in H; try discriminate.
    destruct (P3.stime_update (h_start h) dtl i) as [[st never]| |]; cbn [obind] in H; try discriminate.
    exists fin. destruct (negb (P3.is_immediate st)); [inversion H; subst; reflexivity|].
    destruct (negb (P3.is_advancing _)); inversion H; subst; reflexivity.
  Qed.
  Lemma mark_keeps_rate : forall h : shell, h_rate (shell_mark_stopped V P h) = h_rate h.
  Proof. reflexivity. Qed.
End Shell.
