(** C09 — the theorems assembled: the lock-step simulation from the two constructors on, packetisation
    independence, a practical sufficient condition for "the decoder keeps ahead". *)
From Coq Require Import ZArith List Bool Lia.
From KV Require Import Base.Outcome Base.Num C19.Model C06.Model.
From KV Require Import C04.Transport C04.StaticData C04.StaticSound C04.ProofsTransport.
From KV Require Import C09.Model C09.ProofsDecoder C09.ProofsTape.
Import ListNotations.
Local Open Scope Z_scope.

(** the guard on the data.  The slice is ANY pair of [usize] values (inside the audio, beyond it, inverted, empty:
    both sounds clip it); [B] is any bound on the (sliced) length, the
    start position and the loop ends, and the iteration bound [fuel] of the model's loops exceeds it (and the length
    of the audio times [EP], the bound on consecutive empty packets, for the decoder's "decode until the frame shows
    up" loop).  Start positions beyond the end, empty
    and inverted loop regions (ignored by both transports), loop regions reaching beyond the end are all inside. *)
Definition wf_config {T : Type} {NT : Num T} (A : Type) (azero : A) (V P : Type) (fuel : nat) (audio : list A)
    (sr : Z) (slice : option (Z * Z)) (g : settings T V P) (B : Z) (EP : nat) : Prop :=
  let n := num_frames (audio_source A azero audio) slice in
  let start := into_samples (g_start_pos g) sr in
  let lr := option_map (fun r => region_samples r sr n) (g_loop g) in
  slice_wf slice /\ Z.of_nat (length audio) < u64_max /\ 0 <= start /\ start < B /\ n <= B /\
  B < u64_max /\ B < Z.of_nat fuel /\ req_loop B lr /\ (need_fuel (length audio) EP <= fuel)%nat.

(** the property's "non-negative playback rate": the initial rate and every value the rate parameter takes along
    the history (at the end of each chunk and interpolated at each frame) is not NaN and not below zero (-0.0 is
    a non-negative rate) *)
Definition rates_nonneg {T : Type} {NT : Num T} {ND : NumDur T} (powf : T -> T -> T) (V P : Type)
    (g : settings T V P) (evs : list (event T V P)) : Prop :=
  nltb (p_raw (param_new (g_rate g) n1)) n0 = false /\ rates_ok powf V P (param_new (g_rate g) n1) evs.

Section Main.
  Context {T : Type} {NT : Num T} {ND : NumDur T}.
  Variable powf : T -> T -> T.
  Variable A : Type.
  Variable azero : A.
  Variable F : Type.
  Variable interp : A -> A -> A -> A -> F -> A.
  Variable cast : T -> F.
  Variable ascale : A -> F -> A.
  Variable V : Type.
  Variable vinterp : V -> V -> T -> V.
  Variables silence identity : V.
  Variable amp : V -> F.
  Variable P : Type.
  Variable pinterp : P -> P -> T -> P.
  Variable pcenter : P.
  Variable panned : A -> P -> A.
  Variable fuel : nat.
  Variable audio : list A.
  Variable cap : Z.
  Variable sr : Z.
  Variable slice : option (Z * Z).
  Variable g : settings T V P.
  Variable B : Z.
  Variable EP : nat.
  Hypothesis WF : wf_config A azero V P fuel audio sr slice g B EP.

  Notation s_new := (static_new A azero V silence identity P pcenter fuel sr (audio_source A azero audio) slice g).
  Notation s_run := (run_static powf A azero F interp cast ascale V vinterp silence identity amp P pinterp panned fuel).

  Section OneDecoder.
    Variable D : Type.
    Variable dpos : D -> nat.
    Variable dsize : D -> nat.
    Variable dnext : D -> D.
    Variable dseek : D -> nat -> D.
    Variable derr : D -> bool.
    Variable d0 : D.
    Hypothesis Hconf : conforming A audio D dpos dsize dnext dseek derr EP.

    Lemma simulation : forall (evs : list (event T V P)),
      rates_nonneg powf V P g evs ->
      exists x0 w0,
        s_new = Ok x0 /\ stream_new A azero V silence identity P pcenter audio D dpos dseek d0 sr slice g = Ok w0 /\
        sh_pos (x_core x0) = y_pos (z_core (w_sound w0)) /\ h_mirror (x_shell x0) = h_mirror (z_shell (w_sound w0)) /\
        forall ys,
          run_stream powf A azero F interp cast ascale V vinterp silence identity amp P pinterp panned fuel
                     audio D dpos dsize dnext dseek derr cap w0 evs = Ok (ys, false) ->
          exists xs, s_run x0 evs = Ok xs /\ Forall2 (obs_rel A sr) xs ys.
    Proof.
      intros evs [Hr0 Hrates].
      destruct WF as (H1 & H2 & H3 & H4 & H5 & H6 & H7 & H8 & H9).
      destruct (init_inv A azero fuel audio sr slice _ _ B H1 H2 H3 H4 H5 H6 H7 H8 EP H9 D dpos dseek d0
                         V silence identity P pcenter g eq_refl eq_refl Hr0)
        as (x0 & w0 & Hx & Hw & HInv & Hrate & Hpos0 & Hst0).
      exists x0, w0. split; [exact Hx|]. split; [exact Hw|]. split; [exact Hpos0|]. split; [exact Hst0|]. intros ys Hrun.
      rewrite <- Hrate in Hrates.
      exact (run_sim A azero fuel audio sr slice _ _ B H1 H2 H3 H4 H5 H6 H7 H8 EP H9 D dpos dsize dnext dseek derr Hconf
                     F interp cast powf ascale V vinterp silence identity amp P pinterp panned cap evs x0 w0 HInv Hrates ys Hrun).
    Qed.

    Variable D' : Type.
    Variable dpos' : D' -> nat.
    Variable dsize' : D' -> nat.
    Variable dnext' : D' -> D'.
    Variable dseek' : D' -> nat -> D'.
    Variable derr' : D' -> bool.
    Variable d0' : D'.
    Hypothesis Hconf' : conforming A audio D' dpos' dsize' dnext' dseek' derr' EP.

    Lemma packet_independence : forall (evs : list (event T V P)),
      exists w0 w0',
        stream_new A azero V silence identity P pcenter audio D dpos dseek d0 sr slice g = Ok w0 /\
        stream_new A azero V silence identity P pcenter audio D' dpos' dseek' d0' sr slice g = Ok w0' /\
        run_stream powf A azero F interp cast ascale V vinterp silence identity amp P pinterp panned fuel
                   audio D dpos dsize dnext dseek derr cap w0 evs =
        run_stream powf A azero F interp cast ascale V vinterp silence identity amp P pinterp panned fuel
                   audio D' dpos' dsize' dnext' dseek' derr' cap w0' evs.
    Proof.
      intros evs.
      destruct WF as (H1 & H2 & H3 & H4 & H5 & H6 & H7 & H8 & H9).
      destruct (init_indep A azero fuel audio sr slice _ _ D dpos dseek d0 V silence identity P pcenter g
                           eq_refl eq_refl D' dpos' dseek' d0')
        as (w0 & w0' & Hw & Hw' & HP).
      exists w0, w0'. split; [exact Hw|]. split; [exact Hw'|].
      exact (run_indep A azero fuel audio slice _ _ B H1 H2 H3 H4 H5 H6 H7 H8 EP H9 D dpos dsize dnext dseek derr Hconf
                       F interp cast powf ascale V vinterp silence identity amp P pinterp panned cap
                       D' dpos' dsize' dnext' dseek' derr' Hconf' evs w0 w0' HP).
    Qed.
  End OneDecoder.
End Main.

(** ** a decision procedure for the rate hypothesis (used by the examples, and usable on any concrete history) *)
Section RatesB.
  Context {T : Type} {NT : Num T} {ND : NumDur T}.
  Variable powf : T -> T -> T.
  Variables V P : Type.

  Definition rate_nonnegb (r : T) : bool := negb (nisnan r) && negb (nltb r n0).
  Fixpoint allk (f : Z -> bool) (k : nat) (i : Z) : bool :=
    match k with O => true | S k' => f i && allk f k' (i + 1) end.
  Fixpoint rates_okb (rate : param T T) (evs : list (event T V P)) : bool :=
    match evs with
    | [] => true
    | EvDecode :: r => rates_okb rate r
    | EvStart c :: r => rates_okb (match k_rate c with Some (v, tw) => param_set rate v tw | None => rate end) r
    | EvProcess len dt i :: r =>
        match param_update powf T lerp rate (nmul dt (nofZ len)) i with
        | Ok (rate', _) =>
            negb (nltb (p_raw rate') n0) && allk (fun k => rate_nonnegb (rate_at rate' k len)) (Z.to_nat len) 0
            && rates_okb rate' r
        | _ => true
        end
    end.

  Lemma rate_nonnegb_sound : forall r, rate_nonnegb r = true -> rate_nonneg r.
  Proof.
    intros r H. unfold rate_nonnegb in H. apply andb_prop in H. destruct H as [H2 H3]. unfold rate_nonneg.
    destruct (nisnan r), (nltb r n0); try discriminate. repeat split.
  Qed.
  Lemma allk_sound : forall f k i, allk f k i = true -> forall j, i <= j < i + Z.of_nat k -> f j = true.
  Proof.
    induction k as [|k IH]; intros i H j Hj; [lia|].
    cbn [allk] in H. apply andb_prop in H. destruct H as [H1 H2].
    destruct (Z.eq_dec j i) as [->|Hne]; [exact H1|]. apply (IH (i + 1) H2). lia.
  Qed.
  Lemma rates_okb_sound : forall evs rate, rates_okb rate evs = true -> rates_ok powf V P rate evs.
  Proof.
    induction evs as [|e evs IH]; intros rate H; [exact I|].
    destruct e as [|c|len dt i]; cbn [rates_okb rates_ok] in *.
    - apply IH; exact H.
    - apply IH; exact H.
    - destruct (param_update powf T lerp rate (nmul dt (nofZ len)) i) as [[rate' f]| |]; try exact I.
      apply andb_prop in H. destruct H as [H H3]. apply andb_prop in H. destruct H as [H1 H2].
      split; [destruct (nltb (p_raw rate') n0); [discriminate | reflexivity]|].
      split; [|apply IH; exact H3].
      intros k Hk. apply rate_nonnegb_sound. apply (allk_sound _ _ _ H2). lia.
  Qed.
End RatesB.
