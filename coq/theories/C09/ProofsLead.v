(** C09 — "the decoder keeps ahead", a criterion that can be checked from outside: if the ring still holds four
    frames after a [process] call, that call was not starved (the ring only shrinks during a call).
    And in exact arithmetic the fractional position stays in [0, 1): "within one frame". *)
From Coq Require Import ZArith QArith List Bool Lia Lqa.
From KV Require Import Base.Outcome Base.Num Base.QLemmas C19.Model C06.Model C06.Dur.
From KV Require C03.Model.
From KV Require Import C04.Transport C04.StaticData C04.StaticSound C04.ProofsTransport.
From KV Require Import C09.Model C09.ProofsTape C09.ProofsMain.
Import ListNotations.
Local Open Scope Z_scope.

Section Lead.
  Context {T : Type} {NT : Num T} {ND : NumDur T}.
  Variable powf : T -> T -> T.
  Variable A : Type.
  Variable azero : A.
  Variable F : Type.
  Variable interp : A -> A -> A -> A -> F -> A.
  Variable cast : T -> F.
  Variable ascale : A -> F -> A.
  Variable V : Type.
  Variable vinterp : V -> V -> T -> V.
  Variables identity : V.
  Variable amp : V -> F.
  Variable P : Type.
  Variable pinterp : P -> P -> T -> P.
  Variable panned : A -> P -> A.
  Variable fuel : nat.

  Lemma y_carry_shape : forall fl (y : ycore T A) pops y' pops',
    y_carry A fl y pops = Ok (y', pops') ->
    exists k, pops' = pops + Z.of_nat k /\ y_ring y' = skipn k (y_ring y) /\ y_reached_end y' = y_reached_end y.
  Proof.
    induction fl as [|fl IH]; intros y pops y' pops' H; [discriminate|].
    cbn [y_carry] in H. destruct (nleb n1 (y_fpos y)).
    - apply IH in H. destruct H as (k & Hp & Hr & He). exists (S k).
      cbn [y_with_ring y_with_fpos y_ring y_reached_end] in *. split; [lia|]. split; [|exact He].
      rewrite Hr. destruct (y_ring y); [destruct k|]; reflexivity.
    - inversion H; subst. exists 0%nat. split; [lia|]. split; reflexivity.
  Qed.

  Lemma y_frame_step_shape : forall (y : ycore T A) inc y2 out st,
    y_frame_step A azero F interp cast fuel y inc = Ok (y2, out, st) ->
    exists k, y_ring y2 = skipn k (y_ring y) /\ y_reached_end y2 = y_reached_end y /\
              st = negb (y_reached_end y) && (Z.of_nat (length (y_ring y)) <? Z.max 4 (Z.of_nat k)).
  Proof.
    intros y inc y2 out st H. unfold y_frame_step in H.
    destruct (y_carry A fuel (y_with_fpos A y (nadd (y_fpos y) inc)) 0) as [[y1 pops]| |] eqn:Ec; cbn [obind] in H; try discriminate.
    apply y_carry_shape in Ec. destruct Ec as (k & Hp & Hr & He).
    cbn [y_with_fpos y_ring y_reached_end] in *. exists k. rewrite Z.add_0_l in Hp. subst pops.
    inversion H; subst y2 out st; clear H.
    destruct (y_reached_end y1 && _); cbn [y_mark_ended y_ring y_reached_end]; (split; [exact Hr|]); (split; [exact He | reflexivity]).
  Qed.

  Lemma loop_lead : forall k i num dt rate (y y' : ycore T A) raws st,
    y_frames_loop A azero F interp cast fuel k i num dt rate y = Ok (y', raws, st) ->
    (length (y_ring y') <= length (y_ring y))%nat /\ ((4 <= length (y_ring y'))%nat -> st = false).
  Proof.
    induction k as [|k IH]; intros i num dt rate y y' raws st H.
    - cbn [y_frames_loop] in H. inversion H; subst. split; [lia | reflexivity].
    - cbn [y_frames_loop] in H.
      destruct (y_frame_step A azero F interp cast fuel y _) as [[[y1 a] st1]| |] eqn:E1; cbn [obind] in H; try discriminate.
      destruct (y_frames_loop A azero F interp cast fuel k (i + 1) num dt rate y1) as [[[y2 l] st2]| |] eqn:E2; cbn [obind] in H; try discriminate.
      inversion H; subst y' raws st; clear H.
      apply y_frame_step_shape in E1. destruct E1 as (k1 & Hr & He & Hst).
      destruct (IH _ _ _ _ _ _ _ _ E2) as [Hle Hfour].
      assert (Hlen1 : length (y_ring y1) = (length (y_ring y) - k1)%nat) by (rewrite Hr; apply skipn_length).
      split; [lia|]. intros H4. rewrite (Hfour H4), orb_false_r. subst st1.
      destruct (y_reached_end y); [reflexivity|]. cbn [negb andb]. apply Z.ltb_ge. lia.
  Qed.

  (** the criterion: four frames are still in the ring after the call *)
  Lemma process_lead : forall (z z' : stream_sound T A V P) len dt i o st,
    stream_process powf A azero F interp cast ascale V vinterp identity amp P pinterp panned fuel z len dt i = Ok (z', o, st) ->
    (4 <= length (y_ring (z_core z')))%nat -> st = false.
  Proof.
    intros z z' len dt i o st H H4. unfold stream_process in H.
    destruct (y_err (z_core z)); [inversion H; reflexivity|].
    destruct (shell_update powf V vinterp identity P pinterp (z_shell z) (nmul dt (nofZ len)) i) as [[h go]| |];
      cbn [obind] in H; try discriminate.
    destruct (negb go); [inversion H; reflexivity|].
    destruct ((Z.of_nat (length (y_ring (z_core z))) <? 2) && negb (y_reached_end (z_core z))) eqn:Eg.
    { inversion H; subst z' o st. cbn [z_core] in H4. apply andb_prop in Eg. destruct Eg as [Eg _]. apply Z.ltb_lt in Eg. lia. }
    destruct (y_frames_loop A azero F interp cast fuel (Z.to_nat len) 0 len dt (h_rate h) (z_core z)) as [[[y' raws] st']| |] eqn:El;
      cbn [obind] in H; try discriminate.
    inversion H; subst z' o st. cbn [z_core] in H4. exact (proj2 (loop_lead _ _ _ _ _ _ _ _ _ El) H4).
  Qed.
End Lead.

(** ** exact arithmetic: the fraction added to the streaming position lies in [0, 1) *)
Section FractionQ.
  Variable A : Type.
  Variable azero : A.
  Variable F : Type.
  Variable interp : A -> A -> A -> A -> F -> A.
  Variable cast : Q -> F.
  Variable fuel : nat.
  Local Open Scope Q_scope.

  Definition frac_ok (fp : Q) : Prop := 0 <= fp /\ fp < 1.

  Lemma y_carry_frac : forall fl (y y' : ycore Q A) pops pops',
    0 <= y_fpos y -> y_carry A fl y pops = Ok (y', pops') -> frac_ok (y_fpos y').
  Proof.
    induction fl as [|fl IH]; intros y y' pops pops' H0 H; [discriminate|].
    cbn [y_carry] in H. destruct (nleb n1 (y_fpos y)) eqn:E.
    - apply IH in H; [exact H|]. cbn [y_with_ring y_with_fpos y_fpos].
      cbn [nleb Num_Q n1] in E. apply Qle_bool_true in E.
      cbn [nsub Num_Q n1]. rewrite Qred_correct. lra.
    - inversion H; subst. split; [exact H0|]. cbn [nleb Num_Q n1] in E. apply Qle_bool_false in E. exact E.
  Qed.

  Lemma nmax0_nonneg : forall r : Q, 0 <= nmax0 r.
  Proof.
    intros r. unfold nmax0. cbn [nisnan nltb nsignneg Num_Q n0]. destruct (Qltb r 0) eqn:E; [lra|].
    apply Qltb_false in E. exact E.
  Qed.

  Lemma y_frame_step_frac : forall (y y2 : ycore Q A) inc out st,
    frac_ok (y_fpos y) -> 0 <= inc ->
    y_frame_step A azero F interp cast fuel y inc = Ok (y2, out, st) -> frac_ok (y_fpos y2).
  Proof.
    intros y y2 inc out st [H0 _] Hinc H. unfold y_frame_step in H.
    destruct (y_carry A fuel (y_with_fpos A y (nadd (y_fpos y) inc)) 0) as [[y1 pops]| |] eqn:Ec; cbn [obind] in H; try discriminate.
    apply y_carry_frac in Ec.
    - inversion H; subst. destruct (y_reached_end y1 && _); exact Ec.
    - cbn [y_with_fpos y_fpos nadd Num_Q]. rewrite Qred_correct. lra.
  Qed.

  Lemma y_loop_frac : forall k i num dt rate (y y' : ycore Q A) raws st,
    frac_ok (y_fpos y) -> 0 <= dt -> (0 <= y_sr y)%Z ->
    y_frames_loop A azero F interp cast fuel k i num dt rate y = Ok (y', raws, st) ->
    frac_ok (y_fpos y') /\ y_sr y' = y_sr y.
  Proof.
    induction k as [|k IH]; intros i num dt rate y y' raws st Hf Hdt Hsr H.
    - cbn [y_frames_loop] in H. inversion H; subst. split; [exact Hf | reflexivity].
    - cbn [y_frames_loop] in H.
      destruct (y_frame_step A azero F interp cast fuel y _) as [[[y1 a] st1]| |] eqn:E1; cbn [obind] in H; try discriminate.
      destruct (y_frames_loop A azero F interp cast fuel k (i + 1)%Z num dt rate y1) as [[[y2 l] st2]| |] eqn:E2; cbn [obind] in H; try discriminate.
      inversion H; subst y' raws st; clear H.
      assert (Hsr1 : y_sr y1 = y_sr y).
      { unfold y_frame_step in E1.
        destruct (y_carry A fuel (y_with_fpos A y (nadd (y_fpos y) _)) 0) as [[y0 pops]| |] eqn:Ec; cbn [obind] in E1; try discriminate.
        assert (Hc : forall fl (u u' : ycore Q A) p p', y_carry A fl u p = Ok (u', p') -> y_sr u' = y_sr u).
        { induction fl as [|fl IHf]; intros u u' p p' Hu; [discriminate|]. cbn [y_carry] in Hu.
          destruct (nleb n1 (y_fpos u)); [apply IHf in Hu; exact Hu | inversion Hu; reflexivity]. }
        apply Hc in Ec. inversion E1; subst. destruct (y_reached_end y0 && _); exact Ec. }
      assert (Hinc : 0 <= y_increment A y rate i num dt).
      { unfold y_increment. cbn [nmul Num_Q nofZ]. rewrite !Qred_correct.
        pose proof (nmax0_nonneg (rate_at rate i num)) as Hm.
        assert (0 <= inject_Z (y_sr y)) by (change 0 with (inject_Z 0); rewrite <- Zle_Qle; exact Hsr).
        apply Qmult_le_0_compat; [apply Qmult_le_0_compat; assumption | exact Hdt]. }
      pose proof (y_frame_step_frac _ _ _ _ _ Hf Hinc E1) as Hf1.
      destruct (IH _ _ _ _ _ _ _ _ Hf1 Hdt ltac:(rewrite Hsr1; exact Hsr) E2) as [Hf2 Hsr2].
      split; [exact Hf2 | congruence].
  Qed.

  (** along a whole run *)
  Variable powf : Q -> Q -> Q.
  Variable ascale : A -> F -> A.
  Variable V : Type.
  Variable vinterp : V -> V -> Q -> V.
  Variables silence identity : V.
  Variable amp : V -> F.
  Variable P : Type.
  Variable pinterp : P -> P -> Q -> P.
  Variable panned : A -> P -> A.
  Variable audio : list A.
  Variable D : Type.
  Variable dpos : D -> nat.
  Variable dsize : D -> nat.
  Variable dnext : D -> D.
  Variable dseek : D -> nat -> D.
  Variable derr : D -> bool.
  Variable cap : Z.

  Definition dts_nonneg (evs : list (event Q V P)) : Prop :=
    forall len dt i, In (EvProcess len dt i) evs -> 0 <= dt.
  Definition pos_frac_ok (o : obs Q A) : Prop :=
    match o with OPos _ _ _ fp _ => frac_ok fp | OOut _ _ _ => True end.
  Definition w_ok (w : stream Q A V P D) : Prop :=
    frac_ok (y_fpos (z_core (w_sound w))) /\ (0 <= y_sr (z_core (w_sound w)))%Z.

  Lemma decode_w_ok : forall w w', w_ok w ->
    decode_step A azero V P fuel audio D dpos dsize dnext dseek derr cap w = Ok w' -> w_ok w'.
  Proof.
    intros w w' Hok H. unfold decode_step in H. destruct (q_status (w_prod w)); [|inversion H; subst; exact Hok].
    destruct (h_mirror (z_shell (w_sound w)) =? 6)%Z; [inversion H; subst; exact Hok|].
    destruct (cap <=? _)%Z; [inversion H; subst; exact Hok|].
    destruct (q_frame_at_index A azero fuel audio D dpos dsize dnext dseek derr (w_prod w) _) as [[fr dec]| |]; cbn [obind] in H; try discriminate.
    destruct fr as [frame|]; [|inversion H; subst; exact Hok].
    destruct (C04.Transport.increment_position fuel _ _) as [t| |]; cbn [obind] in H; try discriminate.
    inversion H; subst; exact Hok.
  Qed.

  Lemma process_w_ok : forall (z z' : stream_sound Q A V P) len dt i o st,
    frac_ok (y_fpos (z_core z)) -> (0 <= y_sr (z_core z))%Z -> 0 <= dt ->
    stream_process powf A azero F interp cast ascale V vinterp identity amp P pinterp panned fuel z len dt i = Ok (z', o, st) ->
    frac_ok (y_fpos (z_core z')) /\ y_sr (z_core z') = y_sr (z_core z) /\ pos_frac_ok o.
  Proof.
    intros z z' len dt i o st Hf Hsr Hdt H. unfold stream_process in H.
    destruct (y_err (z_core z)); [inversion H; subst; cbn; repeat split; try exact (proj1 Hf); try exact (proj2 Hf)|].
    destruct (shell_update powf V vinterp identity P pinterp (z_shell z) (nmul dt (nofZ len)) i) as [[h go]| |];
      cbn [obind] in H; try discriminate.
    destruct (negb go); [inversion H; subst; cbn; repeat split; try exact (proj1 Hf); try exact (proj2 Hf)|].
    destruct ((Z.of_nat (length (y_ring (z_core z))) <? 2)%Z && negb (y_reached_end (z_core z)));
      [inversion H; subst; cbn; repeat split; try exact (proj1 Hf); try exact (proj2 Hf)|].
    destruct (y_frames_loop A azero F interp cast fuel (Z.to_nat len) 0 len dt (h_rate h) (z_core z)) as [[[y' raws] st']| |] eqn:El;
      cbn [obind] in H; try discriminate.
    inversion H; subst z' o st. cbn [z_core pos_frac_ok].
    destruct (y_loop_frac _ _ _ _ _ _ _ _ _ Hf Hdt Hsr El) as [H1 H2]. repeat split; try exact (proj1 H1); try exact (proj2 H1); exact H2.
  Qed.

  Lemma on_start_shape : forall (z z' : stream_sound Q A V P) c o,
    stream_on_start A V silence identity P z c = (z', o) ->
    y_fpos (z_core z') = y_fpos (z_core z) /\ y_sr (z_core z') = y_sr (z_core z) /\
    (frac_ok (y_fpos (z_core z)) -> pos_frac_ok o).
  Proof.
    intros z z' c o H. unfold stream_on_start in H.
    assert (Hu : y_fpos (update_current_frame A (z_core z)) = y_fpos (z_core z) /\
                 y_sr (update_current_frame A (z_core z)) = y_sr (z_core z)).
    { unfold update_current_frame. destruct (y_ring (z_core z)) as [|a [|[b idx] r]]; split; reflexivity. }
    destruct Hu as [Hu1 Hu2]. inversion H; subst z' o; clear H. cbn [z_core y_fpos y_sr pos_frac_ok].
    rewrite Hu1, Hu2. split; [reflexivity|]. split; [reflexivity|]. intros Hf; exact Hf.
  Qed.

  Lemma run_frac : forall evs (w : stream Q A V P D) ys st,
    w_ok w -> dts_nonneg evs ->
    run_stream powf A azero F interp cast ascale V vinterp silence identity amp P pinterp panned fuel audio D dpos dsize dnext dseek derr cap w evs
      = Ok (ys, st) ->
    Forall pos_frac_ok ys.
  Proof.
    induction evs as [|e evs IH]; intros w ys st Hok Hdts H.
    - cbn [run_stream] in H. inversion H; constructor.
    - assert (Hdts' : dts_nonneg evs) by (intros len dt i Hin; apply (Hdts len dt i); right; exact Hin).
      cbn [run_stream] in H. destruct e as [|c|len dt i]; cbn [stream_step] in H.
      + destruct (decode_step A azero V P fuel audio D dpos dsize dnext dseek derr cap w) as [w'| |] eqn:Ed; cbn [obind] in H; try discriminate.
        destruct (run_stream _ _ _ _ _ _ _ _ _ _ _ _ _ _ _ _ _ _ _ _ _ _ _ _ w' evs) as [[os s2]| |] eqn:Er; cbn [obind] in H; try discriminate.
        inversion H; subst. cbn [app]. exact (IH _ _ _ (decode_w_ok _ _ Hok Ed) Hdts' Er).
      + destruct (stream_on_start A V silence identity P (w_sound w) c) as [z' o] eqn:Es. cbn [obind] in H.
        destruct (run_stream _ _ _ _ _ _ _ _ _ _ _ _ _ _ _ _ _ _ _ _ _ _ _ _ _ evs) as [[os s2]| |] eqn:Er; cbn [obind] in H; try discriminate.
        inversion H; subst. cbn [app]. destruct Hok as [Hf Hsr].
        destruct (on_start_shape _ _ _ _ Es) as (Hu1 & Hu2 & Ho).
        constructor; [exact (Ho Hf)|].
        assert (Hok' : w_ok {| w_prod := w_prod w; w_sound := z' |}).
        { split; cbn [w_sound]; [rewrite Hu1; exact Hf | rewrite Hu2; exact Hsr]. }
        exact (IH _ _ _ Hok' Hdts' Er).
      + destruct (stream_process powf A azero F interp cast ascale V vinterp identity amp P pinterp panned fuel (w_sound w) len dt i)
          as [[[z' o] s1]| |] eqn:Ep; cbn [obind] in H; try discriminate.
        destruct (run_stream _ _ _ _ _ _ _ _ _ _ _ _ _ _ _ _ _ _ _ _ _ _ _ _ _ evs) as [[os s2]| |] eqn:Er; cbn [obind] in H; try discriminate.
        inversion H; subst. cbn [app]. destruct Hok as [Hf Hsr].
        assert (Hdt : 0 <= dt) by (apply (Hdts len dt i); left; reflexivity).
        destruct (process_w_ok _ _ _ _ _ _ _ Hf Hsr Hdt Ep) as (Hf' & Hsr' & Ho).
        constructor; [exact Ho|].
        assert (Hok' : w_ok {| w_prod := w_prod w; w_sound := z' |}).
        { split; cbn [w_sound]; [exact Hf' | rewrite Hsr'; exact Hsr]. }
        exact (IH _ _ _ Hok' Hdts' Er).
  Qed.

  (** "within one frame": static position [index / sr], streaming position [(index + fraction) / sr] *)
  Lemma pos_within : forall (idx sr : Z) (fp px py : Q),
    (0 < sr)%Z -> frac_ok fp ->
    px = ndiv (nofZ idx) (nofZ sr) -> py = ndiv (nadd (nofZ idx) fp) (nofZ sr) ->
    0 <= (py - px) * inject_Z sr /\ (py - px) * inject_Z sr < 1.
  Proof.
    intros idx sr fp px py Hsr [H0 H1] Hx Hy. subst px py. cbn [ndiv nadd nofZ Num_Q]. rewrite !Qred_correct.
    assert (Hs : ~ inject_Z sr == 0).
    { intros H. unfold Qeq, inject_Z in H. cbn [Qnum Qden] in H. lia. }
    assert (E : ((inject_Z idx + fp) / inject_Z sr - inject_Z idx / inject_Z sr) * inject_Z sr == fp) by (field; exact Hs).
    rewrite E. split; assumption.
  Qed.
End FractionQ.

(** ** the simulation theorem in exact arithmetic, with "within one frame" spelled out *)
Section PosQ.
  Variable powf : Q -> Q -> Q.
  Variable A : Type.
  Variable azero : A.
  Variable F : Type.
  Variable interp : A -> A -> A -> A -> F -> A.
  Variable cast : Q -> F.
  Variable ascale : A -> F -> A.
  Variable V : Type.
  Variable vinterp : V -> V -> Q -> V.
  Variables silence identity : V.
  Variable amp : V -> F.
  Variable P : Type.
  Variable pinterp : P -> P -> Q -> P.
  Variable pcenter : P.
  Variable panned : A -> P -> A.
  Variable fuel : nat.
  Variable audio : list A.
  Variable cap : Z.
  Variable sr : Z.
  Variable slice : option (Z * Z).
  Variable g : settings Q V P.
  Variable B : Z.
  Variable EP : nat.
  Variable D : Type.
  Variable dpos : D -> nat.
  Variable dsize : D -> nat.
  Variable dnext : D -> D.
  Variable dseek : D -> nat -> D.
  Variable derr : D -> bool.
  Variable d0 : D.

  (** two position reports of the same callback: less than one frame apart, as long as the ring holds the frame
      being heard *)
  Definition pos_close (x y : obs Q A) : Prop :=
    match x, y with
    | OPos px sx _ _ _, OPos py sy _ _ avail =>
        sx = sy /\ (2 <= avail -> (0 <= (py - px) * inject_Z sr /\ (py - px) * inject_Z sr < 1)%Q)
    | OOut f1 s1 e1, OOut f2 s2 e2 => f1 = f2 /\ s1 = s2 /\ e1 = e2
    | _, _ => False
    end.

  Lemma simulation_Q : wf_config A azero V P fuel audio sr slice g B EP -> 0 < sr ->
    ProofsDecoder.conforming A audio D dpos dsize dnext dseek derr EP ->
    forall (evs : list (event Q V P)),
      rates_nonneg powf V P g evs -> dts_nonneg V P evs ->
      exists x0 w0,
        static_new A azero V silence identity P pcenter fuel sr (audio_source A azero audio) slice g = Ok x0 /\
        stream_new A azero V silence identity P pcenter audio D dpos dseek d0 sr slice g = Ok w0 /\
        sh_pos (x_core x0) = y_pos (z_core (w_sound w0)) /\ h_mirror (x_shell x0) = h_mirror (z_shell (w_sound w0)) /\
        forall ys,
          run_stream powf A azero F interp cast ascale V vinterp silence identity amp P pinterp panned fuel
                     audio D dpos dsize dnext dseek derr cap w0 evs = Ok (ys, false) ->
          exists xs,
            run_static powf A azero F interp cast ascale V vinterp silence identity amp P pinterp panned fuel x0 evs = Ok xs /\
            Forall2 pos_close xs ys.
  Proof.
    intros WF Hsr Hconf evs Hrates Hdts.
    destruct (simulation powf A azero F interp cast ascale V vinterp silence identity amp P pinterp pcenter panned fuel
                         audio cap sr slice g B EP WF D dpos dsize dnext dseek derr d0 Hconf evs Hrates)
      as (x0 & w0 & Hx & Hw & Hp0 & Hs0 & Hsim).
    exists x0, w0. split; [exact Hx|]. split; [exact Hw|]. split; [exact Hp0|]. split; [exact Hs0|]. intros ys Hrun.
    destruct (Hsim ys Hrun) as (xs & Hxs & Hrel). exists xs. split; [exact Hxs|].
    assert (Hok : w_ok A V P D w0).
    { unfold stream_new in Hw.
      inversion Hw; subst w0. split; cbn [w_sound z_core y_fpos y_sr]; [split; [apply Qle_refl | reflexivity] | lia]. }
    pose proof (run_frac A azero F interp cast fuel powf ascale V vinterp silence identity amp P pinterp panned audio
                         D dpos dsize dnext dseek derr cap evs w0 ys false Hok Hdts Hrun) as Hfrac.
    clear Hrun Hsim Hxs. revert Hfrac. induction Hrel as [|x y xs ys Hxy _ IH]; intros Hfrac; [constructor|].
    inversion Hfrac as [|? ? Hy Hys]; subst. constructor; [|exact (IH Hys)].
    destruct Hxy as [frames st fin | px py st idx cur fp avail Hpx Hpy Hc].
    - cbn. repeat split.
    - cbn [pos_close]. split; [reflexivity|]. intros Hav. rewrite (Hc Hav) in Hpy.
      exact (pos_within idx sr fp px py Hsr Hy Hpx Hpy).
  Qed.
End PosQ.
