(** C09 — model side of the correspondence check: one case = one audio, one group of settings, one
    packetisation / seek granularity of the scripted decoder, one schedule of decoder-loop iterations and
    audio callbacks; the model runs the static sound and the streaming system on it. *)
From Coq Require Import ZArith List Bool.
From Flocq Require Import IEEE754.BinarySingleNaN.
From KV Require Import Base.IEEE Base.Outcome Base.Num Base.Corr C19.Model C19.ModelF32 C19.Run C06.Model C06.Dur C06.Run.
From KV Require Import C04.Model.
From KV Require C03.Model C03.Run C04.Run C18.Model.
From KV Require Import C09.Model.
Import ListNotations.
Local Open Scope Z_scope.

Module R3 := KV.C03.Run.
Module R4 := KV.C04.Run.

Definition rtw : Type := R3.rtw.
Definition mk_tw : rtw -> tween f64 := R3.mk_tw.

(** commands written to the handle before a callback *)
Record rcmds := {
  r_vol : option (rtarget * rtw); r_rate : option (rtarget * rtw); r_pan : option (rtarget * rtw);
  r_pause : option rtw; r_resume : option (rstart * rtw); r_stop : option rtw;
}.
Inductive rev :=
| RDec (k : Z)                              (* [k] iterations of the decoder thread's loop *)
| RStart (c : rcmds)                        (* on_start_processing *)
| RProc (len dt : Z) (clocks : list (Z * Z * Z * Z)) (mods : list (Z * Z)).
Inductive case :=
| CPair (fast : bool) (sr : Z) (frames : list (Z * Z)) (slice : option (Z * Z))
        (start : R4.rpos) (lp : option (R4.rpos * R4.rend)) (st : rstart)
        (vol rate pan : rtarget) (fade_in : option rtw)
        (packets : list Z) (gran : Z)
        (evs : list rev) (tab : list (Z * Z * Z)).

(** ** the scripted decoder as an instance of the [Decoder] contract of C18 *)
Definition zsum (l : list Z) : Z := fold_right Z.add 0 l.
Definition pstart (ps : list Z) (k : nat) : Z := zsum (firstn k ps).
(** number of the packet containing frame [i] ([length ps] beyond the end) *)
Fixpoint find_packet (ps : list Z) (i : Z) : nat :=
  match ps with
  | [] => O
  | p :: r => if i <? p then O else S (find_packet r (i - p))
  end.
(** the scripted decoder: its state is the number of the next packet; packets may be EMPTY; [seek i] lands at the
    start of the last packet, at or before the one holding frame [i], whose number is a multiple of the granularity;
    decoding past the last packet is an error *)
Definition sd_pos (ps : list Z) (k : nat) : nat := Z.to_nat (pstart ps k).
Definition sd_size (ps : list Z) (k : nat) : nat := Z.to_nat (nth k ps 0).
Definition sd_next (k : nat) : nat := S k.
Definition sd_seek (ps : list Z) (gran : Z) (_ : nat) (i : nat) : nat :=
  let k := find_packet ps (Z.of_nat i) in
  let g := Z.to_nat (Z.max 1 gran) in
  (Nat.div k g * g)%nat.
Definition sd_err (ps : list Z) (k : nat) : bool := (length ps <=? k)%nat.

Definition frame32 : Type := @frame f32.
Definition lerp32_fast (a b : f32) (amount : f64) : f32 :=
  (* a + (a - a) * t = a for finite a other than -0.0 and finite t: checked fast path *)
  match a, b with
  | B754_zero false, B754_zero false => a
  | B754_finite sa ma ea _, B754_finite sb mb eb _ =>
      if Bool.eqb sa sb && Pos.eqb ma mb && (ea =? eb) && isfinite64 amount then a else lerp32 a b amount
  | _, _ => lerp32 a b amount
  end.
Definition lerp64_fast (a b amount : f64) : f64 :=
  match a, b with
  | B754_zero false, B754_zero false => a
  | B754_finite sa ma ea _, B754_finite sb mb eb _ =>
      if Bool.eqb sa sb && Pos.eqb ma mb && (ea =? eb) && isfinite64 amount then a else @lerp f64 _ a b amount
  | _, _ => @lerp f64 _ a b amount
  end.

Section Go.
  Variable fast : bool.
  Variable tab : list (Z * Z * Z).
  Variable audio : list frame32.
  Variable packets : list Z.
  Variable gran : Z.

  Let interp := if fast then R4.interpolate_fast else @interpolate_frame f32 _.
  Let scale := if fast then R4.scale_fast else @frame_scale f32 _.
  Let vlerp := if fast then lerp32_fast else lerp32.
  Definition amp32 (db : f32) : f32 := db_as_amplitude (powf32_tab tab (Z32 10)) db.
  Definition pan32 (a : frame32) (p : f32) : frame32 := panned (fst a) (snd a) p.
  Definition powf_t : f64 -> f64 -> f64 := powf64_tab tab.
  Definition fuel : nat := Z.to_nat 20000.
  Definition cap : Z := 16384.

  Definition mk_cmds (c : rcmds) : cmds f64 f32 f32 :=
    let tgt32 := mk_target f32 f32_of_bits in
    let tgt64 := mk_target f64 f64_of_bits in
    {| k_vol := option_map (fun '(t, w) => (tgt32 t, mk_tw w)) (r_vol c);
       k_rate := option_map (fun '(t, w) => (tgt64 t, mk_tw w)) (r_rate c);
       k_pan := option_map (fun '(t, w) => (tgt32 t, mk_tw w)) (r_pan c);
       k_pause := option_map mk_tw (r_pause c);
       k_resume := option_map (fun '(s, w) => (mk_start s, mk_tw w)) (r_resume c);
       k_stop := option_map mk_tw (r_stop c) |}.

  Definition mk_event (e : rev) : list (event f64 f32 f32) :=
    match e with
    | RDec k => repeat EvDecode (Z.to_nat k)
    | RStart c => [EvStart (mk_cmds c)]
    | RProc len dt clocks mods => [EvProcess len (f64_of_bits dt) (mk_info clocks mods)]
    end.

  Definition enc_obs (o : obs f64 frame32) : list Z :=
    match o with
    | OPos p st _ _ _ => [bits_of_f64 p; st]
    | OOut frames st fin => R4.enc_frames frames ++ [st; if fin then 1 else 0]
    end.
  Definition enc_run (r : outcome (list (obs f64 frame32))) : list Z :=
    match r with
    | Ok os => 0 :: flat_map enc_obs os
    | Panic k => [1; panic_code k]
    | Hang => [2]
    end.

  Definition st_new : Z -> source frame32 -> option (Z * Z) -> settings f64 f32 f32 -> outcome (static f64 frame32 f32 f32) :=
    static_new frame32 frame_zero f32 (Z32 (-60)) (Z32 0) f32 (Z32 0) fuel.
  Definition st_run : static f64 frame32 f32 f32 -> list (event f64 f32 f32) -> outcome (list (obs f64 frame32)) :=
    run_static powf_t frame32 frame_zero f32 interp f64_to_f32 scale f32 vlerp (Z32 (-60)) (Z32 0)
                                  amp32 f32 vlerp pan32 fuel.
  Definition sm_new : Z -> option (Z * Z) -> settings f64 f32 f32 -> outcome (stream f64 frame32 f32 f32 nat) :=
    stream_new frame32 frame_zero f32 (Z32 (-60)) (Z32 0) f32 (Z32 0) audio
               nat (sd_pos packets) (sd_seek packets gran) O.
  Definition sm_run : stream f64 frame32 f32 f32 nat -> list (event f64 f32 f32) -> outcome (list (obs f64 frame32) * bool) :=
    run_stream powf_t frame32 frame_zero f32 interp f64_to_f32 scale f32 vlerp (Z32 (-60)) (Z32 0)
               amp32 f32 vlerp pan32 fuel audio nat (sd_pos packets) (sd_size packets) sd_next (sd_seek packets gran)
               (sd_err packets) cap.
End Go.

Definition source_of (audio : list frame32) : source frame32 := audio_source frame32 frame_zero audio.

Definition run (c : case) : list Z :=
  match c with
  | CPair fast sr frames slice start lp st vol rate pan fade_in packets gran evs tab =>
      let audio := map R4.mk_frame frames in
      let g := {| g_start_time := mk_start st; g_start_pos := R4.mk_pos start;
                  g_loop := option_map (fun '(s, e) => R4.mk_region s e) lp;
                  g_volume := mk_target f32 f32_of_bits vol; g_rate := mk_target f64 f64_of_bits rate;
                  g_pan := mk_target f32 f32_of_bits pan; g_fade_in := option_map mk_tw fade_in |} in
      let events := flat_map mk_event evs in
      (* what the handles report before the first callback, then the run *)
      (match st_new sr (source_of audio) slice g with
       | Ok x => bits_of_f64 (sh_pos (x_core x)) :: h_mirror (x_shell x) :: enc_run (st_run fast tab x events)
       | Panic k => [1; panic_code k]
       | Hang => [2]
       end)
      ++ 777777 ::
      (match sm_new audio packets gran sr slice g with
       | Ok w => bits_of_f64 (y_pos (z_core (w_sound w))) :: h_mirror (z_shell (w_sound w))
                 :: enc_run (let! (os, _) := sm_run fast tab audio packets gran w events in Ok os)
       | Panic k => [1; panic_code k]
       | Hang => [2]
       end)
  end.
