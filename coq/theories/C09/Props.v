(** C09 — property theorems (statements closed by [exact]). *)
From Coq Require Import ZArith QArith List Bool.
From KV Require Import Base.IEEE Base.Outcome Base.Num C19.Model C06.Model C06.Dur C06.Run.
From KV Require Import C04.Transport C04.Resampler C04.StaticData C04.StaticSound C04.ProofsTransport.
From KV Require Import C09.Model C09.ProofsShell C09.ProofsDecoder C09.ProofsTape C09.ProofsMain C09.ProofsLead C09.ProofsAtomic C09.ProofsExamples C09.ProofsPosition C09.Run.
Import ListNotations.
Local Open Scope Z_scope.

(** THE SIMULATION.  For ANY time type, frame type, sample / volume / panning operations (so: bit for bit in
    IEEE arithmetic), any audio, ANY slice (inside the audio, reaching beyond it, inverted, empty: both sounds clip it),
    start position (also beyond the end), loop region (also empty,
    inverted or beyond the end), start time, initial volume / rate / panning values (fixed or modulator-linked),
    fade-in, any conforming decoder (any packet sizes INCLUDING EMPTY PACKETS, fewer than [EP] in a row; any seek landings), any history of decoder-loop iterations
    and callbacks with volume / rate / panning / pause / resume / resume_at / stop commands and any infos, in which
    every rate value read is non-negative (not NaN, not below zero; -0.0 is a non-negative rate):  the two constructors succeed and the two handles report the same
    position and state before the first callback, and whenever the streaming run completes
    with the decoder having kept ahead (ghost flag [false]: at every frame processed the ring held the four frames
    looked at and the frames popped, or the decoder had finished), the static run completes too, with the same
    output frames, the same handle state and [finished()] after every [process] call, the same handle state after
    every [on_start_processing], and reported positions that are [index / rate] (static) and
    [(index + fraction) / rate] (streaming) with the SAME index (as soon as the ring holds the frame being
    heard, i.e. until the end of the data has been consumed) and the shared fractional position. *)
Theorem streaming_simulates_static_any :
  forall (T : Type) (NT : Num T) (ND : NumDur T) (powf : T -> T -> T)
         (A : Type) (azero : A) (F : Type) (interp : A -> A -> A -> A -> F -> A) (cast : T -> F) (ascale : A -> F -> A)
         (V : Type) (vinterp : V -> V -> T -> V) (silence identity : V) (amp : V -> F)
         (P : Type) (pinterp : P -> P -> T -> P) (pcenter : P) (panned : A -> P -> A)
         (fuel : nat) (audio : list A) (cap sr : Z) (slice : option (Z * Z)) (g : settings T V P) (B : Z) (EP : nat),
    wf_config A azero V P fuel audio sr slice g B EP ->
    forall (D : Type) (dpos dsize : D -> nat) (dnext : D -> D) (dseek : D -> nat -> D) (derr : D -> bool) (d0 : D),
    conforming A audio D dpos dsize dnext dseek derr EP ->
    forall (evs : list (event T V P)),
      rates_nonneg powf V P g evs ->
      exists x0 w0,
        static_new A azero V silence identity P pcenter fuel sr (audio_source A azero audio) slice g = Ok x0 /\
        stream_new A azero V silence identity P pcenter audio D dpos dseek d0 sr slice g = Ok w0 /\
        sh_pos (x_core x0) = y_pos (z_core (w_sound w0)) /\ h_mirror (x_shell x0) = h_mirror (z_shell (w_sound w0)) /\
        forall ys,
          run_stream powf A azero F interp cast ascale V vinterp silence identity amp P pinterp panned fuel
                     audio D dpos dsize dnext dseek derr cap w0 evs = Ok (ys, false) ->
          exists xs,
            run_static powf A azero F interp cast ascale V vinterp silence identity amp P pinterp panned fuel x0 evs = Ok xs /\
            Forall2 (obs_rel A sr) xs ys.
Proof. exact (@simulation). Qed.

(** The result does not depend on how the decoder splits its packets or on how far before the requested frame its
    seeks land: for ANY two conforming decoders of the same audio and ANY history (no hypothesis on rates or on the
    decoder's lead), the two streaming systems produce the same run — outcome, observations and ghost flag. *)
Theorem packetisation_independent :
  forall (T : Type) (NT : Num T) (ND : NumDur T) (powf : T -> T -> T)
         (A : Type) (azero : A) (F : Type) (interp : A -> A -> A -> A -> F -> A) (cast : T -> F) (ascale : A -> F -> A)
         (V : Type) (vinterp : V -> V -> T -> V) (silence identity : V) (amp : V -> F)
         (P : Type) (pinterp : P -> P -> T -> P) (pcenter : P) (panned : A -> P -> A)
         (fuel : nat) (audio : list A) (cap sr : Z) (slice : option (Z * Z)) (g : settings T V P) (B : Z) (EP : nat),
    wf_config A azero V P fuel audio sr slice g B EP ->
    forall (D : Type) (dpos dsize : D -> nat) (dnext : D -> D) (dseek : D -> nat -> D) (derr : D -> bool) (d0 : D),
    conforming A audio D dpos dsize dnext dseek derr EP ->
    forall (D' : Type) (dpos' dsize' : D' -> nat) (dnext' : D' -> D') (dseek' : D' -> nat -> D') (derr' : D' -> bool) (d0' : D'),
    conforming A audio D' dpos' dsize' dnext' dseek' derr' EP ->
    forall (evs : list (event T V P)),
      exists w0 w0',
        stream_new A azero V silence identity P pcenter audio D dpos dseek d0 sr slice g = Ok w0 /\
        stream_new A azero V silence identity P pcenter audio D' dpos' dseek' d0' sr slice g = Ok w0' /\
        run_stream powf A azero F interp cast ascale V vinterp silence identity amp P pinterp panned fuel
                   audio D dpos dsize dnext dseek derr cap w0 evs =
        run_stream powf A azero F interp cast ascale V vinterp silence identity amp P pinterp panned fuel
                   audio D' dpos' dsize' dnext' dseek' derr' cap w0' evs.
Proof. exact (@packet_independence). Qed.

(** The simulation in exact arithmetic, with "the same reported positions (within one frame)" spelled out: under the
    same hypotheses, with positive sample rate and non-negative time steps, every pair of reports carries the same
    output, states and [finished()], and the streaming position is ahead of the static one by less than one frame
    as long as the ring holds the frame being heard. *)
Theorem streaming_simulates_static_Q :
  forall (powf : Q -> Q -> Q) (A : Type) (azero : A) (F : Type) (interp : A -> A -> A -> A -> F -> A) (cast : Q -> F)
         (ascale : A -> F -> A) (V : Type) (vinterp : V -> V -> Q -> V) (silence identity : V) (amp : V -> F)
         (P : Type) (pinterp : P -> P -> Q -> P) (pcenter : P) (panned : A -> P -> A)
         (fuel : nat) (audio : list A) (cap sr : Z) (slice : option (Z * Z)) (g : settings Q V P) (B : Z) (EP : nat)
         (D : Type) (dpos dsize : D -> nat) (dnext : D -> D) (dseek : D -> nat -> D) (derr : D -> bool) (d0 : D),
    wf_config A azero V P fuel audio sr slice g B EP -> 0 < sr ->
    conforming A audio D dpos dsize dnext dseek derr EP ->
    forall (evs : list (event Q V P)),
      rates_nonneg powf V P g evs -> dts_nonneg V P evs ->
      exists x0 w0,
        static_new A azero V silence identity P pcenter fuel sr (audio_source A azero audio) slice g = Ok x0 /\
        stream_new A azero V silence identity P pcenter audio D dpos dseek d0 sr slice g = Ok w0 /\
        sh_pos (x_core x0) = y_pos (z_core (w_sound w0)) /\ h_mirror (x_shell x0) = h_mirror (z_shell (w_sound w0)) /\
        forall ys,
          run_stream powf A azero F interp cast ascale V vinterp silence identity amp P pinterp panned fuel
                     audio D dpos dsize dnext dseek derr cap w0 evs = Ok (ys, false) ->
          exists xs,
            run_static powf A azero F interp cast ascale V vinterp silence identity amp P pinterp panned fuel x0 evs = Ok xs /\
            Forall2 (pos_close A sr) xs ys.
Proof. exact (@simulation_Q). Qed.

(** Why a [process] call may be modelled as one atomic step although the decoder thread runs beside it: if the call
    was not starved and the decoder had not finished, ANY entries appended to the ring (what the decoder pushes
    meanwhile) change neither the output nor the state the call leaves; they are simply still in the ring. *)
Theorem process_atomic_wrt_pushes :
  forall (T : Type) (NT : Num T) (ND : NumDur T) (powf : T -> T -> T)
         (A : Type) (azero : A) (F : Type) (interp : A -> A -> A -> A -> F -> A) (cast : T -> F) (ascale : A -> F -> A)
         (V : Type) (vinterp : V -> V -> T -> V) (identity : V) (amp : V -> F)
         (P : Type) (pinterp : P -> P -> T -> P) (panned : A -> P -> A) (fuel : nat)
         (z z' : stream_sound T A V P) (len : Z) (dt : T) (i : info T) (o : obs T A) (extra : list (A * Z)),
    y_reached_end (z_core z) = false ->
    stream_process powf A azero F interp cast ascale V vinterp identity amp P pinterp panned fuel z len dt i = Ok (z', o, false) ->
    stream_process powf A azero F interp cast ascale V vinterp identity amp P pinterp panned fuel
                   {| z_core := more A (z_core z) extra; z_shell := z_shell z |} len dt i
      = Ok ({| z_core := more A (z_core z') extra; z_shell := z_shell z' |}, o, false).
Proof. exact (@process_more). Qed.

(** "The decoder keeps ahead", checkable from outside: a [process] call after which the ring still holds four
    entries was not starved (the ring only shrinks during a call) — whatever happened before. *)
Theorem kept_ahead_if_four_remain :
  forall (T : Type) (NT : Num T) (ND : NumDur T) (powf : T -> T -> T)
         (A : Type) (azero : A) (F : Type) (interp : A -> A -> A -> A -> F -> A) (cast : T -> F) (ascale : A -> F -> A)
         (V : Type) (vinterp : V -> V -> T -> V) (identity : V) (amp : V -> F)
         (P : Type) (pinterp : P -> P -> T -> P) (panned : A -> P -> A) (fuel : nat)
         (z z' : stream_sound T A V P) (len : Z) (dt : T) (i : info T) (o : obs T A) (st : bool),
    stream_process powf A azero F interp cast ascale V vinterp identity amp P pinterp panned fuel z len dt i = Ok (z', o, st) ->
    (4 <= length (y_ring (z_core z')))%nat -> st = false.
Proof. exact (@process_lead). Qed.

(** Positions "within one frame", exact arithmetic: along every streaming run with non-negative time steps the
    fraction added to the reported position stays in [0, 1) ... *)
Theorem streaming_fraction_in_unit_interval_Q :
  forall (A : Type) (azero : A) (F : Type) (interp : A -> A -> A -> A -> F -> A) (cast : Q -> F) (fuel : nat)
         (powf : Q -> Q -> Q) (ascale : A -> F -> A) (V : Type) (vinterp : V -> V -> Q -> V) (silence identity : V)
         (amp : V -> F) (P : Type) (pinterp : P -> P -> Q -> P) (panned : A -> P -> A) (audio : list A)
         (D : Type) (dpos dsize : D -> nat) (dnext : D -> D) (dseek : D -> nat -> D) (derr : D -> bool)
         (cap : Z) (evs : list (event Q V P)) (w : stream Q A V P D)
         (ys : list (obs Q A)) (st : bool),
    w_ok A V P D w -> dts_nonneg V P evs ->
    run_stream powf A azero F interp cast ascale V vinterp silence identity amp P pinterp panned fuel audio
               D dpos dsize dnext dseek derr cap w evs
      = Ok (ys, st) ->
    Forall (pos_frac_ok A) ys.
Proof. exact (@run_frac). Qed.

(** ... so two related position reports are less than one frame apart (the streaming one ahead). *)
Theorem positions_within_one_frame_Q :
  forall (idx sr : Z) (fp px py : Q),
    0 < sr -> frac_ok fp ->
    px = ndiv (nofZ idx) (nofZ sr) -> py = ndiv (nadd (nofZ idx) fp) (nofZ sr) ->
    (0 <= (py - px) * inject_Z sr /\ (py - px) * inject_Z sr < 1)%Q.
Proof. exact pos_within. Qed.

(** The decoder contract is all the scheduler needs: over ANY conforming decoder — any packet sizes, EMPTY packets
    included (fewer than [EP] in a row), any seek landings — [frame_at_index] at a playing transport position returns
    the frame of the audio under the slice that the static sound reads there (zero beyond the slice), and keeps its
    bookkeeping consistent. *)
Theorem scheduler_frame_correct :
  forall (A : Type) (azero : A) (fuel : nat) (audio : list A) (slice : option (Z * Z)) (start : Z)
         (lr : option (Z * Z)) (B : Z),
    slice_wf slice -> Z.of_nat (length audio) < u64_max -> 0 <= start -> start < B ->
    N A azero audio slice <= B -> B < u64_max -> B < Z.of_nat fuel -> req_loop B lr ->
    forall EP : nat, (need_fuel (length audio) EP <= fuel)%nat ->
    forall (D : Type) (dpos dsize : D -> nat) (dnext : D -> D) (dseek : D -> nat -> D) (derr : D -> bool),
      conforming A audio D dpos dsize dnext dseek derr EP ->
      forall (q : producer A D) (j : nat),
      q_slice q = slice -> q_n q = N A azero audio slice -> dinv A audio D dpos (q_dec q) ->
      pl A azero fuel audio slice start lr j = true ->
      exists dec',
        q_frame_at_index A azero fuel audio D dpos dsize dnext dseek derr q (t_pos (tr_at A azero fuel audio slice start lr j))
          = Ok (Some (rf_frame (prec A azero fuel audio slice start lr (S j))), dec') /\
        dinv A audio D dpos dec'.
Proof. exact (@q_frame_at_index_any). Qed.

(** The natural end is detected in the same frame: the static sound's "transport stopped and resampler empty" flag
    after [h + 3] position updates equals the streaming sound's "reached_end and ring empty". *)
Theorem natural_end_agrees :
  forall (A : Type) (azero : A) (fuel : nat) (audio : list A) (slice : option (Z * Z)) (start : Z)
         (lr : option (Z * Z)) (EP : nat),
    (need_fuel (length audio) EP <= fuel)%nat ->
    forall (hx hz m : nat) (fin : bool),
      Rel A azero fuel audio slice start lr hx hz m fin ->
      flag_at A azero fuel audio slice start lr (hx + 3) =
      fin && (match ring_at A azero fuel audio slice start lr hz m with [] => true | _ => false end).
Proof. exact (@Rel_flag). Qed.

(** The decode loop itself, for ANY decoder satisfying the contract's clauses (with [idle] the witness of "fewer than
    [E] empty packets in a row"): from a consistent state at or before [index] it returns frame [index] of the audio
    within [(index - position) * E + idle] iterations — empty packets are stored like any other chunk and the loop
    goes round again; it never substitutes silence. *)
Theorem decode_loop_finds_frame :
  forall (A : Type) (azero : A) (audio : list A) (D : Type) (dpos dsize : D -> nat) (dnext : D -> D) (derr : D -> bool)
         (E : nat) (idle : D -> nat),
    (forall d, (dpos d < length audio)%nat -> derr d = false) ->
    (forall d, derr d = false -> dpos (dnext d) = (dpos d + Nat.min (dsize d) (length audio - dpos d))%nat) ->
    (forall d, (idle d < E)%nat /\ ((dpos d < length audio)%nat -> dsize d = 0%nat -> (idle (dnext d) < idle d)%nat)) ->
    forall (fuel : nat) (s : dsched A D) (index : nat),
      dinv A audio D dpos s -> (dpos (ds_dec s) <= index < length audio)%nat ->
      ((index - dpos (ds_dec s)) * E + idle (ds_dec s) < fuel)%nat ->
      exists s', decode_loop A audio D dpos dsize dnext derr fuel s index = Ok (Some (nth index audio azero), s') /\
                 dinv A audio D dpos s'.
Proof. exact (@decode_loop_ok). Qed.

(** Outside the contract: a decoder that returns empty packets for ever.  The loop never returns — the real decoder
    thread spins in [frame_at_index] without sleeping and without looking at the sound's state. *)
Theorem endless_empty_packets_hang_refuted :
  forall (A : Type) (audio : list A) (fuel : nat) (s : dsched A unit) (index : nat),
    decode_loop A audio unit (fun _ => 0%nat) (fun _ => 0%nat) (fun d => d) (fun _ => false) fuel s index = Hang.
Proof. exact endless_empty_packets_hang. Qed.

(** a non-negative rate is what both sounds advance by: [abs] and [max(0.0)] agree on it (also on -0.0) *)
Theorem nonneg_rate_same_step :
  forall (T : Type) (NT : Num T) (r : T), rate_nonneg r -> nmax0 r = nabs r.
Proof. exact (@nonneg_steps). Qed.

(** the rate hypothesis is decidable on concrete histories *)
Theorem rates_check_sound :
  forall (T : Type) (NT : Num T) (ND : NumDur T) (powf : T -> T -> T) (V P : Type)
         (evs : list (event T V P)) (rate : param T T),
    rates_okb powf V P rate evs = true -> rates_ok powf V P rate evs.
Proof. exact (@rates_okb_sound). Qed.

(** the handle's state mirror always shows the state manager's state (both sounds: it is shell code) *)
Theorem mirror_shows_state :
  forall (T : Type) (NT : Num T) (ND : NumDur T) (powf : T -> T -> T) (V : Type) (vinterp : V -> V -> T -> V)
         (identity : V) (P : Type) (pinterp : P -> P -> T -> P) (h : shell T V P) (dtl : T) (i : info T)
         (h' : shell T V P) (go : bool),
    mirror_ok V P h -> shell_update powf V vinterp identity P pinterp h dtl i = Ok (h', go) -> mirror_ok V P h'.
Proof. exact (@mirror_ok_update). Qed.

(** ** the hypotheses are satisfiable together: a sliced, looping sound started inside the slice, rate and volume
    tweens, a pause and a resume, a decoder whose every other packet is EMPTY, the others of 1, 2, 3 frames, whose
    seeks land on multiples of 4 *)
Theorem hypotheses_satisfiable :
  conforming fq audio8 dq dq_pos dq_size dq_next dq_seek dq_err 2 /\
  wf_config fq zq Q Q fuelq audio8 4 (Some (1, 7)) g1 7 2 /\ rates_nonneg powq Q Q g1 evs1 /\
  exists w ys, y_newq 4 (Some (1, 7)) g1 = Ok w /\ y_runq w evs1 = Ok (ys, false) /\
               (13 <= length ys)%nat.
Proof. exact (conj dq_conforming (conj wf1 (conj rates1 ahead1))). Qed.

(** ** each hypothesis is needed *)
(** the decoder does not keep ahead (three frames in the ring before a call that looks at four): outputs differ *)
Theorem starved_refuted :
  wf_config fq zq Q Q fuelq audio8 4 None g2 8 2 /\ rates_nonneg powq Q Q g2 evs2 /\
  exists x w xs ys,
    s_newq 4 (audio_source fq zq audio8) None g2 = Ok x /\ y_newq 4 None g2 = Ok w /\
    s_runq x evs2 = Ok xs /\ y_runq w evs2 = Ok (ys, true) /\
    ~ Forall2 (obs_rel fq 4) xs ys.
Proof. exact starved_witness. Qed.

(** REGRESSION, finding F46 (fixed): slices reaching beyond the audio, inverted slices, slices starting beyond the
    audio.  The streaming sound clips the slice to the audio like the static sound, so these satisfy the property (they
    are instances of the simulation theorem; the runs are computed: they complete with the decoder ahead). *)
Theorem slice_beyond_audio_regression :
  exists x w xs ys,
    s_newq 4 (audio_source fq zq audio8) (Some (5, 11)) g2 = Ok x /\ y_newq 4 (Some (5, 11)) g2 = Ok w /\
    s_runq x evs3 = Ok xs /\ y_runq w evs3 = Ok (ys, false) /\ Forall2 (obs_rel fq 4) xs ys.
Proof. exact slice_beyond_regression. Qed.
Theorem slice_beyond_audio_is_heard :
  exists x xs, s_newq 4 (audio_source fq zq audio8) (Some (5, 11)) g2 = Ok x /\ s_runq x evs3 = Ok xs /\
               nth 1 xs (OPos 0%Q 0 0 0%Q 0) = OOut [(6%Q, (-6)%Q); (129 # 16, -129 # 16)%Q; (0%Q, 0%Q); (0%Q, 0%Q)] 6 true.
Proof. exact slice_beyond_heard. Qed.
Theorem slice_inverted_regression :
  exists x w xs ys,
    s_newq 4 (audio_source fq zq audio8) (Some (6, 2)) g2 = Ok x /\ y_newq 4 (Some (6, 2)) g2 = Ok w /\
    s_runq x evs3 = Ok xs /\ y_runq w evs3 = Ok (ys, false) /\ Forall2 (obs_rel fq 4) xs ys.
Proof. exact ProofsExamples.slice_inverted_regression. Qed.
Theorem slice_start_beyond_audio_regression :
  exists x w xs ys,
    s_newq 4 (audio_source fq zq audio8) (Some (9, 20)) g2 = Ok x /\ y_newq 4 (Some (9, 20)) g2 = Ok w /\
    s_runq x evs3 = Ok xs /\ y_runq w evs3 = Ok (ys, false) /\ Forall2 (obs_rel fq 4) xs ys.
Proof. exact slice_start_beyond_regression. Qed.
(** why the old code failed: with [num_frames = end - start] (6 for the slice (5, 11) of 8 frames) the scheduler asks
    the decoder for frame 5 + 3 = 8, which does not exist; the decoder fails and the whole sound is stopped *)
Theorem old_slice_length_decodes_past_the_end_refuted :
  q_frame_at_index fq zq fuelq audio8 dq dq_pos dq_size dq_next dq_seek dq_err
    {| q_status := Running; q_dec := {| ds_dec := dq0; ds_cur := 0; ds_chunk := None |};
       q_slice := Some (5, 11); q_n := 11 - 5; q_tr := transport_new 0 None false (11 - 5) |} 3
  = Ok (None, {| ds_dec := (8%nat, 12%nat); ds_cur := 8; ds_chunk := Some (7%nat, [(8%Q, (-8)%Q)]) |}).
Proof. exact old_slice_length_decodes_past_the_end. Qed.

(** a negative rate: the static sound plays backwards, the streaming sound stands still *)
Theorem negative_rate_refuted :
  wf_config fq zq Q Q fuelq audio8 4 None g4 8 2 /\ ~ rates_nonneg powq Q Q g4 evs4 /\
  exists x w xs ys,
    s_newq 4 (audio_source fq zq audio8) None g4 = Ok x /\ y_newq 4 None g4 = Ok w /\
    s_runq x evs4 = Ok xs /\ y_runq w evs4 = Ok (ys, false) /\
    ~ Forall2 (obs_rel fq 4) xs ys.
Proof. exact negative_rate_witness. Qed.

(** REGRESSION, finding F47 (fixed), binary64 / binary32: an initial rate of -0.0 followed by
    [set_playback_rate(1.0)].  -0.0 is inside the rate hypothesis; the static sound's direction test is
    [rate < 0.0], and the encoded traces of the two models (left and right of the 777777 mark in [Run.run]) agree. *)
Theorem negative_zero_rate_regression :
  let r := f64_of_bits nz64 in
  rate_nonneg r /\
  exists l, run negzero_case = l ++ 777777 :: l /\ ~ In 777777 l /\
            l = [4602678819172646912; 0; 0; 4602678819172646912; 0; 1077936128; 0; 1079955608; 0; 1082130432; 0; 0; 0].
Proof. exact negative_zero_regression. Qed.
(** why the old code failed: the sign-bit test ([is_sign_negative]) calls -0.0 "backwards", the comparison does not;
    [abs] and the model's [max(0.0)] both turn it into +0.0 *)
Theorem old_direction_test_reads_the_sign_bit_refuted :
  let r := f64_of_bits nz64 in nsignneg r = true /\ nltb r n0 = false /\ nabs r = f64_of_bits 0 /\ nmax0 r = nabs r.
Proof. exact old_direction_test_reads_the_sign_bit. Qed.

(** The position reported at the start of a callback, in EVERY state of the streaming sound (whatever was pushed and
    popped before — so wherever in its 16384 physical slots the ring's read position stands): if the ring holds two
    entries, [on_start_processing] publishes [(index of the SECOND entry + fraction) / sample rate], makes that index
    the current frame and leaves the ring alone ... *)
Theorem on_start_position_from_second_entry :
  forall (T : Type) (NT : Num T) (A V P : Type) (silence identity : V)
         (z : stream_sound T A V P) (c : cmds T V P) (e0 : A * Z) (a : A) (i : Z) (rest : list (A * Z)),
    y_ring (z_core z) = e0 :: (a, i) :: rest ->
    let y := z_core z in
    let pos := ndiv (nadd (nofZ i) (y_fpos y)) (nofZ (y_sr y)) in
    exists st,
      snd (stream_on_start A V silence identity P z c)
        = OPos pos st i (y_fpos y) (Z.of_nat (length (y_ring y))) /\
      y_cur (z_core (fst (stream_on_start A V silence identity P z c))) = i /\
      y_pos (z_core (fst (stream_on_start A V silence identity P z c))) = pos /\
      y_ring (z_core (fst (stream_on_start A V silence identity P z c))) = y_ring y.
Proof. exact (@ProofsPosition.on_start_position_from_second_entry). Qed.
(** ... and the frame index of an earlier callback is reported again only when the ring holds fewer than two entries
    (the decoder has not kept ahead, or the data has ended). *)
Theorem on_start_position_kept_only_when_ring_short :
  forall (T : Type) (NT : Num T) (A V P : Type) (silence identity : V)
         (z : stream_sound T A V P) (c : cmds T V P),
    (length (y_ring (z_core z)) < 2)%nat ->
    let y := z_core z in
    y_cur (z_core (fst (stream_on_start A V silence identity P z c))) = y_cur y /\
    y_pos (z_core (fst (stream_on_start A V silence identity P z c)))
      = ndiv (nadd (nofZ (y_cur y)) (y_fpos y)) (nofZ (y_sr y)).
Proof. exact (@ProofsPosition.on_start_position_kept_only_when_ring_short). Qed.
