(** C09 — property theorems (statements closed by [exact]). *)
From Coq Require Import ZArith List Bool.
From KV Require Import Base.Outcome Base.Num C04.StaticSound C09.Model.
Import ListNotations.
Local Open Scope Z_scope.

(** a non-negative rate (sign bit clear, not NaN, not below zero) is what both sounds advance by: the static
    sound's [abs] and the streaming sound's [max(0.0)] leave it alone *)
Theorem nonneg_rate_same_step :
  forall (T : Type) (NT : Num T) (r : T),
    nsignneg r = false -> nisnan r = false -> nltb r n0 = false -> nabs r = r /\ nmax0 r = r.
Proof.
  intros T NT r H1 H2 H3. unfold nabs, nmax0. rewrite H1, H2, H3. split; reflexivity.
Qed.
