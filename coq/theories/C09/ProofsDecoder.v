(** C09 — the [Decoder] contract with EMPTY packets allowed, and what the scheduler's decode loop makes of it.

    A decoder conforms if it does not fail before the end of the audio, advances by exactly what it returned, lands
    at or before the index sought, and returns fewer than [E] empty packets in a row (a decoder that returns empty
    packets for ever makes the real loop — [loop { decode()?; ... }] without a sleep or a Stopped test — spin for
    ever on the decoder thread: that is outside the contract, see [endless_empty_packets_hang]).
    For every conforming decoder the loop finds frame [index] of the audio within [(index - position) * E + E]
    iterations.  (C18's contract — packets of at least one frame — is the instance [E = 1].) *)
From Coq Require Import ZArith List Bool Lia Arith.
From KV Require Import Base.Outcome.
From KV Require C18.ProofsSched.
From KV Require Import C09.Model.
Import ListNotations.

Module S18 := KV.C18.ProofsSched.

Section Decoder.
  Variable A : Type.
  Variable azero : A.
  Variable audio : list A.
  Variable D : Type.
  Variable dpos : D -> nat.
  Variable dsize : D -> nat.
  Variable dnext : D -> D.
  Variable dseek : D -> nat -> D.
  Variable derr : D -> bool.

  Definition conforming (E : nat) : Prop :=
    (forall d, dpos d < length audio -> derr d = false) /\
    (forall d, derr d = false -> dpos (dnext d) = dpos d + Nat.min (dsize d) (length audio - dpos d)) /\
    (forall d i, dpos (dseek d i) <= i) /\
    (exists idle : D -> nat,
        forall d, idle d < E /\ (dpos d < length audio -> dsize d = 0 -> idle (dnext d) < idle d)).

  Definition chunk_ok (c : option (nat * list A)) : Prop :=
    match c with
    | None => True
    | Some (st, frs) => forall k x, nth_error frs k = Some x -> nth_error audio (st + k) = Some x
    end.
  (** the scheduler's bookkeeping is right: its index is the decoder's position, its cached chunk is audio *)
  Definition dinv (s : dsched A D) : Prop := ds_cur s = dpos (ds_dec s) /\ chunk_ok (ds_chunk s).

  Lemma chunk_frame_sound : forall c i x, chunk_ok c -> chunk_frame c i = Some x -> nth_error audio i = Some x.
  Proof.
    intros [[st frs]|] i x Hc H; unfold chunk_frame in H; [|discriminate].
    destruct (i <? st) eqn:E; [discriminate|]. apply Nat.ltb_ge in E.
    apply Hc in H. now replace (st + (i - st)) with i in H by lia.
  Qed.

  Notation decode_loop := (decode_loop A audio D dpos dsize dnext derr).

  Lemma decode_loop_ok : forall E (idle : D -> nat),
    (forall d, dpos d < length audio -> derr d = false) ->
    (forall d, derr d = false -> dpos (dnext d) = dpos d + Nat.min (dsize d) (length audio - dpos d)) ->
    (forall d, idle d < E /\ (dpos d < length audio -> dsize d = 0 -> idle (dnext d) < idle d)) ->
    forall fuel (s : dsched A D) index,
      dinv s -> dpos (ds_dec s) <= index < length audio ->
      (index - dpos (ds_dec s)) * E + idle (ds_dec s) < fuel ->
      exists s', decode_loop fuel s index = Ok (Some (nth index audio azero), s') /\ dinv s'.
  Proof.
    intros E idle Herr Hnext Hidle.
    induction fuel as [|fuel IH]; intros s index [Hcur Hc] [Hlo Hhi] Hf; [exfalso; exact (Nat.nlt_0_r _ Hf)|].
    cbn [Model.decode_loop]. unfold dec_decode. set (d := ds_dec s) in *.
    rewrite (Herr d) by lia.
    set (p := firstn (dsize d) (skipn (dpos d) audio)).
    assert (Hlen : length p = Nat.min (dsize d) (length audio - dpos d)).
    { unfold p. rewrite firstn_length, skipn_length. reflexivity. }
    assert (Hp : forall k x, nth_error p k = Some x -> nth_error audio (ds_cur s + k) = Some x).
    { intros k x H. unfold p in H. apply S18.nth_error_firstn_some in H.
      rewrite S18.nth_error_skipn in H. now rewrite Hcur. }
    set (s' := {| ds_dec := dnext d; ds_cur := ds_cur s + length p; ds_chunk := Some (ds_cur s, p) |}).
    assert (Hinv' : dinv s').
    { split; [|exact Hp]. cbn [s' ds_cur ds_dec]. rewrite (Hnext d) by (apply Herr; lia). rewrite Hcur, Hlen. reflexivity. }
    destruct (chunk_frame (ds_chunk s') index) as [fr|] eqn:Ec.
    - exists s'. split; [|exact Hinv']. f_equal. f_equal. f_equal.
      apply (chunk_frame_sound _ _ _ (proj2 Hinv')) in Ec. symmetry. now apply nth_error_nth.
    - cbn [s' ds_chunk chunk_frame] in Ec.
      replace (index <? ds_cur s) with false in Ec by (symmetry; apply Nat.ltb_ge; lia).
      apply nth_error_None in Ec.
      assert (Hpos' : dpos (ds_dec s') = dpos d + length p).
      { cbn [s' ds_dec]. rewrite (Hnext d) by (apply Herr; lia). now rewrite Hlen. }
      assert (Hle : dpos d + length p <= index) by (clear Hf; lia).
      apply IH; [exact Hinv' | rewrite Hpos'; clear Hf; lia |]. rewrite Hpos'.
      destruct (Hidle d) as [HdE Hdec]. destruct (Hidle (dnext d)) as [HnE _]. cbn [s' ds_dec].
      destruct (Nat.eq_dec (dsize d) 0) as [Hz|Hnz].
      + assert (H0 : length p = 0) by (rewrite Hlen, Hz; reflexivity).
        specialize (Hdec ltac:(clear Hf; lia) Hz). rewrite H0, Nat.add_0_r.
        set (X := (index - dpos d) * E) in *. clearbody X. lia.
      + assert (HL : 1 <= length p) by (rewrite Hlen; clear Hf; lia).
        assert (Hm : (index - (dpos d + length p)) * E + E <= (index - dpos d) * E).
        { replace (index - dpos d) with (S (index - (dpos d + length p)) + (length p - 1)) by (clear Hf; lia).
          rewrite Nat.mul_add_distr_r. cbn [Nat.mul].
          set (X := (index - (dpos d + length p)) * E). set (Y := (length p - 1) * E). clearbody X Y. lia. }
        set (X := (index - dpos d) * E) in *. set (Y := (index - (dpos d + length p)) * E) in *. clearbody X Y. lia.
  Qed.
End Decoder.

(** ** a decoder outside the contract: empty packets for ever.  The loop never returns (here: runs out of any fuel);
    the real decoder thread spins without sleeping and without looking at the sound's state. *)
Lemma endless_empty_packets_hang : forall (A : Type) (audio : list A) (fuel : nat) (s : dsched A unit) (index : nat),
  decode_loop A audio unit (fun _ => 0) (fun _ => 0) (fun d => d) (fun _ => false) fuel s index = Hang.
Proof.
  intros A audio. induction fuel as [|fuel IH]; intros s index; [reflexivity|].
  cbn [decode_loop]. unfold dec_decode. cbn [firstn length].
  unfold chunk_frame. cbn [ds_chunk]. destruct (index <? ds_cur s); [apply IH|].
  destruct (index - ds_cur s); cbn [nth_error]; apply IH.
Qed.
