(** C09 — the hypotheses of the simulation theorem are satisfiable (a looping, sliced sound with a rate tween, a
    volume tween, a pause and a resume, over a decoder with uneven packets and coarse seeks), and each of them is
    needed: witnesses, by computation, in which one hypothesis fails and the two sounds differ. *)
From Coq Require Import ZArith QArith List Bool Lia.
From KV Require Import Base.IEEE Base.Outcome Base.Num C19.Model C06.Model C06.Dur C06.Run.
From KV Require Import C04.Model C04.ProofsTransport.
From KV Require C04.Run.
From KV Require Import C09.Model C09.ProofsDecoder C09.ProofsTape C09.ProofsMain C09.ProofsLead C09.Run.
Import ListNotations.
Local Open Scope Z_scope.

(** ** an exact instance: rational time, rational frames *)
Definition fq : Type := @frame Q.
Definition zq : fq := (0%Q, 0%Q).
Definition interpq : fq -> fq -> fq -> fq -> Q -> fq := @interpolate_frame Q SOps_Q.
Definition scaleq : fq -> Q -> fq := @frame_scale Q SOps_Q.
Definition ampq (db : Q) : Q := if Qeq_bool db 0 then 1%Q else if Qle_bool db (-60) then 0%Q else Qred ((db + 60) / 60).
Definition pannedq (a : fq) (p : Q) : fq := (Qred (fst a * (1 - p)), Qred (snd a * (1 + p))).
Definition powq (x y : Q) : Q := 0%Q.
Definition lerpq : Q -> Q -> Q -> Q := @lerp Q _.
Definition fuelq : nat := 200%nat.
Definition capq : Z := 16384.

Definition s_newq := static_new (T:=Q) fq zq Q (-60)%Q 0%Q Q 0%Q fuelq.
Definition s_runq := run_static (T:=Q) powq fq zq Q interpq (fun x => x) scaleq Q lerpq (-60)%Q 0%Q ampq Q lerpq pannedq fuelq.

Definition audio8 : list fq := map (fun k => (inject_Z k, inject_Z (- k))) [1; 2; 3; 4; 5; 6; 7; 8].
Definition lin (d : Z) : tween Q := {| tw_start := Immediate; tw_dur := d; tw_easing := Linear |}.
Definition nc : cmds Q Q Q := no_cmds.
(** the example decoder: state = (position, number of calls so far); every other packet is EMPTY, the others hold
    1, 2 or 3 frames (clipped at the end of the eight frames); seeks land on multiples of four *)
Definition dq : Type := (nat * nat)%type.
Definition dq_pos (d : dq) : nat := fst d.
Definition dq_size (d : dq) : nat := if Nat.even (snd d) then 0%nat else S (fst d mod 3).
Definition dq_next (d : dq) : dq := ((fst d + Nat.min (dq_size d) (8 - fst d))%nat, S (snd d)).
Definition dq_seek (d : dq) (i : nat) : dq := ((i - i mod 4)%nat, S (snd d)).
Definition dq_err (d : dq) : bool := (8 <=? fst d)%nat.
Definition dq0 : dq := (0%nat, 0%nat).
Definition y_newq := stream_new (T:=Q) fq zq Q (-60)%Q 0%Q Q 0%Q audio8 dq dq_pos dq_seek dq0.
Definition y_runq := run_stream (T:=Q) powq fq zq Q interpq (fun x => x) scaleq Q lerpq (-60)%Q 0%Q ampq Q lerpq pannedq fuelq
                                audio8 dq dq_pos dq_size dq_next dq_seek dq_err capq.
Lemma dq_conforming : conforming fq audio8 dq dq_pos dq_size dq_next dq_seek dq_err 2.
Proof.
  change (length audio8) with 8%nat. split; [|split; [|split]].
  - intros d H. unfold dq_err, dq_pos in *. apply Nat.leb_gt. exact H.
  - intros d _. reflexivity.
  - intros d i. unfold dq_pos, dq_seek. cbn [fst]. pose proof (Nat.mod_upper_bound i 4). lia.
  - exists (fun d => if Nat.even (snd d) then 1%nat else 0%nat). intros d. split.
    + destruct (Nat.even (snd d)); lia.
    + intros _ Hs. unfold dq_size in Hs. unfold dq_next. cbn [snd]. rewrite Nat.even_succ.
      destruct (Nat.even (snd d)) eqn:Ev; [|discriminate].
      rewrite <- Nat.negb_even, Ev. cbn. lia.
Qed.
Definition dec (k : nat) : list (event Q Q Q) := repeat EvDecode k.
Definition proc (len : Z) : event Q Q Q := EvProcess len (1#4)%Q no_info.

(** decidable version of [obs_rel] for this instance (sound: related observations pass it) *)
Definition fq_eqb (a b : fq) : bool := Qeq_bool (fst a) (fst b) && Qeq_bool (snd a) (snd b).
Fixpoint fql_eqb (a b : list fq) : bool :=
  match a, b with
  | [], [] => true
  | x :: a', y :: b' => fq_eqb x y && fql_eqb a' b'
  | _, _ => false
  end.
Definition obs_relb (sr : Z) (x y : obs Q fq) : bool :=
  match x, y with
  | OOut f1 s1 e1, OOut f2 s2 e2 => fql_eqb f1 f2 && (s1 =? s2) && Bool.eqb e1 e2
  | OPos px st idx fp _, OPos py st' cur fp' avail =>
      (st =? st') && Qeq_bool fp fp' && Qeq_bool px (ndiv (nofZ idx) (nofZ sr)) && Qeq_bool py (ndiv (nadd (nofZ cur) fp) (nofZ sr))
      && ((avail <? 2) || (cur =? idx))
  | _, _ => false
  end.
Fixpoint all2 {X} (f : X -> X -> bool) (a b : list X) : bool :=
  match a, b with
  | [], [] => true
  | x :: a', y :: b' => f x y && all2 f a' b'
  | _, _ => false
  end.
Lemma Qeq_bool_refl' : forall q, Qeq_bool q q = true.
Proof. intros q. apply Qeq_bool_iff. reflexivity. Qed.
Lemma fql_eqb_refl : forall l, fql_eqb l l = true.
Proof. induction l as [|[a b] l IH]; [reflexivity|]. cbn. unfold fq_eqb. cbn. now rewrite !Qeq_bool_refl', IH. Qed.
Lemma obs_relb_complete : forall sr x y, obs_rel fq sr x y -> obs_relb sr x y = true.
Proof.
  intros sr x y H. destruct H as [frames st fin | px py st idx cur fp avail Hx Hy Hc].
  - cbn. rewrite fql_eqb_refl, Z.eqb_refl, Bool.eqb_reflx. reflexivity.
  - cbn [obs_relb]. subst px py. rewrite Z.eqb_refl, !Qeq_bool_refl'. cbn [andb].
    destruct (Z.ltb_spec avail 2); [reflexivity|]. rewrite (Hc ltac:(lia)), Z.eqb_refl. reflexivity.
Qed.
Lemma all2_complete : forall sr xs ys, Forall2 (obs_rel fq sr) xs ys -> all2 (obs_relb sr) xs ys = true.
Proof.
  intros sr xs ys H. induction H as [|x y xs ys Hxy _ IH]; [reflexivity|].
  cbn [all2]. now rewrite (obs_relb_complete _ _ _ Hxy), IH.
Qed.

(** ** the hypotheses together, on a non-trivial history *)
Definition g1 : settings Q Q Q :=
  {| g_start_time := Immediate; g_start_pos := Samples 1;
     g_loop := Some {| rg_start := Samples 2; rg_end := Custom (Samples 5) |};
     g_volume := Fixed (-6)%Q; g_rate := Fixed (3#2)%Q; g_pan := Fixed (1#4)%Q; g_fade_in := None |}.
Definition evs1 : list (event Q Q Q) :=
  dec 9 ++ [EvStart nc; proc 3] ++ dec 8 ++
  [EvStart {| k_vol := Some (Fixed (-12)%Q, lin 500000000); k_rate := Some (Fixed (1#2)%Q, lin 1000000000); k_pan := None;
              k_pause := None; k_resume := None; k_stop := None |}; proc 4; proc 2] ++ dec 8 ++
  [EvStart {| k_vol := None; k_rate := None; k_pan := None; k_pause := Some (lin 250000000); k_resume := None; k_stop := None |};
   proc 2; EvStart nc; proc 2] ++ dec 3 ++
  [EvStart {| k_vol := None; k_rate := None; k_pan := None; k_pause := None; k_resume := Some (Immediate, lin 0); k_stop := None |};
   proc 3; EvStart nc; proc 1].

Lemma wf1 : wf_config fq zq Q Q fuelq audio8 4 (Some (1, 7)) g1 7 2.
Proof. unfold wf_config. cbn. unfold slice_wf, req_loop, u64_max. cbn. repeat split; try lia; try discriminate. unfold need_fuel, fuelq; cbn; lia. Qed.
Lemma rates1 : rates_nonneg powq Q Q g1 evs1.
Proof. split; [reflexivity|]. apply rates_okb_sound. vm_compute. reflexivity. Qed.
Lemma ahead1 : exists w ys, y_newq 4 (Some (1, 7)) g1 = Ok w /\ y_runq w evs1 = Ok (ys, false) /\
                            (13 <= length ys)%nat.
Proof. eexists _, _. split; [vm_compute; reflexivity|]. split; [vm_compute; reflexivity|]. cbn. lia. Qed.

(** ** without "the decoder keeps ahead": three frames in the ring before a call that looks at four *)
Definition g2 : settings Q Q Q :=
  {| g_start_time := Immediate; g_start_pos := Samples 0; g_loop := None;
     g_volume := Fixed 0%Q; g_rate := Fixed (3#2)%Q; g_pan := Fixed 0%Q; g_fade_in := None |}.
Definition evs2 := dec 4 ++ [EvStart nc; proc 4].
Lemma wf2 : wf_config fq zq Q Q fuelq audio8 4 None g2 8 2.
Proof. unfold wf_config. cbn. unfold u64_max. cbn. repeat split; try lia; try discriminate. unfold need_fuel, fuelq; cbn; lia. Qed.
Lemma starved_witness :
  wf_config fq zq Q Q fuelq audio8 4 None g2 8 2 /\ rates_nonneg powq Q Q g2 evs2 /\
  exists x w xs ys,
    s_newq 4 (audio_source fq zq audio8) None g2 = Ok x /\ y_newq 4 None g2 = Ok w /\
    s_runq x evs2 = Ok xs /\ y_runq w evs2 = Ok (ys, true) /\
    ~ Forall2 (obs_rel fq 4) xs ys.
Proof.
  split; [exact wf2|]. split; [split; [reflexivity | apply rates_okb_sound; vm_compute; reflexivity]|].
  eexists _, _, _, _. split; [vm_compute; reflexivity|]. split; [vm_compute; reflexivity|].
  split; [vm_compute; reflexivity|]. split; [vm_compute; reflexivity|].
  intros H. apply all2_complete in H. vm_compute in H. discriminate.
Qed.

(** ** REGRESSION (F46, fixed): slices reaching beyond the audio, inverted, empty.  Both sounds clip the slice to the
    audio, so these are ordinary instances of the simulation theorem now; the runs are computed to show that they
    complete with the decoder ahead and that something is heard. *)
Definition evs3 := dec 12 ++ [EvStart nc; proc 4; EvStart nc; proc 4].
Ltac regression wf :=
  let x0 := fresh "x0" in let w0 := fresh "w0" in let Hx := fresh "Hx" in let Hw := fresh "Hw" in
  let Hsim := fresh "Hsim" in let Hrun := fresh "Hrun" in let Hr := fresh "Hr" in
  assert (Hr : rates_nonneg powq Q Q g2 evs3) by (split; [reflexivity | apply rates_okb_sound; vm_compute; reflexivity]);
  destruct (simulation powq fq zq Q interpq (fun x => x) scaleq Q lerpq (-60)%Q 0%Q ampq Q lerpq 0%Q pannedq fuelq
                       audio8 capq 4 _ g2 8 2 wf dq dq_pos dq_size dq_next dq_seek dq_err dq0 dq_conforming evs3
                       Hr)
    as (x0 & w0 & Hx & Hw & _ & _ & Hsim);
  vm_compute in Hw; injection Hw as <-;
  lazymatch type of (Hsim []) with ?L = _ -> _ => eassert (Hrun : L = Ok (_, false)) by (vm_compute; reflexivity) end;
  destruct (Hsim _ Hrun) as (xs & Hxs & Hrel);
  eexists _, _, xs, _; split; [exact Hx|]; split; [vm_compute; reflexivity|];
  split; [exact Hxs|]; split; [exact Hrun | exact Hrel].

Lemma wf_any_slice : forall sl, match sl with Some (a, _) => 0 <= a | None => True end ->
  num_frames (audio_source fq zq audio8) sl <= 8 -> wf_config fq zq Q Q fuelq audio8 4 sl g2 8 2.
Proof.
  intros sl H0 Hn. unfold wf_config. cbn [g2 g_start_pos g_loop into_samples option_map req_loop].
  change (length audio8) with 8%nat. unfold slice_wf, u64_max, need_fuel, fuelq. cbn.
  repeat split; try lia; try exact H0; try exact Hn.
Qed.

Lemma slice_beyond_regression :
  exists x w xs ys,
    s_newq 4 (audio_source fq zq audio8) (Some (5, 11)) g2 = Ok x /\ y_newq 4 (Some (5, 11)) g2 = Ok w /\
    s_runq x evs3 = Ok xs /\ y_runq w evs3 = Ok (ys, false) /\ Forall2 (obs_rel fq 4) xs ys.
Proof. regression (wf_any_slice (Some (5, 11)) ltac:(cbn; lia) ltac:(vm_compute; discriminate)). Qed.

Lemma slice_inverted_regression :
  exists x w xs ys,
    s_newq 4 (audio_source fq zq audio8) (Some (6, 2)) g2 = Ok x /\ y_newq 4 (Some (6, 2)) g2 = Ok w /\
    s_runq x evs3 = Ok xs /\ y_runq w evs3 = Ok (ys, false) /\ Forall2 (obs_rel fq 4) xs ys.
Proof. regression (wf_any_slice (Some (6, 2)) ltac:(cbn; lia) ltac:(vm_compute; discriminate)). Qed.

Lemma slice_start_beyond_regression :
  exists x w xs ys,
    s_newq 4 (audio_source fq zq audio8) (Some (9, 20)) g2 = Ok x /\ y_newq 4 (Some (9, 20)) g2 = Ok w /\
    s_runq x evs3 = Ok xs /\ y_runq w evs3 = Ok (ys, false) /\ Forall2 (obs_rel fq 4) xs ys.
Proof. regression (wf_any_slice (Some (9, 20)) ltac:(cbn; lia) ltac:(vm_compute; discriminate)). Qed.

(** what is heard through the slice (5, 11): frames 6, 7, 8 of the audio at rate 1.5 *)
Lemma slice_beyond_heard :
  exists x xs, s_newq 4 (audio_source fq zq audio8) (Some (5, 11)) g2 = Ok x /\ s_runq x evs3 = Ok xs /\
               nth 1 xs (OPos 0%Q 0 0 0%Q 0) = OOut [(6%Q, (-6)%Q); (129 # 16, -129 # 16)%Q; (0%Q, 0%Q); (0%Q, 0%Q)] 6 true.
Proof. eexists _, _. split; [vm_compute; reflexivity|]. split; [vm_compute; reflexivity|]. vm_compute. reflexivity. Qed.

(** the counter-model of the OLD behaviour ([num_frames = end - start] = 6 for the slice (5, 11) of 8 frames): the
    scheduler asks the decoder for frame 5 + 3 = 8, which does not exist — the decoder fails, and the sound with it *)
Lemma old_slice_length_decodes_past_the_end :
  q_frame_at_index fq zq fuelq audio8 dq dq_pos dq_size dq_next dq_seek dq_err
    {| q_status := Running; q_dec := {| ds_dec := dq0; ds_cur := 0; ds_chunk := None |};
       q_slice := Some (5, 11); q_n := 11 - 5; q_tr := transport_new 0 None false (11 - 5) |} 3
  = Ok (None, {| ds_dec := (8%nat, 12%nat); ds_cur := 8; ds_chunk := Some (7%nat, [(8%Q, (-8)%Q)]) |}).
Proof. vm_compute. reflexivity. Qed.

(** ** a negative rate: the static sound plays backwards, the streaming sound stands still *)
Definition g4 : settings Q Q Q :=
  {| g_start_time := Immediate; g_start_pos := Samples 4; g_loop := None;
     g_volume := Fixed 0%Q; g_rate := Fixed (-1)%Q; g_pan := Fixed 0%Q; g_fade_in := None |}.
Definition evs4 := dec 12 ++ [EvStart nc; proc 4].
Lemma negative_rate_witness :
  wf_config fq zq Q Q fuelq audio8 4 None g4 8 2 /\ ~ rates_nonneg powq Q Q g4 evs4 /\
  exists x w xs ys,
    s_newq 4 (audio_source fq zq audio8) None g4 = Ok x /\ y_newq 4 None g4 = Ok w /\
    s_runq x evs4 = Ok xs /\ y_runq w evs4 = Ok (ys, false) /\
    ~ Forall2 (obs_rel fq 4) xs ys.
Proof.
  split; [unfold wf_config; cbn; unfold u64_max; cbn; repeat split; try lia; try discriminate; unfold need_fuel, fuelq; cbn; lia|].
  split; [intros [H _]; vm_compute in H; discriminate|].
  eexists _, _, _, _. split; [vm_compute; reflexivity|]. split; [vm_compute; reflexivity|].
  split; [vm_compute; reflexivity|]. split; [vm_compute; reflexivity|].
  intros H. apply all2_complete in H. vm_compute in H. discriminate.
Qed.

(** ** REGRESSION (F47, fixed), binary64 / binary32: an initial rate of -0.0 followed by [set_playback_rate(1.0)].
    -0.0 is not NaN and not below zero, so it is inside the rate hypothesis now; the static sound's direction test is
    [rate < 0.0], its pre-fill goes forwards, and the two encoded traces (left and right of the 777777 mark) agree. *)
Definition nz64 : Z := 9223372036854775808.        (* -0.0 *)
Definition one64 : Z := 4607182418800017408.       (* 1.0 *)
Definition quarter64 : Z := 4598175219545276416.   (* 0.25 *)
Definition negzero_case : case :=
  CPair false 4 [(1065353216, 0); (1073741824, 0); (1077936128, 0); (1082130432, 0); (1084227584, 0); (1086324736, 0)]
        None (R4.PSmp 2) None SImm (TFixed 0) (TFixed nz64) (TFixed 0) None [2; 3; 1] 1
        [RDec 8;
         RStart {| r_vol := None; r_rate := Some (TFixed one64, (SImm, 0, 0, 0)); r_pan := None;
                   r_pause := None; r_resume := None; r_stop := None |};
         RProc 3 quarter64 [] []] [].
Lemma negative_zero_regression :
  let r := f64_of_bits nz64 in
  rate_nonneg r /\
  exists l, run negzero_case = l ++ 777777 :: l /\ ~ In 777777 l /\
            l = [4602678819172646912; 0; 0; 4602678819172646912; 0; 1077936128; 0; 1079955608; 0; 1082130432; 0; 0; 0].
Proof.
  cbv zeta. split; [split; vm_compute; reflexivity|].
  exists [4602678819172646912; 0; 0; 4602678819172646912; 0; 1077936128; 0; 1079955608; 0; 1082130432; 0; 0; 0].
  split; [vm_compute; reflexivity|]. split; [|reflexivity].
  cbn [In]. intros H. repeat (destruct H as [H|H]; [discriminate H|]). exact H.
Qed.
(** the counter-model of the OLD behaviour: the sign-bit test calls -0.0 "backwards", the comparison does not *)
Lemma old_direction_test_reads_the_sign_bit :
  let r := f64_of_bits nz64 in nsignneg r = true /\ nltb r n0 = false /\ nabs r = f64_of_bits 0 /\ nmax0 r = nabs r.
Proof. cbv zeta. repeat split; vm_compute; reflexivity. Qed.
