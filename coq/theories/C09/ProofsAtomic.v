(** C09 — why a [process] call may be modelled as atomic with respect to the decoder thread: frames the decoder
    pushes while the call runs land behind everything the call looks at.  If a call was not starved and the decoder
    had not finished, it produces the same output and leaves the same state with ANY further entries appended to the
    ring (they are simply still there afterwards). *)
From Coq Require Import ZArith List Bool Lia.
From KV Require Import Base.Outcome Base.Num C19.Model C06.Model.
From KV Require C03.Model.
From KV Require Import C09.Model C09.ProofsLead.
Import ListNotations.
Local Open Scope Z_scope.

Section Atomic.
  Context {T : Type} {NT : Num T} {ND : NumDur T}.
  Variable powf : T -> T -> T.
  Variable A : Type.
  Variable azero : A.
  Variable F : Type.
  Variable interp : A -> A -> A -> A -> F -> A.
  Variable cast : T -> F.
  Variable ascale : A -> F -> A.
  Variable V : Type.
  Variable vinterp : V -> V -> T -> V.
  Variables identity : V.
  Variable amp : V -> F.
  Variable P : Type.
  Variable pinterp : P -> P -> T -> P.
  Variable panned : A -> P -> A.
  Variable fuel : nat.

  Definition more (y : ycore T A) (extra : list (A * Z)) : ycore T A := y_with_ring A y (y_ring y ++ extra).

  Lemma y_carry_more : forall fl (y : ycore T A) pops y' pops' extra,
    y_carry A fl y pops = Ok (y', pops') ->
    (Z.to_nat (pops' - pops) <= length (y_ring y))%nat ->
    y_carry A fl (more y extra) pops = Ok (more y' extra, pops').
  Proof.
    induction fl as [|fl IH]; intros y pops y' pops' extra H Hle; [discriminate|].
    cbn [y_carry] in *. change (y_fpos (more y extra)) with (y_fpos y).
    destruct (nleb n1 (y_fpos y)).
    - pose proof (y_carry_shape A _ _ _ _ _ H) as (k & Hp & _ & _).
      assert (Hk : (S k <= length (y_ring y))%nat) by lia.
      destruct y as [ysr ring yre yerr ycur yfp ypos yend]. cbn [y_ring y_fpos y_with_ring y_with_fpos more] in *.
      destruct ring as [|e r]; [cbn in Hk; lia|]. cbn [tl app length] in *.
      exact (IH {| y_sr := ysr; y_ring := r; y_reached_end := yre; y_err := yerr; y_cur := ycur;
                   y_fpos := nsub yfp n1; y_pos := ypos; y_ended := yend |} (pops + 1) y' pops' extra H ltac:(cbn [y_ring]; lia)).
    - inversion H; subst. reflexivity.
  Qed.

  Lemma next_frame_more : forall (r extra : list (A * Z)) k, (k < length r)%nat ->
    next_frame A azero (r ++ extra) k = next_frame A azero r k.
  Proof.
    intros r extra k Hk. unfold next_frame. rewrite map_app. apply app_nth1. now rewrite map_length.
  Qed.

  Lemma y_frame_step_more : forall (y : ycore T A) inc y2 out extra,
    y_reached_end y = false ->
    y_frame_step A azero F interp cast fuel y inc = Ok (y2, out, false) ->
    y_frame_step A azero F interp cast fuel (more y extra) inc = Ok (more y2 extra, out, false).
  Proof.
    intros y inc y2 out extra Hfin H. unfold y_frame_step in *.
    destruct (y_carry A fuel (y_with_fpos A y (nadd (y_fpos y) inc)) 0) as [[y1 pops]| |] eqn:Ec; cbn [obind] in H; try discriminate.
    pose proof (y_carry_shape A _ _ _ _ _ Ec) as (k & Hp & Hr & He). rewrite Z.add_0_l in Hp.
    cbn [y_with_fpos y_ring y_reached_end] in Hr, He.
    injection H as Hy2 Hout Hst. rewrite Hfin in Hst. cbn [negb andb] in Hst. apply Z.ltb_ge in Hst. subst pops.
    assert (H4 : (4 <= length (y_ring y))%nat) by lia.
    assert (Hk : (k <= length (y_ring y))%nat) by lia.
    change (y_with_fpos A (more y extra) (nadd (y_fpos (more y extra)) inc))
      with (more (y_with_fpos A y (nadd (y_fpos y) inc)) extra).
    rewrite (y_carry_more fuel _ 0 y1 (Z.of_nat k) extra Ec) by (cbn [y_with_fpos y_ring]; lia).
    cbn [obind]. change (y_ring (more y extra)) with (y_ring y ++ extra).
    change (y_fpos (more y extra)) with (y_fpos y). change (y_reached_end (more y extra)) with (y_reached_end y).
    rewrite !next_frame_more by lia. rewrite Hout.
    change (y_reached_end (more y1 extra)) with (y_reached_end y1). rewrite He, Hfin in *. cbn [andb] in *.
    subst y2. rewrite app_length. cbn [negb andb].
    destruct (Z.ltb_spec (Z.of_nat (length (y_ring y) + length extra)) (Z.max 4 (Z.of_nat k))); [lia | reflexivity].
  Qed.

  Lemma y_frames_loop_more : forall k i num dt rate (y y' : ycore T A) raws extra,
    y_reached_end y = false ->
    y_frames_loop A azero F interp cast fuel k i num dt rate y = Ok (y', raws, false) ->
    y_frames_loop A azero F interp cast fuel k i num dt rate (more y extra) = Ok (more y' extra, raws, false).
  Proof.
    induction k as [|k IH]; intros i num dt rate y y' raws extra Hfin H.
    - cbn [y_frames_loop] in *. inversion H; subst. reflexivity.
    - cbn [y_frames_loop] in *.
      change (y_increment A (more y extra) rate i num dt) with (y_increment A y rate i num dt).
      destruct (y_frame_step A azero F interp cast fuel y _) as [[[y1 a] st1]| |] eqn:E1; cbn [obind] in H; try discriminate.
      destruct (y_frames_loop A azero F interp cast fuel k (i + 1) num dt rate y1) as [[[y2 l] st2]| |] eqn:E2; cbn [obind] in H; try discriminate.
      injection H as Hy Hr Hst. apply orb_false_iff in Hst. destruct Hst as [-> ->]. subst y' raws.
      pose proof (y_frame_step_shape A azero F interp cast fuel _ _ _ _ _ E1) as (k1 & _ & He & _).
      rewrite (y_frame_step_more _ _ _ _ extra Hfin E1). cbn [obind].
      rewrite (IH _ _ _ _ _ _ _ extra ltac:(rewrite He; exact Hfin) E2). reflexivity.
  Qed.

  (** the [process] call as a whole *)
  Theorem process_more : forall (z z' : stream_sound T A V P) len dt i o extra,
    y_reached_end (z_core z) = false ->
    stream_process powf A azero F interp cast ascale V vinterp identity amp P pinterp panned fuel z len dt i = Ok (z', o, false) ->
    stream_process powf A azero F interp cast ascale V vinterp identity amp P pinterp panned fuel
                   {| z_core := more (z_core z) extra; z_shell := z_shell z |} len dt i
      = Ok ({| z_core := more (z_core z') extra; z_shell := z_shell z' |}, o, false).
  Proof.
    intros z z' len dt i o extra Hfin H. unfold stream_process in *. cbn [z_core z_shell].
    change (y_err (more (z_core z) extra)) with (y_err (z_core z)).
    destruct (y_err (z_core z)).
    { inversion H; subst. reflexivity. }
    destruct (shell_update powf V vinterp identity P pinterp (z_shell z) (nmul dt (nofZ len)) i) as [[h go]| |];
      cbn [obind] in *; try discriminate.
    destruct (negb go).
    { inversion H; subst. reflexivity. }
    change (y_reached_end (more (z_core z) extra)) with (y_reached_end (z_core z)).
    change (y_ring (more (z_core z) extra)) with (y_ring (z_core z) ++ extra).
    rewrite Hfin in *. cbn [negb] in *. rewrite andb_true_r in *.
    destruct (Z.ltb_spec (Z.of_nat (length (y_ring (z_core z)))) 2) as [Hlt|Hge]; [inversion H|].
    rewrite app_length.
    destruct (Z.ltb_spec (Z.of_nat (length (y_ring (z_core z)) + length extra)) 2); [lia|].
    destruct (y_frames_loop A azero F interp cast fuel (Z.to_nat len) 0 len dt (h_rate h) (z_core z)) as [[[y' raws] st]| |] eqn:El;
      cbn [obind] in H; try discriminate.
    injection H as Hz Ho Hst. subst st z' o.
    rewrite (y_frames_loop_more _ _ _ _ _ _ _ _ extra Hfin El). cbn [obind z_core z_shell].
    change (y_ended (more y' extra)) with (y_ended y'). reflexivity.
  Qed.
End Atomic.
