(** C09 — the tape: everything both sounds will ever look at, as a function of the number of position updates.

    [tr_at j] is the transport after [j] increments from [Transport::new]; [prec j] the [j]-th record pushed into the
    static sound's resampler (record 0 = the initial zero frame), so the static core after [j] position updates is
    [core_at j]; the streaming ring after [h] pops holding [m] entries is [ring_at h m], whose entry [j] is the same
    (frame, index) pair as [prec j] (entry 0 = the pre-seeded zero frame); the decoder thread's scheduler after [q]
    pushes has transport [tr_at q].  Proved here: [update_position], one decoder-loop iteration and a pop each move
    one step along the tape. *)
From Coq Require Import ZArith List Bool Lia Arith.
From KV Require Import Base.Outcome Base.Num C19.Model C06.Model.
From KV Require Import C04.Transport C04.Resampler C04.StaticData C04.StaticSound.
From KV Require Import C04.ProofsTransport C04.ProofsSound.
From KV Require Import C09.Model C09.ProofsShell C09.ProofsDecoder.
Import ListNotations.
Local Open Scope Z_scope.


(** iterations the decode loop may need: every frame of the audio may be preceded by [E - 1] empty packets *)
Definition need_fuel (len E : nat) : nat := (len * E)%nat.

Section Tape.
  Context {T : Type} {NT : Num T}.
  Variable A : Type.
  Variable azero : A.
  Variable fuel : nat.
  Variable audio : list A.
  Variable sr : Z.
  Variable slice : option (Z * Z).
  Variable start : Z.                       (* the start position in frames *)
  Variable lr : option (Z * Z).             (* the requested loop region in frames *)
  Variable B : Z.                           (* any bound on length, start position and loop ends *)

  Definition src : source A := audio_source A azero audio.
  Definition N : Z := num_frames src slice.
  Definition t0 : transport := transport_new start lr false N.

  (** ANY slice of [usize] values: inside the audio, reaching beyond it, inverted, empty (both sounds clip it to the
      audio that exists); the iteration bound [fuel] exceeds everything *)
  Definition slice_wf : Prop :=
    match slice with Some (a, _) => 0 <= a | None => True end.
  Hypothesis Hslice : slice_wf.
  Hypothesis Hlen : Z.of_nat (length audio) < u64_max.
  Hypothesis Hstart0 : 0 <= start.
  Hypothesis HstartB : start < B.
  Hypothesis HNB : N <= B.
  Hypothesis HBmax : B < u64_max.
  Hypothesis Hfuel : B < Z.of_nat fuel.
  Hypothesis Hloop : req_loop B lr.
  Variable EP : nat.                        (* fewer than [EP] empty packets in a row *)
  Hypothesis Haudio : (need_fuel (length audio) EP <= fuel)%nat.

  Lemma slice_ok_src : slice_ok A src slice.
  Proof.
    unfold slice_ok, src, audio_source. cbn [src_len]. split; [lia|]. split; [exact Hlen|].
    unfold slice_wf in Hslice. destruct slice as [[a b]|]; [exact Hslice | exact I].
  Qed.

  (** the scheduler's [num_frames] is the static sound's: the slice clipped to the audio *)
  Lemma N_slice : N = match slice with
                      | Some (a, b) => sat_sub (Z.min b (Z.of_nat (length audio))) a
                      | None => Z.of_nat (length audio)
                      end.
  Proof. reflexivity. Qed.
  Lemma N_nonneg : 0 <= N.
  Proof. rewrite N_slice. destruct slice as [[a b]|]; unfold sat_sub; lia. Qed.

  (** ** the transport along the tape *)
  Definition tnext (t : transport) : transport :=
    match increment_position fuel t N with Ok t' => t' | _ => t end.
  Fixpoint tr_at (j : nat) : transport :=
    match j with O => t0 | S j' => tnext (tr_at j') end.
  Definition pl (j : nat) : bool := t_playing (tr_at j).

  Lemma wf_t0 : wf_transport B t0.
  Proof. exact (proj1 (transport_new_safe start lr false N B Hstart0 HstartB HNB Hloop)). Qed.
  Lemma pl_0 : pl 0%nat = true.
  Proof. reflexivity. Qed.

  Lemma wf_at : forall j, wf_transport B (tr_at j).
  Proof.
    induction j as [|j IH]; [exact wf_t0|]. cbn [tr_at]. unfold tnext.
    destruct (increment_safe fuel N B HNB HBmax Hfuel (tr_at j) IH) as (t' & Ht & Hwf & _).
    rewrite Ht. exact Hwf.
  Qed.
  Lemma incr_at : forall j, increment_position fuel (tr_at j) N = Ok (tr_at (S j)).
  Proof.
    intros j. cbn [tr_at]. unfold tnext.
    destruct (increment_safe fuel N B HNB HBmax Hfuel (tr_at j) (wf_at j)) as (t' & Ht & _).
    rewrite Ht. reflexivity.
  Qed.
  Lemma stopped_stays : forall j, pl j = false -> tr_at (S j) = tr_at j.
  Proof.
    intros j H. cbn [tr_at]. unfold tnext, increment_position. unfold pl in H. rewrite H. reflexivity.
  Qed.
  Lemma pl_mono : forall j, pl j = false -> pl (S j) = false.
  Proof. intros j H. unfold pl. rewrite (stopped_stays j H). exact H. Qed.
  Lemma pl_mono_le : forall k j, pl j = false -> pl (j + k) = false.
  Proof.
    induction k as [|k IH]; intros j H; [now rewrite Nat.add_0_r|].
    replace (j + S k)%nat with (S (j + k)) by lia. apply pl_mono. now apply IH.
  Qed.
  Lemma pl_before : forall j i, (i <= j)%nat -> pl j = true -> pl i = true.
  Proof.
    intros j i Hle Hj. destruct (pl i) eqn:E; [reflexivity|].
    replace j with (i + (j - i))%nat in Hj by lia. rewrite (pl_mono_le _ _ E) in Hj. discriminate.
  Qed.
  Lemma tr_frozen : forall k j, pl j = false -> tr_at (j + k) = tr_at j.
  Proof.
    induction k as [|k IH]; intros j H; [now rewrite Nat.add_0_r|].
    replace (j + S k)%nat with (S (j + k)) by lia.
    rewrite stopped_stays by (now apply pl_mono_le). now apply IH.
  Qed.

  (** ** the records pushed into the static sound's resampler *)
  Definition off : Z := match slice with Some (a, _) => a | None => 0 end.
  (** what [push_frame_to_resampler] reads under transport [t] *)
  Definition pushedT (t : transport) : option A :=
    if t_playing t then Some (if t_pos t <? N then src_get src (off + t_pos t) else azero) else None.
  Definition prec (j : nat) : recent A :=
    match j with
    | O => {| rf_frame := azero; rf_index := t_pos t0 |}
    | S j' => {| rf_frame := match pushedT (tr_at j') with Some f => f | None => azero end;
                 rf_index := t_pos (tr_at j') |}
    end.
  Fixpoint tue_at (j : nat) : Z :=
    match j with
    | O => 0
    | S j' => match pushedT (tr_at j') with Some _ => 4 | None => sat_sub (tue_at j') 1 end
    end.
  Fixpoint flag_at (j : nat) : bool :=
    match j with
    | O => false
    | S j' => flag_at j' || (negb (pl (S j')) && (tue_at (S j') =? 0))
    end.
  Definition win_at (j : nat) : resampler A :=
    {| r_0 := prec (j - 3); r_1 := prec (j - 2); r_2 := prec (j - 1); r_3 := prec j; r_tue := tue_at j |}.

  (** the static core after [j] position updates (the first three happen in [StaticSound::new]) *)
  Definition core_at (j : nat) (fp : T) (rate : param T T) (pos : T) : ssound T A :=
    {| s_sr := sr; s_src := src; s_slice := slice; s_reverse := false; s_stopped := flag_at j;
       s_rs := win_at j; s_tr := tr_at j; s_fpos := fp; s_rate := rate;
       sh_state := if flag_at j then 6 else 0; sh_pos := pos |}.

  Lemma SInv_core : forall j fp rate pos, SInv A fuel B (core_at j fp rate pos).
  Proof.
    intros. unfold SInv, NS. cbn [core_at s_src s_slice s_tr]. fold N.
    split; [exact slice_ok_src|]. split; [exact HNB|]. split; [exact HBmax|]. split; [exact Hfuel | apply wf_at].
  Qed.

  Lemma update_at : forall j fp rate pos, nltb (p_raw rate) n0 = false ->
    update_position A azero fuel (core_at j fp rate pos) = Ok (core_at (S j) fp rate pos).
  Proof.
    intros j fp rate pos Hr.
    destruct (update_position_spec A azero fuel B _ (SInv_core j fp rate pos)) as (t' & Ht & _ & _ & Hu & _).
    rewrite Hu. f_equal.
    assert (Hb : is_playing_backwards A (core_at j fp rate pos) = false).
    { unfold is_playing_backwards. cbn [core_at s_rate s_reverse]. rewrite Hr. reflexivity. }
    rewrite Hb in Ht. unfold NS in Ht. cbn [core_at s_tr s_src s_slice] in Ht. fold N in Ht.
    rewrite incr_at in Ht. inversion Ht; subst t'; clear Ht.
    assert (Hp : pushed A azero (core_at j fp rate pos) = pushedT (tr_at j)).
    { unfold pushed, pushedT, NS, soff. cbn [core_at s_tr s_src s_slice]. fold N. reflexivity. }
    rewrite Hp.
    unfold finish, set_tr, set_rs, mark_stopped, resampler_empty, push_frame.
    cbn [core_at s_sr s_src s_slice s_reverse s_stopped s_rs s_tr s_fpos s_rate sh_state sh_pos
         r_0 r_1 r_2 r_3 r_tue win_at].
    assert (Htue : match pushedT (tr_at j) with Some _ => 4 | None => sat_sub (tue_at j) 1 end = tue_at (S j))
      by reflexivity.
    rewrite Htue.
    assert (Hwin : {| r_0 := prec (j - 2); r_1 := prec (j - 1); r_2 := prec j;
                      r_3 := {| rf_frame := match pushedT (tr_at j) with Some f => f | None => azero end;
                                rf_index := t_pos (tr_at j) |};
                      r_tue := tue_at (S j) |} = win_at (S j)).
    { unfold win_at. replace (S j - 3)%nat with (j - 2)%nat by lia. replace (S j - 2)%nat with (j - 1)%nat by lia.
      replace (S j - 1)%nat with j by lia. reflexivity. }
    rewrite Hwin. change (tnext (tr_at j)) with (tr_at (S j)). fold (pl (S j)). unfold core_at.
    change (flag_at (S j)) with (flag_at j || (negb (pl (S j)) && (tue_at (S j) =? 0))).
    destruct (negb (pl (S j)) && (tue_at (S j) =? 0)) eqn:E.
    - rewrite orb_true_r. reflexivity.
    - rewrite orb_false_r. reflexivity.
  Qed.

  (** ** the Stopped rule in closed form: the flag is up once the transport stopped four updates ago *)
  Lemma pushedT_some : forall j, pl j = true -> exists f, pushedT (tr_at j) = Some f.
  Proof. intros j H. unfold pushedT. unfold pl in H. rewrite H. eexists; reflexivity. Qed.
  Lemma pushedT_none : forall j, pl j = false -> pushedT (tr_at j) = None.
  Proof. intros j H. unfold pushedT. unfold pl in H. rewrite H. reflexivity. Qed.
  Lemma tue_step : forall j, tue_at (S j) = if pl j then 4 else sat_sub (tue_at j) 1.
  Proof.
    intros j. cbn [tue_at]. destruct (pl j) eqn:E.
    - destruct (pushedT_some j E) as (f & ->). reflexivity.
    - rewrite (pushedT_none j E). reflexivity.
  Qed.
  Lemma tue_range : forall j, 0 <= tue_at j <= 4.
  Proof.
    induction j as [|j IH]; [cbn; lia|]. rewrite tue_step. destruct (pl j); [lia|]. unfold sat_sub. lia.
  Qed.
  Lemma tue_lower : forall k j, pl j = true -> (k <= 3)%nat -> 4 - Z.of_nat k <= tue_at (S j + k).
  Proof.
    induction k as [|k IH]; intros j Hj Hk.
    - rewrite Nat.add_0_r, tue_step, Hj. lia.
    - replace (S j + S k)%nat with (S (S j + k)) by lia. rewrite tue_step.
      destruct (pl (S j + k)); [lia|]. specialize (IH j Hj ltac:(lia)). unfold sat_sub. lia.
  Qed.
  Lemma tue_zero : forall j, (tue_at (j + 4) =? 0) = negb (pl j).
  Proof.
    intros j. destruct (pl j) eqn:E; cbn [negb].
    - pose proof (tue_lower 3 j E ltac:(lia)) as H. replace (S j + 3)%nat with (j + 4)%nat in H by lia.
      apply Z.eqb_neq. lia.
    - apply Z.eqb_eq.
      assert (H1 := pl_mono_le 1 j E). assert (H2 := pl_mono_le 2 j E). assert (H3 := pl_mono_le 3 j E).
      replace (j + 4)%nat with (S (j + 3)) by lia. rewrite tue_step, H3.
      replace (j + 3)%nat with (S (j + 2)) by lia. rewrite tue_step, H2.
      replace (j + 2)%nat with (S (j + 1)) by lia. rewrite tue_step, H1.
      replace (j + 1)%nat with (S j) by lia. rewrite tue_step, E.
      pose proof (tue_range j). unfold sat_sub. lia.
  Qed.
  Lemma flag_3 : flag_at 3 = false.
  Proof.
    cbn [flag_at]. rewrite !orb_false_l.
    assert (H1 : (tue_at 1 =? 0) = false).
    { rewrite tue_step, pl_0. reflexivity. }
    assert (H2 : (tue_at 2 =? 0) = false).
    { apply Z.eqb_neq. pose proof (tue_lower 1 0 pl_0 ltac:(lia)) as H. cbn [Nat.add] in H. lia. }
    assert (H3 : (tue_at 3 =? 0) = false).
    { apply Z.eqb_neq. pose proof (tue_lower 2 0 pl_0 ltac:(lia)) as H. cbn [Nat.add] in H. lia. }
    rewrite H1, H2, H3, !andb_false_r. reflexivity.
  Qed.
  (** after [h + 3] updates ([h] of them in [process]): the flag is up iff the transport had stopped [h - 1] updates in *)
  Lemma flag_char : forall h, flag_at (S h + 3) = negb (pl h).
  Proof.
    induction h as [|h IH].
    - cbn [Nat.add]. change (flag_at 4) with (flag_at 3 || (negb (pl 4) && (tue_at 4 =? 0))).
      rewrite flag_3. change 4%nat with (0 + 4)%nat. rewrite tue_zero, pl_0. rewrite andb_false_r. reflexivity.
    - replace (S (S h) + 3)%nat with (S (S h + 3)) by lia.
      change (flag_at (S (S h + 3))) with (flag_at (S h + 3) || (negb (pl (S (S h + 3))) && (tue_at (S (S h + 3)) =? 0))).
      rewrite IH. replace (S (S h + 3)) with (S h + 4)%nat by lia. rewrite tue_zero.
      destruct (pl (S h)) eqn:E1; cbn [negb andb].
      + rewrite andb_false_r, orb_false_r. rewrite (pl_before (S h) h ltac:(lia) E1). reflexivity.
      + rewrite (pl_mono_le 4 (S h) E1). cbn [negb andb]. rewrite orb_true_r. reflexivity.
  Qed.

  (** ** the streaming ring along the tape *)
  Definition ent (j : nat) : A * Z :=
    match j with O => (azero, 0) | S _ => (rf_frame (prec j), rf_index (prec j)) end.
  Definition ring_at (h m : nat) : list (A * Z) := map ent (seq h m).

  Lemma ent_frame : forall j, fst (ent j) = rf_frame (prec j).
  Proof. intros [|j]; reflexivity. Qed.
  Lemma ring_length : forall h m, length (ring_at h m) = m.
  Proof. intros. unfold ring_at. now rewrite map_length, seq_length. Qed.
  Lemma ring_push : forall h m, ring_at h m ++ [ent (h + m)] = ring_at h (S m).
  Proof. intros. unfold ring_at. rewrite seq_S, map_app. reflexivity. Qed.
  Lemma ring_skip : forall k h m, skipn k (ring_at h m) = ring_at (h + Nat.min k m) (m - k).
  Proof.
    induction k as [|k IH]; intros h m.
    - cbn [skipn]. replace (h + Nat.min 0 m)%nat with h by lia. replace (m - 0)%nat with m by lia. reflexivity.
    - destruct m as [|m].
      + replace (h + Nat.min (S k) 0)%nat with h by lia. reflexivity.
      + unfold ring_at in *. cbn [seq map skipn]. rewrite IH. cbn [Nat.min Nat.sub].
        replace (S h + Nat.min k m)%nat with (h + S (Nat.min k m))%nat by lia. reflexivity.
  Qed.
  Lemma next_frame_ring : forall h m k,
    next_frame A azero (ring_at h m) k = if (k <? m)%nat then rf_frame (prec (h + k)) else azero.
  Proof.
    intros h m k. unfold next_frame, ring_at. rewrite map_map.
    destruct (Nat.ltb_spec k m) as [Hlt|Hge].
    - rewrite (nth_indep _ azero (fst (ent 0))) by (now rewrite map_length, seq_length).
      rewrite (map_nth (fun x => fst (ent x)) (seq h m) 0%nat k). rewrite seq_nth by exact Hlt. apply ent_frame.
    - apply nth_overflow. rewrite map_length, seq_length. exact Hge.
  Qed.
  (** beyond the last pushed frame the tape holds zero frames *)
  Lemma prec_after_end : forall q j, pl q = false -> (q < j)%nat -> rf_frame (prec j) = azero.
  Proof.
    intros q j Hq Hj. destruct j as [|j]; [lia|]. cbn [prec rf_frame].
    replace j with (q + (j - q))%nat by lia. rewrite pushedT_none by (now apply pl_mono_le). reflexivity.
  Qed.
  (** [update_current_frame] on the ring *)
  Lemma ring_second : forall h m, (2 <= m)%nat ->
    exists a b rest, ring_at h m = a :: (b, t_pos (tr_at h)) :: rest.
  Proof.
    intros h m Hm. destruct m as [|[|m]]; try lia. unfold ring_at. cbn [seq map].
    eexists _, _, _. cbn [ent prec rf_index rf_frame]. reflexivity.
  Qed.

  (** ** one iteration of the decoder thread's loop *)
  Lemma q_frame_at_index_any :
    forall (D : Type) (dpos dsize : D -> nat) (dnext : D -> D) (dseek : D -> nat -> D) (derr : D -> bool),
    conforming A audio D dpos dsize dnext dseek derr EP ->
    forall (q : producer A D) j,
    q_slice q = slice -> q_n q = N -> dinv A audio D dpos (q_dec q) -> pl j = true ->
    exists dec', q_frame_at_index A azero fuel audio D dpos dsize dnext dseek derr q (t_pos (tr_at j))
                 = Ok (Some (rf_frame (prec (S j))), dec') /\ dinv A audio D dpos dec'.
  Proof.
    intros D dpos dsize dnext dseek derr (Herr & Hnext & Hseek & idle & Hidle) q j Hsl Hn Hinv Hpl.
    unfold q_frame_at_index. rewrite Hsl, Hn.
    pose proof (wf_at j) as (Hp0 & HpB & _). pose proof N_slice as HN. pose proof N_nonneg as HN0.
    assert (Hfr : rf_frame (prec (S j)) = if t_pos (tr_at j) <? N then src_get src (off + t_pos (tr_at j)) else azero).
    { cbn [prec rf_frame]. unfold pushedT. unfold pl in Hpl. rewrite Hpl. reflexivity. }
    rewrite Hfr. destruct (Z.geb_spec (t_pos (tr_at j)) N) as [Hge|Hlt].
    - destruct (Z.ltb_spec (t_pos (tr_at j)) N); [lia|]. exists (q_dec q). split; [reflexivity | exact Hinv].
    - destruct (Z.ltb_spec (t_pos (tr_at j)) N); [|lia].
      fold off.
      assert (Hoff : 0 <= off /\ off + t_pos (tr_at j) < Z.of_nat (length audio)).
      { unfold off. unfold slice_wf in Hslice. rewrite HN in Hlt. destruct slice as [[a b]|]; unfold sat_sub in Hlt; lia. }
      rewrite add_chk_ok by lia. cbn [obind].
      set (i := Z.to_nat (off + t_pos (tr_at j))).
      assert (Hi : (i < length audio)%nat) by (unfold i; lia).
      assert (Hget : src_get src (off + t_pos (tr_at j)) = nth i audio azero) by reflexivity.
      rewrite Hget.
      destruct (chunk_frame (ds_chunk (q_dec q)) i) as [fr|] eqn:Ec.
      + exists (q_dec q). split; [|exact Hinv].
        apply (chunk_frame_sound A audio _ _ _ (proj2 Hinv)) in Ec.
        f_equal. f_equal. f_equal. symmetry. now apply nth_error_nth.
      + (* the loop: at most (i - position) * EP + EP iterations, and that is within the fuel *)
        assert (Hbudget : forall d, (dpos d <= i)%nat -> ((i - dpos d) * EP + idle d < fuel)%nat).
        { intros d Hd'. destruct (Hidle d) as [HdE _]. unfold need_fuel in Haudio.
          assert (H1 : ((i - dpos d) * EP <= (length audio - 1) * EP)%nat) by (apply Nat.mul_le_mono_r; lia).
          assert (H2 : ((length audio - 1) * EP + EP = length audio * EP)%nat).
          { replace (length audio) with (S (length audio - 1)) at 2 by lia. cbn [Nat.mul]. lia. }
          set (X := ((i - dpos d) * EP)%nat) in *. set (Y := ((length audio - 1) * EP)%nat) in *.
          set (W := (length audio * EP)%nat) in *. clearbody X Y W. lia. }
        destruct (i <? ds_cur (q_dec q))%nat eqn:El.
        * apply (decode_loop_ok A azero audio D dpos dsize dnext derr EP idle Herr Hnext Hidle).
          -- split; [reflexivity | exact (proj2 Hinv)].
          -- cbn [sched_seek ds_dec]. pose proof (Hseek (ds_dec (q_dec q)) i). lia.
          -- cbn [sched_seek ds_dec]. apply Hbudget. apply Hseek.
        * apply Nat.ltb_ge in El. destruct Hinv as [Hcur Hc]. rewrite Hcur in El.
          apply (decode_loop_ok A azero audio D dpos dsize dnext derr EP idle Herr Hnext Hidle).
          -- split; assumption.
          -- lia.
          -- apply Hbudget. exact El.
  Qed.

  (** the decoder of the streaming sound: any conforming one *)
  Variable D : Type.
  Variable dpos : D -> nat.
  Variable dsize : D -> nat.
  Variable dnext : D -> D.
  Variable dseek : D -> nat -> D.
  Variable derr : D -> bool.
  Variable d0 : D.
  Hypothesis Hconf : conforming A audio D dpos dsize dnext dseek derr EP.
  Definition q_frame_at_index_ok := q_frame_at_index_any D dpos dsize dnext dseek derr Hconf.

  (** ** the fractional position: how often the [while fractional_position >= 1.0] loop runs *)
  Fixpoint fcarry (fl : nat) (fp : T) : option (T * nat) :=
    match fl with
    | O => None
    | S f => if nleb n1 fp then
               match fcarry f (nsub fp n1) with Some (fp', k) => Some (fp', S k) | None => None end
             else Some (fp, O)
    end.

  Lemma carry_static : forall fl j fp rate pos, nltb (p_raw rate) n0 = false ->
    carry A azero fuel fl (core_at j fp rate pos) =
      match fcarry fl fp with Some (fp', k) => Ok (core_at (j + k) fp' rate pos) | None => Hang end.
  Proof.
    induction fl as [|fl IH]; intros j fp rate pos Hr; [reflexivity|].
    cbn [carry fcarry]. change (s_fpos (core_at j fp rate pos)) with fp.
    destruct (nleb n1 fp).
    - change (set_fpos A (core_at j fp rate pos) (nsub fp n1)) with (core_at j (nsub fp n1) rate pos).
      rewrite (update_at j _ rate pos Hr). cbn [obind]. rewrite (IH (S j) _ rate pos Hr).
      destruct (fcarry fl (nsub fp n1)) as [[fp' k]|]; [|reflexivity].
      replace (S j + k)%nat with (j + S k)%nat by lia. reflexivity.
    - rewrite Nat.add_0_r. reflexivity.
  Qed.

  Lemma carry_stream : forall fl (y : ycore T A) pops,
    y_carry A fl y pops =
      match fcarry fl (y_fpos y) with
      | Some (fp', k) => Ok (y_with_ring A (y_with_fpos A y fp') (skipn k (y_ring y)), pops + Z.of_nat k)
      | None => Hang
      end.
  Proof.
    induction fl as [|fl IH]; intros y pops; [reflexivity|].
    cbn [y_carry fcarry]. destruct (nleb n1 (y_fpos y)).
    - rewrite IH. cbn [y_with_ring y_with_fpos y_fpos y_ring].
      destruct (fcarry fl (nsub (y_fpos y) n1)) as [[fp' k]|]; [|reflexivity].
      f_equal. f_equal; [|lia]. destruct y as [a r b c d e f g]. cbn. destruct r; [destruct k|]; reflexivity.
    - destruct y; cbn. f_equal. f_equal. lia.
  Qed.

  (** ** one frame of [process] on both sides *)
  Variable F : Type.
  Variable interp : A -> A -> A -> A -> F -> A.
  Variable cast : T -> F.

  (** the streaming sound's audio-thread state in terms of the tape: [h] entries popped, [m] in the ring *)
  Definition yc (h m : nat) (fin : bool) (fp : T) (cur : Z) (pos : T) (e : bool) : ycore T A :=
    {| y_sr := sr; y_ring := ring_at h m; y_reached_end := fin; y_err := false; y_cur := cur; y_fpos := fp;
       y_pos := pos; y_ended := e |}.

  (** the two sounds are at the same place of the tape — or the streaming ring has run out after the end of data
      (then the static window holds zero frames only, whatever its place).  [q] = frames pushed so far. *)
  Definition Rel (hx hz m : nat) (fin : bool) : Prop :=
    exists q, (hz + m = S q)%nat /\ fin = negb (pl q) /\ (forall j, (j < q)%nat -> pl j = true) /\
              (hx = hz \/ (fin = true /\ m = 0%nat /\ (hz <= hx)%nat)).

  Lemma flag_val : forall h, flag_at (h + 3) = match h with O => false | S j => negb (pl j) end.
  Proof. intros [|j]; [exact flag_3 | apply flag_char]. Qed.

  (** the window of the static sound and the four ring entries the streaming sound looks at hold the same frames *)
  Lemma frames_eq : forall hx hz m fin x, Rel hx hz m fin -> (fin = true \/ (4 <= m)%nat) ->
    resampler_get interp (win_at (hx + 3)) x =
    interp (next_frame A azero (ring_at hz m) 0) (next_frame A azero (ring_at hz m) 1)
           (next_frame A azero (ring_at hz m) 2) (next_frame A azero (ring_at hz m) 3) x.
  Proof.
    intros hx hz m fin x (q & Hq & Hfin & _ & Hrel) Hahead.
    unfold resampler_get, win_at. cbn [r_0 r_1 r_2 r_3].
    replace (hx + 3 - 3)%nat with (hx + 0)%nat by lia. replace (hx + 3 - 2)%nat with (hx + 1)%nat by lia.
    replace (hx + 3 - 1)%nat with (hx + 2)%nat by lia.
    rewrite !next_frame_ring.
    assert (Hz : forall k, (k < 4)%nat ->
               rf_frame (prec (hx + k)) = if (k <? m)%nat then rf_frame (prec (hz + k)) else azero).
    { intros k Hk. destruct Hrel as [Heq | (Hf & Hm0 & Hle)].
      - subst hz. destruct (Nat.ltb_spec k m) as [Hlt|Hge]; [reflexivity|].
        destruct Hahead as [Hf | H4]; [|lia].
        apply (prec_after_end q); [|lia]. rewrite Hf in Hfin. destruct (pl q); [discriminate | reflexivity].
      - subst m. cbn [Nat.ltb Nat.leb]. destruct (k <? 0)%nat eqn:E; [apply Nat.ltb_lt in E; lia|].
        apply (prec_after_end q); [|lia]. rewrite Hf in Hfin. destruct (pl q); [discriminate | reflexivity]. }
    rewrite (Hz 0%nat), (Hz 1%nat), (Hz 2%nat), (Hz 3%nat) by lia. reflexivity.
  Qed.

  (** where the two sides stand after [k] position updates / pops *)
  Lemma Rel_step : forall hx hz m fin k, Rel hx hz m fin -> (fin = true \/ (k <= m)%nat) ->
    Rel (hx + k) (hz + Nat.min k m) (m - k) fin.
  Proof.
    intros hx hz m fin k (q & Hq & Hfin & Hbefore & Hrel) Hk.
    exists q. split; [lia|]. split; [exact Hfin|]. split; [exact Hbefore|].
    destruct Hrel as [Heq | (Hf & Hm0 & Hle)].
    - subst hz. destruct (Nat.le_gt_cases k m) as [Hle|Hgt].
      + left. lia.
      + right. destruct Hk as [Hf|]; [|lia]. split; [exact Hf|]. split; lia.
    - right. split; [exact Hf|]. split; lia.
  Qed.
  (** the natural-end flags agree: the static sound's "transport stopped and resampler empty" and the
      streaming sound's "reached_end and ring empty" *)
  Lemma Rel_flag : forall hx hz m fin, Rel hx hz m fin ->
    flag_at (hx + 3) = (fin && (match ring_at hz m with [] => true | _ => false end)).
  Proof.
    intros hx hz m fin (q & Hq & Hfin & Hbefore & Hrel). rewrite flag_val.
    assert (Hempty : (match ring_at hz m with [] => true | _ => false end) = (m =? 0)%nat).
    { destruct m; reflexivity. }
    rewrite Hempty. destruct Hrel as [Heq | (Hf & Hm0 & Hle)].
    - subst hz. destruct hx as [|j].
      + destruct m; [lia|]. cbn [Nat.eqb]. now rewrite andb_false_r.
      + destruct m as [|m'].
        * assert (j = q) by lia. subst j. cbn [Nat.eqb]. rewrite andb_true_r. exact (eq_sym Hfin).
        * cbn [Nat.eqb]. rewrite andb_false_r. rewrite (Hbefore j) by lia. reflexivity.
    - subst m. cbn [Nat.eqb]. rewrite Hf. cbn [andb]. destruct hx as [|j]; [lia|].
      rewrite Hf in Hfin. assert (Hq' : pl q = false) by (destruct (pl q); [discriminate | reflexivity]).
      replace j with (q + (j - q))%nat by lia. rewrite (pl_mono_le _ _ Hq'). reflexivity.
  Qed.

  (** a non-negative rate: not NaN, not below zero (-0.0 is one) *)
  Definition rate_nonneg (r : T) : Prop := nisnan r = false /\ nltb r n0 = false.
  Lemma nonneg_steps : forall r, rate_nonneg r -> nmax0 r = nabs r.
  Proof. intros r (H2 & H3). unfold nabs, nmax0. rewrite H2, H3. reflexivity. Qed.

  Lemma static_frame_step : forall j fp rate pos inc (ascale : A -> F -> A) (fone : F), nltb (p_raw rate) n0 = false ->
    frame_step A azero F interp cast ascale fone fuel (core_at j fp rate pos) inc =
      match fcarry fuel (nadd fp inc) with
      | Some (fp', k) => Ok (core_at (j + k) fp' rate pos,
                             ascale (ascale (resampler_get interp (win_at j) (cast fp)) fone) fone)
      | None => Hang
      end.
  Proof.
    intros j fp rate pos inc ascale fone Hr. unfold frame_step.
    change (s_fpos (core_at j fp rate pos)) with fp.
    change (set_fpos A (core_at j fp rate pos) (nadd fp inc)) with (core_at j (nadd fp inc) rate pos).
    rewrite (carry_static fuel j _ rate pos Hr).
    destruct (fcarry fuel (nadd fp inc)) as [[fp' k]|]; reflexivity.
  Qed.

  Lemma stream_frame_step : forall h m fin fp cur pos e inc,
    y_frame_step A azero F interp cast fuel (yc h m fin fp cur pos e) inc =
      match fcarry fuel (nadd fp inc) with
      | Some (fp', k) =>
          Ok (yc (h + Nat.min k m) (m - k) fin fp' cur pos
                 (if fin && (match ring_at (h + Nat.min k m) (m - k) with [] => true | _ => false end) then true else e),
              interp (next_frame A azero (ring_at h m) 0) (next_frame A azero (ring_at h m) 1)
                     (next_frame A azero (ring_at h m) 2) (next_frame A azero (ring_at h m) 3) (cast fp),
              negb fin && (Z.of_nat m <? Z.max 4 (Z.of_nat k)))
      | None => Hang
      end.
  Proof.
    intros h m fin fp cur pos e inc. unfold y_frame_step. rewrite carry_stream.
    cbn [yc y_with_fpos y_fpos y_ring y_reached_end].
    destruct (fcarry fuel (nadd fp inc)) as [[fp' k]|]; [|reflexivity].
    cbn [obind y_with_ring y_with_fpos y_reached_end y_ring]. rewrite ring_skip, ring_length.
    change (y_reached_end (yc h m fin fp cur pos e)) with fin. rewrite Z.add_0_l.
    destruct (fin && _); reflexivity.
  Qed.

  (** ** the per-frame loop of [process], both sides in lock-step *)
  Definition rates_nonneg_from (rate : param T T) (i num : Z) (k : nat) : Prop :=
    forall i', i <= i' < i + Z.of_nat k -> rate_nonneg (rate_at rate i' num).

  Lemma flag_after_step : forall hx hz m fin k1,
    Rel hx hz m fin -> Rel (hx + k1) (hz + Nat.min k1 m) (m - k1) fin ->
    (if fin && (match ring_at (hz + Nat.min k1 m) (m - k1) with [] => true | _ => false end)
     then true else flag_at (hx + 3)) = flag_at (hx + k1 + 3).
  Proof.
    intros hx hz m fin k1 H0 H1. rewrite (Rel_flag _ _ _ _ H1).
    destruct (fin && _) eqn:E; [reflexivity|].
    rewrite (Rel_flag _ _ _ _ H0). destruct fin; [|reflexivity]. cbn [andb] in *.
    destruct m as [|m]; [|reflexivity]. cbn [Nat.sub ring_at seq map] in E. discriminate.
  Qed.

  Lemma loops_sim : forall k i num dt rate hx hz m fin fp cur px py,
    nltb (p_raw rate) n0 = false -> rates_nonneg_from rate i num k ->
    Rel hx hz m fin ->
    forall y' raws,
      y_frames_loop A azero F interp cast fuel k i num dt rate (yc hz m fin fp cur py (flag_at (hx + 3)))
        = Ok (y', raws, false) ->
      exists hx' hz' m' fp',
        Rel hx' hz' m' fin /\ (hz' + m' = hz + m)%nat /\ y' = yc hz' m' fin fp' cur py (flag_at (hx' + 3)) /\
        frames_loop A azero F interp cast (fun a _ => a) (cast n0) fuel k i num dt (core_at (hx + 3) fp rate px)
          = Ok (core_at (hx' + 3) fp' rate px, raws).
  Proof.
    induction k as [|k IH]; intros i num dt rate hx hz m fin fp cur px py Hr Hrates HRel y' raws H.
    - cbn [y_frames_loop] in H. inversion H; subst. exists hx, hz, m, fp. split; [exact HRel|]. split; [reflexivity|]. split; reflexivity.
    - cbn [y_frames_loop frames_loop] in *.
      assert (Hnn : rate_nonneg (rate_at rate i num)) by (apply Hrates; lia).
      pose proof (nonneg_steps _ Hnn) as Hmax.
      assert (Hinc : increment_of A (core_at (hx + 3) fp rate px) i num dt
                     = y_increment A (yc hz m fin fp cur py (flag_at (hx + 3))) rate i num dt).
      { unfold increment_of, y_increment. cbn [core_at s_sr s_rate yc y_sr].
        change (param_interpolated T lerp rate (ndiv (nofZ (i + 1)) (nofZ num))) with (rate_at rate i num).
        rewrite Hmax. reflexivity. }
      rewrite Hinc. set (inc := y_increment A _ rate i num dt) in *. clearbody inc.
      rewrite stream_frame_step in H. rewrite (static_frame_step (hx + 3) fp rate px inc _ _ Hr).
      destruct (fcarry fuel (nadd fp inc)) as [[fp1 k1]|]; cbn [obind] in *; [|discriminate].
      destruct (y_frames_loop A azero F interp cast fuel k (i + 1) num dt rate _) as [[[y2 l] st2]| |] eqn:E2;
        cbn [obind] in H; try discriminate.
      inversion H as [[Hy Hraws Hst]]; subst y' raws. clear H.
      apply orb_false_iff in Hst. destruct Hst as [Hst1 Hst2]. subst st2.
      assert (Hahead : fin = true \/ ((4 <= m)%nat /\ (k1 <= m)%nat)).
      { destruct fin; [left; reflexivity|]. right. cbn [negb andb] in Hst1. apply Z.ltb_ge in Hst1. lia. }
      assert (HRel1 : Rel (hx + k1) (hz + Nat.min k1 m) (m - k1) fin).
      { apply Rel_step; [exact HRel|]. destruct Hahead as [Hf|[_ Hk]]; [left; exact Hf | right; exact Hk]. }
      rewrite (flag_after_step hx hz m fin k1 HRel HRel1) in E2.
      assert (Hrates' : rates_nonneg_from rate (i + 1) num k).
      { intros i' Hi'. apply Hrates. lia. }
      destruct (IH (i + 1) num dt rate (hx + k1)%nat _ _ fin fp1 cur px py Hr Hrates' HRel1 _ _ E2)
        as (hx' & hz' & m' & fp' & HRel' & Hsum & Hy2 & Hst).
      exists hx', hz', m', fp'. split; [exact HRel'|]. split; [lia|]. split; [exact Hy2|].
      replace (hx + 3 + k1)%nat with (hx + k1 + 3)%nat by lia. rewrite Hst. cbn [obind].
      f_equal. f_equal. f_equal.
      apply (frames_eq hx hz m fin (cast fp) HRel).
      destruct Hahead as [Hf|[H4 _]]; [left; exact Hf | right; exact H4].
  Qed.

  (** ** the events of a run *)
  Context {ND : NumDur T}.
  Variable powf : T -> T -> T.
  Variable ascale : A -> F -> A.
  Variable V : Type.
  Variable vinterp : V -> V -> T -> V.
  Variables silence identity : V.
  Variable amp : V -> F.
  Variable P : Type.
  Variable pinterp : P -> P -> T -> P.
  Variable pcenter : P.
  Variable panned : A -> P -> A.
  Variable cap : Z.

  Notation shell := (shell T V P).
  Notation s_step := (static_step powf A azero F interp cast ascale V vinterp silence identity amp P pinterp panned fuel).
  Notation y_step := (stream_step powf A azero F interp cast ascale V vinterp silence identity amp P pinterp panned fuel
                                  audio D dpos dsize dnext dseek derr cap).
  Notation s_run := (run_static powf A azero F interp cast ascale V vinterp silence identity amp P pinterp panned fuel).
  Notation y_run := (run_stream powf A azero F interp cast ascale V vinterp silence identity amp P pinterp panned fuel
                                audio D dpos dsize dnext dseek derr cap).
  Notation sh_update := (shell_update powf V vinterp identity P pinterp).
  Notation sh_read := (@shell_read_commands T NT V silence identity P).
  Notation mirror_ok := (@ProofsShell.mirror_ok T V P).
  Notation stopped := (@ProofsShell.stopped T V P).

  (** what the two handles report: the same output, state and [finished()], the same state after the commands of a
      callback have been read; positions computed from the same frame
      index (as soon as the ring holds the frame being heard) and the same fraction, the streaming one with the
      fraction added *)
  Inductive obs_rel : obs T A -> obs T A -> Prop :=
  | rel_out : forall frames st fin, obs_rel (OOut frames st fin) (OOut frames st fin)
  | rel_pos : forall px py st idx cur fp avail,
      px = ndiv (nofZ idx) (nofZ sr) -> py = ndiv (nadd (nofZ cur) fp) (nofZ sr) ->
      (2 <= avail -> cur = idx) -> obs_rel (OPos px st idx fp 0) (OPos py st cur fp avail).

  (** the simulation invariant *)
  Definition Inv (x : static T A V P) (w : stream T A V P D) : Prop :=
    exists hx hz m fin fp cur px py (sh : shell) dec st,
      x = {| x_core := core_at (hx + 3) fp (h_rate sh) px; x_shell := sh |} /\
      w = {| w_prod := {| q_status := st; q_dec := dec; q_slice := slice; q_n := N; q_tr := tr_at (hz + m - 1) |};
             w_sound := {| z_core := yc hz m fin fp cur py (flag_at (hx + 3)); z_shell := sh |} |} /\
      Rel hx hz m fin /\ mirror_ok sh /\ dinv A audio D dpos dec /\
      (st = Running -> pl (hz + m - 1) = true) /\
      nltb (p_raw (h_rate sh)) n0 = false.

  (** the rate parameter along a run: it depends on the rate commands and the time steps only.  The property's
      "non-negative playback rate": every value either sound reads is non-negative (not NaN, sign bit clear) *)
  Fixpoint rates_ok (rate : param T T) (evs : list (event T V P)) : Prop :=
    match evs with
    | [] => True
    | EvDecode :: r => rates_ok rate r
    | EvStart c :: r => rates_ok (match k_rate c with Some (v, tw) => param_set rate v tw | None => rate end) r
    | EvProcess len dt i :: r =>
        match param_update powf T lerp rate (nmul dt (nofZ len)) i with
        | Ok (rate', _) =>
            nltb (p_raw rate') n0 = false /\
            (forall k, 0 <= k < len -> rate_nonneg (rate_at rate' k len)) /\ rates_ok rate' r
        | _ => True
        end
    end.

  Lemma decode_sim : forall x w w', Inv x w ->
    decode_step A azero V P fuel audio D dpos dsize dnext dseek derr cap w = Ok w' -> Inv x w'.
  Proof.
    intros x w w' (hx & hz & m & fin & fp & cur & px & py & sh & dec & st & Hx & Hw & HRel & Hm & Hinv & Hst & Hr) H.
    subst w. unfold decode_step in H. cbn [w_prod w_sound q_status z_core z_shell] in H.
    destruct st.
    2:{ inversion H; subst w'. exists hx, hz, m, fin, fp, cur, px, py, sh, dec, Ended.
        split; [exact Hx|]. split; [reflexivity|]. split; [exact HRel|]. split; [exact Hm|]. split; [exact Hinv|].
        split; [discriminate | exact Hr]. }
    destruct (h_mirror sh =? 6).
    { inversion H; subst w'. exists hx, hz, m, fin, fp, cur, px, py, sh, dec, Ended.
      split; [exact Hx|]. split; [reflexivity|]. split; [exact HRel|]. split; [exact Hm|]. split; [exact Hinv|].
      split; [discriminate | exact Hr]. }
    cbn [yc y_ring] in H. rewrite ring_length in H.
    destruct (cap <=? Z.of_nat m).
    { inversion H; subst w'. exists hx, hz, m, fin, fp, cur, px, py, sh, dec, Running.
      split; [exact Hx|]. split; [reflexivity|]. split; [exact HRel|]. split; [exact Hm|]. split; [exact Hinv|].
      split; [exact Hst | exact Hr]. }
    specialize (Hst eq_refl).
    destruct HRel as (q & Hq & Hfin & Hbefore & Hrel).
    assert (Hq' : (hz + m - 1 = q)%nat) by lia. rewrite Hq' in *.
    cbn [q_tr] in H.
    destruct (q_frame_at_index_ok {| q_status := Running; q_dec := dec; q_slice := slice; q_n := N; q_tr := tr_at q |}
                q eq_refl eq_refl Hinv Hst) as (dec' & Hfa & Hinv').
    rewrite Hfa in H. cbn [obind q_n q_tr] in H. rewrite incr_at in H. cbn [obind] in H.
    inversion H; subst w'; clear H.
    assert (Hfin0 : fin = false) by (rewrite Hfin, Hst; reflexivity).
    assert (Hhx : hx = hz) by (destruct Hrel as [|(Hf & _)]; [assumption | congruence]).
    exists hx, hz, (S m), (negb (pl (S q))), fp, cur, px, py, sh, dec', (if negb (pl (S q)) then Ended else Running).
    split; [exact Hx|]. split.
    { unfold q_with. cbn [q_slice q_n yc y_sr y_ring y_reached_end y_err y_cur y_fpos y_pos y_ended].
      replace (hz + S m - 1)%nat with (S q) by lia.
      assert (Hring : ring_at hz m ++ [(rf_frame (prec (S q)), t_pos (tr_at q))] = ring_at hz (S m)).
      { rewrite <- ring_push. replace (hz + m)%nat with (S q) by lia. reflexivity. }
      change (tnext (tr_at q)) with (tr_at (S q)).
      change (match pushedT (tr_at q) with Some f => f | None => azero end) with (rf_frame (prec (S q))).
      rewrite Hring. fold (pl (S q)). rewrite Hfin0. destruct (negb (pl (S q))); reflexivity. }
    split.
    { exists (S q). split; [lia|]. split; [reflexivity|]. split.
      - intros j Hj. destruct (Nat.eq_dec j q); [subst; exact Hst | apply Hbefore; lia].
      - left. exact Hhx. }
    split; [exact Hm|]. split; [exact Hinv'|]. split; [|exact Hr].
    replace (hz + S m - 1)%nat with (S q) by lia. destruct (pl (S q)); [reflexivity | discriminate].
  Qed.

  Lemma ucf_yc : forall hz m fin fp cur py e,
    update_current_frame A (yc hz m fin fp cur py e) =
    yc hz m fin fp (if (2 <=? m)%nat then t_pos (tr_at hz) else cur) py e.
  Proof.
    intros hz m fin fp cur py e. destruct m as [|[|m]]; try reflexivity.
  Qed.

  Lemma start_sim : forall x w c, Inv x w ->
    exists x' ox z' oy,
      static_on_start A V silence identity P x c = (x', ox) /\
      stream_on_start A V silence identity P (w_sound w) c = (z', oy) /\
      obs_rel ox oy /\ Inv x' {| w_prod := w_prod w; w_sound := z' |} /\
      h_rate (x_shell x') = match k_rate c with Some (v, tw) => param_set (h_rate (x_shell x)) v tw | None => h_rate (x_shell x) end.
  Proof.
    intros x w c (hx & hz & m & fin & fp & cur & px & py & sh & dec & st & Hx & Hw & HRel & Hm & Hinv & Hst & Hr).
    subst x w. unfold static_on_start, stream_on_start. cbn [x_core x_shell w_sound w_prod z_core z_shell].
    rewrite ucf_yc. set (cur' := if (2 <=? m)%nat then t_pos (tr_at hz) else cur).
    set (h' := sh_read sh c).
    eexists _, _, _, _. split; [reflexivity|]. split; [reflexivity|].
    assert (Hrate : h_rate h' = match k_rate c with Some (v, tw) => param_set (h_rate sh) v tw | None => h_rate sh end)
      by apply ProofsShell.rate_of_read.
    split; [|split; [|exact Hrate]].
    - cbn [core_at s_rs s_sr s_fpos yc y_cur y_fpos y_ring]. rewrite ring_length.
      apply rel_pos; [reflexivity | reflexivity |].
      intros Hav. unfold cur'. destruct (Nat.leb_spec 2 m) as [H2|H2]; [|lia].
      unfold current_frame_index, win_at. cbn [r_1]. replace (hx + 3 - 2)%nat with (S hx) by lia.
      cbn [prec rf_index]. destruct HRel as (q & _ & _ & _ & [Heq | (_ & Hm0 & _)]); [subst; reflexivity | lia].
    - exists hx, hz, m, fin, fp, cur', (ndiv (nofZ (current_frame_index (win_at (hx + 3)))) (nofZ sr)),
             (y_position A (yc hz m fin fp cur' py (flag_at (hx + 3)))), h', dec, st.
      split; [reflexivity|]. split; [reflexivity|]. split; [exact HRel|].
      split; [apply ProofsShell.mirror_ok_read; exact Hm|]. split; [exact Hinv|]. split; [exact Hst|].
      rewrite Hrate. destruct (k_rate c) as [[v tw]|]; [exact Hr | exact Hr].
  Qed.

  Lemma process_sim : forall x w len dt i, Inv x w ->
    (forall rate' f, param_update powf T lerp (h_rate (x_shell x)) (nmul dt (nofZ len)) i = Ok (rate', f) ->
       nltb (p_raw rate') n0 = false /\ (forall k, 0 <= k < len -> rate_nonneg (rate_at rate' k len))) ->
    forall z' oy,
      stream_process powf A azero F interp cast ascale V vinterp identity amp P pinterp panned fuel (w_sound w) len dt i
        = Ok (z', oy, false) ->
      exists x' ox f,
        static_process powf A azero F interp cast ascale V vinterp identity amp P pinterp panned fuel x len dt i = Ok (x', ox) /\
        obs_rel ox oy /\ Inv x' {| w_prod := w_prod w; w_sound := z' |} /\
        param_update powf T lerp (h_rate (x_shell x)) (nmul dt (nofZ len)) i = Ok (h_rate (x_shell x'), f).
  Proof.
    intros x w len dt i (hx & hz & m & fin & fp & cur & px & py & sh & dec & st & Hx & Hw & HRel & Hm & Hinv & Hst & Hr)
           Hrates z' oy H.
    subst x w. cbn [x_shell w_sound w_prod] in *.
    unfold stream_process in H. unfold static_process. cbn [z_core z_shell x_core x_shell yc y_err] in *.
    destruct (sh_update sh (nmul dt (nofZ len)) i) as [[h go]| |] eqn:Eu; cbn [obind] in *; try discriminate.
    destruct (ProofsShell.rate_of_update powf V vinterp identity P pinterp _ _ _ _ _ Eu) as (f & Hpu).
    destruct (Hrates _ _ Hpu) as [Hr' Hnn].
    pose proof (ProofsShell.mirror_ok_update powf V vinterp identity P pinterp _ _ _ _ _ Hm Eu) as Hm'.
    change (set_rate A (core_at (hx + 3) fp (h_rate sh) px) (h_rate h)) with (core_at (hx + 3) fp (h_rate h) px).
    destruct go; cbn [negb] in *.
    2:{ inversion H; subst z' oy. eexists _, _, f. split; [reflexivity|]. split; [apply rel_out|]. split; [|exact Hpu].
        exists hx, hz, m, fin, fp, cur, px, py, h, dec, st.
        split; [reflexivity|]. split; [reflexivity|]. split; [exact HRel|]. split; [exact Hm'|]. split; [exact Hinv|].
        split; [exact Hst | exact Hr']. }
    revert H. destruct ((_ <? 2) && negb _); intros H; [inversion H|].
    destruct (y_frames_loop A azero F interp cast fuel (Z.to_nat len) 0 len dt (h_rate h) _) as [[[y' raws] starved]| |] eqn:El;
      cbn [obind] in H; try discriminate.
    injection H as Hz Ho Hs. subst starved z' oy.
    assert (Hfrom : rates_nonneg_from (h_rate h) 0 len (Z.to_nat len)).
    { intros k Hk. apply Hnn. lia. }
    destruct (loops_sim (Z.to_nat len) 0 len dt (h_rate h) hx hz m fin fp cur px py Hr' Hfrom HRel _ _ El)
      as (hx' & hz' & m' & fp' & HRel' & Hsum & Hy' & Hst').
    rewrite Hst'. cbn [obind]. subst y'. cbn [core_at s_stopped yc y_ended].
    eexists _, _, f. split; [reflexivity|]. split; [apply rel_out|]. split.
    - exists hx', hz', m', fin, fp', cur, px, py, (if flag_at (hx' + 3) then shell_mark_stopped V P h else h), dec, st.
      assert (Hrate : h_rate (if flag_at (hx' + 3) then shell_mark_stopped V P h else h) = h_rate h)
        by (destruct (flag_at (hx' + 3)); reflexivity).
      split; [rewrite Hrate; reflexivity|]. split; [rewrite Hsum; reflexivity|]. split; [exact HRel'|].
      split; [destruct (flag_at (hx' + 3)); [apply ProofsShell.mirror_ok_mark | exact Hm']|].
      split; [exact Hinv|]. split; [rewrite Hsum; exact Hst|]. rewrite Hrate. exact Hr'.
    - cbn [x_shell]. destruct (flag_at (hx' + 3)); exact Hpu.
  Qed.

  (** ** whole runs *)
  Lemma run_sim : forall evs x w, Inv x w -> rates_ok (h_rate (x_shell x)) evs ->
    forall ys, y_run w evs = Ok (ys, false) ->
    exists xs, s_run x evs = Ok xs /\ Forall2 obs_rel xs ys.
  Proof.
    induction evs as [|e evs IH]; intros x w HInv Hrates ys H.
    - cbn [run_stream] in H. inversion H; subst. exists []. split; [reflexivity | constructor].
    - cbn [run_stream run_static] in *. destruct e as [|c|len dt i].
      + cbn [stream_step static_step] in *.
        destruct (decode_step A azero V P fuel audio D dpos dsize dnext dseek derr cap w) as [w'| |] eqn:Ed; cbn [obind] in *; try discriminate.
        destruct (y_run w' evs) as [[os s2]| |] eqn:Er; cbn [obind] in H; try discriminate.
        injection H as Hys Hs. cbn [orb] in Hs. subst s2 ys.
        destruct (IH x w' (decode_sim x w w' HInv Ed) Hrates _ Er) as (xs & Hxs & Hrel).
        exists xs. rewrite Hxs. cbn [obind app]. split; [reflexivity | exact Hrel].
      + cbn [stream_step static_step rates_ok] in *.
        destruct (start_sim x w c HInv) as (x' & ox & z' & oy & Hsx & Hsy & Ho & HInv' & Hrate).
        rewrite Hsx. rewrite Hsy in H. cbn [obind] in *.
        destruct (y_run {| w_prod := w_prod w; w_sound := z' |} evs) as [[os s2]| |] eqn:Er; cbn [obind] in H; try discriminate.
        injection H as Hys Hs. cbn [orb] in Hs. subst s2 ys.
        rewrite <- Hrate in Hrates.
        destruct (IH x' _ HInv' Hrates _ Er) as (xs & Hxs & Hrel).
        exists (ox :: xs). rewrite Hxs. cbn [obind app]. split; [reflexivity | constructor; assumption].
      + cbn [stream_step static_step rates_ok] in *.
        destruct (stream_process powf A azero F interp cast ascale V vinterp identity amp P pinterp panned fuel
                                 (w_sound w) len dt i) as [[[z' oy] s1]| |] eqn:Ep; cbn [obind] in H; try discriminate.
        destruct (y_run {| w_prod := w_prod w; w_sound := z' |} evs) as [[os s2]| |] eqn:Er; cbn [obind] in H; try discriminate.
        injection H as Hys Hs. apply orb_false_iff in Hs. destruct Hs as [Hs1 Hs2]. subst s1 s2 ys.
        assert (Hstep : forall rate' f, param_update powf T lerp (h_rate (x_shell x)) (nmul dt (nofZ len)) i = Ok (rate', f) ->
                  nltb (p_raw rate') n0 = false /\ (forall k, 0 <= k < len -> rate_nonneg (rate_at rate' k len))).
        { intros rate' f Hpu. rewrite Hpu in Hrates. destruct Hrates as (H1 & H2 & _). split; assumption. }
        destruct (process_sim x w len dt i HInv Hstep _ _ Ep) as (x' & ox & f & Hsx & Ho & HInv' & Hpu).
        rewrite Hsx. cbn [obind]. rewrite Hpu in Hrates. destruct Hrates as (_ & _ & Hrates').
        destruct (IH x' _ HInv' Hrates' _ Er) as (xs & Hxs & Hrel).
        exists (ox :: xs). rewrite Hxs. cbn [obind app]. split; [reflexivity | constructor; assumption].
  Qed.

  (** ** the two sounds as created *)
  Variable g : settings T V P.
  Hypothesis Hstart_def : start = into_samples (g_start_pos g) sr.
  Hypothesis Hlr_def : lr = option_map (fun r => region_samples r sr N) (g_loop g).
  Hypothesis Hrate0 : nltb (p_raw (param_new (g_rate g) n1)) n0 = false.

  Lemma init_inv :
    exists x0 w0,
      static_new A azero V silence identity P pcenter fuel sr src slice g = Ok x0 /\
      stream_new A azero V silence identity P pcenter audio D dpos dseek d0 sr slice g = Ok w0 /\
      Inv x0 w0 /\ h_rate (x_shell x0) = param_new (g_rate g) n1 /\
      (* what the two handles report before the first callback *)
      sh_pos (x_core x0) = y_pos (z_core (w_sound w0)) /\ h_mirror (x_shell x0) = h_mirror (z_shell (w_sound w0)).
  Proof.
    set (rate0 := param_new (g_rate g) n1 : param T T).
    set (sh0 := shell_new V silence identity P pcenter g).
    assert (Hsh : h_rate sh0 = rate0) by reflexivity.
    set (px := ndiv (nofZ (t_pos t0)) (nofZ sr)).
    assert (Hinit : sound_init A azero {| d_sr := sr; d_src := src; d_slice := slice;
                       d_settings := {| st_start := g_start_pos g; st_loop := g_loop g; st_reverse := false; st_rate := n1 |} |}
                    = Ok (core_at 0 n0 (param_new (Fixed n1) n1) px)).
    { unfold sound_init. cbn [d_settings d_sr d_src d_slice st_start st_loop st_reverse st_rate].
      fold N. rewrite <- Hstart_def, <- Hlr_def. fold t0. reflexivity. }
    eexists _, _. split.
    { unfold static_new. fold sh0. rewrite Hinit. cbn [obind].
      change (set_rate A (core_at 0 n0 (param_new (Fixed n1) n1) px) (h_rate sh0)) with (core_at 0 n0 rate0 px).
      cbn [update_n]. rewrite (update_at 0 n0 rate0 px Hrate0). cbn [obind].
      rewrite (update_at 1 n0 rate0 px Hrate0). cbn [obind]. rewrite (update_at 2 n0 rate0 px Hrate0). cbn [obind].
      cbn [core_at s_stopped]. rewrite flag_3. reflexivity. }
    split.
    { unfold stream_new.
      change (match slice with
              | Some (st, e) => sat_sub (Z.min e (Z.of_nat (length audio))) st
              | None => Z.of_nat (length audio)
              end) with N.
      rewrite <- Hstart_def, <- Hlr_def. fold t0. reflexivity. }
    split; [|split; [reflexivity|]; split; reflexivity].
    exists 0%nat, 0%nat, 1%nat, false, n0, (t_pos t0), px, px, sh0,
           {| ds_dec := dseek d0 (Z.to_nat start); ds_cur := dpos (dseek d0 (Z.to_nat start)); ds_chunk := None |},
           Running.
    split; [reflexivity|]. split; [change (0 + 3)%nat with 3%nat; rewrite flag_3; reflexivity|]. split.
    { exists 0%nat. split; [reflexivity|]. split; [rewrite pl_0; reflexivity|]. split; [intros j Hj; lia | left; reflexivity]. }
    split; [apply ProofsShell.mirror_ok_new|]. split; [split; [reflexivity | exact I]|].
    split; [intros _; exact pl_0 | exact Hrate0].
  Qed.

  (** ** the decoder's packetisation and seek landings are invisible *)
  Variable D' : Type.
  Variable dpos' : D' -> nat.
  Variable dsize' : D' -> nat.
  Variable dnext' : D' -> D'.
  Variable dseek' : D' -> nat -> D'.
  Variable derr' : D' -> bool.
  Variable d0' : D'.
  Hypothesis Hconf' : conforming A audio D' dpos' dsize' dnext' dseek' derr' EP.
  Notation y_step' := (stream_step powf A azero F interp cast ascale V vinterp silence identity amp P pinterp panned fuel
                                   audio D' dpos' dsize' dnext' dseek' derr' cap).
  Notation y_run' := (run_stream powf A azero F interp cast ascale V vinterp silence identity amp P pinterp panned fuel
                                 audio D' dpos' dsize' dnext' dseek' derr' cap).

  (** two streaming systems over two conforming decoders of the same audio: the same sound state, the schedulers at
      the same place of the tape, each decoder's bookkeeping consistent with the audio *)
  Definition PInv (w : stream T A V P D) (w' : stream T A V P D') : Prop :=
    w_sound w = w_sound w' /\
    exists q st dec dec',
      w_prod w = {| q_status := st; q_dec := dec; q_slice := slice; q_n := N; q_tr := tr_at q |} /\
      w_prod w' = {| q_status := st; q_dec := dec'; q_slice := slice; q_n := N; q_tr := tr_at q |} /\
      dinv A audio D dpos dec /\ dinv A audio D' dpos' dec' /\ (st = Running -> pl q = true).

  Lemma decode_indep : forall w w', PInv w w' ->
    match decode_step A azero V P fuel audio D dpos dsize dnext dseek derr cap w, decode_step A azero V P fuel audio D' dpos' dsize' dnext' dseek' derr' cap w' with
    | Ok w1, Ok w1' => PInv w1 w1'
    | _, _ => False
    end.
  Proof.
    intros [pr z] [pr' z'] (Hz & q & st & dec & dec' & Hp & Hp' & Hi & Hi' & Hst).
    cbn [w_sound w_prod] in *. subst z' pr pr'. unfold decode_step. cbn [w_prod w_sound q_status].
    destruct st.
    2:{ split; [reflexivity|]. exists q, Ended, dec, dec'.
        split; [reflexivity|]. split; [reflexivity|]. split; [exact Hi|]. split; [exact Hi'|]. discriminate. }
    destruct (h_mirror (z_shell z) =? 6).
    { split; [reflexivity|]. exists q, Ended, dec, dec'. cbn [w_prod q_with q_dec q_tr q_slice q_n].
      split; [reflexivity|]. split; [reflexivity|]. split; [exact Hi|]. split; [exact Hi'|]. discriminate. }
    destruct (cap <=? Z.of_nat (length (y_ring (z_core z)))).
    { split; [reflexivity|]. exists q, Running, dec, dec'.
      split; [reflexivity|]. split; [reflexivity|]. split; [exact Hi|]. split; [exact Hi'|]. exact Hst. }
    specialize (Hst eq_refl). cbn [q_tr].
    destruct (q_frame_at_index_ok {| q_status := Running; q_dec := dec; q_slice := slice; q_n := N; q_tr := tr_at q |}
                q eq_refl eq_refl Hi Hst) as (d1 & Hf1 & Hi1).
    rewrite Hf1.
    pose proof (q_frame_at_index_any D' dpos' dsize' dnext' dseek' derr' Hconf'
                  {| q_status := Running; q_dec := dec'; q_slice := slice; q_n := N; q_tr := tr_at q |}
                  q eq_refl eq_refl Hi' Hst) as Hf2.
    destruct Hf2 as (d2 & Hf2 & Hi2). rewrite Hf2. cbn [obind q_n q_tr]. rewrite incr_at. cbn [obind].
    split; [reflexivity|].
    exists (S q), (if negb (t_playing (tr_at (S q))) then Ended else Running), d1, d2.
    cbn [w_prod q_with q_slice q_n].
    split; [reflexivity|]. split; [reflexivity|]. split; [exact Hi1|]. split; [exact Hi2|].
    fold (pl (S q)). destruct (pl (S q)); [reflexivity | discriminate].
  Qed.

  Lemma run_indep : forall evs w w', PInv w w' -> y_run w evs = y_run' w' evs.
  Proof.
    induction evs as [|e evs IH]; intros w w' HP; [reflexivity|].
    cbn [run_stream]. destruct e as [|c|len dt i]; cbn [stream_step].
    - pose proof (decode_indep w w' HP) as Hd.
      destruct (decode_step A azero V P fuel audio D dpos dsize dnext dseek derr cap w) as [w1| |]; try contradiction.
      destruct (decode_step A azero V P fuel audio D' dpos' dsize' dnext' dseek' derr' cap w') as [w1'| |]; try contradiction.
      cbn [obind]. rewrite (IH w1 w1' Hd). reflexivity.
    - destruct HP as (Hz & Hrest). rewrite <- Hz.
      destruct (stream_on_start A V silence identity P (w_sound w) c) as [z o]. cbn [obind].
      rewrite (IH {| w_prod := w_prod w; w_sound := z |} {| w_prod := w_prod w'; w_sound := z |}); [reflexivity|].
      split; [reflexivity | exact Hrest].
    - destruct HP as (Hz & Hrest). rewrite <- Hz.
      destruct (stream_process powf A azero F interp cast ascale V vinterp identity amp P pinterp panned fuel (w_sound w) len dt i)
        as [[[z o] s1]| |]; cbn [obind]; try reflexivity.
      rewrite (IH {| w_prod := w_prod w; w_sound := z |} {| w_prod := w_prod w'; w_sound := z |}); [reflexivity|].
      split; [reflexivity | exact Hrest].
  Qed.

  Lemma init_indep :
    exists w0 w0',
      stream_new A azero V silence identity P pcenter audio D dpos dseek d0 sr slice g = Ok w0 /\
      stream_new A azero V silence identity P pcenter audio D' dpos' dseek' d0' sr slice g = Ok w0' /\ PInv w0 w0'.
  Proof.
    eexists _, _. unfold stream_new.
    change (match slice with
            | Some (st, e) => sat_sub (Z.min e (Z.of_nat (length audio))) st
            | None => Z.of_nat (length audio)
            end) with N.
    rewrite <- Hstart_def, <- Hlr_def. fold t0.
    split; [reflexivity|]. split; [reflexivity|].
    split; [reflexivity|]. cbn [w_prod].
    eexists 0%nat, Running, _, _. split; [reflexivity|]. split; [reflexivity|].
    split; [split; [reflexivity | exact I]|]. split; [split; [reflexivity | exact I]|]. intros _. exact pl_0.
  Qed.
End Tape.
