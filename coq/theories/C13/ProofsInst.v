(** C13 — instances of the silence law (reals, binary32), dry-mix identity and the identity
    settings over the reals, the corresponding binary32 facts that hold by computation, and the
    witnesses of what does NOT hold. *)
From Coq Require Import ZArith List Bool Lia Reals Lra.
From Flocq Require Import Core IEEE754.BinarySingleNaN.
From KV Require Import Base.IEEE Base.Outcome C13.ModelOps C13.ModelEffects C13.ModelDelay C13.ModelTree
     C13.ProofsSeq C13.ProofsLaws.
Import ListNotations.
Open Scope ops_scope.

(** an effect whose every step returns its input returns its input on every run *)
Lemma run_out_id {S A : Type} (step : S -> A -> S * A) (P : A -> Prop) :
  (forall s x, P x -> snd (step s x) = x) ->
  forall xs s, Forall P xs -> snd (run_frames step s xs) = xs.
Proof.
  intros Hstep. induction xs as [|x xs IH]; intros s Hxs; [reflexivity|].
  inversion Hxs as [|? ? Hx Hrest]; subst. cbn [run_frames].
  pose proof (Hstep s x Hx) as E. destruct (step s x) as [s1 y]. cbn [snd] in E. subst y.
  specialize (IH s1 Hrest). destruct (run_frames step s1 xs). cbn [snd] in *. congruence.
Qed.
Lemma Forall_True {A} (l : list A) : Forall (fun _ => True) l.
Proof. induction l; constructor; auto. Qed.

(** * reals *)
Definition ZrR (a : R) : Prop := a = 0%R.
Definition FinR (_ : R) : Prop := True.

Ltac r_law :=
  intros; unfold ZrR, FinR, hard_clip, soft_clip, oclamp in *; subst; cbn;
  try (destruct (Rlt_dec 0 (-1)); [lra|]); cbn; try (destruct (Rlt_dec 1 0); [lra|]); cbn;
  try exact I; try lra; try (unfold Rdiv; ring); try (rewrite Rabs_R0; unfold Rdiv; ring).

Theorem silence_R : forall (e : effect R) xs s,
    sil_ok consts_R ZrR FinR e -> cleared ZrR s -> Forall (Zf ZrR) xs ->
    cleared ZrR (fst (run_frames (estep consts_R e) s xs)) /\
    Forall (Zf ZrR) (snd (run_frames (estep consts_R e) s xs)).
Proof. apply run_silence; r_law. Qed.

Theorem init_cleared_R : forall e : effect R, cleared ZrR (init e).
Proof. apply init_cleared; r_law. Qed.

(** over the reals the only condition left in [sil_ok] is the compressor's: silence must not be
    above the threshold, [20 * log10 |0| <= threshold] (log10 0 = -infinity in the code) *)
Lemma comp_ok_R : forall (lg pw : R -> R) thr ratio sa sr mk,
    (20 * lg (Rabs 0) <= thr)%R -> comp_ok ZrR FinR lg pw thr ratio sa sr mk.
Proof.
  intros lg pw thr ratio sa sr mk H. split; [|exact I]. intros env v He Hv. unfold ZrR in *. subst.
  split; [|exact I]. unfold comp_channel. cbn.
  assert (E : Rmax (20 * lg (Rabs 0) - thr) 0 = 0%R) by (apply Rmax_right; lra).
  rewrite E. destruct (Rlt_dec 0 0); ring.
Qed.

(** ** dry mix *)
Lemma blend_dry_R : forall wet x : frame R, blend wet x 0%R = x.
Proof.
  intros [wl wr] [xl xr]. unfold blend, oclamp, fr_add, fr_scale. cbn.
  destruct (Rlt_dec 0 0) as [H|_]; [lra|]. destruct (Rlt_dec 1 0) as [H|_]; [lra|].
  rewrite Rminus_0_r, sqrt_0, sqrt_1. f_equal; ring.
Qed.

Definition dry (e : effect R) : Prop :=
  match e with
  | EDistortion _ _ m | EFilter _ _ _ _ _ m | ECompressor _ _ _ _ _ _ _ m
  | EDelay _ _ m _ | EReverb _ _ _ _ _ m => m = 0%R
  | _ => False
  end.

Lemma estep_dry_R : forall e s x, dry e -> snd (estep consts_R e s x) = x.
Proof.
  intros e s x Hd. destruct e; cbn [dry] in Hd; try contradiction; subst.
  - cbn. apply blend_dry_R.
  - destruct s; try reflexivity. cbn [estep]. unfold filter_step.
    destruct (svf_core a1 a2 a3 (fst ic) (snd ic) x) as [[v1 v2] s']. cbn. apply blend_dry_R.
  - destruct s; try reflexivity. cbn [estep]. unfold compressor_step.
    destruct (comp_channel log10 powf10 thr ratio sp_att sp_rel (fst env) (fst x)).
    destruct (comp_channel log10 powf10 thr ratio sp_att sp_rel (snd env) (snd x)). cbn. apply blend_dry_R.
  - destruct s; try reflexivity. rewrite estep_delay_eq. cbn [delay_step].
    destruct (chain_step consts_R fx sub (hd fr_zero buf)). cbn. apply blend_dry_R.
  - destruct s; try reflexivity. cbn [estep]. unfold reverb_step.
    destruct (combs_step fb damp (fst r) ((fst x +! snd x) *! c_gain consts_R) fr_zero).
    destruct (allpasses_step consts_R (snd r) f). cbn. apply blend_dry_R.
Qed.

Theorem dry_identity_R : forall e s xs, dry e -> snd (run_frames (estep consts_R e) s xs) = xs.
Proof.
  intros e s xs Hd. apply (run_out_id _ (fun _ => True)); [|apply Forall_True].
  intros s0 x _. apply estep_dry_R. exact Hd.
Qed.

(** ** identity settings *)
(** 0 dB is amplitude exactly 1 (the [== 0.0] shortcut), for any libm *)
Lemma db_amp_0dB_R : forall pw : R -> R, db_amp pw (eff 0%R) = 1%R.
Proof.
  intros pw. unfold db_amp, eff, interp. cbn.
  destruct (Req_EM_T (0 + (0 - 0) * 1) 0) as [_|H]; [reflexivity|exfalso; apply H; ring].
Qed.
Theorem volume_0dB_identity_R : forall (pw : R -> R) s xs,
    snd (run_frames (estep consts_R (EVolume (db_amp pw (eff 0%R)))) s xs) = xs.
Proof.
  intros pw s xs. rewrite db_amp_0dB_R. apply (run_out_id _ (fun _ => True)); [|apply Forall_True].
  intros s0 [l r] _. cbn. unfold volume_step, fr_scale. cbn. f_equal; ring.
Qed.

(** centre panning returns the frame itself — for ANY operations (the [== CENTER] shortcut);
    bit-exact in binary32 for p = +0 and p = -0 *)
Theorem centre_pan_identity_any : forall (F : Type) (OPS : Ops F) (K : consts F) (p : F) s xs,
    oeqb p (oZ 0) = true -> snd (run_frames (estep K (EPanning p)) s xs) = xs.
Proof.
  intros F OPS K p s xs Hp. apply (run_out_id _ (fun _ => True)); [|apply Forall_True].
  intros s0 x _. cbn. unfold panning_step, panned. rewrite Hp. reflexivity.
Qed.
Example centre_pan_b32 : oeqb (eff (f32_of_bits 0)) (oZ 0) = true /\ oeqb (eff (f32_of_bits 0x80000000)) (oZ 0) = true.
Proof. split; vm_compute; reflexivity. Qed.

(** 0 dB EQ gain: m0 = 1, m1 = m2 = 0 for the three kinds (given 10^0 = 1), hence identity *)
Lemma eq_coeffs_0dB_R : forall (cpi c1e4 chalf cminq : R) (tan pow10 : R -> R) kind frequency q dt,
    pow10 0%R = 1%R ->
    snd (eq_coeffs cpi c1e4 chalf cminq tan pow10 kind frequency q 0%R dt) = (1%R, 0%R, 0%R).
Proof.
  intros cpi c1e4 chalf cminq tan pow10 kind frequency q dt H.
  unfold eq_coeffs. cbn. replace (0 / 40)%R with 0%R by (unfold Rdiv; ring). rewrite H.
  destruct kind; cbn; repeat f_equal; ring.
Qed.
Theorem eq_0dB_identity_R : forall a1 a2 a3 s xs,
    snd (run_frames (estep consts_R (EEq a1 a2 a3 1%R 0%R 0%R)) s xs) = xs.
Proof.
  intros a1 a2 a3 s xs. apply (run_out_id _ (fun _ => True)); [|apply Forall_True].
  intros s0 [l r] _. destruct s0 as [|ic| | |]; try reflexivity. cbn [estep]. unfold eq_step.
  destruct (svf_core a1 a2 a3 (fst ic) (snd ic) (l, r)) as [[[v1l v1r] [v2l v2r]] s'].
  unfold fr_add, fr_scale. cbn. f_equal; ring.
Qed.

(** hard clip at 0 dB drive (amplitude 1), fully wet or fully dry, below full scale *)
Theorem hardclip_0dB_identity_R : forall (mix : R) s xs,
    mix = 1%R \/ mix = 0%R ->
    Forall (fun x : frame R => (Rabs (fst x) <= 1 /\ Rabs (snd x) <= 1)%R) xs ->
    snd (run_frames (estep consts_R (EDistortion true 1%R mix)) s xs) = xs.
Proof.
  intros mix s xs Hm Hxs. apply (run_out_id _ _ ) with (2 := Hxs).
  intros s0 [l r] [Hl Hr]. cbn [fst snd] in *. cbn [estep lift0 snd].
  unfold distortion_step, hard_clip, oclamp, blend, fr_add, fr_scale, fr_div. cbn.
  apply Rabs_le_inv in Hl. apply Rabs_le_inv in Hr.
  destruct (Req_EM_T 1 0) as [H|_]; [lra|]. cbn.
  destruct (Rlt_dec (l * 1) (-1)); [lra|]. destruct (Rlt_dec 1 (l * 1)); [lra|].
  destruct (Rlt_dec (r * 1) (-1)); [lra|]. destruct (Rlt_dec 1 (r * 1)); [lra|].
  assert (C1 : @oclamp R _ 1%R 0%R 1%R = 1%R).
  { unfold oclamp. cbn. destruct (Rlt_dec 1 0); [lra|]. destruct (Rlt_dec 1 1); [lra|]. reflexivity. }
  assert (C0 : @oclamp R _ 0%R 0%R 1%R = 0%R).
  { unfold oclamp. cbn. destruct (Rlt_dec 0 0); [lra|]. destruct (Rlt_dec 1 0); [lra|]. reflexivity. }
  destruct Hm; subst.
  - rewrite C1. replace (1 - 1)%R with 0%R by ring. rewrite sqrt_0, sqrt_1. f_equal; field.
  - rewrite C0. rewrite Rminus_0_r, sqrt_0, sqrt_1. f_equal; field.
Qed.

(** * binary32 *)
Definition Zr32 (a : f32) : Prop := exists s, a = B754_zero s.
Definition Fin32 (a : f32) : Prop := is_finite a = true.

Ltac z32 := eexists; reflexivity.
Lemma z32_add : forall a b : f32, Zr32 a -> Zr32 b -> Zr32 (a +! b).
Proof. intros a b [s1 ->] [s2 ->]. destruct s1, s2; z32. Qed.
Lemma z32_sub : forall a b : f32, Zr32 a -> Zr32 b -> Zr32 (a -! b).
Proof. intros a b [s1 ->] [s2 ->]. destruct s1, s2; z32. Qed.
Lemma z32_mul_l : forall a b : f32, Zr32 a -> Fin32 b -> Zr32 (a *! b).
Proof. intros a b [s1 ->] Hb. destruct b; try discriminate; z32. Qed.
Lemma z32_mul_r : forall a b : f32, Fin32 a -> Zr32 b -> Zr32 (a *! b).
Proof. intros a b Ha [s1 ->]. destruct a; try discriminate; z32. Qed.
Lemma z32_neg : forall a : f32, Zr32 a -> Zr32 (oneg a).
Proof. intros a [s1 ->]. z32. Qed.
Lemma z32_div : forall a b : f32, Zr32 a -> Fin32 b -> oeqb b (oZ 0) = false -> Zr32 (a /! b).
Proof.
  intros a b [s1 ->] Hb Hnz. destruct b as [s2|s2| |s2 m e Hm]; try discriminate; try z32.
  all: destruct s2; vm_compute in Hnz; discriminate.
Qed.
Lemma z32_hard : forall a : f32, Zr32 a -> Zr32 (hard_clip a).
Proof. intros a [s1 ->]. destruct s1; exists true + exists false; vm_compute; reflexivity. Qed.
Lemma z32_soft : forall a : f32, Zr32 a -> Zr32 (soft_clip a).
Proof. intros a [s1 ->]. destruct s1; exists true + exists false; vm_compute; reflexivity. Qed.

Theorem silence_b32 : forall (e : effect f32) xs s,
    sil_ok consts_f32 Zr32 Fin32 e -> cleared Zr32 s -> Forall (Zf Zr32) xs ->
    cleared Zr32 (fst (run_frames (estep consts_f32 e) s xs)) /\
    Forall (Zf Zr32) (snd (run_frames (estep consts_f32 e) s xs)).
Proof.
  apply run_silence;
    auto using z32_add, z32_sub, z32_mul_l, z32_mul_r, z32_neg, z32_div, z32_hard, z32_soft;
    try reflexivity; try (exists false; reflexivity).
Qed.

Theorem init_cleared_b32 : forall e : effect f32, cleared Zr32 (init e).
Proof. apply init_cleared; auto using z32_add; exists false; reflexivity. Qed.

(** distortion: after the repair of F4 the silence and finiteness conditions need no guard on the
    drive: at drive <= -60 dB (amplitude exactly 0) the wet signal is the input itself *)
Theorem distortion_zero_drive_any : forall (F : Type) (OPS : Ops F) (hard : bool) (drive mix : F) (x : frame F),
    oeqb drive (oZ 0) = true -> distortion_step hard drive mix x = blend x x mix.
Proof. intros F OPS hard drive mix x H. unfold distortion_step. rewrite H. reflexivity. Qed.
Example silent_drive_is_zero_amplitude_b32 :
  forall pw, db_amp pw (eff (f32_of_bits 0xC2700000)) = oZ 0 /\ oeqb (oZ 0 : f32) (oZ 0) = true.  (* -60.0 *)
Proof. intros pw. split; vm_compute; reflexivity. Qed.

(** compressor: a ratio of exactly 0 (outside the documented ratio > 0) turns silence into NaN
    ([0 * (1/0 - 1) = 0 * inf]); witness with libm replaced by the values it returns there *)
Definition lg_w (_ : f32) : f32 := B754_infinity true.   (* log10(0) = -inf *)
Definition pw_w (x : f32) : f32 := if oeqb x (oZ 0) then oZ 1 else x.   (* 10^0 = 1; powf(NaN) = NaN *)
Theorem compressor_silence_ratio0_refuted :
  exists (e : effect f32),
    e = ECompressor lg_w pw_w (oZ 0) (oZ 0) (f32_of_bits 0x3F7FF000) (f32_of_bits 0x3F7FFF00) (oZ 0) (oZ 1) /\
    snd (estep consts_f32 e (init e) fr_zero) = (B754_nan, B754_nan).
Proof. eexists; split; [reflexivity|vm_compute; reflexivity]. Qed.
(** ... while with ratio 2 the same compressor satisfies the hypotheses of [silence_b32] *)
Example compressor_sil_ok_b32 :
  sil_ok consts_f32 Zr32 Fin32
         (ECompressor lg_w pw_w (oZ (-20)) (oZ 2) (f32_of_bits 0x3F7FF000) (f32_of_bits 0x3F7FFF00) (oZ 3) (f32_of_bits 0x3F000000)).
Proof.
  cbn [sil_ok]. split; [split|split; vm_compute; reflexivity].
  - intros env v [s1 ->] [s2 ->]. destruct s1, s2; split; try (vm_compute; reflexivity);
      (exists true + exists false); vm_compute; reflexivity.
  - vm_compute; reflexivity.
Qed.

(** non-vacuity of [silence_b32] / [silence_R] on a nested tree: a delay of 3 frames with a
    low-pass filter, an inner delay with a panning control, and a reverb in its feedback loop *)
Definition demo32 : effect f32 :=
  EDelay 3 (f32_of_bits 0x3F000000) (f32_of_bits 0x3F000000)
         [EFilter LowPass (f32_of_bits 0x3F400000) (f32_of_bits 0x3E000000) (f32_of_bits 0x3D000000) (oZ 2) (oZ 1);
          EDelay 0 (f32_of_bits 0x3E800000) (oZ 0) [EPanning (f32_of_bits 0xBF000000)];
          EReverb [(2, 3)]%nat [(1, 2)]%nat (f32_of_bits 0x3F666666) (f32_of_bits 0x3DCCCCCD) (oZ 1) (f32_of_bits 0x3F000000);
          EDistortion false (oZ 0) (oZ 1)].
Example demo32_sil_ok : sil_ok consts_f32 Zr32 Fin32 demo32 /\ wf demo32 (init demo32) = true.
Proof.
  split; [|vm_compute; reflexivity].
  cbn [sil_ok demo32]. unfold mix_ok, pan_ok, Fin32.
  repeat split; try (vm_compute; reflexivity). right. split; vm_compute; reflexivity.
Qed.
