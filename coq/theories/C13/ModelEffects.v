(** C13 / C14 — per-frame bodies of the built-in effects, transcribed statement by statement from
    crates/kira/src/effect/{volume_control,panning_control,distortion,filter,eq_filter,compressor,
    reverb,reverb/comb,reverb/all_pass}.rs, over an abstract sample type.  The values that are
    fixed during one [process] call (interpolated parameters, coefficients) are arguments; the
    coefficient formulas (which need libm: tan, powf, exp) are separate functions taking the
    libm function as an argument.  Executable definitions only (no proofs). *)
From Coq Require Import ZArith List Bool.
From KV Require Import Base.Outcome C13.ModelOps.
Import ListNotations.
Open Scope ops_scope.

Inductive fmode := LowPass | BandPass | HighPass | Notch.
Inductive eqkind := Bell | LowShelf | HighShelf.

Section Effects.
  Context {F : Type} {OPS : Ops F}.
  Variable K : consts F.

  (** *** volume_control.rs: [*frame *= volume.as_amplitude()] *)
  Definition volume_step (amp : F) (x : frame F) : frame F := fr_scale x amp.

  (** *** frame.rs [Frame::panned] / panning_control.rs *)
  Definition panned (x : frame F) (p : F) : frame F :=
    if oeqb p (oZ 0) then x
    else
      let p' := oclamp p (oZ (-1)) (oZ 1) in
      let m := (p' +! oZ 1) *! c_half K in
      fr_scale (fst x *! osqrt (oZ 1 -! m), snd x *! osqrt m) (c_sqrt2 K).
  Definition panning_step (p : F) (x : frame F) : frame F := panned x p.

  (** *** distortion.rs; [drive] is the amplitude [as_amplitude()] of the drive in dB *)
  Definition hard_clip (v : F) : F := oclamp v (oZ (-1)) (oZ 1).
  Definition soft_clip (v : F) : F := v /! (oZ 1 +! oabs v).
  Definition distortion_step (hard : bool) (drive mix : F) (x : frame F) : frame F :=
    let o := fr_scale x drive in
    let o := if hard then (hard_clip (fst o), hard_clip (snd o))
             else (soft_clip (fst o), soft_clip (snd o)) in
    (* [if drive != 0.0 { output /= drive } else { output = *frame }] (repair of F4: a drive of
       -60 dB or less is an amplitude of exactly 0) *)
    let o := if oeqb drive (oZ 0) then x else fr_div o drive in
    blend o x mix.

  (** *** the trapezoidal state-variable core shared by filter.rs and eq_filter.rs:
      returns (v1, v2) and the new (ic1eq, ic2eq) *)
  Definition svf_core (a1 a2 a3 : F) (ic1 ic2 x : frame F) : (frame F * frame F) * (frame F * frame F) :=
    let v3 := fr_sub x ic2 in
    let v1 := fr_add (fr_scale ic1 a1) (fr_scale v3 a2) in
    let v2 := fr_add (fr_add ic2 (fr_scale ic1 a2)) (fr_scale v3 a3) in
    ((v1, v2), (fr_sub (fr_scale v1 (oZ 2)) ic1, fr_sub (fr_scale v2 (oZ 2)) ic2)).

  (** *** filter.rs; [a1 a2 a3 k] are the [as f32] casts of the f64 coefficients *)
  Definition filter_step (m : fmode) (a1 a2 a3 k mix : F) (s : frame F * frame F) (x : frame F)
    : (frame F * frame F) * frame F :=
    let '((v1, v2), s') := svf_core a1 a2 a3 (fst s) (snd s) x in
    let out := match m with
               | LowPass => v2
               | BandPass => v1
               | HighPass => fr_sub (fr_sub x (fr_scale v1 k)) v2
               | Notch => fr_sub x (fr_scale v1 k)
               end in
    (s', blend out x mix).

  (** *** eq_filter.rs: [*frame * m0 + v1 * m1 + v2 * m2] *)
  Definition eq_step (a1 a2 a3 m0 m1 m2 : F) (s : frame F * frame F) (x : frame F)
    : (frame F * frame F) * frame F :=
    let '((v1, v2), s') := svf_core a1 a2 a3 (fst s) (snd s) x in
    (s', fr_add (fr_add (fr_scale x m0) (fr_scale v1 m1)) (fr_scale v2 m2)).

  (** *** compressor.rs; [log10 x] is [x.log10()], [powf10 x] is [10.0f32.powf(x)];
      [sp_att], [sp_rel] are [(-1.0 / (duration.as_secs_f64() / dt)).exp() as f32] for the attack /
      release duration; state = the two envelope followers *)
  Definition comp_channel (log10 powf10 : F -> F) (thr ratio sp_att sp_rel : F) (env v : F) : F * F :=
    let input_db := oZ 20 *! log10 (oabs v) in
    let over := omax (input_db -! thr) (oZ 0) in
    let sp := if oltb over env then sp_rel else sp_att in
    let env' := over +! sp *! (env -! over) in
    let gr := env' *! ((oZ 1 /! ratio) -! oZ 1) in
    (env', powf10 (gr /! oZ 20)).
  Definition compressor_step (log10 powf10 : F -> F) (thr ratio sp_att sp_rel mk_db mix : F)
             (s : F * F) (x : frame F) : (F * F) * frame F :=
    let '(el, al) := comp_channel log10 powf10 thr ratio sp_att sp_rel (fst s) (fst x) in
    let '(er, ar) := comp_channel log10 powf10 thr ratio sp_att sp_rel (snd s) (snd x) in
    let mk := powf10 (mk_db /! oZ 20) in
    let out := fr_scale (al *! fst x, ar *! snd x) mk in
    ((el, er), blend out x mix).

  (** *** reverb/comb.rs; state (filter_store, buffer, current_index).  Indexing an empty buffer
      panics in the code; [reverb_process] (ModelTree.v) checks that before using these. *)
  Definition comb : Type := (F * list F * nat)%type.
  Definition comb_new (n : nat) : comb := (oZ 0, repeat (oZ 0) n, O).
  Definition comb_step (fb damp : F) (c : comb) (input : F) : comb * F :=
    let '(store, buf, idx) := c in
    let out := nth idx buf (oZ 0) in
    let store' := out *! (oZ 1 -! damp) +! store *! damp in
    let buf' := upd idx (input +! store' *! fb) buf in
    ((store', buf', Nat.modulo (S idx) (length buf)), out).

  (** *** reverb/all_pass.rs; FEEDBACK = 0.5 *)
  Definition allpass : Type := (list F * nat)%type.
  Definition allpass_new (n : nat) : allpass := (repeat (oZ 0) n, O).
  Definition allpass_step (a : allpass) (input : F) : allpass * F :=
    let '(buf, idx) := a in
    let bo := nth idx buf (oZ 0) in
    let out := oneg input +! bo in
    let buf' := upd idx (input +! bo *! c_half K) buf in
    ((buf', Nat.modulo (S idx) (length buf)), out).

  (** *** reverb.rs: 8 comb pairs in parallel, 4 all-pass pairs in series, width, blend *)
  Definition reverb_state : Type := (list (comb * comb) * list (allpass * allpass))%type.
  Fixpoint combs_step (fb damp : F) (cs : list (comb * comb)) (input : F) (acc : frame F)
    : list (comb * comb) * frame F :=
    match cs with
    | [] => ([], acc)
    | (cl, cr) :: cs' =>
        let (cl', ol) := comb_step fb damp cl input in
        let (cr', or_) := comb_step fb damp cr input in
        let (cs'', acc') := combs_step fb damp cs' input (fst acc +! ol, snd acc +! or_) in
        ((cl', cr') :: cs'', acc')
    end.
  Fixpoint allpasses_step (aps : list (allpass * allpass)) (v : frame F) : list (allpass * allpass) * frame F :=
    match aps with
    | [] => ([], v)
    | (al, ar) :: aps' =>
        let (al', ol) := allpass_step al (fst v) in
        let (ar', or_) := allpass_step ar (snd v) in
        let (aps'', v') := allpasses_step aps' (ol, or_) in
        ((al', ar') :: aps'', v')
    end.
  Definition reverb_step (fb damp width mix : F) (s : reverb_state) (x : frame F) : reverb_state * frame F :=
    let mono := (fst x +! snd x) *! c_gain K in
    let (cs', o1) := combs_step fb damp (fst s) mono fr_zero in
    let (aps', o2) := allpasses_step (snd s) o1 in
    let wet1 := width /! oZ 2 +! c_half K in
    let wet2 := (oZ 1 -! width) /! oZ 2 in
    let out := (fst o2 *! wet1 +! snd o2 *! wet2, snd o2 *! wet1 +! fst o2 *! wet2) in
    ((cs', aps'), blend out x mix).
  Definition reverb_new (csz asz : list (nat * nat)) : reverb_state :=
    (map (fun p => (comb_new (fst p), comb_new (snd p))) csz,
     map (fun p => (allpass_new (fst p), allpass_new (snd p))) asz).
  Definition reverb_buffers_nonempty (s : reverb_state) : bool :=
    forallb (fun p => negb (Nat.eqb (length (snd (fst (fst p)))) 0) && negb (Nat.eqb (length (snd (fst (snd p)))) 0)) (fst s)
    && forallb (fun p => negb (Nat.eqb (length (fst (fst p))) 0) && negb (Nat.eqb (length (fst (snd p))) 0)) (snd s).
End Effects.

(** ** coefficient formulas (f64 in the code; [D] is that type).  [tan], [pow10] ([10.0f64.powf]),
    [exp] are the libm functions.  Non-integer literals are arguments. *)
Section Coefficients.
  Context {D : Type} {OPS : Ops D}.
  Variables (c_pi c_1e4 c_half c_1p9 c_minq : D).   (* PI, 0.0001, 0.5, 1.9, MIN_Q = 0.01 *)
  Variable tan : D -> D.

  (** filter.rs: returns (a1, a2, a3, k) still in f64 *)
  Definition filter_coeffs (cutoff resonance dt : D) : D * D * D * D :=
    let resonance := oclamp resonance (oZ 0) (oZ 1) in
    let sample_rate := oZ 1 /! dt in
    let g := tan (c_pi *! oclamp (cutoff /! sample_rate) c_1e4 c_half) in
    let k := oZ 2 -! (c_1p9 *! resonance) in
    let a1 := oZ 1 /! (oZ 1 +! (g *! (g +! k))) in
    let a2 := g *! a1 in
    let a3 := g *! a2 in
    (a1, a2, a3, k).

  Variable pow10 : D -> D.
  (** eq_filter.rs [Coefficients::calculate]; [gain] is [gain.0 as f64];
      returns ((a1, a2, a3), (m0, m1, m2)) *)
  Definition eq_coeffs (kind : eqkind) (frequency q gain dt : D) : (D * D * D) * (D * D * D) :=
    let rf := oclamp (frequency *! dt) c_1e4 c_half in
    let q := omax q c_minq in
    let a := pow10 (gain /! oZ 40) in
    match kind with
    | Bell =>
        let g := tan (c_pi *! rf) in
        let k := oZ 1 /! (q *! a) in
        let a1 := oZ 1 /! (oZ 1 +! g *! (g +! k)) in
        let a2 := g *! a1 in
        let a3 := g *! a2 in
        ((a1, a2, a3), (oZ 1, k *! (a *! a -! oZ 1), oZ 0))
    | LowShelf =>
        let g := tan (c_pi *! rf) /! osqrt a in
        let k := oZ 1 /! q in
        let a1 := oZ 1 /! (oZ 1 +! g *! (g +! k)) in
        let a2 := g *! a1 in
        let a3 := g *! a2 in
        ((a1, a2, a3), (oZ 1, k *! (a -! oZ 1), a *! a -! oZ 1))
    | HighShelf =>
        let g := tan (c_pi *! rf) *! osqrt a in
        let k := oZ 1 /! q in
        let a1 := oZ 1 /! (oZ 1 +! g *! (g +! k)) in
        let a2 := g *! a1 in
        let a3 := g *! a2 in
        ((a1, a2, a3), (a *! a, k *! (oZ 1 -! a) *! a, oZ 1 -! a *! a))
    end.

  Variable exp : D -> D.
  (** compressor.rs: [(-1.0 / (duration.as_secs_f64() / dt)).exp()] (cast to f32 by the caller) *)
  Definition comp_speed (duration_secs dt : D) : D := exp (oZ (-1) /! (duration_secs /! dt)).
End Coefficients.
