(** C13 — chunk-freedom.  Every effect's [process] (the code, slice in / slice out) equals the
    frame-by-frame recurrence [run_frames (estep e)], for ANY operations on the sample type (no
    algebraic law is used, so this holds bit-for-bit of IEEE arithmetic).  The real content is the
    delay: the chunked shift-register code ([chunks_mut], temp buffer, [copy_within]) against the
    per-sample recurrence, for every delay length >= 1, every slice length up to the internal
    buffer size, and every (nested) feedback chain. *)
From Coq Require Import ZArith List Bool Lia Arith.
From KV Require Import Base.Outcome C13.ModelOps C13.ModelEffects C13.ModelDelay C13.ModelTree.
Import ListNotations.

(** * generic facts about the frame-by-frame driver *)
Section RunFacts.
  Context {S A B : Type}.
  Variable step : S -> A -> S * B.

  Lemma run_frames_app : forall xs ys s,
      run_frames step s (xs ++ ys) =
      (fst (run_frames step (fst (run_frames step s xs)) ys),
       snd (run_frames step s xs) ++ snd (run_frames step (fst (run_frames step s xs)) ys)).
  Proof.
    induction xs as [|x xs IH]; intros ys s; cbn [run_frames app].
    - cbn. destruct (run_frames step s ys); reflexivity.
    - destruct (step s x) as [s1 y]. rewrite IH.
      destruct (run_frames step s1 xs) as [s2 o2]; cbn [fst snd].
      destruct (run_frames step s2 ys) as [s3 o3]; reflexivity.
  Qed.

  Lemma run_frames_length : forall xs s, length (snd (run_frames step s xs)) = length xs.
  Proof.
    induction xs as [|x xs IH]; intros s; cbn [run_frames]; [reflexivity|].
    destruct (step s x) as [s1 y]. specialize (IH s1).
    destruct (run_frames step s1 xs); cbn in *; lia.
  Qed.

  Lemma run_frames_inv (Inv : S -> Prop) :
    (forall s x, Inv s -> Inv (fst (step s x))) ->
    forall xs s, Inv s -> Inv (fst (run_frames step s xs)).
  Proof.
    intros Hstep. induction xs as [|x xs IH]; intros s Hs; cbn [run_frames]; [exact Hs|].
    pose proof (Hstep s x Hs) as H1. destruct (step s x) as [s1 y]. cbn [fst] in H1.
    specialize (IH s1 H1). destruct (run_frames step s1 xs); exact IH.
  Qed.
End RunFacts.

Lemma firstn_app_le {A} (n : nat) (l1 l2 : list A) : n <= length l1 -> firstn n (l1 ++ l2) = firstn n l1.
Proof.
  intros H. rewrite firstn_app. replace (n - length l1) with 0 by lia. cbn. apply app_nil_r.
Qed.
Lemma skipn_app_le {A} (n : nat) (l1 l2 : list A) : n <= length l1 -> skipn n (l1 ++ l2) = skipn n l1 ++ l2.
Proof.
  intros H. rewrite skipn_app. replace (n - length l1) with 0 by lia. reflexivity.
Qed.

(** * the delay *)
Section DelayProof.
  Context {F : Type} {OPS : Ops F}.
  Variable S : Type.
  Variable fxproc : S -> list (frame F) -> outcome (S * list (frame F)).
  Variable T : nat.
  Variables g mix : F.
  Variable fxstep : S -> frame F -> S * frame F.
  (** the feedback chain is itself sequential on slices that fit the internal buffer, on the
      states it can reach *)
  Variable Inv : S -> Prop.
  Hypothesis Hfx : forall s ys, Inv s -> length ys <= T -> fxproc s ys = Ok (run_frames fxstep s ys).
  Hypothesis HInv : forall s y, Inv s -> Inv (fst (fxstep s y)).

  Notation dstep := (delay_step S g mix fxstep).
  Definition flat3 (r : (list (frame F) * S) * list (frame F)) : list (frame F) * S * list (frame F) :=
    (fst (fst r), snd (fst r), snd r).

  (** [n <= D] per-sample steps in closed form: the first [n] slots are read before anything
      written during these steps is reached *)
  Lemma delay_steps_closed : forall c buf s,
      length c <= length buf ->
      run_frames dstep (buf, s) c =
      let r := run_frames fxstep s (firstn (length c) buf) in
      let w := map (fun f => fr_scale f g) (snd r) in
      ((skipn (length c) buf ++ map2 fr_add c w, fst r), map2 (fun t x => blend t x mix) w c).
  Proof.
    induction c as [|x c IH]; intros buf s Hlen.
    - cbn. rewrite app_nil_r. reflexivity.
    - destruct buf as [|b buf]; [cbn in Hlen; lia|].
      cbn [length] in Hlen.
      cbn [run_frames delay_step hd tl length firstn skipn].
      destruct (fxstep s b) as [s1 r1] eqn:E1.
      rewrite IH by (rewrite app_length; cbn; lia).
      rewrite firstn_app_le by lia. rewrite skipn_app_le by lia.
      destruct (run_frames fxstep s1 (firstn (length c) buf)) as [s2 rs] eqn:E2.
      cbn [fst snd map map2]. rewrite <- app_assoc. reflexivity.
  Qed.

  Lemma dstep_len : forall buf s x, buf <> [] -> length (fst (fst (dstep (buf, s) x))) = length buf.
  Proof.
    intros buf s x Hne. cbn [delay_step]. destruct (fxstep s (hd fr_zero buf)) as [s1 r1].
    cbn [fst]. destruct buf; [congruence|]. cbn. rewrite app_length. cbn. lia.
  Qed.

  Definition dinv (d : nat) (st : list (frame F) * S) : Prop := length (fst st) = d /\ Inv (snd st).
  Lemma dstep_inv : forall d st x, 1 <= d -> dinv d st -> dinv d (fst (dstep st x)).
  Proof.
    intros d [buf s] x Hd [Hl Hi]. cbn [fst snd] in *. split.
    - rewrite dstep_len; [exact Hl|]. destruct buf; cbn in *; [lia|congruence].
    - cbn [delay_step]. pose proof (HInv s (hd fr_zero buf) Hi) as H.
      destruct (fxstep s (hd fr_zero buf)) as [s1 r1]. exact H.
  Qed.

  Lemma delay_chunk_spec : forall c buf s,
      Inv s -> length c <= length buf -> length c <= T ->
      delay_chunk S fxproc T g mix buf s c = Ok (flat3 (run_frames dstep (buf, s) c)).
  Proof.
    intros c buf s Hi Hlen HT. unfold delay_chunk.
    assert (HltF : Nat.ltb T (length c) = false) by (apply Nat.ltb_ge; lia). rewrite HltF.
    rewrite Hfx; [|exact Hi|rewrite firstn_length; lia].
    rewrite delay_steps_closed by exact Hlen.
    destruct (run_frames fxstep s (firstn (length c) buf)) as [s' t1]. reflexivity.
  Qed.

  Lemma delay_loop_spec : forall fuel xs buf s,
      1 <= length buf -> Inv s -> length xs <= fuel -> length xs <= T ->
      delay_loop S fxproc T g mix fuel buf s xs = Ok (flat3 (run_frames dstep (buf, s) xs)).
  Proof.
    induction fuel as [|fuel IH]; intros xs buf s Hd Hi Hfuel HT.
    - destruct xs; [reflexivity|cbn in Hfuel; lia].
    - destruct xs as [|x xs']; [reflexivity|].
      set (xs := x :: xs') in *. cbn [delay_loop]. fold xs.
      set (d := length buf) in *.
      assert (Hc : length (firstn d xs) <= d) by (rewrite firstn_length; lia).
      rewrite delay_chunk_spec; [|exact Hi|exact Hc|rewrite firstn_length; lia].
      cbn [obind].
      pose proof (run_frames_inv dstep (dinv d) (fun st y H => dstep_inv d st y Hd H) (firstn d xs) (buf, s)
                                 (conj eq_refl Hi)) as Hinv1.
      assert (Happ : run_frames dstep (buf, s) xs = run_frames dstep (buf, s) (firstn d xs ++ skipn d xs))
        by (rewrite firstn_skipn; reflexivity).
      rewrite Happ. rewrite run_frames_app.
      destruct (run_frames dstep (buf, s) (firstn d xs)) as [[buf1 s1] o1]. cbn [fst snd flat3] in *.
      destruct Hinv1 as [Hl1 Hi1]. cbn [fst snd] in Hl1, Hi1. subst d.
      assert (Hrest : length (skipn (length buf) xs) <= fuel).
      { rewrite skipn_length. subst xs. cbn [length] in *. lia. }
      rewrite IH; [|lia|exact Hi1|exact Hrest|rewrite skipn_length; lia].
      destruct (run_frames dstep (buf1, s1) (skipn (length buf) xs)) as [[buf2 s2] o2]. reflexivity.
  Qed.

  (** the chunked code is the per-sample recurrence *)
  Theorem delay_process_spec : forall xs buf s,
      1 <= length buf -> Inv s -> length xs <= T ->
      delay_process S fxproc T g mix buf s xs = Ok (flat3 (run_frames dstep (buf, s) xs)).
  Proof.
    intros xs buf s Hd Hi HT. unfold delay_process.
    destruct (Nat.eqb_spec (length buf) 0) as [E|_]; [lia|].
    apply delay_loop_spec; auto.
  Qed.

  (** F3: a delay line of zero frames panics, whatever the input *)
  Theorem delay_zero_length_panics : forall s xs, delay_process S fxproc T g mix [] s xs = Panic ChunkSizeZero.
  Proof. reflexivity. Qed.
End DelayProof.

(** * the effect family *)
Section EffectInd.
  Context {F : Type}.
  Variable P : effect F -> Prop.
  Hypothesis Hvol : forall a, P (EVolume a).
  Hypothesis Hpan : forall p, P (EPanning p).
  Hypothesis Hdist : forall h d m, P (EDistortion h d m).
  Hypothesis Hfil : forall m a1 a2 a3 k mix, P (EFilter m a1 a2 a3 k mix).
  Hypothesis Heq : forall a1 a2 a3 m0 m1 m2, P (EEq a1 a2 a3 m0 m1 m2).
  Hypothesis Hcomp : forall lg pw thr ratio sa sr mk mix, P (ECompressor lg pw thr ratio sa sr mk mix).
  Hypothesis Hdelay : forall d g mix fx, Forall P fx -> P (EDelay d g mix fx).
  Hypothesis Hrev : forall csz asz fb damp width mix, P (EReverb csz asz fb damp width mix).
  Fixpoint effect_ind' (e : effect F) : P e :=
    match e with
    | EVolume a => Hvol a
    | EPanning p => Hpan p
    | EDistortion h d m => Hdist h d m
    | EFilter m a1 a2 a3 k mix => Hfil m a1 a2 a3 k mix
    | EEq a1 a2 a3 m0 m1 m2 => Heq a1 a2 a3 m0 m1 m2
    | ECompressor lg pw thr ratio sa sr mk mix => Hcomp lg pw thr ratio sa sr mk mix
    | EDelay d g mix fx =>
        Hdelay d g mix fx
               ((fix go (l : list (effect F)) : Forall P l :=
                   match l with
                   | [] => Forall_nil P
                   | e' :: l' => Forall_cons e' (effect_ind' e') (go l')
                   end) fx)
    | EReverb csz asz fb damp width mix => Hrev csz asz fb damp width mix
    end.
End EffectInd.

Section TreeProof.
  Context {F : Type} {OPS : Ops F}.
  Variable K : consts F.

  (** unfolding equations of the nested fixpoints (by conversion) *)
  Lemma estep_delay_eq : forall d g mix fx buf sub x,
      estep K (EDelay d g mix fx) (SDelay buf sub) x =
      let '((buf', sub'), y) := delay_step (list (estate F)) g mix (chain_step K fx) (buf, sub) x in
      (SDelay buf' sub', y).
  Proof. reflexivity. Qed.
  Lemma process_delay_eq : forall T d g mix fx buf sub xs,
      process K T (EDelay d g mix fx) (SDelay buf sub) xs =
      (let! (buf', sub', out) := delay_process (list (estate F)) (chain_process K T fx) T g mix buf sub xs in
       Ok (SDelay buf' sub', out)).
  Proof. reflexivity. Qed.
  Lemma wf_delay_eq : forall d (g mix : F) fx buf sub,
      wf (EDelay d g mix fx) (SDelay buf sub) =
      (Nat.eqb (length buf) (Nat.max d 1) && wf_list fx sub).
  Proof. reflexivity. Qed.

  (** *** [wf] is preserved by a step *)
  Lemma upd_length {A} : forall (l : list A) i v, length (upd i v l) = length l.
  Proof. induction l as [|a l IH]; intros [|i] v; cbn; auto. Qed.

  Lemma comb_step_len : forall fb damp c x,
      length (snd (fst (fst (comb_step fb damp c x)))) = length (snd (fst c)).
  Proof. intros fb damp [[st buf] idx] x. cbn. apply upd_length. Qed.
  Lemma allpass_step_len : forall a x,
      length (fst (fst (allpass_step K a x))) = length (fst a).
  Proof. intros [buf idx] x. cbn. apply upd_length. Qed.

  Definition combs_ok (cs : list (@comb F * @comb F)) : bool :=
    forallb (fun p => negb (Nat.eqb (length (snd (fst (fst p)))) 0) && negb (Nat.eqb (length (snd (fst (snd p)))) 0)) cs.
  Definition aps_ok (aps : list (@allpass F * @allpass F)) : bool :=
    forallb (fun p => negb (Nat.eqb (length (fst (fst p))) 0) && negb (Nat.eqb (length (fst (snd p))) 0)) aps.

  Lemma combs_step_ok : forall fb damp cs x acc,
      combs_ok cs = true -> combs_ok (fst (combs_step fb damp cs x acc)) = true.
  Proof.
    induction cs as [|[cl cr] cs IH]; intros x acc H; [reflexivity|].
    cbn [combs_step]. cbn [combs_ok forallb fst snd] in H. apply andb_prop in H as [H1 H2].
    pose proof (comb_step_len fb damp cl x) as L1. pose proof (comb_step_len fb damp cr x) as L2.
    destruct (comb_step fb damp cl x) as [cl' ol]. destruct (comb_step fb damp cr x) as [cr' or_].
    specialize (IH x (oadd (fst acc) ol, oadd (snd acc) or_) H2).
    destruct (combs_step fb damp cs x (oadd (fst acc) ol, oadd (snd acc) or_)) as [cs'' acc'].
    cbn [fst snd] in *. cbn [combs_ok forallb fst snd]. rewrite L1, L2.
    fold (combs_ok cs''). rewrite IH, H1. reflexivity.
  Qed.
  Lemma allpasses_step_ok : forall aps v,
      aps_ok aps = true -> aps_ok (fst (allpasses_step K aps v)) = true.
  Proof.
    induction aps as [|[al ar] aps IH]; intros v H; [reflexivity|].
    cbn [allpasses_step]. cbn [aps_ok forallb fst snd] in H. apply andb_prop in H as [H1 H2].
    pose proof (allpass_step_len al (fst v)) as L1. pose proof (allpass_step_len ar (snd v)) as L2.
    destruct (allpass_step K al (fst v)) as [al' ol]. destruct (allpass_step K ar (snd v)) as [ar' or_].
    specialize (IH (ol, or_) H2).
    destruct (allpasses_step K aps (ol, or_)) as [aps'' v'].
    cbn [fst snd] in *. cbn [aps_ok forallb fst snd]. rewrite L1, L2.
    fold (aps_ok aps''). rewrite IH, H1. reflexivity.
  Qed.
  Lemma reverb_step_ok : forall fb damp width mix r x,
      reverb_buffers_nonempty r = true ->
      reverb_buffers_nonempty (fst (reverb_step K fb damp width mix r x)) = true.
  Proof.
    intros fb damp width mix [cs aps] x H. unfold reverb_buffers_nonempty in H. cbn [fst snd] in H.
    apply andb_prop in H as [H1 H2].
    unfold reverb_step. cbn [fst snd].
    pose proof (combs_step_ok fb damp cs (omul (oadd (fst x) (snd x)) (c_gain K)) fr_zero H1) as C1.
    destruct (combs_step fb damp cs (omul (oadd (fst x) (snd x)) (c_gain K)) fr_zero) as [cs' o1].
    pose proof (allpasses_step_ok aps o1 H2) as C2.
    destruct (allpasses_step K aps o1) as [aps' o2].
    cbn [fst snd] in *. unfold reverb_buffers_nonempty. cbn [fst snd].
    unfold combs_ok in C1. unfold aps_ok in C2. rewrite C1, C2. reflexivity.
  Qed.

  Lemma chain_step_wf : forall fx,
      Forall (fun e => forall s x, wf e s = true -> wf e (fst (estep K e s x)) = true) fx ->
      forall ss y, wf_list fx ss = true -> wf_list fx (fst (chain_step K fx ss y)) = true.
  Proof.
    induction 1 as [|e l He Hl IH]; intros ss y Hw.
    - destruct ss; cbn in *; [reflexivity|discriminate].
    - destruct ss as [|s ss]; [cbn in Hw; discriminate|].
      cbn [wf_list] in Hw. apply andb_prop in Hw as [W1 W2].
      cbn [chain_step]. specialize (He s y W1).
      destruct (estep K e s y) as [s'' z]. specialize (IH ss z W2).
      destruct (chain_step K l ss z) as [ss'' w]. cbn [fst] in *.
      cbn [wf_list]. rewrite He, IH. reflexivity.
  Qed.

  Lemma estep_wf : forall e s x, wf e s = true -> wf e (fst (estep K e s x)) = true.
  Proof.
    induction e as [a|p|h d m|m a1 a2 a3 k mix|a1 a2 a3 m0 m1 m2|lg pw thr ratio sa sr mk mix
                   |d g mix fx IH|csz asz fb damp width mix] using effect_ind'; intros s x Hw.
    - exact Hw.
    - exact Hw.
    - exact Hw.
    - destruct s; try discriminate. cbn [estep]. destruct (filter_step m a1 a2 a3 k mix ic x). reflexivity.
    - destruct s; try discriminate. cbn [estep]. destruct (eq_step a1 a2 a3 m0 m1 m2 ic x). reflexivity.
    - destruct s; try discriminate. cbn [estep]. destruct (compressor_step lg pw thr ratio sa sr mk mix env x). reflexivity.
    - destruct s as [| | |buf sub|]; try discriminate.
      rewrite wf_delay_eq in Hw. apply andb_prop in Hw as [W1 W3].
      rewrite estep_delay_eq. cbn [delay_step].
      pose proof (chain_step_wf fx IH sub (hd fr_zero buf) W3) as C.
      destruct (chain_step K fx sub (hd fr_zero buf)) as [sub' r1]. cbn [fst] in C.
      cbn [fst]. rewrite wf_delay_eq. rewrite C.
      apply Nat.eqb_eq in W1.
      destruct buf as [|b buf]; [cbn in W1; lia|].
      cbn [tl fst]. rewrite app_length. cbn [length] in *.
      replace (length buf + 1) with (Nat.max d 1) by lia. rewrite Nat.eqb_refl. reflexivity.
    - destruct s; try discriminate. cbn [wf] in Hw. cbn [estep].
      pose proof (reverb_step_ok fb damp width mix r x Hw) as R.
      destruct (reverb_step K fb damp width mix r x). cbn [fst] in *. exact R.
  Qed.

  Lemma chain_step_wf' : forall fx ss y, wf_list fx ss = true -> wf_list fx (fst (chain_step K fx ss y)) = true.
  Proof.
    intros fx. apply chain_step_wf. apply Forall_forall. intros e _. apply estep_wf.
  Qed.

  Theorem run_wf : forall e xs s, wf e s = true -> wf e (fst (run_frames (estep K e) s xs)) = true.
  Proof.
    intros e xs s. apply (run_frames_inv (estep K e) (fun s => wf e s = true)). intros; apply estep_wf; assumption.
  Qed.

  (** *** a chain on a slice = the chain frame by frame *)
  Lemma chain_run : forall fx ss ys,
      run_frames (chain_step K fx) ss ys =
      match fx, ss with
      | e :: l, s :: ss' =>
          let (s'', zs) := run_frames (estep K e) s ys in
          let (ss'', ws) := run_frames (chain_step K l) ss' zs in
          (s'' :: ss'', ws)
      | _, _ => (ss, ys)
      end.
  Proof.
    assert (Hid : forall (st : list (estate F) -> frame F -> list (estate F) * frame F) s0,
               (forall x, st s0 x = (s0, x)) -> forall ys, run_frames st s0 ys = (s0, ys)).
    { intros st s0 Hst. induction ys as [|y ys IH]; [reflexivity|].
      cbn [run_frames]. rewrite Hst, IH. reflexivity. }
    intros fx ss. destruct fx as [|e l].
    - intros ys. apply Hid. reflexivity.
    - destruct ss as [|s ss'].
      + intros ys. apply Hid. reflexivity.
      + intros ys. revert s ss'. induction ys as [|y ys IH]; intros s ss'; [reflexivity|].
        cbn [run_frames chain_step].
        destruct (estep K e s y) as [s1 z] eqn:E1. destruct (chain_step K l ss' z) as [ss1 w] eqn:E2.
        rewrite IH. destruct (run_frames (estep K e) s1 ys) as [s2 zs].
        cbn [run_frames]. rewrite E2.
        destruct (run_frames (chain_step K l) ss1 zs) as [ss2 ws]. reflexivity.
  Qed.

  Definition seq_at (T : nat) (e : effect F) : Prop :=
    forall s xs, wf e s = true -> length xs <= T -> process K T e s xs = Ok (run_frames (estep K e) s xs).

  Lemma chain_process_spec : forall T fx,
      Forall (seq_at T) fx ->
      forall ss ys, wf_list fx ss = true -> length ys <= T ->
                    chain_process K T fx ss ys = Ok (run_frames (chain_step K fx) ss ys).
  Proof.
    intros T fx H. induction H as [|e l He Hl IH]; intros ss ys Hw HT.
    - rewrite chain_run. destruct ss; reflexivity.
    - destruct ss as [|s ss']; [cbn in Hw; discriminate|].
      cbn [wf_list] in Hw. apply andb_prop in Hw as [W1 W2].
      rewrite chain_run. cbn [chain_process]. rewrite (He s ys W1 HT). cbn [obind].
      pose proof (run_frames_length (estep K e) ys s) as L.
      destruct (run_frames (estep K e) s ys) as [s'' zs]. cbn [snd] in L.
      fold (chain_process K T). rewrite IH by (auto; lia). cbn [obind].
      destruct (run_frames (chain_step K l) ss' zs) as [ss'' ws]. reflexivity.
  Qed.

  (** *** main theorem: the code of every effect, for every nesting, is the frame-by-frame
      recurrence on every slice that fits the internal buffer *)
  Theorem process_is_stepwise : forall T e, seq_at T e.
  Proof.
    intros T.
    induction e as [a|p|h d m|m a1 a2 a3 k mix|a1 a2 a3 m0 m1 m2|lg pw thr ratio sa sr mk mix
                   |d g mix fx IH|csz asz fb damp width mix] using effect_ind'; intros s xs Hw HT;
      try reflexivity.
    - (* delay *)
      destruct s as [| | |buf sub|]; try discriminate.
      rewrite wf_delay_eq in Hw. apply andb_prop in Hw as [W1 W3].
      apply Nat.eqb_eq in W1.
      rewrite process_delay_eq.
      rewrite (delay_process_spec (list (estate F)) (chain_process K T fx) T g mix (chain_step K fx)
                                  (fun ss => wf_list fx ss = true)).
      + cbn [obind].
        (* both sides are now the same recurrence; unfold the right-hand one *)
        assert (E : forall ys b ss,
                   (let '(buf', sub', out) := flat3 (list (estate F))
                        (run_frames (delay_step (list (estate F)) g mix (chain_step K fx)) (b, ss) ys) in
                    (SDelay buf' sub', out)) =
                   run_frames (estep K (EDelay d g mix fx)) (SDelay b ss) ys).
        { induction ys as [|y ys IHy]; intros b ss; [reflexivity|].
          cbn [run_frames]. rewrite estep_delay_eq.
          destruct (delay_step (list (estate F)) g mix (chain_step K fx) (b, ss) y) as [[b1 ss1] o].
          rewrite <- IHy.
          destruct (run_frames (delay_step (list (estate F)) g mix (chain_step K fx)) (b1, ss1) ys) as [[b2 ss2] os].
          reflexivity. }
        rewrite <- E.
        destruct (flat3 (list (estate F)) (run_frames (delay_step (list (estate F)) g mix (chain_step K fx)) (buf, sub) xs)) as [[b' s'] o'].
        reflexivity.
      + intros ss ys Hss Hys. apply chain_process_spec; assumption.
      + intros ss y Hss. apply chain_step_wf'. exact Hss.
      + lia.
      + exact W3.
      + exact HT.
    - (* reverb *)
      destruct s; try discriminate. cbn [wf] in Hw. cbn [process]. rewrite Hw.
      destruct xs; reflexivity.
  Qed.

  (** *** partition independence: any slicing into slices that fit the internal buffer gives the
      output (and final state) of the frame-by-frame recurrence on the whole input *)
  Theorem process_slices_is_stepwise : forall T e slices s,
      wf e s = true -> Forall (fun sl => length sl <= T) slices ->
      process_slices K T e s slices = Ok (run_frames (estep K e) s (concat slices)).
  Proof.
    intros T e slices. induction slices as [|sl rest IH]; intros s Hw Hall; [reflexivity|].
    inversion Hall as [|? ? Hsl Hrest]; subst.
    cbn [process_slices concat]. rewrite (process_is_stepwise T e s sl Hw Hsl).
    rewrite run_frames_app. pose proof (run_wf e sl s Hw) as Hw1.
    destruct (run_frames (estep K e) s sl) as [s1 o1]. cbn [obind fst snd] in *.
    rewrite (IH s1 Hw1 Hrest). destruct (run_frames (estep K e) s1 (concat rest)) as [s2 o2]. reflexivity.
  Qed.

  Corollary partition_independent : forall T e s sl1 sl2,
      wf e s = true ->
      Forall (fun sl => length sl <= T) sl1 -> Forall (fun sl => length sl <= T) sl2 ->
      concat sl1 = concat sl2 ->
      process_slices K T e s sl1 = process_slices K T e s sl2.
  Proof.
    intros T e s sl1 sl2 Hw H1 H2 E.
    rewrite !process_slices_is_stepwise by assumption. rewrite E. reflexivity.
  Qed.

  (** sequential composition of two calls *)
  Corollary process_seq : forall T e s xs ys,
      wf e s = true -> length xs <= T -> length ys <= T -> length (xs ++ ys) <= T ->
      process K T e s (xs ++ ys) =
      (let! (s1, o1) := process K T e s xs in
       let! (s2, o2) := process K T e s1 ys in Ok (s2, o1 ++ o2)).
  Proof.
    intros T e s xs ys Hw Hx Hy Hxy.
    rewrite (process_is_stepwise T e s _ Hw Hxy), (process_is_stepwise T e s _ Hw Hx).
    rewrite run_frames_app. pose proof (run_wf e xs s Hw) as Hw1.
    destruct (run_frames (estep K e) s xs) as [s1 o1]. cbn [obind fst snd] in *.
    rewrite (process_is_stepwise T e s1 _ Hw1 Hy).
    destruct (run_frames (estep K e) s1 ys) as [s2 o2]. reflexivity.
  Qed.

  (** [init] gives a well-formed state as soon as no reverb buffer is empty (sample rates of
      196 Hz and more); every delay line holds at least one frame whatever the delay time and
      sample rate (repair of F3) *)
  Fixpoint buffers_ok (e : effect F) : bool :=
    match e with
    | EDelay _ _ _ fx => forallb buffers_ok fx
    | EReverb csz asz _ _ _ _ =>
        forallb (fun p => negb (Nat.eqb (fst p) 0) && negb (Nat.eqb (snd p) 0)) csz &&
        forallb (fun p => negb (Nat.eqb (fst p) 0) && negb (Nat.eqb (snd p) 0)) asz
    | _ => true
    end.

  Lemma reverb_new_ok : forall csz asz,
      forallb (fun p => negb (Nat.eqb (fst p) 0) && negb (Nat.eqb (snd p) 0)) csz = true ->
      forallb (fun p => negb (Nat.eqb (fst p) 0) && negb (Nat.eqb (snd p) 0)) asz = true ->
      @reverb_buffers_nonempty F (reverb_new csz asz) = true.
  Proof.
    intros csz asz H1 H2. unfold reverb_buffers_nonempty, reverb_new. cbn [fst snd].
    apply andb_true_intro; split.
    - clear H2. induction csz as [|p l IH]; [reflexivity|].
      cbn [forallb map] in *. apply andb_prop in H1 as [Hp Hl]. rewrite (IH Hl).
      unfold comb_new. cbn [fst snd]. rewrite !repeat_length. rewrite Hp. reflexivity.
    - clear H1. induction asz as [|p l IH]; [reflexivity|].
      cbn [forallb map] in *. apply andb_prop in H2 as [Hp Hl]. rewrite (IH Hl).
      unfold allpass_new. cbn [fst snd]. rewrite !repeat_length. rewrite Hp. reflexivity.
  Qed.

  Theorem init_wf : forall e, buffers_ok e = true -> wf e (init e) = true.
  Proof.
    induction e as [a|p|h d m|m a1 a2 a3 k mix|a1 a2 a3 m0 m1 m2|lg pw thr ratio sa sr mk mix
                   |d g mix fx IH|csz asz fb damp width mix] using effect_ind'; intros Hb;
      try reflexivity.
    - change (init (EDelay d g mix fx)) with (SDelay (repeat fr_zero (Nat.max d 1)) (map init fx)).
      rewrite wf_delay_eq. rewrite repeat_length, Nat.eqb_refl. cbn [andb].
      cbn [buffers_ok] in Hb. induction IH as [|e l He Hl IHl]; [reflexivity|].
      cbn [forallb] in Hb. apply andb_prop in Hb as [B1 B2].
      cbn [map wf_list]. rewrite (He B1), (IHl B2). reflexivity.
    - cbn [buffers_ok] in Hb. apply andb_prop in Hb as [B1 B2]. cbn [init wf].
      apply reverb_new_ok; assumption.
  Qed.

  (** no effect ever panics from its initial state, for any slicing that respects the internal
      buffer size: in particular a delay of any delay time at any sample rate *)
  Theorem process_never_panics : forall T e slices,
      buffers_ok e = true -> Forall (fun sl => length sl <= T) slices ->
      process_slices K T e (init e) slices = Ok (run_frames (estep K e) (init e) (concat slices)).
  Proof.
    intros T e slices Hb Hall. apply process_slices_is_stepwise; [apply init_wf; exact Hb|exact Hall].
  Qed.
End TreeProof.
