(** C13 — the seven built-in effects as one inductive family (a delay carries the effects of its
    feedback loop, which may again be delays), their state, [init], [process] (the code: a slice
    in, a slice out, possibly a panic) and [estep] (the frame-by-frame meaning that [process] is
    proved to have for every slicing, ProofsSeq.v).  Values fixed during a call are stored in
    the constructor.  Executable definitions only (no proofs). *)
From Coq Require Import ZArith List Bool.
From KV Require Import Base.Outcome C13.ModelOps C13.ModelEffects C13.ModelDelay.
Import ListNotations.
Open Scope ops_scope.

Inductive effect (F : Type) : Type :=
| EVolume (amp : F)                                   (* volume.as_amplitude() *)
| EPanning (p : F)
| EDistortion (hard : bool) (drive mix : F)           (* drive.as_amplitude() *)
| EFilter (m : fmode) (a1 a2 a3 k mix : F)
| EEq (a1 a2 a3 m0 m1 m2 : F)
| ECompressor (log10 powf10 : F -> F) (thr ratio sp_att sp_rel mk_db mix : F)
| EDelay (d : nat) (g mix : F) (fx : list (effect F))  (* d = floor(delay_time * sample_rate); the line holds max d 1 frames *)
| EReverb (csz asz : list (nat * nat)) (fb damp width mix : F).
Arguments EVolume {F}. Arguments EPanning {F}. Arguments EDistortion {F}. Arguments EFilter {F}.
Arguments EEq {F}. Arguments ECompressor {F}. Arguments EDelay {F}. Arguments EReverb {F}.

Inductive estate (F : Type) : Type :=
| SUnit
| SSvf (ic : frame F * frame F)
| SComp (env : F * F)
| SDelay (buf : list (frame F)) (sub : list (estate F))
| SReverb (r : @reverb_state F).
Arguments SUnit {F}. Arguments SSvf {F}. Arguments SComp {F}. Arguments SDelay {F}. Arguments SReverb {F}.

Section Tree.
  Context {F : Type} {OPS : Ops F}.
  Variable K : consts F.

  (** state after [build] + [init(sample_rate, internal_buffer_size)] *)
  Fixpoint init (e : effect F) : estate F :=
    match e with
    | EVolume _ | EPanning _ | EDistortion _ _ _ => SUnit
    | EFilter _ _ _ _ _ _ | EEq _ _ _ _ _ _ => SSvf (fr_zero, fr_zero)
    | ECompressor _ _ _ _ _ _ _ _ => SComp (oZ 0, oZ 0)
    | EDelay d _ _ fx => SDelay (repeat fr_zero (Nat.max d 1)) (map init fx)   (* [.max(1)]: repair of F3 *)
    | EReverb csz asz _ _ _ _ => SReverb (reverb_new csz asz)
    end.

  (** [on_change_sample_rate]: [e'] is the effect at the NEW rate.  Delay lines are reallocated
      (zeros, new length; the feedback effects are told too), the reverb rebuilds its filters;
      filter / EQ / compressor state is kept (their coefficients follow [dt]). *)
  Fixpoint change_rate (e' : effect F) (s : estate F) {struct e'} : estate F :=
    match e', s with
    | EDelay d _ _ fx, SDelay _ sub =>
        SDelay (repeat fr_zero (Nat.max d 1))
               ((fix go (l : list (effect F)) (ss : list (estate F)) {struct l} : list (estate F) :=
                   match l, ss with
                   | e1 :: l', s1 :: ss' => change_rate e1 s1 :: go l' ss'
                   | _, _ => ss
                   end) fx sub)
    | EReverb csz asz _ _ _ _, SReverb _ => SReverb (reverb_new csz asz)
    | _, _ => s
    end.

  (** lifting of a stateless / one-state step to [estate] *)
  Definition lift0 (f : frame F -> frame F) (s : estate F) (x : frame F) : estate F * frame F := (s, f x).

  (** *** frame-by-frame meaning *)
  Fixpoint estep (e : effect F) (s : estate F) (x : frame F) {struct e} : estate F * frame F :=
    match e with
    | EVolume a => lift0 (volume_step a) s x
    | EPanning p => lift0 (panning_step K p) s x
    | EDistortion h d m => lift0 (distortion_step h d m) s x
    | EFilter m a1 a2 a3 k mix =>
        match s with
        | SSvf ic => let (ic', y) := filter_step m a1 a2 a3 k mix ic x in (SSvf ic', y)
        | _ => (s, x)
        end
    | EEq a1 a2 a3 m0 m1 m2 =>
        match s with
        | SSvf ic => let (ic', y) := eq_step a1 a2 a3 m0 m1 m2 ic x in (SSvf ic', y)
        | _ => (s, x)
        end
    | ECompressor lg pw thr ratio sa sr mk mix =>
        match s with
        | SComp env => let (env', y) := compressor_step lg pw thr ratio sa sr mk mix env x in (SComp env', y)
        | _ => (s, x)
        end
    | EDelay _ g mix fx =>
        match s with
        | SDelay buf sub =>
            let chain :=
              (fix chain (l : list (effect F)) (ss : list (estate F)) (y : frame F) {struct l}
                 : list (estate F) * frame F :=
                 match l, ss with
                 | e' :: l', s' :: ss' =>
                     let (s'', z) := estep e' s' y in
                     let (ss'', w) := chain l' ss' z in
                     (s'' :: ss'', w)
                 | _, _ => (ss, y)
                 end) fx in
            let '((buf', sub'), y) := delay_step (list (estate F)) g mix chain (buf, sub) x in
            (SDelay buf' sub', y)
        | _ => (s, x)
        end
    | EReverb _ _ fb damp width mix =>
        match s with
        | SReverb r => let (r', y) := reverb_step K fb damp width mix r x in (SReverb r', y)
        | _ => (s, x)
        end
    end.

  (** the chain of a delay's feedback effects, frame by frame (same as the local [chain] above) *)
  Fixpoint chain_step (l : list (effect F)) (ss : list (estate F)) (y : frame F) : list (estate F) * frame F :=
    match l, ss with
    | e' :: l', s' :: ss' =>
        let (s'', z) := estep e' s' y in
        let (ss'', w) := chain_step l' ss' z in
        (s'' :: ss'', w)
    | _, _ => (ss, y)
    end.

  (** the state has the shape [init] gives it and the buffers the lengths the code relies on:
      a delay line of [max d 1] frames, non-empty comb / all-pass buffers *)
  Fixpoint wf (e : effect F) (s : estate F) {struct e} : bool :=
    match e, s with
    | EVolume _, SUnit | EPanning _, SUnit | EDistortion _ _ _, SUnit => true
    | EFilter _ _ _ _ _ _, SSvf _ | EEq _ _ _ _ _ _, SSvf _ => true
    | ECompressor _ _ _ _ _ _ _ _, SComp _ => true
    | EDelay d _ _ fx, SDelay buf sub =>
        Nat.eqb (length buf) (Nat.max d 1) &&
        (fix all (l : list (effect F)) (ss : list (estate F)) {struct l} : bool :=
           match l, ss with
           | [], [] => true
           | e' :: l', s' :: ss' => wf e' s' && all l' ss'
           | _, _ => false
           end) fx sub
    | EReverb _ _ _ _ _ _, SReverb r => reverb_buffers_nonempty r
    | _, _ => false
    end.
  Fixpoint wf_list (l : list (effect F)) (ss : list (estate F)) {struct l} : bool :=
    match l, ss with
    | [], [] => true
    | e' :: l', s' :: ss' => wf e' s' && wf_list l' ss'
    | _, _ => false
    end.

  (** *** [Effect::process(&mut self, input, dt, info)] for fixed parameters.
      [T] = internal_buffer_size (length of every delay's temp buffer). *)
  Fixpoint process (T : nat) (e : effect F) (s : estate F) (xs : list (frame F)) {struct e}
    : outcome (estate F * list (frame F)) :=
    match e with
    | EDelay _ g mix fx =>
        match s with
        | SDelay buf sub =>
            let chain :=
              (fix chain (l : list (effect F)) (ss : list (estate F)) (ys : list (frame F)) {struct l}
                 : outcome (list (estate F) * list (frame F)) :=
                 match l, ss with
                 | e' :: l', s' :: ss' =>
                     let! (s'', zs) := process T e' s' ys in
                     let! (ss'', ws) := chain l' ss' zs in
                     Ok (s'' :: ss'', ws)
                 | _, _ => Ok (ss, ys)
                 end) fx in
            let! (buf', sub', out) := delay_process (list (estate F)) chain T g mix buf sub xs in
            Ok (SDelay buf' sub', out)
        | _ => Panic OtherPanic
        end
    | EReverb _ _ _ _ _ _ =>
        match s with
        | SReverb r =>
            (* self.buffer[self.current_index] on an empty buffer: index out of bounds *)
            match xs with
            | [] => Ok (s, [])
            | _ => if reverb_buffers_nonempty r then Ok (run_frames (estep e) s xs) else Panic OutOfBounds
            end
        | _ => Panic OtherPanic
        end
    | _ => Ok (run_frames (estep e) s xs)
    end.

  (** the feedback chain of a delay on a slice (same as the local [chain] above) *)
  Definition chain_process (T : nat)
    : list (effect F) -> list (estate F) -> list (frame F) -> outcome (list (estate F) * list (frame F)) :=
    fix chain (l : list (effect F)) (ss : list (estate F)) (ys : list (frame F)) {struct l} :=
      match l, ss with
      | e' :: l', s' :: ss' =>
          let! (s'', zs) := process T e' s' ys in
          let! (ss'', ws) := chain l' ss' zs in
          Ok (s'' :: ss'', ws)
      | _, _ => Ok (ss, ys)
      end.

  (** a sequence of [process] calls on consecutive slices *)
  Fixpoint process_slices (T : nat) (e : effect F) (s : estate F) (slices : list (list (frame F)))
    : outcome (estate F * list (frame F)) :=
    match slices with
    | [] => Ok (s, [])
    | sl :: rest =>
        let! (s1, o1) := process T e s sl in
        let! (s2, o2) := process_slices T e s1 rest in
        Ok (s2, o1 ++ o2)
    end.
End Tree.
