(** C13 — entry point of the correspondence check (model side): builds the binary32 instance of
    the effect models from the raw builder parameters of a case (bit patterns), the sample rate
    and a table of the libm results the implementation's platform produced, runs [process] over
    the given slicing of the input and returns the output frames as bit patterns. *)
From Coq Require Import ZArith List Bool.
From KV Require Import Base.IEEE Base.Outcome Base.Corr C13.ModelOps C13.ModelEffects C13.ModelDelay C13.ModelTree.
Import ListNotations.
Local Open Scope Z_scope.

(** builder parameters as the harness passes them to the public builders *)
Inductive edesc :=
| DVol (db : Z)                                   (* f32 *)
| DPan (p : Z)                                    (* f32 *)
| DDist (kind : Z) (db mix : Z)                   (* kind 0 = HardClip, 1 = SoftClip; f32, f32 *)
| DFilter (mode : Z) (cutoff res : Z) (mix : Z)   (* mode 0..3; f64, f64; f32 *)
| DEq (kind : Z) (freq : Z) (gain : Z) (q : Z)    (* kind 0..2; f64; f32 (dB); f64 *)
| DComp (thr ratio att rel : Z) (mk mix : Z)      (* f64 x4 (att, rel = Duration::as_secs_f64); f32 x2 *)
| DDelay (nanos : Z) (fb mix : Z) (fx : list edesc)(* delay_time.as_nanos(); f32 dB; f32 *)
| DReverb (fb damp width : Z) (mix : Z).          (* f64 x3; f32 *)

Inductive case :=
| Case (sr T : Z) (tab : list (Z * Z * Z)) (e : edesc) (slices : list Z) (input : list (Z * Z))
(** [init(sr1)], process, [on_change_sample_rate(sr2)], process *)
| CaseSR (sr1 sr2 T : Z) (tab : list (Z * Z * Z)) (e : edesc)
         (slices1 : list Z) (input1 : list (Z * Z)) (slices2 : list Z) (input2 : list (Z * Z)).

(** libm table: (function tag, argument bits, result bits); a missing entry yields a sentinel
    (the implementation called libm with another argument than the model computed) *)
Fixpoint lookup (tab : list (Z * Z * Z)) (tag x : Z) : option Z :=
  match tab with
  | [] => None
  | (t, a, r) :: tab' => if (t =? tag) && (a =? x) then Some r else lookup tab' tag x
  end.
Definition lib64 (tab : list (Z * Z * Z)) (tag : Z) (x : f64) : f64 :=
  match lookup tab tag (bits_of_f64 x) with Some r => f64_of_bits r | None => f64_of_bits 0x0123456789ABCDEF end.
Definition lib32 (tab : list (Z * Z * Z)) (tag : Z) (x : f32) : f32 :=
  match lookup tab tag (bits_of_f32 x) with Some r => f32_of_bits r | None => f32_of_bits 0x01234567 end.
Definition t_tan := 0. Definition t_pow10 := 1. Definition t_exp := 2.
Definition t_powf10 := 3. Definition t_log10f := 4.

Definition PI64 := f64_of_bits 0x400921FB54442D18.
Definition c1e4_64 := f64_of_bits 0x3F1A36E2EB1C432D.
Definition half64 := f64_of_bits 0x3FE0000000000000.
Definition c1p9_64 := f64_of_bits 0x3FFE666666666666.
Definition minq64 := f64_of_bits 0x3F847AE147AE147B.

(** [(x as f64 * factor) as usize] *)
Definition usize_of (x : f64) : nat := Z.to_nat (to_u64_64 x).
(** reverb.rs [adjust_buffer_size] *)
Definition adjust (sr n : Z) : nat := usize_of (mul64 (Z64 n) (div64 (Z64 sr) (Z64 44100))).
Definition comb_tunings : list Z := [1116; 1188; 1277; 1356; 1422; 1491; 1557; 1617].
Definition allpass_tunings : list Z := [556; 441; 341; 225].
Definition sizes (sr : Z) (l : list Z) : list (nat * nat) := map (fun n => (adjust sr n, adjust sr (n + 23))) l.

Definition mode_of (m : Z) : fmode := match m with 0 => LowPass | 1 => BandPass | 2 => HighPass | _ => Notch end.
Definition kind_of (k : Z) : eqkind := match k with 0 => Bell | 1 => LowShelf | _ => HighShelf end.

Section Compile.
  Variable sr : Z.
  Variable tab : list (Z * Z * Z).
  Let dt : f64 := div64 (Z64 1) (Z64 sr).
  Let powf10 := lib32 tab t_powf10.

  Fixpoint compile (d : edesc) : effect f32 :=
    match d with
    | DVol db => EVolume (db_amp powf10 (eff (f32_of_bits db)))
    | DPan p => EPanning (eff (f32_of_bits p))
    | DDist kind db mix =>
        EDistortion (kind =? 0) (db_amp powf10 (eff (f32_of_bits db))) (eff (f32_of_bits mix))
    | DFilter mode cutoff res mix =>
        let '(a1, a2, a3, k) :=
          filter_coeffs PI64 c1e4_64 half64 c1p9_64 (lib64 tab t_tan)
                        (eff (f64_of_bits cutoff)) (eff (f64_of_bits res)) dt in
        EFilter (mode_of mode) (f64_to_f32 a1) (f64_to_f32 a2) (f64_to_f32 a3) (f64_to_f32 k)
                (eff (f32_of_bits mix))
    | DEq kind freq gain q =>
        let '((a1, a2, a3), (m0, m1, m2)) :=
          eq_coeffs PI64 c1e4_64 half64 minq64 (lib64 tab t_tan) (lib64 tab t_pow10) (kind_of kind)
                    (eff (f64_of_bits freq)) (eff (f64_of_bits q))
                    (f32_to_f64 (eff (f32_of_bits gain))) dt in
        EEq (f64_to_f32 a1) (f64_to_f32 a2) (f64_to_f32 a3) (f64_to_f32 m0) (f64_to_f32 m1) (f64_to_f32 m2)
    | DComp thr ratio att rel mk mix =>
        ECompressor (lib32 tab t_log10f) powf10
                    (f64_to_f32 (f64_of_bits thr)) (f64_to_f32 (f64_of_bits ratio))
                    (f64_to_f32 (comp_speed (lib64 tab t_exp) (f64_of_bits att) dt))
                    (f64_to_f32 (comp_speed (lib64 tab t_exp) (f64_of_bits rel) dt))
                    (eff (f32_of_bits mk)) (eff (f32_of_bits mix))
    | DDelay nanos fb mix fx =>
        (* delay_time_frames (integer arithmetic since the repair of F35); EDelay's init applies max 1 *)
        EDelay (Z.to_nat (Z.min (2 ^ 64 - 1) (nanos * sr / 1000000000)))
               (db_amp powf10 (eff (f32_of_bits fb))) (eff (f32_of_bits mix)) (map compile fx)
    | DReverb fb damp width mix =>
        EReverb (sizes sr comb_tunings) (sizes sr allpass_tunings)
                (f64_to_f32 (f64_of_bits fb)) (f64_to_f32 (f64_of_bits damp))
                (f64_to_f32 (eff (f64_of_bits width))) (eff (f32_of_bits mix))
    end.
End Compile.

Fixpoint split_by {A : Type} (lens : list nat) (xs : list A) : list (list A) :=
  match lens with
  | [] => match xs with [] => [] | _ => [xs] end
  | n :: lens' => firstn n xs :: split_by lens' (skipn n xs)
  end.

Definition enc_frames (out : list (frame f32)) : list Z :=
  flat_map (fun fr => [bits_of_f32 (fst fr); bits_of_f32 (snd fr)]) out.

Definition run (c : case) : list Z :=
  match c with
  | Case sr T tab d slices input =>
      let e := compile sr tab d in
      let xs := map (fun p => (f32_of_bits (fst p), f32_of_bits (snd p))) input in
      encode_outcome (fun r => enc_frames (snd r))
        (process_slices consts_f32 (Z.to_nat T) e (init e) (split_by (map Z.to_nat slices) xs))
  | CaseSR sr1 sr2 T tab d slices1 input1 slices2 input2 =>
      let e1 := compile sr1 tab d in
      let e2 := compile sr2 tab d in
      let fr := map (fun p => (f32_of_bits (fst p), f32_of_bits (snd p))) in
      encode_outcome enc_frames
        (let! (s1, o1) := process_slices consts_f32 (Z.to_nat T) e1 (init e1) (split_by (map Z.to_nat slices1) (fr input1)) in
         let! (s2, o2) := process_slices consts_f32 (Z.to_nat T) e2 (change_rate e2 s1) (split_by (map Z.to_nat slices2) (fr input2)) in
         Ok (o1 ++ o2))
  end.
