(** C13 — facts about IEEE values proper (Flocq): why a fixed parameter contributes the same value
    to every frame of a call whatever [(i+1)/n] is, and the dry-mix identity in binary32 (with the
    witness that a NaN wet signal leaks through a fully dry mix). *)
From Coq Require Import ZArith List Bool Lia Reals Lra.
From Flocq Require Import Core IEEE754.BinarySingleNaN.
From KV Require Import Base.IEEE Base.Outcome C13.ModelOps C13.ModelEffects.
Import ListNotations.

Section Gen.
  Variables prec emax : Z.
  Context {Hprec : Prec_gt_0 prec} {Hmax : Prec_lt_emax prec emax}.
  Notation bf := (binary_float prec emax).

  Lemma Bminus_self : forall x : bf, is_finite x = true -> Bminus mode_NE x x = B754_zero false.
  Proof.
    intros x Fx. pose proof (Bminus_correct prec emax Hprec Hmax mode_NE x x Fx Fx) as H.
    replace (B2R x - B2R x)%R with 0%R in H by ring.
    rewrite round_0 in H by auto with typeclass_instances.
    rewrite Rabs_R0 in H. rewrite Rlt_bool_true in H by apply bpow_gt_0.
    destruct H as (HR & HF & HS). rewrite Rcompare_Eq in HS by reflexivity.
    apply B2R_Bsign_inj; auto.
    rewrite HS. cbn. destruct (Bsign x); reflexivity.
  Qed.

  Lemma Bmult_one_r : forall x one : bf,
      is_finite x = true -> is_finite one = true -> B2R one = 1%R -> Bsign one = false ->
      Bmult mode_NE x one = x.
  Proof.
    intros x one Fx Fo Ro So. pose proof (Bmult_correct prec emax Hprec Hmax mode_NE x one) as H.
    rewrite Ro, Rmult_1_r in H.
    rewrite round_generic in H; [|auto with typeclass_instances|apply generic_format_B2R].
    rewrite Rlt_bool_true in H by apply abs_B2R_lt_emax.
    destruct H as (HR & HF & HS). rewrite Fx, Fo in HF.
    apply B2R_Bsign_inj; auto.
    rewrite HS; [rewrite So; apply xorb_false_r|].
    destruct (Bmult mode_NE x one); try discriminate; reflexivity.
  Qed.

  (** [a + (a - a) * t] for a finite positive [t] and a finite positive [t'] are the same value *)
  Lemma interp_fixed_t_irrelevant : forall a t t' : bf,
      is_finite t = true -> is_finite t' = true -> Bsign t = false -> Bsign t' = false ->
      Bplus mode_NE a (Bmult mode_NE (Bminus mode_NE a a) t) =
      Bplus mode_NE a (Bmult mode_NE (Bminus mode_NE a a) t').
  Proof.
    intros a t t' Ft Ft' St St'.
    destruct (is_finite a) eqn:Fa.
    - rewrite (Bminus_self a Fa).
      destruct t as [st|st| |st mt et Ht]; try discriminate; destruct t' as [st'|st'| |st' mt' et' Ht']; try discriminate;
        cbn in St, St'; subst; reflexivity.
    - destruct a as [sa|sa| |sa ma ea Ha]; try discriminate.
      + (* infinity: inf - inf = NaN *)
        assert (E : Bminus mode_NE (B754_infinity sa : bf) (B754_infinity sa) = B754_nan) by (destruct sa; reflexivity).
        rewrite E. destruct t, t'; reflexivity.
      + destruct t, t'; reflexivity.
  Qed.
End Gen.

(** the model's [eff a = a + (a - a) * 1] is the value of [interpolated_value((i+1)/n)] at every frame *)
Theorem interp_fixed_t_irrelevant_b32 : forall a t : f32,
    is_finite t = true -> Bsign t = false -> interp a a t = eff a.
Proof.
  intros a t Ft St. unfold eff, interp. cbn [oadd osub omul oZ Ops_f32].
  apply (interp_fixed_t_irrelevant 24 128 a t (Z32 1)); auto.
Qed.
Theorem interp_fixed_t_irrelevant_b64 : forall a t : f64,
    is_finite t = true -> Bsign t = false -> interp a a t = eff a.
Proof.
  intros a t Ft St. unfold eff, interp. cbn [oadd osub omul oZ Ops_f64].
  apply (interp_fixed_t_irrelevant 53 1024 a t (Z64 1)); auto.
Qed.

(** * dry mix in binary32: [wet * sqrt(0) + x * sqrt(1 - 0)] *)
Lemma mul32_one : forall x : f32, is_finite x = true -> mul32 x (Z32 1) = x.
Proof. intros x Fx. apply (Bmult_one_r 24 128 x (Z32 1)); auto. vm_compute. lra. Qed.

Definition same_value (a b : f32) : Prop := a = b \/ (exists s s', a = B754_zero s /\ b = B754_zero s').

Lemma blend_channel_dry_b32 : forall (w x mix : f32),
    (mix = B754_zero false \/ mix = B754_zero true) -> is_finite w = true -> is_finite x = true ->
    same_value (add32 (mul32 w (sqrt32 (oclamp mix (Z32 0) (Z32 1))))
                      (mul32 x (sqrt32 (sub32 (Z32 1) (oclamp mix (Z32 0) (Z32 1)))))) x.
Proof.
  intros w x mix Hm Fw Fx.
  assert (E1 : exists s, sqrt32 (oclamp mix (Z32 0) (Z32 1)) = B754_zero s)
    by (destruct Hm; subst; eexists; vm_compute; reflexivity).
  set (one := sqrt32 (sub32 (Z32 1) (oclamp mix (Z32 0) (Z32 1)))).
  assert (E2 : is_finite one = true /\ Bsign one = false /\ B2R one = 1%R).
  { subst one. destruct Hm; subst; (split; [vm_compute; reflexivity|split; [vm_compute; reflexivity|vm_compute; lra]]). }
  destruct E1 as [s E1]. destruct E2 as (O1 & O2 & O3). rewrite E1.
  assert (Ex : mul32 x one = x) by (apply (Bmult_one_r 24 128 x one); auto).
  rewrite Ex.
  assert (Ew : exists s', mul32 w (B754_zero s) = B754_zero s') by (destruct w; try discriminate; eexists; reflexivity).
  destruct Ew as [s' Ew]. rewrite Ew.
  destruct x as [sx|sx| |sx mx ex Hx]; try discriminate.
  - right. destruct s', sx; do 2 eexists; split; reflexivity.
  - left. reflexivity.
Qed.

(** a fully dry effect returns its input as values (identical bits unless the input is a zero,
    whose sign may change), provided the wet signal is finite *)
Theorem blend_dry_b32 : forall (wet x : frame f32) (mix : f32),
    (mix = B754_zero false \/ mix = B754_zero true) ->
    is_finite (fst wet) = true -> is_finite (snd wet) = true ->
    is_finite (fst x) = true -> is_finite (snd x) = true ->
    same_value (fst (blend wet x mix)) (fst x) /\ same_value (snd (blend wet x mix)) (snd x).
Proof.
  intros [wl wr] [xl xr] mix Hm F1 F2 F3 F4. cbn [fst snd] in *.
  split; apply blend_channel_dry_b32; assumption.
Qed.

(** ... and a NaN (or infinite) wet signal leaks through the fully dry mix: [NaN * 0 = NaN].
    (This is how F4 reached the output of a dry distortion before its repair.) *)
Theorem blend_dry_nan_leaks_b32_refuted :
  exists (wet x : frame f32), x = (Z32 1, Z32 1) /\ blend wet x (Z32 0) = (B754_nan, B754_nan).
Proof. exists (B754_nan, B754_infinity false), (Z32 1, Z32 1). split; [reflexivity|vm_compute; reflexivity]. Qed.

(** 0 dB volume in binary32: amplitude exactly 1 for any libm, and [x * 1 = x] bit for bit *)
Theorem volume_0dB_identity_b32 : forall (pw : f32 -> f32) (db : f32) (x : frame f32),
    (db = B754_zero false \/ db = B754_zero true) ->
    is_finite (fst x) = true -> is_finite (snd x) = true ->
    volume_step (db_amp pw (eff db)) x = x.
Proof.
  intros pw db [l r] Hdb Fl Fr. cbn [fst snd] in *.
  assert (E : db_amp pw (eff db) = Z32 1).
  { unfold db_amp.
    assert (E0 : oeqb (eff db) (oZ 0) = true) by (destruct Hdb; subst; vm_compute; reflexivity).
    rewrite E0. reflexivity. }
  rewrite E. unfold volume_step, fr_scale. cbn [fst snd omul Ops_f32].
  rewrite (mul32_one l Fl), (mul32_one r Fr). reflexivity.
Qed.
