(** C13 / C14 — the sample-type signature the effect models are written over, stereo frames,
    the wet/dry blend used by every effect with a [mix], parameter interpolation, decibels,
    and the generic frame-by-frame driver.  Executable definitions only (no proofs).

    One Gallina term per effect is instantiated
      - with Flocq binary32 / binary64 (bit-exact, executable: the correspondence check),
      - with [R] (algebraic theorems: linearity, dry identity, silence; C14 transfer behaviour).
    No law is assumed of the operations here, so a theorem proved for every [Ops] instance
    holds bit-for-bit of the IEEE instance. *)
From Coq Require Import ZArith List Bool Reals.
From KV Require Import Base.IEEE Base.Outcome.
Import ListNotations.

Class Ops (F : Type) := {
  oZ : Z -> F;                         (* integer literal / [n as fXX] *)
  oadd : F -> F -> F; osub : F -> F -> F; omul : F -> F -> F; odiv : F -> F -> F;
  oneg : F -> F; oabs : F -> F; osqrt : F -> F;
  oltb : F -> F -> bool; oleb : F -> F -> bool; oeqb : F -> F -> bool;
  omax : F -> F -> F;                  (* Rust [f.max(g)]: a NaN argument is ignored *)
}.

Declare Scope ops_scope.
Delimit Scope ops_scope with o.
Infix "+!" := oadd (at level 50, left associativity) : ops_scope.
Infix "-!" := osub (at level 50, left associativity) : ops_scope.
Infix "*!" := omul (at level 40, left associativity) : ops_scope.
Infix "/!" := odiv (at level 40, left associativity) : ops_scope.
Open Scope ops_scope.

(** ** instances *)
#[global] Instance Ops_f32 : Ops f32 := {|
  oZ := Z32; oadd := add32; osub := sub32; omul := mul32; odiv := div32;
  oneg := neg32; oabs := abs32; osqrt := sqrt32;
  oltb := lt32; oleb := le32; oeqb := eq32; omax := max32 |}.
#[global] Instance Ops_f64 : Ops f64 := {|
  oZ := Z64; oadd := add64; osub := sub64; omul := mul64; odiv := div64;
  oneg := neg64; oabs := abs64; osqrt := sqrt64;
  oltb := lt64; oleb := le64; oeqb := eq64; omax := max64 |}.
#[global] Instance Ops_R : Ops R := {|
  oZ := IZR; oadd := Rplus; osub := Rminus; omul := Rmult; odiv := Rdiv;
  oneg := Ropp; oabs := Rabs; osqrt := sqrt;
  oltb := fun x y => if Rlt_dec x y then true else false;
  oleb := fun x y => if Rle_dec x y then true else false;
  oeqb := fun x y => if Req_EM_T x y then true else false;
  omax := Rmax |}.

(** literals of the code that are not integers (rounded to the width in the IEEE instances) *)
Record consts (F : Type) := {
  c_half : F;        (* 0.5 *)
  c_sqrt2 : F;       (* std::f32::consts::SQRT_2 *)
  c_gain : F;        (* reverb GAIN = 0.015 *)
}.
Arguments c_half {F}. Arguments c_sqrt2 {F}. Arguments c_gain {F}.
Definition consts_f32 : consts f32 :=
  {| c_half := f32_of_bits 0x3F000000; c_sqrt2 := f32_of_bits 0x3FB504F3; c_gain := f32_of_bits 0x3C75C28F |}.
Definition consts_R : consts R :=
  {| c_half := (1 / 2)%R; c_sqrt2 := sqrt 2; c_gain := (15 / 1000)%R |}.

Definition frame (F : Type) : Type := (F * F)%type.

Section FrameOps.
  Context {F : Type} {OPS : Ops F}.

  Definition fr_zero : frame F := (oZ 0, oZ 0).
  Definition fr_add (a b : frame F) : frame F := (fst a +! fst b, snd a +! snd b).
  Definition fr_sub (a b : frame F) : frame F := (fst a -! fst b, snd a -! snd b).
  Definition fr_scale (a : frame F) (k : F) : frame F := (fst a *! k, snd a *! k).
  Definition fr_div (a : frame F) (k : F) : frame F := (fst a /! k, snd a /! k).

  (** Rust [x.clamp(lo, hi)] (for [lo <= hi]) *)
  Definition oclamp (x lo hi : F) : F :=
    let x1 := if oltb x lo then lo else x in
    if oltb hi x1 then hi else x1.

  (** [Tweenable::interpolate(a, b, t) = a + (b - a) * t] *)
  Definition interp (a b t : F) : F := a +! (b -! a) *! t.
  (** The value a FIXED parameter contributes to every frame of a call:
      [interpolated_value((i+1)/n)] with [previous_raw_value = raw_value = a].  The last frame
      of a call has [t = n/n = 1]; for IEEE floats [a + (a - a) * t] does not depend on a finite
      positive [t] ([interp_fixed_t_irrelevant_b32/_b64] in ProofsB32.v), so this is the value
      at every frame.  (It is [a] for finite [a] except [-0 -> +0]; NaN for infinite [a].) *)
  Definition eff (a : F) : F := interp a a (oZ 1).

  (** [Decibels::as_amplitude]; [powf10 x] stands for [10.0.powf(x)] *)
  Definition db_amp (powf10 : F -> F) (db : F) : F :=
    if oeqb db (oZ 0) then oZ 1
    else if oleb db (oZ (-60)) then oZ 0
    else powf10 (db /! oZ 20).

  (** wet/dry blend: [output * mix.sqrt() + *frame * (1.0 - mix).sqrt()] with
      [mix = self.mix.interpolated_value(t).0.clamp(0.0, 1.0)] *)
  Definition blend (wet dry : frame F) (mix : F) : frame F :=
    let m := oclamp mix (oZ 0) (oZ 1) in
    fr_add (fr_scale wet (osqrt m)) (fr_scale dry (osqrt (oZ 1 -! m))).
End FrameOps.

(** ** frame-by-frame driver: what "for frame in input.iter_mut()" is for an effect whose
    per-call values are fixed *)
Section Run.
  Context {S A B : Type}.
  Variable step : S -> A -> S * B.
  Fixpoint run_frames (s : S) (xs : list A) : S * list B :=
    match xs with
    | [] => (s, [])
    | x :: xs' =>
        let (s1, y) := step s x in
        let (s2, ys) := run_frames s1 xs' in
        (s2, y :: ys)
    end.
End Run.

Fixpoint map2 {A B C : Type} (f : A -> B -> C) (xs : list A) (ys : list B) : list C :=
  match xs, ys with
  | x :: xs', y :: ys' => f x y :: map2 f xs' ys'
  | _, _ => []
  end.

Fixpoint upd {A : Type} (i : nat) (v : A) (l : list A) : list A :=
  match l, i with
  | [], _ => []
  | _ :: l', O => v :: l'
  | x :: l', S i' => x :: upd i' v l'
  end.
