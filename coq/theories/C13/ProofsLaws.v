(** C13 — silence in / silence out from a cleared state, proved ONCE over an abstract notion of
    "is a zero" / "is finite" with the few closure laws the proof needs, then instantiated with
    the reals (zero = 0, everything finite) and with binary32 (zero = +0 or -0, finite =
    [is_finite]); dry-mix identity and the identity settings over the reals. *)
From Coq Require Import ZArith List Bool Lia Reals Lra.
From Flocq Require Import Core IEEE754.BinarySingleNaN.
From KV Require Import Base.IEEE Base.Outcome C13.ModelOps C13.ModelEffects C13.ModelDelay C13.ModelTree C13.ProofsSeq.
Import ListNotations.
Open Scope ops_scope.

Lemma nth_Forall {A} (P : A -> Prop) : forall l i d, Forall P l -> P d -> P (nth i l d).
Proof.
  induction l as [|a l IH]; intros [|i] d Hl Hd; cbn; auto; inversion Hl; subst; auto.
Qed.
Lemma upd_Forall {A} (P : A -> Prop) : forall l i v, Forall P l -> P v -> Forall P (upd i v l).
Proof.
  induction l as [|a l IH]; intros [|i] v Hl Hv; cbn; auto; inversion Hl; subst; constructor; auto.
Qed.

Section ZeroLaws.
  Context {F : Type} {OPS : Ops F}.
  Variable K : consts F.
  Variable Zr : F -> Prop.    (* is a zero *)
  Variable Fin : F -> Prop.   (* is finite *)
  Hypothesis z_zero : Zr (oZ 0).
  Hypothesis z_add : forall a b, Zr a -> Zr b -> Zr (a +! b).
  Hypothesis z_sub : forall a b, Zr a -> Zr b -> Zr (a -! b).
  Hypothesis z_mul_l : forall a b, Zr a -> Fin b -> Zr (a *! b).
  Hypothesis z_mul_r : forall a b, Fin a -> Zr b -> Zr (a *! b).
  Hypothesis z_neg : forall a, Zr a -> Zr (oneg a).
  Hypothesis z_div : forall a b, Zr a -> Fin b -> oeqb b (oZ 0) = false -> Zr (a /! b).
  Hypothesis z_hard : forall a, Zr a -> Zr (hard_clip a).
  Hypothesis z_soft : forall a, Zr a -> Zr (soft_clip a).
  Hypothesis fin_two : Fin (oZ 2).
  Hypothesis fin_half : Fin (c_half K).
  Hypothesis fin_sqrt2 : Fin (c_sqrt2 K).
  Hypothesis fin_gain : Fin (c_gain K).

  Definition Zf (x : frame F) : Prop := Zr (fst x) /\ Zr (snd x).
  Definition mix_ok (mix : F) : Prop :=
    Fin (osqrt (oclamp mix (oZ 0) (oZ 1))) /\ Fin (osqrt (oZ 1 -! oclamp mix (oZ 0) (oZ 1))).

  Local Hint Resolve z_zero z_add z_sub z_mul_l z_mul_r z_neg z_hard z_soft fin_two fin_half fin_sqrt2 fin_gain : zl.

  Lemma Zf_zero : Zf fr_zero. Proof. split; cbn; auto with zl. Qed.
  Lemma Zf_add : forall a b, Zf a -> Zf b -> Zf (fr_add a b).
  Proof. intros a b [A1 A2] [B1 B2]; split; cbn; auto with zl. Qed.
  Lemma Zf_sub : forall a b, Zf a -> Zf b -> Zf (fr_sub a b).
  Proof. intros a b [A1 A2] [B1 B2]; split; cbn; auto with zl. Qed.
  Lemma Zf_scale : forall a k, Zf a -> Fin k -> Zf (fr_scale a k).
  Proof. intros a k [A1 A2] Hk; split; cbn; auto with zl. Qed.
  Local Hint Resolve Zf_zero Zf_add Zf_sub Zf_scale : zl.

  Lemma blend_z : forall wet dry mix, Zf wet -> Zf dry -> mix_ok mix -> Zf (blend wet dry mix).
  Proof. intros wet dry mix Hw Hd [M1 M2]. unfold blend. auto with zl. Qed.

  (** per-call values for which the silence law is claimed *)
  Definition pan_ok (p : F) : Prop :=
    oeqb p (oZ 0) = true \/
    (let m := (oclamp p (oZ (-1)) (oZ 1) +! oZ 1) *! c_half K in Fin (osqrt (oZ 1 -! m)) /\ Fin (osqrt m)).
  Definition comp_ok (lg pw : F -> F) (thr ratio sa sr mk : F) : Prop :=
    (forall env v, Zr env -> Zr v ->
                   Zr (fst (comp_channel lg pw thr ratio sa sr env v)) /\
                   Fin (snd (comp_channel lg pw thr ratio sa sr env v))) /\
    Fin (pw (mk /! oZ 20)).
  Fixpoint sil_ok (e : effect F) : Prop :=
    match e with
    | EVolume a => Fin a
    | EPanning p => pan_ok p
    | EDistortion _ d m => Fin d /\ mix_ok m
    | EFilter _ a1 a2 a3 k mix => Fin a1 /\ Fin a2 /\ Fin a3 /\ Fin k /\ mix_ok mix
    | EEq a1 a2 a3 m0 m1 m2 => Fin a1 /\ Fin a2 /\ Fin a3 /\ Fin m0 /\ Fin m1 /\ Fin m2
    | ECompressor lg pw thr ratio sa sr mk mix => comp_ok lg pw thr ratio sa sr mk /\ mix_ok mix
    | EDelay _ g mix fx =>
        Fin g /\ mix_ok mix /\
        (fix all (l : list (effect F)) : Prop := match l with [] => True | e' :: l' => sil_ok e' /\ all l' end) fx
    | EReverb _ _ fb damp width mix =>
        Fin fb /\ Fin damp /\ Fin (oZ 1 -! damp) /\
        Fin (width /! oZ 2 +! c_half K) /\ Fin ((oZ 1 -! width) /! oZ 2) /\ mix_ok mix
    end.
  Fixpoint sil_ok_list (l : list (effect F)) : Prop :=
    match l with [] => True | e' :: l' => sil_ok e' /\ sil_ok_list l' end.

  (** cleared state: every stored sample is a zero (buffer positions are irrelevant) *)
  Definition comb_cleared (c : @comb F) : Prop := Zr (fst (fst c)) /\ Forall Zr (snd (fst c)).
  Definition allpass_cleared (a : @allpass F) : Prop := Forall Zr (fst a).
  Fixpoint cleared (s : estate F) : Prop :=
    match s with
    | SUnit => True
    | SSvf ic => Zf (fst ic) /\ Zf (snd ic)
    | SComp env => Zr (fst env) /\ Zr (snd env)
    | SDelay buf sub =>
        Forall Zf buf /\
        (fix all (l : list (estate F)) : Prop := match l with [] => True | s' :: l' => cleared s' /\ all l' end) sub
    | SReverb r =>
        Forall (fun p => comb_cleared (fst p) /\ comb_cleared (snd p)) (fst r) /\
        Forall (fun p => allpass_cleared (fst p) /\ allpass_cleared (snd p)) (snd r)
    end.
  Fixpoint cleared_list (l : list (estate F)) : Prop :=
    match l with [] => True | s' :: l' => cleared s' /\ cleared_list l' end.

  Lemma svf_core_z : forall a1 a2 a3 ic1 ic2 x,
      Fin a1 -> Fin a2 -> Fin a3 -> Zf ic1 -> Zf ic2 -> Zf x ->
      let r := svf_core a1 a2 a3 ic1 ic2 x in
      Zf (fst (fst r)) /\ Zf (snd (fst r)) /\ Zf (fst (snd r)) /\ Zf (snd (snd r)).
  Proof.
    intros a1 a2 a3 ic1 ic2 x F1 F2 F3 I1 I2 X. unfold svf_core. cbn [fst snd].
    refine (conj _ (conj _ (conj _ _))); auto 12 with zl.
  Qed.

  Lemma comb_step_z : forall fb damp c x,
      Fin fb -> Fin damp -> Fin (oZ 1 -! damp) -> comb_cleared c -> Zr x ->
      comb_cleared (fst (comb_step fb damp c x)) /\ Zr (snd (comb_step fb damp c x)).
  Proof.
    intros fb damp [[st buf] idx] x Ffb Fd Fd1 [Hs Hb] Hx. cbn [fst snd] in *. unfold comb_step.
    assert (Ho : Zr (nth idx buf (oZ 0))) by (apply nth_Forall; auto with zl).
    cbn [fst snd]. split; [split|]; cbn [fst snd]; auto with zl.
    apply upd_Forall; auto 10 with zl.
  Qed.
  Lemma allpass_step_z : forall a x,
      allpass_cleared a -> Zr x -> allpass_cleared (fst (allpass_step K a x)) /\ Zr (snd (allpass_step K a x)).
  Proof.
    intros [buf idx] x Hb Hx. unfold allpass_cleared in *. cbn [fst snd] in *. unfold allpass_step.
    assert (Ho : Zr (nth idx buf (oZ 0))) by (apply nth_Forall; auto with zl).
    cbn [fst snd]. split; auto with zl. apply upd_Forall; auto 10 with zl.
  Qed.
  Lemma combs_step_z : forall fb damp cs x acc,
      Fin fb -> Fin damp -> Fin (oZ 1 -! damp) ->
      Forall (fun p => comb_cleared (fst p) /\ comb_cleared (snd p)) cs -> Zr x -> Zf acc ->
      Forall (fun p => comb_cleared (fst p) /\ comb_cleared (snd p)) (fst (combs_step fb damp cs x acc)) /\
      Zf (snd (combs_step fb damp cs x acc)).
  Proof.
    intros fb damp cs x acc Ffb Fd Fd1 Hcs Hx. revert acc.
    induction Hcs as [|[cl cr] cs [Hl Hr] Hcs IH]; intros acc Hacc; [split; [constructor|exact Hacc]|].
    cbn [combs_step]. cbn [fst snd] in Hl, Hr.
    pose proof (comb_step_z fb damp cl x Ffb Fd Fd1 Hl Hx) as [L1 L2].
    pose proof (comb_step_z fb damp cr x Ffb Fd Fd1 Hr Hx) as [R1 R2].
    destruct (comb_step fb damp cl x) as [cl' ol]. destruct (comb_step fb damp cr x) as [cr' or_].
    cbn [fst snd] in *.
    assert (Hacc' : Zf (fst acc +! ol, snd acc +! or_)) by (destruct Hacc; split; cbn; auto with zl).
    specialize (IH _ Hacc').
    destruct (combs_step fb damp cs x (fst acc +! ol, snd acc +! or_)) as [cs'' acc'']. cbn [fst snd] in *.
    destruct IH as [I1 I2]. split; [constructor; [split; assumption|assumption]|assumption].
  Qed.
  Lemma allpasses_step_z : forall aps v,
      Forall (fun p => allpass_cleared (fst p) /\ allpass_cleared (snd p)) aps -> Zf v ->
      Forall (fun p => allpass_cleared (fst p) /\ allpass_cleared (snd p)) (fst (allpasses_step K aps v)) /\
      Zf (snd (allpasses_step K aps v)).
  Proof.
    intros aps v Haps. revert v.
    induction Haps as [|[al ar] aps [Hl Hr] Haps IH]; intros v Hv; [split; [constructor|exact Hv]|].
    cbn [allpasses_step]. cbn [fst snd] in Hl, Hr. destruct Hv as [V1 V2].
    pose proof (allpass_step_z al (fst v) Hl V1) as [L1 L2].
    pose proof (allpass_step_z ar (snd v) Hr V2) as [R1 R2].
    destruct (allpass_step K al (fst v)) as [al' ol]. destruct (allpass_step K ar (snd v)) as [ar' or_].
    cbn [fst snd] in *. specialize (IH (ol, or_) (conj L2 R2)).
    destruct (allpasses_step K aps (ol, or_)) as [aps'' v'']. cbn [fst snd] in *.
    destruct IH as [I1 I2]. split; [constructor; [split; assumption|assumption]|assumption].
  Qed.

  Lemma sil_ok_delay_eq : forall d g mix fx, sil_ok (EDelay d g mix fx) = (Fin g /\ mix_ok mix /\ sil_ok_list fx).
  Proof. reflexivity. Qed.
  Lemma cleared_delay_eq : forall buf sub, cleared (SDelay buf sub) = (Forall Zf buf /\ cleared_list sub).
  Proof. reflexivity. Qed.

  Definition sil_at (e : effect F) : Prop :=
    forall s x, sil_ok e -> cleared s -> Zf x ->
                cleared (fst (estep K e s x)) /\ Zf (snd (estep K e s x)).

  Lemma chain_sil : forall fx, Forall sil_at fx ->
      forall ss y, sil_ok_list fx -> cleared_list ss -> Zf y ->
                   cleared_list (fst (chain_step K fx ss y)) /\ Zf (snd (chain_step K fx ss y)).
  Proof.
    induction 1 as [|e l He Hl IH]; intros ss y Hok Hc Hy.
    - cbn. split; assumption.
    - destruct ss as [|s ss]; [cbn; split; assumption|].
      cbn [sil_ok_list cleared_list] in Hok, Hc. destruct Hok as [O1 O2]. destruct Hc as [C1 C2].
      cbn [chain_step]. pose proof (He s y O1 C1 Hy) as [E1 E2].
      destruct (estep K e s y) as [s'' z]. cbn [fst snd] in *.
      pose proof (IH ss z O2 C2 E2) as [I1 I2].
      destruct (chain_step K l ss z) as [ss'' w]. cbn [fst snd] in *.
      split; [split; assumption|assumption].
  Qed.

  Theorem estep_silence : forall e, sil_at e.
  Proof.
    induction e as [a|p|h d m|m a1 a2 a3 k mix|a1 a2 a3 m0 m1 m2|lg pw thr ratio sa sr mk mix
                   |d g mix fx IH|csz asz fb damp width mix] using effect_ind'; intros s x Hok Hc Hx.
    - (* volume *) cbn in *. split; [exact Hc|]. apply Zf_scale; assumption.
    - (* panning *) cbn [estep lift0 fst snd]. split; [exact Hc|]. unfold panning_step, panned.
      destruct Hok as [E|[P1 P2]].
      + cbn in E. rewrite E. exact Hx.
      + destruct (oeqb p (oZ 0)); [exact Hx|]. destruct Hx as [X1 X2]. apply Zf_scale; auto with zl.
        split; cbn [fst snd]; auto with zl.
    - (* distortion *) cbn [estep lift0 fst snd]. split; [exact Hc|]. destruct Hok as [Fd Hm].
      unfold distortion_step. apply blend_z; [|exact Hx|exact Hm].
      destruct (oeqb d (oZ 0)) eqn:E; [exact Hx|].
      destruct Hx as [X1 X2].
      destruct h; split; cbn [fr_div fr_scale fst snd]; apply z_div; auto with zl.
    - (* filter *) destruct s as [|ic| | |]; try (cbn; split; assumption).
      destruct Hok as (F1 & F2 & F3 & Fk & Hm). destruct Hc as [C1 C2].
      cbn [estep]. unfold filter_step.
      pose proof (svf_core_z a1 a2 a3 (fst ic) (snd ic) x F1 F2 F3 C1 C2 Hx) as (V1 & V2 & S1 & S2).
      destruct (svf_core a1 a2 a3 (fst ic) (snd ic) x) as [[v1 v2] [i1 i2]]. cbn [fst snd] in *.
      split; [split; assumption|]. apply blend_z; [|exact Hx|exact Hm].
      destruct m; auto 10 with zl.
    - (* eq *) destruct s as [|ic| | |]; try (cbn; split; assumption).
      destruct Hok as (F1 & F2 & F3 & M0 & M1 & M2). destruct Hc as [C1 C2].
      cbn [estep]. unfold eq_step.
      pose proof (svf_core_z a1 a2 a3 (fst ic) (snd ic) x F1 F2 F3 C1 C2 Hx) as (V1 & V2 & S1 & S2).
      destruct (svf_core a1 a2 a3 (fst ic) (snd ic) x) as [[v1 v2] [i1 i2]]. cbn [fst snd] in *.
      split; [split; assumption|]. auto 10 with zl.
    - (* compressor *) destruct s as [| |env| |]; try (cbn; split; assumption).
      destruct Hok as [[Hch Hmk] Hm]. destruct Hc as [C1 C2]. destruct Hx as [X1 X2].
      cbn [estep]. unfold compressor_step.
      pose proof (Hch (fst env) (fst x) C1 X1) as [L1 L2].
      pose proof (Hch (snd env) (snd x) C2 X2) as [R1 R2].
      destruct (comp_channel lg pw thr ratio sa sr (fst env) (fst x)) as [el al].
      destruct (comp_channel lg pw thr ratio sa sr (snd env) (snd x)) as [er ar].
      cbn [fst snd] in *. split; [split; assumption|].
      apply blend_z; [|split; assumption|exact Hm].
      apply Zf_scale; [|exact Hmk]. split; cbn [fst snd]; auto with zl.
    - (* delay *) destruct s as [| | |buf sub|]; try (cbn; split; assumption).
      rewrite sil_ok_delay_eq in Hok. destruct Hok as (Fg & Hm & Hfx).
      rewrite cleared_delay_eq in Hc. destruct Hc as [Cb Cs].
      rewrite estep_delay_eq. cbn [delay_step].
      assert (Hr : Zf (hd fr_zero buf)) by (destruct Cb; cbn; auto with zl).
      pose proof (chain_sil fx IH sub (hd fr_zero buf) Hfx Cs Hr) as [H1 H2].
      destruct (chain_step K fx sub (hd fr_zero buf)) as [sub' r1]. cbn [fst snd] in *.
      assert (Hw : Zf (fr_scale r1 g)) by auto with zl.
      split; [|apply blend_z; assumption].
      rewrite cleared_delay_eq. split; [|exact H1].
      apply Forall_app. split; [destruct Cb; cbn; auto|]. constructor; auto with zl.
    - (* reverb *) destruct s as [| | | |r]; try (cbn; split; assumption).
      destruct Hok as (Ffb & Fd & Fd1 & Fw1 & Fw2 & Hm). destruct Hc as [Cc Ca]. destruct Hx as [X1 X2].
      cbn [estep]. unfold reverb_step.
      assert (Hmono : Zr ((fst x +! snd x) *! c_gain K)) by auto with zl.
      pose proof (combs_step_z fb damp (fst r) _ fr_zero Ffb Fd Fd1 Cc Hmono Zf_zero) as [Q1 Q2].
      destruct (combs_step fb damp (fst r) ((fst x +! snd x) *! c_gain K) fr_zero) as [cs' o1].
      cbn [fst snd] in *.
      pose proof (allpasses_step_z (snd r) o1 Ca Q2) as [A1 A2].
      destruct (allpasses_step K (snd r) o1) as [aps' o2]. cbn [fst snd] in *. destruct A2 as [O1 O2].
      split; [split; assumption|].
      apply blend_z; [|split; assumption|exact Hm].
      split; cbn [fst snd]; auto with zl.
  Qed.

  (** silence in, silence out, state stays cleared — for arbitrarily long runs *)
  Theorem run_silence : forall e xs s,
      sil_ok e -> cleared s -> Forall Zf xs ->
      cleared (fst (run_frames (estep K e) s xs)) /\ Forall Zf (snd (run_frames (estep K e) s xs)).
  Proof.
    intros e xs. induction xs as [|x xs IH]; intros s Hok Hc Hxs; [cbn; split; [exact Hc|constructor]|].
    inversion Hxs as [|? ? Hx Hrest]; subst. cbn [run_frames].
    pose proof (estep_silence e s x Hok Hc Hx) as [S1 S2].
    destruct (estep K e s x) as [s1 y]. cbn [fst snd] in *.
    pose proof (IH s1 Hok S1 Hrest) as [I1 I2].
    destruct (run_frames (estep K e) s1 xs) as [s2 ys]. cbn [fst snd] in *.
    split; [exact I1|constructor; assumption].
  Qed.

  (** the state [init] builds is cleared *)
  Lemma Forall_repeat {A} (P : A -> Prop) : forall n a, P a -> Forall P (repeat a n).
  Proof. induction n; intros; cbn; constructor; auto. Qed.
  Theorem init_cleared : forall e, cleared (init e).
  Proof.
    induction e as [a|p|h d m|m a1 a2 a3 k mix|a1 a2 a3 m0 m1 m2|lg pw thr ratio sa sr mk mix
                   |d g mix fx IH|csz asz fb damp width mix] using effect_ind';
      try (cbn; repeat split; auto with zl; fail).
    - change (init (EDelay d g mix fx)) with (SDelay (repeat fr_zero (Nat.max d 1)) (map init fx)).
      rewrite cleared_delay_eq. split; [apply Forall_repeat; apply Zf_zero|].
      induction IH as [|e l He Hl IHl]; cbn; auto.
    - cbn [init cleared]. unfold reverb_new. cbn [fst snd]. split.
      + induction csz as [|p l IHl]; cbn; constructor; auto.
        unfold comb_cleared, comb_new. cbn [fst snd]. repeat split; auto using Forall_repeat with zl.
      + induction asz as [|p l IHl]; cbn; constructor; auto.
        unfold allpass_cleared, allpass_new. cbn [fst snd]. split; auto using Forall_repeat with zl.
  Qed.
End ZeroLaws.
