(** C13 — linearity over the reals: for fixed parameters the filter (4 modes), EQ filter, delay
    (with linear effects in the feedback loop, any nesting), reverb, volume control and panning
    control obey superposition and scaling: one step maps the combination [a * (s1, x1) + b * (s2, x2)]
    of (state, input) pairs to the same combination of (state, output) pairs.  The combination of
    nested states is expressed as a three-place relation. *)
From Coq Require Import ZArith List Bool Lia Reals Lra.
From KV Require Import Base.Outcome C13.ModelOps C13.ModelEffects C13.ModelDelay C13.ModelTree C13.ProofsSeq.
Import ListNotations.
Open Scope ops_scope.

Inductive Forall3 {A : Type} (P : A -> A -> A -> Prop) : list A -> list A -> list A -> Prop :=
| F3_nil : Forall3 P [] [] []
| F3_cons : forall x y z l1 l2 l3, P x y z -> Forall3 P l1 l2 l3 -> Forall3 P (x :: l1) (y :: l2) (z :: l3).

Lemma Forall3_length {A} (P : A -> A -> A -> Prop) : forall l1 l2 l3,
    Forall3 P l1 l2 l3 -> length l1 = length l2 /\ length l2 = length l3.
Proof. induction 1; cbn; intuition lia. Qed.
Lemma Forall3_app {A} (P : A -> A -> A -> Prop) : forall l1 l2 l3 m1 m2 m3,
    Forall3 P l1 l2 l3 -> Forall3 P m1 m2 m3 -> Forall3 P (l1 ++ m1) (l2 ++ m2) (l3 ++ m3).
Proof. induction 1; cbn; intros; auto. constructor; auto. Qed.
Lemma Forall3_tl {A} (P : A -> A -> A -> Prop) : forall l1 l2 l3,
    Forall3 P l1 l2 l3 -> Forall3 P (tl l1) (tl l2) (tl l3).
Proof. destruct 1; cbn; auto. constructor. Qed.
Lemma Forall3_nth {A} (P : A -> A -> A -> Prop) : forall l1 l2 l3 i d1 d2 d3,
    Forall3 P l1 l2 l3 -> P d1 d2 d3 -> P (nth i l1 d1) (nth i l2 d2) (nth i l3 d3).
Proof. intros l1 l2 l3 i d1 d2 d3 H. revert i. induction H; intros [|i] Hd; cbn; auto. Qed.
Lemma Forall3_upd {A} (P : A -> A -> A -> Prop) : forall l1 l2 l3 i v1 v2 v3,
    Forall3 P l1 l2 l3 -> P v1 v2 v3 -> Forall3 P (upd i v1 l1) (upd i v2 l2) (upd i v3 l3).
Proof.
  intros l1 l2 l3 i v1 v2 v3 H. revert i. induction H; intros [|i] Hv; cbn; constructor; auto.
Qed.
Lemma Forall3_repeat {A} (P : A -> A -> A -> Prop) : forall n x y z,
    P x y z -> Forall3 P (repeat x n) (repeat y n) (repeat z n).
Proof. induction n; cbn; intros; constructor; auto. Qed.

Section Lin.
  Variables a b : R.
  Notation K := consts_R.

  Definition lc (u v w : R) : Prop := w = (a * u + b * v)%R.
  Definition lcf (u v w : frame R) : Prop := lc (fst u) (fst v) (fst w) /\ lc (snd u) (snd v) (snd w).
  Definition comb_lin (c1 c2 c3 : @comb R) : Prop :=
    lc (fst (fst c1)) (fst (fst c2)) (fst (fst c3)) /\
    Forall3 lc (snd (fst c1)) (snd (fst c2)) (snd (fst c3)) /\
    snd c1 = snd c2 /\ snd c2 = snd c3.
  Definition ap_lin (c1 c2 c3 : @allpass R) : Prop :=
    Forall3 lc (fst c1) (fst c2) (fst c3) /\ snd c1 = snd c2 /\ snd c2 = snd c3.
  Definition pair3 {A} (P : A -> A -> A -> Prop) (p1 p2 p3 : A * A) : Prop :=
    P (fst p1) (fst p2) (fst p3) /\ P (snd p1) (snd p2) (snd p3).

  Inductive lin3 : estate R -> estate R -> estate R -> Prop :=
  | L_unit : lin3 SUnit SUnit SUnit
  | L_svf : forall i1 i2 i3,
      lcf (fst i1) (fst i2) (fst i3) -> lcf (snd i1) (snd i2) (snd i3) -> lin3 (SSvf i1) (SSvf i2) (SSvf i3)
  | L_delay : forall b1 b2 b3 s1 s2 s3,
      Forall3 lcf b1 b2 b3 -> Forall3 lin3 s1 s2 s3 -> lin3 (SDelay b1 s1) (SDelay b2 s2) (SDelay b3 s3)
  | L_reverb : forall r1 r2 r3,
      Forall3 (pair3 comb_lin) (fst r1) (fst r2) (fst r3) ->
      Forall3 (pair3 ap_lin) (snd r1) (snd r2) (snd r3) ->
      lin3 (SReverb r1) (SReverb r2) (SReverb r3).

  (** the linear effects: everything except distortion and compressor, at every nesting level *)
  Fixpoint linear (e : effect R) : Prop :=
    match e with
    | EDistortion _ _ _ | ECompressor _ _ _ _ _ _ _ _ => False
    | EDelay _ _ _ fx => (fix all (l : list (effect R)) : Prop := match l with [] => True | e' :: l' => linear e' /\ all l' end) fx
    | _ => True
    end.
  Fixpoint linear_list (l : list (effect R)) : Prop :=
    match l with [] => True | e' :: l' => linear e' /\ linear_list l' end.

  Ltac lin_crush :=
    unfold lcf, lc in *; cbn [fst snd] in *;
    repeat match goal with H : _ /\ _ |- _ => destruct H end; subst;
    repeat split; cbn; try ring.

  Lemma lc_zero : lc 0 0 0. Proof. unfold lc; ring. Qed.
  Lemma lcf_zero : lcf fr_zero fr_zero fr_zero. Proof. split; cbn; unfold lc; ring. Qed.

  Lemma lcf_add : forall u1 u2 u3 v1 v2 v3, lcf u1 u2 u3 -> lcf v1 v2 v3 -> lcf (fr_add u1 v1) (fr_add u2 v2) (fr_add u3 v3).
  Proof. intros [? ?] [? ?] [? ?] [? ?] [? ?] [? ?] H1 H2. lin_crush. Qed.
  Lemma lcf_sub : forall u1 u2 u3 v1 v2 v3, lcf u1 u2 u3 -> lcf v1 v2 v3 -> lcf (fr_sub u1 v1) (fr_sub u2 v2) (fr_sub u3 v3).
  Proof. intros [? ?] [? ?] [? ?] [? ?] [? ?] [? ?] H1 H2. lin_crush. Qed.
  Lemma lcf_scale : forall u1 u2 u3 k, lcf u1 u2 u3 -> lcf (fr_scale u1 k) (fr_scale u2 k) (fr_scale u3 k).
  Proof. intros [? ?] [? ?] [? ?] k H1. lin_crush. Qed.
  Lemma lcf_blend : forall u1 u2 u3 v1 v2 v3 mix,
      lcf u1 u2 u3 -> lcf v1 v2 v3 -> lcf (blend u1 v1 mix) (blend u2 v2 mix) (blend u3 v3 mix).
  Proof. intros. unfold blend. apply lcf_add; apply lcf_scale; assumption. Qed.
  Local Hint Resolve lcf_add lcf_sub lcf_scale lcf_blend lcf_zero lc_zero : lin.

  Lemma svf_core_lin : forall a1 a2 a3 p1 p2 p3 q1 q2 q3 x1 x2 x3,
      lcf p1 p2 p3 -> lcf q1 q2 q3 -> lcf x1 x2 x3 ->
      let r1 := svf_core a1 a2 a3 p1 q1 x1 in
      let r2 := svf_core a1 a2 a3 p2 q2 x2 in
      let r3 := svf_core a1 a2 a3 p3 q3 x3 in
      lcf (fst (fst r1)) (fst (fst r2)) (fst (fst r3)) /\ lcf (snd (fst r1)) (snd (fst r2)) (snd (fst r3)) /\
      lcf (fst (snd r1)) (fst (snd r2)) (fst (snd r3)) /\ lcf (snd (snd r1)) (snd (snd r2)) (snd (snd r3)).
  Proof.
    intros. unfold svf_core in *. subst r1 r2 r3. cbn [fst snd].
    refine (conj _ (conj _ (conj _ _))); auto 12 with lin.
  Qed.

  Lemma comb_step_lin : forall fb damp c1 c2 c3 x1 x2 x3,
      comb_lin c1 c2 c3 -> lc x1 x2 x3 ->
      comb_lin (fst (comb_step fb damp c1 x1)) (fst (comb_step fb damp c2 x2)) (fst (comb_step fb damp c3 x3)) /\
      lc (snd (comb_step fb damp c1 x1)) (snd (comb_step fb damp c2 x2)) (snd (comb_step fb damp c3 x3)).
  Proof.
    intros fb damp [[st1 b1] i1] [[st2 b2] i2] [[st3 b3] i3] x1 x2 x3 (Hs & Hb & E1 & E2) Hx.
    cbn [fst snd] in *. subst i2 i3. unfold comb_step. cbn [fst snd].
    pose proof (Forall3_length _ _ _ _ Hb) as [L1 L2].
    pose proof (Forall3_nth lc b1 b2 b3 i1 0%R 0%R 0%R Hb lc_zero) as Hn.
    assert (Hst : lc (nth i1 b1 0 * (1 - damp) + st1 * damp)%R (nth i1 b2 0 * (1 - damp) + st2 * damp)%R
                     (nth i1 b3 0 * (1 - damp) + st3 * damp)%R).
    { unfold lc in *. cbn in *. rewrite Hn, Hs. ring. }
    unfold comb_lin. cbn [fst snd]. cbn [oZ oadd osub omul Ops_R] in *.
    refine (conj (conj Hst (conj _ (conj _ _))) Hn).
    - apply Forall3_upd; [exact Hb|]. unfold lc in *. rewrite Hx, Hst. ring.
    - rewrite L1. reflexivity.
    - rewrite L2. reflexivity.
  Qed.

  Lemma allpass_step_lin : forall c1 c2 c3 x1 x2 x3,
      ap_lin c1 c2 c3 -> lc x1 x2 x3 ->
      ap_lin (fst (allpass_step K c1 x1)) (fst (allpass_step K c2 x2)) (fst (allpass_step K c3 x3)) /\
      lc (snd (allpass_step K c1 x1)) (snd (allpass_step K c2 x2)) (snd (allpass_step K c3 x3)).
  Proof.
    intros [b1 i1] [b2 i2] [b3 i3] x1 x2 x3 (Hb & E1 & E2) Hx.
    cbn [fst snd] in *. subst i2 i3. unfold allpass_step. cbn [fst snd].
    pose proof (Forall3_length _ _ _ _ Hb) as [L1 L2].
    pose proof (Forall3_nth lc b1 b2 b3 i1 0%R 0%R 0%R Hb lc_zero) as Hn.
    unfold ap_lin. cbn [fst snd]. cbn [oZ oadd osub omul oneg Ops_R c_half consts_R] in *.
    refine (conj (conj _ (conj _ _)) _).
    - apply Forall3_upd; [exact Hb|]. unfold lc in *. rewrite Hx, Hn. ring.
    - rewrite L1. reflexivity.
    - rewrite L2. reflexivity.
    - unfold lc in *. rewrite Hx, Hn. ring.
  Qed.

  Lemma combs_step_lin : forall fb damp cs1 cs2 cs3,
      Forall3 (pair3 comb_lin) cs1 cs2 cs3 ->
      forall x1 x2 x3 acc1 acc2 acc3, lc x1 x2 x3 -> lcf acc1 acc2 acc3 ->
      Forall3 (pair3 comb_lin) (fst (combs_step fb damp cs1 x1 acc1)) (fst (combs_step fb damp cs2 x2 acc2))
              (fst (combs_step fb damp cs3 x3 acc3)) /\
      lcf (snd (combs_step fb damp cs1 x1 acc1)) (snd (combs_step fb damp cs2 x2 acc2)) (snd (combs_step fb damp cs3 x3 acc3)).
  Proof.
    intros fb damp cs1 cs2 cs3 H.
    induction H as [|[l1 r1] [l2 r2] [l3 r3] t1 t2 t3 [Hl Hr] Ht IH]; intros x1 x2 x3 acc1 acc2 acc3 Hx Hacc.
    - cbn. split; [constructor|exact Hacc].
    - cbn [combs_step]. cbn [fst snd] in Hl, Hr.
      pose proof (comb_step_lin fb damp l1 l2 l3 x1 x2 x3 Hl Hx) as [A1 A2].
      pose proof (comb_step_lin fb damp r1 r2 r3 x1 x2 x3 Hr Hx) as [B1 B2].
      destruct (comb_step fb damp l1 x1) as [l1' ol1]. destruct (comb_step fb damp l2 x2) as [l2' ol2].
      destruct (comb_step fb damp l3 x3) as [l3' ol3]. destruct (comb_step fb damp r1 x1) as [r1' or1].
      destruct (comb_step fb damp r2 x2) as [r2' or2]. destruct (comb_step fb damp r3 x3) as [r3' or3].
      cbn [fst snd] in *.
      assert (Hacc' : lcf (fst acc1 +! ol1, snd acc1 +! or1) (fst acc2 +! ol2, snd acc2 +! or2) (fst acc3 +! ol3, snd acc3 +! or3)).
      { destruct Hacc as [C1 C2]. unfold lcf, lc in *. cbn in *. rewrite C1, C2, A2, B2. split; ring. }
      specialize (IH x1 x2 x3 _ _ _ Hx Hacc').
      destruct (combs_step fb damp t1 x1 (fst acc1 +! ol1, snd acc1 +! or1)) as [t1' a1'].
      destruct (combs_step fb damp t2 x2 (fst acc2 +! ol2, snd acc2 +! or2)) as [t2' a2'].
      destruct (combs_step fb damp t3 x3 (fst acc3 +! ol3, snd acc3 +! or3)) as [t3' a3'].
      cbn [fst snd] in *. destruct IH as [I1 I2]. split; [|exact I2].
      constructor; [split; assumption|exact I1].
  Qed.

  Lemma allpasses_step_lin : forall as1 as2 as3,
      Forall3 (pair3 ap_lin) as1 as2 as3 ->
      forall v1 v2 v3, lcf v1 v2 v3 ->
      Forall3 (pair3 ap_lin) (fst (allpasses_step K as1 v1)) (fst (allpasses_step K as2 v2)) (fst (allpasses_step K as3 v3)) /\
      lcf (snd (allpasses_step K as1 v1)) (snd (allpasses_step K as2 v2)) (snd (allpasses_step K as3 v3)).
  Proof.
    intros as1 as2 as3 H.
    induction H as [|[l1 r1] [l2 r2] [l3 r3] t1 t2 t3 [Hl Hr] Ht IH]; intros v1 v2 v3 Hv.
    - cbn. split; [constructor|exact Hv].
    - cbn [allpasses_step]. cbn [fst snd] in Hl, Hr. destruct Hv as [V1 V2].
      pose proof (allpass_step_lin l1 l2 l3 _ _ _ Hl V1) as [A1 A2].
      pose proof (allpass_step_lin r1 r2 r3 _ _ _ Hr V2) as [B1 B2].
      destruct (allpass_step K l1 (fst v1)) as [l1' ol1]. destruct (allpass_step K l2 (fst v2)) as [l2' ol2].
      destruct (allpass_step K l3 (fst v3)) as [l3' ol3]. destruct (allpass_step K r1 (snd v1)) as [r1' or1].
      destruct (allpass_step K r2 (snd v2)) as [r2' or2]. destruct (allpass_step K r3 (snd v3)) as [r3' or3].
      cbn [fst snd] in *.
      specialize (IH (ol1, or1) (ol2, or2) (ol3, or3) (conj A2 B2)).
      destruct (allpasses_step K t1 (ol1, or1)) as [t1' a1']. destruct (allpasses_step K t2 (ol2, or2)) as [t2' a2'].
      destruct (allpasses_step K t3 (ol3, or3)) as [t3' a3'].
      cbn [fst snd] in *. destruct IH as [I1 I2]. split; [|exact I2].
      constructor; [split; assumption|exact I1].
  Qed.

  Definition lin_at (e : effect R) : Prop :=
    forall s1 s2 s3 x1 x2 x3, linear e -> lin3 s1 s2 s3 -> lcf x1 x2 x3 ->
      lin3 (fst (estep K e s1 x1)) (fst (estep K e s2 x2)) (fst (estep K e s3 x3)) /\
      lcf (snd (estep K e s1 x1)) (snd (estep K e s2 x2)) (snd (estep K e s3 x3)).

  Lemma chain_lin : forall fx, Forall lin_at fx ->
      forall ss1 ss2 ss3 y1 y2 y3, linear_list fx -> Forall3 lin3 ss1 ss2 ss3 -> lcf y1 y2 y3 ->
        Forall3 lin3 (fst (chain_step K fx ss1 y1)) (fst (chain_step K fx ss2 y2)) (fst (chain_step K fx ss3 y3)) /\
        lcf (snd (chain_step K fx ss1 y1)) (snd (chain_step K fx ss2 y2)) (snd (chain_step K fx ss3 y3)).
  Proof.
    induction 1 as [|e l He Hl IH]; intros ss1 ss2 ss3 y1 y2 y3 Hlin Hss Hy.
    - cbn. split; assumption.
    - destruct Hss as [|s1 s2 s3 t1 t2 t3 Hs Ht]; [cbn; split; [constructor|assumption]|].
      cbn [linear_list] in Hlin. destruct Hlin as [L1 L2].
      cbn [chain_step]. pose proof (He s1 s2 s3 y1 y2 y3 L1 Hs Hy) as [E1 E2].
      destruct (estep K e s1 y1) as [s1' z1]. destruct (estep K e s2 y2) as [s2' z2].
      destruct (estep K e s3 y3) as [s3' z3]. cbn [fst snd] in *.
      pose proof (IH t1 t2 t3 z1 z2 z3 L2 Ht E2) as [I1 I2].
      destruct (chain_step K l t1 z1) as [t1' w1]. destruct (chain_step K l t2 z2) as [t2' w2].
      destruct (chain_step K l t3 z3) as [t3' w3]. cbn [fst snd] in *.
      split; [constructor; assumption|assumption].
  Qed.

  Lemma linear_delay_eq : forall d g mix fx, linear (EDelay d g mix fx) = linear_list fx.
  Proof. reflexivity. Qed.

  Theorem estep_linear : forall e, lin_at e.
  Proof.
    induction e as [amp|p|h d m|m a1 a2 a3 k mix|a1 a2 a3 m0 m1 m2|lg pw thr ratio sa sr mk mix
                   |d g mix fx IH|csz asz fb damp width mix] using effect_ind';
      intros s1 s2 s3 x1 x2 x3 Hlin Hs Hx; try (cbn in Hlin; contradiction).
    - (* volume *) cbn. split; [exact Hs|]. apply lcf_scale; exact Hx.
    - (* panning *) cbn [estep lift0 fst snd]. split; [exact Hs|]. unfold panning_step, panned.
      destruct (oeqb p (oZ 0)); [exact Hx|].
      destruct x1, x2, x3. apply lcf_scale. destruct Hx as [X1 X2]. unfold lcf, lc in *. cbn in *.
      rewrite X1, X2. split; ring.
    - (* filter *) destruct Hs; try (cbn; split; [constructor; assumption|assumption]).
      cbn [estep]. unfold filter_step.
      pose proof (svf_core_lin a1 a2 a3 _ _ _ _ _ _ x1 x2 x3 H H0 Hx) as (V1 & V2 & S1 & S2).
      destruct (svf_core a1 a2 a3 (fst i1) (snd i1) x1) as [[u1 w1] [p1 q1]].
      destruct (svf_core a1 a2 a3 (fst i2) (snd i2) x2) as [[u2 w2] [p2 q2]].
      destruct (svf_core a1 a2 a3 (fst i3) (snd i3) x3) as [[u3 w3] [p3 q3]].
      cbn [fst snd] in *. split; [constructor; assumption|].
      apply lcf_blend; [|exact Hx]. destruct m; auto 10 with lin.
    - (* eq *) destruct Hs; try (cbn; split; [constructor; assumption|assumption]).
      cbn [estep]. unfold eq_step.
      pose proof (svf_core_lin a1 a2 a3 _ _ _ _ _ _ x1 x2 x3 H H0 Hx) as (V1 & V2 & S1 & S2).
      destruct (svf_core a1 a2 a3 (fst i1) (snd i1) x1) as [[u1 w1] [p1 q1]].
      destruct (svf_core a1 a2 a3 (fst i2) (snd i2) x2) as [[u2 w2] [p2 q2]].
      destruct (svf_core a1 a2 a3 (fst i3) (snd i3) x3) as [[u3 w3] [p3 q3]].
      cbn [fst snd] in *. split; [constructor; assumption|]. auto 10 with lin.
    - (* delay *) destruct Hs as [| |b1 b2 b3 t1 t2 t3 Hb Ht|]; try (cbn; split; [constructor; assumption|assumption]).
      rewrite linear_delay_eq in Hlin. rewrite !estep_delay_eq. cbn [delay_step].
      assert (Hr : lcf (hd fr_zero b1) (hd fr_zero b2) (hd fr_zero b3)) by (destruct Hb; cbn; auto with lin).
      pose proof (chain_lin fx IH t1 t2 t3 _ _ _ Hlin Ht Hr) as [C1 C2].
      destruct (chain_step K fx t1 (hd fr_zero b1)) as [t1' r1]. destruct (chain_step K fx t2 (hd fr_zero b2)) as [t2' r2].
      destruct (chain_step K fx t3 (hd fr_zero b3)) as [t3' r3]. cbn [fst snd] in *.
      split; [|auto with lin].
      constructor; [|exact C1]. apply Forall3_app; [apply Forall3_tl; exact Hb|].
      constructor; [auto with lin|constructor].
    - (* reverb *) destruct Hs as [| | |r1 r2 r3 Hc Ha]; try (cbn; split; [constructor; assumption|assumption]).
      cbn [estep]. unfold reverb_step.
      assert (Hmono : lc ((fst x1 +! snd x1) *! c_gain K) ((fst x2 +! snd x2) *! c_gain K) ((fst x3 +! snd x3) *! c_gain K)).
      { destruct Hx as [X1 X2]. unfold lc in *. cbn in *. rewrite X1, X2. ring. }
      pose proof (combs_step_lin fb damp _ _ _ Hc _ _ _ fr_zero fr_zero fr_zero Hmono lcf_zero) as [Q1 Q2].
      destruct (combs_step fb damp (fst r1) ((fst x1 +! snd x1) *! c_gain K) fr_zero) as [c1' o1].
      destruct (combs_step fb damp (fst r2) ((fst x2 +! snd x2) *! c_gain K) fr_zero) as [c2' o2].
      destruct (combs_step fb damp (fst r3) ((fst x3 +! snd x3) *! c_gain K) fr_zero) as [c3' o3].
      cbn [fst snd] in *.
      pose proof (allpasses_step_lin _ _ _ Ha o1 o2 o3 Q2) as [A1 A2].
      destruct (allpasses_step K (snd r1) o1) as [a1' p1]. destruct (allpasses_step K (snd r2) o2) as [a2' p2].
      destruct (allpasses_step K (snd r3) o3) as [a3' p3]. cbn [fst snd] in *.
      split; [constructor; assumption|]. apply lcf_blend; [|exact Hx].
      destruct A2 as [P1 P2]. unfold lcf, lc in *. cbn in *. rewrite P1, P2. split; ring.
  Qed.

  Theorem run_linear : forall e xs1 xs2 xs3,
      linear e -> Forall3 lcf xs1 xs2 xs3 ->
      forall s1 s2 s3, lin3 s1 s2 s3 ->
      lin3 (fst (run_frames (estep K e) s1 xs1)) (fst (run_frames (estep K e) s2 xs2)) (fst (run_frames (estep K e) s3 xs3)) /\
      Forall3 lcf (snd (run_frames (estep K e) s1 xs1)) (snd (run_frames (estep K e) s2 xs2))
              (snd (run_frames (estep K e) s3 xs3)).
  Proof.
    intros e xs1 xs2 xs3 Hlin Hxs. induction Hxs as [|x1 x2 x3 t1 t2 t3 Hx Ht IH]; intros s1 s2 s3 Hs.
    - cbn. split; [exact Hs|constructor].
    - cbn [run_frames]. pose proof (estep_linear e s1 s2 s3 x1 x2 x3 Hlin Hs Hx) as [E1 E2].
      destruct (estep K e s1 x1) as [s1' y1]. destruct (estep K e s2 x2) as [s2' y2].
      destruct (estep K e s3 x3) as [s3' y3]. cbn [fst snd] in *.
      pose proof (IH s1' s2' s3' E1) as [I1 I2].
      destruct (run_frames (estep K e) s1' t1) as [u1 o1]. destruct (run_frames (estep K e) s2' t2) as [u2 o2].
      destruct (run_frames (estep K e) s3' t3) as [u3 o3]. cbn [fst snd] in *.
      split; [exact I1|constructor; assumption].
  Qed.

  (** the cleared initial state is its own combination *)
  Lemma init_lin : forall e, linear e -> lin3 (init e) (init e) (init e).
  Proof.
    induction e as [amp|p|h d m|m a1 a2 a3 k mix|a1 a2 a3 m0 m1 m2|lg pw thr ratio sa sr mk mix
                   |d g mix fx IH|csz asz fb damp width mix] using effect_ind'; intros Hlin;
      try (cbn in Hlin; contradiction); try (cbn; constructor; auto with lin; fail).
    - rewrite linear_delay_eq in Hlin.
      change (init (EDelay d g mix fx)) with (SDelay (repeat fr_zero (Nat.max d 1)) (map init fx)).
      constructor; [apply Forall3_repeat; apply lcf_zero|].
      induction IH as [|e l He Hl IHl]; cbn; constructor; cbn [linear_list] in Hlin; destruct Hlin; auto.
    - cbn [init]. constructor; unfold reverb_new; cbn [fst snd].
      + induction csz; cbn; constructor; auto. split; cbn [fst snd]; unfold comb_lin, comb_new; cbn [fst snd];
          (split; [apply lc_zero|split; [apply Forall3_repeat; apply lc_zero|split; reflexivity]]).
      + induction asz; cbn; constructor; auto. split; cbn [fst snd]; unfold ap_lin, allpass_new; cbn [fst snd];
          (split; [apply Forall3_repeat; apply lc_zero|split; reflexivity]).
  Qed.
End Lin.

(** * the law in the usual form: outputs from the initial state *)
Definition lcomb (a b : R) (xs ys : list (frame R)) : list (frame R) :=
  map2 (fun x y => ((a * fst x + b * fst y)%R, (a * snd x + b * snd y)%R)) xs ys.

Lemma Forall3_lcomb : forall a b xs ys, length xs = length ys -> Forall3 (lcf a b) xs ys (lcomb a b xs ys).
Proof.
  intros a b xs. induction xs as [|x xs IH]; intros [|y ys] H; cbn in *; try discriminate; constructor.
  - split; cbn; unfold lc; reflexivity.
  - apply IH. lia.
Qed.
Lemma Forall3_is_lcomb : forall a b o1 o2 o3, Forall3 (lcf a b) o1 o2 o3 -> o3 = lcomb a b o1 o2.
Proof.
  induction 1 as [|x y z l1 l2 l3 [H1 H2] Hl IH]; [reflexivity|]. unfold lcomb in *. cbn [map2].
  rewrite <- IH. f_equal. destruct z. unfold lc in *. cbn in *. congruence.
Qed.

Definition out (e : effect R) (xs : list (frame R)) : list (frame R) :=
  snd (run_frames (estep consts_R e) (init e) xs).

Theorem linear_R : forall (a b : R) (e : effect R) (xs ys : list (frame R)),
    linear e -> length xs = length ys ->
    out e (lcomb a b xs ys) = lcomb a b (out e xs) (out e ys).
Proof.
  intros a b e xs ys Hlin Hlen. unfold out. apply Forall3_is_lcomb.
  apply (run_linear a b e xs ys (lcomb a b xs ys) Hlin (Forall3_lcomb a b xs ys Hlen)).
  apply init_lin. exact Hlin.
Qed.

Corollary superposition_R : forall (e : effect R) (xs ys : list (frame R)),
    linear e -> length xs = length ys ->
    out e (lcomb 1 1 xs ys) = lcomb 1 1 (out e xs) (out e ys).
Proof. intros. apply linear_R; assumption. Qed.
Corollary scaling_R : forall (a : R) (e : effect R) (xs : list (frame R)),
    linear e -> out e (lcomb a 0 xs xs) = lcomb a 0 (out e xs) (out e xs).
Proof. intros. apply linear_R; auto. Qed.

(** non-vacuity: a nested linear tree *)
Example linear_demo :
  linear (EDelay 3 (1/2)%R (1/2)%R
                 [EFilter HighPass (3/4)%R (1/8)%R (1/32)%R 2%R 1%R; EDelay 0 (1/4)%R 0%R [EPanning (-1/2)%R];
                  EReverb [(2, 3)]%nat [(1, 2)]%nat (9/10)%R (1/10)%R 1%R (1/2)%R; EEq (3/4)%R (1/8)%R (1/32)%R 1%R 2%R 3%R; EVolume 2%R]).
Proof. cbn. tauto. Qed.
