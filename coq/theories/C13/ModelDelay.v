(** C13 / C14 — delay.rs.  [delay_process] transcribes the chunked shift-register code of
    [Delay::process]; [delay_step] is the per-sample recurrence it is proved equal to
    (ProofsSeq.v).  The feedback chain is abstract: a state type [S] and its [process]
    ([fxproc], which may itself be a chain of nested effects) respectively its per-frame step.
    Executable definitions only (no proofs). *)
From Coq Require Import ZArith List Bool.
From KV Require Import Base.Outcome C13.ModelOps.
Import ListNotations.
Open Scope ops_scope.

Section Delay.
  Context {F : Type} {OPS : Ops F}.
  Variable S : Type.
  (** [for effect in &mut self.feedback_effects { effect.process(&mut temp[..n], dt, info) }] *)
  Variable fxproc : S -> list (frame F) -> outcome (S * list (frame F)).
  (** [self.temp_buffer.len()] = the [internal_buffer_size] given to [init] *)
  Variable T : nat.
  (** [feedback.as_amplitude()] and [mix] (fixed during the call) *)
  Variables g mix : F.

  (** one iteration of [for input in input.chunks_mut(self.buffer.len())] *)
  Definition delay_chunk (buf : list (frame F)) (s : S) (c : list (frame F))
    : outcome (list (frame F) * S * list (frame F)) :=
    let n := length c in
    (* self.temp_buffer[..input.len()]: range end out of range for a slice of length T *)
    if Nat.ltb T n then Panic OutOfBounds
    else
      (* read from the beginning of the buffer and apply effects and feedback gain *)
      let temp := firstn n buf in
      let! (s', temp1) := fxproc s temp in
      let temp2 := map (fun f => fr_scale f g) temp1 in
      (* self.buffer.copy_within(n.., 0); the last n slots := input + read *)
      let buf' := skipn n buf ++ map2 fr_add c temp2 in
      (* output mix of input and read buffer *)
      Ok (buf', s', map2 (fun t x => blend t x mix) temp2 c).

  Fixpoint delay_loop (fuel : nat) (buf : list (frame F)) (s : S) (xs : list (frame F))
    : outcome (list (frame F) * S * list (frame F)) :=
    match xs with
    | [] => Ok (buf, s, [])
    | _ =>
        match fuel with
        | O => Hang
        | Datatypes.S fuel' =>
            let d := length buf in
            let! (buf1, s1, out) := delay_chunk buf s (firstn d xs) in
            let! (buf2, s2, outs) := delay_loop fuel' buf1 s1 (skipn d xs) in
            Ok (buf2, s2, out ++ outs)
        end
    end.

  (** [input.chunks_mut(0)] panics "chunk size must be non-zero" (also for an empty input) *)
  Definition delay_process (buf : list (frame F)) (s : S) (xs : list (frame F))
    : outcome (list (frame F) * S * list (frame F)) :=
    if Nat.eqb (length buf) 0 then Panic ChunkSizeZero
    else delay_loop (length xs) buf s xs.

  (** *** the per-sample recurrence: read the oldest frame, run it through the feedback chain
      and gain, push input + that, output the blend *)
  Variable fxstep : S -> frame F -> S * frame F.
  Definition delay_step (st : list (frame F) * S) (x : frame F) : (list (frame F) * S) * frame F :=
    let '(buf, s) := st in
    let r := hd fr_zero buf in
    let (s', r1) := fxstep s r in
    let w := fr_scale r1 g in
    ((tl buf ++ [fr_add x w], s'), blend w x mix).
End Delay.
