(** C13 — the stability clamps of the two filters follow the rate IN FORCE.  In the code (and in the model)
    the only thing a filter knows about the device rate is the [dt] of the current call; the relative
    frequency [cutoff / (1/dt)] (filter) resp. [frequency * dt] (EQ) is pinned to [0.0001, 0.5] per frame.
    Hence, over the reals: at or above the Nyquist frequency of the rate in force the coefficients are those
    of the Nyquist frequency itself — they do not depend on the cutoff any more, nor on any earlier rate —
    and the argument of [tan] always lies in [pi * 0.0001, pi / 2].  (A filter that pinned the cutoff in
    hertz against limits remembered from [init] would violate both after a drop of the device rate.) *)
From Coq Require Import Reals Lra.
From KV Require Import C13.ModelOps C13.ModelEffects.
Open Scope ops_scope.

Lemma oclamp_hi_R : forall x lo hi : R, (lo <= hi)%R -> (hi <= x)%R -> oclamp x lo hi = hi.
Proof.
  intros x lo hi Hlh Hx. unfold oclamp. cbn.
  destruct (Rlt_dec x lo) as [H|H]; [lra|]. destruct (Rlt_dec hi x) as [H'|H']; [reflexivity|lra].
Qed.

Lemma oclamp_range_R : forall x lo hi : R, (lo <= hi)%R -> (lo <= oclamp x lo hi <= hi)%R.
Proof.
  intros x lo hi Hlh. unfold oclamp. cbn.
  destruct (Rlt_dec x lo) as [H|H].
  - destruct (Rlt_dec hi lo) as [H'|H']; lra.
  - destruct (Rlt_dec hi x) as [H'|H']; lra.
Qed.

Lemma filter_above_nyquist_R :
  forall (cpi c1e4 chalf c1p9 : R) (tan : R -> R) (cutoff cutoff' res dt : R),
    (c1e4 <= chalf)%R ->
    (chalf <= cutoff / (1 / dt))%R -> (chalf <= cutoff' / (1 / dt))%R ->
    filter_coeffs cpi c1e4 chalf c1p9 tan cutoff res dt = filter_coeffs cpi c1e4 chalf c1p9 tan cutoff' res dt.
Proof.
  intros cpi c1e4 chalf c1p9 tan cutoff cutoff' res dt Hc H1 H2. unfold filter_coeffs.
  change (@odiv R Ops_R) with Rdiv. change (@oZ R Ops_R 1) with 1%R.
  rewrite (oclamp_hi_R (cutoff / (1 / dt)) c1e4 chalf Hc H1).
  rewrite (oclamp_hi_R (cutoff' / (1 / dt)) c1e4 chalf Hc H2). reflexivity.
Qed.

Lemma eq_above_nyquist_R :
  forall (cpi c1e4 chalf cminq : R) (tan pow10 : R -> R) (kind : eqkind) (f f' q gain dt : R),
    (c1e4 <= chalf)%R ->
    (chalf <= f * dt)%R -> (chalf <= f' * dt)%R ->
    eq_coeffs cpi c1e4 chalf cminq tan pow10 kind f q gain dt = eq_coeffs cpi c1e4 chalf cminq tan pow10 kind f' q gain dt.
Proof.
  intros cpi c1e4 chalf cminq tan pow10 kind f f' q gain dt Hc H1 H2. unfold eq_coeffs.
  change (@omul R Ops_R) with Rmult.
  rewrite (oclamp_hi_R (f * dt) c1e4 chalf Hc H1).
  rewrite (oclamp_hi_R (f' * dt) c1e4 chalf Hc H2). reflexivity.
Qed.

(** the hypotheses are met: 15 kHz and 20 kHz at 22.05 kHz *)
Example above_nyquist_ex :
  (1 / 10000 <= 1 / 2)%R /\ (1 / 2 <= 15000 / (1 / (1 / 22050)))%R /\ (1 / 2 <= 20000 / (1 / (1 / 22050)))%R.
Proof. repeat split; try lra. all: replace (1 / (1 / 22050))%R with 22050%R by (field; lra); lra. Qed.
