(** C13 — property theorems.  This file contains nothing but statements closed by [exact]. *)
From Coq Require Import ZArith List Bool Reals.
From Flocq Require Import Core IEEE754.BinarySingleNaN.
From KV Require Import Base.IEEE Base.Outcome C13.ModelOps C13.ModelEffects C13.ModelDelay C13.ModelTree
     C13.ProofsSeq C13.ProofsLaws C13.ProofsInst C13.ProofsB32 C13.ProofsLinear C13.ProofsRate.
Import ListNotations.
Open Scope ops_scope.

(** Every built-in effect, for every nesting of effects in delay feedback loops and ANY operations on
    the sample type (no law assumed: bit-for-bit for IEEE): the code of [process] on a slice that fits the
    internal buffer is the frame-by-frame recurrence. *)
Theorem effects_chunk_free_any :
  forall (F : Type) (OPS : Ops F) (K : consts F) (T : nat) (e : effect F) (s : estate F) (xs : list (frame F)),
    wf e s = true -> length xs <= T ->
    process K T e s xs = Ok (run_frames (estep K e) s xs).
Proof. exact @process_is_stepwise. Qed.

(** Output and final state do not depend on how the input is split into process calls. *)
Theorem effects_partition_independent_any :
  forall (F : Type) (OPS : Ops F) (K : consts F) (T : nat) (e : effect F) (s : estate F)
         (sl1 sl2 : list (list (frame F))),
    wf e s = true ->
    Forall (fun sl => length sl <= T) sl1 -> Forall (fun sl => length sl <= T) sl2 ->
    concat sl1 = concat sl2 ->
    process_slices K T e s sl1 = process_slices K T e s sl2.
Proof. exact @partition_independent. Qed.

(** Any slicing gives the recurrence on the concatenated input (arbitrarily long runs). *)
Theorem effects_slices_are_recurrence_any :
  forall (F : Type) (OPS : Ops F) (K : consts F) (T : nat) (e : effect F) (slices : list (list (frame F))) (s : estate F),
    wf e s = true -> Forall (fun sl => length sl <= T) slices ->
    process_slices K T e s slices = Ok (run_frames (estep K e) s (concat slices)).
Proof. exact @process_slices_is_stepwise. Qed.

(** Two consecutive calls = one call on the concatenation. *)
Theorem effects_process_seq_any :
  forall (F : Type) (OPS : Ops F) (K : consts F) (T : nat) (e : effect F) (s : estate F) (xs ys : list (frame F)),
    wf e s = true -> length xs <= T -> length ys <= T -> length (xs ++ ys) <= T ->
    process K T e s (xs ++ ys) =
    (let! (s1, o1) := process K T e s xs in
     let! (s2, o2) := process K T e s1 ys in Ok (s2, o1 ++ o2)).
Proof. exact @process_seq. Qed.

(** The buffer-length invariants are kept by every run. *)
Theorem effects_wf_preserved_any :
  forall (F : Type) (OPS : Ops F) (K : consts F) (e : effect F) (xs : list (frame F)) (s : estate F),
    wf e s = true -> wf e (fst (run_frames (estep K e) s xs)) = true.
Proof. exact @run_wf. Qed.

(** From [init], no effect panics, whatever the delay times and the sample rate (repair of F3: every
    delay line holds at least one frame); only condition: no reverb buffer is empty (rates >= 196 Hz). *)
Theorem effects_never_panic_any :
  forall (F : Type) (OPS : Ops F) (K : consts F) (T : nat) (e : effect F) (slices : list (list (frame F))),
    buffers_ok e = true -> Forall (fun sl => length sl <= T) slices ->
    process_slices K T e (init e) slices = Ok (run_frames (estep K e) (init e) (concat slices)).
Proof. exact @process_never_panics. Qed.

(** The delay by itself: chunks_mut / temp buffer / copy_within code = per-sample recurrence, for every
    line length >= 1 and every feedback chain that is sequential on the states it reaches. *)
Theorem delay_chunked_is_recurrence_any :
  forall (F : Type) (OPS : Ops F) (S : Type)
         (fxproc : S -> list (frame F) -> outcome (S * list (frame F))) (T : nat) (g mix : F)
         (fxstep : S -> frame F -> S * frame F) (Inv : S -> Prop),
    (forall s ys, Inv s -> length ys <= T -> fxproc s ys = Ok (run_frames fxstep s ys)) ->
    (forall s y, Inv s -> Inv (fst (fxstep s y))) ->
    forall (xs buf : list (frame F)) (s : S),
      1 <= length buf -> Inv s -> length xs <= T ->
      delay_process S fxproc T g mix buf s xs =
      Ok (flat3 S (run_frames (delay_step S g mix fxstep) (buf, s) xs)).
Proof. exact @delay_process_spec. Qed.

(** Why the line must hold a frame: the chunked code on an EMPTY line panics (chunks_mut(0)) for every
    input -- what F3 was before [init] took max(1). *)
Theorem delay_empty_line_panics_any :
  forall (F : Type) (OPS : Ops F) (S : Type)
         (fxproc : S -> list (frame F) -> outcome (S * list (frame F))) (T : nat) (g mix : F) (s : S) (xs : list (frame F)),
    delay_process S fxproc T g mix [] s xs = Panic ChunkSizeZero.
Proof. exact @delay_zero_length_panics. Qed.

(** Reals: from a cleared state zero input gives zero output and a cleared state, for runs of any length. *)
Theorem silence_in_silence_out_R :
  forall (e : effect R) (xs : list (frame R)) (s : estate R),
    sil_ok consts_R ZrR FinR e -> cleared ZrR s -> Forall (Zf ZrR) xs ->
    cleared ZrR (fst (run_frames (estep consts_R e) s xs)) /\
    Forall (Zf ZrR) (snd (run_frames (estep consts_R e) s xs)).
Proof. exact silence_R. Qed.

(** binary32 (zero = +0 or -0), under finiteness of the per-call coefficients ([sil_ok]); no guard on the
    distortion drive any more (F4 repaired). *)
Theorem silence_in_silence_out_b32 :
  forall (e : effect f32) (xs : list (frame f32)) (s : estate f32),
    sil_ok consts_f32 Zr32 Fin32 e -> cleared Zr32 s -> Forall (Zf Zr32) xs ->
    cleared Zr32 (fst (run_frames (estep consts_f32 e) s xs)) /\
    Forall (Zf Zr32) (snd (run_frames (estep consts_f32 e) s xs)).
Proof. exact silence_b32. Qed.

(** The state built by [init] is cleared. *)
Theorem init_is_cleared_R :
  forall e : effect R, cleared ZrR (init e).
Proof. exact init_cleared_R. Qed.

(** Same in binary32. *)
Theorem init_is_cleared_b32 :
  forall e : effect f32, cleared Zr32 (init e).
Proof. exact init_cleared_b32. Qed.

(** The only condition left over the reals: silence is not above the compressor threshold. *)
Theorem compressor_silence_condition_R :
  forall (lg pw : R -> R) (thr ratio sa sr mk : R),
    (20 * lg (Rabs 0) <= thr)%R -> comp_ok ZrR FinR lg pw thr ratio sa sr mk.
Proof. exact comp_ok_R. Qed.

(** binary32: a compressor ratio of exactly 0 turns silence into NaN (0 * inf). *)
Theorem compressor_silence_ratio0_refuted :
  exists (e : effect f32),
    e = ECompressor lg_w pw_w (oZ 0) (oZ 0) (f32_of_bits 0x3F7FF000) (f32_of_bits 0x3F7FFF00) (oZ 0) (oZ 1) /\
    snd (estep consts_f32 e (init e) fr_zero) = (B754_nan, B754_nan).
Proof. exact compressor_silence_ratio0_refuted. Qed.

(** Fully dry (mix = 0): output = input, every effect with a mix, any state, any nesting, any length. *)
Theorem dry_identity_R :
  forall (e : effect R) (s : estate R) (xs : list (frame R)),
    dry e -> snd (run_frames (estep consts_R e) s xs) = xs.
Proof. exact dry_identity_R. Qed.

(** 0 dB volume: amplitude exactly 1 (shortcut, any libm), output = input. *)
Theorem volume_0dB_identity_R :
  forall (pw : R -> R) (s : estate R) (xs : list (frame R)),
    snd (run_frames (estep consts_R (EVolume (db_amp pw (eff 0%R)))) s xs) = xs.
Proof. exact volume_0dB_identity_R. Qed.

(** Centre panning returns the input itself, for ANY operations (bit-exact in binary32). *)
Theorem centre_pan_identity_any :
  forall (F : Type) (OPS : Ops F) (K : consts F) (p : F) (s : estate F) (xs : list (frame F)),
    oeqb p (oZ 0) = true -> snd (run_frames (estep K (EPanning p)) s xs) = xs.
Proof. exact centre_pan_identity_any. Qed.

(** 0 dB EQ gain: m0 = 1, m1 = m2 = 0 for bell, low shelf and high shelf (given 10^0 = 1). *)
Theorem eq_0dB_coefficients_R :
  forall (cpi c1e4 chalf cminq : R) (tan pow10 : R -> R) (kind : eqkind) (frequency q dt : R),
    pow10 0%R = 1%R ->
    snd (eq_coeffs cpi c1e4 chalf cminq tan pow10 kind frequency q 0%R dt) = (1%R, 0%R, 0%R).
Proof. exact eq_coeffs_0dB_R. Qed.

(** ... hence output = input. *)
Theorem eq_0dB_identity_R :
  forall (a1 a2 a3 : R) (s : estate R) (xs : list (frame R)),
    snd (run_frames (estep consts_R (EEq a1 a2 a3 1%R 0%R 0%R)) s xs) = xs.
Proof. exact eq_0dB_identity_R. Qed.

(** Hard clip at 0 dB drive (fully wet or fully dry) below full scale: output = input. *)
Theorem hardclip_0dB_identity_R :
  forall (mix : R) (s : estate R) (xs : list (frame R)),
    mix = 1%R \/ mix = 0%R ->
    Forall (fun x : frame R => (Rabs (fst x) <= 1 /\ Rabs (snd x) <= 1)%R) xs ->
    snd (run_frames (estep consts_R (EDistortion true 1%R mix)) s xs) = xs.
Proof. exact hardclip_0dB_identity_R. Qed.

(** Repair of F4: a drive amplitude of 0 (<= -60 dB) leaves the signal to the blend unchanged, any operations. *)
Theorem distortion_zero_drive_any :
  forall (F : Type) (OPS : Ops F) (hard : bool) (drive mix : F) (x : frame F),
    oeqb drive (oZ 0) = true -> distortion_step hard drive mix x = blend x x mix.
Proof. exact distortion_zero_drive_any. Qed.

(** Reals: the linear effects (filter in its 4 modes, EQ filter, delay with linear feedback effects at any
    nesting, reverb, volume and panning control) map a*x + b*y to a*out(x) + b*out(y) from the initial state,
    for inputs of any length. *)
Theorem linear_R :
  forall (a b : R) (e : effect R) (xs ys : list (frame R)),
    linear e -> length xs = length ys ->
    out e (lcomb a b xs ys) = lcomb a b (out e xs) (out e ys).
Proof. exact linear_R. Qed.

(** ... and from arbitrary (related) states: one step is jointly linear in (state, input). *)
Theorem linear_step_R :
  forall (a b : R) (e : effect R) (s1 s2 s3 : estate R) (x1 x2 x3 : frame R),
    linear e -> lin3 a b s1 s2 s3 -> lcf a b x1 x2 x3 ->
    lin3 a b (fst (estep consts_R e s1 x1)) (fst (estep consts_R e s2 x2)) (fst (estep consts_R e s3 x3)) /\
    lcf a b (snd (estep consts_R e s1 x1)) (snd (estep consts_R e s2 x2)) (snd (estep consts_R e s3 x3)).
Proof. exact estep_linear. Qed.

(** Superposition. *)
Theorem superposition_R :
  forall (e : effect R) (xs ys : list (frame R)),
    linear e -> length xs = length ys ->
    out e (lcomb 1 1 xs ys) = lcomb 1 1 (out e xs) (out e ys).
Proof. exact superposition_R. Qed.

(** Scaling. *)
Theorem scaling_R :
  forall (a : R) (e : effect R) (xs : list (frame R)),
    linear e -> out e (lcomb a 0 xs xs) = lcomb a 0 (out e xs) (out e xs).
Proof. exact scaling_R. Qed.

(** binary32: a fixed parameter contributes the same value to every frame of a call, whatever (i+1)/n is
    (why the per-frame interpolation does not make the output depend on the slicing). *)
Theorem interp_fixed_t_irrelevant_b32 :
  forall a t : f32, is_finite t = true -> Bsign t = false -> interp a a t = eff a.
Proof. exact interp_fixed_t_irrelevant_b32. Qed.

(** Same for the f64 parameters. *)
Theorem interp_fixed_t_irrelevant_b64 :
  forall a t : f64, is_finite t = true -> Bsign t = false -> interp a a t = eff a.
Proof. exact interp_fixed_t_irrelevant_b64. Qed.

(** binary32: a fully dry blend returns the input as values (same bits, except that a zero may change
    sign), provided the wet signal is finite. *)
Theorem dry_identity_b32 :
  forall (wet x : frame f32) (mix : f32),
    (mix = B754_zero false \/ mix = B754_zero true) ->
    is_finite (fst wet) = true -> is_finite (snd wet) = true ->
    is_finite (fst x) = true -> is_finite (snd x) = true ->
    same_value (fst (blend wet x mix)) (fst x) /\ same_value (snd (blend wet x mix)) (snd x).
Proof. exact blend_dry_b32. Qed.

(** ... and not otherwise: a NaN or infinite wet signal leaks through a fully dry mix. *)
Theorem dry_identity_nan_wet_b32_refuted :
  exists (wet x : frame f32), x = (Z32 1, Z32 1) /\ blend wet x (Z32 0) = (B754_nan, B754_nan).
Proof. exact blend_dry_nan_leaks_b32_refuted. Qed.

(** binary32: 0 dB (+0 or -0) volume returns every finite frame bit for bit, for any libm. *)
Theorem volume_0dB_identity_b32 :
  forall (pw : f32 -> f32) (db : f32) (x : frame f32),
    (db = B754_zero false \/ db = B754_zero true) ->
    is_finite (fst x) = true -> is_finite (snd x) = true ->
    volume_step (db_amp pw (eff db)) x = x.
Proof. exact volume_0dB_identity_b32. Qed.

(** Reals: the filter's stability clamp follows the rate in force.  At or above the Nyquist frequency of the
    CURRENT [dt] the coefficients no longer depend on the cutoff (they are those of the Nyquist frequency), for
    every [dt] -- nothing of an earlier device rate enters. *)
Theorem filter_above_nyquist_R :
  forall (cpi c1e4 chalf c1p9 : R) (tan : R -> R) (cutoff cutoff' res dt : R),
    (c1e4 <= chalf)%R ->
    (chalf <= cutoff / (1 / dt))%R -> (chalf <= cutoff' / (1 / dt))%R ->
    filter_coeffs cpi c1e4 chalf c1p9 tan cutoff res dt = filter_coeffs cpi c1e4 chalf c1p9 tan cutoff' res dt.
Proof. exact filter_above_nyquist_R. Qed.

(** Same for the EQ filter (bell, low shelf, high shelf). *)
Theorem eq_above_nyquist_R :
  forall (cpi c1e4 chalf cminq : R) (tan pow10 : R -> R) (kind : eqkind) (f f' q gain dt : R),
    (c1e4 <= chalf)%R ->
    (chalf <= f * dt)%R -> (chalf <= f' * dt)%R ->
    eq_coeffs cpi c1e4 chalf cminq tan pow10 kind f q gain dt = eq_coeffs cpi c1e4 chalf cminq tan pow10 kind f' q gain dt.
Proof. exact eq_above_nyquist_R. Qed.

(** The relative frequency handed to [tan] (times pi) is always inside the clamp's range, whatever the
    cutoff and the rate. *)
Theorem relative_cutoff_pinned_R :
  forall x lo hi : R, (lo <= hi)%R -> (lo <= oclamp x lo hi <= hi)%R.
Proof. exact oclamp_range_R. Qed.
