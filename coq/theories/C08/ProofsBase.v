(** C08 — list lemmas used by the invariant proofs. *)
From Coq Require Import Arith List Bool Lia Permutation.
From KV Require Import Base.Outcome C08.Model.
Import ListNotations.

Lemma upd_length {A} (l : list A) i x : length (upd l i x) = length l.
Proof. revert i; induction l as [|h t IH]; intros [|i]; cbn; auto. Qed.

Lemma nth_upd_eq {A} (l : list A) i x d : i < length l -> nth i (upd l i x) d = x.
Proof.
  revert i; induction l as [|h t IH]; intros [|i] H; cbn in *; try lia; auto.
  apply IH; lia.
Qed.

Lemma nth_upd_neq {A} (l : list A) i j x d : i <> j -> nth j (upd l i x) d = nth j l d.
Proof.
  revert i j; induction l as [|h t IH]; intros [|i] [|j] H; cbn; auto; try congruence.
Qed.

Lemma nth_error_nth_d {A} (l : list A) i x d : nth_error l i = Some x -> i < length l /\ nth i l d = x.
Proof.
  intro H. split.
  - apply nth_error_Some. congruence.
  - now apply nth_error_nth.
Qed.

Lemma nth_error_lt {A} (l : list A) i d : i < length l -> nth_error l i = Some (nth i l d).
Proof. intro H. now apply nth_error_nth'. Qed.

Lemma NoDup_bound (l : list nat) c : NoDup l -> (forall x, In x l -> x < c) -> length l <= c.
Proof.
  intros ND H.
  rewrite <- (seq_length c 0).
  apply NoDup_incl_length; auto.
  intros x Hx. apply in_seq. specialize (H x Hx). lia.
Qed.

Lemma in_remove_iff (l : list nat) x y : In x (remove Nat.eq_dec y l) <-> In x l /\ x <> y.
Proof.
  split.
  - apply in_remove.
  - intros [H1 H2]. now apply in_in_remove.
Qed.

Lemma NoDup_remove_nat (l : list nat) y : NoDup l -> NoDup (remove Nat.eq_dec y l).
Proof.
  induction 1 as [|x l Hx ND IH]; cbn; [constructor|].
  destruct (Nat.eq_dec y x); auto.
  constructor; auto. rewrite in_remove_iff. tauto.
Qed.

Lemma remove_length_NoDup (l : list nat) y :
  NoDup l -> In y l -> S (length (remove Nat.eq_dec y l)) = length l.
Proof.
  induction 1 as [|x l Hx ND IH]; cbn; [tauto|].
  intros [->|Hin].
  - destruct (Nat.eq_dec y y); [|congruence]. rewrite notin_remove; auto.
  - destruct (Nat.eq_dec y x) as [->|Hne]; [tauto|]. cbn. now rewrite IH.
Qed.

(** counting the elements of a list that satisfy a predicate through a duplicate-free list of
    their indices *)
Lemma filter_map_S_length (g : nat -> bool) (m : list nat) :
  length (filter g (map S m)) = length (filter (fun i => g (S i)) m).
Proof. induction m as [|a m IHm]; cbn; auto. destruct (g (S a)); cbn; now rewrite IHm. Qed.

Lemma filter_length_seq_aux {A} (f : A -> bool) (h : A) (t : list A) d :
  length (filter (fun i => f (nth i (h :: t) d)) (map S (seq 0 (length t))))
  = length (filter (fun i => f (nth i t d)) (seq 0 (length t))).
Proof. now rewrite filter_map_S_length. Qed.

Lemma filter_length_seq {A} (f : A -> bool) (l : list A) d :
  length (filter f l) = length (filter (fun i => f (nth i l d)) (seq 0 (length l))).
Proof.
  induction l as [|h t IH]; [reflexivity|].
  cbn [length seq]. rewrite <- seq_shift.
  assert (E1 : forall (g : nat -> bool) m,
             length (filter g (0 :: m)) = (if g 0 then 1 else 0) + length (filter g m)).
  { intros; cbn. destruct (g 0); reflexivity. }
  rewrite E1, (filter_length_seq_aux f h t d). cbn [nth].
  assert (E2 : length (filter f (h :: t)) = (if f h then 1 else 0) + length (filter f t)).
  { cbn. destruct (f h); reflexivity. }
  rewrite E2, IH. reflexivity.
Qed.

Lemma count_by_indices {A} (f : A -> bool) (l : list A) d (L : list nat) :
  NoDup L -> (forall i, In i L <-> i < length l /\ f (nth i l d) = true) ->
  length (filter f l) = length L.
Proof.
  intros ND H.
  rewrite (filter_length_seq f l d).
  apply Permutation_length, NoDup_Permutation; auto.
  - apply NoDup_filter, seq_NoDup.
  - intro i. rewrite filter_In, in_seq, H. intuition lia.
Qed.

(** payload multiset of a slot vector *)
Definition slot_payloads (sl : list aslot) : list nat :=
  flat_map (fun a => match adata a with Some p => [p] | None => [] end) sl.

Lemma slot_payloads_insert sl i g p :
  i < length sl -> adata (nth i sl (mkA None 0)) = None ->
  Permutation (slot_payloads (upd sl i (mkA (Some p) g))) (p :: slot_payloads sl).
Proof.
  revert i; induction sl as [|h t IH]; intros [|i] Hi Hd; cbn in *; try lia.
  - rewrite Hd. cbn. reflexivity.
  - fold (slot_payloads (upd t i (mkA (Some p) g))). fold (slot_payloads t).
    rewrite IH by (auto; lia).
    rewrite Permutation_middle. reflexivity.
Qed.

Lemma slot_payloads_remove sl i g p :
  i < length sl -> adata (nth i sl (mkA None 0)) = Some p ->
  Permutation (p :: slot_payloads (upd sl i (mkA None g))) (slot_payloads sl).
Proof.
  revert i; induction sl as [|h t IH]; intros [|i] Hi Hd; cbn in *; try lia.
  - rewrite Hd. cbn. reflexivity.
  - fold (slot_payloads (upd t i (mkA None g))). fold (slot_payloads t).
    rewrite <- (IH i) by (auto; lia).
    rewrite Permutation_middle. reflexivity.
Qed.

Lemma slot_payloads_in sl p :
  In p (slot_payloads sl) <-> exists i, i < length sl /\ adata (nth i sl (mkA None 0)) = Some p.
Proof.
  induction sl as [|h t IH]; cbn.
  - split; [tauto|]. intros (i & Hi & _). lia.
  - fold (slot_payloads t). rewrite in_app_iff, IH. split.
    + intros [H|(i & Hi & Hd)].
      * exists 0. split; [lia|]. destruct (adata h); cbn in H; intuition congruence.
      * exists (S i). split; [lia|auto].
    + intros ([|i] & Hi & Hd).
      * left. rewrite Hd. now left.
      * right. exists i. split; [lia|auto].
Qed.

(** the free list threaded through [cnext] *)
Definition dC := mkC true 0 None.
Definition dA := mkA None 0.

Fixpoint chain (sl : list cslot) (h : option nat) (fl : list nat) : Prop :=
  match fl with
  | [] => h = None
  | x :: r => h = Some x /\ x < length sl /\ chain sl (cnext (nth x sl dC)) r
  end.

Lemma chain_upd sl h fl i x : ~ In i fl -> chain sl h fl -> chain (upd sl i x) h fl.
Proof.
  revert h; induction fl as [|y r IH]; intros h Hn Hc; cbn in *; auto.
  destruct Hc as (-> & Hy & Hc). split; auto. split.
  - now rewrite upd_length.
  - rewrite nth_upd_neq by (intro; subst; tauto). apply IH; tauto.
Qed.

Lemma ctl_new_nth c i : i < c ->
  nth i (cslots (ctl_new c)) dC = mkC true 0 (if S i <? c then Some (S i) else None).
Proof.
  intro H. unfold ctl_new; cbn [cslots].
  set (f := fun i => mkC true 0 (if S i <? c then Some (S i) else None)).
  rewrite (nth_indep _ dC (f 0)) by (now rewrite map_length, seq_length).
  rewrite (map_nth f), seq_nth by auto. reflexivity.
Qed.

Lemma ctl_new_chain c k :
  k <= c -> chain (cslots (ctl_new c)) (if k <? c then Some k else None) (seq k (c - k)).
Proof.
  intro Hk. remember (c - k) as n eqn:En. revert k Hk En.
  induction n as [|n IH]; intros k Hk En; cbn [chain seq].
  - destruct (Nat.ltb_spec k c); auto; lia.
  - destruct (Nat.ltb_spec k c); [|lia]. split; auto. split.
    + unfold ctl_new; cbn [cslots]. rewrite map_length, seq_length. lia.
    + rewrite ctl_new_nth by lia. cbn [cnext]. apply IH; lia.
Qed.

Lemma repeat_nth {A} (x : A) n i d : i < n -> nth i (repeat x n) d = x.
Proof. revert i; induction n; intros [|i] H; cbn; try lia; auto. apply IHn; lia. Qed.

Lemma existsb_eqb_In p l : existsb (Nat.eqb p) l = true <-> In p l.
Proof.
  rewrite existsb_exists. split.
  - intros (x & Hx & E). apply Nat.eqb_eq in E. now subst.
  - intro H. exists p. split; auto. apply Nat.eqb_refl.
Qed.

Lemma key_eqb_eq a b : key_eqb a b = true <-> a = b.
Proof.
  unfold key_eqb. rewrite andb_true_iff, !Nat.eqb_eq. destruct a, b; cbn. split.
  - intros [-> ->]; auto.
  - intro H; inversion H; auto.
Qed.
