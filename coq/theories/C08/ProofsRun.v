(** C08 — no step panics under the invariants; runs; monotonicity of generations. *)
From Coq Require Import Arith List Bool Lia Permutation.
From KV Require Import Base.Outcome C08.Model C08.ProofsBase C08.ProofsInv.
Import ListNotations.

(** ** progress *)

Lemma g_reserve_ok cf s {lk} : InvL cf s lk -> exists s', g_reserve cf s = Ok s'.
Proof.
  intro I. unfold g_reserve. destruct (st_g s); eauto.
  unfold res_try_reserve, ctl_capacity.
  destruct (length (cslots (st_ctl s)) =? 0) eqn:Ez; [cbn; eauto|].
  apply Nat.eqb_neq in Ez. rewrite (i_clen _ _ _ I) in Ez.
  unfold ctl_try_reserve. destruct (i_free _ _ _ I ltac:(lia)) as (fl & Hch & _ & _).
  destruct fl as [|h r]; cbn [chain] in Hch.
  - rewrite Hch. cbn. eauto.
  - destruct Hch as (-> & Hh & _). rewrite (nth_error_lt _ _ dC) by auto. cbn. eauto.
Qed.

Lemma owned_length s lk :
  length (owned s lk) = length (aorder (st_ar s)) + length (st_newq s) + length (gres (st_g s)) + length lk.
Proof. unfold owned, nq_idx. rewrite !app_length, map_length. lia. Qed.

(** the new-queue never overflows: its entries own distinct non-free slots, one more is reserved *)
Lemma g_push_ok cf s {lk} : InvL cf s lk -> exists s', g_push cf s = Ok s'.
Proof.
  intro I. unfold g_push. destruct (st_g s) eqn:Eg; eauto.
  pose proof (owned_bound _ _ I) as Hb. rewrite owned_length, Eg in Hb. cbn [gres length] in Hb.
  unfold ring_push, ring_is_full. destruct (cap cf <=? length (st_newq s)) eqn:E; eauto.
  apply Nat.leb_le in E. lia.
Qed.

(** what one iteration of the removal pass does when it removes *)
Definition removed_state (cf : cfg) (s : state) (k : key) (p : nat) (rest : list key) : state :=
  let idx := kidx k in
  mkSt (mkCtl (upd (cslots (st_ctl s)) idx (mkC true (S (cgen (cs s idx))) (chead (st_ctl s)))) (Some idx))
       (mkAr (upd (aslots (st_ar s)) idx (mkA None (S (agen (asl s idx)))))
             (remove Nat.eq_dec idx (aorder (st_ar s))))
       (if selfref cf then filter (fun k' => negb (key_eqb k k')) (st_keys s) else st_keys s)
       (st_newq s) (st_unused s) (st_marked s) (st_g s) (ARemoving rest)
       (st_next s) (st_created s) (S (st_removed s)) (st_destroyed s) (st_callbacks s) (st_log s)
       (Some p).

Lemma a_remove_spec cf s k rest {lk} :
  InvL cf s lk -> st_a s = ARemoving (k :: rest) -> st_inflight s = None ->
  kidx k < cap cf /\
  exists p, present (st_ar s) k /\ adata (asl s (kidx k)) = Some p /\
            a_remove cf s = Ok (if selfref cf && ring_is_full (unused_cap cf) (st_unused s)
                                then set_a s AAdding
                                else if is_marked s p then removed_state cf s k p rest
                                     else set_a s (ARemoving rest)).
Proof.
  intros I Ea Ef.
  pose proof (i_cur _ _ _ I _ Ea) as [NDcur Hcur].
  assert (Hpk : present (st_ar s) k) by (apply Hcur; now left).
  pose proof Hpk as [Hocc Hgen].
  assert (Hown : In (kidx k) (owned s lk)) by (unfold owned; rewrite in_app_iff; now left).
  pose proof Hown as Hnf. apply (i_nonfree _ _ _ I) in Hnf as [Hidx Hnf].
  pose proof (i_clen _ _ _ I) as Hcl. pose proof (i_alen _ _ _ I) as Hal.
  split; auto.
  destruct (adata (asl s (kidx k))) as [p|] eqn:Ed.
  2:{ exfalso. apply (i_occ _ _ _ I) in Hocc; auto. }
  exists p. split; auto. split; auto.
  unfold a_remove. rewrite Ea, Ef.
  destruct (selfref cf && ring_is_full (unused_cap cf) (st_unused s)); auto.
  unfold arena_get. rewrite (nth_error_lt _ _ dA) by lia.
  rewrite <- Hgen, Nat.eqb_refl, Ed. cbn [obind].
  destruct (is_marked s p); auto.
  unfold arena_remove, arena_remove_from_slot, ctl_free.
  rewrite (nth_error_lt _ _ dA) by lia.
  rewrite <- Hgen, Nat.eqb_refl, Ed.
  rewrite (nth_error_lt _ _ dC) by lia.
  cbn [obind]. unfold removed_state. now rewrite Hgen.
Qed.

Lemma a_remove_ok cf s {lk} : InvL cf s lk -> exists s', a_remove cf s = Ok s'.
Proof.
  intro I. destruct (st_inflight s) eqn:Ef.
  { unfold a_remove. rewrite Ef. destruct (st_a s) as [|[|]|]; eauto. }
  destruct (st_a s) as [|[|k rest]|] eqn:Ea;
    try (unfold a_remove; rewrite Ea, ?Ef; cbn; eauto; fail).
  destruct (a_remove_spec _ _ _ _ I Ea Ef) as (_ & p & _ & _ & ->). eauto.
Qed.

(** the one panic that IS reachable: the push into the unused-ring *)
Lemma a_push_cases cf s :
  (exists s', a_push cf s = Ok s') \/ a_push cf s = Panic QueueFull.
Proof.
  unfold a_push. destruct (st_inflight s); eauto.
  destruct (ring_push (unused_cap cf) (st_unused s) n); eauto.
Qed.

Lemma a_push_ok cf s : QInv cf s -> exists s', a_push cf s = Ok s'.
Proof.
  intro Q. unfold a_push. destruct (st_inflight s) as [p|] eqn:Ef; eauto.
  unfold QInv in Q. rewrite Ef in Q. cbn [infl length] in Q.
  unfold ring_push, ring_is_full, unused_cap.
  destruct (S (cap cf) <=? length (st_unused s)) eqn:E; eauto.
  apply Nat.leb_le in E. lia.
Qed.

Definition added_state (cf : cfg) (s : state) (k : key) (p : nat) (rest : list (key * nat)) : state :=
  mkSt (st_ctl s)
       (mkAr (upd (aslots (st_ar s)) (kidx k) (mkA (Some p) (agen (asl s (kidx k)))))
             (kidx k :: aorder (st_ar s)))
       (if selfref cf then st_keys s ++ [k] else st_keys s) rest
       (st_unused s) (st_marked s) (st_g s) AAdding
       (st_next s) (st_created s) (st_removed s) (st_destroyed s) (st_callbacks s) (st_log s)
       (st_inflight s).

Lemma a_add_spec cf s k p rest {lk} :
  InvL cf s lk -> st_a s = AAdding -> st_newq s = (k, p) :: rest ->
  kidx k < cap cf /\ kgen k = agen (asl s (kidx k)) /\ adata (asl s (kidx k)) = None /\
  a_add cf s = Ok (added_state cf s k p rest).
Proof.
  intros I Ea Eq.
  pose proof (i_alen _ _ _ I) as Hal.
  pose proof (i_part _ _ _ I) as Hpart. unfold owned in Hpart. rewrite Eq in Hpart.
  cbn [nq_idx map fst] in Hpart.
  assert (Hown : In (kidx k) (owned s lk)).
  { unfold owned. rewrite Eq. cbn [nq_idx map fst]. rewrite !in_app_iff. right. left. now left. }
  pose proof Hown as Hnf. apply (i_nonfree _ _ _ I) in Hnf as [Hidx Hnf].
  assert (Hgen : kgen k = agen (asl s (kidx k))).
  { rewrite (i_gen _ _ _ I) by auto. apply (i_nqgen _ _ _ I k p). rewrite Eq. now left. }
  assert (Hnocc : ~ In (kidx k) (aorder (st_ar s))).
  { intro Hin. apply NoDup_app_iff in Hpart as (_ & _ & Hd). apply (Hd _ Hin). now left. }
  assert (Hd : adata (asl s (kidx k)) = None).
  { destruct (adata (asl s (kidx k))) eqn:E; auto. exfalso. apply Hnocc.
    apply (i_occ _ _ _ I); auto. congruence. }
  repeat split; auto.
  unfold a_add. rewrite Ea, Eq.
  unfold arena_insert_with_key. rewrite (nth_error_lt _ _ dA) by lia.
  rewrite <- Hgen, Nat.eqb_refl, Hd. cbn [negb]. unfold added_state. now rewrite Hgen.
Qed.

Lemma a_add_ok cf s {lk} : InvL cf s lk -> exists s', a_add cf s = Ok s'.
Proof.
  intro I. destruct (st_a s) eqn:Ea; try (unfold a_add; rewrite Ea; eauto; fail).
  destruct (st_newq s) as [|[k p] rest] eqn:Eq.
  - unfold a_add. rewrite Ea, Eq. eauto.
  - destruct (a_add_spec _ _ _ _ _ I Ea Eq) as (_ & _ & _ & ->). eauto.
Qed.

(** under the structural invariant alone, the only step that could fail is the push into the
    unused-ring; the queue bound [QInv] excludes that too ([step_ok]) *)
Theorem step_cases cf l s {lk} :
  InvL cf s lk ->
  (exists s', step cf l s = Ok s' /\ InvL cf s' lk) \/ (l = A_push /\ step cf l s = Panic QueueFull).
Proof.
  intro I.
  assert (H : (exists s', step cf l s = Ok s') \/ (l = A_push /\ step cf l s = Panic QueueFull)).
  { destruct l; cbn [step].
    - left. eapply g_reserve_ok; eauto.
    - left. unfold g_drain_one. destruct (st_g s), (st_unused s); eauto.
    - left. unfold g_drain_done. destruct (st_g s), (st_unused s); eauto.
    - left. eapply g_push_ok; eauto.
    - left. unfold g_mark. destruct ((p <? st_next s) && negb (is_marked s p)); eauto.
    - left. unfold a_start. destruct (st_a s); eauto.
    - left. eapply a_remove_ok; eauto.
    - destruct (a_push_cases cf s); auto.
    - left. eapply a_add_ok; eauto.
    - left. unfold g_fail. destruct (st_g s); eauto. }
  destruct H as [[s' H]|H]; auto. left. exists s'. split; auto. eapply inv_step; eauto.
Qed.

(** ** the queue bound is preserved by every step *)
Lemma qinv_step cf l s s' {lk} :
  InvL cf s lk -> QInv cf s -> step cf l s = Ok s' -> QInv cf s'.
Proof.
  intros I Q H. unfold QInv in *. destruct l; cbn [step] in H.
  - unfold g_reserve in H. destruct (st_g s) eqn:Eg; try (inversion H; subst; rewrite Eg; exact Q).
    destruct (res_try_reserve (st_ctl s)) as [[|]| |]; cbn in H; inversion H; subst; cbn; auto.
    destruct (prebuild cf); cbn; rewrite ?Eg; auto.
  - unfold g_drain_one in H. destruct (st_g s) eqn:Eg, (st_unused s) eqn:Eu; inversion H; subst;
      cbn; rewrite ?Eg, ?Eu; cbn [length] in *; auto; lia.
  - unfold g_drain_done in H.
    destruct (st_g s) eqn:Eg, (st_unused s) eqn:Eu; inversion H; subst; cbn; rewrite ?Eg, ?Eu; auto.
    (* the drain saw the ring empty; at most one payload is in flight *)
    pose proof (owned_bound _ _ I) as Hb. rewrite owned_length, Eg in Hb.
    destruct (st_inflight s); cbn in *; lia.
  - unfold g_push in H. destruct (st_g s) eqn:Eg; try (inversion H; subst; rewrite Eg; exact Q).
    unfold ring_push in H. destruct (ring_is_full (cap cf) (st_newq s)); inversion H; subst.
    cbn in *. rewrite app_length. cbn. lia.
  - unfold g_mark in H. destruct ((p <? st_next s) && negb (is_marked s p)); inversion H; subst; auto.
  - unfold a_start in H. destruct (st_a s); inversion H; subst; auto.
  - destruct (st_inflight s) eqn:Ef.
    { unfold a_remove in H. rewrite Ef in H. destruct (st_a s) as [|[|]|]; inversion H; subst; now rewrite Ef. }
    destruct (st_a s) as [|[|k rest]|] eqn:Ea;
      try (unfold a_remove in H; rewrite Ea, ?Ef in H; inversion H; subst; cbn; rewrite ?Ef; auto; fail).
    destruct (a_remove_spec _ _ _ _ I Ea Ef) as (_ & p & [Hocc _] & _ & E). rewrite E in H.
    inversion H; subst; clear H.
    destruct (selfref cf && ring_is_full (unused_cap cf) (st_unused s)); [cbn; now rewrite Ef|].
    destruct (is_marked s p); [|cbn; now rewrite Ef].
    pose proof (i_part _ _ _ I) as Hpart. unfold owned in Hpart.
    apply NoDup_app_iff in Hpart as (NDocc & _ & _).
    pose proof (remove_length_NoDup _ _ NDocc Hocc) as Hlen.
    cbn in *. lia.
  - unfold a_push in H. destruct (st_inflight s) eqn:Ef; [|inversion H; subst; now rewrite Ef].
    unfold ring_push in H. destruct (ring_is_full (unused_cap cf) (st_unused s)); inversion H; subst.
    cbn in *. rewrite app_length. cbn. lia.
  - destruct (st_a s) eqn:Ea;
      try (unfold a_add in H; rewrite Ea in H; inversion H; subst; auto; fail).
    destruct (st_newq s) as [|[k p] rest] eqn:Eq.
    + unfold a_add in H. rewrite Ea, Eq in H. inversion H; subst. cbn in *. auto.
    + destruct (a_add_spec _ _ _ _ _ I Ea Eq) as (_ & _ & _ & E). rewrite E in H.
      inversion H; subst. cbn in *. lia.
  - unfold g_fail in H. destruct (st_g s) eqn:Eg; inversion H; subst; rewrite ?Eg; auto.
    destruct (prebuild cf && built); cbn; rewrite ?Eg; auto.
Qed.

Lemma qinv_init cf : QInv cf (init cf).
Proof. unfold QInv, init; cbn. lia. Qed.

Theorem step_ok cf l s {lk} :
  InvL cf s lk -> QInv cf s -> exists s', step cf l s = Ok s' /\ InvL cf s' lk /\ QInv cf s'.
Proof.
  intros I Q. destruct (step_cases cf l s I) as [(s' & H & I')|[-> H]].
  - exists s'. split; [auto|]. split; [auto|]. eapply (qinv_step cf l s s'); eauto.
  - exfalso. cbn [step] in H. destruct (a_push_ok cf s Q) as [s' E]. congruence.
Qed.

Lemma step_ok_base cf l s :
  Inv cf s -> QInv cf s -> exists s', step cf l s = Ok s' /\ Inv cf s' /\ QInv cf s'.
Proof. apply step_ok. Qed.

(** ** runs *)
Lemma run_inv cf sched s s' {lk} : InvL cf s lk -> run cf sched s = Ok s' -> InvL cf s' lk.
Proof.
  revert s. induction sched as [|l rest IH]; intros s I H; cbn [run] in H.
  - now inversion H; subst.
  - destruct (step cf l s) as [s1| |] eqn:E; cbn [obind] in H; try discriminate.
    apply (IH s1); [eapply inv_step; eauto|exact H].
Qed.

Theorem run_ok cf sched s {lk} :
  InvL cf s lk -> QInv cf s ->
  exists s', run cf sched s = Ok s' /\ InvL cf s' lk /\ QInv cf s'.
Proof.
  revert s. induction sched as [|l rest IH]; intros s I Q; cbn [run].
  - eauto.
  - destruct (step_ok cf l s I Q) as (s1 & E & I1 & Q1).
    rewrite E. cbn [obind]. apply IH; auto.
Qed.

Lemma run_qinv cf sched s s' {lk} :
  InvL cf s lk -> QInv cf s -> run cf sched s = Ok s' -> QInv cf s'.
Proof.
  intros I Q H. destruct (run_ok cf sched s I Q) as (s2 & E & _ & Q2). congruence.
Qed.

Lemma run_app cf a b s s2 :
  run cf (a ++ b) s = Ok s2 <-> exists s1, run cf a s = Ok s1 /\ run cf b s1 = Ok s2.
Proof.
  revert s. induction a as [|l a IH]; intro s; cbn [app run].
  - split; [eauto|]. intros (s1 & E & H). now inversion E; subst.
  - destruct (step cf l s) as [s1| |]; cbn [obind].
    + apply IH.
    + split; [discriminate|]. intros (? & ? & _). discriminate.
    + split; [discriminate|]. intros (? & ? & _). discriminate.
Qed.

(** a property preserved by every successful step from invariant states holds along every run *)
Lemma run_preserves cf {lk} (P : state -> Prop) :
  (forall l s s', InvL cf s lk -> P s -> step cf l s = Ok s' -> P s') ->
  forall sched s s', InvL cf s lk -> P s -> run cf sched s = Ok s' -> P s'.
Proof.
  intros Hstep sched. induction sched as [|l rest IH]; intros s s' I HP H; cbn [run] in H.
  - now inversion H; subst.
  - destruct (step cf l s) as [s1| |] eqn:E; cbn [obind] in H; try discriminate.
    apply (IH s1 s'); [eapply inv_step; eauto|eapply Hstep; eauto|exact H].
Qed.

(** the same with the queue bound available *)
Lemma run_preserves_q cf {lk} (P : state -> Prop) :
  (forall l s s', InvL cf s lk -> QInv cf s -> P s -> step cf l s = Ok s' -> P s') ->
  forall sched s s', InvL cf s lk -> QInv cf s -> P s -> run cf sched s = Ok s' -> P s'.
Proof.
  intros Hstep sched. induction sched as [|l rest IH]; intros s s' I Q HP H; cbn [run] in H.
  - now inversion H; subst.
  - destruct (step_ok cf l s I Q) as (s1 & E & I1 & Q1).
    rewrite E in H. cbn [obind] in H. eapply IH; eauto.
Qed.

(** ** monotone quantities *)
Definition mono (s s' : state) : Prop :=
  (forall i, cgen (cs s i) <= cgen (cs s' i)) /\
  st_callbacks s <= st_callbacks s' /\
  (forall p, is_marked s p = true -> is_marked s' p = true) /\
  st_next s <= st_next s' /\
  (forall e, In e (st_log s) -> In e (st_log s')).

Lemma mono_refl s : mono s s.
Proof. repeat split; auto. Qed.

Lemma nth_upd_cgen_le sl i x j :
  cgen (nth i sl dC) <= cgen x -> cgen (nth j sl dC) <= cgen (nth j (upd sl i x) dC).
Proof.
  intro H. destruct (Nat.eq_dec i j) as [->|Hne].
  - destruct (Nat.lt_ge_cases j (length sl)).
    + now rewrite nth_upd_eq.
    + rewrite !nth_overflow; auto. now rewrite upd_length.
  - now rewrite nth_upd_neq.
Qed.

Lemma step_mono cf l s s' {lk} : InvL cf s lk -> step cf l s = Ok s' -> mono s s'.
Proof.
  intros I H. destruct l; cbn [step] in H.
  - unfold g_reserve in H. destruct (st_g s); try (inversion H; subst; apply mono_refl).
    unfold res_try_reserve in H. destruct (ctl_capacity (st_ctl s) =? 0); cbn [obind] in H.
    { inversion H; subst. destruct (prebuild cf); repeat split; cbn; auto. }
    unfold ctl_try_reserve in H. destruct (chead (st_ctl s)) as [h|]; cbn in H.
    + destruct (nth_error (cslots (st_ctl s)) h) as [sl|] eqn:En; cbn in H; [|discriminate].
      apply (nth_error_nth_d _ _ _ dC) in En as [Hh Esl]. inversion H; subst; clear H.
      repeat split; cbn; auto. intro i. apply nth_upd_cgen_le. cbn. lia.
    + inversion H; subst. destruct (prebuild cf); repeat split; cbn; auto.
  - unfold g_drain_one in H. destruct (st_g s), (st_unused s); inversion H; subst;
      repeat split; cbn; auto.
  - unfold g_drain_done in H. destruct (st_g s), (st_unused s); inversion H; subst;
      repeat split; cbn; auto.
  - unfold g_push in H. destruct (st_g s); try (inversion H; subst; apply mono_refl).
    destruct (ring_push (cap cf) (st_newq s) (k, st_next s)); inversion H; subst.
    repeat split; cbn; auto.
  - unfold g_mark in H. destruct ((p <? st_next s) && negb (is_marked s p));
      inversion H; subst; try apply mono_refl.
    repeat split; cbn; auto. intros q Hq. unfold is_marked in *. cbn. rewrite Hq. apply orb_true_r.
  - unfold a_start in H. destruct (st_a s); inversion H; subst; repeat split; cbn; auto.
  - destruct (st_inflight s) eqn:Ef.
    { unfold a_remove in H. rewrite Ef in H. destruct (st_a s) as [|[|]|]; inversion H; subst; apply mono_refl. }
    destruct (st_a s) as [|[|k rest]|] eqn:Ea;
      try (unfold a_remove in H; rewrite Ea, ?Ef in H; inversion H; subst; repeat split; cbn; auto; fail).
    destruct (a_remove_spec _ _ _ _ I Ea Ef) as (Hidx & p & _ & _ & E). rewrite E in H.
    inversion H; subst; clear H.
    destruct (selfref cf && ring_is_full (unused_cap cf) (st_unused s)); [repeat split; cbn; auto|].
    destruct (is_marked s p); [|repeat split; cbn; auto].
    repeat split; cbn; auto. intro i. apply nth_upd_cgen_le. cbn. lia.
  - unfold a_push in H. destruct (st_inflight s); [|inversion H; subst; apply mono_refl].
    destruct (ring_push (unused_cap cf) (st_unused s) n); inversion H; subst. repeat split; cbn; auto.
  - destruct (st_a s) eqn:Ea;
      try (unfold a_add in H; rewrite Ea in H; inversion H; subst; repeat split; cbn; auto; fail).
    destruct (st_newq s) as [|[k p] rest] eqn:Eq.
    + unfold a_add in H. rewrite Ea, Eq in H. inversion H; subst. repeat split; cbn; auto.
    + destruct (a_add_spec _ _ _ _ _ I Ea Eq) as (_ & _ & _ & E). rewrite E in H.
      inversion H; subst. repeat split; cbn; auto.
  - unfold g_fail in H. destruct (st_g s); inversion H; subst; try apply mono_refl.
    destruct (prebuild cf && built); repeat split; cbn; auto.
Qed.

Lemma mono_trans a b c : mono a b -> mono b c -> mono a c.
Proof.
  intros (A1 & A2 & A3 & A4 & A5) (B1 & B2 & B3 & B4 & B5). repeat split; auto; try lia.
  intro i. specialize (A1 i). specialize (B1 i). lia.
Qed.

Lemma run_mono cf sched s s' {lk} : InvL cf s lk -> run cf sched s = Ok s' -> mono s s'.
Proof.
  revert s. induction sched as [|l rest IH]; intros s I H; cbn [run] in H.
  - inversion H; subst. apply mono_refl.
  - destruct (step cf l s) as [s1| |] eqn:E; cbn [obind] in H; try discriminate.
    eapply mono_trans; [eapply step_mono; eauto|]. apply (IH s1); [eapply inv_step; eauto|exact H].
Qed.

(** ** the statements of Props.v that live at this level *)
Lemma res_invariant_proof :
  forall (cf : cfg) (sched : list label),
    exists s, run cf sched (init cf) = Ok s /\ Inv cf s /\ QInv cf s.
Proof. intros cf sched. apply run_ok. apply inv_init. apply qinv_init. Qed.

Lemma reach cf sched s : run cf sched (init cf) = Ok s -> Inv cf s /\ QInv cf s.
Proof.
  intro H. destruct (res_invariant_proof cf sched) as (s' & E & I & Q). rewrite H in E.
  inversion E; subst. auto.
Qed.
