(** C08 — executable model of kira's resource hand-off between the gameplay thread and the
    audio thread.

    Transcribed from
      atomic-arena 0.1.2  src/controller.rs  (ControllerInner::{new, try_reserve, free, len, capacity})
                          src/lib.rs         (Arena::{new, insert_with_key, remove_from_slot, remove, get})
                          src/iter.rs        (Iter / DrainFilter: iteration order)
      kira  src/backend/resources.rs  (ResourceStorage::{new, remove_and_add},
                                       SelfReferentialResourceStorage::{new, remove_and_add, remove_unused},
                                       ResourceController::{try_reserve, insert, insert_with_key, remove_unused,
                                       len, capacity})
      rtrb 0.3.5 (bounded SPSC ring: push / pop / is_full).

    What is abstracted (stated once, here):
    - Sequential consistency.  One [step] is one atomic action: a whole [try_reserve] (its CAS loop has a
      single popper, the gameplay thread), a whole [Arena::remove_from_slot] including [Controller::free]
      (flag store, generation increment and the CAS push of the free list; single pusher, the audio
      thread), one rtrb [push] / [pop] / [is_full].  The removal of a resource from the arena (which
      frees its slot) and the push of its payload into the unused-ring are TWO steps ([A_remove],
      [A_push]) with the payload "in flight" ([st_inflight]) in between, as in the code
      ([for (_, r) in drain_filter(..) { push(r) }], [let r = remove(key).unwrap(); push(r)]): the
      gameplay thread can run a whole [insert] in that window (finding F27; since /repo 38abf69 the
      unused-ring has capacity + 1 slots, which is what this model has: [unused_cap]).
    - [ResourceController::try_reserve] answers the limit error itself when the capacity is 0
      (/repo 1316c08, finding F2); [ctl_try_reserve] below is atomic_arena's, which would panic.
    - [usize] is [nat]: the generation counter does not wrap (2^64 removals of one slot are out of scope).
    - The arena's doubly linked list of occupied slots is the list [aorder] of slot indices, head first
      (iteration order of [Iter], [IterMut] and [DrainFilter]: most recently inserted first).
    - The free list is NOT abstracted: it is threaded through [cnext] with head [chead], as in the code,
      including [ControllerInner::new 0] (head index 0 over an empty slot vector).
    - A payload (Track, SendTrack, Clock, Box<dyn Sound>, Box<dyn Modulator>, Listener) is a natural
      number (its creation index); the removal test ([is_marked_for_removal] / [finished] /
      [should_be_removed]) is membership in the set [st_marked], which the environment grows with
      [G_mark] (dropping a handle, a sound finishing).
    - [DrainFilter] / the index loop of [remove_unused] read the list structure lazily; only the audio
      thread mutates the arena and [keys], so a snapshot of the keys still to be visited taken at the
      start of the pass ([ARemoving cur]) visits the same slots in the same order.

    CREATION CALL SITES (kira 0.10.5 as in /repo; "fallible part" = code that can end the creation
    early: a [Result] that is propagated with [?], or user code that may unwind).  "B" = the fallible part
    runs BEFORE [try_reserve] (a failure finds the gameplay thread in [GIdle]: step [G_fail]); "A" = user
    code runs AFTER [try_reserve] and before [insert_with_key] has pushed (a failure finds it in
    [GReserved k]: step [X_fail_late] of the extension at the end of this file; the code has no way of
    giving the key back: [atomic_arena::Controller] only has [try_reserve], and [Key] is [Copy] without
    [Drop]).

    | call site (file:line)                                   | storage            | order of the code                                                                 | fallible part                                 | where |
    |---------------------------------------------------------|--------------------|-----------------------------------------------------------------------------------|-----------------------------------------------|-------|
    | MainTrackHandle::play       track/main/handle.rs:17-28  | sounds, main track | into_sound()? (21-23) -> sound_controller.insert (24-26) = try_reserve; insert_with_key | SoundData::into_sound -> Err (IntoSoundError) | B, no payload |
    | TrackHandle::play           track/sub/handle.rs:44-55   | sounds, sub-track  | into_sound()? (48-50) -> insert (51-53)                                            | the same                                      | B, no payload |
    | SpatialTrackHandle::play    track/sub/spatial_handle.rs:44-55 | sounds, spatial track | into_sound()? (48-50) -> insert (51-53)                                     | the same                                      | B, no payload |
    | AudioManager::play          manager.rs:109-114          | sounds, main track | = main_track().play                                                               | the same                                      | B |
    | AudioManager::add_sub_track manager.rs:117-128          | sub-tracks, mixer  | TrackBuilder::build (121-122) -> init_effects (123) -> insert (124-126)           | none by type; Effect::init (user code) may unwind: the built Track is dropped by the caller | B, payload built |
    | AudioManager::add_spatial_sub_track manager.rs:131-148  | sub-tracks, mixer  | SpatialTrackBuilder::build (137-142) -> init_effects (143) -> insert (144-146)    | as above                                      | B, payload built |
    | TrackHandle::add_sub_track  track/sub/handle.rs:58-67   | sub-tracks of a track | build (62-63) -> init_effects (64) -> insert (65)                              | as above                                      | B, payload built |
    | TrackHandle::add_spatial_sub_track  track/sub/handle.rs:70-85 | sub-tracks of a track | build (76-81) -> init_effects (82) -> insert (83)                        | as above                                      | B, payload built |
    | SpatialTrackHandle::add_sub_track   track/sub/spatial_handle.rs:58-67 | sub-tracks of a spatial track | build (62-63) -> init_effects (64) -> insert (65)          | as above                                      | B, payload built |
    | SpatialTrackHandle::add_spatial_sub_track track/sub/spatial_handle.rs:70-85 | sub-tracks of a spatial track | build (76-81) -> init_effects (82) -> insert (83)    | as above                                      | B, payload built |
    | AudioManager::add_send_track manager.rs:151-166         | send tracks        | try_reserve? (155-158) -> SendTrackBuilder::build(id) (160) -> init_effects (161) -> insert_with_key (162-164) | none by type; Effect::init (user code) runs with the key reserved | A, payload built |
    | AudioManager::add_modulator manager.rs:209-223          | modulators         | try_reserve? (213-216) -> ModulatorBuilder::build(id) (218, user code) -> insert_with_key (219-221) | none by type; the user's builder runs with the key reserved | A, no payload |
    | AudioManager::add_clock     manager.rs:182-193          | clocks             | try_reserve? (186) -> Clock::new (188) -> insert_with_key (189-191)               | none (no user code in between)                | - |
    | AudioManager::add_listener  manager.rs:239-254          | listeners          | try_reserve? (244-247) -> Listener::new (249) -> insert_with_key (250-252)        | none (no user code in between)                | - |
    | ResourceController::insert_with_key backend/resources.rs:228-235 | every storage | remove_unused (229: pops AND DROPS the payloads the audio thread gave back, user Drop code) -> push (230-234) | a payload's Drop may unwind with the key reserved | A, payload built |

    EffectBuilder::build and the built-in builders are infallible by type, and TrackBuilder::{add_effect,
    with_effect} run them when the effect is added to the builder, i.e. before any of the calls above.
    StreamingSoundData::into_sound fails (before anything is reserved) when the decoder's first [seek]
    fails (sound/streaming/sound/decode_scheduler.rs:66). *)
From Coq Require Import Arith List Bool.
From KV Require Import Base.Outcome.
Import ListNotations.

(** * small helpers *)
Fixpoint upd {A} (l : list A) (i : nat) (x : A) : list A :=
  match l, i with
  | [], _ => []
  | _ :: t, O => x :: t
  | h :: t, S j => h :: upd t j x
  end.

(** * atomic_arena::Key *)
Record key := mkKey { kidx : nat; kgen : nat }.
Definition key_eqb (a b : key) : bool := (kidx a =? kidx b) && (kgen a =? kgen b).

(** * atomic_arena::Controller *)
(** [next_free_slot_index]: [None] is NO_NEXT_FREE_SLOT (usize::MAX) *)
Record cslot := mkC { cfree : bool; cgen : nat; cnext : option nat }.
Record ctl := mkCtl { cslots : list cslot; chead : option nat }.

(** [ControllerInner::new]: [first_free_slot_index] is 0 whatever the capacity *)
Definition ctl_new (c : nat) : ctl :=
  {| cslots := map (fun i => mkC true 0 (if S i <? c then Some (S i) else None)) (seq 0 c);
     chead := Some 0 |}.

Inductive reserve_result := Reserved (k : key) (c' : ctl) | ArenaFull.

(** [ControllerInner::try_reserve] (the CAS cannot fail for a single popper) *)
Definition ctl_try_reserve (c : ctl) : outcome reserve_result :=
  match chead c with
  | None => Ok ArenaFull
  | Some h =>
      match nth_error (cslots c) h with
      | None => Panic OutOfBounds                      (* &self.slots[first_free_slot_index] *)
      | Some sl =>
          Ok (Reserved (mkKey h (cgen sl))
                (mkCtl (upd (cslots c) h (mkC false (cgen sl) (cnext sl))) (cnext sl)))
      end
  end.

(** [ControllerInner::free] *)
Definition ctl_free (c : ctl) (i : nat) : outcome ctl :=
  match nth_error (cslots c) i with
  | None => Panic OutOfBounds
  | Some sl => Ok (mkCtl (upd (cslots c) i (mkC true (S (cgen sl)) (chead c))) (Some i))
  end.

Definition ctl_len (c : ctl) : nat := length (filter (fun s => negb (cfree s)) (cslots c)).
Definition ctl_capacity (c : ctl) : nat := length (cslots c).

(** * atomic_arena::Arena (payloads are [nat]) *)
Record aslot := mkA { adata : option nat; agen : nat }.
Record arena := mkAr { aslots : list aslot; aorder : list nat }.

Definition arena_new (c : nat) : arena := mkAr (repeat (mkA None 0) c) [].

Inductive insert_result := Inserted (a : arena) | InvalidKey | KeyNotReserved.

Definition arena_insert_with_key (a : arena) (k : key) (p : nat) : insert_result :=
  match nth_error (aslots a) (kidx k) with
  | None => InvalidKey
  | Some sl =>
      if negb (agen sl =? kgen k) then InvalidKey
      else match adata sl with
           | Some _ => KeyNotReserved
           | None => Inserted (mkAr (upd (aslots a) (kidx k) (mkA (Some p) (agen sl)))
                                    (kidx k :: aorder a))
           end
  end.

(** [Arena::get] ([&self.slots[key.index]] panics for a foreign index) *)
Definition arena_get (a : arena) (k : key) : outcome (option nat) :=
  match nth_error (aslots a) (kidx k) with
  | None => Panic OutOfBounds
  | Some sl => Ok (if agen sl =? kgen k then adata sl else None)
  end.

(** [Arena::remove_from_slot]: also frees the slot in the shared controller *)
Definition arena_remove_from_slot (a : arena) (c : ctl) (i : nat) : outcome (option nat * arena * ctl) :=
  match nth_error (aslots a) i with
  | None => Panic OutOfBounds
  | Some sl =>
      match adata sl with
      | None => Ok (None, a, c)
      | Some p =>
          let! c' := ctl_free c i in
          Ok (Some p,
              mkAr (upd (aslots a) i (mkA None (S (agen sl)))) (remove Nat.eq_dec i (aorder a)),
              c')
      end
  end.

(** [Arena::remove] *)
Definition arena_remove (a : arena) (c : ctl) (k : key) : outcome (option nat * arena * ctl) :=
  match nth_error (aslots a) (kidx k) with
  | None => Panic OutOfBounds
  | Some sl => if agen sl =? kgen k then arena_remove_from_slot a c (kidx k) else Ok (None, a, c)
  end.

(** keys in iteration order of [Arena::iter] *)
Definition arena_keys (a : arena) : list key :=
  map (fun i => mkKey i (agen (nth i (aslots a) (mkA None 0)))) (aorder a).

(** * rtrb: bounded single-producer single-consumer ring *)
Definition ring_is_full {A} (cap : nat) (q : list A) : bool := cap <=? length q.
Definition ring_push {A} (cap : nat) (q : list A) (x : A) : option (list A) :=
  if ring_is_full cap q then None else Some (q ++ [x]).

(** * the two-thread system *)
Inductive thread := Gameplay | Audio.

(** which storage ([selfref]: clocks, modulators, listeners; otherwise sounds, sub-tracks, send
    tracks), whether the payload exists before the key is reserved (sounds, tracks: it is then dropped
    by the caller when the limit is reached), and the capacity given to [new] (arena and both rings) *)
Record cfg := mkCfg { selfref : bool; prebuild : bool; cap : nat }.
(** [ResourceStorage::new] / [SelfReferentialResourceStorage::new]: the arena and the new-resource
    ring get [capacity], the unused-resource ring [capacity + 1] *)
Definition unused_cap (cf : cfg) : nat := S (cap cf).

(** program counter of the gameplay thread inside [ResourceController::insert] /
    [try_reserve; insert_with_key] *)
Inductive gphase := GIdle | GReserved (k : key) | GDrained (k : key).
(** program counter of the audio thread inside [remove_and_add] *)
Inductive aphase := AIdle | ARemoving (cur : list key) | AAdding.

Record state := mkSt {
  st_ctl : ctl;                       (* shared: Arc<ControllerInner> *)
  st_ar : arena;                      (* audio thread *)
  st_keys : list key;                 (* audio thread; SelfReferentialResourceStorage::keys *)
  st_newq : list (key * nat);         (* ring gameplay -> audio *)
  st_unused : list nat;               (* ring audio -> gameplay *)
  st_marked : list nat;               (* shared removal flags *)
  st_g : gphase;
  st_a : aphase;
  (* ghost *)
  st_next : nat;                      (* payloads built so far = next payload id *)
  st_created : nat;                   (* keys handed out by try_reserve *)
  st_removed : nat;                   (* slots freed *)
  st_destroyed : list (nat * thread); (* payload drops, most recent first, with the dropping thread *)
  st_callbacks : nat;                 (* completed remove_and_add passes *)
  st_log : list (nat * key);          (* payload p was pushed with key k *)
  st_inflight : option nat            (* audio thread local: removed from the arena, not yet pushed to unused *)
}.

Definition init (cf : cfg) : state :=
  {| st_ctl := ctl_new (cap cf); st_ar := arena_new (cap cf); st_keys := [];
     st_newq := []; st_unused := []; st_marked := []; st_g := GIdle; st_a := AIdle;
     st_next := 0; st_created := 0; st_removed := 0; st_destroyed := []; st_callbacks := 0;
     st_log := []; st_inflight := None |}.

Definition is_marked (s : state) (p : nat) : bool := existsb (Nat.eqb p) (st_marked s).

Definition set_ctl (s : state) (c : ctl) : state :=
  mkSt c (st_ar s) (st_keys s) (st_newq s) (st_unused s) (st_marked s) (st_g s) (st_a s)
       (st_next s) (st_created s) (st_removed s) (st_destroyed s) (st_callbacks s) (st_log s) (st_inflight s).
Definition set_g (s : state) (g : gphase) : state :=
  mkSt (st_ctl s) (st_ar s) (st_keys s) (st_newq s) (st_unused s) (st_marked s) g (st_a s)
       (st_next s) (st_created s) (st_removed s) (st_destroyed s) (st_callbacks s) (st_log s) (st_inflight s).
Definition set_a (s : state) (a : aphase) : state :=
  mkSt (st_ctl s) (st_ar s) (st_keys s) (st_newq s) (st_unused s) (st_marked s) (st_g s) a
       (st_next s) (st_created s) (st_removed s) (st_destroyed s) (st_callbacks s) (st_log s) (st_inflight s).

(** ** gameplay thread *)

(** the caller drops a payload it built and could not insert *)
Definition reject_payload (s : state) : state :=
  mkSt (st_ctl s) (st_ar s) (st_keys s) (st_newq s) (st_unused s) (st_marked s) (st_g s) (st_a s)
       (S (st_next s)) (st_created s) (st_removed s) ((st_next s, Gameplay) :: st_destroyed s)
       (st_callbacks s) (st_log s) (st_inflight s).

(** [ResourceController::try_reserve]: [if capacity() == 0 { return Err(ResourceLimitReached) }]
    in front of atomic_arena's [try_reserve] *)
Definition res_try_reserve (c : ctl) : outcome reserve_result :=
  if ctl_capacity c =? 0 then Ok ArenaFull else ctl_try_reserve c.

Definition g_reserve (cf : cfg) (s : state) : outcome state :=
  match st_g s with
  | GIdle =>
      let! r := res_try_reserve (st_ctl s) in
      match r with
      | ArenaFull => Ok (if prebuild cf then reject_payload s else s)   (* Err(ResourceLimitReached) *)
      | Reserved k c' =>
          Ok (mkSt c' (st_ar s) (st_keys s) (st_newq s) (st_unused s) (st_marked s) (GReserved k) (st_a s)
                   (st_next s) (S (st_created s)) (st_removed s) (st_destroyed s) (st_callbacks s)
                   (st_log s) (st_inflight s))
      end
  | _ => Ok s
  end.

(** one iteration of [while unused_resource_consumer.pop().is_ok() {}]: the popped payload is dropped
    here, on the gameplay thread *)
Definition g_drain_one (s : state) : outcome state :=
  match st_g s, st_unused s with
  | GReserved k, p :: rest =>
      Ok (mkSt (st_ctl s) (st_ar s) (st_keys s) (st_newq s) rest (st_marked s) (st_g s) (st_a s)
               (st_next s) (st_created s) (st_removed s) ((p, Gameplay) :: st_destroyed s)
               (st_callbacks s) (st_log s) (st_inflight s))
  | _, _ => Ok s
  end.

(** the [pop] that returns [Err]: the loop ends *)
Definition g_drain_done (s : state) : outcome state :=
  match st_g s, st_unused s with
  | GReserved k, [] => Ok (set_g s (GDrained k))
  | _, _ => Ok s
  end.

(** [new_resource_producer.push((key, resource))] *)
Definition g_push (cf : cfg) (s : state) : outcome state :=
  match st_g s with
  | GDrained k =>
      match ring_push (cap cf) (st_newq s) (k, st_next s) with
      | None => Panic QueueFull                          (* "new resource producer full" *)
      | Some q =>
          Ok (mkSt (st_ctl s) (st_ar s) (st_keys s) q (st_unused s) (st_marked s) GIdle (st_a s)
                   (S (st_next s)) (st_created s) (st_removed s) (st_destroyed s) (st_callbacks s)
                   ((st_next s, k) :: st_log s) (st_inflight s))
      end
  | _ => Ok s
  end.

(** a handle is dropped / a sound or modulator reports [finished] *)
Definition g_mark (p : nat) (s : state) : outcome state :=
  if (p <? st_next s) && negb (is_marked s p) then
    Ok (mkSt (st_ctl s) (st_ar s) (st_keys s) (st_newq s) (st_unused s) (p :: st_marked s) (st_g s) (st_a s)
             (st_next s) (st_created s) (st_removed s) (st_destroyed s) (st_callbacks s) (st_log s)
             (st_inflight s))
  else Ok s.

(** a creation whose fallible part runs BEFORE [try_reserve] fails (table at the top of the file:
    [SoundData::into_sound] returns [Err] — [built = false], no payload exists —, or the user's
    [Effect::init] unwinds out of [add_sub_track] — [built = true], the caller drops the track it had
    built).  The controller, the rings and the arena are not touched: the early return / the unwinding
    happens before the first access to the [ResourceController].  In the storages whose payload is built
    after the reservation ([prebuild = false]: clocks, modulators, listeners) nothing fallible runs at this
    point: the step is a stutter step there. *)
Definition g_fail (cf : cfg) (built : bool) (s : state) : outcome state :=
  match st_g s with
  | GIdle => Ok (if prebuild cf && built then reject_payload s else s)
  | _ => Ok s
  end.

(** ** audio thread: [remove_and_add] *)

Definition a_start (cf : cfg) (s : state) : outcome state :=
  match st_a s with
  | AIdle => Ok (set_a s (ARemoving (if selfref cf then st_keys s else arena_keys (st_ar s))))
  | _ => Ok s
  end.

(** one iteration of the removal pass, up to and including the removal from the arena; the payload
    is then in flight until [a_push].
    ResourceStorage: [for (_, resource) in self.resources.drain_filter(remove_test) { push }].
    SelfReferentialResourceStorage::remove_unused:
      [while i < keys.len() && !unused.is_full() { let resource = &mut self.resources[key]; … }]. *)
Definition a_remove (cf : cfg) (s : state) : outcome state :=
  match st_a s, st_inflight s with
  | ARemoving [], None => Ok (set_a s AAdding)
  | ARemoving (k :: rest), None =>
      if selfref cf && ring_is_full (unused_cap cf) (st_unused s) then Ok (set_a s AAdding)
      else
        let! g := arena_get (st_ar s) k in
        match g with
        | None => Panic OtherPanic       (* "the iterator should not encounter a free slot" /
                                            "No item associated with this key" *)
        | Some p =>
            if is_marked s p then
              let! r := arena_remove (st_ar s) (st_ctl s) k in
              match r with
              | (None, _, _) => Panic OtherPanic            (* .unwrap() *)
              | (Some p', a', c') =>
                  Ok (mkSt c' a'
                           (if selfref cf then filter (fun k' => negb (key_eqb k k')) (st_keys s)
                            else st_keys s)
                           (st_newq s) (st_unused s) (st_marked s) (st_g s) (ARemoving rest)
                           (st_next s) (st_created s) (S (st_removed s)) (st_destroyed s)
                           (st_callbacks s) (st_log s) (Some p'))
              end
            else Ok (set_a s (ARemoving rest))
        end
  | _, _ => Ok s
  end.

(** [self.unused_resource_producer.push(resource).unwrap_or_else(|_| panic!(…))]: on failure the
    payload sits in the [PushError] and is dropped by the unwinding audio thread *)
Definition a_push (cf : cfg) (s : state) : outcome state :=
  match st_inflight s with
  | Some p =>
      match ring_push (unused_cap cf) (st_unused s) p with
      | None => Panic QueueFull                 (* "unused resource producer is full" *)
      | Some u' =>
          Ok (mkSt (st_ctl s) (st_ar s) (st_keys s) (st_newq s) u' (st_marked s) (st_g s) (st_a s)
                   (st_next s) (st_created s) (st_removed s) (st_destroyed s) (st_callbacks s)
                   (st_log s) None)
      end
  | None => Ok s
  end.

(** one iteration of [while let Ok((key, resource)) = self.new_resource_consumer.pop()]; the failing
    [pop] ends the pass.  If [insert_with_key] fails the payload is dropped here, on the audio thread,
    before the [expect] panics. *)
Definition a_add (cf : cfg) (s : state) : outcome state :=
  match st_a s with
  | AAdding =>
      match st_newq s with
      | [] =>
          Ok (mkSt (st_ctl s) (st_ar s) (st_keys s) (st_newq s) (st_unused s) (st_marked s) (st_g s) AIdle
                   (st_next s) (st_created s) (st_removed s) (st_destroyed s) (S (st_callbacks s))
                   (st_log s) (st_inflight s))
      | (k, p) :: rest =>
          match arena_insert_with_key (st_ar s) k p with
          | Inserted a' =>
              Ok (mkSt (st_ctl s) a' (if selfref cf then st_keys s ++ [k] else st_keys s) rest
                       (st_unused s) (st_marked s) (st_g s) AAdding
                       (st_next s) (st_created s) (st_removed s) (st_destroyed s) (st_callbacks s)
                       (st_log s) (st_inflight s))
          | _ => Panic OtherPanic                          (* "error inserting resource" *)
          end
      end
  | _ => Ok s
  end.

(** ** schedules *)
Inductive label :=
| G_reserve | G_drain_one | G_drain_done | G_push | G_mark (p : nat)
| A_start | A_remove | A_push | A_add
| G_fail (built : bool).

Definition thread_of (l : label) : thread :=
  match l with A_start | A_remove | A_push | A_add => Audio | _ => Gameplay end.

(** a label that is not enabled in the current program counters is a stutter step *)
Definition step (cf : cfg) (l : label) (s : state) : outcome state :=
  match l with
  | G_reserve => g_reserve cf s
  | G_drain_one => g_drain_one s
  | G_drain_done => g_drain_done s
  | G_push => g_push cf s
  | G_mark p => g_mark p s
  | A_start => a_start cf s
  | A_remove => a_remove cf s
  | A_push => a_push cf s
  | A_add => a_add cf s
  | G_fail built => g_fail cf built s
  end.

Fixpoint run (cf : cfg) (sched : list label) (s : state) : outcome state :=
  match sched with
  | [] => Ok s
  | l :: rest => let! s' := step cf l s in run cf rest s'
  end.

(** ** what the public API reports *)
Definition res_len (s : state) : nat := ctl_len (st_ctl s).            (* num_* *)
Definition res_capacity (s : state) : nat := ctl_capacity (st_ctl s).  (* *_capacity *)
(** what an id resolves to on the audio thread ([Info::clock_info], [modulator_value], a send route…) *)
Definition resolve (s : state) (k : key) : outcome (option nat) := arena_get (st_ar s) k.

(** * extension: a creation that is abandoned AFTER the reservation

    [X_fail_late built]: user code that runs between [try_reserve] and the push of [insert_with_key]
    unwinds (table at the top: [ModulatorBuilder::build], a send track's [Effect::init], the [Drop] of a
    payload popped from the unused-ring), or — what the seeded change "reserve before [into_sound]" does —
    a [Result] is propagated with [?] at that point.  The key was a local variable; nothing gives the slot
    back, nothing was pushed under it, so the audio thread never sees it: the slot stays reserved for ever
    (ghost [x_leaked]).  With [built = true] the caller drops the payload it had built.  The base steps are
    lifted unchanged.  (Props.v: [leak_accounting] — every such failure costs exactly one slot, for good,
    in every schedule; [reserve_then_fail_refuted] — the witnesses; [no_leak_without_late_failure].) *)
Record xstate := mkX { xs : state; x_leaked : list key }.
Inductive xlabel := XL (l : label) | X_fail_late (built : bool).

Definition xinit (cf : cfg) : xstate := mkX (init cf) [].

Definition g_fail_late (built : bool) (x : xstate) : outcome xstate :=
  match st_g (xs x) with
  | GReserved k => Ok (mkX (set_g (if built then reject_payload (xs x) else xs x) GIdle) (k :: x_leaked x))
  | _ => Ok x
  end.

Definition xstep (cf : cfg) (l : xlabel) (x : xstate) : outcome xstate :=
  match l with
  | XL l => let! s' := step cf l (xs x) in Ok (mkX s' (x_leaked x))
  | X_fail_late built => g_fail_late built x
  end.

Fixpoint xrun (cf : cfg) (sched : list xlabel) (x : xstate) : outcome xstate :=
  match sched with
  | [] => Ok x
  | l :: rest => let! x' := xstep cf l x in xrun cf rest x'
  end.
