(** C08 — the inductive invariant of the hand-off protocol and its preservation by every step
    of either thread. *)
From Coq Require Import Arith List Bool Lia Permutation.
From KV Require Import Base.Outcome C08.Model C08.ProofsBase.
Import ListNotations.

Notation cs s i := (nth i (cslots (st_ctl s)) dC).
Notation asl s i := (nth i (aslots (st_ar s)) dA).

Definition gres (g : gphase) : list nat :=
  match g with GIdle => [] | GReserved k | GDrained k => [kidx k] end.
Definition gkey (g : gphase) : option key :=
  match g with GIdle => None | GReserved k | GDrained k => Some k end.
Definition rprime (g : gphase) : nat := match g with GDrained _ => 1 | _ => 0 end.
Definition nq_idx (q : list (key * nat)) : list nat := map (fun e => kidx (fst e)) q.

(** the key is occupied in the arena, with the arena's current generation *)
Definition present (ar : arena) (k : key) : Prop :=
  In (kidx k) (aorder ar) /\ kgen k = agen (nth (kidx k) (aslots ar) dA).

(** the payload the audio thread has removed from the arena and not yet pushed to the unused-ring *)
Definition infl (o : option nat) : list nat := match o with Some p => [p] | None => [] end.

(** slots that are not free, by owner: occupied in the arena, travelling in the new-queue, reserved by
    the creation in progress — and [lk]: reserved by a creation that was abandoned after [try_reserve]
    (extension at the end of Model.v; [lk = []] in the base system) *)
Definition owned (s : state) (lk : list nat) : list nat :=
  aorder (st_ar s) ++ nq_idx (st_newq s) ++ gres (st_g s) ++ lk.

Record InvL (cf : cfg) (s : state) (lk : list nat) : Prop := {
  i_clen : length (cslots (st_ctl s)) = cap cf;
  i_alen : length (aslots (st_ar s)) = cap cf;
  i_free : 1 <= cap cf ->
           exists fl, chain (cslots (st_ctl s)) (chead (st_ctl s)) fl /\ NoDup fl /\
                      (forall i, In i fl <-> i < cap cf /\ cfree (cs s i) = true);
  i_gen : forall i, i < cap cf -> agen (asl s i) = cgen (cs s i);
  i_part : NoDup (owned s lk);
  i_nonfree : forall i, In i (owned s lk) <-> i < cap cf /\ cfree (cs s i) = false;
  i_occ : forall i, i < cap cf -> (In i (aorder (st_ar s)) <-> adata (asl s i) <> None);
  i_nqgen : forall k p, In (k, p) (st_newq s) -> kgen k = cgen (cs s (kidx k));
  i_ggen : forall k, gkey (st_g s) = Some k -> kgen k = cgen (cs s (kidx k));
  i_keys : if selfref cf
           then NoDup (map kidx (st_keys s)) /\ (forall k, In k (st_keys s) <-> present (st_ar s) k)
           else st_keys s = [];
  i_cur : forall cur, st_a s = ARemoving cur ->
                      NoDup (map kidx cur) /\ (forall k, In k cur -> present (st_ar s) k);
  (* payload bookkeeping *)
  i_log_lt : forall p k, In (p, k) (st_log s) ->
                         p < st_next s /\ kidx k < cap cf /\ kgen k <= cgen (cs s (kidx k));
  i_log_live : forall p k, In (p, k) (st_log s) -> kgen k = cgen (cs s (kidx k)) ->
                           In (k, p) (st_newq s) \/ adata (asl s (kidx k)) = Some p;
  i_log_keys : NoDup (map snd (st_log s));
  i_nq_log : forall k p, In (k, p) (st_newq s) -> In (p, k) (st_log s);
  i_ar_log : forall i p, i < cap cf -> adata (asl s i) = Some p ->
                         In (p, mkKey i (agen (asl s i))) (st_log s);
  i_destroyed : forall p t, In (p, t) (st_destroyed s) -> t = Gameplay;
  i_cons : Permutation (seq 0 (st_next s))
             (map snd (st_newq s) ++ slot_payloads (aslots (st_ar s))
                  ++ (st_unused s ++ infl (st_inflight s)) ++ map fst (st_destroyed s));
  i_counts : st_created s = st_removed s + length (owned s lk)
}.

(** the bound that keeps the unused-ring (capacity + 1 slots) from overflowing: payloads waiting to be
    dropped + the one in flight + occupied + queued (+ 1 between the drain's empty observation and
    the push) never exceed capacity + 1.  The "+ 1" is the payload whose slot the audio thread has
    already freed when the gameplay thread's drain looks at the ring (finding F27). *)
(** the base system: nothing has leaked *)
Definition Inv (cf : cfg) (s : state) : Prop := InvL cf s [].

Definition QInv (cf : cfg) (s : state) : Prop :=
  length (st_unused s) + length (infl (st_inflight s)) + length (aorder (st_ar s))
  + length (st_newq s) + rprime (st_g s) <= S (cap cf).

Ltac sproj :=
  unfold owned, reject_payload, set_g, set_a, set_ctl in *;
  cbn [st_ctl st_ar st_keys st_newq st_unused st_marked st_g st_a st_next st_created st_removed
       st_destroyed st_callbacks st_log st_inflight set_g set_a set_ctl reject_payload cslots chead aslots aorder
       gres gkey rprime owned] in *.

Lemma NoDup_app_iff {A} (l m : list A) :
  NoDup (l ++ m) <-> NoDup l /\ NoDup m /\ (forall x, In x l -> ~ In x m).
Proof.
  induction l as [|a l IH]; cbn.
  - split; [intro H; repeat split; auto; constructor | tauto].
  - split.
    + intro H. inversion H as [|? ? Ha Hl]; subst. apply IH in Hl as (H1 & H2 & H3).
      rewrite in_app_iff in Ha. repeat split; auto.
      * constructor; tauto.
      * intros x [->|Hx]; [tauto|auto].
    + intros (H1 & H2 & H3). inversion H1 as [|? ? Ha Hl]; subst. constructor.
      * rewrite in_app_iff. intros [?|?]; [tauto|]. eapply H3; eauto.
      * apply IH. repeat split; auto.
Qed.

Lemma slot_payloads_repeat g n : slot_payloads (repeat (mkA None g) n) = [].
Proof. induction n; cbn; auto. Qed.

(** ** initial state *)
Lemma inv_init cf : InvL cf (init cf) [].
Proof.
  constructor; unfold init; sproj; cbn [arena_new aslots aorder nq_idx map app length].
  - unfold ctl_new; cbn. now rewrite map_length, seq_length.
  - now rewrite repeat_length.
  - intro Hc. exists (seq 0 (cap cf)). split; [|split].
    + pose proof (ctl_new_chain (cap cf) 0 ltac:(lia)) as H.
      destruct (Nat.ltb_spec 0 (cap cf)); [|lia]. now rewrite Nat.sub_0_r in H.
    + apply seq_NoDup.
    + intro i. rewrite in_seq. split.
      * intros [_ H]. split; [lia|]. now rewrite ctl_new_nth by lia.
      * intros [H _]. lia.
  - intros i Hi. unfold dA. rewrite repeat_nth, ctl_new_nth by auto. reflexivity.
  - constructor.
  - intro i. cbn [In]. split; [tauto|]. intros [Hi H]. rewrite ctl_new_nth in H by auto. discriminate.
  - intros i Hi. unfold dA. rewrite repeat_nth by auto. cbn. tauto.
  - intros k p [].
  - discriminate.
  - destruct (selfref cf); auto. split; [constructor|]. intro k. unfold present; cbn. tauto.
  - discriminate.
  - intros p k [].
  - intros p k [].
  - constructor.
  - intros k p [].
  - intros i p Hi. unfold dA. rewrite repeat_nth by auto. discriminate.
  - intros p t [].
  - rewrite slot_payloads_repeat. cbn. constructor.
  - reflexivity.
Qed.

(** ** gameplay thread *)

Lemma perm_ins4 {A} (x : A) a b c d : Permutation (x :: a ++ b ++ c ++ d) (a ++ b ++ c ++ x :: d).
Proof. rewrite !app_assoc. apply Permutation_middle. Qed.

Lemma perm_ins3 {A} (x : A) a b c : Permutation (x :: a ++ b ++ c) (a ++ b ++ x :: c).
Proof. rewrite !app_assoc. apply Permutation_middle. Qed.

Lemma in_ins3 {A} (x i : A) a b c : In i (a ++ b ++ x :: c) <-> x = i \/ In i (a ++ b ++ c).
Proof. rewrite !in_app_iff. cbn. tauto. Qed.

Lemma inv_reject cf s {lk} : InvL cf s lk -> InvL cf (reject_payload s) lk.
Proof.
  intros [ ]. constructor; sproj; auto.
  - intros p k H. specialize (i_log_lt0 p k H). lia.
  - intros p t [E|H]; [now inversion E | eauto].
  - rewrite seq_S. cbn [map fst plus].
    rewrite <- perm_ins4, <- Permutation_cons_append. now constructor.
Qed.

Lemma inv_g_reserve cf s s' {lk} : InvL cf s lk -> g_reserve cf s = Ok s' -> InvL cf s' lk.
Proof.
  intros I H. unfold g_reserve in H.
  destruct (st_g s) eqn:Eg; try (inversion H; subst; exact I).
  unfold res_try_reserve, ctl_capacity in H.
  destruct (length (cslots (st_ctl s)) =? 0) eqn:Ez; cbn [obind] in H.
  { inversion H; subst. destruct (prebuild cf); [|exact I]. now apply inv_reject. }
  apply Nat.eqb_neq in Ez. rewrite (i_clen _ _ _ I) in Ez.
  unfold ctl_try_reserve in H.
  destruct (chead (st_ctl s)) as [h|] eqn:Eh; cbn in H.
  2:{ inversion H; subst. destruct (prebuild cf); [|exact I]. now apply inv_reject. }
  destruct (nth_error (cslots (st_ctl s)) h) as [sl|] eqn:En; cbn in H; [|discriminate].
  inversion H; subst; clear H.
  apply (nth_error_nth_d _ _ _ dC) in En as [Hh Esl].
  destruct I. sproj. rewrite Eg in *. sproj. cbn [app] in *.
  destruct (i_free0 ltac:(lia)) as (fl & Hch & Hnd & Hfl).
  destruct fl as [|h' r]; cbn [chain] in Hch; [congruence|].
  destruct Hch as (Eh' & _ & Hch). rewrite Eh in Eh'. inversion Eh'; subst h'. clear Eh'.
  inversion Hnd as [|? ? Hhr Hndr]; subst.
  assert (Hhfree : h < cap cf /\ cfree (cs s h) = true) by (apply Hfl; now left).
  destruct Hhfree as [Hhc Hhfree].
  assert (Hhown : ~ In h (aorder (st_ar s) ++ nq_idx (st_newq s) ++ lk)).
  { intro Hin. apply i_nonfree0 in Hin as [_ Hin]. congruence. }
  assert (Hnth : forall i, i <> h -> nth i (upd (cslots (st_ctl s)) h
                   (mkC false (cgen (cs s h)) (cnext (cs s h)))) dC = cs s i).
  { intros i Hi. apply nth_upd_neq. congruence. }
  assert (Hnthh : nth h (upd (cslots (st_ctl s)) h
                   (mkC false (cgen (cs s h)) (cnext (cs s h)))) dC
                  = mkC false (cgen (cs s h)) (cnext (cs s h))).
  { now apply nth_upd_eq. }
  constructor; sproj; auto.
  - now rewrite upd_length.
  - intros _. exists r. split; [|split]; auto.
    + now apply chain_upd.
    + intro i. destruct (Nat.eq_dec i h) as [->|Hne].
      * rewrite Hnthh. cbn. split; [tauto|]. intros [_ ?]; discriminate.
      * rewrite Hnth by auto. rewrite <- Hfl. cbn. intuition congruence.
  - intros i Hi. destruct (Nat.eq_dec i h) as [->|Hne].
    + rewrite Hnthh. cbn. auto.
    + rewrite Hnth by auto. auto.
  - eapply Permutation_NoDup; [apply perm_ins3|]. now constructor.
  - intro i. cbn [app]. rewrite in_ins3.
    destruct (Nat.eq_dec i h) as [->|Hne].
    + rewrite Hnthh. cbn. intuition.
    + rewrite Hnth by auto. rewrite i_nonfree0. cbn. intuition congruence.
  - intros k p Hin. rewrite (i_nqgen0 k p Hin).
    destruct (Nat.eq_dec (kidx k) h) as [E|Hne].
    + rewrite E, Hnthh. reflexivity.
    + now rewrite Hnth.
  - intros k E. inversion E; subst. cbn. now rewrite Hnthh.
  - intros p k Hin. specialize (i_log_lt0 p k Hin).
    destruct (Nat.eq_dec (kidx k) h) as [E|Hne].
    + rewrite E in *. rewrite Hnthh. cbn. tauto.
    + now rewrite Hnth.
  - intros p k Hin. destruct (Nat.eq_dec (kidx k) h) as [E|Hne].
    + rewrite E, Hnthh. cbn. rewrite <- E. now apply i_log_live0.
    + rewrite Hnth by auto. now apply i_log_live0.
  - rewrite i_counts0, !app_length. cbn. lia.
Qed.

Lemma inv_g_drain_one cf s s' {lk} : InvL cf s lk -> g_drain_one s = Ok s' -> InvL cf s' lk.
Proof.
  intros I H. unfold g_drain_one in H.
  destruct (st_g s) eqn:Eg; try (inversion H; subst; exact I).
  destruct (st_unused s) as [|p rest] eqn:Eu; inversion H; subst; try exact I. clear H.
  destruct I. sproj. rewrite Eg, ?Eu in *. sproj. cbn [length] in *.
  constructor; sproj; auto; try lia.
  - intros q t [E|Hin]; [now inversion E|eauto].
  - rewrite i_cons0. cbn [map fst app].
    rewrite <- perm_ins3, <- perm_ins4. reflexivity.
Qed.

Lemma owned_bound cf s {lk} : InvL cf s lk -> length (owned s lk) <= cap cf.
Proof.
  intros [ ]. apply NoDup_bound; auto. intros x Hx. now apply i_nonfree0 in Hx.
Qed.

Lemma inv_g_drain_done cf s s' {lk} : InvL cf s lk -> g_drain_done s = Ok s' -> InvL cf s' lk.
Proof.
  intros I H. unfold g_drain_done in H.
  destruct (st_g s) eqn:Eg; try (inversion H; subst; exact I).
  destruct (st_unused s) as [|p rest] eqn:Eu; inversion H; subst; try exact I. clear H.
  destruct I. sproj. rewrite Eg, ?Eu in *. sproj.
  constructor; sproj; auto.
Qed.

Lemma inv_g_mark cf p s s' {lk} : InvL cf s lk -> g_mark p s = Ok s' -> InvL cf s' lk.
Proof.
  intros I H. unfold g_mark in H.
  destruct ((p <? st_next s) && negb (is_marked s p)); inversion H; subst; try exact I.
  destruct I. constructor; sproj; auto.
Qed.

Lemma inv_g_push cf s s' {lk} : InvL cf s lk -> g_push cf s = Ok s' -> InvL cf s' lk.
Proof.
  intros I H. unfold g_push in H.
  destruct (st_g s) eqn:Eg; try (inversion H; subst; exact I).
  unfold ring_push, ring_is_full in H.
  destruct (cap cf <=? length (st_newq s)) eqn:Efull; [discriminate|].
  inversion H; subst; clear H.
  destruct I. sproj. rewrite Eg in *. sproj. cbn [app] in *.
  assert (Hk : In (kidx k) (aorder (st_ar s) ++ nq_idx (st_newq s) ++ kidx k :: lk)).
  { rewrite !in_app_iff. right. right. now left. }
  pose proof i_part0 as Hpart0.
  pose proof Hk as Hk'. apply i_nonfree0 in Hk' as [Hkc Hknf].
  assert (Hgen : kgen k = cgen (cs s (kidx k))) by now apply i_ggen0.
  assert (Hnq : nq_idx (st_newq s ++ [(k, st_next s)]) = nq_idx (st_newq s) ++ [kidx k]).
  { unfold nq_idx. now rewrite map_app. }
  apply NoDup_app_iff in i_part0 as (ND1 & ND2 & ND3).
  apply NoDup_app_iff in ND2 as (ND2 & _ & ND4).
  assert (Hknq : ~ In (kidx k) (nq_idx (st_newq s))) by (intro Hin; apply (ND4 _ Hin); now left).
  assert (Hkocc : ~ In (kidx k) (aorder (st_ar s))).
  { intro Hin. apply (ND3 _ Hin). rewrite in_app_iff. right. now left. }
  constructor; sproj; auto.
  - rewrite Hnq. cbn [app]. rewrite <- app_assoc. cbn [app]. exact Hpart0.
  - intro i. rewrite Hnq. cbn [app]. rewrite <- app_assoc. cbn [app]. apply i_nonfree0.
  - intros k' p' Hin. apply in_app_iff in Hin as [Hin|[E|[]]]; [eauto|]. now inversion E; subst.
  - discriminate.
  - intros p' k' [E|Hin].
    + inversion E; subst. split; [lia|split; auto; lia].
    + specialize (i_log_lt0 _ _ Hin). lia.
  - intros p' k' [E|Hin] Hg.
    + inversion E; subst. left. apply in_app_iff. right. now left.
    + destruct (i_log_live0 _ _ Hin Hg) as [H1|H1]; [|now right]. left. apply in_app_iff. now left.
  - cbn [map snd]. constructor; auto.
    intro Hin. apply in_map_iff in Hin as ((p' & k') & E & Hin). cbn in E; subst k'.
    destruct (i_log_live0 _ _ Hin Hgen) as [H1|H1].
    + apply Hknq. unfold nq_idx. apply in_map_iff. now exists (k, p').
    + apply Hkocc. apply i_occ0; auto. congruence.
  - intros k' p' Hin. apply in_app_iff in Hin as [Hin|[E|[]]].
    + right. eauto.
    + left. now inversion E.
  - intros i p' Hi Hd. right. eauto.
  - rewrite seq_S, map_app. cbn [map snd plus].
    rewrite <- (app_assoc (map snd (st_newq s))). cbn [app]. rewrite <- Permutation_cons_append.
    rewrite <- (Permutation_middle (map snd (st_newq s))). now constructor.
  - rewrite Hnq. cbn [app]. rewrite <- app_assoc. cbn [app]. auto.
Qed.

Lemma inv_g_fail cf built s s' {lk} : InvL cf s lk -> g_fail cf built s = Ok s' -> InvL cf s' lk.
Proof.
  intros I H. unfold g_fail in H.
  destruct (st_g s); inversion H; subst; try exact I.
  destruct (prebuild cf && built); [now apply inv_reject|exact I].
Qed.

(** ** audio thread *)

Lemma arena_keys_in ar k : In k (arena_keys ar) <-> present ar k.
Proof.
  unfold arena_keys, present. rewrite in_map_iff. split.
  - intros (i & <- & Hi). cbn. auto.
  - intros [H1 H2]. exists (kidx k). split; auto. destruct k; cbn in *. now subst.
Qed.

Lemma arena_keys_idx ar : map kidx (arena_keys ar) = aorder ar.
Proof. unfold arena_keys. rewrite map_map. cbn. apply map_id. Qed.

Lemma inv_set_a cf s a {lk} :
  InvL cf s lk ->
  (forall cur, a = ARemoving cur ->
               NoDup (map kidx cur) /\ (forall k, In k cur -> present (st_ar s) k)) ->
  InvL cf (set_a s a) lk.
Proof. intros [ ] H. constructor; sproj; auto. Qed.

Lemma inv_a_start cf s s' {lk} : InvL cf s lk -> a_start cf s = Ok s' -> InvL cf s' lk.
Proof.
  intros I H. unfold a_start in H.
  destruct (st_a s) eqn:Ea; inversion H; subst; try exact I. clear H.
  apply inv_set_a; auto. intros cur E. inversion E; subst; clear E.
  pose proof (i_keys _ _ _ I) as Hk. pose proof (i_part _ _ _ I) as Hp.
  destruct (selfref cf).
  - destruct Hk as [H1 H2]. split; auto. intros k Hin. now apply H2.
  - split.
    + rewrite arena_keys_idx. unfold owned in Hp. now apply NoDup_app_iff in Hp.
    + intros k Hin. now apply arena_keys_in.
Qed.

Lemma NoDup_map_filter {A B} (f : A -> B) (g : A -> bool) l :
  NoDup (map f l) -> NoDup (map f (filter g l)).
Proof.
  induction l as [|a l IH]; cbn; auto.
  intro H. inversion H as [|? ? Ha Hl]; subst. destruct (g a); cbn; auto.
  constructor; auto. intro Hin. apply Ha.
  apply in_map_iff in Hin as (x & E & Hx). apply filter_In in Hx as [Hx _].
  apply in_map_iff. eauto.
Qed.

Lemma perm_move_bc {A} (p : A) a b u d :
  Permutation (a ++ b ++ (u ++ [p]) ++ d) (a ++ (p :: b) ++ u ++ d).
Proof.
  apply Permutation_app_head. rewrite <- app_assoc. cbn [app].
  symmetry. apply perm_ins3.
Qed.

Lemma inv_a_remove cf s s' {lk} : InvL cf s lk -> a_remove cf s = Ok s' -> InvL cf s' lk.
Proof.
  intros I H. unfold a_remove in H.
  destruct (st_a s) as [|cur|] eqn:Ea; try (inversion H; subst; exact I).
  destruct (st_inflight s) as [pf|] eqn:Ef; [destruct cur; inversion H; subst; exact I|].
  destruct cur as [|k rest].
  { inversion H; subst. apply inv_set_a; auto. discriminate. }
  destruct (selfref cf && ring_is_full (unused_cap cf) (st_unused s)) eqn:Efull.
  { inversion H; subst. apply inv_set_a; auto. discriminate. }
  pose proof (i_cur _ _ _ I _ Ea) as [NDcur Hcur].
  assert (Hpk : present (st_ar s) k) by (apply Hcur; now left).
  destruct Hpk as [Hocc Hgen].
  assert (Hown : In (kidx k) (owned s lk)) by (unfold owned; rewrite in_app_iff; now left).
  pose proof Hown as Hnf. apply (i_nonfree _ _ _ I) in Hnf as [Hidx Hnf].
  pose proof (i_clen _ _ _ I) as Hcl. pose proof (i_alen _ _ _ I) as Hal.
  unfold arena_get in H. rewrite (nth_error_lt _ _ dA) in H by lia.
  rewrite <- Hgen, Nat.eqb_refl in H. cbn [obind] in H.
  destruct (adata (asl s (kidx k))) as [p|] eqn:Ed.
  2:{ exfalso. apply (i_occ _ _ _ I) in Hocc; auto. }
  cbn [map kidx] in NDcur. inversion NDcur as [|? ? Hkrest NDrest]; subst.
  destruct (is_marked s p) eqn:Em.
  2:{ inversion H; subst. apply inv_set_a; auto. intros cur E. inversion E; subst.
      split; auto. intros k' Hk'. apply Hcur. now right. }
  unfold arena_remove, arena_remove_from_slot, ctl_free in H.
  rewrite (nth_error_lt _ _ dA) in H by lia.
  rewrite <- Hgen, Nat.eqb_refl, Ed in H.
  rewrite (nth_error_lt _ _ dC) in H by lia.
  cbn [obind] in H.
  pose proof (i_part _ _ _ I) as Hpart. unfold owned in Hpart.
  apply NoDup_app_iff in Hpart as (NDocc & NDrest' & Hdisj).
  pose proof (remove_length_NoDup _ _ NDocc Hocc) as Hlen.
  rewrite Hgen in H. inversion H; subst; clear H.
  remember (kidx k) as idx eqn:Eidx.
  assert (HC : forall i, i <> idx ->
             nth i (upd (cslots (st_ctl s)) idx
                        (mkC true (S (cgen (cs s idx))) (chead (st_ctl s)))) dC = cs s i).
  { intros i Hi. apply nth_upd_neq. congruence. }
  assert (HCi : nth idx (upd (cslots (st_ctl s)) idx
                        (mkC true (S (cgen (cs s idx))) (chead (st_ctl s)))) dC
                = mkC true (S (cgen (cs s idx))) (chead (st_ctl s))).
  { apply nth_upd_eq. lia. }
  assert (HA : forall i, i <> idx ->
             nth i (upd (aslots (st_ar s)) idx (mkA None (S (agen (asl s idx))))) dA = asl s i).
  { intros i Hi. apply nth_upd_neq. congruence. }
  assert (HAi : nth idx (upd (aslots (st_ar s)) idx (mkA None (S (agen (asl s idx))))) dA
                = mkA None (S (agen (asl s idx)))).
  { apply nth_upd_eq. lia. }
  assert (Hnotrest : ~ In idx (nq_idx (st_newq s) ++ gres (st_g s) ++ lk)) by (now apply Hdisj).
  destruct I. sproj.
  constructor; sproj; auto.
  - now rewrite upd_length.
  - now rewrite upd_length.
  - intros _. destruct (i_free0 ltac:(lia)) as (fl & Hch & Hnd & Hfl).
    assert (Hnfl : ~ In idx fl). { intro Hin. apply Hfl in Hin as [_ Hin]. congruence. }
    exists (idx :: fl). split; [|split].
    + cbn [chain]. split; auto. split; [rewrite upd_length; lia|].
      rewrite HCi. cbn [cnext]. now apply chain_upd.
    + now constructor.
    + intro i. cbn [In]. destruct (Nat.eq_dec i idx) as [->|Hne].
      * rewrite HCi. cbn. tauto.
      * rewrite HC by auto. rewrite Hfl. intuition congruence.
  - intros i Hi. destruct (Nat.eq_dec i idx) as [->|Hne].
    + rewrite HAi, HCi. cbn. now rewrite i_gen0.
    + rewrite HA, HC by auto. auto.
  - apply NoDup_app_iff. split; [|split]; auto.
    + now apply NoDup_remove_nat.
    + intros x Hx. apply in_remove_iff in Hx as [Hx _]. now apply Hdisj.
  - intro i. rewrite in_app_iff, in_remove_iff. destruct (Nat.eq_dec i idx) as [->|Hne].
    + rewrite HCi. cbn. split; [intros [[_ ?]|?]; tauto|intros [_ ?]; discriminate].
    + rewrite HC by auto. rewrite <- i_nonfree0, !in_app_iff. tauto.
  - intros i Hi. rewrite in_remove_iff. destruct (Nat.eq_dec i idx) as [->|Hne].
    + rewrite HAi. cbn. tauto.
    + rewrite HA by auto. rewrite <- i_occ0 by auto. tauto.
  - intros k' p' Hin. rewrite HC; eauto.
    intro E. apply Hnotrest. rewrite in_app_iff. left. rewrite <- E.
    unfold nq_idx. apply in_map_iff. now exists (k', p').
  - intros k' Hk'. rewrite HC; eauto.
    intro E. apply Hnotrest. rewrite in_app_iff. right. rewrite <- E.
    destruct (st_g s); cbn in *; inversion Hk'; subst; now left.
  - destruct (selfref cf); auto. destruct i_keys0 as [K1 K2]. split.
    + now apply NoDup_map_filter.
    + intro k'. rewrite filter_In, K2. unfold present; sproj. rewrite in_remove_iff.
      destruct (Nat.eq_dec (kidx k') idx) as [E|Hne].
      * rewrite E. split; [|tauto]. intros [[_ Hg] Hneq]. exfalso.
        apply negb_true_iff in Hneq. apply not_true_iff_false in Hneq. apply Hneq.
        apply key_eqb_eq. destruct k, k'; cbn in *. subst idx. congruence.
      * rewrite HA by auto. split; [tauto|]. intros [[? ?] ?]. repeat split; auto.
        apply negb_true_iff. apply not_true_iff_false. rewrite key_eqb_eq. intros ->. now apply Hne.
  - intros cur E. injection E as <-. split; auto. intros k' Hk'.
    assert (Hne : kidx k' <> idx).
    { intro E'. apply Hkrest. rewrite <- E'. now apply in_map. }
    destruct (Hcur k' (or_intror Hk')) as [P1 P2]. unfold present; sproj.
    rewrite in_remove_iff, HA by auto. tauto.
  - intros p' k' Hin. specialize (i_log_lt0 _ _ Hin).
    destruct (Nat.eq_dec (kidx k') idx) as [E|Hne].
    + rewrite E in *. rewrite HCi. cbn. lia.
    + now rewrite HC.
  - intros p' k' Hin. destruct (Nat.eq_dec (kidx k') idx) as [E|Hne].
    + rewrite E, HCi. cbn. intro Hg. specialize (i_log_lt0 _ _ Hin). rewrite E in *. lia.
    + rewrite HC, HA by auto. now apply i_log_live0.
  - intros i p' Hi. destruct (Nat.eq_dec i idx) as [->|Hne].
    + rewrite HAi. discriminate.
    + rewrite HA by auto. now apply i_ar_log0.
  - rewrite i_cons0. rewrite Ef. cbn [infl]. rewrite app_nil_r.
    rewrite perm_move_bc. apply Permutation_app_head.
    apply Permutation_app_tail. symmetry. apply slot_payloads_remove; [lia|exact Ed].
  - rewrite i_counts0, !app_length. rewrite !app_length in *. lia.
Qed.

Lemma inv_a_push cf s s' {lk} : InvL cf s lk -> a_push cf s = Ok s' -> InvL cf s' lk.
Proof.
  intros I H. unfold a_push in H.
  destruct (st_inflight s) as [p|] eqn:Ef; [|inversion H; subst; exact I].
  destruct (ring_push (unused_cap cf) (st_unused s) p) as [u'|] eqn:Ep; [|discriminate].
  unfold ring_push in Ep. destruct (ring_is_full (unused_cap cf) (st_unused s)); inversion Ep; subst; clear Ep.
  inversion H; subst; clear H.
  destruct I. sproj. rewrite Ef in *. constructor; sproj; auto.
  cbn [infl] in *. now rewrite app_nil_r.
Qed.

Lemma inv_a_add cf s s' {lk} : InvL cf s lk -> a_add cf s = Ok s' -> InvL cf s' lk.
Proof.
  intros I H. unfold a_add in H.
  destruct (st_a s) eqn:Ea; try (inversion H; subst; exact I).
  destruct (st_newq s) as [|[k p] rest] eqn:Eq.
  { inversion H; subst; clear H. destruct I. sproj. rewrite Eq in *. constructor; sproj; auto. discriminate. }
  pose proof (i_clen _ _ _ I) as Hcl. pose proof (i_alen _ _ _ I) as Hal.
  pose proof (i_part _ _ _ I) as Hpart. unfold owned in Hpart. rewrite Eq in Hpart.
  cbn [nq_idx map fst] in Hpart. fold (nq_idx rest) in Hpart.
  assert (Hperm : Permutation (kidx k :: aorder (st_ar s) ++ nq_idx rest ++ gres (st_g s) ++ lk)
                              (aorder (st_ar s) ++ kidx k :: nq_idx rest ++ gres (st_g s) ++ lk))
    by apply Permutation_middle.
  assert (Hown : In (kidx k) (owned s lk)).
  { unfold owned. rewrite Eq. cbn [nq_idx map fst]. rewrite !in_app_iff. right. left. now left. }
  pose proof Hown as Hnf. apply (i_nonfree _ _ _ I) in Hnf as [Hidx Hnf].
  assert (Hgen : kgen k = agen (asl s (kidx k))).
  { rewrite (i_gen _ _ _ I) by auto. apply (i_nqgen _ _ _ I k p). rewrite Eq. now left. }
  assert (Hnocc : ~ In (kidx k) (aorder (st_ar s))).
  { intro Hin. apply NoDup_app_iff in Hpart as (_ & _ & Hd). apply (Hd _ Hin). now left. }
  assert (Hd : adata (asl s (kidx k)) = None).
  { destruct (adata (asl s (kidx k))) eqn:E; auto. exfalso. apply Hnocc.
    apply (i_occ _ _ _ I); auto. congruence. }
  unfold arena_insert_with_key in H. rewrite (nth_error_lt _ _ dA) in H by lia.
  rewrite <- Hgen, Nat.eqb_refl, Hd in H. cbn [negb] in H.
  rewrite Hgen in H. inversion H; subst; clear H.
  remember (kidx k) as idx eqn:Eidx.
  assert (HA : forall i, i <> idx ->
             nth i (upd (aslots (st_ar s)) idx (mkA (Some p) (agen (asl s idx)))) dA = asl s i).
  { intros i Hi. apply nth_upd_neq. congruence. }
  assert (HAi : nth idx (upd (aslots (st_ar s)) idx (mkA (Some p) (agen (asl s idx)))) dA
                = mkA (Some p) (agen (asl s idx))).
  { apply nth_upd_eq. lia. }
  destruct I. sproj. rewrite Eq in *. cbn [nq_idx map fst length] in *. fold (nq_idx rest) in *.
  rewrite <- ?Eidx in *.
  constructor; sproj; auto.
  - now rewrite upd_length.
  - intros i Hi. destruct (Nat.eq_dec i idx) as [->|Hne].
    + rewrite HAi. cbn. auto.
    + rewrite HA by auto. auto.
  - cbn [app]. eapply Permutation_NoDup; [symmetry; exact Hperm|auto].
  - intro i. rewrite <- i_nonfree0. cbn [app]. split; [apply (Permutation_in _ Hperm) | apply (Permutation_in _ (Permutation_sym Hperm))].
  - intros i Hi. cbn [In]. destruct (Nat.eq_dec i idx) as [->|Hne].
    + rewrite HAi. cbn. split; [discriminate|auto].
    + rewrite HA by auto. rewrite <- i_occ0 by auto. intuition congruence.
  - intros k' p' Hin. apply (i_nqgen0 k' p'). now right.
  - destruct (selfref cf); auto. destruct i_keys0 as [K1 K2]. split.
    + rewrite map_app. apply NoDup_app_iff. split; [|split]; auto.
      * cbn. constructor; [intros []|constructor].
      * intros x Hx [<-|[]]. apply Hnocc. apply in_map_iff in Hx as (k' & E & Hk').
        apply K2 in Hk' as [Hk' _]. subst idx. congruence.
    + intro k'. rewrite in_app_iff, K2. unfold present; sproj. cbn [In].
      destruct (Nat.eq_dec (kidx k') idx) as [E|Hne].
      * rewrite E, HAi. cbn [agen]. split.
        -- intros [[? _]|[<-|[]]]; [congruence|]. split; auto.
        -- intros [_ Hg]. right. left. destruct k, k'; cbn in *. subst. f_equal; congruence.
      * rewrite HA by auto. split.
        -- intros [[? ?]|[<-|[]]]; [tauto|]. congruence.
        -- intros [[?|?] ?]; [congruence|tauto].
  - discriminate.
  - intros p' k' Hin Hg. destruct (i_log_live0 _ _ Hin Hg) as [[E|H1]|H1].
    + inversion E; subst. right. now rewrite HAi.
    + now left.
    + right. destruct (Nat.eq_dec (kidx k') idx) as [E|Hne].
      * rewrite E in H1. congruence.
      * now rewrite HA.
  - intros k' p' Hin. apply i_nq_log0. now right.
  - intros i p' Hi. destruct (Nat.eq_dec i idx) as [->|Hne].
    + rewrite HAi. cbn. intro E. inversion E; subst p'.
      specialize (i_nq_log0 k p (or_introl eq_refl)).
      destruct k; cbn in *. subst. exact i_nq_log0.
    + rewrite HA by auto. now apply i_ar_log0.
  - rewrite i_cons0. cbn [map snd app]. rewrite (Permutation_middle (map snd rest)).
    apply Permutation_app_head. rewrite app_comm_cons.
    apply Permutation_app_tail. symmetry. apply slot_payloads_insert; [lia|exact Hd].
  - rewrite i_counts0. f_equal. cbn [app]. apply Permutation_length. now symmetry.
Qed.

(** ** every step preserves the invariant; no step panics *)
Theorem inv_step cf l s s' {lk} : InvL cf s lk -> step cf l s = Ok s' -> InvL cf s' lk.
Proof.
  destruct l; cbn [step]; intros I H.
  - eapply inv_g_reserve; eauto.
  - eapply inv_g_drain_one; eauto.
  - eapply inv_g_drain_done; eauto.
  - eapply inv_g_push; eauto.
  - eapply inv_g_mark; eauto.
  - eapply inv_a_start; eauto.
  - eapply inv_a_remove; eauto.
  - eapply inv_a_push; eauto.
  - eapply inv_a_add; eauto.
  - eapply inv_g_fail; eauto.
Qed.
