(** C08 — what a resource is DOING plays no part in its life cycle.

    [Run.OBusy p what] is the correspondence's name for "resource [p] is given something to do through its
    handle" (a tweener's [set] with a tween that takes a minute / that waits for a clock time that never
    comes, a fade-out of a track, …).  The storage model has no such step: the removal test of
    [remove_and_add] is the flag the handle's [Drop] sets ([G_mark]), nothing else.  The lemma below pins
    that reading of [OBusy] in [Run.run_ops] (the function the implementation is compared with): a history
    and the same history with every [OBusy] erased have the same observables, from any state, under any
    mask — so every theorem about [G_mark] / callbacks ([prompt_removal], [capacity_exact], …) speaks
    about busy resources too, and an implementation that keeps a busy resource past the callback after
    its handle was dropped (seeded/C08-dropped-tweener-waits-for-its-tween) disagrees with [run]. *)
From Coq Require Import ZArith List Bool Arith.
From KV Require Import Base.Outcome Base.Corr C08.Model C08.Run.
Import ListNotations.

Definition is_busy (o : op) : bool := match o with OBusy _ _ => true | _ => false end.
Definition erase_busy (ops : list op) : list op := filter (fun o => negb (is_busy o)) ops.

Lemma busy_is_no_step_proof :
  forall (cf : cfg) (ops : list op) (mask : Z) (s : state),
    run_ops cf mask ops s = run_ops cf mask (erase_busy ops) s.
Proof.
  intros cf ops. induction ops as [|o rest IH]; intros mask s; [reflexivity|].
  destruct o as [ | p | | late built | w | | p w ]; cbn [erase_busy filter is_busy negb run_ops];
    fold (erase_busy rest).
  - destruct (Model.run cf (create_sched s) s) as [s1|w|]; [ | | reflexivity]; rewrite IH; reflexivity.
  - destruct (Model.run cf [G_mark (Z.to_nat p)] s) as [s1|w|]; [ | reflexivity | reflexivity];
      rewrite IH; reflexivity.
  - destruct (Model.run cf (callback_sched cf s) s) as [s1|w|]; [ | reflexivity | reflexivity];
      rewrite IH; reflexivity.
  - destruct (xrun cf (if late then [XL G_reserve; X_fail_late built] else [XL (G_fail built)]) (mkX s []))
      as [x|w|]; [ | reflexivity | reflexivity]; rewrite IH; reflexivity.
  - apply IH.
  - apply IH.
  - apply IH.
Qed.

(** non-vacuity / the shape of the seeded demo: create, pick-up, a 60 s tween, a callback, the handle is
    dropped, ONE callback — the count is back to 0 and the id resolves to nothing, with or without the
    [OBusy]; then the slot is reused. *)
Definition ex_busy_ops : list op :=
  [OCreate; OCallback; OBusy 0 0; OCallback; OMark 0; OCallback; OCreate].
Lemma ex_busy_proof :
  Run.run (CHist true false 1 227 ex_busy_ops) = Run.run (CHist true false 1 227 (erase_busy ex_busy_ops)) /\
  Run.run (CHist true false 1 227 ex_busy_ops)
  = [1;             (* capacity *)
     0; 0; 0; 1;    (* create: Ok, id (index 0, generation 0), count 1 *)
     0; 1; 1;       (* callback: the id resolves to its own payload, count 1 *)
     0; 1; 1;       (* (busy;) callback: the same *)
     1;             (* handle dropped: count still 1 *)
     0; 0; 0;       (* ONE callback: the id resolves to nothing, count 0 *)
     0; 0; 1; 1]%Z. (* create: Ok, the slot again (index 0, generation 1), count 1 *)
Proof. split; vm_compute; reflexivity. Qed.
