(** C08 — the property theorems proper, derived from the invariant. *)
From Coq Require Import Arith List Bool Lia Permutation.
From KV Require Import Base.Outcome C08.Model C08.ProofsBase C08.ProofsInv C08.ProofsRun.
Import ListNotations.

(** ** capacity accounting *)

Lemma filter_negb_length {A} (f : A -> bool) l :
  length (filter f l) + length (filter (fun x => negb (f x)) l) = length l.
Proof. induction l as [|a l IH]; cbn; auto. destruct (f a); cbn; lia. Qed.

Lemma len_owned cf s {lk} : InvL cf s lk -> res_len s = length (owned s lk).
Proof.
  intro I. unfold res_len, ctl_len.
  apply (count_by_indices _ _ dC); [apply (i_part _ _ _ I)|].
  intro i. rewrite (i_nonfree _ _ _ I), (i_clen _ _ _ I), negb_true_iff. tauto.
Qed.

Lemma free_list_length cf s fl {lk} :
  InvL cf s lk -> NoDup fl -> (forall i, In i fl <-> i < cap cf /\ cfree (cs s i) = true) ->
  length fl + res_len s = cap cf.
Proof.
  intros I ND H. rewrite <- (i_clen _ _ _ I).
  rewrite <- (filter_negb_length cfree (cslots (st_ctl s))). unfold res_len, ctl_len. f_equal.
  symmetry. apply (count_by_indices _ _ dC); auto.
  intro i. rewrite H, (i_clen _ _ _ I). tauto.
Qed.

Lemma capacity_exact_inv cf s {lk} :
  InvL cf s lk ->
  res_capacity s = cap cf /\
  res_len s = length (aorder (st_ar s)) + length (st_newq s) + length (gres (st_g s)) + length lk /\
  res_len s + st_removed s = st_created s /\
  res_len s <= cap cf /\
  (res_len s < cap cf ->
     exists k c', res_try_reserve (st_ctl s) = Ok (Reserved k c') /\
                  kidx k < cap cf /\ cfree (cs s (kidx k)) = true) /\
  (res_len s = cap cf -> res_try_reserve (st_ctl s) = Ok ArenaFull).
Proof.
  intro I. pose proof (len_owned _ _ I) as Hlen.
  pose proof (owned_bound _ _ I) as Hob.
  split; [apply (i_clen _ _ _ I)|].
  split; [rewrite Hlen; unfold owned, nq_idx; rewrite !app_length, map_length; lia|].
  split; [rewrite Hlen, (i_counts _ _ _ I); lia|].
  split; [lia|].
  unfold res_try_reserve, ctl_capacity. rewrite (i_clen _ _ _ I).
  destruct (Nat.eqb_spec (cap cf) 0) as [Ez|Ez].
  { split; [intro; lia|auto]. }
  destruct (i_free _ _ _ I ltac:(lia)) as (fl & Hch & Hnd & Hfl).
  pose proof (free_list_length _ _ _ I Hnd Hfl) as Hfll.
  split.
  - intro Hlt. destruct fl as [|h r]; cbn [length] in Hfll; [lia|].
    cbn [chain] in Hch. destruct Hch as (Eh & Hh & _).
    unfold ctl_try_reserve. rewrite Eh, (nth_error_lt _ _ dC) by auto.
    eexists _, _. split; [reflexivity|]. cbn [kidx]. apply Hfl. now left.
  - intro Heq. destruct fl as [|h r]; cbn [length] in Hfll; [|lia].
    cbn [chain] in Hch. unfold ctl_try_reserve. now rewrite Hch.
Qed.

(** ** what an id resolves to *)
Definition live (s : state) (k : key) (p : nat) : Prop :=
  present (st_ar s) k /\ adata (asl s (kidx k)) = Some p.
(** the slot of [k] has been freed since [k] was handed out *)
Definition gone (s : state) (k : key) : Prop := kgen k < cgen (cs s (kidx k)).

Lemma resolve_live cf s k p {lk} : InvL cf s lk -> (resolve s k = Ok (Some p) <-> kidx k < cap cf /\ live s k p).
Proof.
  intro I. unfold resolve, arena_get, live, present. pose proof (i_alen _ _ _ I) as Hal.
  destruct (nth_error (aslots (st_ar s)) (kidx k)) as [sl|] eqn:En.
  - apply (nth_error_nth_d _ _ _ dA) in En as [Hi <-].
    destruct (Nat.eqb_spec (agen (asl s (kidx k))) (kgen k)) as [E|E].
    + split.
      * intro H. inversion H as [H1]. split; [lia|]. repeat split; auto.
        apply (i_occ _ _ _ I); [lia|congruence].
      * intros (_ & _ & ->). reflexivity.
    + split; [discriminate|]. intros (_ & (_ & E') & _). congruence.
  - apply nth_error_None in En. split; [discriminate|]. intros [? _]. lia.
Qed.

Lemma gone_resolve cf s k {lk} : InvL cf s lk -> kidx k < cap cf -> gone s k -> resolve s k = Ok None.
Proof.
  intros I Hi Hg. unfold resolve, arena_get, gone in *.
  rewrite (nth_error_lt _ _ dA) by (rewrite (i_alen _ _ _ I); auto).
  rewrite (i_gen _ _ _ I) by auto.
  destruct (Nat.eqb_spec (cgen (cs s (kidx k))) (kgen k)); [lia|reflexivity].
Qed.

Lemma gone_mono s s' k : mono s s' -> gone s k -> gone s' k.
Proof. intros (H & _) Hg. unfold gone in *. specialize (H (kidx k)). lia. Qed.

(** ** prompt removal: progress of one marked resource through the callbacks *)
Definition track (cf : cfg) (n : nat) (k : key) (p : nat) (s : state) : Prop :=
  is_marked s p = true /\ kidx k < cap cf /\
  ( gone s k
    \/ (st_callbacks s + 1 = n /\ In (k, p) (st_newq s))
    \/ (st_callbacks s + 1 = n /\ live s k p)
    \/ (st_callbacks s = n /\ live s k p /\
        (st_a s = AIdle \/ exists cur, st_a s = ARemoving cur /\ In k cur)) ).

Lemma live_frame s s' k p :
  st_ar s' = st_ar s -> live s k p -> live s' k p.
Proof. unfold live. now intros ->. Qed.

Lemma track_step cf n k p l s s' {lk} :
  InvL cf s lk -> QInv cf s -> track cf n k p s -> step cf l s = Ok s' -> track cf n k p s'.
Proof.
  intros I Q (Hm & Hi & T) H.
  pose proof (step_mono _ _ _ _ I H) as Hmono.
  split; [now apply Hmono|]. split; auto.
  destruct T as [T|T]; [left; eapply gone_mono; eauto|].
  destruct l; cbn [step] in H.
  - (* G_reserve *)
    assert (E : st_ar s' = st_ar s /\ st_newq s' = st_newq s /\ st_a s' = st_a s /\
                st_callbacks s' = st_callbacks s).
    { unfold g_reserve in H. destruct (st_g s); try (inversion H; subst; auto; fail).
      destruct (res_try_reserve (st_ctl s)) as [[|]| |]; cbn in H; inversion H; subst; auto.
      destruct (prebuild cf); auto. }
    destruct E as (E1 & E2 & E3 & E4). right. rewrite E2, E3, E4.
    destruct T as [T|[T|T]]; [tauto| |]; [right; left|right; right]; intuition eauto using live_frame.
  - assert (E : st_ar s' = st_ar s /\ st_newq s' = st_newq s /\ st_a s' = st_a s /\
                st_callbacks s' = st_callbacks s).
    { unfold g_drain_one in H. destruct (st_g s), (st_unused s); inversion H; subst; auto. }
    destruct E as (E1 & E2 & E3 & E4). right. rewrite E2, E3, E4.
    destruct T as [T|[T|T]]; [tauto| |]; [right; left|right; right]; intuition eauto using live_frame.
  - assert (E : st_ar s' = st_ar s /\ st_newq s' = st_newq s /\ st_a s' = st_a s /\
                st_callbacks s' = st_callbacks s).
    { unfold g_drain_done in H. destruct (st_g s), (st_unused s); inversion H; subst; auto. }
    destruct E as (E1 & E2 & E3 & E4). right. rewrite E2, E3, E4.
    destruct T as [T|[T|T]]; [tauto| |]; [right; left|right; right]; intuition eauto using live_frame.
  - (* G_push: the new-queue only grows at its end *)
    assert (E : st_ar s' = st_ar s /\ (forall e, In e (st_newq s) -> In e (st_newq s')) /\
                st_a s' = st_a s /\ st_callbacks s' = st_callbacks s).
    { unfold g_push in H. destruct (st_g s); try (inversion H; subst; auto; fail).
      unfold ring_push in H. destruct (ring_is_full (cap cf) (st_newq s)); inversion H; subst.
      cbn. repeat split; auto. intros e He. apply in_app_iff. now left. }
    destruct E as (E1 & E2 & E3 & E4). right. rewrite E3, E4.
    destruct T as [T|[T|T]]; [left|right; left|right; right]; intuition eauto using live_frame.
  - assert (E : st_ar s' = st_ar s /\ st_newq s' = st_newq s /\ st_a s' = st_a s /\
                st_callbacks s' = st_callbacks s).
    { unfold g_mark in H. destruct ((p0 <? st_next s) && negb (is_marked s p0));
        inversion H; subst; auto. }
    destruct E as (E1 & E2 & E3 & E4). right. rewrite E2, E3, E4.
    destruct T as [T|[T|T]]; [tauto| |]; [right; left|right; right]; intuition eauto using live_frame.
  - (* A_start: the cursor is taken from the keys / the arena order *)
    unfold a_start in H. destruct (st_a s) eqn:Ea; inversion H; subst; clear H;
      try (right; rewrite ?Ea; exact T).
    right. cbn. destruct T as [T|[T|T]]; [tauto|tauto|]. right. right.
    destruct T as (T1 & T2 & _). split; auto. split; auto. right. eexists. split; [reflexivity|].
    destruct T2 as [T2 _]. pose proof (i_keys _ _ _ I) as Hk.
    destruct (selfref cf); [now apply Hk|now apply arena_keys_in].
  - (* A_remove *)
    destruct (st_inflight s) as [pf|] eqn:Ef.
    { assert (E : s' = s).
      { unfold a_remove in H. rewrite Ef in H. destruct (st_a s) as [|[|]|]; now inversion H. }
      subst s'. right. exact T. }
    destruct (st_a s) as [|[|k0 rest]|] eqn:Ea.
    + unfold a_remove in H. rewrite Ea in H. inversion H; subst. right. rewrite Ea. exact T.
    + unfold a_remove in H. rewrite Ea, Ef in H. inversion H; subst; clear H. right. cbn.
      destruct T as [T|[T|T]]; [tauto|tauto|].
      destruct T as (_ & _ & [T|(cur & T & Hin)]); [congruence|].
      inversion T; subst. destruct Hin.
    + destruct (a_remove_spec _ _ _ _ I Ea Ef) as (Hi0 & p0 & Hp0 & Hd0 & E).
      rewrite E in H. inversion H; subst; clear H.
      (* the unused-ring is not full while something is occupied: the queue bound *)
      assert (Hfull : selfref cf && ring_is_full (unused_cap cf) (st_unused s) = false).
      { destruct Hp0 as [Hocc0 _]. unfold QInv in Q.
        assert (1 <= length (aorder (st_ar s))) by (destruct (aorder (st_ar s)); [destruct Hocc0|cbn; lia]).
        unfold ring_is_full, unused_cap.
        replace (S (cap cf) <=? length (st_unused s)) with false; [apply andb_false_r|].
        symmetry. apply Nat.leb_gt. lia. }
      rewrite Hfull.
      pose proof (i_cur _ _ _ I _ Ea) as [NDcur _]. cbn [map] in NDcur.
      inversion NDcur as [|? ? Hk0rest _]; subst.
      assert (Hcase : forall (T2 : live s k p),
                 (k0 = k /\ p0 = p) \/ kidx k0 <> kidx k).
      { intros [[_ Hg] Hd]. destruct (Nat.eq_dec (kidx k0) (kidx k)) as [Ei|]; [left|now right].
        destruct Hp0 as [_ Hg0]. rewrite Ei in *. split; [|congruence].
        destruct k0, k; cbn in *; subst; f_equal; congruence. }
      destruct (is_marked s p0) eqn:Em0.
      * (* k0 is removed *)
        assert (Hlive : forall (T2 : live s k p), kidx k0 <> kidx k ->
                          live (removed_state cf s k0 p0 rest) k p).
        { intros [[Ho Hg] Hd] Hne. unfold live, present. cbn.
          rewrite in_remove_iff, nth_upd_neq by auto. fold dA. repeat split; auto. }
        assert (Hgone : forall (T2 : live s k p), k0 = k -> gone (removed_state cf s k0 p0 rest) k).
        { intros [[Ho Hg] Hd] ->. unfold gone. cbn.
          rewrite nth_upd_eq by (rewrite (i_clen _ _ _ I); auto). cbn.
          rewrite <- (i_gen _ _ _ I) by auto. lia. }
        destruct T as [T|[T|T]].
        -- right. left. exact T.
        -- destruct T as (T1 & T2). destruct (Hcase T2) as [[-> ->]|Hne]; [left; auto|].
           right. right. left. split; auto.
        -- destruct T as (T1 & T2 & T3). destruct (Hcase T2) as [[-> ->]|Hne]; [left; auto|].
           right. right. right. split; auto. split; auto. right. exists rest. split; auto.
           destruct T3 as [T3|(cur & T3 & Hin)]; [congruence|].
           inversion T3; subst. destruct Hin as [->|Hin]; [congruence|auto].
      * (* k0 stays *)
        right. cbn. destruct T as [T|[T|T]]; [tauto|tauto|]. right. right.
        destruct T as (T1 & T2 & T3). split; auto. split; auto. right. exists rest. split; auto.
        destruct T3 as [T3|(cur & T3 & Hin)]; [congruence|].
        inversion T3; subst. destruct Hin as [->|Hin]; auto.
        exfalso. destruct (Hcase T2) as [[_ ->]|Hne]; congruence.
    + unfold a_remove in H. rewrite Ea in H. inversion H; subst. right. rewrite Ea. exact T.
  - (* A_push *)
    assert (E : st_ar s' = st_ar s /\ st_newq s' = st_newq s /\ st_a s' = st_a s /\
                st_callbacks s' = st_callbacks s).
    { unfold a_push in H. destruct (st_inflight s); [|inversion H; subst; auto].
      destruct (ring_push (unused_cap cf) (st_unused s) n0); inversion H; subst; auto. }
    destruct E as (E1 & E2 & E3 & E4). right. rewrite E2, E3, E4.
    destruct T as [T|[T|T]]; [tauto| |]; [right; left|right; right]; intuition eauto using live_frame.
  - (* A_add *)
    destruct (st_a s) eqn:Ea;
      try (unfold a_add in H; rewrite Ea in H; inversion H; subst; right; rewrite ?Ea; exact T).
    destruct (st_newq s) as [|[k0 p0] rest] eqn:Eq.
    + (* the pass ends: the callback is complete *)
      unfold a_add in H. rewrite Ea, Eq in H. inversion H; subst; clear H. right. cbn.
      destruct T as [T|[T|T]].
      * destruct T as [_ []].
      * destruct T as (T1 & T2). right. right. split; [lia|]. split; auto.
      * destruct T as (_ & _ & [T|(cur & T & _)]); congruence.
    + destruct (a_add_spec _ _ _ _ _ I Ea Eq) as (Hi0 & Hg0 & Hd0 & E).
      rewrite E in H. inversion H; subst; clear H. right. cbn.
      assert (Hlive : forall (T2 : live s k p), live (added_state cf s k0 p0 rest) k p).
      { intros [[Ho Hg] Hd]. assert (Hne : kidx k0 <> kidx k) by (intro Ei; rewrite Ei in *; congruence).
        unfold live, present. cbn. rewrite nth_upd_neq by auto. fold dA. repeat split; auto. }
      destruct T as [T|[T|T]].
      * destruct T as (T1 & [T2|T2]).
        -- inversion T2; subst. right. left. split; auto.
           unfold live, present. cbn. rewrite nth_upd_eq by (rewrite (i_alen _ _ _ I); auto).
           cbn. repeat split; auto.
        -- left. split; auto.
      * right. left. destruct T as (T1 & T2). split; auto.
      * destruct T as (_ & _ & [T|(cur & T & _)]); congruence.
  - (* G_fail: only ghost fields change *)
    assert (E : st_ar s' = st_ar s /\ st_newq s' = st_newq s /\ st_a s' = st_a s /\
                st_callbacks s' = st_callbacks s).
    { unfold g_fail in H. destruct (st_g s); inversion H; subst; auto.
      destruct (prebuild cf && built); auto. }
    destruct E as (E1 & E2 & E3 & E4). right. rewrite E2, E3, E4.
    destruct T as [T|[T|T]]; [tauto| |]; [right; left|right; right]; intuition eauto using live_frame.
Qed.

Lemma track_run cf n k p sched s s' {lk} :
  InvL cf s lk -> QInv cf s -> track cf n k p s ->
  run cf sched s = Ok s' -> track cf n k p s'.
Proof.
  intros I Q T H. eapply (run_preserves_q cf (track cf n k p)); eauto.
  intros l s0 s1 I0 Q0 T0 H0. eapply track_step; eauto.
Qed.

Lemma is_marked_In s p : is_marked s p = true <-> In p (st_marked s).
Proof. apply existsb_eqb_In. Qed.

Lemma prompt_removal_proof :
  forall cf sched1 s1 k p sched2 s2,
    run cf sched1 (init cf) = Ok s1 ->
    st_a s1 = AIdle -> resolve s1 k = Ok (Some p) -> In p (st_marked s1) ->
    run cf sched2 s1 = Ok s2 -> st_callbacks s1 < st_callbacks s2 ->
    resolve s2 k = Ok None /\ gone s2 k.
Proof.
  intros cf sched1 s1 k p sched2 s2 H1 Ha Hr Hm H2 Hcb.
  destruct (reach _ _ _ H1) as [I1 Q1]. unfold Inv in *.
  pose proof (run_inv _ _ _ _ I1 H2) as I2.
  apply (resolve_live _ _ _ _ I1) in Hr as [Hi Hl].
  assert (T : track cf (st_callbacks s1) k p s1).
  { split; [now apply is_marked_In|]. split; auto. right. right. right. auto. }
  pose proof (track_run _ _ _ _ _ _ _ I1 Q1 T H2) as (_ & _ & T2).
  assert (G : gone s2 k) by (destruct T2 as [G|[[? _]|[[? _]|[? _]]]]; auto; lia).
  split; auto. eapply gone_resolve; eauto.
Qed.

Lemma prompt_removal_queued_proof :
  forall cf sched1 s1 k p sched2 s2,
    run cf sched1 (init cf) = Ok s1 ->
    In (k, p) (st_newq s1) -> In p (st_marked s1) ->
    run cf sched2 s1 = Ok s2 ->
    (st_callbacks s1 + 1 <= st_callbacks s2 -> resolve s2 k = Ok (Some p) \/ gone s2 k) /\
    (st_callbacks s1 + 2 <= st_callbacks s2 -> resolve s2 k = Ok None /\ gone s2 k).
Proof.
  intros cf sched1 s1 k p sched2 s2 H1 Hq Hm H2.
  destruct (reach _ _ _ H1) as [I1 Q1]. unfold Inv in *.
  pose proof (run_inv _ _ _ _ I1 H2) as I2.
  assert (Hi : kidx k < cap cf).
  { apply (i_nonfree _ _ _ I1). unfold owned. rewrite !in_app_iff. right. left.
    unfold nq_idx. apply in_map_iff. now exists (k, p). }
  assert (T : track cf (st_callbacks s1 + 1) k p s1).
  { split; [now apply is_marked_In|]. split; auto. }
  pose proof (track_run _ _ _ _ _ _ _ I1 Q1 T H2) as (_ & _ & T2). split.
  - intro Hcb. destruct T2 as [G|[[? _]|[[? _]|(_ & Hl & _)]]]; auto; try lia.
    left. apply (resolve_live _ _ _ _ I2). auto.
  - intro Hcb. assert (G : gone s2 k) by (destruct T2 as [G|[[? _]|[[? _]|[? _]]]]; auto; lia).
    split; auto. eapply gone_resolve; eauto.
Qed.

(** the [is_full] guard of [remove_unused] never cuts a removal pass short: whenever the audio thread
    is about to inspect a key, the unused-ring has room *)
Lemma is_full_guard_never_fires_proof :
  forall cf sched s k rest,
    run cf sched (init cf) = Ok s -> st_a s = ARemoving (k :: rest) ->
    ring_is_full (unused_cap cf) (st_unused s) = false.
Proof.
  intros cf sched s k rest H Ea. destruct (reach _ _ _ H) as [I Q]. unfold Inv in *.
  pose proof (i_cur _ _ _ I _ Ea) as [_ Hcur]. destruct (Hcur k (or_introl eq_refl)) as [Hocc _].
  unfold QInv in Q.
  assert (1 <= length (aorder (st_ar s))) by (destruct (aorder (st_ar s)); [destruct Hocc|cbn; lia]).
  unfold ring_is_full, unused_cap. apply Nat.leb_gt. lia.
Qed.

(** ** where payloads are destroyed *)

Lemma audio_step_frame cf l s s' {lk} :
  InvL cf s lk -> thread_of l = Audio -> step cf l s = Ok s' ->
  st_destroyed s' = st_destroyed s /\ st_next s' = st_next s.
Proof.
  intros I Ht H. destruct l; cbn in Ht; try discriminate; cbn [step] in H.
  - unfold a_start in H. destruct (st_a s); inversion H; subst; auto.
  - destruct (st_inflight s) eqn:Ef.
    { unfold a_remove in H. rewrite Ef in H. destruct (st_a s) as [|[|]|]; inversion H; subst; auto. }
    destruct (st_a s) as [|[|k rest]|] eqn:Ea;
      try (unfold a_remove in H; rewrite Ea, ?Ef in H; inversion H; subst; auto; fail).
    destruct (a_remove_spec _ _ _ _ I Ea Ef) as (_ & p & _ & _ & E). rewrite E in H.
    inversion H; subst.
    destruct (selfref cf && ring_is_full (unused_cap cf) (st_unused s)); auto. destruct (is_marked s p); auto.
  - unfold a_push in H. destruct (st_inflight s); [|inversion H; subst; auto].
    destruct (ring_push (unused_cap cf) (st_unused s) n); inversion H; subst; auto.
  - destruct (st_a s) eqn:Ea;
      try (unfold a_add in H; rewrite Ea in H; inversion H; subst; auto; fail).
    destruct (st_newq s) as [|[k p] rest] eqn:Eq.
    + unfold a_add in H. rewrite Ea, Eq in H. inversion H; subst; auto.
    + destruct (a_add_spec _ _ _ _ _ I Ea Eq) as (_ & _ & _ & E). rewrite E in H.
      inversion H; subst; auto.
Qed.

Lemma destroyed_on_caller_proof :
  forall cf sched s,
    run cf sched (init cf) = Ok s ->
    (forall p t, In (p, t) (st_destroyed s) -> t = Gameplay) /\
    NoDup (map fst (st_destroyed s)) /\
    Permutation (seq 0 (st_next s))
                (map snd (st_newq s) ++ slot_payloads (aslots (st_ar s))
                     ++ (st_unused s ++ infl (st_inflight s)) ++ map fst (st_destroyed s)) /\
    (forall l s', thread_of l = Audio -> step cf l s = Ok s' ->
                  st_destroyed s' = st_destroyed s /\ st_next s' = st_next s).
Proof.
  intros cf sched s H.
  destruct (reach _ _ _ H) as [I _]. unfold Inv in *.
  split; [apply (i_destroyed _ _ _ I)|]. split; [|split; [apply (i_cons _ _ _ I)|]].
  - pose proof (i_cons _ _ _ I) as P.
    pose proof (Permutation_NoDup P (seq_NoDup _ _)) as ND.
    apply NoDup_app_iff in ND as (_ & ND & _). apply NoDup_app_iff in ND as (_ & ND & _).
    now apply NoDup_app_iff in ND as (_ & ND & _).
  - intros l s'. exact (audio_step_frame cf l s s' I).
Qed.

(** ** no stale ids *)

Lemma no_stale_ids_proof :
  forall cf sched s,
    run cf sched (init cf) = Ok s ->
    (forall k p, resolve s k = Ok (Some p) -> In (p, k) (st_log s)) /\
    (forall p p' k, In (p, k) (st_log s) -> In (p', k) (st_log s) -> p = p') /\
    (forall k, kidx k < cap cf -> gone s k ->
               forall sched2 s2, run cf sched2 s = Ok s2 -> resolve s2 k = Ok None /\ gone s2 k) /\
    (forall k p, In (p, k) (st_log s) -> resolve s k = Ok None -> ~ In (k, p) (st_newq s) -> gone s k) /\
    (forall k c', res_try_reserve (st_ctl s) = Ok (Reserved k c') -> forall p, ~ In (p, k) (st_log s)).
Proof.
  intros cf sched s H.
  destruct (reach _ _ _ H) as [I _]. unfold Inv in *.
  repeat split.
  - intros k p Hr. apply (resolve_live _ _ _ _ I) in Hr as (Hi & [_ Hg] & Hd).
    pose proof (i_ar_log _ _ _ I _ _ Hi Hd) as Hin. rewrite <- Hg in Hin. now destruct k.
  - intros p p' k H1 H2. pose proof (i_log_keys _ _ _ I) as ND.
    clear - H1 H2 ND. induction (st_log s) as [|[q k0] l IH]; [destruct H1|].
    cbn in ND. inversion ND as [|? ? Hn ND']; subst.
    destruct H1 as [E1|H1], H2 as [E2|H2].
    + congruence.
    + inversion E1; subst. exfalso. apply Hn. apply in_map_iff. now exists (p', k).
    + inversion E2; subst. exfalso. apply Hn. apply in_map_iff. now exists (p, k).
    + auto.
  - pose proof (run_inv _ _ _ _ I H2) as I2.
    eapply gone_resolve; eauto. eapply gone_mono; eauto. eapply run_mono; eauto.
  - eapply gone_mono; eauto. eapply run_mono; eauto.
  - intros k p Hin Hr Hnq. destruct (i_log_lt _ _ _ I _ _ Hin) as (_ & Hi & Hle).
    unfold gone. destruct (Nat.eq_dec (kgen k) (cgen (cs s (kidx k)))) as [Eg|]; [|lia].
    exfalso. destruct (i_log_live _ _ _ I _ _ Hin Eg) as [Hq|Hd]; [auto|].
    assert (Hl : resolve s k = Ok (Some p)).
    { apply (resolve_live _ _ _ _ I). split; auto. split; auto. split.
      - apply (i_occ _ _ _ I); auto. congruence.
      - rewrite (i_gen _ _ _ I); auto. }
    congruence.
  - intros k c' Hres p Hin.
    unfold res_try_reserve, ctl_capacity in Hres. rewrite (i_clen _ _ _ I) in Hres.
    destruct (Nat.eqb_spec (cap cf) 0) as [Ez|Ez]; [discriminate|].
    destruct (i_free _ _ _ I ltac:(lia)) as (fl & Hch & _ & Hfl). unfold ctl_try_reserve in Hres.
    destruct fl as [|h r]; cbn [chain] in Hch; [rewrite Hch in Hres; discriminate|].
    destruct Hch as (Eh & Hh & _). rewrite Eh, (nth_error_lt _ _ dC) in Hres by auto.
    inversion Hres; subst; clear Hres.
    assert (Hfree : cfree (cs s h) = true) by (apply Hfl; now left).
    destruct (i_log_live _ _ _ I _ _ Hin eq_refl) as [Hq|Hd]; cbn [kidx] in *.
    + assert (Ho : In h (owned s [])).
      { unfold owned. rewrite !in_app_iff. right. left. unfold nq_idx. apply in_map_iff.
        eexists (_, p). split; [|exact Hq]. reflexivity. }
      apply (i_nonfree _ _ _ I) in Ho as [_ Ho]. congruence.
    + assert (Ho : In h (owned s [])).
      { unfold owned. rewrite !in_app_iff. left. apply (i_occ _ _ _ I); [rewrite <- (i_clen _ _ _ I); auto|congruence]. }
      apply (i_nonfree _ _ _ I) in Ho as [_ Ho]. congruence.
Qed.

(** ** capacity: the statement over runs *)
Lemma capacity_exact_proof :
  forall cf sched s,
    run cf sched (init cf) = Ok s ->
    res_capacity s = cap cf /\
    res_len s = length (aorder (st_ar s)) + length (st_newq s) + length (gres (st_g s)) /\
    res_len s + st_removed s = st_created s /\
    res_len s <= cap cf /\
    (res_len s < cap cf ->
       exists k c', res_try_reserve (st_ctl s) = Ok (Reserved k c') /\
                    kidx k < cap cf /\ cfree (cs s (kidx k)) = true) /\
    (res_len s = cap cf -> res_try_reserve (st_ctl s) = Ok ArenaFull).
Proof.
  intros cf sched s H. destruct (reach _ _ _ H) as [I _]. unfold Inv in I.
  pose proof (capacity_exact_inv _ _ I) as C. cbn [length] in C. now rewrite Nat.add_0_r in C.
Qed.

(** ** non-vacuity: concrete reachable states that meet the hypotheses *)
Definition ex_cf : cfg := mkCfg true false 2.
(** create; callback; drop the handle *)
Definition ex_sched_present : list label :=
  [G_reserve; G_drain_done; G_push; A_start; A_remove; A_add; A_add; G_mark 0].
(** create; drop the handle before any callback *)
Definition ex_sched_queued : list label := [G_reserve; G_drain_done; G_push; G_mark 0].
(** an interleaved run that reuses a slot: create 0, callback inserts it, drop it, a second create
    interleaved with the callback that removes 0, a third create reuses slot 0 with generation 1 *)
Definition ex_sched_reuse : list label :=
  [G_reserve; G_drain_done; G_push; A_start; A_remove; A_add; A_add; G_mark 0;
   A_start; G_reserve; A_remove; A_push; G_drain_one; G_drain_done; A_remove; G_push; A_add; A_add;
   G_reserve; G_drain_done; G_push; A_start; A_remove; A_remove; A_add; A_add].

Lemma ex_present :
  exists s1, run ex_cf ex_sched_present (init ex_cf) = Ok s1 /\ st_a s1 = AIdle /\
             resolve s1 (mkKey 0 0) = Ok (Some 0) /\ In 0 (st_marked s1).
Proof. eexists. split; [vm_compute; reflexivity|]. vm_compute. auto. Qed.

Lemma ex_queued :
  exists s1, run ex_cf ex_sched_queued (init ex_cf) = Ok s1 /\
             In (mkKey 0 0, 0) (st_newq s1) /\ In 0 (st_marked s1).
Proof. eexists. split; [vm_compute; reflexivity|]. vm_compute. auto. Qed.

Lemma ex_reuse :
  exists s, run ex_cf ex_sched_reuse (init ex_cf) = Ok s /\
            gone s (mkKey 0 0) /\ resolve s (mkKey 0 0) = Ok None /\
            resolve s (mkKey 0 1) = Ok (Some 2) /\ resolve s (mkKey 1 0) = Ok (Some 1) /\
            st_destroyed s = [(0, Gameplay)] /\ res_len s = 2 /\
            res_try_reserve (st_ctl s) = Ok ArenaFull.
Proof. eexists. split; [vm_compute; reflexivity|]. vm_compute. repeat split; auto. Qed.

(** ** regression examples: the witness schedules of the repaired findings *)

(** F27 (capacity 1): create 0; callback; drop 0; the next callback removes 0 from the arena (slot
    free, payload in flight) — the gameplay thread now runs a whole create (reserve the freed slot,
    drain: empty, push) — the callback pushes 0 into the unused-ring and inserts 1; drop 1; the next
    callback removes 1 and pushes it.  With a ring of [capacity] slots that push panicked
    (ResourceStorage) or the removal pass gave up for good (SelfReferentialResourceStorage). *)
Definition f27_prefix : list label :=
  [G_reserve; G_drain_done; G_push; A_start; A_remove; A_push; A_add; A_add; G_mark 0;
   A_start; A_remove; G_reserve; G_drain_done; G_push; A_push; A_remove; A_push; A_add; A_add;
   G_mark 1].
Definition f27_callback : list label := [A_start; A_remove; A_push; A_remove; A_add; A_add].

Lemma f27_regression_proof :
  forall sr pb : bool,
    let cf := mkCfg sr pb 1 in
    exists s1 s2,
      run cf f27_prefix (init cf) = Ok s1 /\ st_a s1 = AIdle /\
      resolve s1 (mkKey 0 1) = Ok (Some 1) /\ In 1 (st_marked s1) /\ st_unused s1 = [0] /\
      run cf f27_callback s1 = Ok s2 /\
      st_callbacks s1 < st_callbacks s2 /\ st_a s2 = AIdle /\
      resolve s2 (mkKey 0 1) = Ok None /\ st_unused s2 = [0; 1] /\ st_destroyed s2 = [] /\
      res_len s2 = 0.
Proof.
  intros [|] [|]; cbv zeta; eexists; eexists;
    (split; [vm_compute; reflexivity|]); vm_compute; repeat split; auto.
Qed.

(** F2 (capacity 0): the create path answers with the limit error; a payload that was already
    built is dropped by the caller *)
Lemma capacity_zero_regression_proof :
  forall sr pb : bool,
    let cf := mkCfg sr pb 0 in
    res_try_reserve (st_ctl (init cf)) = Ok ArenaFull /\
    exists s, run cf [G_reserve; G_drain_done; G_push; A_start; A_remove; A_add; A_add] (init cf) = Ok s /\
              st_g s = GIdle /\ res_len s = 0 /\ st_created s = 0 /\
              st_destroyed s = (if pb then [(0, Gameplay)] else []).
Proof.
  intros [|] [|]; cbv zeta; (split; [vm_compute; reflexivity|]); eexists;
    (split; [vm_compute; reflexivity|]); vm_compute; auto.
Qed.
