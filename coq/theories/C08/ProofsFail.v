(** C08 — creations that fail: before the reservation (base step [G_fail]: nothing is consumed) and after
    it (extension step [X_fail_late]: the slot leaks for good; the invariant [InvL] of ProofsInv.v carries
    the list of leaked slots, so the whole accounting stays exact with the leaked slots counted). *)
From Coq Require Import Arith List Bool Lia Permutation.
From KV Require Import Base.Outcome C08.Model C08.ProofsBase C08.ProofsInv C08.ProofsRun C08.ProofsProps.
Import ListNotations.

(** ** a creation that fails before the reservation *)

Lemma failed_creation_no_effect_proof :
  forall (cf : cfg) (built : bool) (s : state),
    exists s', step cf (G_fail built) s = Ok s' /\
      (* the controller: free list, flags, generations *)
      st_ctl s' = st_ctl s /\
      (* the audio thread's arena and key list, both rings, the flags, both program counters *)
      st_ar s' = st_ar s /\ st_keys s' = st_keys s /\ st_newq s' = st_newq s /\
      st_unused s' = st_unused s /\ st_inflight s' = st_inflight s /\ st_marked s' = st_marked s /\
      st_g s' = st_g s /\ st_a s' = st_a s /\
      st_created s' = st_created s /\ st_removed s' = st_removed s /\
      st_callbacks s' = st_callbacks s /\ st_log s' = st_log s /\
      (* hence what the API reports and answers *)
      res_len s' = res_len s /\ res_capacity s' = res_capacity s /\
      res_try_reserve (st_ctl s') = res_try_reserve (st_ctl s) /\
      (forall k, resolve s' k = resolve s k) /\
      (* the only trace: a payload that had been built is dropped, by the caller *)
      ((built = false -> s' = s) /\
       ((st_next s' = st_next s /\ st_destroyed s' = st_destroyed s) \/
        (built = true /\ prebuild cf = true /\ st_g s = GIdle /\
         st_next s' = S (st_next s) /\ st_destroyed s' = (st_next s, Gameplay) :: st_destroyed s))).
Proof.
  intros cf built s. cbn [step]. unfold g_fail.
  destruct (st_g s) eqn:Eg.
  - destruct (prebuild cf) eqn:Ep, built eqn:Eb; cbn [andb];
      eexists; (split; [reflexivity|]); unfold res_len, res_capacity, resolve, reject_payload; cbn;
      repeat split; auto; try discriminate.
    right. repeat split; auto.
  - eexists; split; [reflexivity|]. repeat split; auto.
  - eexists; split; [reflexivity|]. repeat split; auto.
Qed.

(** [into_sound] returning [Err]: the step is the identity *)
Lemma step_plain_failure cf s : step cf (G_fail false) s = Ok s.
Proof. cbn [step]. unfold g_fail. destruct (st_g s); auto. now rewrite andb_false_r. Qed.

Definition is_plain_failure (l : label) : bool :=
  match l with G_fail false => true | _ => false end.

(** a history with failed creations reaches exactly the state of the history without them *)
Lemma failed_creations_erasable_proof :
  forall (cf : cfg) (sched : list label) (s : state),
    run cf sched s = run cf (filter (fun l => negb (is_plain_failure l)) sched) s.
Proof.
  intros cf sched. induction sched as [|l rest IH]; intro s; [reflexivity|].
  cbn [filter]. destruct (is_plain_failure l) eqn:E; cbn [negb run].
  - destruct l; try discriminate. destruct built; [discriminate|].
    rewrite step_plain_failure. cbn [obind]. apply IH.
  - destruct (step cf l s); cbn [obind]; auto.
Qed.

(** ** the extension: failures after the reservation *)

Definition base_labels (xsched : list xlabel) : list label :=
  flat_map (fun l => match l with XL l => [l] | X_fail_late _ => [] end) xsched.
Definition no_late (xsched : list xlabel) : Prop := forall b, ~ In (X_fail_late b) xsched.

Lemma xrun_no_late cf xsched x :
  no_late xsched ->
  xrun cf xsched x = (let! s' := run cf (base_labels xsched) (xs x) in Ok (mkX s' (x_leaked x))).
Proof.
  revert x. induction xsched as [|l rest IH]; intros x Hn.
  - destruct x; reflexivity.
  - assert (Hrest : no_late rest) by (intros b Hb; apply (Hn b); now right).
    destruct l as [l|b]; [|exfalso; apply (Hn b); now left].
    cbn [xrun xstep base_labels flat_map app run].
    destruct (step cf l (xs x)) as [s1| |]; cbn [obind]; auto.
    now rewrite IH.
Qed.

(** without a failure after the reservation the extended system IS the base system: nothing leaks,
    every theorem about [run] applies *)
Lemma no_leak_without_late_failure_proof :
  forall (cf : cfg) (xsched : list xlabel),
    no_late xsched ->
    exists x, xrun cf xsched (xinit cf) = Ok x /\ x_leaked x = [] /\
              run cf (base_labels xsched) (init cf) = Ok (xs x) /\
              res_len (xs x) = length (aorder (st_ar (xs x))) + length (st_newq (xs x))
                               + length (gres (st_g (xs x))) /\
              res_len (xs x) + st_removed (xs x) = st_created (xs x) /\
              (res_len (xs x) < cap cf ->
                 exists k c', res_try_reserve (st_ctl (xs x)) = Ok (Reserved k c')) /\
              (res_len (xs x) = cap cf -> res_try_reserve (st_ctl (xs x)) = Ok ArenaFull).
Proof.
  intros cf xsched Hn.
  destruct (res_invariant_proof cf (base_labels xsched)) as (s & Hr & I & Q).
  exists (mkX s []). rewrite (xrun_no_late _ _ _ Hn). cbn [xinit xs x_leaked]. rewrite Hr. cbn [obind].
  split; [reflexivity|]. split; [reflexivity|]. split; [reflexivity|].
  unfold Inv in I. destruct (capacity_exact_inv _ _ I) as (_ & H1 & H2 & _ & H3 & H4).
  cbn [length] in H1. rewrite Nat.add_0_r in H1.
  repeat split; auto. intro Hlt. destruct (H3 Hlt) as (k & c' & E & _). eauto.
Qed.

(** ** exact accounting WITH failures after the reservation: each costs exactly one slot, for good *)
Definition lk_idx (x : xstate) : list nat := map kidx (x_leaked x).

Lemma inv_fail_late cf s k lk :
  InvL cf s lk -> st_g s = GReserved k -> InvL cf (set_g s GIdle) (kidx k :: lk).
Proof.
  intros I Eg. destruct I. sproj. rewrite Eg in *. sproj. cbn [app] in *.
  constructor; sproj; auto. discriminate.
Qed.

Lemma xstep_ok cf l x :
  InvL cf (xs x) (lk_idx x) -> QInv cf (xs x) ->
  exists x', xstep cf l x = Ok x' /\ InvL cf (xs x') (lk_idx x') /\ QInv cf (xs x').
Proof.
  intros I Q. destruct l as [l|built]; cbn [xstep].
  - destruct (step_ok cf l (xs x) I Q) as (s' & E & I' & Q'). rewrite E. cbn [obind].
    eexists. split; [reflexivity|]. cbn [xs]. unfold lk_idx in *. cbn [x_leaked]. auto.
  - unfold g_fail_late. destruct (st_g (xs x)) as [|k|k] eqn:Eg; eauto.
    eexists. split; [reflexivity|]. unfold lk_idx. cbn [xs x_leaked map]. split.
    + apply inv_fail_late.
      * destruct built; [now apply inv_reject|exact I].
      * destruct built; exact Eg.
    + unfold QInv in *. destruct built; cbn; rewrite Eg in Q; cbn in Q; exact Q.
Qed.

Lemma xrun_ok cf xsched x :
  InvL cf (xs x) (lk_idx x) -> QInv cf (xs x) ->
  exists x', xrun cf xsched x = Ok x' /\ InvL cf (xs x') (lk_idx x') /\ QInv cf (xs x').
Proof.
  revert x. induction xsched as [|l rest IH]; intros x I Q; cbn [xrun]; [eauto|].
  destruct (xstep_ok cf l x I Q) as (x1 & E & I1 & Q1). rewrite E. cbn [obind]. now apply IH.
Qed.

Lemma leak_accounting_proof :
  forall (cf : cfg) (xsched : list xlabel),
    exists x, xrun cf xsched (xinit cf) = Ok x /\
      res_capacity (xs x) = cap cf /\
      res_len (xs x) = length (aorder (st_ar (xs x))) + length (st_newq (xs x))
                       + length (gres (st_g (xs x))) + length (x_leaked x) /\
      res_len (xs x) + st_removed (xs x) = st_created (xs x) /\
      res_len (xs x) <= cap cf /\
      (res_len (xs x) < cap cf ->
         exists k c', res_try_reserve (st_ctl (xs x)) = Ok (Reserved k c') /\
                      kidx k < cap cf /\ cfree (cs (xs x) (kidx k)) = true) /\
      (res_len (xs x) = cap cf -> res_try_reserve (st_ctl (xs x)) = Ok ArenaFull) /\
      NoDup (map kidx (x_leaked x)) /\
      (forall k, In k (x_leaked x) ->
                 kidx k < cap cf /\ cfree (cs (xs x) (kidx k)) = false /\
                 ~ In (kidx k) (aorder (st_ar (xs x))) /\ (forall p, ~ In (k, p) (st_newq (xs x)))).
Proof.
  intros cf xsched.
  destruct (xrun_ok cf xsched (xinit cf)) as (x & E & I & Q).
  { apply inv_init. } { apply qinv_init. }
  exists x. split; [exact E|].
  destruct (capacity_exact_inv _ _ I) as (H0 & H1 & H2 & H3 & H4 & H5).
  unfold lk_idx in H1. rewrite map_length in H1.
  repeat split; auto.
  - pose proof (i_part _ _ _ I) as P. unfold owned in P.
    apply NoDup_app_iff in P as (_ & P & _). apply NoDup_app_iff in P as (_ & P & _).
    now apply NoDup_app_iff in P as (_ & P & _).
  - apply (i_nonfree _ _ _ I). unfold owned, lk_idx. rewrite !in_app_iff. right. right. right.
    now apply in_map.
  - apply (i_nonfree _ _ _ I). unfold owned, lk_idx. rewrite !in_app_iff. right. right. right.
    now apply in_map.
  - intro Hin. pose proof (i_part _ _ _ I) as P. unfold owned in P.
    apply NoDup_app_iff in P as (_ & _ & P). apply (P _ Hin).
    unfold lk_idx. rewrite !in_app_iff. right. right. now apply in_map.
  - intros p Hin. pose proof (i_part _ _ _ I) as P. unfold owned in P.
    apply NoDup_app_iff in P as (_ & P & _). apply NoDup_app_iff in P as (_ & _ & P).
    apply (P (kidx k)).
    + unfold nq_idx. apply in_map_iff. now exists (k, p).
    + unfold lk_idx. rewrite in_app_iff. right. now apply in_map.
Qed.

(** the ghost [x_leaked] counts the failures after the reservation that found a key reserved *)
Lemma late_failure_step cf built x :
  exists x', xstep cf (X_fail_late built) x = Ok x' /\
    match st_g (xs x) with
    | GReserved k =>
        x_leaked x' = k :: x_leaked x /\ st_g (xs x') = GIdle /\
        (* nothing gives the slot back *)
        st_ctl (xs x') = st_ctl (xs x) /\ st_ar (xs x') = st_ar (xs x) /\
        st_newq (xs x') = st_newq (xs x) /\ st_unused (xs x') = st_unused (xs x) /\
        st_created (xs x') = st_created (xs x) /\ st_removed (xs x') = st_removed (xs x)
    | _ => x' = x
    end.
Proof.
  cbn [xstep]. unfold g_fail_late. destruct (st_g (xs x)) eqn:Eg; eauto.
  eexists. split; [reflexivity|]. destruct built; cbn; repeat split; auto.
Qed.

(** ** the leak is permanent: an exhausted, empty storage stays so under every step *)
Definition exhausted (s : state) : Prop :=
  chead (st_ctl s) = None /\ cslots (st_ctl s) <> [] /\
  aorder (st_ar s) = [] /\ st_newq s = [] /\ st_g s = GIdle /\ st_inflight s = None /\
  st_keys s = [] /\ (st_a s = AIdle \/ st_a s = ARemoving [] \/ st_a s = AAdding).

Lemma exhausted_try_reserve s : exhausted s -> res_try_reserve (st_ctl s) = Ok ArenaFull.
Proof.
  intros (Hh & Hs & _). unfold res_try_reserve, ctl_capacity, ctl_try_reserve. rewrite Hh.
  destruct (length (cslots (st_ctl s)) =? 0); reflexivity.
Qed.

Lemma exhausted_step cf l s :
  exhausted s -> exists s', step cf l s = Ok s' /\ exhausted s' /\ st_ctl s' = st_ctl s.
Proof.
  intros E. pose proof (exhausted_try_reserve _ E) as Hres.
  destruct E as (Hh & Hs & Ho & Hq & Hg & Hf & Hk & Ha).
  destruct l; cbn [step].
  - unfold g_reserve. rewrite Hg, Hres. cbn [obind].
    eexists. split; [reflexivity|].
    destruct (prebuild cf); unfold exhausted, reject_payload; cbn; repeat split; auto.
  - unfold g_drain_one. rewrite Hg. eexists. split; [destruct (st_unused s); reflexivity|].
    unfold exhausted. repeat split; auto.
  - unfold g_drain_done. rewrite Hg. eexists. split; [destruct (st_unused s); reflexivity|].
    unfold exhausted. repeat split; auto.
  - unfold g_push. rewrite Hg. eexists. split; [reflexivity|]. unfold exhausted. repeat split; auto.
  - unfold g_mark. destruct ((p <? st_next s) && negb (is_marked s p));
      (eexists; split; [reflexivity|]); unfold exhausted; cbn; repeat split; auto.
  - unfold a_start. destruct Ha as [Ha|[Ha|Ha]]; rewrite Ha;
      (eexists; split; [reflexivity|]); unfold exhausted, set_a; cbn; repeat split; auto.
    right. left. unfold arena_keys. rewrite Hk, Ho. cbn. now destruct (selfref cf).
  - unfold a_remove. rewrite Hf. destruct Ha as [Ha|[Ha|Ha]]; rewrite Ha;
      (eexists; split; [reflexivity|]); unfold exhausted, set_a; cbn; repeat split; auto.
  - unfold a_push. rewrite Hf. eexists. split; [reflexivity|]. unfold exhausted. repeat split; auto.
  - unfold a_add. destruct Ha as [Ha|[Ha|Ha]]; rewrite Ha, ?Hq;
      (eexists; split; [reflexivity|]); unfold exhausted; cbn; repeat split; auto.
  - unfold g_fail. rewrite Hg. eexists. split; [reflexivity|].
    destruct (prebuild cf && built); unfold exhausted, reject_payload; cbn; repeat split; auto.
Qed.

Lemma exhausted_xrun cf xsched x :
  exhausted (xs x) ->
  exists x', xrun cf xsched x = Ok x' /\ exhausted (xs x') /\ st_ctl (xs x') = st_ctl (xs x) /\
             x_leaked x' = x_leaked x.
Proof.
  revert x. induction xsched as [|l rest IH]; intros x E; cbn [xrun]; [eauto|].
  destruct l as [l|b]; cbn [xstep].
  - destruct (exhausted_step cf l _ E) as (s1 & H1 & E1 & C1). rewrite H1. cbn [obind].
    destruct (IH (mkX s1 (x_leaked x)) E1) as (x' & H' & E' & C' & L'). exists x'.
    cbn [xs x_leaked] in *. split; [exact H'|]. split; [exact E'|]. split; [|exact L'].
    now rewrite C'.
  - unfold g_fail_late. pose proof E as (_ & _ & _ & _ & Hg & _). rewrite Hg. cbn [obind].
    now apply IH.
Qed.

(** ** the counter-model: reserve, then fail, nothing releases the key *)
Definition leak_sched (built : bool) : list xlabel :=
  [XL G_reserve; X_fail_late built; XL G_reserve; X_fail_late built].
(** one failure after the reservation, two creations, two callbacks *)
Definition leak_sched_one (built : bool) : list xlabel :=
  [XL G_reserve; X_fail_late built;
   XL A_start; XL A_remove; XL A_add;
   XL G_reserve; XL G_drain_done; XL G_push;
   XL A_start; XL A_remove; XL A_add; XL A_add;
   XL G_reserve; XL G_drain_done; XL G_push].

Lemma reserve_then_fail_refuted_proof :
  forall sr pb : bool,
    let cf := mkCfg sr pb 2 in
    (* one failed creation: the count says 1 although nothing was created; after ONE successful creation
       the storage of capacity 2 is full, the next creation gets the limit error *)
    (exists x, xrun cf [XL G_reserve; X_fail_late pb] (xinit cf) = Ok x /\
               length (x_leaked x) = 1 /\ st_g (xs x) = GIdle /\
               aorder (st_ar (xs x)) = [] /\ st_newq (xs x) = [] /\ st_log (xs x) = [] /\
               res_len (xs x) = 1 /\
               res_len (xs x) <> length (aorder (st_ar (xs x))) + length (st_newq (xs x))
                                 + length (gres (st_g (xs x)))) /\
    (exists x, xrun cf (leak_sched_one pb) (xinit cf) = Ok x /\
               length (aorder (st_ar (xs x))) = 1 /\ st_newq (xs x) = [] /\ st_g (xs x) = GIdle /\
               length (st_log (xs x)) = 1 /\ st_callbacks (xs x) = 2 /\
               res_len (xs x) = 2 /\ res_try_reserve (st_ctl (xs x)) = Ok ArenaFull) /\
    (* as many failures as the storage has slots: empty, and full for ever *)
    (exists x, xrun cf (leak_sched pb) (xinit cf) = Ok x /\
               length (x_leaked x) = 2 /\ st_log (xs x) = [] /\ res_len (xs x) = 2 /\
               forall xsched, exists x', xrun cf xsched x = Ok x' /\
                 aorder (st_ar (xs x')) = [] /\ st_newq (xs x') = [] /\ st_g (xs x') = GIdle /\
                 res_len (xs x') = 2 /\ res_try_reserve (st_ctl (xs x')) = Ok ArenaFull).
Proof.
  intros sr pb cf. split; [|split].
  - destruct sr, pb; eexists; (split; [vm_compute; reflexivity|]); vm_compute; repeat split; auto; discriminate.
  - destruct sr, pb; eexists; (split; [vm_compute; reflexivity|]); vm_compute; repeat split; auto.
  - assert (H : exists x, xrun cf (leak_sched pb) (xinit cf) = Ok x /\ length (x_leaked x) = 2 /\
                          st_log (xs x) = [] /\ res_len (xs x) = 2 /\ exhausted (xs x)).
    { destruct sr, pb; eexists; (split; [vm_compute; reflexivity|]); vm_compute;
        repeat split; auto; discriminate. }
    destruct H as (x & Hr & Hl & Hlog & Hlen & E). exists x. repeat split; auto.
    intro xsched. destruct (exhausted_xrun cf xsched x E) as (x' & Hr' & E' & C' & _).
    exists x'. split; auto.
    pose proof (exhausted_try_reserve _ E') as Ht.
    destruct E' as (_ & _ & Ho & Hq & Hg & _). repeat split; auto.
    unfold res_len in *. now rewrite C'.
Qed.

(** ** non-vacuity: a run with failed creations of both kinds, on a storage of capacity 1 *)
Definition ex_fail_cf : cfg := mkCfg false true 1.
Definition ex_fail_sched : list label :=
  [G_fail false; G_fail true; G_reserve; G_drain_done; G_push; G_fail true;
   A_start; A_remove; A_add; A_add; G_fail false; G_reserve].

Lemma ex_failed_creations :
  exists s, run ex_fail_cf ex_fail_sched (init ex_fail_cf) = Ok s /\
            res_len s = 1 /\ st_created s = 1 /\ st_removed s = 0 /\
            resolve s (mkKey 0 0) = Ok (Some 1) /\
            st_destroyed s = [(3, Gameplay); (2, Gameplay); (0, Gameplay)] /\
            res_try_reserve (st_ctl s) = Ok ArenaFull /\
            no_late (map XL ex_fail_sched).
Proof.
  eexists. split; [vm_compute; reflexivity|]. repeat split; try (vm_compute; reflexivity).
  intros b Hin. apply in_map_iff in Hin as (l & E & _). discriminate.
Qed.

(** ** the gameplay-side end of the storage is gone (the handle that owns the [ResourceController] was
    dropped while the storage lives on: a [persist_until_sounds_finish] track whose sounds are still
    playing, a parent track kept alive by a child): from then on only the audio thread and the environment
    (sounds finishing, handles of the resources being dropped) take steps *)
Definition consumer_gone (sched : list label) : Prop :=
  forall l, In l sched -> thread_of l = Audio \/ exists p, l = G_mark p.

Lemma abandoned_owner_parks_payloads_proof :
  forall cf sched1 s1 sched2,
    run cf sched1 (init cf) = Ok s1 -> consumer_gone sched2 ->
    exists s2, run cf sched2 s1 = Ok s2 /\
               st_destroyed s2 = st_destroyed s1 /\ st_next s2 = st_next s1 /\
               length (st_unused s2) + length (infl (st_inflight s2)) <= unused_cap cf /\
               Permutation (seq 0 (st_next s2))
                 (map snd (st_newq s2) ++ slot_payloads (aslots (st_ar s2))
                    ++ (st_unused s2 ++ infl (st_inflight s2)) ++ map fst (st_destroyed s2)).
Proof.
  intros cf sched1 s1 sched2 H1 Hg. destruct (reach _ _ _ H1) as [I1 Q1]. unfold Inv in I1.
  assert (G : forall sched s, InvL cf s [] -> QInv cf s -> consumer_gone sched ->
              exists s2, run cf sched s = Ok s2 /\ InvL cf s2 [] /\ QInv cf s2 /\
                         st_destroyed s2 = st_destroyed s /\ st_next s2 = st_next s).
  { induction sched as [|l rest IH]; intros s I Q Hc; cbn [run]; [eauto 6|].
    destruct (step_ok cf l s I Q) as (s' & E & I' & Q'). rewrite E. cbn [obind].
    assert (F : st_destroyed s' = st_destroyed s /\ st_next s' = st_next s).
    { destruct (Hc l (or_introl eq_refl)) as [Ha|[p ->]].
      - exact (audio_step_frame cf l s s' I Ha E).
      - cbn [step] in E. unfold g_mark in E.
        destruct ((p <? st_next s) && negb (is_marked s p)); inversion E; subst; auto. }
    destruct (IH s' I' Q') as (s2 & R & I2 & Q2 & D & N).
    { intros l' Hl'. apply Hc. now right. }
    exists s2. destruct F as [F1 F2]. split; [exact R|]. split; [exact I2|]. split; [exact Q2|].
    split; [now rewrite D|now rewrite N]. }
  destruct (G sched2 s1 I1 Q1 Hg) as (s2 & R & I2 & Q2 & D & N).
  exists s2. repeat split; auto.
  - unfold QInv in Q2. unfold unused_cap. lia.
  - apply (i_cons _ _ _ I2).
Qed.
