(** C08 — entry points of the correspondence check (model side).

    A case is a history of API-level operations on ONE storage (one resource kind of one manager or
    track) executed sequentially: every [OCreate] runs the gameplay thread's steps of
    [try_reserve; insert_with_key] to completion, every [OCallback] runs the audio thread's
    [remove_and_add] to completion.  [OCreateFailing late built] is a creation attempt that fails:
    [late = false] — the fallible part runs before [try_reserve] ([into_sound] returns [Err] or unwinds:
    [built = false]; an effect of a sub-track unwinds out of [init]: [built = true]), step [G_fail];
    [late = true] — user code unwinds with the key reserved ([ModulatorBuilder::build]: [built = false];
    [Effect::init] of a send track's effect: [built = true]): [G_reserve] then [X_fail_late] of the
    extension.  [mask] selects which observables the harness could observe for the resource kind at hand
    (bits below). *)
From Coq Require Import ZArith List Bool Arith.
From KV Require Import Base.Outcome Base.Corr C08.Model.
Import ListNotations.

Inductive op := OCreate | OMark (p : Z) | OCallback | OCreateFailing (late built : bool)
(** the owner of the storage (a parent track) is paused (0), resumed (1), told to resume at a clock time
    that never comes (2): nothing to do with the storage — no step, no observable *)
| OParent (what : Z)
(** the handle that owns the gameplay side of the storage is dropped while the storage lives on: no step
    either; the count and the capacity can no longer be asked for *)
| OAbandon
(** resource [p] is given something to do through its handle ([what]: a tween that takes a minute, one that
    starts in a minute, one that waits for a clock time that never comes, a short one; a tweener's [set], an
    LFO's / clock's / listener's / track's parameter, a track's fade-out): the storage never looks at what a
    resource is doing — the removal test of [remove_and_add] is the handle's flag ([G_mark]) alone — so:
    no step, no observable *)
| OBusy (p what : Z).

Inductive case :=
| CHist (selfref prebuild : bool) (cap : Z) (mask : Z) (ops : list op)
(** a raw schedule of step labels (0 G_reserve, 1 G_drain_one, 2 G_drain_done, 3 G_push, 4 A_start,
    5 A_remove, 6 A_add, 7 A_push, 8 G_fail false, 9 G_fail true, 100 + p: G_mark p); observable: summary
    of the final state *)
| CSched (selfref prebuild : bool) (cap : Z) (labels : list Z).

(** mask bits *)
Definition M_KEY : Z := 1.       (* (index, generation) of the id returned by a successful create *)
Definition M_LEN : Z := 2.       (* num_* after every operation *)
Definition M_DROPS : Z := 4.     (* payloads destroyed during every operation, with the thread *)
Definition M_ORDER : Z := 8.     (* arena iteration order at every callback *)
Definition M_KEYS : Z := 16.     (* insertion order ([keys]) at every callback *)
Definition M_IDENT : Z := 32.    (* resolution of ids distinguishes own / foreign payload *)
Definition M_RESOLVE : Z := 64.  (* resolution of every id ever returned, at every callback *)
Definition M_CAP : Z := 128.     (* *_capacity *)
Definition has (mask bit : Z) : bool := negb (Z.eqb (Z.land mask bit) 0).

Definition zn (n : nat) : Z := Z.of_nat n.

Definition create_sched (s : state) : list label :=
  G_reserve :: repeat G_drain_one (length (st_unused s)) ++ [G_drain_done; G_push].
Definition callback_sched (cf : cfg) (s : state) : list label :=
  A_start :: concat (repeat [A_remove; A_push]
                             (S (if selfref cf then length (st_keys s) else length (aorder (st_ar s)))))
          ++ repeat A_add (S (length (st_newq s))).

(** payloads destroyed between [s0] and [s1], oldest first *)
Definition new_drops (s0 s1 : state) : list Z :=
  let d := rev (firstn (length (st_destroyed s1) - length (st_destroyed s0)) (st_destroyed s1)) in
  zn (length d) :: flat_map (fun '(p, t) => [zn p; match t with Gameplay => 0%Z | Audio => 1%Z end]) d.

Definition suffix (mask : Z) (s0 s1 : state) : list Z :=
  (if has mask M_LEN then [zn (res_len s1)] else [])
  ++ (if has mask M_DROPS then new_drops s0 s1 else []).

Definition payload_at (s : state) (k : key) : Z :=
  match arena_get (st_ar s) k with Ok (Some p) => zn p | _ => (-1)%Z end.

Definition resolve_obs (mask : Z) (s : state) : list Z :=
  map (fun '(p, k) =>
         match resolve s k with
         | Ok (Some q) => if has mask M_IDENT then (if Nat.eqb q p then 1%Z else 2%Z) else 1%Z
         | Ok None => 0%Z
         | _ => 3%Z
         end) (rev (st_log s)).

Definition callback_obs (mask : Z) (s : state) : list Z :=
  (if has mask M_ORDER then
     let l := map (payload_at s) (arena_keys (st_ar s)) in zn (length l) :: l else [])
  ++ (if has mask M_KEYS then
        let l := map (payload_at s) (st_keys s) in zn (length l) :: l else [])
  ++ (if has mask M_RESOLVE then resolve_obs mask s else []).

Fixpoint run_ops (cf : cfg) (mask : Z) (ops : list op) (s : state) : list Z :=
  match ops with
  | [] => []
  | OCreate :: rest =>
      match run cf (create_sched s) s with
      | Ok s1 =>
          (if length (st_log s1) =? length (st_log s) then [1%Z]
           else 0%Z :: (if has mask M_KEY then
                          match st_log s1 with
                          | (_, k) :: _ => [zn (kidx k); zn (kgen k)]
                          | [] => [] end
                        else []))
          ++ suffix mask s s1 ++ run_ops cf mask rest s1
      | Panic w =>
          (* every modelled panic of the create path happens before shared state is touched; a
             payload that was already built is dropped by the unwinding caller *)
          let s1 := if prebuild cf then reject_payload s else s in
          [2%Z; panic_code w] ++ suffix mask s s1 ++ run_ops cf mask rest s1
      | Hang => [3%Z]
      end
  | OMark p :: rest =>
      match run cf [G_mark (Z.to_nat p)] s with
      | Ok s1 => suffix mask s s1 ++ run_ops cf mask rest s1
      | _ => [3%Z]
      end
  | OCreateFailing late built :: rest =>
      (* 4: the attempt failed the intended way; 1: the limit error came first (key reserved first, storage
         full: the user code never ran) *)
      let sched := if late then [XL G_reserve; X_fail_late built] else [XL (G_fail built)] in
      match xrun cf sched (mkX s []) with
      | Ok x =>
          let s1 := xs x in
          (if late && negb (length (x_leaked x) =? 1) then [1%Z] else [4%Z])
          ++ suffix mask s s1 ++ run_ops cf mask rest s1
      | Panic w => [2%Z; panic_code w]
      | Hang => [3%Z]
      end
  | OParent _ :: rest => run_ops cf mask rest s
  | OBusy _ _ :: rest => run_ops cf mask rest s
  | OAbandon :: rest =>
      run_ops cf (Z.land mask (Z.lnot (Z.lor M_LEN M_CAP))) rest s
  | OCallback :: rest =>
      match run cf (callback_sched cf s) s with
      | Ok s1 => 0%Z :: callback_obs mask s1 ++ suffix mask s s1 ++ run_ops cf mask rest s1
      | Panic w => [2%Z; panic_code w]
      | Hang => [3%Z]
      end
  end.

Definition label_of_Z (z : Z) : label :=
  match z with
  | 0 => G_reserve | 1 => G_drain_one | 2 => G_drain_done | 3 => G_push
  | 4 => A_start | 5 => A_remove | 6 => A_add | 7 => A_push
  | 8 => G_fail false | 9 => G_fail true
  | _ => G_mark (Z.to_nat (z - 100))
  end%Z.

Definition all_gameplay (s : state) : bool :=
  forallb (fun '(_, t) => match t with Gameplay => true | Audio => false end) (st_destroyed s).

(** what the harness can observe at the end of a schedule it replayed with the yield hook: the
    reported count, the number of successful creates, of completed callbacks, of destroyed payloads,
    and whether all of them were destroyed by the gameplay thread *)
Definition summary (s : state) : list Z :=
  [zn (res_len s); zn (st_created s); zn (st_callbacks s); zn (length (st_destroyed s));
   if all_gameplay s then 1%Z else 0%Z].

Definition run (c : case) : list Z :=
  match c with
  | CHist sr pb cp mask ops =>
      let cf := mkCfg sr pb (Z.to_nat cp) in
      let s := init cf in
      (if has mask M_CAP then [zn (res_capacity s)] else []) ++ run_ops cf mask ops s
  | CSched sr pb cp labels =>
      let cf := mkCfg sr pb (Z.to_nat cp) in
      encode_outcome summary (Model.run cf (map label_of_Z labels) (init cf))
  end.
