(** C08 — property theorems.  This file contains nothing but statements closed by [exact].

    The model is that of the repaired tree (/repo 1316c08: capacity 0 answers the limit error;
    38abf69: the unused-resource ring has capacity + 1 slots).

    Vocabulary (Model.v): [cfg] = storage variant + capacity (ANY capacity, 0 included);
    [run cf sched s] executes a schedule, i.e. ANY list of atomic steps of the gameplay thread
    (G_reserve, G_drain_one, G_drain_done, G_push, G_mark p, and G_fail built: a creation whose fallible
    part — [SoundData::into_sound], the effects' [init] of a sub-track — fails BEFORE the reservation, as
    the code orders things: call-site table in Model.v) and of the audio thread (A_start,
    A_remove, A_push, A_add) in ANY interleaving; so every theorem below about "ALL schedules" covers
    histories with failed creations; [resolve s k] is what id [k] resolves to in the
    arena ([Arena::get]); [res_len] is what [num_*] reports; [res_try_reserve] is
    [ResourceController::try_reserve].  ProofsInv.v: the structural invariant [Inv] (= [InvL] with an
    empty list of leaked slots) and the queue bound [QInv]; ProofsProps.v: [gone s k] = the slot of [k] has been freed since [k] was handed
    out. *)
From Coq Require Import Arith List Bool Permutation ZArith.
From KV Require Import Base.Outcome C08.Model C08.ProofsBase C08.ProofsInv C08.ProofsRun C08.ProofsProps
  C08.ProofsFail.
From KV Require C08.Run C08.ProofsBusy.
Import ListNotations.

(** For every capacity, both storage variants and EVERY schedule: no step panics — "unused resource
    producer is full", "new resource producer full", "error inserting resource" and every index
    panic are unreachable — and [Inv] and [QInv] hold in the state reached:
    alive + in-new-queue + reserved <= capacity; unused + in-flight + alive + new (+1 between the
    drain and the push) <= capacity + 1 (the size of the unused-ring); the free list threaded through
    the slots is duplicate-free and lists exactly the free slots; arena and controller generations
    agree; every payload is in exactly one place. *)
Theorem res_invariant :
  forall (cf : cfg) (sched : list label),
    exists s, run cf sched (init cf) = Ok s /\ Inv cf s /\ QInv cf s.
Proof. exact res_invariant_proof. Qed.

(** The invariant is inductive: every step of either thread from ANY state satisfying it succeeds
    and re-establishes it. *)
Theorem res_invariant_inductive :
  forall (cf : cfg) (l : label) (s : state),
    Inv cf s -> QInv cf s ->
    exists s', step cf l s = Ok s' /\ Inv cf s' /\ QInv cf s'.
Proof. exact step_ok_base. Qed.

(** The [is_full] guard of [SelfReferentialResourceStorage::remove_unused] never cuts a removal pass
    short (and [ResourceStorage]'s push never fails): whenever the audio thread is about to inspect a
    key, the unused-ring has room. *)
Theorem is_full_guard_never_fires :
  forall cf sched s k rest,
    run cf sched (init cf) = Ok s -> st_a s = ARemoving (k :: rest) ->
    ring_is_full (unused_cap cf) (st_unused s) = false.
Proof. exact is_full_guard_never_fires_proof. Qed.

(** Exact capacity accounting in every reachable state, for ALL schedules and ALL capacities: the
    reported capacity is the configured one; the reported count is alive + queued + reserved = keys
    handed out - slots freed, and never exceeds the capacity; [try_reserve] succeeds (with a free
    slot) exactly when the count is below the capacity and otherwise returns the limit error — it
    never panics. *)
Theorem capacity_exact :
  forall cf sched s,
    run cf sched (init cf) = Ok s ->
    res_capacity s = cap cf /\
    res_len s = length (aorder (st_ar s)) + length (st_newq s) + length (gres (st_g s)) /\
    res_len s + st_removed s = st_created s /\
    res_len s <= cap cf /\
    (res_len s < cap cf ->
       exists k c', res_try_reserve (st_ctl s) = Ok (Reserved k c') /\
                    kidx k < cap cf /\ cfree (cs s (kidx k)) = true) /\
    (res_len s = cap cf -> res_try_reserve (st_ctl s) = Ok ArenaFull).
Proof. exact capacity_exact_proof. Qed.

(** Prompt removal, for ALL schedules: a resource that is marked and resolves at a moment when the
    audio thread is between callbacks no longer resolves, and its slot has been freed, in every
    state reached after the next callback's [remove_and_add] has completed — whatever the gameplay
    thread does meanwhile. *)
Theorem prompt_removal :
  forall cf sched1 s1 k p sched2 s2,
    run cf sched1 (init cf) = Ok s1 ->
    st_a s1 = AIdle -> resolve s1 k = Ok (Some p) -> In p (st_marked s1) ->
    run cf sched2 s1 = Ok s2 -> st_callbacks s1 < st_callbacks s2 ->
    resolve s2 k = Ok None /\ gone s2 k.
Proof. exact prompt_removal_proof. Qed.

(** … and a resource marked while still in the new-queue is inserted by the callback in progress or
    the next one, and removed by the one after. *)
Theorem prompt_removal_queued :
  forall cf sched1 s1 k p sched2 s2,
    run cf sched1 (init cf) = Ok s1 ->
    In (k, p) (st_newq s1) -> In p (st_marked s1) ->
    run cf sched2 s1 = Ok s2 ->
    (st_callbacks s1 + 1 <= st_callbacks s2 -> resolve s2 k = Ok (Some p) \/ gone s2 k) /\
    (st_callbacks s1 + 2 <= st_callbacks s2 -> resolve s2 k = Ok None /\ gone s2 k).
Proof. exact prompt_removal_queued_proof. Qed.

(** In every state reached by ANY schedule: payloads have been destroyed on the gameplay (caller's)
    thread only, each at most once; every payload ever built is in exactly one of: new-queue, arena,
    unused-ring, in flight, destroyed; and no audio-thread step destroys (or builds) a payload.
    (By [res_invariant] no step fails, so no unwinding drops anything either.) *)
Theorem destroyed_on_caller :
  forall cf sched s,
    run cf sched (init cf) = Ok s ->
    (forall p t, In (p, t) (st_destroyed s) -> t = Gameplay) /\
    NoDup (map fst (st_destroyed s)) /\
    Permutation (seq 0 (st_next s))
                (map snd (st_newq s) ++ slot_payloads (aslots (st_ar s))
                     ++ (st_unused s ++ infl (st_inflight s)) ++ map fst (st_destroyed s)) /\
    (forall l s', thread_of l = Audio -> step cf l s = Ok s' ->
                  st_destroyed s' = st_destroyed s /\ st_next s' = st_next s).
Proof. exact destroyed_on_caller_proof. Qed.

(** No stale ids, for ALL schedules: an id resolves only to the payload that was pushed with exactly
    that id; an id names at most one payload; once the slot of an id has been freed the id never
    resolves again, in any continuation (also after the slot is reused); an issued id that neither
    resolves nor is still queued has been freed; and a key handed out by [try_reserve] differs from
    every key ever issued before (a reused slot carries a larger generation). *)
Theorem no_stale_ids :
  forall cf sched s,
    run cf sched (init cf) = Ok s ->
    (forall k p, resolve s k = Ok (Some p) -> In (p, k) (st_log s)) /\
    (forall p p' k, In (p, k) (st_log s) -> In (p', k) (st_log s) -> p = p') /\
    (forall k, kidx k < cap cf -> gone s k ->
               forall sched2 s2, run cf sched2 s = Ok s2 -> resolve s2 k = Ok None /\ gone s2 k) /\
    (forall k p, In (p, k) (st_log s) -> resolve s k = Ok None -> ~ In (k, p) (st_newq s) -> gone s k) /\
    (forall k c', res_try_reserve (st_ctl s) = Ok (Reserved k c') -> forall p, ~ In (p, k) (st_log s)).
Proof. exact no_stale_ids_proof. Qed.

(** Non-vacuity: reachable states meeting the hypotheses of [prompt_removal] and
    [prompt_removal_queued], and an interleaved run in which a slot is reused (the old id stays
    dead, the new id resolves to the new payload, the old payload was destroyed by the gameplay
    thread, the storage is full and [try_reserve] answers with the limit error). *)
Theorem example_present :
  exists s1, run ex_cf ex_sched_present (init ex_cf) = Ok s1 /\ st_a s1 = AIdle /\
             resolve s1 (mkKey 0 0) = Ok (Some 0) /\ In 0 (st_marked s1).
Proof. exact ex_present. Qed.

Theorem example_queued :
  exists s1, run ex_cf ex_sched_queued (init ex_cf) = Ok s1 /\
             In (mkKey 0 0, 0) (st_newq s1) /\ In 0 (st_marked s1).
Proof. exact ex_queued. Qed.

Theorem example_reuse :
  exists s, run ex_cf ex_sched_reuse (init ex_cf) = Ok s /\
            gone s (mkKey 0 0) /\ resolve s (mkKey 0 0) = Ok None /\
            resolve s (mkKey 0 1) = Ok (Some 2) /\ resolve s (mkKey 1 0) = Ok (Some 1) /\
            st_destroyed s = [(0, Gameplay)] /\ res_len s = 2 /\
            res_try_reserve (st_ctl s) = Ok ArenaFull.
Proof. exact ex_reuse. Qed.

(** Regression, F27 (was [unused_full_refuted] / [prompt_removal_refuted]): the schedule in which a
    whole create runs between the audio thread's arena removal and its push into the unused-ring,
    capacity 1, both storage variants — the last callback now removes resource 1 (it no longer
    resolves, the count is 0) and both payloads wait in the unused-ring for the caller. *)
Theorem f27_regression :
  forall sr pb : bool,
    let cf := mkCfg sr pb 1 in
    exists s1 s2,
      run cf f27_prefix (init cf) = Ok s1 /\ st_a s1 = AIdle /\
      resolve s1 (mkKey 0 1) = Ok (Some 1) /\ In 1 (st_marked s1) /\ st_unused s1 = [0] /\
      run cf f27_callback s1 = Ok s2 /\
      st_callbacks s1 < st_callbacks s2 /\ st_a s2 = AIdle /\
      resolve s2 (mkKey 0 1) = Ok None /\ st_unused s2 = [0; 1] /\ st_destroyed s2 = [] /\
      res_len s2 = 0.
Proof. exact f27_regression_proof. Qed.

(** Regression, F2 (was [capacity_zero_refuted]): capacity 0 answers with the limit error. *)
Theorem capacity_zero_regression :
  forall sr pb : bool,
    let cf := mkCfg sr pb 0 in
    res_try_reserve (st_ctl (init cf)) = Ok ArenaFull /\
    exists s, run cf [G_reserve; G_drain_done; G_push; A_start; A_remove; A_add; A_add] (init cf) = Ok s /\
              st_g s = GIdle /\ res_len s = 0 /\ st_created s = 0 /\
              st_destroyed s = (if pb then [(0, Gameplay)] else []).
Proof. exact capacity_zero_regression_proof. Qed.

(** A creation that fails before the reservation ([into_sound] returns [Err]; a sub-track's effect
    unwinds out of [init]) never panics the model and consumes NOTHING, from ANY state (reachable or
    not) and in any interleaving position: the controller (free list, flags, generations), the arena,
    both rings, both program counters and the created / removed counters are exactly as before the
    attempt, hence so are the reported count and capacity, the answer of the next [try_reserve], and
    what every id resolves to.  The only trace is the payload the caller had already built (sub-tracks),
    dropped on the caller's thread.  Together with [capacity_exact] (whose schedules include [G_fail]):
    count = alive + queued + reserved, where "reserved" is the one creation in progress. *)
Theorem failed_creation_no_effect :
  forall (cf : cfg) (built : bool) (s : state),
    exists s', step cf (G_fail built) s = Ok s' /\
      st_ctl s' = st_ctl s /\
      st_ar s' = st_ar s /\ st_keys s' = st_keys s /\ st_newq s' = st_newq s /\
      st_unused s' = st_unused s /\ st_inflight s' = st_inflight s /\ st_marked s' = st_marked s /\
      st_g s' = st_g s /\ st_a s' = st_a s /\
      st_created s' = st_created s /\ st_removed s' = st_removed s /\
      st_callbacks s' = st_callbacks s /\ st_log s' = st_log s /\
      res_len s' = res_len s /\ res_capacity s' = res_capacity s /\
      res_try_reserve (st_ctl s') = res_try_reserve (st_ctl s) /\
      (forall k, resolve s' k = resolve s k) /\
      ((built = false -> s' = s) /\
       ((st_next s' = st_next s /\ st_destroyed s' = st_destroyed s) \/
        (built = true /\ prebuild cf = true /\ st_g s = GIdle /\
         st_next s' = S (st_next s) /\ st_destroyed s' = (st_next s, Gameplay) :: st_destroyed s))).
Proof. exact failed_creation_no_effect_proof. Qed.

(** ANY schedule with failed [into_sound]s, from ANY state, has exactly the outcome (final state or
    panic) of the schedule with those attempts erased. *)
Theorem failed_creations_erasable :
  forall (cf : cfg) (sched : list label) (s : state),
    run cf sched s = run cf (filter (fun l => negb (is_plain_failure l)) sched) s.
Proof. exact failed_creations_erasable_proof. Qed.

(** The extended system (Model.v, end: [X_fail_late] = the creation is abandoned AFTER [try_reserve],
    nothing gives the key back) restricted to schedules WITHOUT such a step is the base system: it never
    panics, nothing leaks, and the accounting is exact. *)
Theorem no_leak_without_late_failure :
  forall (cf : cfg) (xsched : list xlabel),
    no_late xsched ->
    exists x, xrun cf xsched (xinit cf) = Ok x /\ x_leaked x = [] /\
              run cf (base_labels xsched) (init cf) = Ok (xs x) /\
              res_len (xs x) = length (aorder (st_ar (xs x))) + length (st_newq (xs x))
                               + length (gres (st_g (xs x))) /\
              res_len (xs x) + st_removed (xs x) = st_created (xs x) /\
              (res_len (xs x) < cap cf ->
                 exists k c', res_try_reserve (st_ctl (xs x)) = Ok (Reserved k c')) /\
              (res_len (xs x) = cap cf -> res_try_reserve (st_ctl (xs x)) = Ok ArenaFull).
Proof. exact no_leak_without_late_failure_proof. Qed.

(** Exact accounting for ALL schedules of the extended system, failures after the reservation included
    (any number of them, anywhere, in any interleaving with the audio thread): no step panics (no ring
    overflows, no insertion fails); every such failure costs exactly ONE slot, for good — the count is
    alive + queued + reserved-in-progress + leaked, it still equals keys handed out - slots freed and
    never exceeds the capacity; [try_reserve] succeeds exactly when that count is below the capacity;
    the leaked slots are distinct, never free, never in the arena and never in the new-queue (the audio
    thread cannot see them, so no callback gives them back).  With [x_leaked = []] this is
    [capacity_exact]. *)
Theorem leak_accounting :
  forall (cf : cfg) (xsched : list xlabel),
    exists x, xrun cf xsched (xinit cf) = Ok x /\
      res_capacity (xs x) = cap cf /\
      res_len (xs x) = length (aorder (st_ar (xs x))) + length (st_newq (xs x))
                       + length (gres (st_g (xs x))) + length (x_leaked x) /\
      res_len (xs x) + st_removed (xs x) = st_created (xs x) /\
      res_len (xs x) <= cap cf /\
      (res_len (xs x) < cap cf ->
         exists k c', res_try_reserve (st_ctl (xs x)) = Ok (Reserved k c') /\
                      kidx k < cap cf /\ cfree (cs (xs x) (kidx k)) = true) /\
      (res_len (xs x) = cap cf -> res_try_reserve (st_ctl (xs x)) = Ok ArenaFull) /\
      NoDup (map kidx (x_leaked x)) /\
      (forall k, In k (x_leaked x) ->
                 kidx k < cap cf /\ cfree (cs (xs x) (kidx k)) = false /\
                 ~ In (kidx k) (aorder (st_ar (xs x))) /\ (forall p, ~ In (k, p) (st_newq (xs x)))).
Proof. exact leak_accounting_proof. Qed.

(** Counter-model (class: a step [X_fail_late] in the schedule, i.e. reserve-then-fail without release;
    this is what the seeded change "reserve before [into_sound]" makes of every failed [play], and what
    the unchanged code does when user code unwinds between [try_reserve] and the push — table in
    Model.v).  Capacity 2, both storage variants.  (1) One failure: nothing alive, queued or in progress,
    no resource was ever created, yet the count is 1 — the accounting equation of [capacity_exact] is
    false.  (2) One failure, then creations and callbacks: after ONE successful creation the storage is
    full.  (3) Two failures: the EMPTY storage reports 2 and refuses every creation in EVERY
    continuation — callbacks never repair it. *)
Theorem reserve_then_fail_refuted :
  forall sr pb : bool,
    let cf := mkCfg sr pb 2 in
    (exists x, xrun cf [XL G_reserve; X_fail_late pb] (xinit cf) = Ok x /\
               length (x_leaked x) = 1 /\ st_g (xs x) = GIdle /\
               aorder (st_ar (xs x)) = [] /\ st_newq (xs x) = [] /\ st_log (xs x) = [] /\
               res_len (xs x) = 1 /\
               res_len (xs x) <> length (aorder (st_ar (xs x))) + length (st_newq (xs x))
                                 + length (gres (st_g (xs x)))) /\
    (exists x, xrun cf (leak_sched_one pb) (xinit cf) = Ok x /\
               length (aorder (st_ar (xs x))) = 1 /\ st_newq (xs x) = [] /\ st_g (xs x) = GIdle /\
               length (st_log (xs x)) = 1 /\ st_callbacks (xs x) = 2 /\
               res_len (xs x) = 2 /\ res_try_reserve (st_ctl (xs x)) = Ok ArenaFull) /\
    (exists x, xrun cf (leak_sched pb) (xinit cf) = Ok x /\
               length (x_leaked x) = 2 /\ st_log (xs x) = [] /\ res_len (xs x) = 2 /\
               forall xsched, exists x', xrun cf xsched x = Ok x' /\
                 aorder (st_ar (xs x')) = [] /\ st_newq (xs x') = [] /\ st_g (xs x') = GIdle /\
                 res_len (xs x') = 2 /\ res_try_reserve (st_ctl (xs x')) = Ok ArenaFull).
Proof. exact reserve_then_fail_refuted_proof. Qed.

(** Non-vacuity of the theorems about failed creations: a run on a storage of capacity 1 with an
    [into_sound] failure, two creations that fail with a payload already built, one successful creation
    and one rejected by the limit — one resource is counted and resolves, the three other payloads were
    dropped by the caller, and the schedule (lifted) meets the hypothesis of
    [no_leak_without_late_failure]. *)
Theorem example_failed_creations :
  exists s, run ex_fail_cf ex_fail_sched (init ex_fail_cf) = Ok s /\
            res_len s = 1 /\ st_created s = 1 /\ st_removed s = 0 /\
            resolve s (mkKey 0 0) = Ok (Some 1) /\
            st_destroyed s = [(3, Gameplay); (2, Gameplay); (0, Gameplay)] /\
            res_try_reserve (st_ctl s) = Ok ArenaFull /\
            no_late (map XL ex_fail_sched).
Proof. exact ex_failed_creations. Qed.

(** The gameplay-side end of a storage is gone (its owner's handle was dropped while the storage lives
    on: a [persist_until_sounds_finish] track with sounds still playing, a parent track kept alive by a
    child), i.e. from some point on only the audio thread and the environment take steps, in ANY order and
    for ever: nothing panics — the unused-ring (capacity + 1 slots) never overflows although nobody drains
    it, because no creation follows —, every removal still happens ([prompt_removal] does not need the
    gameplay thread), and NO payload is destroyed: everything removed is parked in the ring (or in flight)
    until the storage's owner is itself destroyed, by whoever destroys it (a caller's thread, by this same
    theorem one level up). *)
Theorem abandoned_owner_parks_payloads :
  forall cf sched1 s1 sched2,
    run cf sched1 (init cf) = Ok s1 -> consumer_gone sched2 ->
    exists s2, run cf sched2 s1 = Ok s2 /\
               st_destroyed s2 = st_destroyed s1 /\ st_next s2 = st_next s1 /\
               length (st_unused s2) + length (infl (st_inflight s2)) <= unused_cap cf /\
               Permutation (seq 0 (st_next s2))
                 (map snd (st_newq s2) ++ slot_payloads (aslots (st_ar s2))
                    ++ (st_unused s2 ++ infl (st_inflight s2)) ++ map fst (st_destroyed s2)).
Proof. exact abandoned_owner_parks_payloads_proof. Qed.

(** What a resource is DOING plays no part in its life cycle.  [OBusy p what] (Run.v) = resource [p] is given
    something to do through its handle (a tweener's [set] with a tween that takes a minute, or one that
    waits for a clock time that never comes; a track's fade-out; a clock's / listener's / LFO's parameter
    tween).  In the function the implementation is compared with ([Run.run_ops]: keys, counts, limit
    errors, what every id resolves to at every callback, destructions and their thread) a history and the
    same history with every [OBusy] erased have the same observables, from ANY state and under ANY mask:
    the removal test is the flag set by the handle's [Drop] alone, so [prompt_removal] and
    [capacity_exact] hold for a resource in the middle of a tween exactly as for an idle one
    (seeded/C08-dropped-tweener-waits-for-its-tween is an implementation for which they do not). *)
Theorem busy_is_no_step :
  forall (cf : cfg) (ops : list C08.Run.op) (mask : Z) (s : state),
    C08.Run.run_ops cf mask ops s
    = C08.Run.run_ops cf mask (filter (fun o => negb (C08.ProofsBusy.is_busy o)) ops) s.
Proof. exact C08.ProofsBusy.busy_is_no_step_proof. Qed.

(** Non-vacuity, and the shape of the seeded demo on a storage of capacity 1 (mask: id, count, resolution,
    capacity): create, pick-up, a 60 s tween, a callback, the handle is dropped, ONE callback — the id
    resolves to nothing and the count is 0 —, and the next creation gets the slot with a new generation. *)
Theorem example_busy :
  C08.Run.run (C08.Run.CHist true false 1 227 C08.ProofsBusy.ex_busy_ops)
  = C08.Run.run (C08.Run.CHist true false 1 227 (C08.ProofsBusy.erase_busy C08.ProofsBusy.ex_busy_ops)) /\
  C08.Run.run (C08.Run.CHist true false 1 227 C08.ProofsBusy.ex_busy_ops)
  = [1; 0; 0; 0; 1; 0; 1; 1; 0; 1; 1; 1; 0; 0; 0; 0; 0; 1; 1]%Z.
Proof. exact C08.ProofsBusy.ex_busy_proof. Qed.
