(** C08 — property theorems.  This file contains nothing but statements closed by [exact].

    Vocabulary (Model.v): [cfg] = storage variant + capacity; [run cf sched s] executes a schedule,
    i.e. ANY list of atomic steps of the gameplay thread (G_reserve, G_drain_one, G_drain_done,
    G_push, G_mark p) and of the audio thread (A_start, A_remove, A_push, A_add) in ANY interleaving;
    [resolve s k] is what id [k] resolves to in the arena ([Arena::get]); [res_len] is what
    [num_*] reports; [ctl_try_reserve] is [try_reserve].  ProofsInv.v: the structural invariant
    [Inv] and the queue bound [QInv]; ProofsRun.v: [racy] / [race_free] — a schedule is race-free if
    the gameplay thread's drain never observes the unused-ring empty ([G_drain_done]) while the audio
    thread holds a payload it has already removed from the arena but not yet pushed (finding F22);
    ProofsProps.v: [gone s k] = the slot of [k] has been freed since [k] was handed out. *)
From Coq Require Import Arith List Bool Permutation.
From KV Require Import Base.Outcome C08.Model C08.ProofsBase C08.ProofsInv C08.ProofsRun C08.ProofsProps.
Import ListNotations.

(** For every capacity >= 1, both storage variants and EVERY race-free schedule: no step panics —
    "unused resource producer is full", "new resource producer full", "error inserting resource" and
    every index panic are unreachable — and [Inv] and [QInv] hold in the state reached:
    alive + in-new-queue + reserved <= capacity; unused + in-flight + alive + new (+1 between the drain
    and the push) <= capacity; the free list threaded through the slots is duplicate-free and lists
    exactly the free slots; arena and controller generations agree; every payload is in exactly one
    place. *)
Theorem res_invariant :
  forall (cf : cfg) (sched : list label),
    1 <= cap cf -> race_free cf sched (init cf) ->
    exists s, run cf sched (init cf) = Ok s /\ Inv cf s /\ QInv cf s.
Proof. exact res_invariant_proof. Qed.

(** For EVERY schedule (racy or not) the structural invariant holds in every state reached … *)
Theorem res_invariant_all_schedules :
  forall (cf : cfg) (sched : list label) (s : state),
    1 <= cap cf -> run cf sched (init cf) = Ok s -> Inv cf s.
Proof. exact res_invariant_core_proof. Qed.

(** … and from a state satisfying it the ONLY step that can fail is the audio thread's push into the
    unused-ring, with "unused resource producer is full" (so the new-queue never overflows,
    [insert_with_key] never fails, no index is ever out of bounds — for all interleavings). *)
Theorem only_unused_push_can_panic :
  forall (cf : cfg) (l : label) (s : state),
    Inv cf s ->
    (exists s', step cf l s = Ok s' /\ Inv cf s') \/ (l = A_push /\ step cf l s = Panic QueueFull).
Proof. exact step_cases. Qed.

(** Both invariants together are inductive for every step that is not the race. *)
Theorem res_invariant_inductive :
  forall (cf : cfg) (l : label) (s : state),
    Inv cf s -> QInv cf s -> ~ racy l s ->
    exists s', step cf l s = Ok s' /\ Inv cf s' /\ QInv cf s'.
Proof. exact step_ok. Qed.

(** F22: with the race the audio thread panics "unused resource producer is full" (capacity 1,
    sounds / tracks; the witness schedule is not race-free). *)
Theorem unused_full_refuted :
  run (mkCfg false true 1) f22_sched (init (mkCfg false true 1)) = Panic QueueFull /\
  ~ race_free (mkCfg false true 1) f22_sched (init (mkCfg false true 1)).
Proof. exact unused_full_refuted_proof. Qed.

(** Exact capacity accounting in every reachable state, for ALL schedules: the reported capacity is
    the configured one; the reported count is alive + queued + reserved = keys handed out - slots
    freed, and never exceeds the capacity; [try_reserve] succeeds (with a free slot) exactly when the
    count is below the capacity and otherwise returns the limit error — it never panics. *)
Theorem capacity_exact :
  forall cf sched s,
    1 <= cap cf -> run cf sched (init cf) = Ok s ->
    res_capacity s = cap cf /\
    res_len s = length (aorder (st_ar s)) + length (st_newq s) + length (gres (st_g s)) /\
    res_len s + st_removed s = st_created s /\
    res_len s <= cap cf /\
    (res_len s < cap cf ->
       exists k c', ctl_try_reserve (st_ctl s) = Ok (Reserved k c') /\
                    kidx k < cap cf /\ cfree (cs s (kidx k)) = true) /\
    (res_len s = cap cf -> ctl_try_reserve (st_ctl s) = Ok ArenaFull).
Proof. exact capacity_exact_proof. Qed.

(** Capacity 0 (F2): the very first [try_reserve] panics with an index out of bounds. *)
Theorem capacity_zero_refuted :
  forall sr pb : bool, run (mkCfg sr pb 0) [G_reserve] (init (mkCfg sr pb 0)) = Panic OutOfBounds.
Proof. exact capacity_zero_refuted_proof. Qed.

(** Prompt removal (race-free schedules): a resource that is marked and resolves at a moment when
    the audio thread is between callbacks no longer resolves, and its slot has been freed, in every
    state reached after the next callback's [remove_and_add] has completed — whatever the gameplay
    thread does meanwhile. *)
Theorem prompt_removal :
  forall cf sched1 s1 k p sched2 s2,
    1 <= cap cf ->
    race_free cf sched1 (init cf) -> run cf sched1 (init cf) = Ok s1 ->
    st_a s1 = AIdle -> resolve s1 k = Ok (Some p) -> In p (st_marked s1) ->
    race_free cf sched2 s1 -> run cf sched2 s1 = Ok s2 -> st_callbacks s1 < st_callbacks s2 ->
    resolve s2 k = Ok None /\ gone s2 k.
Proof. exact prompt_removal_proof. Qed.

(** … and a resource marked while still in the new-queue is inserted by the callback in progress or
    the next one, and removed by the one after. *)
Theorem prompt_removal_queued :
  forall cf sched1 s1 k p sched2 s2,
    1 <= cap cf ->
    race_free cf sched1 (init cf) -> run cf sched1 (init cf) = Ok s1 ->
    In (k, p) (st_newq s1) -> In p (st_marked s1) ->
    race_free cf sched2 s1 -> run cf sched2 s1 = Ok s2 ->
    (st_callbacks s1 + 1 <= st_callbacks s2 -> resolve s2 k = Ok (Some p) \/ gone s2 k) /\
    (st_callbacks s1 + 2 <= st_callbacks s2 -> resolve s2 k = Ok None /\ gone s2 k).
Proof. exact prompt_removal_queued_proof. Qed.

(** F22, clocks / modulators / listeners: after the race the storage does not panic but stops
    removing — a marked resource present at the start of a callback is still there after it. *)
Theorem prompt_removal_refuted :
  let cf := mkCfg true false 1 in
  exists s1 s2,
    run cf f22_prefix (init cf) = Ok s1 /\ st_a s1 = AIdle /\
    resolve s1 (mkKey 0 1) = Ok (Some 1) /\ In 1 (st_marked s1) /\
    run cf [A_start; A_remove; A_push; A_add; A_add] s1 = Ok s2 /\
    st_callbacks s1 < st_callbacks s2 /\ st_a s2 = AIdle /\
    resolve s2 (mkKey 0 1) = Ok (Some 1).
Proof. exact prompt_removal_refuted_proof. Qed.

(** In every state reached by ANY schedule: payloads have been destroyed on the gameplay (caller's)
    thread only, each at most once; every payload ever built is in exactly one of: new-queue, arena,
    unused-ring, in flight, destroyed; and no successful audio-thread step destroys (or builds) a
    payload.  (The one failing audio step, the panic of F22, unwinds through the [PushError] that
    holds the payload: that payload IS dropped on the audio thread; see [unused_full_refuted].) *)
Theorem destroyed_on_caller :
  forall cf sched s,
    1 <= cap cf -> run cf sched (init cf) = Ok s ->
    (forall p t, In (p, t) (st_destroyed s) -> t = Gameplay) /\
    NoDup (map fst (st_destroyed s)) /\
    Permutation (seq 0 (st_next s))
                (map snd (st_newq s) ++ slot_payloads (aslots (st_ar s))
                     ++ (st_unused s ++ infl (st_inflight s)) ++ map fst (st_destroyed s)) /\
    (forall l s', thread_of l = Audio -> step cf l s = Ok s' ->
                  st_destroyed s' = st_destroyed s /\ st_next s' = st_next s).
Proof. exact destroyed_on_caller_proof. Qed.

(** No stale ids, for ALL schedules: an id resolves only to the payload that was pushed with exactly
    that id; an id names at most one payload; once the slot of an id has been freed the id never
    resolves again, in any continuation (also after the slot is reused); an issued id that neither
    resolves nor is still queued has been freed; and a key handed out by [try_reserve] differs from
    every key ever issued before (a reused slot carries a larger generation). *)
Theorem no_stale_ids :
  forall cf sched s,
    1 <= cap cf -> run cf sched (init cf) = Ok s ->
    (forall k p, resolve s k = Ok (Some p) -> In (p, k) (st_log s)) /\
    (forall p p' k, In (p, k) (st_log s) -> In (p', k) (st_log s) -> p = p') /\
    (forall k, kidx k < cap cf -> gone s k ->
               forall sched2 s2, run cf sched2 s = Ok s2 -> resolve s2 k = Ok None /\ gone s2 k) /\
    (forall k p, In (p, k) (st_log s) -> resolve s k = Ok None -> ~ In (k, p) (st_newq s) -> gone s k) /\
    (forall k c', ctl_try_reserve (st_ctl s) = Ok (Reserved k c') -> forall p, ~ In (p, k) (st_log s)).
Proof. exact no_stale_ids_proof. Qed.

(** Non-vacuity: race-free schedules reaching states that meet the hypotheses of [prompt_removal]
    and [prompt_removal_queued], and an interleaved race-free run in which a slot is reused (the old
    id stays dead, the new id resolves to the new payload, the old payload was destroyed by the
    gameplay thread, the storage is full and [try_reserve] answers with the limit error). *)
Theorem example_present :
  race_free ex_cf ex_sched_present (init ex_cf) /\
  exists s1, run ex_cf ex_sched_present (init ex_cf) = Ok s1 /\ st_a s1 = AIdle /\
             resolve s1 (mkKey 0 0) = Ok (Some 0) /\ In 0 (st_marked s1).
Proof. exact (conj ex_present_rf ex_present). Qed.

Theorem example_queued :
  race_free ex_cf ex_sched_queued (init ex_cf) /\
  exists s1, run ex_cf ex_sched_queued (init ex_cf) = Ok s1 /\
             In (mkKey 0 0, 0) (st_newq s1) /\ In 0 (st_marked s1).
Proof. exact (conj ex_queued_rf ex_queued). Qed.

Theorem example_reuse :
  race_free ex_cf ex_sched_reuse (init ex_cf) /\
  exists s, run ex_cf ex_sched_reuse (init ex_cf) = Ok s /\
            gone s (mkKey 0 0) /\ resolve s (mkKey 0 0) = Ok None /\
            resolve s (mkKey 0 1) = Ok (Some 2) /\ resolve s (mkKey 1 0) = Ok (Some 1) /\
            st_destroyed s = [(0, Gameplay)] /\ res_len s = 2 /\
            ctl_try_reserve (st_ctl s) = Ok ArenaFull.
Proof. exact (conj ex_reuse_rf ex_reuse). Qed.
