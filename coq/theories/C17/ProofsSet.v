(** C17 — the tweener's command histories ([ModelX.v]): a [set] that is read replaces WHATEVER was
    there (idle, pending, running) by a transition from the present value -- also when the target
    IS the present value --; a pending transition holds the value; a running one follows the tween
    law for every partition of time, lands on the target exactly and holds it.  The structural
    part is for any number type (bit-for-bit for binary64); the law is exact rational arithmetic. *)
From Coq Require Import ZArith QArith Qround Qabs Qreduction Lia Lqa Bool List.
From KV Require Import Base.Outcome Base.Num Base.QLemmas C19.Model C17.Model C17.ModelX
  C17.ProofsLfo C17.ProofsTween.
Import ListNotations.

(** *** any number type *)
Section SetAny.
  Context {T : Type} {NT : Num T}.
  Variable powf : T -> T -> T.
  Variable secs_to_ns : T -> Z.
  Variable ns_to_secs : Z -> T.
  Let upd := xtweener_update powf secs_to_ns ns_to_secs.
  Let run := xrun powf secs_to_ns ns_to_secs (@xtweener_set T NT).

  (** the state before a [set] is irrelevant but for the present value *)
  Lemma xset_forgets (t : xtweener T) v tw :
    xtweener_set t v tw = xtweener_set (xtweener_new (x_value t)) v tw.
  Proof. reflexivity. Qed.

  Lemma xrun_app set (a b : list (xev T)) t :
    xrun powf secs_to_ns ns_to_secs set (a ++ b) t =
    xrun powf secs_to_ns ns_to_secs set b (xrun powf secs_to_ns ns_to_secs set a t).
  Proof. unfold xrun. apply fold_left_app. Qed.

  (** ... in every history: what happens from a [set] on does not depend on the commands and
      updates before it, only on the value they left *)
  Lemma set_supersedes_proof (before after : list (xev T)) v tw (t0 : xtweener T) :
    run (before ++ XSet v tw :: after) t0 =
    run (XSet v tw :: after) (xtweener_new (x_value (run before t0))).
  Proof. unfold run. rewrite xrun_app. reflexivity. Qed.

  (** the same for the values a probe sees *)
  Lemma xtrace_app set (a b : list (xev T)) : forall t,
    xtrace powf secs_to_ns ns_to_secs set (a ++ b) t =
    xtrace powf secs_to_ns ns_to_secs set a t ++
    xtrace powf secs_to_ns ns_to_secs set b (xrun powf secs_to_ns ns_to_secs set a t).
  Proof.
    induction a as [|e a IH]; intro t; cbn [app xtrace xrun fold_left]; [reflexivity|].
    destruct e; cbn [xstep]; rewrite IH; reflexivity.
  Qed.
  Lemma set_supersedes_trace_proof (before after : list (xev T)) v tw (t0 : xtweener T) :
    xtrace powf secs_to_ns ns_to_secs (@xtweener_set T NT) (before ++ XSet v tw :: after) t0 =
    xtrace powf secs_to_ns ns_to_secs (@xtweener_set T NT) before t0 ++
    xtrace powf secs_to_ns ns_to_secs (@xtweener_set T NT) (XSet v tw :: after)
      (xtweener_new (x_value (run before t0))).
  Proof. rewrite xtrace_app. reflexivity. Qed.

  (** one update of a transition that has not started: nothing moves but the start time *)
  Lemma xpending_step v0 v1 time tw value dt ci :
    fst (xstart_step secs_to_ns dt ci (xt_start tw)) = false ->
    upd dt ci {| x_state := XTweening v0 v1 time tw; x_value := value |} =
    {| x_state := XTweening v0 v1 time (xset_start tw (snd (xstart_step secs_to_ns dt ci (xt_start tw))));
       x_value := value |}.
  Proof.
    intro H. unfold upd, xtweener_update. cbn [x_state x_value].
    destruct (xstart_step secs_to_ns dt ci (xt_start tw)) as [s st']. cbn [fst snd] in *. subst s.
    reflexivity.
  Qed.

  (** the finishing branch: the value is the target itself (no arithmetic), the state idle *)
  Lemma xfinish_exact_proof v0 v1 time tw value dt ci :
    fst (xstart_step secs_to_ns dt ci (xt_start tw)) = true ->
    nleb (ns_to_secs (xt_dur tw)) (nadd time dt) = true ->
    upd dt ci {| x_state := XTweening v0 v1 time tw; x_value := value |} =
    {| x_state := XIdle; x_value := v1 |}.
  Proof.
    intros H F. unfold upd, xtweener_update. cbn [x_state x_value].
    destruct (xstart_step secs_to_ns dt ci (xt_start tw)) as [s st']. cbn [fst] in H. subst s.
    cbn [negb]. rewrite F. reflexivity.
  Qed.

  (** an idle tweener never moves, whatever the clocks do *)
  Definition only_updates (evs : list (xev T)) : Prop :=
    Forall (fun e => match e with XUpd _ _ => True | XSet _ _ => False end) evs.
  Lemma xidle_holds_proof (evs : list (xev T)) : forall v,
    only_updates evs ->
    run evs {| x_state := XIdle; x_value := v |} = {| x_state := XIdle; x_value := v |}.
  Proof.
    induction evs as [|e evs IH]; intros v H; [reflexivity|].
    inversion H as [|? ? He Hr]; subst. destruct e as [|dt ci]; [contradiction|].
    unfold run, xrun. cbn [fold_left xstep]. unfold xtweener_update. cbn [x_state].
    apply IH. exact Hr.
  Qed.

  (** the early-return reading differs from [set] exactly on a non-idle tweener whose value is
      the target *)
  Lemma early_differs_proof (t : xtweener T) v tw :
    neqb v (x_value t) = true -> x_state t <> XIdle ->
    xtweener_set_early t v tw = t /\ x_state (xtweener_set t v tw) = XTweening (x_value t) v n0 tw.
  Proof. intros E _. unfold xtweener_set_early. rewrite E. split; reflexivity. Qed.
End SetAny.

(** *** the law, in exact arithmetic *)
Local Open Scope Q_scope.
Section SetQ.
  Variable powf : Q -> Q -> Q.
  Variable secs_to_ns : Q -> Z.
  Variable ns_to_secs : Z -> Q.
  Let upd := xtweener_update powf secs_to_ns ns_to_secs.
  Let run := xrun powf secs_to_ns ns_to_secs (@xtweener_set Q _).
  Definition xupds (us : list (Q * cinfo Q)) : list (xev Q) := map (fun u => XUpd (fst u) (snd u)) us.

  (** [Some st']: every update of [us] finds the transition NOT started, and leaves start time [st'] *)
  Fixpoint pending (st : xstart Q) (us : list (Q * cinfo Q)) : option (xstart Q) :=
    match us with
    | [] => Some st
    | u :: us' =>
        let r := xstart_step secs_to_ns (fst u) (snd u) st in
        if fst r then None else pending (snd r) us'
    end.
  (** every update of [us] finds the transition started *)
  Definition started_all (st : xstart Q) (us : list (Q * cinfo Q)) : Prop :=
    Forall (fun u => xstart_step secs_to_ns (fst u) (snd u) st = (true, st)) us.

  Lemma pending_run us : forall st st' v0 v1 time dur e value,
    pending st us = Some st' ->
    run (xupds us) {| x_state := XTweening v0 v1 time {| xt_start := st; xt_dur := dur; xt_easing := e |};
                      x_value := value |} =
    {| x_state := XTweening v0 v1 time {| xt_start := st'; xt_dur := dur; xt_easing := e |};
       x_value := value |}.
  Proof.
    induction us as [|u us IH]; intros st st' v0 v1 time dur e value H.
    - cbn [pending] in H. inversion H. reflexivity.
    - cbn [pending] in H.
      destruct (fst (xstart_step secs_to_ns (fst u) (snd u) st)) eqn:E; [discriminate|].
      unfold run, xrun. cbn [xupds map fold_left xstep].
      pose proof (xpending_step powf secs_to_ns ns_to_secs v0 v1 time
                    {| xt_start := st; xt_dur := dur; xt_easing := e |} value (fst u) (snd u) E) as P.
      cbn [xt_start] in P. rewrite P. unfold xset_start. cbn [xt_dur xt_easing].
      apply (IH _ _ v0 v1 time dur e value H).
  Qed.

  Lemma xstep_started v0 v1 time st dur e value dt ci :
    xstart_step secs_to_ns dt ci st = (true, st) ->
    let tw := {| xt_start := st; xt_dur := dur; xt_easing := e |} in
    upd dt ci {| x_state := XTweening v0 v1 time tw; x_value := value |} =
    if nleb (ns_to_secs dur) (nadd time dt) then {| x_state := XIdle; x_value := v1 |}
    else {| x_state := XTweening v0 v1 (nadd time dt) tw;
            x_value := lerp v0 v1 (xtween_value powf ns_to_secs tw (nadd time dt)) |}.
  Proof.
    intro H. cbv zeta. unfold upd, xtweener_update. cbn [x_state xt_start xt_dur x_value].
    rewrite H. cbn [negb]. unfold xset_start. cbn [xt_dur xt_easing]. reflexivity.
  Qed.

  Lemma xidle_stays us v :
    run (xupds us) {| x_state := XIdle; x_value := v |} = {| x_state := XIdle; x_value := v |}.
  Proof.
    apply xidle_holds_proof. unfold only_updates, xupds. apply Forall_forall. intros x Hx.
    apply in_map_iff in Hx. destruct Hx as (u & <- & _). exact I.
  Qed.

  Lemma xrunning us : forall v0 v1 time st dur e value,
    started_all st us -> all_nonneg (map fst us) -> us <> [] ->
    let tw := {| xt_start := st; xt_dur := dur; xt_easing := e |} in
    let d := ns_to_secs dur in
    let el := elapsed time (map fst us) in
    let t := run (xupds us) {| x_state := XTweening v0 v1 time tw; x_value := value |} in
    (el < d -> x_state t = XTweening v0 v1 el tw /\
               x_value t = lerp v0 v1 (xtween_value powf ns_to_secs tw el)) /\
    (d <= el -> x_state t = XIdle /\ x_value t = v1).
  Proof.
    induction us as [|u us IH]; intros v0 v1 time st dur e value Hst Hnn Hne; [congruence|].
    inversion Hst as [|? ? Hu Hrest]; subst.
    cbn [map] in Hnn. inversion Hnn as [|? ? Hdt Hnn']; subst.
    cbv zeta. cbn [map elapsed fold_left].
    change (fold_left nadd (map fst us) ?x) with (elapsed x (map fst us)).
    unfold run, xrun. cbn [xupds map fold_left xstep].
    change (fold_left (xstep powf secs_to_ns ns_to_secs (@xtweener_set Q _)) (map (fun u => XUpd (fst u) (snd u)) us) ?x)
      with (run (xupds us) x).
    pose proof (xstep_started v0 v1 time st dur e value (fst u) (snd u) Hu) as S. cbv zeta in S.
    unfold upd in S. rewrite S.
    destruct (nleb (ns_to_secs dur) (nadd time (fst u))) eqn:Efin.
    - rewrite xidle_stays. cbn [x_state x_value].
      apply Qle_bool_true in Efin.
      pose proof (elapsed_mono (map fst us) (nadd time (fst u)) Hnn') as M.
      split; [intro; lra | intros _; split; reflexivity].
    - apply Qle_bool_false in Efin.
      destruct us as [|u2 us].
      + cbn [xupds map run xrun fold_left elapsed x_state x_value].
        split; [intros _; split; reflexivity | intro; lra].
      + apply (IH v0 v1 (nadd time (fst u)) st dur e _ Hrest Hnn'). congruence.
  Qed.

  (** *** from the moment a [set] is read, for EVERY earlier state [t0]: *)
  Lemma xtweener_command_law_proof (t0 : xtweener Q) v st st' dur e ws us :
    pending st ws = Some st' -> started_all st' us -> all_nonneg (map fst us) ->
    let tw := {| xt_start := st; xt_dur := dur; xt_easing := e |} in
    let tw' := {| xt_start := st'; xt_dur := dur; xt_easing := e |} in
    let d := ns_to_secs dur in
    let t1 := run (XSet v tw :: xupds ws) t0 in
    (* while pending: the value it had, and the OLD transition is gone *)
    x_value t1 = x_value t0 /\ x_state t1 = XTweening (x_value t0) v n0 tw' /\
    (us <> [] ->
     let el := Qred (Qsum (map fst us)) in
     let t2 := run (xupds us) t1 in
     (el < d -> x_value t2 = lerp (x_value t0) v (ease powf e (ndiv el d))) /\
     (d <= el -> x_value t2 = v /\ x_state t2 = XIdle /\
                 forall more, x_value (run (xupds more) t2) = v)).
  Proof.
    intros Hp Hs Hnn. cbv zeta.
    assert (E1 : run (XSet v {| xt_start := st; xt_dur := dur; xt_easing := e |} :: xupds ws) t0 =
                 {| x_state := XTweening (x_value t0) v n0 {| xt_start := st'; xt_dur := dur; xt_easing := e |};
                    x_value := x_value t0 |}).
    { unfold run, xrun. cbn [fold_left xstep]. unfold xtweener_set.
      apply (pending_run ws st st' (x_value t0) v n0 dur e (x_value t0) Hp). }
    rewrite E1. cbn [x_value x_state]. split; [reflexivity|]. split; [reflexivity|].
    intro Hne.
    pose proof (xrunning us (x_value t0) v n0 st' dur e (x_value t0) Hs Hnn Hne) as R. cbv zeta in R.
    assert (Eel : elapsed n0 (map fst us) = Qred (Qsum (map fst us))).
    { rewrite elapsed_canonical by (destruct us; [congruence|discriminate]).
      apply Qred_complete. rewrite q0. ring. }
    rewrite Eel in R. destruct R as [R1 R2]. split.
    - intro H. destruct (R1 H) as [_ Vv]. exact Vv.
    - intro H. destruct (R2 H) as [S Vv]. split; [exact Vv|]. split; [exact S|]. intro more.
      destruct (run (xupds us) _) as [s x] eqn:ET. cbn [x_state x_value] in *. subst s x.
      rewrite xidle_stays. reflexivity.
  Qed.
End SetQ.
