(** C17 — executable model of kira's modulators and of parameters linked to them.
    Transcribed from crates/kira/src/{modulator/lfo.rs, modulator/lfo/builder.rs,
    modulator/tweener.rs, parameter.rs, value.rs, info.rs (modulator_value),
    backend/resources.rs (SelfReferentialResourceStorage::for_each),
    backend/resources/modulators.rs, backend/resources/clocks.rs, clock.rs (Clock::update),
    backend/renderer.rs (process, process_chunk)}.
    Generic over [Num]: the binary64 instance is compared bit-for-bit with the implementation,
    the rational instance carries the theorems.  libm ([sin], [powf]) and the two
    [std::time::Duration] conversions are arguments of the model. *)
From Coq Require Import ZArith List Bool.
From KV Require Import Base.Outcome Base.Num C19.Model.
Import ListNotations.
Local Open Scope Z_scope.

Section Generic.
  Context {T : Type} {NT : Num T}.
  Variable tau : T.                 (* std::f64::consts::TAU *)
  Variable sin : T -> T.            (* f64::sin (libm) *)
  Variable powf : T -> T -> T.      (* f64::powf (libm) *)
  Variable secs_to_ns : T -> Z.     (* Duration::from_secs_f64(dt), in nanoseconds *)
  Variable ns_to_secs : Z -> T.     (* Duration::as_secs_f64 *)

  (** [f64::abs]: clears the sign bit *)
  Definition nabs (x : T) : T := if nsignneg x then nneg x else x.
  Definition n4 : T := nofZ 4.
  Definition n075 : T := ndiv (nofZ 3) n4.      (* 0.75, exact *)
  Definition nm1 : T := nneg n1.                 (* -1.0 *)

  (** ** modulator/lfo.rs: [Waveform::value] *)
  Inductive waveform := Sine | Triangle | Saw | Pulse (width : T).
  Definition wave_value (w : waveform) (phase : T) : T :=
    match w with
    | Sine => sin (nmul phase tau)
    | Triangle => nsub (nmul (nabs (nsub (nfract (nadd phase n075)) nhalf)) n4) n1
    | Saw => nsub (nmul (nfract (nadd phase nhalf)) n2) n1
    | Pulse width => if nltb phase width then n1 else nm1
    end.

  (** ** value.rs, tween.rs, start_time.rs *)
  Inductive value := VFixed (v : T) | VFromMod (id : Z) (m : mapping T).
  Inductive start_time := Immediate | Delayed (ns : Z).
  Record tween := { tw_start : start_time; tw_dur : Z; tw_easing : easing T }.
  Definition set_start (tw : tween) (st : start_time) : tween :=
    {| tw_start := st; tw_dur := tw_dur tw; tw_easing := tw_easing tw |}.

  (** [Value::raw_value]: [info.modulator_value(id).map(|v| mapping.map(v))] *)
  Definition raw_value (lookup : Z -> option T) (v : value) : option T :=
    match v with
    | VFixed x => Some x
    | VFromMod id m => option_map (map_value powf m) (lookup id)
    end.
  (** [Tween::value]: [easing.apply(time / duration.as_secs_f64())] *)
  Definition tween_value (tw : tween) (time : T) : T :=
    ease powf (tw_easing tw) (ndiv time (ns_to_secs (tw_dur tw))).

  (** the [started] computation shared by [Parameter::update_tween] and [Tweener::update]:
      a [Delayed] start counts down and reports "started" only at an update that finds zero *)
  Definition start_step (dt : T) (st : start_time) : bool * start_time :=
    match st with
    | Immediate => (true, Immediate)
    | Delayed r => if r =? 0 then (true, Delayed r)
                   else (false, Delayed (Z.max 0 (r - secs_to_ns dt)))
    end.

  (** ** parameter.rs: [Parameter<f64>] *)
  Inductive pstate := PIdle (v : value) | PTween (start : T) (target : value) (time : T) (tw : tween).
  Record param := { p_state : pstate; p_raw : T; p_stagnant : bool }.
  Definition is_fixed (v : value) : bool := match v with VFixed _ => true | _ => false end.
  Definition param_new (v : value) (default : T) : param :=
    {| p_state := PIdle v; p_raw := match v with VFixed x => x | _ => default end;
       p_stagnant := is_fixed v |}.
  Definition param_set (p : param) (target : value) (tw : tween) : param :=
    {| p_state := PTween (p_raw p) target n0 tw; p_raw := p_raw p; p_stagnant := false |}.
  Definition param_update_tween (dt : T) (p : param) : param :=
    match p_state p with
    | PIdle _ => p
    | PTween s target time tw =>
        let '(started, st') := start_step dt (tw_start tw) in
        let tw' := set_start tw st' in
        if negb started then {| p_state := PTween s target time tw'; p_raw := p_raw p; p_stagnant := p_stagnant p |}
        else
          let time' := nadd time dt in
          if nleb (ns_to_secs (tw_dur tw)) time'
          then {| p_state := PIdle target; p_raw := p_raw p; p_stagnant := is_fixed target || p_stagnant p |}
          else {| p_state := PTween s target time' tw'; p_raw := p_raw p; p_stagnant := p_stagnant p |}
    end.
  Definition param_new_raw (lookup : Z -> option T) (p : param) : option T :=
    match p_state p with
    | PIdle v => raw_value lookup v
    | PTween s target time tw =>
        if tw_dur tw =? 0 then None
        else option_map (fun t => lerp s t (tween_value tw time)) (raw_value lookup target)
    end.
  (** [Parameter::update]: a value that does not resolve ([None]) leaves [raw_value] alone *)
  Definition param_update (dt : T) (lookup : Z -> option T) (p : param) : param :=
    if p_stagnant p then p
    else
      let p1 := param_update_tween dt p in
      match param_new_raw lookup p1 with
      | Some v => {| p_state := p_state p1; p_raw := v; p_stagnant := p_stagnant p1 |}
      | None => p1
      end.

  (** ** modulator/lfo.rs: [Lfo] *)
  Record lfo := { l_wave : waveform; l_freq : param; l_amp : param; l_off : param; l_phase : T; l_value : T }.
  (** [Lfo::new]: default raw values 2.0 / 1.0 / 0.0, [phase = starting_phase / TAU], [value = 0.0] *)
  Definition lfo_new (w : waveform) (f a o : value) (starting_phase : T) : lfo :=
    {| l_wave := w; l_freq := param_new f n2; l_amp := param_new a n1; l_off := param_new o n0;
       l_phase := ndiv starting_phase tau; l_value := n0 |}.
  (** [f64::rem_euclid(1.0)]: [let r = self % 1.0; if r < 0.0 { r + 1.0 } else { r }] *)
  Definition nrem_euclid1 (x : T) : T :=
    let r := nrem1 x in
    if nltb r n0 then nadd r n1 else r.
  (** the arithmetic of [Lfo::update] once the three parameters have their values:
      [phase += dt * frequency; phase = phase.rem_euclid(1.0); value = offset + amplitude * wave] *)
  Definition lfo_step (w : waveform) (dt f a o phase : T) : T * T :=
    let ph := nrem_euclid1 (nadd phase (nmul dt f)) in
    (ph, nadd o (nmul a (wave_value w ph))).
  Definition lfo_update (dt : T) (lookup : Z -> option T) (l : lfo) : lfo :=
    let f := param_update dt lookup (l_freq l) in
    let a := param_update dt lookup (l_amp l) in
    let o := param_update dt lookup (l_off l) in
    let '(ph, v) := lfo_step (l_wave l) dt (p_raw f) (p_raw a) (p_raw o) (l_phase l) in
    {| l_wave := l_wave l; l_freq := f; l_amp := a; l_off := o; l_phase := ph; l_value := v |}.
  Definition lfo_set_phase (l : lfo) (phase : T) : lfo :=
    {| l_wave := l_wave l; l_freq := l_freq l; l_amp := l_amp l; l_off := l_off l;
       l_phase := ndiv phase tau; l_value := l_value l |}.
  Definition lfo_set_wave (l : lfo) (w : waveform) : lfo :=
    {| l_wave := w; l_freq := l_freq l; l_amp := l_amp l; l_off := l_off l;
       l_phase := l_phase l; l_value := l_value l |}.
  Definition lfo_set_param (l : lfo) (which : Z) (target : value) (tw : tween) : lfo :=
    {| l_wave := l_wave l;
       l_freq := if which =? 0 then param_set (l_freq l) target tw else l_freq l;
       l_amp := if which =? 1 then param_set (l_amp l) target tw else l_amp l;
       l_off := if which =? 2 then param_set (l_off l) target tw else l_off l;
       l_phase := l_phase l; l_value := l_value l |}.

  (** ** modulator/tweener.rs: [Tweener] *)
  Inductive tstate := TIdle | TTweening (v0 v1 : T) (time : T) (tw : tween).
  Record tweener := { t_state : tstate; t_value : T }.
  Definition tweener_new (initial : T) : tweener := {| t_state := TIdle; t_value := initial |}.
  Definition tweener_set (t : tweener) (target : T) (tw : tween) : tweener :=
    {| t_state := TTweening (t_value t) target n0 tw; t_value := t_value t |}.
  Definition tweener_update (dt : T) (t : tweener) : tweener :=
    match t_state t with
    | TIdle => t
    | TTweening v0 v1 time tw =>
        let '(started, st') := start_step dt (tw_start tw) in
        let tw' := set_start tw st' in
        if negb started then {| t_state := TTweening v0 v1 time tw'; t_value := t_value t |}
        else
          let time' := nadd time dt in
          if nleb (ns_to_secs (tw_dur tw)) time' then {| t_state := TIdle; t_value := v1 |}
          else {| t_state := TTweening v0 v1 time' tw'; t_value := lerp v0 v1 (tween_value tw time') |}
    end.

  (** ** the modulators in the arena.  [MProbe] is the harness's own [Modulator] implementation:
      it reads [info.modulator_value(watch)] in [update] and returns its call count as value. *)
  Inductive modulator := MLfo (l : lfo) | MTweener (t : tweener) | MProbe (watch : Z) (count : Z).
  Definition mod_value (m : modulator) : T :=
    match m with MLfo l => l_value l | MTweener t => t_value t | MProbe _ c => nofZ c end.
  Definition mod_update (dt : T) (lookup : Z -> option T) (m : modulator) : modulator :=
    match m with
    | MLfo l => MLfo (lfo_update dt lookup l)
    | MTweener t => MTweener (tweener_update dt t)
    | MProbe w c => MProbe w (c + 1)
    end.
  Definition mod_seen (lookup : Z -> option T) (m : modulator) : option T :=
    match m with MProbe w _ => lookup w | _ => None end.

  (** [info.modulator_value]: arena lookup by id (ids are never reused: a [Key] carries a generation) *)
  Fixpoint lookup_val (vals : list (Z * T)) (id : Z) : option T :=
    match vals with
    | [] => None
    | (k, v) :: rest => if k =? id then Some v else lookup_val rest id
    end.
  Definition vals_of (mods : list (Z * modulator)) : list (Z * T) :=
    map (fun km => (fst km, mod_value (snd km))) mods.

  Inductive event :=
  | EvMod (id : Z) (dt : T) (seen : option T)       (* one [Modulator::update] call *)
  | EvClock (cid : Z) (dt : T)                       (* one [Clock::update] call *)
  | EvProbe (pid : Z) (len : Z) (raw : option T) (v : T)   (* mixer: a probe effect's [process] *)
  | EvProbeClock (pid : Z) (len : Z) (info : option (bool * Z * T)).

  (** [SelfReferentialResourceStorage::for_each] over [keys] (insertion order): the element being
      updated is swapped for the [Default] dummy (value 0.0); the ones before it have already been
      updated in this chunk, the ones after it have not. *)
  Definition view (done : list (Z * modulator)) (self : Z) (todo : list (Z * modulator)) : Z -> option T :=
    lookup_val (vals_of done ++ (self, n0) :: vals_of todo).
  Fixpoint process_mods (dt : T) (done todo : list (Z * modulator)) : list (Z * modulator) * list event :=
    match todo with
    | [] => (done, [])
    | (id, m) :: rest =>
        let look := view done id rest in
        let m' := mod_update dt look m in
        let '(res, evs) := process_mods dt (done ++ [(id, m')]) rest in
        (res, EvMod id dt (mod_seen look m) :: evs)
    end.

  (** ** clock.rs: [Clock::update] with the speed kept in ticks per second *)
  Record clock := { c_speed : param; c_ticking : bool; c_started : bool; c_ticks : Z; c_frac : T }.
  (** [Parameter::new(speed, ClockSpeed::TicksPerMinute(120.0))] then [as_ticks_per_second] *)
  Definition clock_default_tps : T := ndiv (nofZ 120) (nofZ 60).
  Definition clock_new (speed : value) (ticking : bool) : clock :=
    {| c_speed := param_new speed clock_default_tps; c_ticking := ticking; c_started := false;
       c_ticks := 0; c_frac := n0 |}.
  (** [while tick_timer >= 1.0]; fuel exhaustion (a clock that never returns, C05/F7) is marked by
      tick count -1 *)
  Fixpoint tick_loop (fuel : nat) (ticks : Z) (timer : T) : Z * T :=
    match fuel with
    | O => (-1, timer)
    | S f => if nleb n1 timer then tick_loop f (ticks + 1) (nsub timer n1) else (ticks, timer)
    end.
  Definition clock_update (dt : T) (lookup : Z -> option T) (c : clock) : clock :=
    let sp := param_update dt lookup (c_speed c) in
    if negb (c_ticking c) then
      {| c_speed := sp; c_ticking := c_ticking c; c_started := c_started c; c_ticks := c_ticks c; c_frac := c_frac c |}
    else
      let '(tk0, fr0) := if c_started c then (c_ticks c, c_frac c) else (0, n0) in
      let '(tk, fr) := tick_loop 4096 tk0 (nadd fr0 (nmul (p_raw sp) dt)) in
      {| c_speed := sp; c_ticking := true; c_started := true; c_ticks := tk; c_frac := fr |}.
  Fixpoint lookup_clock (cs : list (Z * clock)) (cid : Z) : option clock :=
    match cs with
    | [] => None
    | (k, c) :: rest => if k =? cid then Some c else lookup_clock rest cid
    end.

  (** ** mixer side: the harness's probe effects.  [PrParam] holds a [Parameter<f64>] and records
      [info.modulator_value(watch)] and the parameter's value after [update]; [PrClock] records
      [info.clock_info]. *)
  Inductive probe := PrParam (watch : Z) (p : param) | PrClock (cid : Z).
  Definition probe_update (dt : T) (look : Z -> option T) (pr : probe) : probe :=
    match pr with
    | PrParam w p => PrParam w (param_update dt look p)
    | PrClock cid => PrClock cid
    end.
  Definition probe_event (len : Z) (look : Z -> option T) (clocks : list (Z * clock)) (kp : Z * probe) : event :=
    match snd kp with
    | PrParam w p => EvProbe (fst kp) len (look w) (p_raw p)
    | PrClock cid =>
        EvProbeClock (fst kp) len
          (match lookup_clock clocks cid with
           | Some c => Some (c_ticking c, (if c_started c then c_ticks c else 0), (if c_started c then c_frac c else n0))
           | None => None
           end)
    end.

  (** ** backend/renderer.rs *)
  Record rstate := {
    r_dt : T;                               (* 1.0 / sample_rate as f64 *)
    r_mods : list (Z * modulator);          (* [keys] order = order of [add_modulator] calls *)
    r_new : list (Z * modulator);           (* queued by [add_modulator], not yet in the arena *)
    r_removed : list Z;                     (* handles dropped: [finished()] is true *)
    r_clocks : list (Z * clock);
    r_probes : list (Z * probe);
    r_log : list event;                     (* oldest first *)
  }.

  (** [Renderer::process_chunk]: modulators, then clocks, (listeners,) then the mixer, all with
      [self.dt * num_frames as f64] *)
  Definition process_chunk (st : rstate) (len : Z) : rstate :=
    let dtc := nmul (r_dt st) (nofZ len) in
    let '(mods', ev_mods) := process_mods dtc [] (r_mods st) in
    let look := lookup_val (vals_of mods') in
    let clocks' := map (fun kc => (fst kc, clock_update dtc look (snd kc))) (r_clocks st) in
    let ev_clocks := map (fun kc => EvClock (fst kc) dtc) (r_clocks st) in
    let probes' := map (fun kp => (fst kp, probe_update dtc look (snd kp))) (r_probes st) in
    let ev_probes := map (probe_event len look clocks') probes' in
    {| r_dt := r_dt st; r_mods := mods'; r_new := r_new st; r_removed := r_removed st;
       r_clocks := clocks'; r_probes := probes';
       r_log := r_log st ++ ev_mods ++ ev_clocks ++ ev_probes |}.

  (** [Renderer::process]: [out.chunks_mut(internal_buffer_size * channels)] *)
  Definition chunk_lens (ibs frames : Z) : list Z :=
    repeat ibs (Z.to_nat (frames / ibs)) ++ (if frames mod ibs =? 0 then [] else [frames mod ibs]).
  Definition process (ibs : Z) (st : rstate) (frames : Z) : rstate :=
    fold_left process_chunk (chunk_lens ibs frames) st.

  (** [Modulators::on_start_processing]: [remove_and_add(|m| m.finished())] -- the finished ones
      leave [keys] (order of the others kept), THEN the queued ones are appended; so a modulator
      added and dropped between the same two callbacks still lives for one callback. *)
  Definition zmem (x : Z) (l : list Z) : bool := existsb (Z.eqb x) l.
  Definition start_processing (st : rstate) : rstate :=
    {| r_dt := r_dt st;
       r_mods := filter (fun km => negb (zmem (fst km) (r_removed st))) (r_mods st) ++ r_new st;
       r_new := []; r_removed := r_removed st;
       r_clocks := r_clocks st; r_probes := r_probes st; r_log := r_log st |}.
  Definition callback (ibs : Z) (st : rstate) (frames : Z) : rstate :=
    process ibs (start_processing st) frames.

  (** ** what the user thread does between two callbacks; everything takes effect in the next
      [on_start_processing] (removals first, then additions in order, then the commands) *)
  Inductive op :=
  | OAddMod (id : Z) (m : modulator)
  | ODropMod (id : Z)
  | OSetTweener (id : Z) (target : T) (tw : tween)
  | OSetLfoParam (id which : Z) (target : value) (tw : tween)
  | OSetPhase (id : Z) (phase : T)
  | OSetWave (id : Z) (w : waveform)
  | OAddClock (cid : Z) (c : clock)
  | OAddProbe (pid : Z) (pr : probe)
  | OCallback (frames : Z).

  Definition on_mod (id : Z) (f : modulator -> modulator) (mods : list (Z * modulator)) : list (Z * modulator) :=
    map (fun km => if fst km =? id then (fst km, f (snd km)) else km) mods.
  Definition with_mods (st : rstate) (mods new : list (Z * modulator)) : rstate :=
    {| r_dt := r_dt st; r_mods := mods; r_new := new; r_removed := r_removed st;
       r_clocks := r_clocks st; r_probes := r_probes st; r_log := r_log st |}.
  Definition cmd (st : rstate) (id : Z) (f : modulator -> modulator) : rstate :=
    with_mods st (on_mod id f (r_mods st)) (on_mod id f (r_new st)).
  Definition apply_op (ibs : Z) (st : rstate) (o : op) : rstate :=
    match o with
    | OAddMod id m => with_mods st (r_mods st) (r_new st ++ [(id, m)])
    | ODropMod id =>
        {| r_dt := r_dt st; r_mods := r_mods st; r_new := r_new st; r_removed := id :: r_removed st;
           r_clocks := r_clocks st; r_probes := r_probes st; r_log := r_log st |}
    | OSetTweener id target tw =>
        cmd st id (fun m => match m with MTweener t => MTweener (tweener_set t target tw) | _ => m end)
    | OSetLfoParam id which target tw =>
        cmd st id (fun m => match m with MLfo l => MLfo (lfo_set_param l which target tw) | _ => m end)
    | OSetPhase id phase =>
        cmd st id (fun m => match m with MLfo l => MLfo (lfo_set_phase l phase) | _ => m end)
    | OSetWave id w =>
        cmd st id (fun m => match m with MLfo l => MLfo (lfo_set_wave l w) | _ => m end)
    | OAddClock cid c =>
        {| r_dt := r_dt st; r_mods := r_mods st; r_new := r_new st; r_removed := r_removed st;
           r_clocks := r_clocks st ++ [(cid, c)]; r_probes := r_probes st; r_log := r_log st |}
    | OAddProbe pid pr =>
        {| r_dt := r_dt st; r_mods := r_mods st; r_new := r_new st; r_removed := r_removed st;
           r_clocks := r_clocks st; r_probes := r_probes st ++ [(pid, pr)]; r_log := r_log st |}
    | OCallback frames => callback ibs st frames
    end.
  Definition init_state (sample_rate : Z) : rstate :=
    {| r_dt := ndiv n1 (nofZ sample_rate); r_mods := []; r_new := []; r_removed := [];
       r_clocks := []; r_probes := []; r_log := [] |}.
  Definition run_ops (sample_rate ibs : Z) (ops : list op) : rstate :=
    fold_left (apply_op ibs) ops (init_state sample_rate).
End Generic.

Arguments waveform : clear implicits.
Arguments value : clear implicits.
Arguments tween : clear implicits.
Arguments pstate : clear implicits.
Arguments param : clear implicits.
Arguments lfo : clear implicits.
Arguments tstate : clear implicits.
Arguments tweener : clear implicits.
Arguments modulator : clear implicits.
Arguments event : clear implicits.
Arguments clock : clear implicits.
Arguments probe : clear implicits.
Arguments rstate : clear implicits.
Arguments op : clear implicits.
