(** C17 — the tweener modulator follows the tween law for every partition of time, lands on the
    target exactly, and holds it.  Exact rational arithmetic; libm and the Duration conversions
    are arbitrary functions. *)
From Coq Require Import ZArith QArith Qround Qabs Qreduction Lia Lqa Bool List.
From KV Require Import Base.Outcome Base.Num Base.QLemmas C19.Model C17.Model C17.ProofsLfo.
Import ListNotations.
Local Open Scope Q_scope.

Section Tweener.
  Variable powf : Q -> Q -> Q.
  Variable secs_to_ns : Q -> Z.
  Variable ns_to_secs : Z -> Q.
  Let upd := tweener_update powf secs_to_ns ns_to_secs.

  Definition trun (dts : list Q) (t : tweener Q) : tweener Q := fold_left (fun t dt => upd dt t) dts t.
  (** the time the code accumulates: [time += dt] at every update once started *)
  Definition elapsed (t0 : Q) (dts : list Q) : Q := fold_left (nadd (T:=Q)) dts t0.

  Lemma elapsed_sum dts : forall t0, elapsed t0 dts == t0 + Qsum dts.
  Proof.
    induction dts as [|dt dts IH]; intro t0; cbn [elapsed fold_left Qsum fold_right].
    - ring.
    - change (fold_left nadd dts ?x) with (elapsed x dts). rewrite IH, qadd.
      change (fold_right Qplus 0 dts) with (Qsum dts). ring.
  Qed.
  (** every accumulated time is in canonical form, so it is determined by the SUM of the steps:
      two partitions of the same time give the identical [time] *)
  Lemma elapsed_canonical dts : forall t0, dts <> [] -> elapsed t0 dts = Qred (t0 + Qsum dts).
  Proof.
    induction dts as [|dt dts IH]; intros t0 Hne; [congruence|].
    cbn [elapsed fold_left]. change (fold_left nadd dts ?x) with (elapsed x dts).
    destruct dts as [|dt2 dts].
    - cbn [elapsed fold_left Qsum fold_right]. apply Qred_complete. ring.
    - rewrite IH by congruence. apply Qred_complete. rewrite qadd.
      change (Qsum (dt :: dt2 :: dts)) with (dt + Qsum (dt2 :: dts)). ring.
  Qed.
  Lemma elapsed_mono dts : forall t0, all_nonneg dts -> t0 <= elapsed t0 dts.
  Proof.
    induction dts as [|dt dts IH]; intros t0 H; cbn [elapsed fold_left]; [lra|].
    inversion H as [|? ? Hd Hr]; subst. change (fold_left nadd dts ?x) with (elapsed x dts).
    specialize (IH (nadd t0 dt) Hr). rewrite qadd in IH at 1. lra.
  Qed.

  Lemma idle_stays dts : forall v, trun dts {| t_state := TIdle; t_value := v |} = {| t_state := TIdle; t_value := v |}.
  Proof. induction dts as [|dt dts IH]; intro v; [reflexivity|]. cbn [trun fold_left]. apply IH. Qed.

  Definition start_ready (st : start_time) : Prop := st = Immediate \/ st = Delayed 0.

  Lemma step_ready v0 v1 time st dur e value dt :
    start_ready st ->
    let tw := {| tw_start := st; tw_dur := dur; tw_easing := e |} in
    upd dt {| t_state := TTweening v0 v1 time tw; t_value := value |} =
    if nleb (ns_to_secs dur) (nadd time dt) then {| t_state := TIdle; t_value := v1 |}
    else {| t_state := TTweening v0 v1 (nadd time dt) tw;
            t_value := lerp v0 v1 (tween_value powf ns_to_secs tw (nadd time dt)) |}.
  Proof.
    intro Hst. cbv zeta. unfold upd, tweener_update. cbn [t_state tw_start tw_dur t_value].
    assert (Estep : start_step secs_to_ns dt st = (true, st)).
    { destruct Hst as [-> | ->]; reflexivity. }
    rewrite Estep. cbn [negb]. unfold set_start. cbn [tw_dur tw_easing]. reflexivity.
  Qed.

  Lemma running dts : forall v0 v1 time st dur e value,
    start_ready st -> all_nonneg dts -> dts <> [] ->
    let tw := {| tw_start := st; tw_dur := dur; tw_easing := e |} in
    let d := ns_to_secs dur in
    let t := trun dts {| t_state := TTweening v0 v1 time tw; t_value := value |} in
    (elapsed time dts < d ->
       t_state t = TTweening v0 v1 (elapsed time dts) tw /\
       t_value t = lerp v0 v1 (tween_value powf ns_to_secs tw (elapsed time dts))) /\
    (d <= elapsed time dts -> t_state t = TIdle /\ t_value t = v1).
  Proof.
    induction dts as [|dt dts IH]; intros v0 v1 time st dur e value Hst Hnn Hne; [congruence|].
    inversion Hnn as [|? ? Hdt Hrest]; subst.
    cbv zeta. cbn [trun fold_left elapsed].
    change (fold_left nadd dts ?x) with (elapsed x dts).
    change (fold_left _ dts ?x) with (trun dts x).
    rewrite (step_ready v0 v1 time st dur e value dt Hst).
    destruct (nleb (ns_to_secs dur) (nadd time dt)) eqn:Efin.
    - (* finished at this update *)
      rewrite idle_stays. cbn [t_state t_value].
      apply Qle_bool_true in Efin.
      pose proof (elapsed_mono dts (nadd time dt) Hrest) as M.
      split; [intro; lra | intros _; split; reflexivity].
    - apply Qle_bool_false in Efin.
      destruct dts as [|dt2 dts].
      + cbn [trun fold_left elapsed t_state t_value].
        split; [intros _; split; reflexivity | intro; lra].
      + apply (IH v0 v1 (nadd time dt) st dur e _ Hst Hrest). congruence.
  Qed.

  (** *** the law, from [set] on *)
  Lemma tweener_law_proof (t0 : tweener Q) target st dur e dts :
    start_ready st -> all_nonneg dts -> dts <> [] ->
    let tw := {| tw_start := st; tw_dur := dur; tw_easing := e |} in
    let d := ns_to_secs dur in
    let el := Qred (Qsum dts) in
    let t := trun dts (tweener_set t0 target tw) in
    (el < d -> t_value t = lerp (t_value t0) target (ease powf e (ndiv el d))) /\
    (d <= el -> t_value t = target /\ t_state t = TIdle /\ forall more, t_value (trun more t) = target).
  Proof.
    intros Hst Hnn Hne. cbv zeta. unfold tweener_set.
    pose proof (running dts (t_value t0) target n0 st dur e (t_value t0) Hst Hnn Hne) as R.
    cbv zeta in R.
    assert (Eel : elapsed n0 dts = Qred (Qsum dts)).
    { rewrite elapsed_canonical by assumption. apply Qred_complete. rewrite q0. ring. }
    rewrite Eel in R. destruct R as [R1 R2].
    split.
    - intro H. destruct (R1 H) as [_ V]. exact V.
    - intro H. destruct (R2 H) as [S V]. split; [exact V|]. split; [exact S|].
      intro more.
      destruct (trun dts _) as [s v] eqn:ET. cbn [t_state t_value] in *. subst s v.
      rewrite idle_stays. reflexivity.
  Qed.

  (** a delayed start: while the remaining delay is positive an update only counts it down *)
  Lemma tweener_delayed_waits_proof v0 v1 time r dur e value dt :
    (0 < r)%Z ->
    upd dt {| t_state := TTweening v0 v1 time {| tw_start := Delayed r; tw_dur := dur; tw_easing := e |}; t_value := value |}
    = {| t_state := TTweening v0 v1 time {| tw_start := Delayed (Z.max 0 (r - secs_to_ns dt)); tw_dur := dur; tw_easing := e |};
         t_value := value |}.
  Proof.
    intro H. unfold upd, tweener_update. cbn [t_state tw_start start_step t_value].
    destruct (r =? 0)%Z eqn:E; [apply Z.eqb_eq in E; lia|]. reflexivity.
  Qed.

  (** an idle tweener never moves *)
  Lemma tweener_idle_holds v dts : t_value (trun dts (tweener_new v)) = v.
  Proof. unfold tweener_new. rewrite idle_stays. reflexivity. Qed.
End Tweener.
