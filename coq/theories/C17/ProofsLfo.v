(** C17 — proofs about the LFO: waveform ranges, the phase invariant, the frequency law
    (partition independence), and the F15 witness.  Exact rational arithmetic ([Num_Q]);
    the binary64 statements are at the end. *)
From Coq Require Import ZArith QArith Qround Qabs Qreduction Lia Lqa Bool List.
From KV Require Import Base.IEEE Base.Outcome Base.Num Base.QLemmas C19.Model C17.Model.
Import ListNotations.
Local Open Scope Q_scope.

(** *** unfolding the rational instance *)
Lemma qadd a b : nadd (T:=Q) a b == a + b. Proof. apply Qred_correct. Qed.
Lemma qsub a b : nsub (T:=Q) a b == a - b. Proof. apply Qred_correct. Qed.
Lemma qmul a b : nmul (T:=Q) a b == a * b. Proof. apply Qred_correct. Qed.
Lemma qneg a : nneg (T:=Q) a == - a. Proof. apply Qred_correct. Qed.
Lemma q075 : n075 (T:=Q) == 3 # 4. Proof. reflexivity. Qed.
Lemma qhalf : nhalf (T:=Q) == 1 # 2. Proof. reflexivity. Qed.
Lemma q4 : n4 (T:=Q) == 4. Proof. reflexivity. Qed.
Lemma q2 : n2 (T:=Q) == 2. Proof. reflexivity. Qed.
Lemma q1 : n1 (T:=Q) == 1. Proof. reflexivity. Qed.
Lemma q0 : n0 (T:=Q) == 0. Proof. reflexivity. Qed.
Lemma qm1 : nm1 (T:=Q) == -1. Proof. reflexivity. Qed.

Lemma Qfract_comp a b : a == b -> Qfract a == Qfract b.
Proof.
  intro E. rewrite !Qfract_eq. unfold Qtrunc. rewrite (Qtruncz_comp _ _ E). rewrite E. reflexivity.
Qed.
Lemma Qfract_nonneg_eq q : 0 <= q -> Qfract q == q - inject_Z (Qfloor q).
Proof. intro H. rewrite Qfract_eq, (Qtrunc_nonneg q H). reflexivity. Qed.

Lemma nabs_Q x : nabs (T:=Q) x == Qabs x.
Proof.
  unfold nabs. cbn [nsignneg Num_Q].
  destruct (Qltb x 0) eqn:E.
  - apply Qltb_true in E. rewrite qneg. symmetry. apply Qabs_neg. lra.
  - apply Qltb_false in E. symmetry. apply Qabs_pos. exact E.
Qed.

(** *** [Waveform::value] stays in [-1, 1] for a non-negative phase *)
Section Wave.
  Variable tau : Q.
  Variable sin : Q -> Q.
  Hypothesis sin_range : forall x, -1 <= sin x /\ sin x <= 1.

  Lemma triangle_range phase : 0 <= phase ->
    -1 <= wave_value tau sin Triangle phase /\ wave_value tau sin Triangle phase <= 1.
  Proof.
    intro Hp. cbn [wave_value].
    set (f := nfract (nadd phase n075)).
    assert (Hf : 0 <= f /\ f < 1).
    { unfold f. cbn [nfract Num_Q]. apply Qfract_nonneg_range. rewrite qadd, q075. lra. }
    rewrite qsub, qmul, nabs_Q, qsub, qhalf, q4, q1.
    destruct Hf as [F0 F1].
    destruct (Qlt_le_dec (f - (1 # 2)) 0) as [N|N].
    - rewrite (Qabs_neg (f - (1#2))) by lra. split; lra.
    - rewrite (Qabs_pos (f - (1#2))) by lra. split; lra.
  Qed.

  Lemma saw_range phase : 0 <= phase ->
    -1 <= wave_value tau sin Saw phase /\ wave_value tau sin Saw phase < 1.
  Proof.
    intro Hp. cbn [wave_value].
    set (f := nfract (nadd phase nhalf)).
    assert (Hf : 0 <= f /\ f < 1).
    { unfold f. cbn [nfract Num_Q]. apply Qfract_nonneg_range. rewrite qadd, qhalf. lra. }
    rewrite qsub, qmul, q2, q1. destruct Hf. split; lra.
  Qed.

  Lemma pulse_range width phase :
    -1 <= wave_value tau sin (Pulse width) phase /\ wave_value tau sin (Pulse width) phase <= 1.
  Proof.
    cbn [wave_value]. destruct (nltb phase width).
    - rewrite q1. split; lra.
    - rewrite qm1. split; lra.
  Qed.

  Lemma wave_range (w : waveform Q) phase : 0 <= phase ->
    -1 <= wave_value tau sin w phase /\ wave_value tau sin w phase <= 1.
  Proof.
    intro Hp. destruct w.
    - cbn [wave_value]. apply sin_range.
    - apply triangle_range; assumption.
    - destruct (saw_range phase Hp). split; lra.
    - apply pulse_range.
  Qed.

  (** Euclidean fractional part: [x - floor x], in [0,1) for every x *)
  Definition Qfrac_e (x : Q) : Q := x - inject_Z (Qfloor x).
  Lemma Qfrac_e_range x : 0 <= Qfrac_e x /\ Qfrac_e x < 1.
  Proof. unfold Qfrac_e. destruct (Qfloor_bounds x). split; lra. Qed.
  Lemma Qfrac_e_comp a b : a == b -> Qfrac_e a == Qfrac_e b.
  Proof. intro E. unfold Qfrac_e. rewrite (Qfloor_comp _ _ E), E. reflexivity. Qed.

  (** [rem_euclid(1.0)] is the Euclidean fractional part, whatever the sign *)
  Lemma rem_euclid_frac x : nrem_euclid1 (T:=Q) x == Qfrac_e x.
  Proof.
    unfold nrem_euclid1, Qfrac_e. cbn [nrem1 nltb n0 Num_Q].
    destruct (Qlt_le_dec x 0) as [N|N].
    - (* negative: fract = x - ceil x in (-1, 0] *)
      pose proof (Qfract_eq x) as E. rewrite (Qtrunc_neg x N) in E.
      destruct (Qceiling_bounds x) as [C1 C2].
      destruct (Qltb (Qfract x) 0) eqn:L.
      + apply Qltb_true in L. rewrite qadd, q1, E.
        assert (F : Qfloor x = (Qceiling x - 1)%Z).
        { apply Qfloor_unique; unfold Z.sub; rewrite inject_Z_plus, inject_Z_opp;
            change (inject_Z 1) with 1; lra. }
        rewrite F. unfold Z.sub. rewrite inject_Z_plus, inject_Z_opp. change (inject_Z 1) with 1. lra.
      + apply Qltb_false in L. rewrite E.
        assert (X : x == inject_Z (Qceiling x)) by lra.
        assert (F : Qfloor x = Qceiling x).
        { apply Qfloor_unique; lra. }
        rewrite F. reflexivity.
    - pose proof (Qfract_nonneg_range x N) as [R0 R1].
      assert (L : Qltb (Qfract x) 0 = false) by (apply Qltb_false; exact R0).
      rewrite L. apply Qfract_nonneg_eq. exact N.
  Qed.

  (** the phase after one update is in [0,1) -- for ANY previous phase, dt and frequency *)
  Lemma lfo_step_phase_eq w dt f a o phase :
    fst (lfo_step tau sin w dt f a o phase) == Qfrac_e (phase + dt * f).
  Proof.
    cbn [lfo_step fst]. rewrite rem_euclid_frac. apply Qfrac_e_comp. rewrite qadd, qmul. reflexivity.
  Qed.
  Lemma lfo_step_phase w dt f a o phase :
    0 <= fst (lfo_step tau sin w dt f a o phase) /\ fst (lfo_step tau sin w dt f a o phase) < 1.
  Proof. rewrite lfo_step_phase_eq. apply Qfrac_e_range. Qed.

  (** value = offset + amplitude * waveform: within offset +/- |amplitude| *)
  Lemma lfo_step_value_range w dt f a o phase :
    o - Qabs a <= snd (lfo_step tau sin w dt f a o phase) /\
    snd (lfo_step tau sin w dt f a o phase) <= o + Qabs a.
  Proof.
    destruct (lfo_step_phase w dt f a o phase) as [P0 _].
    cbn [lfo_step fst snd] in *.
    set (ph := nrem_euclid1 (nadd phase (nmul dt f))) in *.
    destruct (wave_range w ph P0) as [W0 W1].
    rewrite qadd, qmul.
    set (wv := wave_value tau sin w ph) in *.
    destruct (Qlt_le_dec a 0) as [N|N].
    - rewrite (Qabs_neg a) by lra. split; nra.
    - rewrite (Qabs_pos a) by lra. split; nra.
  Qed.

  (** *** running an LFO with fixed parameter values over a list of update steps *)
  Definition lfo_phase_run (w : waveform Q) (f a o : Q) (dts : list Q) (phase : Q) : Q :=
    fold_left (fun ph dt => fst (lfo_step tau sin w dt f a o ph)) dts phase.
  Definition Qsum (l : list Q) : Q := fold_right Qplus 0 l.
  Definition all_nonneg (l : list Q) : Prop := Forall (fun d => 0 <= d) l.

  Lemma Qfloor_sub_Z q (n : Z) : Qfloor (q - inject_Z n) = (Qfloor q - n)%Z.
  Proof.
    destruct (Qfloor_bounds q) as [F1 F2].
    apply Qfloor_unique.
    - unfold Z.sub. rewrite inject_Z_plus, inject_Z_opp. lra.
    - unfold Z.sub. rewrite inject_Z_plus, inject_Z_opp. lra.
  Qed.

  Lemma Qfrac_e_absorb x y : Qfrac_e (Qfrac_e x + y) == Qfrac_e (x + y).
  Proof.
    assert (E : Qfrac_e x + y == (x + y) - inject_Z (Qfloor x)) by (unfold Qfrac_e; ring).
    rewrite (Qfrac_e_comp _ _ E). unfold Qfrac_e.
    rewrite Qfloor_sub_Z. unfold Z.sub. rewrite inject_Z_plus, inject_Z_opp. lra.
  Qed.

  Lemma lfo_phase_run_closed w f a o dts : forall phase x,
    phase == Qfrac_e x ->
    lfo_phase_run w f a o dts phase == Qfrac_e (x + f * Qsum dts).
  Proof.
    induction dts as [|dt dts IH]; intros phase x E.
    - cbn [lfo_phase_run fold_left Qsum fold_right]. rewrite E. apply Qfrac_e_comp. ring.
    - cbn [lfo_phase_run fold_left].
      change (fold_left _ dts ?p) with (lfo_phase_run w f a o dts p).
      rewrite (IH _ (x + dt * f)).
      + apply Qfrac_e_comp. change (Qsum (dt :: dts)) with (dt + Qsum dts). ring.
      + rewrite lfo_step_phase_eq.
        rewrite (Qfrac_e_comp (phase + dt * f) (Qfrac_e x + dt * f)) by (rewrite E; reflexivity).
        apply Qfrac_e_absorb.
  Qed.

  Lemma Qfrac_e_unit x : 0 <= x -> x < 1 -> Qfrac_e x == x.
  Proof.
    intros H0 H1. unfold Qfrac_e.
    assert (F : Qfloor x = 0%Z) by (apply Qfloor_unique; change (inject_Z 0) with 0; lra).
    rewrite F. change (inject_Z 0) with 0. ring.
  Qed.

  (** any starting phase (any sign), any frequency, any steps: after at least one update the
      phase is the Euclidean fractional part of phase0 + f * t *)
  Lemma lfo_frequency_Q_proof w f a o dts phase0 :
    dts <> [] \/ (0 <= phase0 /\ phase0 < 1) ->
    lfo_phase_run w f a o dts phase0 == Qfrac_e (phase0 + f * Qsum dts).
  Proof.
    intros [Hne | [H0 H1]].
    - destruct dts as [|dt dts]; [congruence|].
      cbn [lfo_phase_run fold_left].
      change (fold_left _ dts ?p) with (lfo_phase_run w f a o dts p).
      rewrite (lfo_phase_run_closed w f a o dts _ (phase0 + dt * f)) by apply lfo_step_phase_eq.
      apply Qfrac_e_comp. change (Qsum (dt :: dts)) with (dt + Qsum dts). ring.
    - apply lfo_phase_run_closed. symmetry. apply Qfrac_e_unit; assumption.
  Qed.

  Lemma lfo_partition_independent w f a o dts1 dts2 phase0 :
    dts1 <> [] -> dts2 <> [] -> Qsum dts1 == Qsum dts2 ->
    lfo_phase_run w f a o dts1 phase0 == lfo_phase_run w f a o dts2 phase0.
  Proof.
    intros H1 H2 E.
    rewrite !lfo_frequency_Q_proof by (left; assumption). apply Qfrac_e_comp. rewrite E. reflexivity.
  Qed.

  Lemma lfo_phase_run_invariant w f a o dts : forall phase,
    dts <> [] \/ (0 <= phase /\ phase < 1) ->
    0 <= lfo_phase_run w f a o dts phase /\ lfo_phase_run w f a o dts phase < 1.
  Proof.
    intros phase H. rewrite (lfo_frequency_Q_proof w f a o dts phase H). apply Qfrac_e_range.
  Qed.
End Wave.

(** *** the whole [Lfo::update] (three parameters, any links, any tweens, any signs): the new
    phase is in [0,1) and the value is within offset +/- |amplitude| of the values in force *)
Section Update.
  Variable tau : Q.
  Variable sin : Q -> Q.
  Variable powf : Q -> Q -> Q.
  Variable secs_to_ns : Q -> Z.
  Variable ns_to_secs : Z -> Q.
  Hypothesis sin_range : forall x, -1 <= sin x /\ sin x <= 1.
  Let upd := lfo_update tau sin powf secs_to_ns ns_to_secs.

  Lemma lfo_update_spec dt lookup (l : lfo Q) :
    let l' := upd dt lookup l in
    (0 <= l_phase l' /\ l_phase l' < 1) /\
    p_raw (l_off l') - Qabs (p_raw (l_amp l')) <= l_value l' /\
    l_value l' <= p_raw (l_off l') + Qabs (p_raw (l_amp l')).
  Proof.
    unfold upd, lfo_update.
    set (f := param_update powf secs_to_ns ns_to_secs dt lookup (l_freq l)).
    set (a := param_update powf secs_to_ns ns_to_secs dt lookup (l_amp l)).
    set (o := param_update powf secs_to_ns ns_to_secs dt lookup (l_off l)).
    pose proof (lfo_step_phase tau sin (l_wave l) dt (p_raw f) (p_raw a) (p_raw o) (l_phase l)) as P.
    pose proof (lfo_step_value_range tau sin sin_range (l_wave l) dt (p_raw f) (p_raw a) (p_raw o) (l_phase l)) as V.
    destruct (lfo_step tau sin (l_wave l) dt (p_raw f) (p_raw a) (p_raw o) (l_phase l)) as [ph v] eqn:E.
    cbn [l_phase l_value l_freq l_amp l_off fst snd] in *.
    split; [apply P|apply V].
  Qed.
End Update.

(** *** F15 (repaired in /repo: [rem_euclid]): the old witness -- Saw, frequency 0, starting
    phase -0.9 turns, which used to give -1.8 -- now stays in range; kept as a regression *)
Definition zero1 (x : Q) : Q := 0.
Definition zero2 (x y : Q) : Q := 0.
Definition f15_tau : Q := 710 # 113.
Definition f15_lfo : lfo Q :=
  lfo_new f15_tau Saw (VFixed 0) (VFixed 1) (VFixed 0) (- (9 # 10) * f15_tau).
Definition f15_after : lfo Q :=
  lfo_update f15_tau zero1 zero2 (fun _ => 0%Z) (fun _ => 0) (1 # 4) (fun _ => None) f15_lfo.

Lemma negative_phase_witness_Q_proof :
  l_phase f15_lfo = - (9 # 10) /\ l_phase f15_after = 1 # 10 /\ l_value f15_after = 1 # 5.
Proof. vm_compute. repeat split; reflexivity. Qed.

(** the same witness in binary64, as the implementation computes it:
    [LfoBuilder::new().waveform(Saw).frequency(0.0).starting_phase(-0.9 * TAU)], one update *)
Definition tau64 : f64 := f64_of_bits 0x401921FB54442D18.
Definition f15_lfo64 : lfo f64 :=
  lfo_new tau64 Saw (VFixed (Z64 0)) (VFixed (Z64 1)) (VFixed (Z64 0))
          (mul64 (f64_of_bits 0xBFECCCCCCCCCCCCD) tau64).
Definition f15_after64 : lfo f64 :=
  lfo_update tau64 (fun x => x) (fun x _ => x) (fun _ => 0%Z) (fun _ => Z64 0) (f64_of_bits 0x3FD0000000000000)
             (fun _ => None) f15_lfo64.
Lemma negative_phase_witness_b64_proof :
  signbit64 (l_phase f15_lfo64) = true /\
  le64 (Z64 0) (l_phase f15_after64) = true /\ lt64 (l_phase f15_after64) (Z64 1) = true /\
  le64 (sub64 (Z64 0) (abs64 (Z64 1))) (l_value f15_after64) = true /\
  le64 (l_value f15_after64) (add64 (Z64 0) (abs64 (Z64 1))) = true.
Proof. vm_compute. repeat split; reflexivity. Qed.

(** binary64 only: a tiny negative phase makes [rem_euclid] return exactly 1.0 (so the invariant
    in binary64 is phase in [0,1], not [0,1)); every waveform is still in [-1,1] there *)
Lemma phase_one_b64_proof :
  bits_of_f64 (nrem_euclid1 (f64_of_bits 0xBC00000000000000)) = bits_of_f64 (Z64 1) /\
  bits_of_f64 (wave_value tau64 (fun x => x) Triangle (Z64 1)) = bits_of_f64 (Z64 0) /\
  bits_of_f64 (wave_value tau64 (fun x => x) Saw (Z64 1)) = bits_of_f64 (Z64 0) /\
  bits_of_f64 (wave_value tau64 (fun x => x) (Pulse (Z64 1)) (Z64 1)) = bits_of_f64 (nm1 (T:=f64)).
Proof. vm_compute. repeat split; reflexivity. Qed.
