(** C17 — non-vacuity: concrete, non-trivial instances that meet the hypotheses of the theorems
    of Props.v (and show that the bounds are attained / the lag is real), by computation. *)
From Coq Require Import ZArith QArith Qround Qabs Qreduction List Bool.
From KV Require Import Base.IEEE Base.Outcome Base.Num C19.Model C17.Model
  C17.ProofsLfo C17.ProofsTween C17.ProofsOrder C17.ProofsMap.
Import ListNotations.
Local Open Scope Q_scope.

Definition half1 (x : Q) : Q := 1 # 2.
Definition idp (x y : Q) : Q := x.
Definition s2n (x : Q) : Z := Qfloor (x * 1000000000).
Definition n2s (ns : Z) : Q := Qred (inject_Z ns / 1000000000).

(** the oracle hypothesis of [waveform_range_Q] is satisfiable, and the bounds are attained *)
Example sin_hyp_ok : forall x : Q, -1 <= half1 x /\ half1 x <= 1.
Proof. intro x. unfold half1. split; discriminate. Qed.
Example triangle_extremes :
  wave_value 6 half1 Triangle (1 # 4) = 1 /\ wave_value 6 half1 Triangle (3 # 4) = -1 /\
  wave_value 6 half1 Triangle 0 = 0 /\ wave_value 6 half1 Saw (1 # 2) = -1 /\
  wave_value 6 half1 Saw (1 # 4) = 1 # 2 /\ wave_value 6 half1 (Pulse (1 # 2)) (1 # 4) = 1 /\
  wave_value 6 half1 (Pulse (1 # 2)) (1 # 2) = -1.
Proof. vm_compute. repeat split; reflexivity. Qed.

(** [lfo_frequency_Q] / [phase_invariant_Q]: f = 3 Hz, phase0 = 1/4, half a second in two partitions *)
Example lfo_frequency_example :
  all_nonneg [1 # 8; 1 # 4; 1 # 8] /\ all_nonneg [1 # 2] /\
  lfo_phase_run 6 half1 Saw 3 1 0 [1 # 8; 1 # 4; 1 # 8] (1 # 4) = 3 # 4 /\
  lfo_phase_run 6 half1 Saw 3 1 0 [1 # 2] (1 # 4) = 3 # 4 /\
  Qred (Qfrac_e ((1 # 4) + 3 * Qsum [1 # 2])) = 3 # 4 /\
  (* a negative starting phase and a negative frequency *)
  lfo_phase_run 6 half1 Saw (-3) 1 0 [1 # 8; 1 # 4] (- (9 # 10)) = 39 # 40.
Proof.
  split; [repeat constructor; discriminate|]. split; [repeat constructor; discriminate|].
  vm_compute. repeat split; reflexivity.
Qed.

(** [tweener_law]: 0 -> 8 in one second, linear; two partitions of half a second; the end; holding *)
Definition tw1 : tween Q := {| tw_start := Immediate; tw_dur := 1000000000; tw_easing := Linear |}.
Example tweener_example :
  start_ready Immediate /\ all_nonneg [1 # 4; 1 # 4] /\
  t_value (trun idp s2n n2s [1 # 4; 1 # 4] (tweener_set (tweener_new 0) 8 tw1)) = 4 /\
  t_value (trun idp s2n n2s [1 # 2] (tweener_set (tweener_new 0) 8 tw1)) = 4 /\
  t_value (trun idp s2n n2s [1 # 2; 1 # 2] (tweener_set (tweener_new 0) 8 tw1)) = 8 /\
  t_state (trun idp s2n n2s [1 # 2; 1 # 2] (tweener_set (tweener_new 0) 8 tw1)) = TIdle /\
  t_value (trun idp s2n n2s [1 # 2; 1 # 4; 1 # 2; 5] (tweener_set (tweener_new 0) 8 tw1)) = 8 /\
  (* a delay of 0.3 s: two updates of 0.25 s only count down, the third starts counting *)
  t_value (trun idp s2n n2s [1 # 4; 1 # 4; 1 # 4]
             (tweener_set (tweener_new 0) 8 {| tw_start := Delayed 300000000; tw_dur := 1000000000; tw_easing := Linear |})) = 2.
Proof.
  split; [left; reflexivity|]. split; [repeat constructor; discriminate|].
  vm_compute. repeat split; reflexivity.
Qed.

(** [modulator_chain_lag] on a concrete arena: an LFO (amplitude 0) whose offset is linked with
    the identity mapping to a probe modulator whose value is its update count.
    Reader BEFORE the modulator it reads: one chunk behind.  Reader AFTER it: same chunk. *)
Definition ident_map (id : Z) : value Q :=
  VFromMod id {| in_lo := 0; in_hi := 100; out_lo := 0; out_hi := 100; m_easing := Linear |}.
Definition reader : modulator Q := MLfo (lfo_new 6 Saw (VFixed 0) (VFixed 0) (ident_map 7) 0).
Definition counter : modulator Q := MProbe (-1) 0.
Definition three_chunks (mods : list (Z * modulator Q)) : list (list (Z * Q)) :=
  let step ms := fst (process_mods 6 half1 idp s2n n2s (1 # 4) [] ms) in
  let m1 := step mods in let m2 := step m1 in let m3 := step m2 in
  [vals_of m1; vals_of m2; vals_of m3].
Example chain_lag_example :
  three_chunks [(3%Z, reader); (7%Z, counter)] =
    [[(3%Z, 0); (7%Z, 1)]; [(3%Z, 1); (7%Z, 2)]; [(3%Z, 2); (7%Z, 3)]] /\
  three_chunks [(7%Z, counter); (3%Z, reader)] =
    [[(7%Z, 1); (3%Z, 1)]; [(7%Z, 2); (3%Z, 2)]; [(7%Z, 3); (3%Z, 3)]].
Proof. vm_compute. split; reflexivity. Qed.
Definition ident_mapping : mapping Q := {| in_lo := 0; in_hi := 100; out_lo := 0; out_hi := 100; m_easing := Linear |}.
Lemma chain_reader_first_refuted_proof :
  exists (mods : list (Z * modulator Q)) (rid mid : Z) (m : mapping Q),
    let mods' := fst (process_mods 6 half1 idp s2n n2s (1 # 4) [] mods) in
    exists x r : Q,
      lookup_val (vals_of mods') mid = Some x /\ lookup_val (vals_of mods') rid = Some r /\
      ~ r == map_value idp m x.
Proof.
  exists [(3%Z, reader); (7%Z, counter)], 3%Z, 7%Z, ident_mapping. cbv zeta.
  exists 1, 0. split; [vm_compute; reflexivity|]. split; [vm_compute; reflexivity|].
  vm_compute. discriminate.
Qed.
(** a modulator linked to its own id reads the dummy's 0.0: offset = map(0) = 10 *)
Example chain_self_example :
  let self := MLfo (lfo_new 6 Saw (VFixed 0) (VFixed 0)
                      (VFromMod 3 {| in_lo := 0; in_hi := 8; out_lo := 10; out_hi := 18; m_easing := Linear |}) 0) in
  three_chunks [(3%Z, self)] = [[(3%Z, 10)]; [(3%Z, 10)]; [(3%Z, 10)]].
Proof. vm_compute. reflexivity. Qed.

(** [once_per_chunk], [linked_same_chunk], [holds_after_removal], [removed_at_next_callback] on a
    concrete history: tweener 0 (1 -> 5 in one second), a probe linked to it with an inverted,
    eased mapping, callbacks, drop, a NEW modulator, more callbacks *)
Definition probe_map : mapping Q := {| in_lo := 5; in_hi := 1; out_lo := -1; out_hi := 1; m_easing := InPowi 2 |}.
Definition history : list (op Q) :=
  [ OAddMod 0%Z (MTweener (tweener_new 1));
    OAddProbe 0%Z (PrParam 0%Z (param_new (VFromMod 0%Z probe_map) 0));
    OSetTweener 0%Z 5 tw1;
    OCallback 7%Z; OCallback 3%Z;
    ODropMod 0%Z; OAddMod 1%Z (MTweener (tweener_new 77));
    OCallback 5%Z ].
Definition final : rstate Q := run_ops 6 half1 idp s2n n2s 8%Z 2%Z history.
Definition probe_values (st : rstate Q) : list (option Q * Q) :=
  flat_map (fun e => match e with EvProbe _ _ raw v => [(raw, v)] | _ => [] end) (r_log st).
Example history_example :
  probe_values final =
    [ (Some 2, 1 # 8); (Some 3, -1 # 2); (Some 4, -7 # 8); (Some (9 # 2), -31 # 32);   (* callback of 7 = 2+2+2+1 *)
      (Some 5, -1); (Some 5, -1);                                                  (* reached and held *)
      (None, -1); (None, -1); (None, -1) ]                                         (* removed: the parameter holds *)
  /\ map call_of (r_log final) =
       flat_map (expected_calls (1 # 8) [0%Z] [] [0%Z]) [2; 2; 2; 1; 2; 1]%Z ++
       flat_map (expected_calls (1 # 8) [1%Z] [] [0%Z]) [2; 2; 1]%Z.
Proof. vm_compute. split; reflexivity. Qed.
